#!/bin/bash
# Offline setup: warm the Go build cache by building every harness once against /repo.
set -u
export GOFLAGS=-mod=mod GOPROXY=off GOSUMDB=off GOTOOLCHAIN=local GODEBUG=goindex=0
VERIF=$(cd "$(dirname "$0")" && pwd)
cd "$VERIF/mc" || exit 1
SCRATCH=$(mktemp -d /var/tmp/verif-setup-XXXXXX)
trap 'rm -rf "$SCRATCH"' EXIT
cp go.mod "$SCRATCH/go.mod"; cp /repo/go.sum "$SCRATCH/go.sum" 2>/dev/null
export VERIF_MODFILE="$SCRATCH/go.mod"
rc=0
for d in cmd/c[0-9][0-9]; do
  id=$(basename "$d" | tr 'a-z' 'A-Z')
  mkdir -p "$SCRATCH/$id"
  if python3 mkoverlay.py "$id" /repo "$SCRATCH/$id" > "$SCRATCH/$id/overlay.json" && \
     go build -modfile="$SCRATCH/go.mod" -tags verif -overlay "$SCRATCH/$id/overlay.json" -o "$SCRATCH/$id/bin" ./$d; then
    echo "setup: built $id"
  else
    echo "setup: FAILED to build $id" >&2; rc=1
  fi
  rm -rf "$SCRATCH/$id"
done
mkdir -p "$VERIF/evidence" "$VERIF/replays"
exit $rc
