#!/usr/bin/env python3
"""Regenerates MANIFEST.json from the table below (kept in one place so it stays valid)."""
import json, os
ALL = ["C%02d" % i for i in range(1, 21)]
CHECKS = {
 "C19": dict(
  engine="histmc", category="model_checking", design_ref="DESIGN.md §3 C19",
  technique="explicit-state BFS to fixpoint over the real AVL tree (+ live iterators) vs. sorted-set reference model; successors by replay on fresh instances",
  text="Every Insert/Delete/Iterator/IteratorFrom/Next transition from every reachable (tree shape, balance factors, iterator node) state over key universe {0..K-1} (quick K=7 with one live iterator and K=5 with two; thorough K=10/one and K=7/two) is executed on the real code and compared with a sorted-set model (return values, membership, lower bound, full iteration from every bound, live-iterator continuation, AVL invariants, parent links, clone independence, safe-iterator snapshots). The state space over a fixed universe is finite and is closed (BFS fixpoint), so 'all finite histories' over that universe are covered, not a depth bound.",
  note="Trusted: the sorted-set model in cmd/c19, the canonical state key (tree incl. balance/parent/deleted flags + iterator node path/value; read through an overlay-added read-only accessor file), keys behave uniformly (only compared). Not covered: universes larger than K, more than two simultaneously live iterators, reuse of an iterator after it reported the end."),
}
NA = {i: "check not built yet in this round (planned: see DESIGN.md §3 %s); no claim is made" % i for i in ALL}
m = {
 "version": 1,
 "setup_cmd": "./setup.sh",
 "hooks": {
  "guard": "verif",
  "enable": "no source hooks are committed to /repo: checks build with `go build -tags verif -overlay <generated.json>` which ADDS files mc/overlay/autodiff/** (read-only accessors, //go:build verif) to the packages, replaces the external threadpool dependency by a controlled pool (C17) and overlays tick-instrumented copies of algorithm/** generated from the current tree at check time (C04-C07, C20)",
  "baseline_off_cmd": "cd /repo && GOFLAGS=-mod=mod GOPROXY=off GOSUMDB=off GOTOOLCHAIN=local go test -vet=off -count=1 -timeout 25m ./...",
  "source_commits": [],
  "add_only": True,
 },
 "engines": [
  {"name": "vf", "path": "mc/vf", "serves_properties": sorted(CHECKS), "kind_free_text": "supervisor: sharded worker subprocesses, violation grouping by structural key, known-findings matching, replay artefacts, evidence writer, hang watchdog"},
  {"name": "histmc", "path": "mc/cmd/c19", "serves_properties": ["C19"], "kind_free_text": "explicit-state BFS over real objects with replay-built successors and canonical state hashing"},
 ],
 "checks": [],
 "not_applicable": [],
 "notes": "All checks rebuild their harness from /repo's current working tree (go.mod replace => /repo). Exit 0 = held (KNOWN-FINDING lines for entries of known_findings.json), 1 = VIOLATION line(s), 2 = harness/build failure.",
}
for pid in ALL:
    if pid in CHECKS:
        c = CHECKS[pid]
        m["checks"].append({
         "property_id": pid,
         "quick_cmd": "./check run %s quick" % pid,
         "thorough_cmd": "./check run %s thorough" % pid,
         "evidence_file": "evidence/%s.json" % pid,
         "replay_cmd_template": "./check replay {path}",
         "engine": c["engine"],
         "level_claimed": {"category": c["category"], "text": c["text"], "design_ref": c["design_ref"]},
         "level_note": c["note"],
         "technique": c["technique"],
        })
    else:
        m["not_applicable"].append({"property_id": pid, "reason": NA[pid]})
json.dump(m, open(os.path.join(os.path.dirname(os.path.abspath(__file__)), "MANIFEST.json"), "w"), indent=1)
print("checks:", [c["property_id"] for c in m["checks"]])
