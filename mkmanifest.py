#!/usr/bin/env python3
"""Regenerates MANIFEST.json from the table below (kept in one place so it stays valid)."""
import json, os
ALL = ["C%02d" % i for i in range(1, 21)]
CHECKS = {
 "C19": dict(
  engine="histmc", category="model_checking", design_ref="DESIGN.md §3 C19",
  technique="explicit-state BFS to fixpoint over the real AVL tree (+ live iterators) vs. sorted-set reference model; successors by replay on fresh instances",
  text="Every Insert/Delete/Iterator/IteratorFrom/Next transition from every reachable (tree shape, balance factors, iterator node) state over key universe {0..K-1} (quick K=7 with one live iterator and K=5 with two; thorough K=10/one and K=7/two) is executed on the real code and compared with a sorted-set model (return values, membership, lower bound, full iteration from every bound, live-iterator continuation, AVL invariants, parent links, clone independence, safe-iterator snapshots). The state space over a fixed universe is finite and is closed (BFS fixpoint), so 'all finite histories' over that universe are covered, not a depth bound.",
  note="Trusted: the sorted-set model in cmd/c19, the canonical state key (tree incl. balance/parent/deleted flags + iterator node path/value; read through an overlay-added read-only accessor file), keys behave uniformly (only compared). Not covered: universes larger than K, more than two simultaneously live iterators, reuse of an iterator after it reported the end."),
 "C17": dict(
  engine="schedmc", category="model_checking", design_ref="DESIGN.md §3 C17",
  technique="stateless preemption-bounded DFS over a controlled thread pool (overlay replacement of the threadpool dependency) running the real estimators; separate -race build of the same exploration with an invisible baton and explicit real-pool happens-before edges; real-pool conformance run",
  text="Every scheduling choice of a controlled thread pool that mirrors the real pool's transition rules (worker receive, AddJob incl. inline-on-full-buffer, Wait check/select/block incl. nested pick-up of foreign jobs, Done) is enumerated by depth-first search up to a preemption bound (quick 2, nested bodies at T=3: 1; thorough 3/2) for 30 estimator bodies (scalar closed-form estimators with and without weights, wrappers, numeric, ScalarIid/ScalarId, vector normal, scalar and vector mixture EM, vector and matrix HMM Baum-Welch, logistic regression) x pool sizes 2..3 (thorough 4) x buffer sizes {1,100} x data sizes below/equal/above the pool size. Every execution runs the real code to completion and must equal the sequential (pool size 1) result up to 1e-9 relative, with no deadlock, lost, pending or doubly-run job. The same exploration runs in a -race build in which baton hand-offs are hidden from the detector and only the real pool's edges are annotated, so each enumerated job->thread assignment is judged for data races independent of timing. A conformance run on the real pool (-race) checks results against sequential and that every job->thread assignment the real pool produces on probe job structures is among those the model enumerates exhaustively (real within model).",
  note="Trusted: the controlled pool's fidelity to threadpool.go of the pinned version (argued in the overlay file header and bound by the probe conformance run), Go's race detector (may miss, does not invent), scheduling only at pool operations (sufficient under race freedom, which the race pass checks). Not covered: schedules beyond the preemption bound, pool sizes > 4, the real pool's window between wg.Done and recording a job error."),
}

def ex(pid, engine, cat, tech, text, note):
    CHECKS[pid] = dict(engine=engine, category=cat, design_ref="DESIGN.md §3 %s and §8 %s (as built)" % (pid, pid), technique=tech, text=text, note=note)

ex("C01", "regmc", "exploration",
   "exhaustive enumeration of straight-line scalar register programs (depth<=2 quick, <=3 thorough) x boundary/composition point lattices, run on the real Real32/Real64 scalars vs an independent jet reference model",
   "Every register program over the scalar operations and reductions up to the stated depth, with variables, constants, plain and reused magic registers in every operand slot, is executed on the real code at every point of per-operation boundary lattices (all piecewise branch boundaries +-1,2 ulp) and composition grids, for orders 1 and 2, 1..3 variables, Real64 and Real32; value, every first and second partial, Hessian symmetry (bitwise), exact zeros for independent variables and the gradient/Hessian helpers are compared with an independent jet model that validates itself against finite differences during the run. Exhaustive over that bounded program x point space, not over all expressions or all floats.",
   "Trusted: the harness's jet model and from-scratch special functions (self-validated by Richardson finite differences), Go's math package, conditioning-aware tolerance 64 x first-order bound (ill-conditioned components are skipped). Not covered: depth>3, N>3, points between lattice points.")
ex("C02", "regmc", "exploration",
   "exhaustive product op x receiver type x operand type(s) x value lattice on the real scalar types vs independently computed named functions and Go conversion rules",
   "All 34 scalar operations, the reductions, the comparisons and every conversion entry point are executed for every receiver type, every operand kind (16 scalar types + magic variables; all 324 operand-type pairs for binary operations) and every value of a lattice containing 0, +-0.0, small values, type extremes, +-Inf and NaN (restricted to what each type holds exactly); results must equal the named mathematical function computed independently in float64 and converted by Go's rules (integer receivers: Go integer arithmetic), agree across storage types, and converted scalars must have the requested type and value.",
   "Trusted: Go's math package and the harness's own formulas for LogErfc/GammaP/BesselI/... (validated at start-up against closed forms). Only the value lattice is decided. Undefined cases (implementation-defined float->int conversion, integer x/0, NaN in order comparisons) are excluded and counted.")
ex("C03", "histmc", "exploration",
   "exhaustive single-step enumeration op x storage combination x zero pattern (incl. explicit stored zeros) x receiver prior content x element type on the real containers vs a plain dense jet model",
   "Every vector and matrix operation, conversion and index/value constructor is executed for every dense/sparse combination of receiver and operands, every content over {0,1,-2} (+ absent / explicitly stored zero for sparse), every prior receiver content, dimensions 0..3 (4 for Float64 in thorough), all rectangular shapes in the bound and all nine element types (Real types also with entries activated as order-2 variables, comparing gradient and Hessian); every result element is read back and must equal an exact dense reference.",
   "Exact regime (small integers/dyadics) so any evaluation order gives the same bits. Not covered: n>4, SparseConst operands, other value alphabets.")
ex("C04", "smallscope", "exploration",
   "exhaustive small-scope enumeration of integer matrices x right-hand sides x option combinations x element types on the real solvers vs an exact integer/rational reference; deterministic loop-tick budget",
   "All n x n integer matrices in the stated lattices (n<=3 full, n=4 all pivot orders of unit-triangular sign patterns and all symmetric {-1,0,1} matrices in thorough) are run through determinant, matrixInverse, gaussJordan and backSubstitution with every option combination whose precondition the matrix exactly satisfies, every right-hand side and sub-matrix mask, caller-supplied buffers pre-filled with garbage, Float32/Float64/Real32/Real64; residuals of the defining equations must be below 1024 u kappa computed from the exact inverse, and structurally singular input must give an error, panic or non-finite output.",
   "Trusted: exact Bareiss/adjugate reference cross-checked against an independent big.Rat inverse on every matrix. Well-conditioned small integer inputs only; singular but non-structural blocks are not judged.")
ex("C05", "smallscope", "exploration",
   "exhaustive small-scope enumeration of integer matrices (square, symmetric, exactly-SPD, tall) x option products on the real factorisation routines vs reference-free defining equations and exact integer spectra; tick budget",
   "Every matrix of the stated lattices is run through every decomposition admissible for it (Cholesky/LDL/ForcePD, Gram-Schmidt, Hessenberg, bi-/tridiagonalisation, QR algorithm, eigensystem, SVD, msqrt, msqrtInv) with every option product and stale in-situ buffers, Float64 and Real64; the returned factors must multiply back to the input with the promised structure, eigenvalues must match the exact integer characteristic polynomial's real roots with multiplicity, eigenpairs must be aligned and ordered.",
   "Tolerance 1e-9 max(1,|A|) on these well-conditioned lattices ((1e-9)^(1/k) for k-fold roots). Inputs exceeding the deterministic step budget are excluded here and reported by C20. n<=4.")
ex("C06", "smallscope", "exploration",
   "exhaustive enumeration of integer matrices x activation patterns x derivative orders on the real routines vs closed-form matrix calculus from an exact reference and differentiated defining equations; fast path vs generic path differential",
   "On the C04 lattices (n<=3) every single entry, every row, the full matrix, the symmetric upper triangle (and none, with stale buffers) is activated with order 1 and 2 on Real64/Real32 matrices for products, inverse, solve, determinant, Cholesky/LDL, Gram-Schmidt and Hessenberg; values must equal the plain float run (= specialised vs generic path), every first and second derivative slot must equal the closed form from the exact inverse/cofactors or satisfy the differentiated factorisation identities; Jacobian/Hessian helpers are checked on 192 expressions x 27 points.",
   "Trusted: exact rational reference and the harness's independent jet arithmetic. Not covered: derivatives through the QR algorithm, eigensystem and SVD; singular inputs.")
ex("C08", "regmc+histmc", "exploration",
   "exhaustive enumeration of all alias partitions of (receiver, operands, temporaries) x values x derivative states for scalars, and of receiver/operand aliasing incl. all slice/transpose windows for containers; differential oracle aliased call vs fully copied call",
   "Every scalar operation (generic and concrete) is called under every set partition of its argument slots into objects, for every value of a grid with all branch points and every derivative state of the receiver; every container operation under every aliasing of receiver and operands, dense and sparse, all nine element types, all shapes in the bound and through every window/transpose of a small base matrix; the receiver must be bit-identical to the same call made with every operand deep-copied (or to an explicit alias rejection panic).",
   "Temporaries are treated as scratch that must be distinct (undocumented otherwise; every in-repo caller passes a dedicated object): partitions sharing a temporary are executed and counted but not judged. Three alias families are listed as known findings.")
ex("C09", "regmc+histmc", "exploration",
   "reflection-discovered method pairs x exhaustive operand lattices; differential oracle generic method vs capital-letter method on identically built operands",
   "All 726 (generic, concrete) method pairs found by reflection on scalar, vector and matrix types are executed on operands built twice from the same specification over exhaustive small lattices (values incl. +-Inf/NaN and derivative orders for scalars; every zero/stored-zero pattern, receiver prior content and shape tuple for containers) and must give identical panic status, return value, receiver and operand state and storage sharing.",
   "Sign of zero and stored-zero-vs-absent inside sparse containers are normalised. New container types are not picked up automatically (static prototype table; const types are scanned and a new pair there is a harness error).")
ex("C10", "histmc", "model_checking",
   "explicit-state BFS to fixpoint over the finite space of Slice/T view states of small base matrices (real objects, canonical key = implementation header + model window), ~110 operations per state, differential oracle view vs independent deep copy + write-through check on the root",
   "For every base (dense/sparse x element type x shape <=3x3 quick, <=4x4 thorough x content) the closure of all Slice bounds and transposes is explored to fixpoint; in every state every public read, write, accessor, iterator, arithmetic operation (as receiver and as operand), permutation, printing, export/JSON round trip and clone is executed on the view and on an independent deep copy and must agree, and writes through the view must change exactly the denoted cells of the root. Because the view space of a base is finite this covers all finite compositions of Slice and T for these bases.",
   "Trusted: the [][]float64 model and denotation map; the overlay accessor that reads the private header (read-only, used only for state keys). The deep copy has the same storage class as the view (storage-dependent defects are C03/C11). Sparse T() write-through is left unspecified.")
ex("C11", "histmc", "model_checking",
   "explicit-state BFS to fixpoint over real sparse vectors/matrices (+ live iterators) with canonical keys from private state, successors by replay on fresh instances, dense reference model",
   "From the empty container of every dimension the full public alphabet (element access that creates entries, writes of 0 and non-zero values, Set, Reset, Swap, Permute for all permutations, Sort, ReverseOrder, Slice with write-through, Append, value-preserving arithmetic, iterator walks, live iterators advanced between any two operations, Clone; matrices also row/column swaps, permutations, T, Tip, Slice, Row/Col/Diag) is applied from every reachable state until no new state appears (n<=3 quick, n<=4 thorough); after every transition every in-range read, a fresh iteration and every live iterator's continuation must agree with the dense model.",
   "Trusted: dense model; overlay accessors to the values map / index tree / iterator fields (state keys and early-warning annotations only). After reordering operations a live iterator is only required to stay safe. Values {-1,0,1,2}; Real derivatives unused.")
ex("C12", "histmc", "model_checking",
   "explicit-state enumeration of object states (incl. all view states) x every copy constructor x every single mutation (thorough: every ordered pair) on either side; read-only operand snapshots around every operation and representative algorithm calls",
   "For every enumerated scalar, vector and matrix state (all element types, all view states reachable by Slice/T, derivative content) every Clone/As*/magic/const copy constructor is applied; the copy must be observably equal and, after every mutation of a ~35-50 operation alphabet applied to either side, the other side (and the source's parent) must be unchanged; iterator clones must continue independently; every operation's non-receiver operands and 642 algorithm inputs are snapshotted before and compared after the call.",
   "Exact comparison through public reads. The algorithm set is representative (optimizers, inverse, determinant, cholesky, QR, SVD, eigensystem); dense Slice-then-Append overwriting the parent's spare capacity is recorded as an outcome class, not judged.")
ex("C13", "lattice", "exploration",
   "exhaustive enumeration of finite floating-point sub-lattices (bounded mantissa bits x exponent range, integer/half-integer orders, every source threshold +-ulps, every float32 for univariate identities) vs committed 60-digit mpmath reference tables and reference-free identities",
   "Every special function is evaluated at every point of the stated float sub-lattices, including each algorithm-selection threshold found in the source with its ulp neighbourhood, and compared with committed high-precision tables within 256 u max(1,cond); recurrences, complements and log-variant identities are checked on the lattices and (thorough) on every float32 argument. Decides the lattice points only - the quantifier 'all float64 arguments' is not reachable by enumeration.",
   "Trusted: mpmath 1.3.0 tables (generator committed, checksums verified at start), math.Gamma/Lgamma/Erfc to a few ulp. Nothing is demanded where the function is ill-conditioned (256 u cond >= 1/2) or under/overflows.")
ex("C14", "lattice", "exploration",
   "exhaustive enumeration of parameter lattices (valid and invalid) x evaluation-point lattices x fixed quadrature node sets for 35 distribution families vs independent textbook densities",
   "Every family and wrapper is constructed at every point of a valid parameter lattice (and must be refused at every point of an invalid one), evaluated at interior grids, at each support bound +-{0, 1 ulp, 1e-9, 1e-3}, far outside and at +-Inf, with Float64 and Real64 parameters; log-densities must match an independent textbook formula, be exactly -Inf outside the support, integrate/sum to one on a fixed Gauss-Legendre node set, CDFs must be monotone with the density as derivative (finite difference and AD), and clone / parameter / config round trips must be exact.",
   "Parametrisation taken from constructor names, comments and repository tests. Mass errors below 1e-6 and points off the lattices are invisible; some heavy-tailed shapes are gated out of the normalisation clause.")
ex("C15", "pathenum", "exploration",
   "exhaustive enumeration of small HMMs/mixtures (all stochastic parameters over a dyadic alphabet incl. zeros, all state maps, start/final restrictions, emission tables, sequences, state-set sequences) vs brute-force summation over all hidden paths",
   "For every model with up to 3 states and every observation sequence up to length 4 (5) the library's log-likelihood, forward/backward tables (generic and float64-specialised), posterior marginals, state-set posteriors, Viterbi path, one Baum-Welch step and mixture posteriors are compared with sums/maxima over the explicit list of all m^n hidden paths computed without library calls.",
   "Tolerance 1e-10 (dyadic probabilities). Any Viterbi maximiser is accepted. Inadmissible models (no mass on final states / start restriction removes all mass) are skipped and counted.")
ex("C16", "pathenum", "exploration",
   "exhaustive enumeration of data sets x weights x bounds for closed-form estimators (exact MLE + perturbation oracle) and of data x initialisation for EM, checking every step of every trajectory",
   "Closed-form estimators are run on all data sequences of size 1..4 (5) over small alphabets with all weight vectors over {0, log 1/2, log 1/4} and configured bounds; the estimate must be the exact weighted maximiser within the bounds and no admissible perturbation may raise the harness's own log-likelihood. EM for mixtures, HMMs and a nested configuration is run from a lattice of initialisations on all small data sets; at every iteration the likelihood must not decrease and the value passed to the hook must equal the independent log-likelihood of the model that iteration's E-step used.",
   "Pool size 1 (parallel behaviour is C17). Monotonicity demanded only for exact (possibly box-constrained) M-steps. Numeric estimator: stationarity where two iteration budgets agree.")
ex("C18", "codec", "exploration",
   "exhaustive round-trip enumeration (value lattices, zero patterns, view shapes, nested distributions) and bounded-exhaustive malformed input (every truncation, single-byte deletion/substitution, single-node JSON mutation, all short strings) against all readers; per-shard child process for crash attribution",
   "Every scalar, vector, matrix (all types, dims 0..3, every pattern, every Slice/T view of a 3x3 base) and 48 distribution instances are written as JSON / table / gzip table / config and read back: values bitwise (incl. -0.0, subnormals, integers above 2^53), derivatives, dims and non-zero positions must survive, and a view must encode like its deep copy. For malformed input derived exhaustively from valid encodings every reader must return an error or an object that survives a full read.",
   "NaN/Inf excluded. Malformed inputs are single mutations of one valid encoding per reader plus all strings of <=3-4 symbols over a reduced alphabet.")
ex("C20", "smallscope+envmc", "exploration",
   "exhaustive enumeration of degenerate matrix families and poisoned objectives under a deterministic loop-tick/evaluation budget (termination), and of all shape tuples / index values / permutation arrays / option values against a reference model with sentinel-framed views (loud failure)",
   "Termination: every matrix of the C05 lattices plus sizes 0/1, all nilpotent patterns, Jordan blocks, rank-one matrices and single NaN/Inf entries at every position is run through every iterative and direct routine, and every optimizer through objectives that turn NaN/Inf/error from call k on; exceeding 2e5 (n+1)^3 loop ticks or 1e5 objective evaluations is the (replayable, load-independent) verdict. Loud failure: 2.2e6 container calls over all shape tuples from dims {0..3}, indices {-1,0,d-1,d,d+1}, all permutation arrays, negative orders and 21 algorithm entry points with invalid options must panic or return an error when non-conforming, never return a wrong-shaped result, read outside a view or corrupt the receiver.",
   "Termination is decided against a budget on lattice inputs, not proved. Tick instrumentation is generated from the current tree at check time (overlay). An invalid option is a violation only if it hangs or changes the result shape.")
ex("C07", "envmc", "exploration",
   "deviation-bounded exhaustive exploration of environment answers (objective / gradient / constraint / hook) for 12 optimizer entry points over parametrised objective families x start lattice x option lattices; 0, then 1, then 2 deviations at every callback index",
   "BFGS, Newton root/critical point/minimum, Rprop (both forms), gradient descent, Adam (both forms), line search, SAGA (five objective interfaces) and Blahut-Arimoto are run on every objective of families with known optima (SPD quadratics with exact minimiser, Rosenbrock, separable cosh, quartics with known critical points, regularised logistic losses, root systems, finite sums, small channels) from every start of {-2,-1,0,1/2,1,2}^n with every option combination, first with exact answers, then with exactly one deviating answer (error, NaN value, NaN gradient, constraint says infeasible, hook says stop) at every callback index k<=12 the run reaches, then (small blocks) with two. On return without error, hook stop or cap the routine's own stopping condition is re-evaluated on the pure objective at the returned point; constraints, hook arguments and the caller's x0 are checked always.",
   "Runs are bounded by deterministic loop-tick and evaluation budgets (capped runs are excluded by the property's premise and belong to C20). SAGA optimality bound for several components is empirical; Blahut has no epsilon of its own (Arimoto bound + caller-side gap stop).")

NA = {i: "check still under construction in this round (planned: see DESIGN.md §3 %s); no claim is made yet" % i for i in ALL}
m = {
 "version": 1,
 "setup_cmd": "./setup.sh",
 "hooks": {
  "guard": "verif",
  "enable": "no source hooks are committed to /repo: checks build with `go build -tags verif -overlay <generated.json>` which ADDS files mc/overlay/autodiff/** (read-only accessors, //go:build verif) to the packages, replaces the external threadpool dependency by a controlled pool (C17) and overlays tick-instrumented copies of algorithm/** generated from the current tree at check time (C04-C07, C20)",
  "baseline_off_cmd": "cd /repo && GOFLAGS=-mod=mod GOPROXY=off GOSUMDB=off GOTOOLCHAIN=local go test -vet=off -count=1 -timeout 25m ./...",
  "source_commits": [],
  "add_only": True,
 },
 "engines": [
  {"name": "vf", "path": "mc/vf", "serves_properties": sorted(CHECKS), "kind_free_text": "supervisor: sharded worker subprocesses, violation grouping by structural key, known-findings matching, replay artefacts, evidence writer, hang watchdog"},
  {"name": "regmc", "path": "mc/cmd/c01, c02, c08, c09", "serves_properties": ["C01","C02","C08","C09"], "kind_free_text": "exhaustive register-program / operand-lattice enumerators with reference models and differential oracles"},
  {"name": "smallscope", "path": "mc/cmd/c04, c05, c06, c20 + mc/cmd/instrument", "serves_properties": ["C04","C05","C06","C20"], "kind_free_text": "exhaustive small-matrix / option-product enumerators with exact integer references and AST-generated loop-tick budgets"},
  {"name": "lattice", "path": "mc/cmd/c13, c14 + ref/c13", "serves_properties": ["C13","C14"], "kind_free_text": "float sub-lattice enumerators with committed high-precision tables, identities and fixed quadrature node sets"},
  {"name": "envmc", "path": "mc/cmd/c07", "serves_properties": ["C07"], "kind_free_text": "deviation-bounded environment explorer (objective/gradient/constraint/hook answers) with tick and evaluation budgets"},
  {"name": "pathenum", "path": "mc/cmd/c15, c16", "serves_properties": ["C15","C16"], "kind_free_text": "brute-force hidden-path enumeration and EM trajectory explorer"},
  {"name": "codec", "path": "mc/cmd/c18", "serves_properties": ["C18"], "kind_free_text": "round-trip and bounded-exhaustive malformed-input enumerator with per-shard crash isolation"},
  {"name": "schedmc", "path": "mc/cmd/c17 + mc/overlay/_threadpool", "serves_properties": ["C17"], "kind_free_text": "controlled scheduler (coroutine thread pool replacing the dependency via go build -overlay) + stateless deviation-bounded DFS + race-detector pass + real-pool conformance"},
  {"name": "histmc", "path": "mc/cmd/c03, c10, c11, c12, c19", "serves_properties": ["C03","C10","C11","C12","C19"], "kind_free_text": "explicit-state BFS over real objects with replay-built successors and canonical state hashing"},
 ],
 "checks": [],
 "not_applicable": [],
 "notes": "All checks rebuild their harness from /repo's current working tree (go.mod replace => /repo). Exit 0 = held (KNOWN-FINDING lines for entries of known_findings.json), 1 = VIOLATION line(s), 2 = harness/build failure.",
}
for pid in ALL:
    if pid in CHECKS:
        c = CHECKS[pid]
        m["checks"].append({
         "property_id": pid,
         "quick_cmd": "./check run %s quick" % pid,
         "thorough_cmd": "./check run %s thorough" % pid,
         "evidence_file": "evidence/%s.json" % pid,
         "replay_cmd_template": "./check replay {path}",
         "engine": c["engine"],
         "level_claimed": {"category": c["category"], "text": c["text"], "design_ref": c["design_ref"]},
         "level_note": c["note"],
         "technique": c["technique"],
        })
    else:
        m["not_applicable"].append({"property_id": pid, "reason": NA[pid]})
json.dump(m, open(os.path.join(os.path.dirname(os.path.abspath(__file__)), "MANIFEST.json"), "w"), indent=1)
print("checks:", [c["property_id"] for c in m["checks"]])
