#!/usr/bin/env python3
"""Regenerates MANIFEST.json from the table below (kept in one place so it stays valid)."""
import json, os
ALL = ["C%02d" % i for i in range(1, 21)]
CHECKS = {
 "C19": dict(
  engine="histmc", category="model_checking", design_ref="DESIGN.md §3 C19",
  technique="explicit-state BFS to fixpoint over the real AVL tree (+ live iterators) vs. sorted-set reference model; successors by replay on fresh instances",
  text="Every Insert/Delete/Iterator/IteratorFrom/Next transition from every reachable (tree shape, balance factors, iterator node) state over key universe {0..K-1} (quick K=7 with one live iterator and K=5 with two; thorough K=10/one and K=7/two) is executed on the real code and compared with a sorted-set model (return values, membership, lower bound, full iteration from every bound, live-iterator continuation, AVL invariants, parent links, clone independence, safe-iterator snapshots). The state space over a fixed universe is finite and is closed (BFS fixpoint), so 'all finite histories' over that universe are covered, not a depth bound.",
  note="Trusted: the sorted-set model in cmd/c19, the canonical state key (tree incl. balance/parent/deleted flags + iterator node path/value; read through an overlay-added read-only accessor file), keys behave uniformly (only compared). Not covered: universes larger than K, more than two simultaneously live iterators, reuse of an iterator after it reported the end."),
 "C17": dict(
  engine="schedmc", category="model_checking", design_ref="DESIGN.md §3 C17",
  technique="stateless preemption-bounded DFS over a controlled thread pool (overlay replacement of the threadpool dependency) running the real estimators; separate -race build of the same exploration with an invisible baton and explicit real-pool happens-before edges; real-pool conformance run",
  text="Every scheduling choice of a controlled thread pool that mirrors the real pool's transition rules (worker receive, AddJob incl. inline-on-full-buffer, Wait check/select/block incl. nested pick-up of foreign jobs, Done) is enumerated by depth-first search up to a preemption bound (quick 2, nested bodies at T=3: 1; thorough 3/2) for 30 estimator bodies (scalar closed-form estimators with and without weights, wrappers, numeric, ScalarIid/ScalarId, vector normal, scalar and vector mixture EM, vector and matrix HMM Baum-Welch, logistic regression) x pool sizes 2..3 (thorough 4) x buffer sizes {1,100} x data sizes below/equal/above the pool size. Every execution runs the real code to completion and must equal the sequential (pool size 1) result up to 1e-9 relative, with no deadlock, lost, pending or doubly-run job. The same exploration runs in a -race build in which baton hand-offs are hidden from the detector and only the real pool's edges are annotated, so each enumerated job->thread assignment is judged for data races independent of timing. A conformance run on the real pool (-race) checks results against sequential and that every job->thread assignment the real pool produces on probe job structures is among those the model enumerates exhaustively (real within model).",
  note="Trusted: the controlled pool's fidelity to threadpool.go of the pinned version (argued in the overlay file header and bound by the probe conformance run), Go's race detector (may miss, does not invent), scheduling only at pool operations (sufficient under race freedom, which the race pass checks). Not covered: schedules beyond the preemption bound, pool sizes > 4, the real pool's window between wg.Done and recording a job error."),
}
NA = {i: "check not built yet in this round (planned: see DESIGN.md §3 %s); no claim is made" % i for i in ALL}
m = {
 "version": 1,
 "setup_cmd": "./setup.sh",
 "hooks": {
  "guard": "verif",
  "enable": "no source hooks are committed to /repo: checks build with `go build -tags verif -overlay <generated.json>` which ADDS files mc/overlay/autodiff/** (read-only accessors, //go:build verif) to the packages, replaces the external threadpool dependency by a controlled pool (C17) and overlays tick-instrumented copies of algorithm/** generated from the current tree at check time (C04-C07, C20)",
  "baseline_off_cmd": "cd /repo && GOFLAGS=-mod=mod GOPROXY=off GOSUMDB=off GOTOOLCHAIN=local go test -vet=off -count=1 -timeout 25m ./...",
  "source_commits": [],
  "add_only": True,
 },
 "engines": [
  {"name": "vf", "path": "mc/vf", "serves_properties": sorted(CHECKS), "kind_free_text": "supervisor: sharded worker subprocesses, violation grouping by structural key, known-findings matching, replay artefacts, evidence writer, hang watchdog"},
  {"name": "schedmc", "path": "mc/cmd/c17 + mc/overlay/_threadpool", "serves_properties": ["C17"], "kind_free_text": "controlled scheduler (coroutine thread pool replacing the dependency via go build -overlay) + stateless deviation-bounded DFS + race-detector pass + real-pool conformance"},
  {"name": "histmc", "path": "mc/cmd/c19", "serves_properties": ["C19"], "kind_free_text": "explicit-state BFS over real objects with replay-built successors and canonical state hashing"},
 ],
 "checks": [],
 "not_applicable": [],
 "notes": "All checks rebuild their harness from /repo's current working tree (go.mod replace => /repo). Exit 0 = held (KNOWN-FINDING lines for entries of known_findings.json), 1 = VIOLATION line(s), 2 = harness/build failure.",
}
for pid in ALL:
    if pid in CHECKS:
        c = CHECKS[pid]
        m["checks"].append({
         "property_id": pid,
         "quick_cmd": "./check run %s quick" % pid,
         "thorough_cmd": "./check run %s thorough" % pid,
         "evidence_file": "evidence/%s.json" % pid,
         "replay_cmd_template": "./check replay {path}",
         "engine": c["engine"],
         "level_claimed": {"category": c["category"], "text": c["text"], "design_ref": c["design_ref"]},
         "level_note": c["note"],
         "technique": c["technique"],
        })
    else:
        m["not_applicable"].append({"property_id": pid, "reason": NA[pid]})
json.dump(m, open(os.path.join(os.path.dirname(os.path.abspath(__file__)), "MANIFEST.json"), "w"), indent=1)
print("checks:", [c["property_id"] for c in m["checks"]])
