module verif/mc

go 1.23

require github.com/pbenner/autodiff v0.0.0

replace github.com/pbenner/autodiff => /repo
