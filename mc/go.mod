module verif/mc

go 1.23

require github.com/pbenner/autodiff v0.0.0

replace github.com/pbenner/autodiff => /repo

require github.com/pbenner/threadpool v0.0.0-20191122191339-0302c226b91e
