//go:build race

package threadpool

import (
	"runtime"
	"unsafe"
)

const RaceEnabled = true

// Baton hand-offs must not create happens-before edges for the race detector.

//go:norace
func batonSend(ch chan struct{}) {
	runtime.RaceDisable()
	ch <- struct{}{}
	runtime.RaceEnable()
}

//go:norace
func batonRecv(ch chan struct{}) {
	runtime.RaceDisable()
	<-ch
	runtime.RaceEnable()
}

// The real pool's edges: channel send -> receive of a job; wg.Done -> wg.Wait/Value.

//go:norace
func raceAcquire(p *[8]byte) { runtime.RaceAcquire(unsafe.Pointer(p)) }

//go:norace
func raceReleaseMerge(p *[8]byte) { runtime.RaceReleaseMerge(unsafe.Pointer(p)) }
