// Controlled replacement of github.com/pbenner/threadpool (overlaid at build time by
// /verif/check for property C17; /repo and the module cache are untouched).
//
// Identical exported API. The pool is an explicit transition system that mirrors the
// real one (threadpool.go of the pinned version):
//
//   - a FIFO job queue of capacity bufsize (the buffered channel);
//   - threads 0 (the caller) and 1..T-1 (workers: `for job := range channel`);
//   - AddJob: wg.Add(1); non-blocking send; when the buffer is full the job runs inline
//     on the calling goroutine with the caller's pool value (select/default rule);
//   - Wait(g): loop { if count(g)==0 break; select { receive -> run nested on the
//     caller; default -> block until count(g)==0, break } };
//   - job end: wg.Done().
//
// Exactly one goroutine runs at any time (baton passing). Every pool operation that
// touches shared pool state is a scheduling point: the running thread announces the
// operation it is about to perform, a Chooser picks which enabled thread performs its
// pending operation next, and the chosen thread then runs (operation + user code) up to
// its next pool operation. Each step is one the real pool can take at that moment, so
// the behaviours are a subset of the real pool's; under data-race freedom (checked by the
// race pass below) scheduling at synchronisation operations is sufficient.
//
// Race pass: in a `-race` build the baton hand-offs are wrapped in
// runtime.RaceDisable/RaceEnable, so they create NO happens-before edges, and all pool
// internals live in //go:norace functions over fixed-size arrays (no maps, no append), so
// the detector does not see them. The edges the real pool provides (send->receive of a
// job, Done->Wait return, the go statement) are added explicitly with
// RaceReleaseMerge/RaceAcquire. The race detector therefore judges each enumerated
// schedule with exactly the real pool's synchronisation, independent of timing.
package threadpool

import (
	"fmt"
	"strings"
)

/* -------------------------------------------------------------------------- */

type opKind int

const (
	opNone      opKind = iota
	opRecv             // worker: receive a job from the channel
	opAdd              // AddJob: Add(1) + non-blocking send / inline run
	opWaitCheck        // Wait: read count(g)
	opWaitSel          // Wait: select receive / default
	opBlocked          // Wait: wg.Wait()
	opDone             // job end: wg.Done()
)

var opNames = [...]string{"none", "recv", "add", "waitcheck", "waitsel", "blocked", "done"}

const (
	maxJobs   = 2048
	maxGroups = 512
	maxTrace  = 1 << 14
	maxAnom   = 64
)

// observation buffers are reused across executions (only the goroutines of the current
// execution touch them, and only inside //go:norace functions)
var (
	bufTrace  [maxTrace]int32
	bufAssign [maxJobs]assignRec
	bufAnom   [maxAnom]anomRec
	bufGroups [maxGroups]group
)

type job struct {
	f     func(ThreadPool, func() error) error
	group int
	id    int // creation index
	runs  int
	token [8]byte // address used for race annotations
}

type group struct {
	used  bool // a job was added (the real pool's wait-group map entry exists)
	resvd bool // id handed out by NewJobGroup and not yet waited for
	cnt   int
	err   error
	token [8]byte
}

type thread struct {
	id    int
	wake  chan struct{}
	pend  opKind
	pg    int // group of the pending operation
	depth int // job nesting depth
}

// Point describes one scheduling point for the explorer.
type Point struct {
	N       int     // number of enabled threads
	Enabled [16]int // thread ids in canonical order: running thread first if enabled, then ascending
	Ops     [16]int // their pending operations
	Running int     // thread that reached the point
	RunEn   bool    // running thread still enabled (choosing another one is a preemption)
}

// Chooser returns an index < p.N. It is called from whichever goroutine holds the baton;
// in race builds it must be a //go:norace function over preallocated memory.
type Chooser func(p *Point) int

type abortT struct{ why string }

type assignRec struct{ job, thread, poolId, depth int }
type anomRec struct{ kind, a, b int }

type threadPool struct {
	threads int
	bufsize int
	queue   []*job // fixed capacity bufsize
	qlen    int
	groups  []group
	gcnt    int
	th      []*thread
	cur     int
	njobs   int
	started bool
	stopped bool
	aborted string
	// observation (fixed capacity; formatted by VerifEnd on thread 0)
	trace    []int32 // thread<<8 | op
	ntrace   int
	assign   []assignRec
	nassign  int
	anom     []anomRec
	nanom    int
	maxDepth int
	overflow bool
}

/* -------------------------------------------------------------------------- */

var theChooser Chooser
var thePool *threadPool

// VerifBegin installs the chooser for the next pool created with New.
//
//go:norace
func VerifBegin(ch Chooser) {
	theChooser = ch
	thePool = nil
}

// Report of one controlled execution.
type Report struct {
	Created    bool
	Deadlock   string
	Aborted    string
	Anomalies  []string // lost jobs, double execution, jobs pending at return
	Trace      []string // "t<id>:<op>" per step
	Assignment string   // job -> executing thread / pool id / nesting depth, in start order
	Jobs       int
	MaxDepth   int
}

const (
	anLost = iota
	anPending
	anUnwaited
	anDouble
	anJobPanic
	anOverflow
)

//go:norace
func (t *threadPool) addAnom(kind, a, b int) {
	if t.nanom < maxAnom {
		t.anom[t.nanom] = anomRec{kind, a, b}
		t.nanom++
	}
}

// VerifEnd must be called by the harness goroutine (thread 0) after the top-level
// routine returned (or panicked). It checks quiescence, stops the workers and reports.
//
//go:norace
func VerifEnd() Report {
	t := thePool
	r := Report{}
	if t == nil {
		return r
	}
	r.Created = true
	if t.aborted == "" {
		// the caller is done: nothing may be left queued or running
		if t.qlen > 0 {
			t.addAnom(anLost, t.qlen, 0)
		}
		for _, th := range t.th[1:] {
			if th.pend != opRecv {
				t.addAnom(anPending, th.id, int(th.pend))
			}
		}
		for g := range t.groups {
			if t.groups[g].used && t.groups[g].cnt != 0 {
				t.addAnom(anUnwaited, g, t.groups[g].cnt)
			}
		}
	}
	t.shutdown()
	if strings.HasPrefix(t.aborted, "deadlock") {
		r.Deadlock = t.aborted
	}
	if t.aborted != "shutdown" {
		r.Aborted = t.aborted
	}
	if t.overflow {
		t.addAnom(anOverflow, 0, 0)
	}
	// copy out into fresh memory owned by this goroutine
	an := make([]anomRec, t.nanom)
	for i := range an {
		an[i] = t.anom[i]
	}
	tr := make([]int32, t.ntrace)
	for i := range tr {
		tr[i] = t.trace[i]
	}
	as := make([]assignRec, t.nassign)
	for i := range as {
		as[i] = t.assign[i]
	}
	r.Jobs = t.njobs
	r.MaxDepth = t.maxDepth
	thePool = nil
	formatReport(&r, an, tr, as)
	return r
}

func formatReport(r *Report, an []anomRec, tr []int32, as []assignRec) {
	for _, a := range an {
		switch a.kind {
		case anLost:
			r.Anomalies = append(r.Anomalies, fmt.Sprintf("lost-job: %d job(s) still queued when the top-level routine returned", a.a))
		case anPending:
			r.Anomalies = append(r.Anomalies, fmt.Sprintf("pending-job: worker %d still inside a job (%s) when the top-level routine returned", a.a, opNames[a.b]))
		case anUnwaited:
			r.Anomalies = append(r.Anomalies, fmt.Sprintf("unwaited-group: a job group still has %d unfinished job(s) at return", a.b))
		case anDouble:
			r.Anomalies = append(r.Anomalies, fmt.Sprintf("double-execution: job %d entered %d times", a.a, a.b))
		case anJobPanic:
			r.Anomalies = append(r.Anomalies, fmt.Sprintf("panic-in-job on worker %d", a.a))
		case anOverflow:
			r.Anomalies = append(r.Anomalies, "harness-overflow: controlled pool table overflow")
		}
	}
	for _, x := range tr {
		r.Trace = append(r.Trace, fmt.Sprintf("t%d:%s", x>>8, opNames[x&0xff]))
	}
	var sb strings.Builder
	for i, a := range as {
		if i > 0 {
			sb.WriteByte(' ')
		}
		fmt.Fprintf(&sb, "j%d@t%d/id%d/d%d", a.job, a.thread, a.poolId, a.depth)
	}
	r.Assignment = sb.String()
}

//go:norace
func (t *threadPool) shutdown() {
	if t.stopped {
		return
	}
	t.stopped = true
	if t.aborted == "" {
		t.aborted = "shutdown"
	}
	// release every parked worker; they see aborted and exit
	for _, th := range t.th[1:] {
		batonSend(th.wake)
	}
}

/* scheduling core
 * -------------------------------------------------------------------------- */

//go:norace
func (t *threadPool) enabledOp(th *thread) bool {
	switch th.pend {
	case opRecv:
		return t.qlen > 0
	case opBlocked:
		return t.groups[th.pg].cnt == 0
	case opNone:
		return false
	}
	return true
}

// yield is called by the running thread when it is about to perform a pool operation.
// It returns when that thread has been chosen to perform it.
//
//go:norace
func (t *threadPool) yield(th *thread, op opKind, g int) {
	th.pend, th.pg = op, g
	if t.aborted != "" {
		panic(abortT{t.aborted})
	}
	p := new(Point)
	p.Running = th.id
	if t.enabledOp(th) {
		p.Enabled[p.N], p.Ops[p.N] = th.id, int(th.pend)
		p.N++
		p.RunEn = true
	}
	for _, o := range t.th {
		if o != th && t.enabledOp(o) {
			p.Enabled[p.N], p.Ops[p.N] = o.id, int(o.pend)
			p.N++
		}
	}
	if p.N == 0 {
		t.aborted = "deadlock: no thread can take a step"
		// wake thread 0 so the harness goroutine unwinds; workers are released in shutdown
		if th.id != 0 {
			batonSend(t.th[0].wake)
			batonRecv(th.wake)
		}
		panic(abortT{t.aborted})
	}
	pick := 0
	if p.N > 1 {
		pick = theChooser(p)
		if pick < 0 || pick >= p.N {
			panic("controlled pool: chooser returned an out-of-range choice")
		}
	}
	next := t.th[p.Enabled[pick]]
	if t.ntrace < maxTrace {
		t.trace[t.ntrace] = int32(next.id<<8 | int(next.pend))
		t.ntrace++
	} else {
		t.overflow = true
	}
	t.cur = next.id
	if next == th {
		return
	}
	batonSend(next.wake)
	batonRecv(th.wake)
	if t.aborted != "" {
		panic(abortT{t.aborted})
	}
}

//go:norace
func (t *threadPool) current() *thread { return t.th[t.cur] }

/* worker
 * -------------------------------------------------------------------------- */

//go:norace
func (t *threadPool) workerRecover(th *thread, r interface{}) {
	if _, ok := r.(abortT); ok {
		return
	}
	// a panic inside a job on a worker would crash the real program; record it,
	// abort the execution and let thread 0 unwind
	t.addAnom(anJobPanic, th.id, 0)
	if t.aborted == "" {
		t.aborted = fmt.Sprintf("panic in job on worker %d: %v", th.id, r)
	}
	batonSend(t.th[0].wake)
}

//go:norace
func (t *threadPool) worker(th *thread) {
	defer func() {
		if r := recover(); r != nil {
			t.workerRecover(th, r)
		}
	}()
	batonRecv(th.wake) // parked with pend=opRecv until first chosen
	if t.aborted != "" {
		return
	}
	for {
		// chosen to receive
		j := t.dequeue()
		t.runJob(th, j, ThreadPool{t, th.id})
		t.yield(th, opRecv, 0)
	}
}

//go:norace
func (t *threadPool) dequeue() *job {
	j := t.queue[0]
	for i := 1; i < t.qlen; i++ { // (no copy(): runtime.slicecopy is visible to the race detector)
		t.queue[i-1] = t.queue[i]
	}
	t.qlen--
	t.queue[t.qlen] = nil
	raceAcquire(&j.token)
	return j
}

type errGetter struct {
	t *threadPool
	g int
}

//go:norace
func (e *errGetter) get() error { return e.t.groups[e.g].err }

// runJob runs j on thread th (worker loop, nested in Wait, or inline in AddJob).
//
//go:norace
func (t *threadPool) runJob(th *thread, j *job, pool ThreadPool) {
	j.runs++
	if j.runs > 1 {
		t.addAnom(anDouble, j.id, j.runs)
	}
	th.depth++
	if th.depth > t.maxDepth {
		t.maxDepth = th.depth
	}
	if t.nassign < maxJobs {
		t.assign[t.nassign] = assignRec{j.id, th.id, pool.threadId, th.depth}
		t.nassign++
	} else {
		t.overflow = true
	}
	eg := &errGetter{t, j.group}
	err := j.f(pool, eg.get)
	// wg.Done() (the real pool records the error right after Done; both happen in this step)
	t.yield(th, opDone, j.group)
	gr := &t.groups[j.group]
	if err != nil {
		gr.err = err
	}
	raceReleaseMerge(&gr.token)
	gr.cnt--
	th.depth--
}

/* -------------------------------------------------------------------------- */

type ThreadPool struct {
	*threadPool
	// main thread id
	threadId int
}

//go:norace
func (t *threadPool) NewJobGroup() int {
	if t == nil {
		return 0
	}
	// group ids are opaque to the library; ids are recycled after Wait
	for i := range t.groups {
		if !t.groups[i].used && !t.groups[i].resvd {
			t.groups[i].resvd = true
			return i
		}
	}
	panic("controlled pool: too many live job groups")
}

//go:norace
func (t *threadPool) NumberOfThreads() int {
	if t == nil {
		return 1
	}
	return t.threads
}

//go:norace
func (t *threadPool) Start() {
	if t == nil || t.started {
		return
	}
	t.started = true
	for i := 1; i < t.threads; i++ {
		th := t.th[i]
		th.pend = opRecv
		go t.worker(th)
	}
}

func (t *threadPool) Stop() {
	// the library never stops its pools; the harness ends executions with VerifEnd
}

//go:norace
func (t ThreadPool) GetThreadId() int {
	if t.NumberOfThreads() == 1 {
		return 0
	}
	return t.threadId
}

//go:norace
func (t ThreadPool) Wait(jobGroup int) error {
	if t.NumberOfThreads() == 1 {
		return nil
	}
	tp := t.threadPool
	th := tp.current()
	if jobGroup < 0 || jobGroup >= maxGroups {
		return nil
	}
	if !tp.groups[jobGroup].used {
		// wait group has not been created, nothing to wait for
		tp.groups[jobGroup].resvd = false
		return nil
	}
	gr := &tp.groups[jobGroup]
	for {
		tp.yield(th, opWaitCheck, jobGroup)
		if gr.cnt == 0 {
			raceAcquire(&gr.token)
			break
		}
		tp.yield(th, opWaitSel, jobGroup)
		if tp.qlen > 0 {
			j := tp.dequeue()
			tp.runJob(th, j, t)
			continue
		}
		tp.yield(th, opBlocked, jobGroup)
		raceAcquire(&gr.token)
		break
	}
	err := gr.err
	gr.err = nil
	gr.used = false
	gr.resvd = false
	return err
}

//go:norace
func (t ThreadPool) AddJob(jobGroup int, f func(pool ThreadPool, erf func() error) error) error {
	if t.NumberOfThreads() == 1 {
		getError := func() error { return nil }
		if err := f(t, getError); err != nil {
			return err
		}
		return nil
	}
	tp := t.threadPool
	th := tp.current()
	tp.yield(th, opAdd, jobGroup)
	if jobGroup < 0 || jobGroup >= maxGroups {
		panic("controlled pool: job group out of range")
	}
	gr := &tp.groups[jobGroup]
	gr.used = true
	gr.cnt++
	j := &job{f: f, group: jobGroup, id: tp.njobs}
	tp.njobs++
	if tp.qlen < tp.bufsize {
		raceReleaseMerge(&j.token)
		tp.queue[tp.qlen] = j
		tp.qlen++
		return nil
	}
	// channel buffer is full, execute job here
	tp.runJob(th, j, t)
	return nil
}

func (t ThreadPool) AddRangeJob(iFrom, iTo int, jobGroup int, f func(i int, pool ThreadPool, erf func() error) error) error {
	if iFrom >= iTo {
		return nil
	}
	m := t.NumberOfThreads()
	if m > iTo-iFrom {
		m = iTo - iFrom
	}
	n := (iTo - iFrom) / m
	for j := iFrom; j < iTo; j += n {
		iFrom_ := j
		iTo_ := j + n
		if iTo_ > iTo {
			iTo_ = iTo
		}
		if err := t.AddJob(jobGroup, func(pool ThreadPool, erf func() error) error {
			for i := iFrom_; i < iTo_; i++ {
				if err := f(i, pool, erf); err != nil {
					return err
				}
			}
			return nil
		}); err != nil {
			return err
		}
	}
	return nil
}

func (t ThreadPool) AddRangeJob_(iFrom, iTo int, jobGroup int, f func(ifrom, ito int, pool ThreadPool, erf func() error) error) error {
	if iFrom >= iTo {
		return nil
	}
	m := t.NumberOfThreads()
	if m > iTo-iFrom {
		m = iTo - iFrom
	}
	n := (iTo - iFrom) / m
	for j := iFrom; j < iTo; j += n {
		iFrom_ := j
		iTo_ := j + n
		if iTo_ > iTo {
			iTo_ = iTo
		}
		if err := t.AddJob(jobGroup, func(pool ThreadPool, erf func() error) error {
			if err := f(iFrom_, iTo_, pool, erf); err != nil {
				return err
			}
			return nil
		}); err != nil {
			return err
		}
	}
	return nil
}

func (t ThreadPool) Job(f func(pool ThreadPool, erf func() error) error) error {
	g := t.NewJobGroup()
	if err := t.AddJob(g, f); err != nil {
		return err
	}
	if err := t.Wait(g); err != nil {
		return err
	}
	return nil
}

func (t ThreadPool) RangeJob(iFrom, iTo int, f func(i int, pool ThreadPool, erf func() error) error) error {
	g := t.NewJobGroup()
	if err := t.AddRangeJob(iFrom, iTo, g, f); err != nil {
		return err
	}
	if err := t.Wait(g); err != nil {
		return err
	}
	return nil
}

func (t ThreadPool) RangeJob_(iFrom, iTo int, f func(ifrom, ito int, pool ThreadPool, erf func() error) error) error {
	g := t.NewJobGroup()
	if err := t.AddRangeJob_(iFrom, iTo, g, f); err != nil {
		return err
	}
	if err := t.Wait(g); err != nil {
		return err
	}
	return nil
}

/* -------------------------------------------------------------------------- */

func Nil() ThreadPool {
	return ThreadPool{}
}

//go:norace
func New(threads, bufsize int) ThreadPool {
	if threads < 1 {
		panic("invalid number of threads")
	}
	if bufsize < 1 {
		panic("invalid bufsize")
	}
	if threads == 1 {
		return ThreadPool{}
	}
	if threads > 16 {
		panic("controlled pool: at most 16 threads")
	}
	if thePool != nil {
		panic("controlled pool: one pool per execution (call VerifBegin/VerifEnd around each)")
	}
	if theChooser == nil {
		panic("controlled pool: VerifBegin was not called")
	}
	t := new(threadPool)
	t.threads = threads
	t.bufsize = bufsize
	t.queue = make([]*job, bufsize)
	t.groups = bufGroups[:]
	for i := range t.groups {
		t.groups[i] = group{}
	}
	t.trace = bufTrace[:]
	t.assign = bufAssign[:]
	t.anom = bufAnom[:]
	t.th = make([]*thread, threads)
	for i := 0; i < threads; i++ {
		t.th[i] = &thread{id: i, wake: make(chan struct{}, 1)}
	}
	thePool = t
	t.Start()
	return ThreadPool{t, 0}
}

// VerifRecoverAbort tells whether a recovered panic value is the controlled pool's
// internal abort (deadlock / job panic on a worker).
func VerifRecoverAbort(r interface{}) (isAbort bool, why string) {
	if a, ok := r.(abortT); ok {
		return true, a.why
	}
	return false, ""
}
