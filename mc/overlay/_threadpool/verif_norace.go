//go:build !race

package threadpool

const RaceEnabled = false

func batonSend(ch chan struct{}) { ch <- struct{}{} }
func batonRecv(ch chan struct{}) { <-ch }

func raceAcquire(p *[8]byte)      {}
func raceReleaseMerge(p *[8]byte) {}
