//go:build verif

package autodiff

// Read-only accessors to private AVL iterator state; used only to canonicalise
// explicit-state search states (never by an oracle).

func VerifAvlIteratorNode(it *AvlIterator) *AvlNode { return it.node }
func VerifAvlIteratorTree(it *AvlIterator) *AvlTree { return it.tree }
func VerifAvlIteratorValue(it *AvlIterator) int     { return it.value }
