//go:build verif

package autodiff

// Written mechanically: one identical case per instantiation of the sparse templates
// (direct field access, compile-checked against every type). Read-only access to the private state of the 9
// sparse vector types, their iterators and the 9 sparse matrix types. Used by C11 only to
// canonicalise explicit-state search states and to annotate replays with early warnings
// (map/index incoherence, nil placeholders); no oracle decides through it.

import (
	"sort"
	"unsafe"
)

// VerifC11Cell describes one entry of the private `values` map.
type VerifC11Cell struct {
	Key  int
	Nil  bool    // the stored scalar is a nil placeholder (Float64{nil} / (*Real64)(nil))
	Zero bool    // the stored scalar holds the value 0
	Ptr  uintptr // identity of the stored scalar (aliasing between cells matters for the future)
}

// VerifC11Vec is the private state of a sparse vector.
type VerifC11Vec struct {
	Known bool
	N     int
	Cells []VerifC11Cell // sorted by key
	Tree  *AvlTree       // the index (embedded vectorSparseIndex.AvlTree); read-only
	Self  uintptr
}

func verifC11Sort(c []VerifC11Cell) {
	if len(c) > 1 {
		sort.Slice(c, func(i, j int) bool { return c[i].Key < c[j].Key })
	}
}

// VerifC11Vector returns the private state of a *Sparse<T>Vector.
func VerifC11Vector(x interface{}) VerifC11Vec {
	r := VerifC11Vec{}
	switch v := x.(type) {
	case *SparseFloat64Vector:
		if v == nil {
			return r
		}
		r.N, r.Tree, r.Self = v.n, &v.AvlTree, uintptr(unsafe.Pointer(v))
		r.Cells = make([]VerifC11Cell, 0, len(v.values))
		for key, s := range v.values {
			c := VerifC11Cell{Key: key, Nil: s.ptr == nil}
			if s.ptr != nil {
				c.Zero = *s.ptr == 0
				c.Ptr = uintptr(unsafe.Pointer(s.ptr))
			}
			r.Cells = append(r.Cells, c)
		}
	case *SparseFloat32Vector:
		if v == nil {
			return r
		}
		r.N, r.Tree, r.Self = v.n, &v.AvlTree, uintptr(unsafe.Pointer(v))
		r.Cells = make([]VerifC11Cell, 0, len(v.values))
		for key, s := range v.values {
			c := VerifC11Cell{Key: key, Nil: s.ptr == nil}
			if s.ptr != nil {
				c.Zero = *s.ptr == 0
				c.Ptr = uintptr(unsafe.Pointer(s.ptr))
			}
			r.Cells = append(r.Cells, c)
		}
	case *SparseIntVector:
		if v == nil {
			return r
		}
		r.N, r.Tree, r.Self = v.n, &v.AvlTree, uintptr(unsafe.Pointer(v))
		r.Cells = make([]VerifC11Cell, 0, len(v.values))
		for key, s := range v.values {
			c := VerifC11Cell{Key: key, Nil: s.ptr == nil}
			if s.ptr != nil {
				c.Zero = *s.ptr == 0
				c.Ptr = uintptr(unsafe.Pointer(s.ptr))
			}
			r.Cells = append(r.Cells, c)
		}
	case *SparseInt8Vector:
		if v == nil {
			return r
		}
		r.N, r.Tree, r.Self = v.n, &v.AvlTree, uintptr(unsafe.Pointer(v))
		r.Cells = make([]VerifC11Cell, 0, len(v.values))
		for key, s := range v.values {
			c := VerifC11Cell{Key: key, Nil: s.ptr == nil}
			if s.ptr != nil {
				c.Zero = *s.ptr == 0
				c.Ptr = uintptr(unsafe.Pointer(s.ptr))
			}
			r.Cells = append(r.Cells, c)
		}
	case *SparseInt16Vector:
		if v == nil {
			return r
		}
		r.N, r.Tree, r.Self = v.n, &v.AvlTree, uintptr(unsafe.Pointer(v))
		r.Cells = make([]VerifC11Cell, 0, len(v.values))
		for key, s := range v.values {
			c := VerifC11Cell{Key: key, Nil: s.ptr == nil}
			if s.ptr != nil {
				c.Zero = *s.ptr == 0
				c.Ptr = uintptr(unsafe.Pointer(s.ptr))
			}
			r.Cells = append(r.Cells, c)
		}
	case *SparseInt32Vector:
		if v == nil {
			return r
		}
		r.N, r.Tree, r.Self = v.n, &v.AvlTree, uintptr(unsafe.Pointer(v))
		r.Cells = make([]VerifC11Cell, 0, len(v.values))
		for key, s := range v.values {
			c := VerifC11Cell{Key: key, Nil: s.ptr == nil}
			if s.ptr != nil {
				c.Zero = *s.ptr == 0
				c.Ptr = uintptr(unsafe.Pointer(s.ptr))
			}
			r.Cells = append(r.Cells, c)
		}
	case *SparseInt64Vector:
		if v == nil {
			return r
		}
		r.N, r.Tree, r.Self = v.n, &v.AvlTree, uintptr(unsafe.Pointer(v))
		r.Cells = make([]VerifC11Cell, 0, len(v.values))
		for key, s := range v.values {
			c := VerifC11Cell{Key: key, Nil: s.ptr == nil}
			if s.ptr != nil {
				c.Zero = *s.ptr == 0
				c.Ptr = uintptr(unsafe.Pointer(s.ptr))
			}
			r.Cells = append(r.Cells, c)
		}
	case *SparseReal32Vector:
		if v == nil {
			return r
		}
		r.N, r.Tree, r.Self = v.n, &v.AvlTree, uintptr(unsafe.Pointer(v))
		r.Cells = make([]VerifC11Cell, 0, len(v.values))
		for key, s := range v.values {
			c := VerifC11Cell{Key: key, Nil: s == nil}
			if s != nil {
				c.Zero = s.Value == 0
				c.Ptr = uintptr(unsafe.Pointer(s))
			}
			r.Cells = append(r.Cells, c)
		}
	case *SparseReal64Vector:
		if v == nil {
			return r
		}
		r.N, r.Tree, r.Self = v.n, &v.AvlTree, uintptr(unsafe.Pointer(v))
		r.Cells = make([]VerifC11Cell, 0, len(v.values))
		for key, s := range v.values {
			c := VerifC11Cell{Key: key, Nil: s == nil}
			if s != nil {
				c.Zero = s.Value == 0
				c.Ptr = uintptr(unsafe.Pointer(s))
			}
			r.Cells = append(r.Cells, c)
		}
	default:
		return r
	}
	verifC11Sort(r.Cells)
	r.Known = true
	return r
}

// VerifC11Iter returns the embedded AVL iterator of a sparse vector/matrix iterator and
// the identity of the vector it belongs to.
func VerifC11Iter(x interface{}) (it *AvlIterator, vec uintptr, ok bool) {
	switch v := x.(type) {
	case *SparseFloat64VectorIterator:
		return &v.AvlIterator, uintptr(unsafe.Pointer(v.v)), true
	case *SparseFloat64MatrixIterator:
		return &v.AvlIterator, uintptr(unsafe.Pointer(v.v)), true
	case *SparseFloat32VectorIterator:
		return &v.AvlIterator, uintptr(unsafe.Pointer(v.v)), true
	case *SparseFloat32MatrixIterator:
		return &v.AvlIterator, uintptr(unsafe.Pointer(v.v)), true
	case *SparseIntVectorIterator:
		return &v.AvlIterator, uintptr(unsafe.Pointer(v.v)), true
	case *SparseIntMatrixIterator:
		return &v.AvlIterator, uintptr(unsafe.Pointer(v.v)), true
	case *SparseInt8VectorIterator:
		return &v.AvlIterator, uintptr(unsafe.Pointer(v.v)), true
	case *SparseInt8MatrixIterator:
		return &v.AvlIterator, uintptr(unsafe.Pointer(v.v)), true
	case *SparseInt16VectorIterator:
		return &v.AvlIterator, uintptr(unsafe.Pointer(v.v)), true
	case *SparseInt16MatrixIterator:
		return &v.AvlIterator, uintptr(unsafe.Pointer(v.v)), true
	case *SparseInt32VectorIterator:
		return &v.AvlIterator, uintptr(unsafe.Pointer(v.v)), true
	case *SparseInt32MatrixIterator:
		return &v.AvlIterator, uintptr(unsafe.Pointer(v.v)), true
	case *SparseInt64VectorIterator:
		return &v.AvlIterator, uintptr(unsafe.Pointer(v.v)), true
	case *SparseInt64MatrixIterator:
		return &v.AvlIterator, uintptr(unsafe.Pointer(v.v)), true
	case *SparseReal32VectorIterator:
		return &v.AvlIterator, uintptr(unsafe.Pointer(v.v)), true
	case *SparseReal32MatrixIterator:
		return &v.AvlIterator, uintptr(unsafe.Pointer(v.v)), true
	case *SparseReal64VectorIterator:
		return &v.AvlIterator, uintptr(unsafe.Pointer(v.v)), true
	case *SparseReal64MatrixIterator:
		return &v.AvlIterator, uintptr(unsafe.Pointer(v.v)), true
	}
	return nil, 0, false
}

func VerifC11IterNode(it *AvlIterator) *AvlNode { return it.node }
func VerifC11IterTree(it *AvlIterator) *AvlTree { return it.tree }
func VerifC11IterValue(it *AvlIterator) int     { return it.value }

// VerifC11Mat is the private header of a sparse matrix.
type VerifC11Mat struct {
	Known                                            bool
	Rows, Cols, RowOffset, RowMax, ColOffset, ColMax int
	Values                                           VerifC11Vec
	Tmp1, Tmp2                                       int // Dim of the scratch vectors, -1 if nil
}

// VerifC11Matrix returns the private state of a *Sparse<T>Matrix.
func VerifC11Matrix(x interface{}) VerifC11Mat {
	r := VerifC11Mat{Tmp1: -1, Tmp2: -1}
	switch m := x.(type) {
	case *SparseFloat64Matrix:
		if m == nil || m.values == nil {
			return r
		}
		r.Rows, r.Cols, r.RowOffset, r.RowMax, r.ColOffset, r.ColMax = m.rows, m.cols, m.rowOffset, m.rowMax, m.colOffset, m.colMax
		r.Values = VerifC11Vector(m.values)
		if m.tmp1 != nil {
			r.Tmp1 = m.tmp1.n
		}
		if m.tmp2 != nil {
			r.Tmp2 = m.tmp2.n
		}
	case *SparseFloat32Matrix:
		if m == nil || m.values == nil {
			return r
		}
		r.Rows, r.Cols, r.RowOffset, r.RowMax, r.ColOffset, r.ColMax = m.rows, m.cols, m.rowOffset, m.rowMax, m.colOffset, m.colMax
		r.Values = VerifC11Vector(m.values)
		if m.tmp1 != nil {
			r.Tmp1 = m.tmp1.n
		}
		if m.tmp2 != nil {
			r.Tmp2 = m.tmp2.n
		}
	case *SparseIntMatrix:
		if m == nil || m.values == nil {
			return r
		}
		r.Rows, r.Cols, r.RowOffset, r.RowMax, r.ColOffset, r.ColMax = m.rows, m.cols, m.rowOffset, m.rowMax, m.colOffset, m.colMax
		r.Values = VerifC11Vector(m.values)
		if m.tmp1 != nil {
			r.Tmp1 = m.tmp1.n
		}
		if m.tmp2 != nil {
			r.Tmp2 = m.tmp2.n
		}
	case *SparseInt8Matrix:
		if m == nil || m.values == nil {
			return r
		}
		r.Rows, r.Cols, r.RowOffset, r.RowMax, r.ColOffset, r.ColMax = m.rows, m.cols, m.rowOffset, m.rowMax, m.colOffset, m.colMax
		r.Values = VerifC11Vector(m.values)
		if m.tmp1 != nil {
			r.Tmp1 = m.tmp1.n
		}
		if m.tmp2 != nil {
			r.Tmp2 = m.tmp2.n
		}
	case *SparseInt16Matrix:
		if m == nil || m.values == nil {
			return r
		}
		r.Rows, r.Cols, r.RowOffset, r.RowMax, r.ColOffset, r.ColMax = m.rows, m.cols, m.rowOffset, m.rowMax, m.colOffset, m.colMax
		r.Values = VerifC11Vector(m.values)
		if m.tmp1 != nil {
			r.Tmp1 = m.tmp1.n
		}
		if m.tmp2 != nil {
			r.Tmp2 = m.tmp2.n
		}
	case *SparseInt32Matrix:
		if m == nil || m.values == nil {
			return r
		}
		r.Rows, r.Cols, r.RowOffset, r.RowMax, r.ColOffset, r.ColMax = m.rows, m.cols, m.rowOffset, m.rowMax, m.colOffset, m.colMax
		r.Values = VerifC11Vector(m.values)
		if m.tmp1 != nil {
			r.Tmp1 = m.tmp1.n
		}
		if m.tmp2 != nil {
			r.Tmp2 = m.tmp2.n
		}
	case *SparseInt64Matrix:
		if m == nil || m.values == nil {
			return r
		}
		r.Rows, r.Cols, r.RowOffset, r.RowMax, r.ColOffset, r.ColMax = m.rows, m.cols, m.rowOffset, m.rowMax, m.colOffset, m.colMax
		r.Values = VerifC11Vector(m.values)
		if m.tmp1 != nil {
			r.Tmp1 = m.tmp1.n
		}
		if m.tmp2 != nil {
			r.Tmp2 = m.tmp2.n
		}
	case *SparseReal32Matrix:
		if m == nil || m.values == nil {
			return r
		}
		r.Rows, r.Cols, r.RowOffset, r.RowMax, r.ColOffset, r.ColMax = m.rows, m.cols, m.rowOffset, m.rowMax, m.colOffset, m.colMax
		r.Values = VerifC11Vector(m.values)
		if m.tmp1 != nil {
			r.Tmp1 = m.tmp1.n
		}
		if m.tmp2 != nil {
			r.Tmp2 = m.tmp2.n
		}
	case *SparseReal64Matrix:
		if m == nil || m.values == nil {
			return r
		}
		r.Rows, r.Cols, r.RowOffset, r.RowMax, r.ColOffset, r.ColMax = m.rows, m.cols, m.rowOffset, m.rowMax, m.colOffset, m.colMax
		r.Values = VerifC11Vector(m.values)
		if m.tmp1 != nil {
			r.Tmp1 = m.tmp1.n
		}
		if m.tmp2 != nil {
			r.Tmp2 = m.tmp2.n
		}
	default:
		return r
	}
	r.Known = r.Values.Known
	return r
}
