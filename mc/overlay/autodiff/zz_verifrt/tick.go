//go:build verif

// Package verifrt is a virtual package added by the verification overlay. Loop heads of
// the instrumented algorithm/** copies call Tick; a harness sets a per-call budget and
// recovers the BudgetExceeded panic: a deterministic, load-independent step bound.
package verifrt

import "sync/atomic"

type BudgetExceeded struct{ Budget int64 }

var count, budget int64

// Reset sets the counter to zero and installs a budget (0 = unlimited).
func Reset(b int64) { atomic.StoreInt64(&count, 0); atomic.StoreInt64(&budget, b) }

func Count() int64 { return atomic.LoadInt64(&count) }

func Tick() {
	c := atomic.AddInt64(&count, 1)
	if b := atomic.LoadInt64(&budget); b > 0 && c > b {
		panic(BudgetExceeded{b})
	}
}
