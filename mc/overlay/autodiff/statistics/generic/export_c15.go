//go:build verif

package generic

import . "github.com/pbenner/autodiff"

// VerifFloat64ForwardBackward runs the private float64-specialised forward-backward
// recursion (the one Baum-Welch uses) on freshly allocated m x (n+pad) matrices, so
// that C15 can compare it element-wise with the public generic ForwardBackward.
// Baum-Welch allocates the matrices for the longest record, hence the padding.
func VerifFloat64ForwardBackward(obj *Hmm, data HmmDataRecord, pad int) (*DenseFloat64Matrix, *DenseFloat64Matrix, error) {
	n := data.GetN()
	alpha := NullDenseFloat64Matrix(obj.M, n+pad)
	beta := NullDenseFloat64Matrix(obj.M, n+pad)
	return obj.float64ForwardBackward(data, alpha, beta)
}
