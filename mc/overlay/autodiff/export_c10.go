//go:build verif

package autodiff

import "reflect"

// Read-only access to the private header of the 18 matrix types (dense: values slice,
// rows, cols, rowOffset, rowMax, colOffset, colMax, transposed, [tmp1, tmp2]; sparse:
// values *SparseXVector, same offsets, tmp1, tmp2). Used by C10/C12 only to canonicalise
// explicit-state search states and to describe view classes in violation keys; no oracle
// decides through it.

type VerifMatrixHeader struct {
	Rows, Cols           int
	RowOffset, RowMax    int
	ColOffset, ColMax    int
	Transposed           bool
	HasTransposed        bool    // the type has a `transposed` field (dense)
	Tmp1, Tmp2           int     // Dim of the scratch vectors, -1 if the type has none / nil
	Storage              uintptr // identity of the backing store (slice data pointer / sparse vector pointer)
	StorageLen           int     // len of dense backing slice / Dim of sparse backing vector
	Known                bool    // false if m is not one of the library's matrix structs
}

func verifLen(v reflect.Value) int {
	switch v.Kind() {
	case reflect.Slice:
		return v.Len()
	case reflect.Ptr:
		if v.IsNil() {
			return -1
		}
		f := v.Elem().FieldByName("n")
		if f.IsValid() {
			return int(f.Int())
		}
	}
	return -1
}

func VerifHeader(m interface{}) VerifMatrixHeader {
	h := VerifMatrixHeader{Tmp1: -1, Tmp2: -1}
	v := reflect.ValueOf(m)
	if v.Kind() != reflect.Ptr || v.IsNil() || v.Elem().Kind() != reflect.Struct {
		return h
	}
	s := v.Elem()
	get := func(name string) (int, bool) {
		f := s.FieldByName(name)
		if !f.IsValid() || f.Kind() != reflect.Int {
			return 0, false
		}
		return int(f.Int()), true
	}
	var ok [6]bool
	h.Rows, ok[0] = get("rows")
	h.Cols, ok[1] = get("cols")
	h.RowOffset, ok[2] = get("rowOffset")
	h.RowMax, ok[3] = get("rowMax")
	h.ColOffset, ok[4] = get("colOffset")
	h.ColMax, ok[5] = get("colMax")
	h.Known = true
	for _, o := range ok {
		h.Known = h.Known && o
	}
	if f := s.FieldByName("transposed"); f.IsValid() && f.Kind() == reflect.Bool {
		h.Transposed, h.HasTransposed = f.Bool(), true
	}
	if f := s.FieldByName("tmp1"); f.IsValid() {
		h.Tmp1 = verifLen(f)
	}
	if f := s.FieldByName("tmp2"); f.IsValid() {
		h.Tmp2 = verifLen(f)
	}
	if f := s.FieldByName("values"); f.IsValid() {
		switch f.Kind() {
		case reflect.Slice:
			h.StorageLen = f.Len()
			if f.Len() > 0 || f.Cap() > 0 {
				h.Storage = f.Pointer()
			}
		case reflect.Ptr:
			h.Storage = f.Pointer()
			h.StorageLen = verifLen(f)
		}
	} else {
		h.Known = false
	}
	return h
}
