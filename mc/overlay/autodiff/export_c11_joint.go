//go:build verif

package autodiff

// Written mechanically: one identical case per instantiation of the sparse templates.
// Read-only access to the private fields of the sparse joint iterators (vector: interface
// form and the concrete JOINT_ITERATOR_ form; matrix: interface form). Used by C11 only to
// canonicalise explicit-state search states; no oracle decides through it.

// VerifC11JointState: Idx = current index (vector: Idx[0]); It1/It2 = the embedded
// iterators (pass them to VerifC11Iter); S1Nil/S2Nil = the looked-up scalars are absent.
type VerifC11JointState struct {
	Known        bool
	Idx          [2]int
	It1, It2     interface{}
	S1Nil, S2Nil bool
}

func VerifC11Joint(x interface{}) VerifC11JointState {
	switch v := x.(type) {
	case *SparseFloat64VectorJointIterator:
		return VerifC11JointState{true, [2]int{v.idx, 0}, v.it1, v.it2, v.s1.ptr == nil, v.s2 == nil}
	case *SparseFloat64VectorJointIterator_:
		return VerifC11JointState{true, [2]int{v.idx, 0}, v.it1, v.it2, v.s1.ptr == nil, v.s2.ptr == nil}
	case *SparseFloat64MatrixJointIterator:
		return VerifC11JointState{true, [2]int{v.i, v.j}, v.it1, v.it2, v.s1.ptr == nil, v.s2 == nil}
	case *SparseFloat32VectorJointIterator:
		return VerifC11JointState{true, [2]int{v.idx, 0}, v.it1, v.it2, v.s1.ptr == nil, v.s2 == nil}
	case *SparseFloat32VectorJointIterator_:
		return VerifC11JointState{true, [2]int{v.idx, 0}, v.it1, v.it2, v.s1.ptr == nil, v.s2.ptr == nil}
	case *SparseFloat32MatrixJointIterator:
		return VerifC11JointState{true, [2]int{v.i, v.j}, v.it1, v.it2, v.s1.ptr == nil, v.s2 == nil}
	case *SparseIntVectorJointIterator:
		return VerifC11JointState{true, [2]int{v.idx, 0}, v.it1, v.it2, v.s1.ptr == nil, v.s2 == nil}
	case *SparseIntVectorJointIterator_:
		return VerifC11JointState{true, [2]int{v.idx, 0}, v.it1, v.it2, v.s1.ptr == nil, v.s2.ptr == nil}
	case *SparseIntMatrixJointIterator:
		return VerifC11JointState{true, [2]int{v.i, v.j}, v.it1, v.it2, v.s1.ptr == nil, v.s2 == nil}
	case *SparseInt8VectorJointIterator:
		return VerifC11JointState{true, [2]int{v.idx, 0}, v.it1, v.it2, v.s1.ptr == nil, v.s2 == nil}
	case *SparseInt8VectorJointIterator_:
		return VerifC11JointState{true, [2]int{v.idx, 0}, v.it1, v.it2, v.s1.ptr == nil, v.s2.ptr == nil}
	case *SparseInt8MatrixJointIterator:
		return VerifC11JointState{true, [2]int{v.i, v.j}, v.it1, v.it2, v.s1.ptr == nil, v.s2 == nil}
	case *SparseInt16VectorJointIterator:
		return VerifC11JointState{true, [2]int{v.idx, 0}, v.it1, v.it2, v.s1.ptr == nil, v.s2 == nil}
	case *SparseInt16VectorJointIterator_:
		return VerifC11JointState{true, [2]int{v.idx, 0}, v.it1, v.it2, v.s1.ptr == nil, v.s2.ptr == nil}
	case *SparseInt16MatrixJointIterator:
		return VerifC11JointState{true, [2]int{v.i, v.j}, v.it1, v.it2, v.s1.ptr == nil, v.s2 == nil}
	case *SparseInt32VectorJointIterator:
		return VerifC11JointState{true, [2]int{v.idx, 0}, v.it1, v.it2, v.s1.ptr == nil, v.s2 == nil}
	case *SparseInt32VectorJointIterator_:
		return VerifC11JointState{true, [2]int{v.idx, 0}, v.it1, v.it2, v.s1.ptr == nil, v.s2.ptr == nil}
	case *SparseInt32MatrixJointIterator:
		return VerifC11JointState{true, [2]int{v.i, v.j}, v.it1, v.it2, v.s1.ptr == nil, v.s2 == nil}
	case *SparseInt64VectorJointIterator:
		return VerifC11JointState{true, [2]int{v.idx, 0}, v.it1, v.it2, v.s1.ptr == nil, v.s2 == nil}
	case *SparseInt64VectorJointIterator_:
		return VerifC11JointState{true, [2]int{v.idx, 0}, v.it1, v.it2, v.s1.ptr == nil, v.s2.ptr == nil}
	case *SparseInt64MatrixJointIterator:
		return VerifC11JointState{true, [2]int{v.i, v.j}, v.it1, v.it2, v.s1.ptr == nil, v.s2 == nil}
	case *SparseReal32VectorJointIterator:
		return VerifC11JointState{true, [2]int{v.idx, 0}, v.it1, v.it2, v.s1 == nil, v.s2 == nil}
	case *SparseReal32VectorJointIterator_:
		return VerifC11JointState{true, [2]int{v.idx, 0}, v.it1, v.it2, v.s1 == nil, v.s2 == nil}
	case *SparseReal32MatrixJointIterator:
		return VerifC11JointState{true, [2]int{v.i, v.j}, v.it1, v.it2, v.s1 == nil, v.s2 == nil}
	case *SparseReal64VectorJointIterator:
		return VerifC11JointState{true, [2]int{v.idx, 0}, v.it1, v.it2, v.s1 == nil, v.s2 == nil}
	case *SparseReal64VectorJointIterator_:
		return VerifC11JointState{true, [2]int{v.idx, 0}, v.it1, v.it2, v.s1 == nil, v.s2 == nil}
	case *SparseReal64MatrixJointIterator:
		return VerifC11JointState{true, [2]int{v.i, v.j}, v.it1, v.it2, v.s1 == nil, v.s2 == nil}
	}
	return VerifC11JointState{}
}
