// SAGA: finite-sum objectives (least squares / logistic components), all five objective
// interfaces, and the oracle for its stated stopping rule (relative epoch step <= epsilon*gamma).
package main

import (
	"fmt"
	"math"

	ad "github.com/pbenner/autodiff"
	"github.com/pbenner/autodiff/algorithm/saga"
	verifrt "github.com/pbenner/autodiff/zz_verifrt"
)

// data family: Kind "lsq" | "slogit", P = dim, m, then m rows (d_1..d_dim, t)
type sagaData struct {
	kind   string
	dim, m int
	d      [][]float64
	t      []float64
}

func parseSaga(s FamSpec) *sagaData {
	sd := &sagaData{kind: s.Kind, dim: int(s.P[0]), m: int(s.P[1])}
	p := 2
	for i := 0; i < sd.m; i++ {
		sd.d = append(sd.d, append([]float64{}, s.P[p:p+sd.dim]...))
		sd.t = append(sd.t, s.P[p+sd.dim])
		p += sd.dim + 1
	}
	return sd
}

// component value and weight: gradient of f_i is w * d_i
func (sd *sagaData) comp(i int, x []float64) (y, w float64) {
	z := 0.0
	for j := 0; j < sd.dim; j++ {
		z += sd.d[i][j] * x[j]
	}
	if sd.kind == "lsq" {
		r := z - sd.t[i]
		return 0.5 * r * r, r
	}
	yi := sd.t[i]
	e := math.Exp(-yi * z)
	return math.Log(1 + e), -yi * e / (1 + e)
}

// gradient of the smooth part (1/m) sum f_i (+ lambda/(2m) |x|^2 for Tikhonov) and its rounding scale
func (sd *sagaData) grad(x []float64, tik float64) ([]float64, float64) {
	g := make([]float64, sd.dim)
	sc := 0.0
	for i := 0; i < sd.m; i++ {
		_, w := sd.comp(i, x)
		for j := 0; j < sd.dim; j++ {
			g[j] += w * sd.d[i][j] / float64(sd.m)
			sc += math.Abs(w * sd.d[i][j])
		}
		sc += math.Abs(sd.t[i])
	}
	for j := range g {
		g[j] += tik / float64(sd.m) * x[j]
		sc += math.Abs(tik * x[j])
	}
	return g, sc
}

// exact minimiser of the least-squares problem (if unique) and the smallest/largest Hessian eigenvalue
func (sd *sagaData) lsqMin(tik float64) (xmin []float64, lmin, lmax float64) {
	if sd.kind != "lsq" {
		return nil, 0, 0
	}
	n := sd.dim
	H := make([][]float64, n)
	b := make([]float64, n)
	for i := range H {
		H[i] = make([]float64, n)
	}
	for i := 0; i < sd.m; i++ {
		for a := 0; a < n; a++ {
			for c := 0; c < n; c++ {
				H[a][c] += sd.d[i][a] * sd.d[i][c]
			}
			b[a] += sd.t[i] * sd.d[i][a]
		}
	}
	for a := 0; a < n; a++ {
		H[a][a] += tik
	}
	if !isSPD(H) {
		return nil, 0, 0
	}
	neg := make([][]float64, n)
	for i := range neg {
		neg[i] = make([]float64, n)
		for j := range neg[i] {
			neg[i][j] = -H[i][j]
		}
	}
	return solveSmall(H, b), lamMinSym(H) / float64(sd.m), -lamMinSym(neg) / float64(sd.m)
}

type sagaEnv struct {
	sd         *sagaData
	devs       []Dev
	fired      []bool
	budget     int
	n, nHook   int
	epochStart []float64 // x at the first evaluation of the current epoch
	hookStop   bool
	hookFail   string
	hookWhat   string
	pendingX   []float64 // x handed to the last hook call; must be the next evaluation point
}

func (e *sagaEnv) dev(ch, idx int) string {
	for i, d := range e.devs {
		if devChan(d.Kind) == ch && d.K == idx {
			e.fired[i] = true
			return d.Kind
		}
	}
	return ""
}

func (e *sagaEnv) eval(i int, x ad.DenseFloat64Vector) (y, w float64, dev string, err error) {
	k := e.n
	e.n++
	if e.n > e.budget {
		panic(evalCap{"objective evaluations"})
	}
	m := e.sd.m
	if k >= m && (k-m)%m == 0 {
		e.epochStart = append([]float64{}, x...)
		if e.pendingX != nil && e.hookFail == "" && !sameBits(e.pendingX, e.epochStart) {
			e.hookFail = "hook-point-not-current"
			e.hookWhat = "the point handed to the hook " + fmtv(e.pendingX) + " is not the iterate the next epoch starts from " + fmtv(e.epochStart)
		}
		e.pendingX = nil
	}
	dev = e.dev(0, k)
	if dev == "err" {
		return 0, 0, dev, errInjected
	}
	y, w = e.sd.comp(i, x)
	switch dev {
	case "nanv":
		y = math.NaN()
	case "nang":
		w = math.NaN()
	}
	return y, w, dev, nil
}

func relStep(xs, x []float64) (maxX, maxD float64) {
	for i := range x {
		maxX = math.Max(maxX, math.Abs(x[i]))
		maxD = math.Max(maxD, math.Abs(x[i]-xs[i]))
	}
	return
}

func runSaga(cs *Case) *RunResult {
	sd := parseSaga(cs.Fam)
	o := cs.Opt
	env := &sagaEnv{sd: sd, devs: cs.Devs, fired: make([]bool, len(cs.Devs)), budget: cs.Budget}
	res := &RunResult{env: &Env{devs: cs.Devs}, extra: map[string]float64{}}
	x0 := mkVec(cs.Start, o.X0Real)
	before := snap(x0)
	dense := func(i int) ad.DenseFloat64Vector { return ad.NewDenseFloat64Vector(append([]float64{}, sd.d[i]...)) }
	sparse := func(i int, w float64) ad.SparseConstFloat64Vector {
		var idx []int
		var val []float64
		for j, v := range sd.d[i] {
			if v != 0 {
				idx = append(idx, j)
				val = append(val, w*v)
			}
		}
		return ad.NewSparseConstFloat64Vector(idx, val, sd.dim)
	}
	var f interface{}
	switch o.Variant {
	case "1dense":
		f = saga.Objective1Dense(func(i int, x ad.DenseFloat64Vector) (float64, float64, ad.DenseFloat64Vector, error) {
			y, w, _, err := env.eval(i, x)
			if err != nil {
				return 0, 0, nil, err
			}
			return y, w, dense(i), nil
		})
	case "2dense":
		f = saga.Objective2Dense(func(i int, x ad.DenseFloat64Vector) (float64, ad.DenseFloat64Vector, error) {
			y, w, _, err := env.eval(i, x)
			if err != nil {
				return 0, nil, err
			}
			g := dense(i)
			for j := range g {
				g[j] *= w
			}
			return y, g, nil
		})
	case "1sparse", "jit":
		f = saga.Objective1Sparse(func(i int, x ad.DenseFloat64Vector) (float64, float64, ad.SparseConstFloat64Vector, error) {
			y, w, _, err := env.eval(i, x)
			if err != nil {
				return 0, 0, sparse(i, 1), err
			}
			return y, w, sparse(i, 1), nil
		})
	case "2sparse":
		f = saga.Objective2Sparse(func(i int, x ad.DenseFloat64Vector) (float64, ad.SparseConstFloat64Vector, error) {
			y, w, _, err := env.eval(i, x)
			if err != nil {
				return 0, sparse(i, 1), err
			}
			return y, sparse(i, w), nil
		})
	default:
		panic("harness: saga variant " + o.Variant)
	}
	args := []interface{}{saga.Epsilon{Value: o.Eps}, saga.Gamma{Value: o.Step}, saga.Seed{Value: 1}}
	switch o.Reg {
	case "ti":
		args = append(args, saga.TikhonovRegularization{Value: o.RegV})
	case "l1":
		if o.Variant == "jit" {
			args = append(args, saga.JitUpdate{Value: &saga.JitUpdateL1{Lambda: o.RegV}})
		} else {
			args = append(args, saga.L1Regularization{Value: o.RegV})
		}
	case "l2":
		args = append(args, saga.L2Regularization{Value: o.RegV})
	}
	if o.MaxIter > 0 {
		args = append(args, saga.MaxIterations{Value: o.MaxIter})
	}
	if o.Hook {
		args = append(args, saga.Hook{Value: func(x ad.ConstVector, delta, lambda ad.ConstScalar, epoch int) bool {
			k := env.nHook
			env.nHook++
			xs := floats(x)
			if env.hookFail == "" && env.epochStart != nil {
				mx, md := relStep(env.epochStart, xs)
				want := md
				if mx != 0 {
					want = md / mx
				}
				if got := delta.GetFloat64(); !(math.Abs(got-want) <= 1e-12*(1+math.Abs(want))) {
					env.hookFail = "hook-step-stale"
					env.hookWhat = fmt.Sprintf("hook call %d: step %g handed to the hook is not the relative step %g between the epoch's first iterate %s and the hook's x %s", k, got, want, fmtv(env.epochStart), fmtv(xs))
				}
			}
			env.pendingX = xs
			if env.dev(2, k) == "stop" {
				env.hookStop = true
				return true
			}
			return false
		}})
	}
	var ret ad.Vector
	var err error
	verifrt.Reset(int64(cs.Budget)*60 + 20000)
	protect(res, func() { ret, _, err = saga.Run(f, sd.m, x0, args...) })
	verifrt.Reset(0)
	if err != nil {
		res.Err = err.Error()
	}
	res.env.fired = env.fired
	res.env.nObj, res.env.nHook = env.n, env.nHook
	res.env.hookStopped = env.hookStop
	res.env.hookFail, res.env.hookWhat = env.hookFail, env.hookWhat
	if after := snap(x0); after != before {
		res.X0Bad = "start vector handed in by the caller was modified: " + fmtv(cs.Start) + " -> " + fmtv(floats(x0))
	}
	if ret == nil || res.Panic != "" || res.Capped != "" || res.Err != "" {
		return res
	}
	res.Ret, res.HaveRet = floats(ret), true
	if env.hookStop || o.MaxIter > 0 {
		return res
	}
	x := res.Ret
	if hasNaN(x) {
		res.viol = append(res.viol, [2]string{"nan-point", "returned " + fmtv(x) + " with err==nil"})
		return res
	}
	// stated stopping rule, reconstructed from the evaluation points
	if env.epochStart == nil {
		res.viol = append(res.viol, [2]string{"returned-before-first-epoch", "returned without error before completing an epoch"})
		return res
	}
	lim := o.Eps * o.Step
	mx, md := relStep(env.epochStart, x)
	ok := (mx != 0 && md/mx <= lim*(1+1e-9)) || (mx == 0 && md == 0)
	if !ok {
		res.viol = append(res.viol, [2]string{"stop-criterion", fmt.Sprintf("returned %s with err==nil; last epoch started at %s: relative step %g is not <= epsilon*gamma = %g", fmtv(x), fmtv(env.epochStart), md/mx, lim)})
		return res
	}
	// optimality on smooth strictly convex problems
	tik := 0.0
	if o.Reg == "ti" {
		tik = o.RegV
	}
	if o.Reg == "" || o.Reg == "ti" {
		g, _ := sd.grad(x, tik)
		gi := 0.0
		for _, v := range g {
			gi = math.Max(gi, math.Abs(v))
		}
		ratio := gi / (o.Eps * math.Max(mx, 1)) // the rule is relative to |x|; near x=0 it degenerates to rounding level, hence the floor
		res.extra["gradratio"] = ratio
		if xmin, lmin, lmax := sd.lsqMin(tik); xmin != nil {
			d := make([]float64, len(x))
			for i := range x {
				d[i] = x[i] - xmin[i]
			}
			res.extra["dist"] = norm2(d)
			if sd.m == 1 && o.Reg == "" && o.Step*lmax <= 1 {
				// one component: SAGA is exactly gradient descent with step gamma, so the stop
				// rule bounds the gradient at the previous iterate and the map is a contraction
				bound := math.Sqrt(float64(sd.dim))*o.Eps*mx/lmin*(1+1e-6) + 1e-12*(1+norm2(xmin))
				if !(norm2(d) <= bound) {
					res.viol = append(res.viol, [2]string{"minimiser-distance", fmt.Sprintf("returned %s, exact minimiser %s, distance %g > bound %g", fmtv(x), fmtv(xmin), norm2(d), bound)})
				}
			} else if !(ratio <= sagaGradRatioBound) {
				res.viol = append(res.viol, [2]string{"minimiser-distance", fmt.Sprintf("returned %s (exact minimiser %s): gradient of the full objective %g is %g times epsilon*max(|x|,1) although the stop rule fired", fmtv(x), fmtv(xmin), gi, ratio)})
			}
		}
	}
	return res
}

// Generous empirical constant for problems with several components (no rigorous bound
// links one epoch's step to the gradient of a stochastic method): measured maximum on the
// whole lattice is reported in the evidence counters; see report.
const sagaGradRatioBound = 1e3
