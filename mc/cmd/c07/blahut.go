// Blahut-Arimoto: channels with rows from a small lattice; the only environment is the hook.
package main

import (
	"fmt"
	"math"
	"sync"

	ad "github.com/pbenner/autodiff"
	"github.com/pbenner/autodiff/algorithm/blahut"
	verifrt "github.com/pbenner/autodiff/zz_verifrt"
)

type channel struct {
	n, m int // inputs, outputs
	W    [][]float64
}

func parseChannel(s FamSpec) *channel {
	c := &channel{n: int(s.P[0]), m: int(s.P[1])}
	for i := 0; i < c.n; i++ {
		c.W = append(c.W, append([]float64{}, s.P[2+i*c.m:2+(i+1)*c.m]...))
	}
	return c
}

// divergences D_i = D(W_i || pW) and mutual information I(p) = sum p_i D_i, in nats (0 log 0 = 0)
func (c *channel) info(p []float64) (I float64, D []float64) {
	out := make([]float64, c.m)
	for i := 0; i < c.n; i++ {
		for j := 0; j < c.m; j++ {
			out[j] += p[i] * c.W[i][j]
		}
	}
	D = make([]float64, c.n)
	for i := 0; i < c.n; i++ {
		for j := 0; j < c.m; j++ {
			if w := c.W[i][j]; w > 0 {
				D[i] += w * math.Log(w/out[j])
			}
		}
		if p[i] > 0 {
			I += p[i] * D[i]
		}
	}
	return
}

func maxOf(v []float64) float64 {
	m := math.Inf(-1)
	for _, x := range v {
		m = math.Max(m, x)
	}
	return m
}

var capCache sync.Map

// capacityLower: a lower bound of the capacity (nats) from an independent plain iteration
// in the harness; any I(p) is a valid lower bound, so the oracle stays sound whatever its accuracy.
func (c *channel) capacityLower(key string) (lo, hi float64) {
	if v, ok := capCache.Load(key); ok {
		r := v.([2]float64)
		return r[0], r[1]
	}
	p := make([]float64, c.n)
	for i := range p {
		p[i] = 1 / float64(c.n)
	}
	for it := 0; it < 20000; it++ {
		_, D := c.info(p)
		s := 0.0
		for i := range p {
			p[i] *= math.Exp(D[i])
			s += p[i]
		}
		for i := range p {
			p[i] /= s
		}
	}
	I, D := c.info(p)
	capCache.Store(key, [2]float64{I, maxOf(D)})
	return I, maxOf(D)
}

func isDist(p []float64) string {
	s := 0.0
	for _, v := range p {
		if math.IsNaN(v) {
			return "contains NaN"
		}
		if v < 0 || v > 1+1e-12 {
			return "entry outside [0,1]"
		}
		s += v
	}
	if math.Abs(s-1) > 1e-9 {
		return fmt.Sprintf("sums to %g", s)
	}
	return ""
}

func runBlahut(cs *Case) *RunResult {
	ch := parseChannel(cs.Fam)
	o := cs.Opt
	res := &RunResult{env: &Env{devs: cs.Devs, fired: make([]bool, len(cs.Devs))}, extra: map[string]float64{}}
	env := res.env
	lambda := o.Step
	steps := o.MaxIter
	viol := func(k, w string) {
		for _, v := range res.viol {
			if v[0] == k {
				return
			}
		}
		res.viol = append(res.viol, [2]string{k, w})
	}
	prev := append([]float64{}, cs.Start...)
	var lastHookP []float64
	gapStopped := false
	hook := func(p []float64, J float64) bool {
		k := env.nHook
		env.nHook++
		pc := append([]float64{}, p...)
		lastHookP = pc
		if why := isDist(pc); why != "" {
			viol("hook-p-not-a-distribution", fmt.Sprintf("hook call %d: p=%s %s", k, fmtv(pc), why))
		} else if lambda == 1 {
			// J (bits) is the value of the alternating maximisation between the previous and the new input distribution
			Ip, _ := ch.info(prev)
			In, _ := ch.info(pc)
			Jn := J * math.Ln2
			if !(Jn >= Ip-1e-9 && Jn <= In+1e-9) {
				viol("hook-value-not-at-point", fmt.Sprintf("hook call %d: J=%g nats is not between I(previous p)=%g and I(p handed to the hook)=%g, p=%s", k, Jn, Ip, In, fmtv(pc)))
			}
		}
		prev = pc
		if env.devAt(2, k) == "stop" {
			env.hookStopped = true
			return true
		}
		if o.Eps > 0 && isDist(pc) == "" {
			_, D := ch.info(pc)
			if maxOf(D)/math.Ln2-J <= o.Eps {
				gapStopped = true
				return true
			}
		}
		return false
	}
	var ret []float64
	verifrt.Reset(int64(steps+10) * 1000)
	switch o.Variant {
	case "run":
		flat := []float64{}
		for i := range ch.W {
			flat = append(flat, ch.W[i]...)
		}
		M := ad.NewDenseFloat64Matrix(flat, ch.n, ch.m)
		p0 := ad.NewDenseFloat64Vector(append([]float64{}, cs.Start...))
		b0, bM := snap(p0), fmt.Sprint(flatM(M))
		args := []interface{}{blahut.Lambda{Value: lambda}}
		if o.Hook {
			args = append(args, blahut.Hook{Value: func(p ad.Vector, J ad.Scalar) bool { return hook(floats(p), J.GetFloat64()) }})
		}
		protect(res, func() {
			r := blahut.Run(M, p0, steps, args...)
			if r != nil {
				ret = floats(r)
			}
		})
		if snap(p0) != b0 {
			res.X0Bad = "initial distribution handed in by the caller was modified"
		} else if fmt.Sprint(flatM(M)) != bM {
			res.X0Bad = "channel matrix handed in by the caller was modified"
		}
	case "naive":
		W := make([][]float64, ch.n)
		for i := range W {
			W[i] = append([]float64{}, ch.W[i]...)
		}
		p0 := append([]float64{}, cs.Start...)
		args := []interface{}{blahut.Lambda{Value: lambda}}
		if o.Hook {
			args = append(args, blahut.HookNaive{Value: hook})
		}
		protect(res, func() { ret = blahut.RunNaive(W, p0, steps, args...) })
		if !sameBits(p0, cs.Start) {
			res.X0Bad = "initial distribution handed in by the caller was modified"
		}
		for i := range W {
			if !sameBits(W[i], ch.W[i]) {
				res.X0Bad = "channel matrix handed in by the caller was modified"
			}
		}
	default:
		panic("harness: blahut variant")
	}
	verifrt.Reset(0)
	if res.Panic != "" || res.Capped != "" {
		return res
	}
	if ret == nil {
		viol("nil-result", "no distribution returned")
		return res
	}
	res.Ret, res.HaveRet = ret, true
	if gapStopped {
		res.extra["gapstop"] = 1
	}
	if why := isDist(ret); why != "" {
		viol("result-not-a-distribution", fmt.Sprintf("returned p=%s %s", fmtv(ret), why))
		return res
	}
	if (env.hookStopped || gapStopped) && !sameBits(ret, lastHookP) {
		viol("result-not-hook-point", fmt.Sprintf("stopped by the hook at p=%s but returned %s", fmtv(lastHookP), fmtv(ret)))
	}
	I, D := ch.info(ret)
	if gapStopped && lambda == 1 {
		// Kuhn-Tucker conditions within the requested precision (bits)
		if !(maxOf(D)-I <= o.Eps*math.Ln2+1e-9) {
			viol("capacity-conditions", fmt.Sprintf("stopped at precision %g bits but max_i D(W_i||pW) - I(p) = %g nats at the returned p=%s", o.Eps, maxOf(D)-I, fmtv(ret)))
		}
	}
	if !env.hookStopped && !gapStopped && lambda <= 1 && steps > 0 {
		// Arimoto's bound after N full steps: C - I(p_N) <= D(p*||p_0)/(lambda N) <= ln(1/min p_0)/(lambda N)
		lo, _ := ch.capacityLower(cs.Fam.String())
		minp := 1.0
		for _, v := range cs.Start {
			minp = math.Min(minp, v)
		}
		slack := math.Log(1/minp) / (lambda * float64(steps))
		if lambda < 1 {
			slack *= 2
		}
		if !(I >= lo-slack-1e-9) {
			viol("convergence-bound", fmt.Sprintf("after %d steps I(p)=%g nats at p=%s, capacity >= %g: gap exceeds the guaranteed %g", steps, I, fmtv(ret), lo, slack))
		}
	}
	return res
}
