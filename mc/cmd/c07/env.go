// The environment of an optimizer run: objective, constraint and hook callbacks with a
// schedule of deviations from their default (exact) answers, evaluation budgets and a log
// of what was answered (the hook oracle compares against it).
package main

import (
	"errors"
	"math"

	ad "github.com/pbenner/autodiff"
)

// Dev: one deviation from the default answer. Kind: err | nanv | nang (objective call K),
// infeas (constraint call K), stop (hook call K).
type Dev struct {
	Kind string `json:"kind"`
	K    int    `json:"k"`
}

var devKinds = []string{"err", "nanv", "nang", "infeas", "stop"}

func devChan(kind string) int {
	switch kind {
	case "err", "nanv", "nang":
		return 0
	case "infeas":
		return 1
	}
	return 2
}

type evalCap struct{ what string }

var errInjected = errors.New("injected objective error")

type logEntry struct {
	x   []float64
	v   float64
	g   []float64 // gradient / flattened jacobian as answered
	dev string
}

const logRing = 256

type Env struct {
	fam    *Family
	devs   []Dev
	fired  []bool
	budget int

	nObj, nCon, nHook int
	nNaN              int
	log               [logRing]logEntry
	nlog              int

	// constraint: pure half-space on coordinate 0 minus the set of points rejected by deviation
	con      string // "" | "le" | "ge"
	conT     float64
	rejected [][]float64

	hookStopped bool
	hookFail    string // first hook inconsistency (key suffix)
	hookWhat    string
	firstX      [][]float64 // argument of the first few objective calls (SAGA epoch reconstruction uses its own log)
}

func newEnv(f *Family, devs []Dev, budget int, con string) *Env {
	e := &Env{fam: f, devs: devs, fired: make([]bool, len(devs)), budget: budget, con: con}
	switch con {
	case "le":
		e.conT = 0.75
	case "ge":
		e.conT = -0.75
	}
	return e
}

func (e *Env) devAt(ch, idx int) string {
	for i, d := range e.devs {
		if devChan(d.Kind) == ch && d.K == idx {
			e.fired[i] = true
			return d.Kind
		}
	}
	return ""
}

func (e *Env) allFired() bool {
	for _, f := range e.fired {
		if !f {
			return false
		}
	}
	return true
}

func floats(x ad.ConstVector) []float64 {
	r := make([]float64, x.Dim())
	for i := range r {
		r[i] = x.ConstAt(i).GetFloat64()
	}
	return r
}

func (e *Env) record(x []float64, v float64, g []float64, dev string) {
	e.log[e.nlog%logRing] = logEntry{x, v, g, dev}
	e.nlog++
}

func (e *Env) tickObj() int {
	k := e.nObj
	e.nObj++
	if e.nObj > e.budget {
		panic(evalCap{"objective evaluations"})
	}
	return k
}

// a routine that keeps asking for the objective at NaN points has diverged for good
// (the pure objective answers NaN there): cut the run short as "capped".
func (e *Env) nanPoint(xs []float64) {
	if hasNaN(xs) {
		e.nNaN++
		if e.nNaN > 40 {
			panic(evalCap{"objective evaluations at NaN points"})
		}
	}
}

// Obj is the scalar objective handed to the routines.
func (e *Env) Obj(x ad.ConstVector) (ad.MagicScalar, error) {
	k := e.tickObj()
	xs := floats(x)
	e.nanPoint(xs)
	dev := e.devAt(0, k)
	if dev == "err" {
		e.record(xs, math.NaN(), nil, dev)
		return nil, errInjected
	}
	r := e.fam.AD(x)
	switch dev {
	case "nanv":
		r.Value = math.NaN()
	case "nang":
		for i := range r.Derivative {
			r.Derivative[i] = math.NaN()
		}
	}
	// inside a line search the routine differentiates with respect to the step length only
	g := make([]float64, r.GetN())
	for i := range g {
		g[i] = r.GetDerivative(i)
	}
	e.record(xs, r.GetFloat64(), g, dev)
	return r, nil
}

// ObjVec is the vector-valued system handed to newton.RunRoot.
func (e *Env) ObjVec(x ad.ConstVector) (ad.MagicVector, error) {
	k := e.tickObj()
	xs := floats(x)
	e.nanPoint(xs)
	dev := e.devAt(0, k)
	if dev == "err" {
		e.record(xs, math.NaN(), nil, dev)
		return nil, errInjected
	}
	y := e.fam.ADVec(x)
	n := e.fam.N
	switch dev {
	case "nanv":
		for i := range y {
			y[i].Value = math.NaN()
		}
	case "nang":
		for i := range y {
			for j := range y[i].Derivative {
				y[i].Derivative[j] = math.NaN()
			}
		}
	}
	flat := make([]float64, 0, n+n*n)
	for i := range y {
		flat = append(flat, y[i].GetFloat64())
	}
	for i := range y {
		for j := 0; j < n; j++ {
			flat = append(flat, y[i].GetDerivative(j))
		}
	}
	e.record(xs, 0, flat, dev)
	return y, nil
}

// ObjGrad is the gradient-only objective of rprop.RunGradient / adam.RunGradient.
func (e *Env) ObjGrad(x, gradient ad.DenseFloat64Vector) error {
	k := e.tickObj()
	xs := append([]float64{}, x...)
	e.nanPoint(xs)
	dev := e.devAt(0, k)
	if dev == "err" {
		e.record(xs, math.NaN(), nil, dev)
		return errInjected
	}
	_, g, _ := e.fam.Pure(xs)
	if dev == "nang" || dev == "nanv" {
		for i := range g {
			g[i] = math.NaN()
		}
	}
	copy(gradient, g)
	e.record(xs, math.NaN(), g, dev)
	return nil
}

func sameBits(a, b []float64) bool {
	if len(a) != len(b) {
		return false
	}
	for i := range a {
		if math.Float64bits(a[i]) != math.Float64bits(b[i]) && !(a[i] == 0 && b[i] == 0) {
			return false
		}
	}
	return true
}

func (e *Env) purePred(x []float64) bool {
	switch e.con {
	case "le":
		return x[0] <= e.conT
	case "ge":
		return x[0] >= e.conT
	}
	return true
}

// feasible: the constraint the caller supplied, as a pure function of x (half-space minus
// the points it has rejected by deviation so far).
func (e *Env) feasible(x []float64) bool {
	if hasNaN(x) {
		return false
	}
	if !e.purePred(x) {
		return false
	}
	for _, r := range e.rejected {
		if sameBits(r, x) {
			return false
		}
	}
	return true
}

func (e *Env) Con(x []float64) bool {
	k := e.nCon
	e.nCon++
	if e.nCon > e.budget || e.nCon > 3000 {
		panic(evalCap{"constraint evaluations"})
	}
	if e.devAt(1, k) == "infeas" {
		if e.feasible(x) {
			e.rejected = append(e.rejected, append([]float64{}, x...))
		}
		return false
	}
	return e.feasible(x)
}

func eqOrBothNaN(a, b float64) bool {
	return a == b || (math.IsNaN(a) && math.IsNaN(b))
}

// Hook checks that (x, value, gradient) handed to a hook are what the objective answered
// at x (or, if x was never evaluated, the pure objective at x within rounding), then
// answers false unless a deviation says stop. hasV/hasG tell which parts the routine's
// hook signature carries.
func (e *Env) Hook(x []float64, hasV bool, v float64, hasG bool, g []float64) bool {
	k := e.nHook
	e.nHook++
	if e.nHook > e.budget {
		panic(evalCap{"hook calls"})
	}
	if e.hookFail == "" {
		e.checkHook(x, hasV, v, hasG, g)
	}
	if e.devAt(2, k) == "stop" {
		e.hookStopped = true
		return true
	}
	return false
}

func (e *Env) checkHook(x []float64, hasV bool, v float64, hasG bool, g []float64) {
	found := false
	vOK, gOK := false, false
	lo := e.nlog - logRing
	if lo < 0 {
		lo = 0
	}
	for i := e.nlog - 1; i >= lo; i-- {
		le := &e.log[i%logRing]
		if le.dev == "err" || !sameBits(le.x, x) {
			continue
		}
		found = true
		if !hasV || eqOrBothNaN(le.v, v) {
			vOK = true
		}
		if !hasG {
			gOK = true
		} else if len(le.g) == len(g) {
			ok := true
			for j := range g {
				if !eqOrBothNaN(le.g[j], g[j]) {
					ok = false
				}
			}
			if ok {
				gOK = true
			}
		}
		if vOK && gOK {
			return
		}
	}
	// compare with the pure objective within rounding
	if !hasNaN(x) {
		pv, pg, sc := e.pureFlat(x)
		tol := 1e-12 * (1 + sc)
		vOK2 := !hasV || math.Abs(pv-v) <= tol*(1+math.Abs(pv))
		gOK2 := true
		if hasG {
			for j := range g {
				if !(math.Abs(pg[j]-g[j]) <= tol) {
					gOK2 = false
				}
			}
		}
		if vOK2 && gOK2 && !found {
			return // consistent although the routine never asked the objective at exactly this x
		}
		if found {
			vOK, gOK = vOK || vOK2, gOK || gOK2
		} else {
			vOK, gOK = vOK2, gOK2
		}
	}
	if vOK && gOK {
		return
	}
	switch {
	case !found:
		e.hookFail, e.hookWhat = "hook-args-at-unevaluated-point", "hook received a point the objective was never evaluated at, with values that are not the objective's"
	case !vOK && !gOK:
		e.hookFail, e.hookWhat = "hook-value-and-gradient-stale", "hook value and gradient are not those of the objective at the hook's x"
	case !vOK:
		e.hookFail, e.hookWhat = "hook-value-stale", "hook value is not the objective value at the hook's x"
	default:
		e.hookFail, e.hookWhat = "hook-gradient-stale", "hook gradient is not the objective gradient at the hook's x"
	}
	e.hookWhat += " (hook call " + itoa(e.nHook-1) + ", x=" + fmtv(x) + ", value=" + fmtf(v) + ", gradient=" + fmtv(g) + ")"
}

// pureFlat: pure value and gradient (scalar families) or [F, jacobian] flattened (systems).
func (e *Env) pureFlat(x []float64) (float64, []float64, float64) {
	if e.fam.Pure != nil {
		return e.fam.Pure(x)
	}
	F, J, sc := e.fam.PureVec(x)
	flat := append([]float64{}, F...)
	for i := range J {
		flat = append(flat, J[i]...)
	}
	return 0, flat, sc
}
