// Non-convex rays for the line search (added after the second seeded-change round): the
// 1-D families of the first line-search block are restrictions of convex or
// "one-bump" objectives and never drive the bracketing phase through "expanded at least
// once, then overshot into a region of lower value and non-negative slope" on a ray whose
// slope gets steeper before it flattens. Enumerated here:
//   - "poly": every phi(alpha) = a1 alpha + a2 alpha^2 + a3 alpha^3 + a4 alpha^4 with
//     coefficients from a small dyadic lattice and phi'(0) = a1 <= 0 (products such as
//     -alpha + c alpha^2 - d alpha^3 are members);
//   - "ray:rosen", "ray:dwell": restrictions of the 2-D Rosenbrock and double-well
//     objectives to every lattice start x0 and every lattice direction d (and -grad f(x0))
//     that is a descent direction at x0.
//
// lsPath reconstructs from the evaluation log which return site of lineSearch.go a run
// took (coverage statistic only; the oracle does not use it).
package main

import (
	"fmt"
	"math"
	"strings"

	ad "github.com/pbenner/autodiff"
)

func makeRayFamily(s FamSpec) *Family {
	P := s.P
	switch {
	case s.Kind == "poly": // P = a1..a4
		a := [4]float64{P[0], P[1], P[2], P[3]}
		f := &Family{Spec: s, N: 1}
		f.Cx = 1
		for i, c := range a {
			if c != 0 {
				f.Cx += i + 1
			}
		}
		f.AD = func(x ad.ConstVector) *ad.Real64 {
			z := x.ConstAt(0)
			z2 := mul(z, z)
			pw := []ad.ConstScalar{z, z2, mul(z2, z), mul(z2, z2)}
			r := mul(k(a[0]), z)
			for i := 1; i < 4; i++ {
				if a[i] != 0 {
					r = add(r, mul(k(a[i]), pw[i]))
				}
			}
			return r
		}
		f.Pure = func(x []float64) (float64, []float64, float64) {
			z := x[0]
			v := ((a[3]*z+a[2])*z+a[1])*z*z + a[0]*z
			g := ((4*a[3]*z+3*a[2])*z+2*a[1])*z + a[0]
			sc := math.Abs(4*a[3]*z*z*z) + math.Abs(3*a[2]*z*z) + math.Abs(2*a[1]*z) + math.Abs(a[0])
			return v, []float64{g}, sc
		}
		f.VSc = func(x []float64) float64 {
			z := math.Abs(x[0])
			return math.Abs(a[3])*z*z*z*z + math.Abs(a[2])*z*z*z + math.Abs(a[1])*z*z + math.Abs(a[0])*z
		}
		return f
	case s.Kind == "dwell": // P = c, s : (x^2-1)^2 + c (y - s x)^2   (two wells at x = +-1)
		c, sl := P[0], P[1]
		f := &Family{Spec: s, N: 2, Cx: 4}
		f.AD = func(x ad.ConstVector) *ad.Real64 {
			u := sub(mul(x.ConstAt(0), x.ConstAt(0)), k(1))
			w := sub(x.ConstAt(1), mul(k(sl), x.ConstAt(0)))
			return add(mul(u, u), mul(k(c), mul(w, w)))
		}
		f.Pure = func(x []float64) (float64, []float64, float64) {
			u, w := x[0]*x[0]-1, x[1]-sl*x[0]
			g := []float64{4*x[0]*u - 2*c*sl*w, 2 * c * w}
			sc := math.Abs(4*x[0]*x[0]*x[0]) + math.Abs(4*x[0]) + 2*c*(1+math.Abs(sl))*(math.Abs(x[1])+math.Abs(sl*x[0]))
			return u*u + c*w*w, g, sc
		}
		f.VSc = func(x []float64) float64 {
			xx := x[0] * x[0]
			w := math.Abs(x[1]) + math.Abs(sl*x[0])
			return xx*xx + 2*xx + 1 + c*w*w
		}
		return f
	case strings.HasPrefix(s.Kind, "ray:"): // P = n, x0 (n), d (n), base parameters
		n := int(P[0])
		x0, d := P[1:1+n], P[1+n:1+2*n]
		base := MakeFamily(FamSpec{s.Kind[4:], P[1+2*n:]})
		if base.N != n {
			panic("harness: ray dimension")
		}
		dmax := 1.0
		for _, v := range d {
			dmax = math.Max(dmax, math.Abs(v))
		}
		f := &Family{Spec: s, N: 1, Cx: base.Cx + 1}
		at := func(a float64) []float64 {
			x := make([]float64, n)
			for i := range x {
				x[i] = x0[i] + a*d[i]
			}
			return x
		}
		f.AD = func(a ad.ConstVector) *ad.Real64 {
			x := make(ad.DenseReal64Vector, n)
			for i := range x {
				x[i] = add(k(x0[i]), mul(k(d[i]), a.ConstAt(0)))
			}
			return base.AD(x)
		}
		f.Pure = func(a []float64) (float64, []float64, float64) {
			v, g, sc := base.Pure(at(a[0]))
			s := 0.0
			for i := range g {
				s += g[i] * d[i]
			}
			return v, []float64{s}, sc * dmax
		}
		f.VSc = func(a []float64) float64 { return valueScale(base, at(a[0])) }
		return f
	}
	return nil
}

// valueScale: sum of |terms| of the objective VALUE at x.
func valueScale(f *Family, x []float64) float64 {
	if f.VSc != nil {
		return f.VSc(x)
	}
	if f.Spec.Kind == "rosen" {
		a, b := f.Spec.P[0], f.Spec.P[1]
		xx := x[0] * x[0]
		w := math.Abs(x[1]) + xx
		return a*a + 2*math.Abs(a*x[0]) + xx + math.Abs(b)*w*w
	}
	v, _, sc := f.Pure(x)
	m := 1.0
	for _, t := range x {
		m = math.Max(m, math.Abs(t))
	}
	return math.Abs(v) + sc*m
}

/* lattices ---------------------------------------------------------------------------------- */

// polySpecs: the full coefficient product, simplest first. sub selects the sub-lattice used
// for the deviation runs.
func polySpecs(sub bool) []FamSpec {
	a1 := []float64{-1, -0.5, -0.25, -2}
	a2 := []float64{0, 1, -1, 0.5, -0.5, 2, -2}
	a3 := []float64{0, -1, 1, -0.5, 0.5, -2, 2}
	a4 := []float64{0, 0.5, 0.25, 1, 0.0625}
	if sub {
		a1 = []float64{-1, -0.25}
		a2 = []float64{0, 1, -1, 2}
		a3 = []float64{0, -1, 1, -2}
		a4 = []float64{0, 0.5, 0.0625}
	}
	var out []FamSpec
	for _, c4 := range a4 {
		for _, c3 := range a3 {
			for _, c2 := range a2 {
				for _, c1 := range a1 {
					out = append(out, FamSpec{"poly", []float64{c1, c2, c3, c4}})
				}
			}
		}
	}
	return out
}

// raySpecs: for every base objective (2-D), every lattice start and every direction of
// {-2..2}^2 \ {0} plus -grad f(x0) that is a descent direction at the start.
func raySpecs(bases []FamSpec, starts [][]float64, sub bool) []FamSpec {
	var out []FamSpec
	dl := []float64{-2, -1, 0, 1, 2}
	for _, b := range bases {
		fb := MakeFamily(b)
		for _, x0 := range starts {
			_, g, _ := fb.Pure(x0)
			dirs := [][]float64{}
			if !hasNaN(g) && norm2(g) > 0 && norm2(g) < 1e6 {
				dirs = append(dirs, []float64{-g[0], -g[1]})
			}
			for _, d := range cube(dl, 2) {
				if sub && (math.Abs(d[0]) == 2 || math.Abs(d[1]) == 2) {
					continue
				}
				if (d[0] != 0 || d[1] != 0) && !(d[0] == -g[0] && d[1] == -g[1]) {
					dirs = append(dirs, d)
				}
			}
			for _, d := range dirs {
				if g[0]*d[0]+g[1]*d[1] < 0 {
					P := append([]float64{2}, x0...)
					P = append(P, d...)
					out = append(out, FamSpec{"ray:" + b.Kind, append(P, b.P...)})
				}
			}
		}
	}
	return out
}

/* which return site did a line search take? ------------------------------------------------ */

func bucket(n int) string {
	if n >= 3 {
		return "3+"
	}
	return fmt.Sprint(n)
}

// lsPath replays the control flow of lineSearch.go on the answers the objective gave
// (undeviated runs only). Label: expansions of the bracketing phase | how it ended
// (accept, zoom1 = sufficient decrease violated / value rose, zoom2 = lower value with
// non-negative slope, loop-end = MaxEval expansions, cut = error return) | evaluations
// inside zoom | how zoom ended (wolfe = accepted a strong-Wolfe point, cap = evaluation cap,
// err = "line search failed").
func lsPath(cs *Case, r *RunResult) string {
	env := r.env
	n := env.nlog
	if n == 0 || n > logRing || r.Panic != "" || r.Capped != "" {
		return "unclassified"
	}
	at := func(i int) (a, y, g float64) {
		le := env.log[i]
		if len(le.x) != 1 || len(le.g) != 1 {
			return math.NaN(), math.NaN(), math.NaN()
		}
		return le.x[0], le.v, le.g[0]
	}
	const c1, c2 = 1e-4, 0.9
	_, y0, g0 := at(0)
	if math.IsNaN(y0) || math.IsNaN(g0) {
		return "nan-at-0"
	}
	slope := "descent"
	if g0 == 0 {
		slope = "flat"
	} else if g0 > 0 {
		slope = "ascent"
	}
	yi := y0
	site, p, i := "", 1, 0
	var aj, yj, gj float64
	for ; i < cs.Opt.MaxEval; i++ {
		if p >= n {
			site = "cut"
			break
		}
		aj, yj, gj = at(p)
		p++
		if math.IsNaN(yj) || yj > y0+c1*aj*g0 || (yj >= yi && i > 0) {
			site = "zoom1"
			break
		}
		if math.Abs(gj) <= -c2*g0 {
			site = "accept"
			break
		}
		if gj >= 0 {
			site = "zoom2"
			break
		}
		yi = yj
	}
	if site == "" {
		site = "loop-end"
	}
	lab := slope + "|expansions=" + bucket(i) + "|" + site
	if site != "zoom1" && site != "zoom2" {
		if p != n {
			return lab + "|UNEXPECTED-EXTRA-EVALUATIONS"
		}
		return lab
	}
	nz := n - p
	end := "cap"
	if r.Err != "" {
		end = "err"
	} else if nz > 0 && r.HaveRet {
		a, y, g := at(n - 1)
		if a == r.Ret[0] && y <= y0+c1*a*g0 && math.Abs(g) <= -c2*g0 {
			end = "wolfe"
		}
	}
	return lab + "|zoom-evals=" + bucket(nz) + "|" + end
}
