// Case runner and oracle for the gradient / residual / Wolfe based routines.
package main

import (
	"fmt"
	"math"
	"sort"
	"strconv"
	"strings"

	ad "github.com/pbenner/autodiff"
	"github.com/pbenner/autodiff/algorithm/adam"
	"github.com/pbenner/autodiff/algorithm/bfgs"
	"github.com/pbenner/autodiff/algorithm/gradientDescent"
	"github.com/pbenner/autodiff/algorithm/lineSearch"
	"github.com/pbenner/autodiff/algorithm/newton"
	"github.com/pbenner/autodiff/algorithm/rprop"
	verifrt "github.com/pbenner/autodiff/zz_verifrt"
)

type Opt struct {
	Eps     float64    `json:"eps,omitempty"`
	Step    float64    `json:"step,omitempty"` // GD step, rprop initial step, adam step size, SAGA gamma, line search alpha1, Blahut lambda
	Eta     [2]float64 `json:"eta,omitempty"`
	Hess    int        `json:"hessian,omitempty"` // bfgs initial Hessian: 0 nil, 1 I, 2 2I
	HMod    string     `json:"hmod,omitempty"`
	Con     string     `json:"con,omitempty"` // "" | le (x0 <= 0.75) | ge (x0 >= -0.75)
	Hook    bool       `json:"hook,omitempty"`
	MaxIter int        `json:"maxiter,omitempty"` // 0: routine default (unbounded)
	X0Real  bool       `json:"x0real,omitempty"`
	MaxEval int        `json:"maxeval,omitempty"` // line search
	Dir     float64    `json:"dir,omitempty"`     // line search: |Dir| scale of the direction, <0 ascent
	Variant string     `json:"variant,omitempty"` // saga objective type, blahut run|naive
	Reg     string     `json:"reg,omitempty"`     // saga regulariser
	RegV    float64    `json:"regv,omitempty"`
}

type Case struct {
	Routine string    `json:"routine"`
	Fam     FamSpec   `json:"family"`
	Start   []float64 `json:"start"`
	Opt     Opt       `json:"options"`
	Devs    []Dev     `json:"deviations"`
	Budget  int       `json:"eval_budget"`
}

type RunResult struct {
	Ret     []float64
	HaveRet bool
	Err     string
	Panic   string
	Capped  string
	X0Bad   string
	env     *Env
	extra   map[string]float64
	viol    [][2]string // routine specific violations (key suffix, what)
	whats   map[string]bool
}

func itoa(i int) string     { return strconv.Itoa(i) }
func fmtf(v float64) string { return strconv.FormatFloat(v, 'g', -1, 64) }
func fmtv(v []float64) string {
	s := make([]string, len(v))
	for i := range v {
		s[i] = fmtf(v[i])
	}
	return "[" + strings.Join(s, " ") + "]"
}

func mkVec(v []float64, real bool) ad.Vector {
	c := append([]float64{}, v...)
	if real {
		return ad.NewDenseReal64Vector(c)
	}
	return ad.NewDenseFloat64Vector(c)
}

// snapshot of the caller's vector: values bitwise plus AD shape
func snap(v ad.ConstVector) string {
	var sb strings.Builder
	for i := 0; i < v.Dim(); i++ {
		s := v.ConstAt(i)
		fmt.Fprintf(&sb, "%x/%d/%d;", math.Float64bits(s.GetFloat64()), s.GetOrder(), s.GetN())
		for j := 0; j < s.GetN() && s.GetOrder() >= 1; j++ {
			fmt.Fprintf(&sb, "%x,", math.Float64bits(s.GetDerivative(j)))
		}
	}
	return sb.String()
}

func protect(res *RunResult, fn func()) {
	defer func() {
		if r := recover(); r != nil {
			switch v := r.(type) {
			case verifrt.BudgetExceeded:
				res.Capped = "loop ticks"
			case evalCap:
				res.Capped = v.what
			default:
				res.Panic = fmt.Sprint(r)
			}
		}
	}()
	fn()
}

func scalarVec(a ad.ConstScalar) ad.ConstVector {
	if r, ok := a.(*ad.Real64); ok {
		return ad.DenseReal64Vector{r}
	}
	return ad.NewDenseReal64Vector([]float64{a.GetFloat64()})
}

func f64(s ad.ConstScalar) (bool, float64) {
	if s == nil {
		return false, 0
	}
	// typed nil pointers inside the interface
	defer func() { recover() }()
	return true, s.GetFloat64()
}

func flatM(m ad.ConstMatrix) []float64 {
	r, c := m.Dims()
	out := make([]float64, 0, r*c)
	for i := 0; i < r; i++ {
		for j := 0; j < c; j++ {
			out = append(out, m.ConstAt(i, j).GetFloat64())
		}
	}
	return out
}

func runCase(cs *Case) *RunResult {
	switch cs.Routine {
	case "saga":
		return runSaga(cs)
	case "blahut":
		return runBlahut(cs)
	}
	fam := MakeFamily(cs.Fam)
	o := cs.Opt
	env := newEnv(fam, cs.Devs, cs.Budget, o.Con)
	res := &RunResult{env: env}
	n := fam.N
	x0 := mkVec(cs.Start, o.X0Real)
	before := snap(x0)
	conV := func(x ad.Vector) bool { return env.Con(floats(x)) }
	conC := func(x ad.ConstVector) bool { return env.Con(floats(x)) }
	var ret ad.ConstVector
	var err error
	verifrt.Reset(int64(cs.Budget)*60 + 20000)
	protect(res, func() {
		switch cs.Routine {
		case "bfgs":
			args := []interface{}{bfgs.Epsilon{Value: o.Eps}}
			if o.Hess > 0 {
				H := ad.NullDenseFloat64Matrix(n, n)
				for i := 0; i < n; i++ {
					H.At(i, i).SetFloat64(float64(o.Hess))
				}
				args = append(args, bfgs.Hessian{Value: H})
			}
			if o.Hook {
				args = append(args, bfgs.Hook{Value: func(x, g ad.ConstVector, y ad.ConstScalar) bool {
					hv, v := f64(y)
					return env.Hook(floats(x), hv, v, true, floats(g))
				}})
			}
			if o.Con != "" {
				args = append(args, bfgs.Constraints{Value: conV})
			}
			if o.MaxIter > 0 {
				args = append(args, bfgs.MaxIterations{Value: o.MaxIter})
			}
			var r ad.Vector
			r, err = bfgs.Run(env.Obj, x0, args...)
			if r != nil {
				ret = r
			}
		case "newton.root", "newton.crit":
			args := []interface{}{newton.Epsilon{Value: o.Eps}}
			if o.HMod != "" {
				args = append(args, newton.HessianModification{Value: o.HMod})
			}
			if o.Con != "" {
				args = append(args, newton.Constraints{Value: conV})
			}
			if o.MaxIter > 0 {
				args = append(args, newton.MaxIterations{Value: o.MaxIter})
			}
			var r ad.Vector
			if cs.Routine == "newton.root" {
				if o.Hook {
					args = append(args, newton.HookRoot{Value: func(x ad.ConstVector, J ad.ConstMatrix, y ad.ConstVector) bool {
						return env.Hook(floats(x), false, 0, true, append(floats(y), flatM(J)...))
					}})
				}
				r, err = newton.RunRoot(env.ObjVec, x0, args...)
			} else {
				if o.Hook {
					args = append(args, newton.HookCrit{Value: func(x ad.ConstVector, H ad.ConstMatrix, g ad.ConstVector) bool {
						return env.Hook(floats(x), false, 0, true, floats(g))
					}})
				}
				r, err = newton.RunCrit(env.Obj, x0, args...)
			}
			if r != nil {
				ret = r
			}
		case "newton.min":
			args := []interface{}{newton.Epsilon{Value: o.Eps}}
			if o.HMod != "" {
				args = append(args, newton.HessianModification{Value: o.HMod})
			}
			if o.Con != "" {
				args = append(args, newton.Constraints{Value: conV})
			}
			if o.MaxIter > 0 {
				args = append(args, newton.MaxIterations{Value: o.MaxIter})
			}
			if o.Hook {
				args = append(args, newton.HookMin{Value: func(x, g ad.ConstVector, H ad.ConstMatrix, y ad.ConstScalar) bool {
					hv, v := f64(y)
					return env.Hook(floats(x), hv, v, true, floats(g))
				}})
			}
			var r ad.Vector
			r, err = newton.RunMin(env.Obj, x0, args...)
			if r != nil {
				ret = r
			}
		case "rprop":
			args := []interface{}{rprop.Epsilon{Value: o.Eps}}
			if o.Hook {
				args = append(args, rprop.Hook{Value: func(g, step []float64, x ad.ConstVector, y ad.ConstScalar) bool {
					hv, v := f64(y)
					return env.Hook(floats(x), hv, v, true, append([]float64{}, g...))
				}})
			}
			if o.Con != "" {
				args = append(args, rprop.Constraints{Value: conV})
			}
			if o.MaxIter > 0 {
				args = append(args, rprop.MaxIterations{Value: o.MaxIter})
			}
			var r ad.Vector
			r, err = rprop.Run(env.Obj, x0, o.Step, []float64{o.Eta[0], o.Eta[1]}, args...)
			if r != nil {
				ret = r
			}
		case "rprop.gradient":
			args := []interface{}{rprop.Epsilon{Value: o.Eps}}
			if o.Hook {
				args = append(args, rprop.Hook{Value: func(g, step []float64, x ad.ConstVector, y ad.ConstScalar) bool {
					return env.Hook(floats(x), false, 0, true, append([]float64{}, g...))
				}})
			}
			if o.Con != "" {
				args = append(args, rprop.ConstConstraints{Value: conC})
			}
			if o.MaxIter > 0 {
				args = append(args, rprop.MaxIterations{Value: o.MaxIter})
			}
			ret, err = rprop.RunGradient(rprop.DenseGradientF(env.ObjGrad), x0, o.Step, []float64{o.Eta[0], o.Eta[1]}, args...)
		case "gd":
			args := []interface{}{gradientDescent.Epsilon{Value: o.Eps}}
			if o.Hook {
				args = append(args, gradientDescent.Hook{Value: func(g []float64, x ad.ConstVector, y ad.ConstScalar) bool {
					hv, v := f64(y)
					return env.Hook(floats(x), hv, v, true, append([]float64{}, g...))
				}})
			}
			var r ad.Vector
			r, err = gradientDescent.Run(env.Obj, x0, o.Step, args...)
			if r != nil {
				ret = r
			}
		case "adam":
			args := []interface{}{adam.Epsilon{Value: o.Eps}, adam.StepSize{Value: o.Step}}
			if o.Hook {
				args = append(args, adam.Hook{Value: func(x, g ad.ConstVector, y ad.ConstScalar) bool {
					hv, v := f64(y)
					return env.Hook(floats(x), hv, v, true, floats(g))
				}})
			}
			if o.Con != "" {
				args = append(args, adam.Constraints{Value: conV})
			}
			if o.MaxIter > 0 {
				args = append(args, adam.MaxIterations{Value: o.MaxIter})
			}
			var r ad.Vector
			r, err = adam.Run(env.Obj, x0, args...)
			if r != nil {
				ret = r
			}
		case "adam.gradient":
			args := []interface{}{adam.Epsilon{Value: o.Eps}}
			if o.Hook {
				args = append(args, adam.Hook{Value: func(x, g ad.ConstVector, y ad.ConstScalar) bool {
					return env.Hook(floats(x), false, 0, true, floats(g))
				}})
			}
			if o.Con != "" {
				args = append(args, adam.ConstConstraints{Value: conC})
			}
			if o.MaxIter > 0 {
				args = append(args, adam.MaxIterations{Value: o.MaxIter})
			}
			ret, err = adam.RunGradient(adam.DenseGradientF(env.ObjGrad), x0, args...)
		case "linesearch":
			args := []interface{}{lineSearch.Parameters{Alpha1: o.Step, MaxEval: o.MaxEval}}
			if o.Hook {
				args = append(args, lineSearch.Hook{Value: func(a, y, g ad.ConstScalar) bool {
					return env.Hook([]float64{a.GetFloat64()}, true, y.GetFloat64(), true, []float64{g.GetFloat64()})
				}})
			}
			if o.Con != "" {
				args = append(args, lineSearch.Constraints{Value: func(a ad.ConstScalar) bool { return env.Con([]float64{a.GetFloat64()}) }})
			}
			phi := func(a ad.ConstScalar) (ad.MagicScalar, error) { return env.Obj(scalarVec(a)) }
			var a ad.Scalar
			a, err = lineSearch.Run(phi, ad.Float64Type, args...)
			if a != nil {
				ret = ad.NewDenseFloat64Vector([]float64{a.GetFloat64()})
			}
		default:
			panic("harness: unknown routine " + cs.Routine)
		}
	})
	verifrt.Reset(0)
	if strings.HasPrefix(res.Panic, "harness:") {
		panic(res.Panic)
	}
	if err != nil {
		res.Err = err.Error()
		if res.Err == "" {
			res.Err = "(empty error)"
		}
	}
	if ret != nil && res.Panic == "" && res.Capped == "" {
		func() {
			defer func() {
				if r := recover(); r != nil { // typed nil inside the interface
					res.HaveRet = false
				}
			}()
			res.Ret = floats(ret)
			res.HaveRet = true
		}()
	}
	if after := snap(x0); after != before {
		res.X0Bad = "start vector handed in by the caller was modified: " + fmtv(cs.Start) + " -> " + fmtv(floats(x0))
	}
	return res
}

/* keys ------------------------------------------------------------------------------------ */

// devPattern: "none", the kind of a single deviation, or the sorted kinds of a pair.
func devPattern(devs []Dev) string {
	if len(devs) == 0 {
		return "none"
	}
	s := make([]string, len(devs))
	for i := range devs {
		s[i] = devs[i].Kind
	}
	sort.Strings(s)
	return strings.Join(s, "+")
}

// optClass: the options that select different code paths of a routine (epsilon, step
// sizes, eta, the initial Hessian, hook presence and the start vector's type are left out
// of the key on purpose: one defect should give a handful of keys).
func optClass(cs *Case) string {
	o := cs.Opt
	var p []string
	if o.Variant != "" {
		p = append(p, o.Variant)
	}
	if o.Reg != "" {
		p = append(p, "reg="+o.Reg)
	}
	if o.HMod != "" {
		p = append(p, "hmod="+o.HMod)
	}
	if o.Con != "" {
		p = append(p, "con")
	} else {
		p = append(p, "nocon")
	}
	if o.MaxIter > 0 && cs.Routine != "blahut" {
		p = append(p, "maxit")
	}
	return strings.Join(p, ",")
}

func famKind(cs *Case) string { return cs.Fam.Kind }

func keyOf(cs *Case, what string) string {
	return cs.Routine + "|" + famKind(cs) + "|" + optClass(cs) + "|" + devPattern(cs.Devs) + "|" + what
}

/* oracle ---------------------------------------------------------------------------------- */

type verdict struct{ key, what string }

// outcome class of a run (for vacuity statistics)
func outcome(cs *Case, r *RunResult) string {
	switch {
	case r.Panic != "":
		p := r.Panic
		if len(p) > 40 {
			p = p[:40]
		}
		return "panic:" + p
	case r.Capped != "":
		return "capped"
	case r.Err != "":
		w := strings.Fields(r.Err)
		if len(w) > 3 {
			w = w[:3]
		}
		return "error:" + strings.Trim(strings.Join(w, " "), ":[]0123456789.- ")
	case r.env != nil && r.env.hookStopped:
		return "hook-stop"
	case cs.Opt.MaxIter > 0 && cs.Routine != "blahut":
		return "returned(maxiter-class)"
	}
	return "returned"
}

// stopExempt: by the property's premise the stopping condition is not demanded.
func stopExempt(cs *Case, r *RunResult) bool {
	return r.Panic != "" || r.Capped != "" || r.Err != "" || r.env.hookStopped || cs.Opt.MaxIter > 0
}

func judge(cs *Case, r *RunResult) []verdict {
	var out []verdict
	addv := func(what, msg string) { out = append(out, verdict{keyOf(cs, what), msg}) }
	if r.X0Bad != "" {
		addv("x0-modified", r.X0Bad)
	}
	for _, v := range r.viol {
		addv(v[0], v[1])
	}
	env := r.env
	if env != nil && env.hookFail != "" {
		addv(env.hookFail, env.hookWhat)
	}
	if cs.Routine == "saga" || cs.Routine == "blahut" {
		return out
	}
	if r.Panic != "" || r.Capped != "" || r.Err != "" {
		return out
	}
	if !r.HaveRet {
		addv("nil-result", "routine returned neither a point nor an error")
		return out
	}
	x := r.Ret
	// constraints: never return an infeasible point without an error
	if cs.Opt.Con != "" && !env.feasible(x) {
		why := "outside the half-space"
		if env.purePred(x) {
			why = "a point the constraint function had rejected"
		}
		addv("constraint-violated", fmt.Sprintf("returned %s with err==nil although the supplied constraint (x[0] %s %g) answers false there: %s", fmtv(x), cs.Opt.Con, env.conT, why))
	}
	if stopExempt(cs, r) {
		return out
	}
	if hasNaN(x) {
		addv("nan-point", "returned "+fmtv(x)+" with err==nil")
		return out
	}
	fam := env.fam
	eps := cs.Opt.Eps
	switch cs.Routine {
	case "linesearch":
		// success (no error, no hook stop) with fewer evaluations than the cap: strong Wolfe
		if env.nObj >= 1+cs.Opt.MaxEval {
			return out // evaluation cap of the line search may have ended it
		}
		a := x[0]
		y0, g0, s0 := fam.Pure([]float64{0})
		ya, ga, sa := fam.Pure([]float64{a})
		const c1, c2 = 1e-4, 0.9
		tol := 1e-12 * (1 + s0 + sa + math.Abs(y0) + math.Abs(ya))
		if fam.VSc != nil { // rounding scale of the value itself (large steps along a polynomial ray)
			tol += 1e-12 * (fam.VSc([]float64{0}) + fam.VSc([]float64{a}))
		}
		if !(ya <= y0+c1*a*g0[0]+tol) {
			addv("wolfe-sufficient-decrease", fmt.Sprintf("line search reported success with alpha=%g but phi(alpha)=%g > phi(0)+c1*alpha*phi'(0)=%g", a, ya, y0+c1*a*g0[0]))
		}
		if !(math.Abs(ga[0]) <= c2*math.Abs(g0[0])+tol) {
			addv("wolfe-curvature", fmt.Sprintf("line search reported success with alpha=%g but |phi'(alpha)|=%g > c2*|phi'(0)|=%g", a, math.Abs(ga[0]), c2*math.Abs(g0[0])))
		}
	case "newton.root":
		F, _, sc := fam.PureVec(x)
		lim := eps*(1+1e-6) + 1e-13*(1+sc)
		if !(norm2(F) <= lim) {
			addv("stop-criterion", fmt.Sprintf("returned %s with err==nil but |F(x)|=%g is not below epsilon=%g", fmtv(x), norm2(F), eps))
		} else if fam.Min != nil {
			checkDist(cs, fam, x, lim, addv)
		}
	default:
		_, g, sc := fam.Pure(x)
		lim := eps*(1+1e-6) + 1e-13*(1+sc)
		if !(norm2(g) <= lim) {
			addv("stop-criterion", fmt.Sprintf("returned %s with err==nil (no hook stop, no iteration cap) but |grad f(x)|=%g is not below epsilon=%g", fmtv(x), norm2(g), eps))
		} else if fam.Min != nil {
			checkDist(cs, fam, x, lim, addv)
		}
	}
	return out
}

func checkDist(cs *Case, fam *Family, x []float64, lim float64, addv func(string, string)) {
	d := make([]float64, len(x))
	for i := range x {
		d[i] = x[i] - fam.Min[i]
	}
	bound := lim/fam.LamMin*(1+1e-6) + 1e-12*(1+norm2(fam.Min))
	if !(norm2(d) <= bound) {
		addv("minimiser-distance", fmt.Sprintf("returned %s, exact minimiser %s, distance %g > bound %g", fmtv(x), fmtv(fam.Min), norm2(d), bound))
	}
}
