// Objective families of C07: every family has (a) a user-style closure that computes the
// value with the library's AD scalars (what a caller of the optimizers writes) and (b) an
// independent closed-form float64 evaluation (value, gradient, rounding scale) used by the
// oracle ("pure objective").
package main

import (
	"fmt"
	"math"
	"strings"

	ad "github.com/pbenner/autodiff"
)

// FamSpec is the JSON-serialisable description of one objective.
type FamSpec struct {
	Kind string    `json:"kind"`
	P    []float64 `json:"params"`
}

type Family struct {
	Spec FamSpec
	N    int
	// scalar objectives
	AD   func(x ad.ConstVector) *ad.Real64
	Pure func(x []float64) (v float64, g []float64, scale float64)
	// vector-valued systems (newton.RunRoot)
	ADVec   func(x ad.ConstVector) ad.DenseReal64Vector
	PureVec func(x []float64) (f []float64, jac [][]float64, scale float64)
	// known unique minimiser of a strongly convex objective and its modulus
	Min    []float64
	LamMin float64
	Quad   bool // strictly convex quadratic
	// sum of |terms| of the VALUE (rounding scale of the value; the scale returned by Pure is
	// that of the gradient). Only the non-convex ray families define it.
	VSc func(x []float64) float64
	Cx  int // complexity rank (for "smallest witness first")
}

/* tiny AD expression helpers: fresh temporaries, only Add/Sub/Mul/Div/Exp/Log -------------- */

func k(v float64) ad.ConstFloat64 { return ad.ConstFloat64(v) }
func mul(a, b ad.ConstScalar) *ad.Real64 {
	t := ad.NullReal64()
	t.Mul(a, b)
	return t
}
func add(a, b ad.ConstScalar) *ad.Real64 {
	t := ad.NullReal64()
	t.Add(a, b)
	return t
}
func sub(a, b ad.ConstScalar) *ad.Real64 {
	t := ad.NullReal64()
	t.Sub(a, b)
	return t
}
func expR(a ad.ConstScalar) *ad.Real64 {
	t := ad.NullReal64()
	t.Exp(a)
	return t
}
func logR(a ad.ConstScalar) *ad.Real64 {
	t := ad.NullReal64()
	t.Log(a)
	return t
}
func negR(a ad.ConstScalar) *ad.Real64 {
	t := ad.NullReal64()
	t.Neg(a)
	return t
}

/* symmetric matrices -------------------------------------------------------------------- */

func symFromUpper(n int, u []float64) [][]float64 {
	A := make([][]float64, n)
	for i := range A {
		A[i] = make([]float64, n)
	}
	p := 0
	for i := 0; i < n; i++ {
		for j := i; j < n; j++ {
			A[i][j], A[j][i] = u[p], u[p]
			p++
		}
	}
	return A
}

func det(A [][]float64) float64 {
	switch len(A) {
	case 1:
		return A[0][0]
	case 2:
		return A[0][0]*A[1][1] - A[0][1]*A[1][0]
	case 3:
		return A[0][0]*(A[1][1]*A[2][2]-A[1][2]*A[2][1]) - A[0][1]*(A[1][0]*A[2][2]-A[1][2]*A[2][0]) + A[0][2]*(A[1][0]*A[2][1]-A[1][1]*A[2][0])
	}
	panic("det")
}

func isSPD(A [][]float64) bool {
	n := len(A)
	for m := 1; m <= n; m++ {
		B := make([][]float64, m)
		for i := range B {
			B[i] = A[i][:m]
		}
		if det(B) <= 0 {
			return false
		}
	}
	return true
}

// solveSmall solves A x = b by Cramer's rule (small integer data: numerators and the
// determinant are exact, one rounding in the final division).
func solveSmall(A [][]float64, b []float64) []float64 {
	n := len(A)
	d := det(A)
	x := make([]float64, n)
	for c := 0; c < n; c++ {
		B := make([][]float64, n)
		for i := range B {
			B[i] = append([]float64{}, A[i]...)
			B[i][c] = b[i]
		}
		x[c] = det(B) / d
	}
	return x
}

// lamMinSym: smallest eigenvalue of a small symmetric matrix by cyclic Jacobi rotations.
func lamMinSym(A0 [][]float64) float64 {
	n := len(A0)
	A := make([][]float64, n)
	for i := range A {
		A[i] = append([]float64{}, A0[i]...)
	}
	for sweep := 0; sweep < 60; sweep++ {
		off := 0.0
		for i := 0; i < n; i++ {
			for j := i + 1; j < n; j++ {
				off += A[i][j] * A[i][j]
			}
		}
		if off < 1e-30 {
			break
		}
		for p := 0; p < n; p++ {
			for q := p + 1; q < n; q++ {
				if A[p][q] == 0 {
					continue
				}
				th := (A[q][q] - A[p][p]) / (2 * A[p][q])
				t := 1 / (math.Abs(th) + math.Sqrt(th*th+1))
				if th < 0 {
					t = -t
				}
				c := 1 / math.Sqrt(t*t+1)
				s := t * c
				for r := 0; r < n; r++ {
					arp, arq := A[r][p], A[r][q]
					A[r][p], A[r][q] = c*arp-s*arq, s*arp+c*arq
				}
				for r := 0; r < n; r++ {
					apr, aqr := A[p][r], A[q][r]
					A[p][r], A[q][r] = c*apr-s*aqr, s*apr+c*aqr
				}
			}
		}
	}
	m := A[0][0]
	for i := 1; i < n; i++ {
		m = math.Min(m, A[i][i])
	}
	return m
}

/* families -------------------------------------------------------------------------------- */

func MakeFamily(s FamSpec) *Family {
	f := &Family{Spec: s}
	P := s.P
	if strings.HasPrefix(s.Kind, "phi:") {
		// line-search objective phi(alpha) = base(x0 + alpha d), base one-dimensional; P = x0, d, base params
		base := MakeFamily(FamSpec{s.Kind[4:], P[2:]})
		x0, d := P[0], P[1]
		f.N = 1
		f.Cx = base.Cx
		f.AD = func(a ad.ConstVector) *ad.Real64 {
			return base.AD(ad.DenseReal64Vector{add(k(x0), mul(k(d), a.ConstAt(0)))})
		}
		f.Pure = func(a []float64) (float64, []float64, float64) {
			v, g, sc := base.Pure([]float64{x0 + a[0]*d})
			return v, []float64{g[0] * d}, sc * math.Max(1, math.Abs(d))
		}
		return f
	}
	if rf := makeRayFamily(s); rf != nil { // non-convex rays of the line-search family (rays.go)
		return rf
	}
	switch s.Kind {
	case "quad": // P = n, upper(A) row-major, b
		n := int(P[0])
		m := n * (n + 1) / 2
		A := symFromUpper(n, P[1:1+m])
		b := P[1+m : 1+m+n]
		f.N = n
		f.Cx = n
		f.AD = func(x ad.ConstVector) *ad.Real64 {
			r := ad.NullReal64()
			for i := 0; i < n; i++ {
				for j := 0; j < n; j++ {
					if A[i][j] != 0 {
						r = add(r, mul(k(0.5*A[i][j]), mul(x.ConstAt(i), x.ConstAt(j))))
					}
				}
				if b[i] != 0 {
					r = sub(r, mul(k(b[i]), x.ConstAt(i)))
				}
			}
			if r.GetN() == 0 { // A x-independent constant cannot happen (A is SPD), keep shape anyway
				r = add(r, mul(k(0), x.ConstAt(0)))
			}
			return r
		}
		f.Pure = func(x []float64) (float64, []float64, float64) {
			v, sc := 0.0, 0.0
			g := make([]float64, n)
			for i := 0; i < n; i++ {
				for j := 0; j < n; j++ {
					v += 0.5 * A[i][j] * x[i] * x[j]
					g[i] += A[i][j] * x[j]
					sc += math.Abs(A[i][j] * x[j])
				}
				v -= b[i] * x[i]
				g[i] -= b[i]
				sc += math.Abs(b[i])
			}
			return v, g, sc
		}
		f.Min = solveSmall(A, b)
		f.LamMin = lamMinSym(A) * (1 - 1e-9)
		f.Quad = true
	case "rosen": // P = a, b : (a-x)^2 + b (y-x^2)^2
		a, b := P[0], P[1]
		f.N = 2
		f.Cx = 4
		f.AD = func(x ad.ConstVector) *ad.Real64 {
			t1 := sub(k(a), x.ConstAt(0))
			t2 := sub(x.ConstAt(1), mul(x.ConstAt(0), x.ConstAt(0)))
			return add(mul(t1, t1), mul(k(b), mul(t2, t2)))
		}
		f.Pure = func(x []float64) (float64, []float64, float64) {
			u, w := a-x[0], x[1]-x[0]*x[0]
			g := []float64{-2*u - 4*b*x[0]*w, 2 * b * w}
			sc := math.Abs(2*a) + math.Abs(2*x[0]) + math.Abs(4*b*x[0]*x[1]) + math.Abs(4*b*x[0]*x[0]*x[0]) + math.Abs(2*b*x[1]) + math.Abs(2*b*x[0]*x[0])
			return u*u + b*w*w, g, sc
		}
	case "cosh": // P = c_1..c_n : sum cosh(x_i - c_i)
		n := len(P)
		f.N = n
		f.Cx = 2 + n
		f.AD = func(x ad.ConstVector) *ad.Real64 {
			r := ad.NullReal64()
			for i := 0; i < n; i++ {
				t := sub(x.ConstAt(i), k(P[i]))
				r = add(r, mul(k(0.5), add(expR(t), expR(negR(t)))))
			}
			return r
		}
		f.Pure = func(x []float64) (float64, []float64, float64) {
			v, sc := 0.0, 0.0
			g := make([]float64, n)
			for i := 0; i < n; i++ {
				t := x[i] - P[i]
				v += math.Cosh(t)
				g[i] = math.Sinh(t)
				sc += math.Cosh(t)
			}
			return v, g, sc
		}
		f.Min = append([]float64{}, P...)
		f.LamMin = 1 // |sinh t| >= |t|
	case "quartic": // P = r1,r2,r3 : f' = (x-r1)(x-r2)(x-r3)
		s1 := P[0] + P[1] + P[2]
		s2 := P[0]*P[1] + P[0]*P[2] + P[1]*P[2]
		s3 := P[0] * P[1] * P[2]
		f.N = 1
		f.Cx = 3
		f.AD = func(x ad.ConstVector) *ad.Real64 {
			z := x.ConstAt(0)
			z2 := mul(z, z)
			z3 := mul(z2, z)
			z4 := mul(z2, z2)
			r := mul(k(0.25), z4)
			r = sub(r, mul(k(s1/3), z3))
			r = add(r, mul(k(s2/2), z2))
			r = sub(r, mul(k(s3), z))
			return r
		}
		f.Pure = func(x []float64) (float64, []float64, float64) {
			z := x[0]
			v := 0.25*z*z*z*z - s1/3*z*z*z + s2/2*z*z - s3*z
			g := z*z*z - s1*z*z + s2*z - s3
			sc := math.Abs(z*z*z) + math.Abs(s1*z*z) + math.Abs(s2*z) + math.Abs(s3)
			return v, []float64{g}, sc
		}
	case "logit": // P = lambda, then (x_i, y_i) pairs : sum log(1+exp(-y(w x + b))) + lambda/2 (w^2+b^2)
		lam := P[0]
		pts := P[1:]
		m := len(pts) / 2
		f.N = 2
		f.Cx = 5 + m
		f.AD = func(x ad.ConstVector) *ad.Real64 {
			w, b := x.ConstAt(0), x.ConstAt(1)
			r := mul(k(0.5*lam), add(mul(w, w), mul(b, b)))
			for i := 0; i < m; i++ {
				z := mul(k(-pts[2*i+1]), add(mul(k(pts[2*i]), w), b))
				r = add(r, logR(add(k(1), expR(z))))
			}
			return r
		}
		f.Pure = func(x []float64) (float64, []float64, float64) {
			w, b := x[0], x[1]
			v := 0.5 * lam * (w*w + b*b)
			g := []float64{lam * w, lam * b}
			sc := lam * (math.Abs(w) + math.Abs(b))
			for i := 0; i < m; i++ {
				xi, yi := pts[2*i], pts[2*i+1]
				z := -yi * (xi*w + b)
				e := math.Exp(z)
				v += math.Log(1 + e)
				sg := e / (1 + e)
				g[0] += -yi * xi * sg
				g[1] += -yi * sg
				sc += 1 + math.Abs(xi)
			}
			return v, g, sc
		}
		f.LamMin = lam
	case "lagr": // P = c : critical point of x^2 + l (x^2 - c)  (saddle; RunCrit only)
		c := P[0]
		f.N = 2
		f.Cx = 6
		f.AD = func(x ad.ConstVector) *ad.Real64 {
			xx := mul(x.ConstAt(0), x.ConstAt(0))
			return add(xx, mul(x.ConstAt(1), sub(xx, k(c))))
		}
		f.Pure = func(x []float64) (float64, []float64, float64) {
			xx := x[0] * x[0]
			g := []float64{2*x[0] + 2*x[1]*x[0], xx - c}
			return xx + x[1]*(xx-c), g, math.Abs(2*x[0]) + math.Abs(2*x[1]*x[0]) + xx + math.Abs(c)
		}
	/* systems F: R^n -> R^n ------------------------------------------------------------- */
	case "lin": // P as "quad": F(x) = A x - b
		n := int(P[0])
		m := n * (n + 1) / 2
		A := symFromUpper(n, P[1:1+m])
		b := P[1+m : 1+m+n]
		f.N = n
		f.Cx = n
		f.ADVec = func(x ad.ConstVector) ad.DenseReal64Vector {
			y := ad.NullDenseReal64Vector(n)
			for i := 0; i < n; i++ {
				r := sub(mul(k(0), x.ConstAt(0)), k(b[i]))
				for j := 0; j < n; j++ {
					if A[i][j] != 0 {
						r = add(r, mul(k(A[i][j]), x.ConstAt(j)))
					}
				}
				y[i] = r
			}
			return y
		}
		f.PureVec = func(x []float64) ([]float64, [][]float64, float64) {
			F := make([]float64, n)
			sc := 0.0
			for i := 0; i < n; i++ {
				for j := 0; j < n; j++ {
					F[i] += A[i][j] * x[j]
					sc += math.Abs(A[i][j] * x[j])
				}
				F[i] -= b[i]
				sc += math.Abs(b[i])
			}
			return F, A, sc
		}
		f.Min = solveSmall(A, b)
		f.LamMin = lamMinSym(A) * (1 - 1e-9)
		f.Quad = true
	case "sq1": // x^2 - c
		c := P[0]
		f.N = 1
		f.Cx = 2
		f.ADVec = func(x ad.ConstVector) ad.DenseReal64Vector {
			return ad.DenseReal64Vector{sub(mul(x.ConstAt(0), x.ConstAt(0)), k(c))}
		}
		f.PureVec = func(x []float64) ([]float64, [][]float64, float64) {
			return []float64{x[0]*x[0] - c}, [][]float64{{2 * x[0]}}, x[0]*x[0] + math.Abs(c)
		}
	case "cub1": // x^3 - c x
		c := P[0]
		f.N = 1
		f.Cx = 3
		f.ADVec = func(x ad.ConstVector) ad.DenseReal64Vector {
			z := x.ConstAt(0)
			return ad.DenseReal64Vector{sub(mul(z, mul(z, z)), mul(k(c), z))}
		}
		f.PureVec = func(x []float64) ([]float64, [][]float64, float64) {
			z := x[0]
			return []float64{z*z*z - c*z}, [][]float64{{3*z*z - c}}, math.Abs(z*z*z) + math.Abs(c*z)
		}
	case "circ": // (x^2 + y^2 - r, x - y)
		r := P[0]
		f.N = 2
		f.Cx = 4
		f.ADVec = func(x ad.ConstVector) ad.DenseReal64Vector {
			a, b := x.ConstAt(0), x.ConstAt(1)
			return ad.DenseReal64Vector{sub(add(mul(a, a), mul(b, b)), k(r)), sub(a, b)}
		}
		f.PureVec = func(x []float64) ([]float64, [][]float64, float64) {
			return []float64{x[0]*x[0] + x[1]*x[1] - r, x[0] - x[1]}, [][]float64{{2 * x[0], 2 * x[1]}, {1, -1}},
				x[0]*x[0] + x[1]*x[1] + math.Abs(r) + math.Abs(x[0]) + math.Abs(x[1])
		}
	case "hyp": // (x y - c, x - y)
		c := P[0]
		f.N = 2
		f.Cx = 5
		f.ADVec = func(x ad.ConstVector) ad.DenseReal64Vector {
			a, b := x.ConstAt(0), x.ConstAt(1)
			return ad.DenseReal64Vector{sub(mul(a, b), k(c)), sub(a, b)}
		}
		f.PureVec = func(x []float64) ([]float64, [][]float64, float64) {
			return []float64{x[0]*x[1] - c, x[0] - x[1]}, [][]float64{{x[1], x[0]}, {1, -1}},
				math.Abs(x[0]*x[1]) + math.Abs(c) + math.Abs(x[0]) + math.Abs(x[1])
		}
	default:
		panic("unknown family " + s.Kind)
	}
	return f
}

/* lattices -------------------------------------------------------------------------------- */

// spdLattice enumerates the exact integer SPD matrices of dimension n (upper triangles).
func spdLattice(n int, diag, off []float64) [][]float64 {
	m := n * (n + 1) / 2
	var out [][]float64
	u := make([]float64, m)
	isDiag := make([]bool, m)
	p := 0
	for i := 0; i < n; i++ {
		for j := i; j < n; j++ {
			isDiag[p] = i == j
			p++
		}
	}
	var rec func(p int)
	rec = func(p int) {
		if p == m {
			if isSPD(symFromUpper(n, u)) {
				out = append(out, append([]float64{}, u...))
			}
			return
		}
		vals := off
		if isDiag[p] {
			vals = diag
		}
		for _, v := range vals {
			u[p] = v
			rec(p + 1)
		}
	}
	rec(0)
	return out
}

func cube(vals []float64, n int) [][]float64 {
	out := [][]float64{{}}
	for d := 0; d < n; d++ {
		var nx [][]float64
		for _, p := range out {
			for _, v := range vals {
				nx = append(nx, append(append([]float64{}, p...), v))
			}
		}
		out = nx
	}
	return out
}

func quadSpecs(kind string, n int, diag, off, bvals []float64) []FamSpec {
	var out []FamSpec
	for _, u := range spdLattice(n, diag, off) {
		for _, b := range cube(bvals, n) {
			P := append([]float64{float64(n)}, u...)
			P = append(P, b...)
			out = append(out, FamSpec{kind, P})
		}
	}
	return out
}

// labelled data sets (multisets) of size 1..maxm from {-1,0,1} x {-1,+1}
func logitSpecs(maxm int, lams []float64) []FamSpec {
	type pt struct{ x, y float64 }
	var pts []pt
	for _, x := range []float64{-1, 0, 1} {
		for _, y := range []float64{-1, 1} {
			pts = append(pts, pt{x, y})
		}
	}
	var out []FamSpec
	var rec func(start int, cur []float64)
	rec = func(start int, cur []float64) {
		if len(cur) > 0 {
			for _, l := range lams {
				out = append(out, FamSpec{"logit", append([]float64{l}, cur...)})
			}
		}
		if len(cur)/2 == maxm {
			return
		}
		for i := start; i < len(pts); i++ {
			rec(i, append(append([]float64{}, cur...), pts[i].x, pts[i].y))
		}
	}
	rec(0, nil)
	return out
}

func quarticSpecs(roots []float64) []FamSpec {
	var out []FamSpec
	for i := 0; i < len(roots); i++ {
		for j := i + 1; j < len(roots); j++ {
			for l := j + 1; l < len(roots); l++ {
				out = append(out, FamSpec{"quartic", []float64{roots[i], roots[j], roots[l]}})
			}
		}
	}
	return out
}

func (s FamSpec) String() string { return fmt.Sprintf("%s%v", s.Kind, s.P) }

func norm2(v []float64) float64 {
	s := 0.0
	for _, x := range v {
		s += x * x
	}
	return math.Sqrt(s)
}

func hasNaN(v []float64) bool {
	for _, x := range v {
		if math.IsNaN(x) {
			return true
		}
	}
	return false
}
