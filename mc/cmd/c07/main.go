// C07: optimizers and root finders return points that meet their stopping condition.
// Deviation-bounded ENVIRONMENT explorer: the environment is the caller's objective /
// gradient / constraint / hook. Default answers are exact evaluations of objectives from
// small parametrised lattices with known optima; deviations (objective error, NaN value,
// NaN gradient, constraint "infeasible", hook "stop") are injected at every evaluation
// index k: first no deviation, then exactly one at every k <= K1, then two at every pair
// k1 < k2 <= K2 (quick 4, thorough 8) on a sub-lattice.
package main

import (
	"encoding/json"
	"fmt"
	"math"
	"os"
	"strings"
	"time"

	ad "github.com/pbenner/autodiff"
	"verif/mc/vf"
)

type block struct {
	routine string
	fams    []FamSpec
	starts  func(f *Family) [][]float64
	opts    []Opt
	k1      int // one deviation at every index 0..k1 (-1: none)
	k2      int // two deviations at every pair k1<k2<=k2 (-1: none)
	budget  int
	kinds   []string
	devAll  bool // quick tier: deviations from every start, not only the sub-lattice
}

var lattice = []float64{-2, -1, 0, 0.5, 1, 2}

func startsFull(f *Family) [][]float64 { return cube(lattice, f.N) }
func startsSub(vals ...float64) func(f *Family) [][]float64 {
	return func(f *Family) [][]float64 { return cube(vals, f.N) }
}

func cat(l ...[]FamSpec) []FamSpec {
	var out []FamSpec
	for _, x := range l {
		out = append(out, x...)
	}
	return out
}

func specs(kind string, ps ...[]float64) []FamSpec {
	var out []FamSpec
	for _, p := range ps {
		out = append(out, FamSpec{kind, p})
	}
	return out
}

func withOpt(base []Opt, f func(o *Opt)) []Opt {
	out := make([]Opt, len(base))
	for i, o := range base {
		f(&o)
		out[i] = o
	}
	return out
}

func phiSpecs(bases []FamSpec, x0s, dirs []float64) []FamSpec {
	var out []FamSpec
	for _, b := range bases {
		fb := MakeFamily(b)
		for _, x0 := range x0s {
			_, g, _ := fb.Pure([]float64{x0})
			sg := -1.0 // descent direction
			if g[0] < 0 {
				sg = 1
			}
			for _, d := range dirs {
				out = append(out, FamSpec{"phi:" + b.Kind, append([]float64{x0, sg * d}, b.P...)})
			}
		}
	}
	return out
}

func sagaSpecs(thorough bool) []FamSpec {
	var out []FamSpec
	row := func(kind string, dim int, rows ...[]float64) {
		P := []float64{float64(dim), float64(len(rows))}
		for _, r := range rows {
			P = append(P, r...)
		}
		out = append(out, FamSpec{kind, P})
	}
	ts := []float64{-1, 0, 1}
	// one dimension: data d in {1,2}, targets in {-1,0,1}
	for _, d1 := range []float64{1, 2} {
		for _, t1 := range ts {
			row("lsq", 1, []float64{d1, t1})
			for _, t2 := range ts {
				row("lsq", 1, []float64{d1, t1}, []float64{1, t2})
			}
		}
	}
	// two dimensions
	ds := [][]float64{{1, 0}, {0, 1}, {1, 1}, {1, -1}}
	for a := 0; a < len(ds); a++ {
		for b := a + 1; b < len(ds); b++ {
			for _, t1 := range ts {
				for _, t2 := range ts {
					if !thorough && t1 != 1 && t2 != -1 {
						continue
					}
					row("lsq", 2, append(append([]float64{}, ds[a]...), t1), append(append([]float64{}, ds[b]...), t2))
					if thorough || (a == 0 && b == 2) {
						row("lsq", 2, append(append([]float64{}, ds[a]...), t1), append(append([]float64{}, ds[b]...), t2), []float64{1, 1, 0})
					}
				}
			}
		}
	}
	row("lsq", 2, []float64{1, 1, 1})                                             // rank deficient: minimiser not unique
	row("lsq", 2, []float64{1, 0, 1}, []float64{0, 0, -1})                        // a zero data vector
	row("slogit", 1, []float64{1, 1}, []float64{1, -1})                           // logistic, not separable
	row("slogit", 2, []float64{1, 0, 1}, []float64{0, 1, -1}, []float64{1, 1, 1}) // separable: needs the regulariser
	row("slogit", 2, []float64{1, 1, 1}, []float64{1, 1, -1}, []float64{1, -1, 1})
	return out
}

func chanSpecs(thorough bool) []FamSpec {
	var out []FamSpec
	r2 := [][]float64{{1, 0}, {0.5, 0.5}, {0.25, 0.75}, {0, 1}}
	r3 := [][]float64{{1, 0, 0}, {0.5, 0.5, 0}, {0.25, 0.25, 0.5}, {0, 0, 1}, {0.5, 0.25, 0.25}, {0, 1, 0}}
	mk := func(rows ...[]float64) {
		P := []float64{float64(len(rows)), float64(len(rows[0]))}
		for _, r := range rows {
			P = append(P, r...)
		}
		out = append(out, FamSpec{"chan", P})
	}
	for _, a := range r2 {
		for _, b := range r2 {
			mk(a, b)
		}
	}
	for _, a := range r3 {
		for _, b := range r3 {
			mk(a, b)
		}
	}
	for _, a := range r2 {
		for _, b := range r2 {
			for _, c := range r2 {
				if thorough || (a[0] >= b[0] && b[0] >= c[0]) {
					mk(a, b, c)
				}
			}
		}
	}
	return out
}

func blocks(thorough bool) []block {
	var B []block
	K1, K2 := 12, 4 // quick: pairs k1<k2<=4 on the small pair blocks
	if thorough {
		K2 = 8
	}
	eps := []float64{1e-4, 1e-8}
	// ---- objective lattices
	q1 := quadSpecs("quad", 1, []float64{1, 2, 4}, nil, []float64{-1, 0, 1})
	var q2, q3 []FamSpec
	if thorough {
		q2 = quadSpecs("quad", 2, []float64{1, 2, 4}, []float64{-1, 0, 1}, []float64{-1, 0, 1})
		q3 = quadSpecs("quad", 3, []float64{2, 4}, []float64{0, 1}, []float64{-1, 1})
	} else {
		q2 = quadSpecs("quad", 2, []float64{1, 4}, []float64{0, 1}, []float64{-1, 0, 1})
	}
	q2small := quadSpecs("quad", 2, []float64{1, 4}, []float64{1}, []float64{-1, 1})
	rosenL := specs("rosen", []float64{1, 1}, []float64{1, 10}, []float64{1, 100}, []float64{2, 1}, []float64{2, 10}, []float64{2, 100})
	cosh1 := specs("cosh", []float64{-1}, []float64{0}, []float64{1})
	var cosh2 []FamSpec
	for _, c := range cube([]float64{-1, 0, 1}, 2) {
		cosh2 = append(cosh2, FamSpec{"cosh", c})
	}
	quart := quarticSpecs([]float64{-2, -1, 0, 1, 2})
	maxm := 2
	if thorough {
		maxm = 3
	}
	logit := logitSpecs(maxm, []float64{1, 0.125})
	smooth := cat(q1, q2, cosh1, cosh2, quart, rosenL, logit)
	n1 := cat(q1, cosh1, quart)
	lagr := specs("lagr", []float64{1}, []float64{4})

	// ---- BFGS
	{
		var full, extra []Opt
		for _, e := range eps {
			for h := 0; h <= 2; h++ {
				full = append(full, Opt{Eps: e, Hess: h, Hook: true})
				if thorough && (h == 0 || (h == 2 && e == 1e-8)) {
					full = append(full, Opt{Eps: e, Hess: h, Hook: true, Con: "le"})
					if h == 0 {
						full = append(full, Opt{Eps: e, Hess: h, Hook: true, Con: "ge"})
					}
				}
			}
		}
		if !thorough {
			full = append(full, Opt{Eps: 1e-8, Hook: true, Con: "le"}, Opt{Eps: 1e-8, Hook: true, Con: "ge"})
		}
		extra = []Opt{{Eps: 1e-8}, {Eps: 1e-8, Hook: true, Con: "le", MaxIter: 2}, {Eps: 1e-8, Hook: true, X0Real: true}}
		B = append(B, block{routine: "bfgs", fams: smooth, starts: startsFull, opts: full, k1: K1, k2: -1})
		B = append(B, block{routine: "bfgs", fams: cat(q1, q2small, cosh1, rosenL[:2]), starts: startsSub(-2, 0.5, 1), opts: extra, k1: K1, k2: -1})
		B = append(B, block{routine: "bfgs", fams: cat(q1[:3], q2small[:2], quart[:2], rosenL[1:2]), starts: startsSub(-2, 0.5), opts: []Opt{{Eps: 1e-8, Hook: true, Con: "le"}}, k1: -1, k2: K2})
		if thorough {
			B = append(B, block{routine: "bfgs", fams: q3, starts: startsSub(-2, 0.5), opts: []Opt{{Eps: 1e-8, Hook: true}, {Eps: 1e-4, Hess: 2, Hook: true, Con: "le"}}, k1: K1, k2: -1})
		}
	}
	// ---- Newton
	{
		lin1 := quadSpecs("lin", 1, []float64{1, 2, 4}, nil, []float64{-1, 0, 1})
		lin2 := quadSpecs("lin", 2, []float64{1, 4}, []float64{0, 1}, []float64{-1, 0, 1})
		if thorough {
			lin2 = quadSpecs("lin", 2, []float64{1, 2, 4}, []float64{-1, 0, 1}, []float64{-1, 0, 1})
		}
		sys := cat(specs("sq1", []float64{1}, []float64{4}), specs("cub1", []float64{1}, []float64{4}), specs("circ", []float64{2}, []float64{8}), specs("hyp", []float64{1}, []float64{4}))
		var o1, oLin []Opt
		for _, e := range eps {
			for _, cn := range []string{"", "le", "ge"} {
				if !thorough && e == 1e-4 && cn != "" {
					continue
				}
				o1 = append(o1, Opt{Eps: e, Hook: true, Con: cn})
				if !thorough && (e == 1e-4 || cn == "ge") {
					continue
				}
				oLin = append(oLin, Opt{Eps: e, Hook: true, Con: cn, HMod: "LDL"})
			}
		}
		oEig := []Opt{{Eps: 1e-8, Hook: true, HMod: "Eigenvalue"}}
		o1 = append(o1, Opt{Eps: 1e-8}, Opt{Eps: 1e-8, Hook: true, Con: "le", MaxIter: 2}, Opt{Eps: 1e-8, Hook: true, X0Real: true})
		B = append(B, block{routine: "newton.root", fams: cat(lin1, lin2, sys), starts: startsFull, opts: o1, k1: K1, k2: -1})
		B = append(B, block{routine: "newton.root", fams: cat(lin1, lin2), starts: startsFull, opts: oLin, k1: K1, k2: -1})
		B = append(B, block{routine: "newton.root", fams: cat(lin1[:3], sys), starts: startsSub(-2, 0.5), opts: []Opt{{Eps: 1e-8, Hook: true, Con: "le"}}, k1: -1, k2: K2})
		// critical points: every smooth family with the plain Newton direction; modified directions on convex ones
		B = append(B, block{routine: "newton.crit", fams: cat(smooth, lagr), starts: startsFull, opts: o1, k1: K1, k2: -1})
		B = append(B, block{routine: "newton.crit", fams: cat(q1, q2, cosh1, cosh2, logit), starts: startsFull, opts: oLin, k1: K1, k2: -1})
		B = append(B, block{routine: "newton.crit", fams: cat(q1[:3], quart[:2], rosenL[1:2]), starts: startsSub(-2, 0.5), opts: []Opt{{Eps: 1e-8, Hook: true, Con: "le"}}, k1: -1, k2: K2})
		var oMin []Opt
		for _, e := range eps {
			for _, cn := range []string{"", "le", "ge"} {
				for _, hm := range []string{"", "LDL"} {
					if !thorough && e == 1e-4 && (cn != "" || hm != "") {
						continue
					}
					oMin = append(oMin, Opt{Eps: e, Hook: true, Con: cn, HMod: hm})
				}
			}
		}
		for _, r := range []string{"newton.root", "newton.crit", "newton.min"} {
			fs := q1[:3]
			if r == "newton.root" {
				fs = lin1[:3]
			}
			B = append(B, block{routine: r, fams: fs, starts: startsSub(-2, 0.5), opts: oEig, k1: 2, k2: -1})
		}
		oMin = append(oMin, Opt{Eps: 1e-8}, Opt{Eps: 1e-8, Hook: true, Con: "le", MaxIter: 2}, Opt{Eps: 1e-8, Hook: true, X0Real: true})
		B = append(B, block{routine: "newton.min", fams: smooth, starts: startsFull, opts: oMin, k1: K1, k2: -1})
		B = append(B, block{routine: "newton.min", fams: cat(q1[:3], quart[:2], rosenL[1:2], cosh1[:1]), starts: startsSub(-2, 0.5), opts: []Opt{{Eps: 1e-8, Hook: true, Con: "le"}, {Eps: 1e-8, Hook: true, Con: "le", HMod: "LDL"}}, k1: -1, k2: K2})
		if thorough {
			B = append(B, block{routine: "newton.min", fams: q3, starts: startsSub(-2, 0.5), opts: []Opt{{Eps: 1e-8, Hook: true}, {Eps: 1e-4, Hook: true, Con: "le", HMod: "LDL"}}, k1: K1, k2: -1})
			B = append(B, block{routine: "newton.crit", fams: q3, starts: startsSub(-2, 0.5), opts: []Opt{{Eps: 1e-8, Hook: true}}, k1: K1, k2: -1})
		}
	}
	// ---- Rprop (both entry points)
	{
		etas := [][2]float64{{1.2, 0.5}, {2, 0.1}}
		var o []Opt
		for _, e := range eps {
			for _, st := range []float64{0.1, 0.01} {
				for _, et := range etas {
					o = append(o, Opt{Eps: e, Step: st, Eta: et, Hook: true})
				}
			}
		}
		oc := []Opt{{Eps: 1e-8, Step: 0.1, Eta: etas[0], Hook: true, Con: "le"}, {Eps: 1e-8, Step: 0.1, Eta: etas[1], Hook: true, Con: "ge"},
			{Eps: 1e-8, Step: 0.1, Eta: etas[0]}, {Eps: 1e-8, Step: 0.1, Eta: etas[0], Hook: true, Con: "le", MaxIter: 2}}
		for _, r := range []string{"rprop", "rprop.gradient"} {
			fs := cat(q1, q2, cosh1, quart, rosenL[:2])
			if thorough {
				fs = cat(fs, cosh2, logit)
			}
			B = append(B, block{routine: r, fams: fs, starts: startsFull, opts: o, k1: K1, k2: -1})
			B = append(B, block{routine: r, fams: cat(q1, q2small, cosh1, quart[:3]), starts: startsFull, opts: oc, k1: K1, k2: -1})
			B = append(B, block{routine: r, fams: cat(q1[:3], q2small[:1]), starts: startsSub(-2, 0.5), opts: oc[:1], k1: -1, k2: K2})
		}
		B = append(B, block{routine: "rprop", fams: cat(q1[:3], q2small[:2]), starts: startsSub(-2, 0.5), opts: []Opt{{Eps: 1e-8, Step: 0.1, Eta: etas[0], Hook: true, X0Real: true}}, k1: K1, k2: -1})
	}
	// ---- gradient descent
	{
		fast := []Opt{{Eps: 1e-4, Step: 0.1, Hook: true}, {Eps: 1e-8, Step: 0.1, Hook: true}, {Eps: 1e-8, Step: 0.1}, {Eps: 1e-8, Step: 0.1, Hook: true, X0Real: true}}
		mid := []Opt{{Eps: 1e-4, Step: 0.01, Hook: true}, {Eps: 1e-8, Step: 0.01, Hook: true}}
		slow := []Opt{{Eps: 1e-4, Step: 0.001, Hook: true}}
		B = append(B, block{routine: "gd", fams: cat(q1, q2, cosh1, cosh2, quart, rosenL[:1], logit), starts: startsFull, opts: fast, k1: K1, k2: -1})
		B = append(B, block{routine: "gd", fams: cat(q1, q2small, cosh1, quart[:3]), starts: startsSub(-2, 0.5, 1), opts: mid, k1: K1, k2: -1})
		B = append(B, block{routine: "gd", fams: cat(q1[:3], cosh1[:1]), starts: startsSub(-2, 0.5), opts: slow, k1: 3, k2: -1})
		B = append(B, block{routine: "gd", fams: cat(q1[:3], q2small[:1], quart[:1]), starts: startsSub(-2, 0.5), opts: fast[1:2], k1: -1, k2: K2})
	}
	// ---- Adam (both entry points)
	{
		o := []Opt{{Eps: 1e-4, Step: 0.1, Hook: true}, {Eps: 1e-8, Step: 0.1, Hook: true}, {Eps: 1e-4, Step: 0.01, Hook: true}, {Eps: 1e-4, Step: 0.1, Hook: true, Con: "le"},
			{Eps: 1e-4, Step: 0.1}, {Eps: 1e-4, Step: 0.1, Hook: true, Con: "ge", MaxIter: 2}}
		B = append(B, block{routine: "adam", fams: cat(q1, q2small, cosh1, quart[:3]), starts: startsSub(-2, 0.5, 1), opts: o, k1: K1, k2: -1, budget: 30000})
		B = append(B, block{routine: "adam", fams: q1[:3], starts: startsSub(-2, 0.5), opts: []Opt{{Eps: 1e-4, Step: 0.001, Hook: true}, {Eps: 1e-4, Step: 0.1, Hook: true, X0Real: true}}, k1: 3, k2: -1, budget: 30000})
		B = append(B, block{routine: "adam", fams: q1[:2], starts: startsSub(-2, 0.5), opts: o[3:4], k1: -1, k2: K2, budget: 30000})
		og := []Opt{{Eps: 1e-4, Hook: true}, {Eps: 1e-4, Hook: true, Con: "le"}, {Eps: 1e-4}, {Eps: 1e-4, Hook: true, MaxIter: 2}}
		B = append(B, block{routine: "adam.gradient", fams: cat(q1, q2small[:2], cosh1), starts: startsSub(-2, 0.5, 1), opts: og, k1: 6, k2: -1, budget: 30000})
	}
	// ---- line search
	{
		x0s := lattice
		dirs := []float64{1, 0.25, 4, -1}
		ph := phiSpecs(n1, x0s, dirs)
		var o []Opt
		for _, a1 := range []float64{1, 0.5, 2} {
			for _, me := range []int{20, 3} {
				for _, cn := range []string{"", "le"} {
					o = append(o, Opt{Step: a1, MaxEval: me, Con: cn, Hook: true})
				}
			}
		}
		o = append(o, Opt{Step: 1, MaxEval: 20})
		B = append(B, block{routine: "linesearch", fams: ph, starts: func(*Family) [][]float64 { return [][]float64{{0}} }, opts: o, k1: K1, k2: -1, devAll: true})
		B = append(B, block{routine: "linesearch", fams: phiSpecs(cat(q1[:3], quart[:3], cosh1[:1]), []float64{-2, 0.5}, []float64{1, 4}), starts: func(*Family) [][]float64 { return [][]float64{{0}} }, opts: []Opt{{Step: 1, MaxEval: 20, Con: "le", Hook: true}}, k1: -1, k2: K2})
		// non-convex rays (rays.go): every quartic/cubic of the coefficient lattice with phi'(0) < 0 and every
		// descent ray of the 2-D Rosenbrock / double-well objectives from the start lattice along the
		// direction lattice, x alpha1 in 2^-4..2^2 x MaxEval; deviations on a sub-lattice.
		at0 := func(*Family) [][]float64 { return [][]float64{{0}} }
		dwell := specs("dwell", []float64{1, 0}, []float64{4, 1}, []float64{1, -1})
		bases2 := cat(rosenL[:3], dwell)
		var oRay, oRayDev []Opt
		for _, a1 := range []float64{1, 0.5, 2, 0.25, 4, 0.125, 0.0625} {
			for _, me := range []int{20, 6, 3} {
				oRay = append(oRay, Opt{Step: a1, MaxEval: me, Hook: true})
			}
		}
		oRay = append(oRay, Opt{Step: 0, MaxEval: 20, Hook: true}) // alpha1 = 0: the "line search failed" return of the bracketing phase
		for _, a1 := range []float64{1, 0.25} {
			oRayDev = append(oRayDev, Opt{Step: a1, MaxEval: 20, Hook: true})
		}
		B = append(B, block{routine: "linesearch", fams: cat(polySpecs(false), raySpecs(bases2, cube(lattice, 2), false)), starts: at0, opts: oRay, k1: -1, k2: -1})
		B = append(B, block{routine: "linesearch", fams: cat(polySpecs(true), raySpecs(cat(rosenL[1:2], dwell[1:2]), cube([]float64{-2, 0.5, 1}, 2), true)), starts: at0, opts: oRayDev, k1: K1, k2: -1, devAll: true})
	}
	// ---- SAGA
	{
		ss := sagaSpecs(thorough)
		var o []Opt
		for _, v := range []string{"1dense", "2dense", "1sparse", "2sparse"} {
			for _, e := range eps {
				for _, gm := range []float64{1.0 / 30, 0.125} {
					if !thorough && e == 1e-8 && gm != 0.125 {
						continue
					}
					o = append(o, Opt{Eps: e, Step: gm, Variant: v})
				}
			}
			o = append(o, Opt{Eps: 1e-4, Step: 0.125, Variant: v, Reg: "ti", RegV: 1, Hook: true}, Opt{Eps: 1e-4, Step: 0.125, Variant: v, Reg: "l1", RegV: 0.5, Hook: true},
				Opt{Eps: 1e-4, Step: 0.125, Variant: v, Reg: "l2", RegV: 0.5, Hook: true})
		}
		o = append(o, Opt{Eps: 1e-4, Step: 0.125, Variant: "jit", Reg: "l1", RegV: 0.5, Hook: true}, Opt{Eps: 1e-8, Step: 1.0 / 30, Variant: "jit", Reg: "l1", RegV: 0.5},
			Opt{Eps: 1e-4, Step: 0.125, Variant: "1dense", Hook: true}, Opt{Eps: 1e-4, Step: 0.125, Variant: "2dense", Reg: "ti", RegV: 1, Hook: true, MaxIter: 2})
		kinds := []string{"err", "nanv", "nang", "stop"}
		st := startsSub(-2, 0.5, 1)
		if thorough {
			st = startsFull
		}
		B = append(B, block{routine: "saga", fams: ss, starts: st, opts: o, k1: K1, k2: -1, kinds: kinds, budget: 40000, devAll: !thorough})
		B = append(B, block{routine: "saga", fams: ss[:6], starts: startsSub(-2, 0.5), opts: []Opt{{Eps: 1e-4, Step: 0.125, Variant: "1dense", Reg: "ti", RegV: 1, Hook: true}, {Eps: 1e-4, Step: 0.125, Variant: "2sparse", Reg: "ti", RegV: 1, Hook: true}}, k1: -1, k2: K2, kinds: kinds, budget: 40000})
	}
	// ---- Blahut-Arimoto
	{
		cs := chanSpecs(thorough)
		var o []Opt
		for _, v := range []string{"run", "naive"} {
			for _, lam := range []float64{1, 0.5, 1.5} {
				for _, st := range []int{1, 5, 50} {
					o = append(o, Opt{Variant: v, Step: lam, MaxIter: st, Hook: true})
				}
				o = append(o, Opt{Variant: v, Step: lam, MaxIter: 2000, Hook: true, Eps: 1e-2}, Opt{Variant: v, Step: lam, MaxIter: 2000, Hook: true, Eps: 1e-4})
			}
			o = append(o, Opt{Variant: v, Step: 1, MaxIter: 50})
		}
		B = append(B, block{routine: "blahut", fams: cs, starts: func(f *Family) [][]float64 {
			if f.N == 2 {
				return [][]float64{{0.5, 0.5}, {0.25, 0.75}, {0.875, 0.125}}
			}
			return [][]float64{{0.25, 0.25, 0.5}, {0.5, 0.25, 0.25}, {0.125, 0.75, 0.125}}
		}, opts: o, k1: K1, k2: -1, kinds: []string{"stop"}, devAll: true}) // a second hook stop can never fire
	}
	return B
}

// Deviations are explored from a sub-lattice of the starts (every start is run without
// deviation): quick {-2,1/2,1} for n=1 and {-2,1/2}^n otherwise; thorough all six values
// for n=1 and {-2,0,1/2,1}^n otherwise.
func devStart(thorough bool, st []float64) bool {
	if thorough && len(st) == 1 {
		return true
	}
	for _, v := range st {
		if !(v == -2 || v == 0.5 || ((v == 1 || v == 0) && thorough) || (v == 1 && len(st) == 1)) {
			return false
		}
	}
	return true
}

func famDim(s FamSpec) *Family {
	switch s.Kind {
	case "lsq", "slogit":
		return &Family{Spec: s, N: int(s.P[0]), Cx: int(s.P[0]) + int(s.P[1])}
	case "chan":
		return &Family{Spec: s, N: int(s.P[0]), Cx: int(s.P[0]) * int(s.P[1])}
	}
	return MakeFamily(s)
}

type runner struct {
	c *vf.Ctx
}

func (rn *runner) exec(cs *Case, rank int64, routine string, base *RunResult) *RunResult {
	c := rn.c
	c.Guard(routine, rank, cs)
	r := runCase(cs)
	c.Eval(1)
	c.Count("runs:"+routine, 1)
	oc := outcome(cs, r)
	c.Outcome(routine + ":" + oc)
	if routine == "linesearch" && len(cs.Devs) == 0 {
		// which return site of lineSearch.go was taken (coverage statistic)
		lp := lsPath(cs, r)
		c.Outcome("linesearch-path:" + lp)
		c.Count("linesearch-path:"+lp, 1)
	}
	if oc == "capped" {
		c.Count("capped_runs(excluded by premise; C20):"+routine, 1)
		c.Count("capped:"+routine+":"+devPattern(cs.Devs)+":"+r.Capped, 1)
		if os.Getenv("C07_DEBUG") != "" && len(cs.Devs) == 0 {
			c.Sample(cs)
		}
	}
	if strings.HasPrefix(oc, "returned") || oc == "hook-stop" {
		c.Count("returned_err_nil:"+routine, 1)
	}
	if oc == "returned" {
		c.Count("stop_oracle_applied:"+routine, 1)
	}
	if r.env.allFired() && (r.env.nObj >= 2 || r.env.nHook >= 1) {
		c.Nontrivial(1)
	}
	if v, ok := r.extra["gradratio"]; ok && v > 1 {
		b := 0
		for x := v; x >= 10; x /= 10 {
			b++
		}
		c.Count(fmt.Sprintf("saga_grad_over_eps_x_decade_%d", b), 1)
	}
	r.whats = map[string]bool{}
	for _, v := range judge(cs, r) {
		w := v.key[strings.LastIndex(v.key, "|")+1:]
		r.whats[w] = true
		if base != nil && base.whats[w] {
			// the same start/objective/options already violate this without any deviation:
			// one finding, reported once (under the deviation pattern "none")
			c.Count("violations_already_seen_without_deviation", 1)
			continue
		}
		c.Violate(v.key, v.what, rank, cs)
	}
	return r
}

// selfTest: the user-style AD closure and the independent closed form describe the same function.
func selfTest(c *vf.Ctx, bl []block) {
	seen := map[string]bool{}
	for _, b := range bl {
		if b.routine == "saga" || b.routine == "blahut" {
			continue
		}
		for _, fs := range b.fams {
			if seen[fs.String()] {
				continue
			}
			seen[fs.String()] = true
			fam := MakeFamily(fs)
			for _, st := range cube([]float64{-2, 0.5, 1}, fam.N) {
				x := ad.NewDenseReal64Vector(append([]float64{}, st...))
				x.Variables(1)
				var got, want []float64
				var sc float64
				if fam.AD != nil {
					r := fam.AD(x)
					got = []float64{r.GetFloat64()}
					for i := 0; i < fam.N; i++ {
						got = append(got, r.GetDerivative(i))
					}
					v, g, s := fam.Pure(st)
					want, sc = append([]float64{v}, g...), s+math.Abs(v)
				} else {
					y := fam.ADVec(x)
					F, J, s := fam.PureVec(st)
					sc = s
					for i := range y {
						got = append(got, y[i].GetFloat64())
						want = append(want, F[i])
						for j := 0; j < fam.N; j++ {
							got = append(got, y[i].GetDerivative(j))
							want = append(want, J[i][j])
						}
					}
				}
				for i := range got {
					if !(math.Abs(got[i]-want[i]) <= 1e-12*(1+sc)) {
						c.HarnessError(fmt.Sprintf("self test: AD closure and closed form of %s disagree at %v: %v vs %v", fs, st, got, want))
						return
					}
				}
			}
		}
	}
}

func explore(c *vf.Ctx) {
	thorough := c.Thorough()
	only := os.Getenv("C07_ONLY")
	rn := &runner{c}
	if c.Shard == 0 {
		selfTest(c, blocks(thorough))
	}
	var idx int64
	defBudget := 100000
	for bi, b := range blocks(thorough) {
		if only != "" && !strings.HasPrefix(b.routine, only) {
			continue
		}
		budget := b.budget
		if budget == 0 {
			budget = defBudget
			fast := b.routine == "bfgs" || strings.HasPrefix(b.routine, "newton") || b.routine == "linesearch"
			switch {
			case thorough && fast:
				budget = 20000 // superlinear methods: far beyond any converging run of the lattice
			case !thorough && fast:
				budget = 4000
			case !thorough:
				budget = 20000
			}
		}
		kinds := b.kinds
		if kinds == nil {
			kinds = devKinds
		}
		t0 := time.Now()
		if os.Getenv("C07_COUNT") != "" {
			if c.Shard == 0 {
				nb := 0
				for _, fs := range b.fams {
					nb += len(b.starts(famDim(fs))) * len(b.opts)
				}
				c.Count(fmt.Sprintf("bases_block%02d_%s(k1=%d,k2=%d)", bi, b.routine, b.k1, b.k2), int64(nb))
			}
			continue
		}
		for _, fs := range b.fams {
			fam := famDim(fs)
			starts := b.starts(fam)
			for oi, o := range b.opts {
				for si, st := range starts {
					idx++
					if !c.Mine(idx) {
						continue
					}
					rank0 := int64(fam.Cx)*1e6 + int64(oi)*1e4 + int64(si)*10
					base := &Case{Routine: b.routine, Fam: fs, Start: st, Opt: o, Budget: budget}
					r0 := rn.exec(base, rank0, b.routine, nil)
					if idx%997 == 0 {
						c.Sample(base)
					}
					// how far each channel got without deviation
					cnt := [3]int{r0.env.nObj, r0.env.nCon, r0.env.nHook}
					dbudget := budget
					if r0.Capped != "" {
						dbudget = 1000
					} else if 3*r0.env.nObj+300 < dbudget {
						dbudget = 3*r0.env.nObj + 300
					}
					if !b.devAll && !devStart(thorough, st) {
						continue
					}
					usable := func(kd string) bool {
						switch kd {
						case "infeas":
							return o.Con != ""
						case "stop":
							return o.Hook
						}
						return true
					}
					for _, kd := range kinds {
						if !usable(kd) {
							continue
						}
						for k := 0; k <= b.k1 && k < cnt[devChan(kd)]; k++ {
							cs := &Case{Routine: b.routine, Fam: fs, Start: st, Opt: o, Devs: []Dev{{kd, k}}, Budget: dbudget}
							rn.exec(cs, 1e9+rank0+int64(k), b.routine, r0)
						}
					}
					if b.k2 >= 0 {
						for _, kdA := range kinds {
							if !usable(kdA) {
								continue
							}
							for kA := 0; kA <= b.k2 && kA < cnt[devChan(kdA)]; kA++ {
								for _, kdB := range kinds {
									if !usable(kdB) {
										continue
									}
									for kB := kA + 1; kB <= b.k2; kB++ {
										cs := &Case{Routine: b.routine, Fam: fs, Start: st, Opt: o, Devs: []Dev{{kdA, kA}, {kdB, kB}}, Budget: dbudget}
										rn.exec(cs, 2e9+rank0+int64(kA+kB), b.routine, r0)
									}
								}
							}
						}
					}
				}
			}
		}
		c.Count(fmt.Sprintf("wall_ms_block%02d_%s", bi, b.routine), time.Since(t0).Milliseconds())
		if pf := os.Getenv("C07_PROGRESS"); pf != "" { // development aid
			if f, err := os.OpenFile(pf, os.O_APPEND|os.O_CREATE|os.O_WRONLY, 0o644); err == nil {
				fmt.Fprintf(f, "shard %d block %d %s done after %.0fs\n", c.Shard, bi, b.routine, time.Since(t0).Seconds())
				f.Close()
			}
		}
	}
}

func main() {
	vf.Main(vf.Spec{
		ID:    "C07",
		Level: "exploration",
		Rule: "deviation-bounded environment exploration: every (routine, objective from the parametrised lattices, start in {-2,-1,0,1/2,1,2}^n, option class) is run with the exact objective/constraint/hook, " +
			"then with exactly one deviation (objective error | NaN value | NaN gradient | constraint says infeasible | hook says stop) at every callback index k<=12 the undeviated run reaches, " +
			"then two deviations at every pair k1<k2<=8 (quick: <=4) on a sub-lattice; a run is non-trivial/distinct when every scheduled deviation actually fired and the routine got past its first evaluation (>=2 objective evaluations or >=1 hook call); " +
			"runs that hit the evaluation/tick budget are 'capped' and excluded by the property's premise. " +
			"Line search additionally on NON-CONVEX rays: every phi(alpha)=a1 alpha+a2 alpha^2+a3 alpha^3+a4 alpha^4 with a1 in {-1,-1/2,-1/4,-2}, a2,a3 in {0,+-1/2,+-1,+-2}, a4 in {0,1/16,1/4,1/2,1} and every descent ray x0+alpha d of Rosenbrock(1,b in {1,10,100}) and three double-well objectives with x0 in {-2,-1,0,1/2,1,2}^2, d in {-2..2}^2 or -grad f(x0), " +
			"x alpha1 in {2^-4..2^2, 0} x MaxEval in {20,6,3} (deviations on a sub-lattice); the return site of lineSearch.go every undeviated run took is reconstructed from the evaluation log and reported as outcome class 'linesearch-path:*' (measured once with go build -cover: every reachable statement of lineSearch.go is executed)",
		Assume: []string{
			"objective families, start lattice and option lattices are finite (see DESIGN C07); deviations land at callback index <= 12 (pairs <= 8)",
			"the stopping condition is re-evaluated with an independent closed-form gradient; tolerance eps*(1+1e-6)+1e-13*(1+sum|terms|)",
			"a constraint that answers 'infeasible' by deviation keeps rejecting that very point (the constraint stays a function of x)",
			"hook arguments are compared with what the objective answered at the hook's x (bitwise) or, failing that, with the pure objective within rounding",
			"SAGA with several components: optimality is checked with the empirical bound |grad F|_inf <= 1e3*eps*max(|x|_inf,1) (no rigorous bound exists for a stochastic epoch); one component: rigorous contraction bound",
			"Blahut-Arimoto has no epsilon: full-step runs are checked against Arimoto's bound C-I(p_N) <= ln(1/min p0)/(lambda N) (lambda<=1, doubled for lambda<1) and a caller-side gap-stop hook gives the Kuhn-Tucker check; starts are interior distributions",
		},
		Run: explore,
		Replay: func(c *vf.Ctx, raw json.RawMessage) {
			var cs Case
			if err := json.Unmarshal(raw, &cs); err != nil {
				c.HarnessError(err.Error())
				return
			}
			r := runCase(&cs)
			fmt.Fprintf(os.Stderr, "replay: outcome=%s ret=%v err=%q nObj=%d nCon=%d nHook=%d\n", outcome(&cs, r), r.Ret, r.Err, r.env.nObj, r.env.nCon, r.env.nHook)
			for _, v := range judge(&cs, r) {
				c.Violate(v.key, v.what, 0, cs)
			}
		},
	})
}
