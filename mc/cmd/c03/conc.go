// Concrete entry points. Next to the interface methods (VaddV, MdotM, Equals, ...) every
// container type has methods of the same meaning on its concrete type (VADDV, MDOTM,
// EQUALS, SET, ...) with their own, hand-specialised bodies. They take operands of the
// receiver's own type only, so they are run in the storage combinations in which receiver
// and all container operands share one storage class. The method is looked up by name on
// the receiver's dynamic type; a configuration takes part iff the type has a method of
// that name whose parameters accept the operands as built.
package main

import (
	"reflect"
)

var concName = map[string]string{
	"VaddV": "VADDV", "VsubV": "VSUBV", "VmulV": "VMULV", "VdivV": "VDIVV",
	"VaddS": "VADDS", "VsubS": "VSUBS", "VmulS": "VMULS", "VdivS": "VDIVS",
	"MdotV": "MDOTV", "VdotM": "VDOTM", "Vset": "SET", "Vequals": "EQUALS",
	"MaddM": "MADDM", "MsubM": "MSUBM", "MmulM": "MMULM", "MdivM": "MDIVM",
	"MaddS": "MADDS", "MsubS": "MSUBS", "MmulS": "MMULS", "MdivS": "MDIVS",
	"MdotM": "MDOTM", "Outer": "OUTER", "Mset": "SET", "Mequals": "EQUALS",
}

// concMethod: the concrete method of recv for op, if its parameters accept args.
func concMethod(recv any, op string, args ...any) (reflect.Value, []reflect.Value, bool) {
	name, ok := concName[op]
	if !ok || recv == nil {
		return reflect.Value{}, nil, false
	}
	m := reflect.ValueOf(recv).MethodByName(name)
	if !m.IsValid() {
		return reflect.Value{}, nil, false
	}
	mt := m.Type()
	if mt.NumIn() != len(args) || mt.IsVariadic() {
		return reflect.Value{}, nil, false
	}
	in := make([]reflect.Value, len(args))
	for i, a := range args {
		if a == nil {
			return reflect.Value{}, nil, false
		}
		v := reflect.ValueOf(a)
		if !v.Type().AssignableTo(mt.In(i)) {
			return reflect.Value{}, nil, false
		}
		// an interface-typed parameter would be the generic method under another name
		if mt.In(i).Kind() == reflect.Interface {
			return reflect.Value{}, nil, false
		}
		in[i] = v
	}
	return m, in, true
}

var concAvail = map[string]bool{}

// concAvailable: does type t in storage combination stor have the concrete method of op?
func concAvailable(op string, dims []int, t *tinfo, stor string) bool {
	key := op + "|" + t.name + "|" + stor
	if r, ok := concAvail[key]; ok {
		return r
	}
	zd := make([]int, len(dims))
	slots := opSlots(op, zd)
	b := &builder{t: t}
	var ob [3]any
	for i := 0; i < 3; i++ {
		p := ""
		if slots[i].kind == 's' {
			p = "0"
		}
		ob[i] = b.build(slots[i], stor[i], p)
	}
	var args []any
	for i := 1; i < 3; i++ {
		if ob[i] != nil {
			args = append(args, ob[i])
		}
	}
	if op == "Vequals" || op == "Mequals" {
		args = append(args, 1e-8)
	}
	_, _, ok := concMethod(ob[0], op, args...)
	concAvail[key] = ok
	return ok
}

// homogeneous: all container slots of the storage combination share one of d, s.
func homogeneous(stor string) bool {
	var c byte
	for i := 0; i < len(stor); i++ {
		switch stor[i] {
		case '-':
		case 'd', 's':
			if c != 0 && c != stor[i] {
				return false
			}
			c = stor[i]
		default:
			return false
		}
	}
	return c != 0
}
