// Dense reference model: every container is a plain slice of jets (value + gradient +
// Hessian w.r.t. the N variables activated in the case). All data are small integers /
// dyadics, so every intermediate is exactly representable in float32 and float64 and the
// result does not depend on evaluation order.
package main

import (
	"math"
)

// Pattern letters (one per element position):
//   dense operands : '0' zero, '1' one, 'm' minus two, 'z' zero-valued activated variable
//   sparse operands: '_' no entry, 'e' entry created with At(i) and left zero,
//                    '1', 'm', 'z' as above
// In variable mode (Real32/Real64 only) '1' and 'm' are activated variables as well.
//
// Derivative-only elements (variable mode, alphabet level 8; value 0 in every case):
//   'z' gradient only      : a zero-valued variable x_k            (d_k = 1, Hessian 0)
//   'h' diagonal Hessian   : x_k*x_k at x_k = 0                     (d = 0, H_kk = 2)
//   'o' off-diagonal only  : x_k*x_(k+1) at (0,0), two own variables (d = 0, H_k,k+1 = H_k+1,k = 1)
//   'y' a true zero of order 2: memory for N derivatives allocated, every entry zero
// The element is written through the public scalar interface (Alloc, SetHessian), so that
// what the container holds does not depend on the library's scalar arithmetic.

// The Equals alphabets add: 't' 1e-17, 'u' -1e-17, 'n' 1e-9, 'q' 0.75, 'I' +Inf, 'J' -Inf,
// 'N' NaN (never variables). 'p' and 'r' are the constants 1 and -2 a receiver holds after
// a Set in its life (life.go; never variables either).
func letterVal(c byte) float64 {
	switch c {
	case '1', 'p':
		return 1
	case 'm', 'r':
		return -2
	case 't':
		return 1e-17
	case 'u':
		return -1e-17
	case 'n':
		return 1e-9
	case 'q':
		return 0.75
	case 'I':
		return math.Inf(1)
	case 'J':
		return math.Inf(-1)
	case 'N':
		return math.NaN()
	}
	return 0
}

// ownVars: the number of variables the element at letter c introduces.
func ownVars(c byte, varMode bool) int {
	if !varMode {
		return 0
	}
	switch c {
	case 'z', '1', 'm', 'h':
		return 1
	case 'o':
		return 2
	}
	return 0
}

func countVars(p string, varMode bool) int {
	n := 0
	for i := 0; i < len(p); i++ {
		n += ownVars(p[i], varMode)
	}
	return n
}

type jet struct {
	v   float64
	d   []float64 // len N (nil = all zero)
	h   []float64 // N*N  (nil = all zero)
	und bool      // undefined: integer division by zero (the library must panic)
	nod bool      // derivatives not compared (division by zero in IEEE arithmetic)
}

type model struct {
	n     int    // number of variables
	class string // int | float | real
}

func (m *model) operand(p string, varMode bool, next *int) []jet {
	r := make([]jet, len(p))
	for i := 0; i < len(p); i++ {
		r[i].v = letterVal(p[i])
		if m.class == "int" {
			r[i].v = roundTo("Int", r[i].v)
		}
		k, n := *next, m.n
		*next += ownVars(p[i], varMode)
		if !varMode {
			continue
		}
		switch p[i] {
		case 'z', '1', 'm':
			r[i].d = make([]float64, n)
			r[i].d[k] = 1
		case 'h':
			r[i].h = make([]float64, n*n)
			r[i].h[k*n+k] = 2
		case 'o':
			r[i].h = make([]float64, n*n)
			r[i].h[k*n+k+1], r[i].h[(k+1)*n+k] = 1, 1
		}
	}
	return r
}

func (m *model) dv(a jet, i int) float64 {
	if a.d == nil {
		return 0
	}
	return a.d[i]
}
func (m *model) hv(a jet, i, j int) float64 {
	if a.h == nil {
		return 0
	}
	return a.h[i*m.n+j]
}

// bin computes a∘b with the chain rule for two arguments.
func (m *model) bin(op byte, a, b jet) jet {
	var r jet
	if a.und || b.und {
		r.und = true
		return r
	}
	x, y := a.v, b.v
	var v10, v01, v11, v20, v02 float64
	switch op {
	case '+':
		r.v, v10, v01 = x+y, 1, 1
	case '-':
		r.v, v10, v01 = x-y, 1, -1
	case '*':
		r.v, v10, v01, v11 = x*y, y, x, 1
	case '/':
		if m.class == "int" {
			if y == 0 {
				r.und = true
				return r
			}
			r.v = math.Trunc(x / y)
		} else {
			r.v = x / y
			if y == 0 {
				r.nod = true
				return r
			}
			v10, v01, v11, v20, v02 = 1/y, -x/(y*y), -1/(y*y), 0, 2*x/(y*y*y)
		}
	}
	r.nod = a.nod || b.nod
	if m.n == 0 || (a.d == nil && b.d == nil && a.h == nil && b.h == nil) {
		return r
	}
	n := m.n
	r.d = make([]float64, n)
	r.h = make([]float64, n*n)
	for i := 0; i < n; i++ {
		r.d[i] = m.dv(a, i)*v10 + m.dv(b, i)*v01
		for j := 0; j < n; j++ {
			r.h[i*n+j] = m.hv(a, i, j)*v10 + m.hv(b, i, j)*v01 +
				m.dv(a, i)*m.dv(a, j)*v20 + m.dv(b, i)*m.dv(b, j)*v02 +
				(m.dv(a, i)*m.dv(b, j)+m.dv(b, i)*m.dv(a, j))*v11
		}
	}
	return r
}

func sameClass(x, y float64) bool {
	return x == y || (math.IsNaN(x) && math.IsNaN(y))
}

// elemEquals is the documented element comparison (scalar_*_math.go: Equals): integers
// compare exactly and ignore epsilon; floating-point elements are equal iff
// |a-b| < epsilon, or both are NaN, or both are the same infinity.
func elemEquals(class string, a, b, eps float64) bool {
	if class == "int" {
		return a == b
	}
	return math.Abs(a-b) < eps || (math.IsNaN(a) && math.IsNaN(b)) ||
		(math.IsInf(a, 1) && math.IsInf(b, 1)) || (math.IsInf(a, -1) && math.IsInf(b, -1))
}

// expectation of one case
type expect struct {
	res   []jet // expected content of the result container (row major), or the scalar
	prior []jet // what the receiver held before (aligned with res), nil if none
	isB   bool  // boolean result (Equals)
	b     bool
}

func opChar(op string) byte {
	switch op[1:4] {
	case "add":
		return '+'
	case "sub":
		return '-'
	case "mul":
		return '*'
	case "div":
		return '/'
	}
	return 0
}

// expected computes the model result of a case for element class `class`.
func expected(cs *Case, class string) *expect {
	m := &model{class: class}
	m.n = cs.nvars()
	next := 0
	var A, B, R []jet
	if cs.Op == "VnewSparse" || cs.Op == "MnewSparse" || cs.Op == "VnewDense" || cs.Op == "MnewDense" || cs.Op == "VnewConst" {
		A = m.operand(cs.A, false, &next)
		return &expect{res: A}
	}
	A = m.operand(cs.A, cs.slotVar(1), &next)
	if cs.Op != "VequalsE" && cs.Op != "MequalsE" && !isWalk(cs.Op) {
		B = m.operand(cs.B, cs.slotVar(2), &next)
	}
	R = m.operand(cs.R, cs.slotVar(0), &next)
	if cs.Life != "" {
		// the receiver at the time of the judged call: wherever its life changed an element
		// that element is a constant (0, 1 or -2) without derivatives
		for p, c := range []byte(cs.effR()) {
			if c != cs.R[p] {
				R[p] = jet{v: letterVal(c)}
			}
		}
	}
	e := &expect{prior: R}
	zero := jet{}
	switch cs.Op {
	case "VaddV", "VsubV", "VmulV", "VdivV", "MaddM", "MsubM", "MmulM", "MdivM":
		e.res = make([]jet, len(A))
		for i := range A {
			e.res[i] = m.bin(opChar(cs.Op), A[i], B[i])
		}
	case "VaddS", "VsubS", "VmulS", "VdivS", "MaddS", "MsubS", "MmulS", "MdivS":
		e.res = make([]jet, len(A))
		for i := range A {
			e.res[i] = m.bin(opChar(cs.Op), A[i], B[0])
		}
	case "VdotV":
		s := zero
		for i := range A {
			s = m.bin('+', s, m.bin('*', A[i], B[i]))
		}
		e.res = []jet{s}
	case "MdotV":
		n, k := cs.Dims[0], cs.Dims[1]
		e.res = make([]jet, n)
		for i := 0; i < n; i++ {
			s := zero
			for j := 0; j < k; j++ {
				s = m.bin('+', s, m.bin('*', A[i*k+j], B[j]))
			}
			e.res[i] = s
		}
	case "VdotM":
		n, k := cs.Dims[0], cs.Dims[1]
		e.res = make([]jet, k)
		for j := 0; j < k; j++ {
			s := zero
			for i := 0; i < n; i++ {
				s = m.bin('+', s, m.bin('*', A[i], B[i*k+j]))
			}
			e.res[j] = s
		}
	case "MdotM":
		n, k, q := cs.Dims[0], cs.Dims[1], cs.Dims[2]
		e.res = make([]jet, n*q)
		for i := 0; i < n; i++ {
			for j := 0; j < q; j++ {
				s := zero
				for l := 0; l < k; l++ {
					s = m.bin('+', s, m.bin('*', A[i*k+l], B[l*q+j]))
				}
				e.res[i*q+j] = s
			}
		}
	case "Outer":
		n, q := cs.Dims[0], cs.Dims[1]
		e.res = make([]jet, n*q)
		for i := 0; i < n; i++ {
			for j := 0; j < q; j++ {
				e.res[i*q+j] = m.bin('*', A[i], B[j])
			}
		}
	case "Vset", "Mset", "VasDense", "VasSparse", "MasDense", "MasSparse", "VasConst":
		e.res = A
	case "Vequals", "Mequals", "VequalsE", "MequalsE":
		e.isB, e.b = true, true
		eps := cs.eps()
		for i := range A {
			if !elemEquals(class, R[i].v, A[i].v, eps) {
				e.b = false
			}
		}
		e.res = R // the receiver must be left as it was
	case "VjointWalk", "VcjointWalk", "MjointWalk":
		e.res = R // a traversal leaves the receiver as it was
	case "Vreset", "Mreset":
		e.res = make([]jet, len(R))
	case "MsetIdentity":
		r, c := cs.Dims[0], cs.Dims[1]
		e.res = make([]jet, r*c)
		for i := 0; i < r && i < c; i++ {
			e.res[i*c+i].v = 1
		}
	default:
		panic("model: unknown op " + cs.Op)
	}
	return e
}
