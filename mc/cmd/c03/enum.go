// Enumeration: families (operation × shape × alphabet level × type set) and the
// exhaustive product of storage combinations and element patterns inside each family.
package main

import (
	"fmt"
)

type slot struct {
	kind byte // 'v' vector, 'm' matrix, 's' scalar, 'l' index/value list, 'o' list order, 'E' epsilon of Equals, 'W' walk program of a joint iterator (r = size of the index space), 0 none
	r, c int  // vector: r = n
}

func (s slot) size() int {
	switch s.kind {
	case 'v', 'l', 'L':
		return s.r
	case 'm':
		return s.r * s.c
	case 's':
		return 1
	}
	return 0
}

type family struct {
	op     string
	dims   []int
	slots  [3]slot // receiver, a, b
	levels [3]int
	types  []*tinfo
	varM   bool
	// storage letters per slot: d dense, s sparse, c SparseConst*Vector (vector operands
	// only), - scalar/none
	stor  [3]string
	needC bool // only the storage combinations with a SparseConst operand (the others are covered elsewhere)
	cross bool // every receiver type with all 7 SparseConst element types (else the one of the same precision)
	ctOp  bool // the operation itself has a SparseConst element type (VasConst, VnewConst)
	// operand histories (hist.go): every history of 1..histLen steps on slot histSlot
	histSlot int // -1: none
	histLen  int
	histSl2  bool // slice steps also in the two-step histories
	// receiver lives (life.go): every life of 1..lifeLen steps of the receiver (0: none)
	lifeLen int
	// the judged call goes through the concrete method of the receiver's type (conc.go);
	// only the storage combinations with one storage class for all containers
	conc bool
}

// hists: the histories enumerated inside the family ("" = none).
func (f *family) hists() []string {
	if f.lifeLen > 0 {
		return lives(f.slots[0], f.lifeLen)
	}
	if f.histSlot < 0 {
		return []string{""}
	}
	return histories(f.slots[f.histSlot], f.histSlot, f.histLen, f.histSl2)
}

// ctypesFor: the SparseConst element types run with receiver type t under storage stor.
func (f *family) ctypesFor(t *tinfo, stor string) []*cinfo {
	if !f.ctOp && !containsByte(stor, 'c') {
		return []*cinfo{nil}
	}
	if f.cross {
		return ctypes
	}
	return []*cinfo{pairedConst(t)}
}

func containsByte(s string, b byte) bool {
	for i := 0; i < len(s); i++ {
		if s[i] == b {
			return true
		}
	}
	return false
}

// Alphabet levels (per element position p; x(p) = 1 for even p, -2 for odd p):
//
//	0: only the two patterns all-zero / all-x
//	1: dense {0,x}     sparse {_,x}
//	2: dense {0,x}     sparse {_,e,x}      (+z in variable mode)
//	3: dense {0,1,m}   sparse {_,e,1,m}    (+z in variable mode)
//
// Equals alphabets (t=1e-17, u=-1e-17, n=1e-9, q=0.75, I=+Inf, J=-Inf, N=NaN):
//
//	4: dense {0,t,q,1}       sparse {_,e,t,q,1}
//	5: dense {0,t,u,n,q,1}   sparse {_,e,t,u,n,q,1}
//	6: dense {0,1,I,J,N}     sparse {_,e,1,I,J,N}
//	7: dense {0,t,1}         sparse {_,e,t,1}
//
// Derivative-only alphabet (variable mode only; letters in model.go):
//
//	8: dense {0,x,z,h,o,y}   sparse {_,e,x,z,h,o,y}
//
// SparseConst operands (storage c) use the sparse alphabets and never hold variables.
func alphabet(stor byte, level int, varM bool, p int) string {
	x := "1"
	if p%2 == 1 {
		x = "m"
	}
	if stor == 'c' {
		stor, varM = 's', false
	}
	var a string
	switch {
	case level == 8 && !varM:
		panic("harness: alphabet level 8 without variables")
	case level == 8 && stor == 'd':
		return "0" + x + "zhoy"
	case level == 8:
		return "_e" + x + "zhoy"
	case level >= 4:
		a = map[int]string{4: "tq1", 5: "tunq1", 6: "1IJN", 7: "t1"}[level]
		if stor == 'd' {
			return "0" + a
		}
		return "_e" + a
	case stor == 'd' && level <= 2:
		a = "0" + x
	case stor == 'd':
		a = "01m"
	case level <= 1:
		a = "_" + x
	case level == 2:
		a = "_e" + x
	default:
		a = "_e1m"
	}
	if varM && level >= 2 {
		a += "z"
	}
	return a
}

var patCache = map[string][]string{}

func patterns(s slot, stor byte, level int, varM bool) []string {
	switch s.kind {
	case 0:
		return []string{""}
	case 's':
		if level <= 1 {
			return []string{"0", "1"}
		}
		if varM && stor != 'c' && level == 8 {
			return []string{"0", "1", "m", "z", "h", "o", "y"}
		}
		if varM && stor != 'c' {
			return []string{"0", "1", "m", "z"}
		}
		return []string{"0", "1", "m"}
	case 'o':
		return []string{"asc", "desc"}
	case 'E':
		return []string{"1e-08", "0.75", "0"}
	case 'W':
		return walkPrograms(s.r)
	case 'l', 'L':
		stor = s.kind
	}
	n := s.size()
	key := fmt.Sprintf("%c%d/%d/%v/%c", s.kind, n, level, varM, stor)
	if r, ok := patCache[key]; ok {
		return r
	}
	var res []string
	if level == 0 {
		z, f := make([]byte, n), make([]byte, n)
		for p := 0; p < n; p++ {
			z[p] = alphabet(stor, 1, false, p)[0]
			f[p] = alphabet(stor, 1, false, p)[1]
		}
		res = []string{string(z)}
		if n > 0 {
			res = append(res, string(f))
		}
	} else {
		alph := make([]string, n)
		for p := 0; p < n; p++ {
			if stor == 'l' {
				alph[p] = "_01m"
			} else if stor == 'L' {
				alph[p] = "01m"
			} else {
				alph[p] = alphabet(stor, level, varM, p)
			}
		}
		cur := make([]byte, n)
		var rec func(p int)
		rec = func(p int) {
			if p == n {
				res = append(res, string(cur))
				return
			}
			for i := 0; i < len(alph[p]); i++ {
				cur[p] = alph[p][i]
				rec(p + 1)
			}
		}
		rec(0)
	}
	patCache[key] = res
	return res
}

// storage combinations of a family, all-dense first
func storages(f *family) []string {
	res := []string{""}
	for _, opts := range f.stor {
		var nx []string
		for _, pre := range res {
			for i := 0; i < len(opts); i++ {
				nx = append(nx, pre+string(opts[i]))
			}
		}
		res = nx
	}
	if f.needC {
		var nx []string
		for _, st := range res {
			if containsByte(st, 'c') {
				nx = append(nx, st)
			}
		}
		res = nx
	}
	if f.conc {
		var nx []string
		for _, st := range res {
			if homogeneous(st) {
				nx = append(nx, st)
			}
		}
		res = nx
	}
	return res
}

// typesFor: the element types run under storage stor (a concrete-method family: those
// whose container type has the method).
func (f *family) typesFor(stor string) []*tinfo {
	if !f.conc {
		return f.types
	}
	var r []*tinfo
	for _, t := range f.types {
		if concAvailable(f.op, f.dims, t, stor) {
			r = append(r, t)
		}
	}
	return r
}

func defaultStor(slots [3]slot) [3]string {
	var r [3]string
	for i, s := range slots {
		if s.kind == 'v' || s.kind == 'm' {
			r[i] = "ds"
		} else {
			r[i] = "-"
		}
	}
	return r
}

func vecSlot(n int) slot    { return slot{'v', n, 0} }
func matSlot(r, c int) slot { return slot{'m', r, c} }

var scalarSlot = slot{kind: 's'}

type famBuilder struct {
	fams []*family
	// modes of add: lifeLen > 0: only the operations with a container receiver, each with
	// every receiver life of 1..lifeLen steps; conc: only the operations that have a
	// concrete method, called through it
	lifeLen int
	conc    bool
}

func (fb *famBuilder) add(op string, dims []int, levels [3]int, types []*tinfo, varM bool) *family {
	f := &family{op: op, dims: dims, slots: opSlots(op, dims), levels: levels, types: types, varM: varM, histSlot: -1}
	f.stor = defaultStor(f.slots)
	f.ctOp = op == "VasConst" || op == "VnewConst"
	if fb.lifeLen > 0 {
		if k := f.slots[0].kind; k != 'v' && k != 'm' {
			return f // not part of the enumeration
		}
		f.lifeLen = fb.lifeLen
	}
	if fb.conc {
		if _, ok := concName[op]; !ok {
			return f
		}
		f.conc = true
	}
	fb.fams = append(fb.fams, f)
	return f
}

// opSlots gives the shape of receiver, a and b of an operation.
func opSlots(op string, d []int) [3]slot {
	none := slot{}
	switch op {
	case "VaddV", "VsubV", "VmulV", "VdivV":
		return [3]slot{vecSlot(d[0]), vecSlot(d[0]), vecSlot(d[0])}
	case "VaddS", "VsubS", "VmulS", "VdivS":
		return [3]slot{vecSlot(d[0]), vecSlot(d[0]), scalarSlot}
	case "VdotV":
		return [3]slot{scalarSlot, vecSlot(d[0]), vecSlot(d[0])}
	case "Vset", "Vequals":
		return [3]slot{vecSlot(d[0]), vecSlot(d[0]), none}
	case "VequalsE":
		return [3]slot{vecSlot(d[0]), vecSlot(d[0]), {kind: 'E'}}
	case "MequalsE":
		return [3]slot{matSlot(d[0], d[1]), matSlot(d[0], d[1]), {kind: 'E'}}
	case "VjointWalk", "VcjointWalk":
		return [3]slot{vecSlot(d[0]), vecSlot(d[0]), {kind: 'W', r: d[0]}}
	case "MjointWalk":
		return [3]slot{matSlot(d[0], d[1]), matSlot(d[0], d[1]), {kind: 'W', r: d[0] * d[1]}}
	case "VasConst":
		return [3]slot{none, vecSlot(d[0]), none}
	case "VnewConst":
		return [3]slot{none, {kind: 'l', r: d[0]}, {kind: 'o'}}
	case "Vreset":
		return [3]slot{vecSlot(d[0]), none, none}
	case "VasDense", "VasSparse":
		return [3]slot{none, vecSlot(d[0]), none}
	case "VnewSparse":
		return [3]slot{none, {kind: 'l', r: d[0]}, {kind: 'o'}}
	case "VnewDense":
		return [3]slot{none, {kind: 'L', r: d[0]}, none}
	case "MdotV":
		return [3]slot{vecSlot(d[0]), matSlot(d[0], d[1]), vecSlot(d[1])}
	case "VdotM":
		return [3]slot{vecSlot(d[1]), vecSlot(d[0]), matSlot(d[0], d[1])}
	case "Outer":
		return [3]slot{matSlot(d[0], d[1]), vecSlot(d[0]), vecSlot(d[1])}
	case "MaddM", "MsubM", "MmulM", "MdivM":
		return [3]slot{matSlot(d[0], d[1]), matSlot(d[0], d[1]), matSlot(d[0], d[1])}
	case "MaddS", "MsubS", "MmulS", "MdivS":
		return [3]slot{matSlot(d[0], d[1]), matSlot(d[0], d[1]), scalarSlot}
	case "Mset", "Mequals":
		return [3]slot{matSlot(d[0], d[1]), matSlot(d[0], d[1]), none}
	case "Mreset", "MsetIdentity":
		return [3]slot{matSlot(d[0], d[1]), none, none}
	case "MasDense", "MasSparse":
		return [3]slot{none, matSlot(d[0], d[1]), none}
	case "MnewSparse":
		return [3]slot{none, {kind: 'l', r: d[0] * d[1]}, {kind: 'o'}}
	case "MnewDense":
		return [3]slot{none, {kind: 'L', r: d[0] * d[1]}, none}
	case "MdotM":
		return [3]slot{matSlot(d[0], d[2]), matSlot(d[0], d[1]), matSlot(d[1], d[2])}
	}
	panic("harness: unknown op " + op)
}

var vecBin = []string{"VaddV", "VsubV", "VmulV", "VdivV"}
var vecScal = []string{"VaddS", "VsubS", "VmulS", "VdivS"}
var matBin = []string{"MaddM", "MsubM", "MmulM", "MdivM"}
var matScal = []string{"MaddS", "MsubS", "MmulS", "MdivS"}

// vectorFamilies adds every vector operation at dimension n.
func (fb *famBuilder) vectorFamilies(n int, lv [3]int, types []*tinfo, varM bool) {
	for _, op := range vecBin {
		fb.add(op, []int{n}, lv, types, varM)
	}
	for _, op := range vecScal {
		fb.add(op, []int{n}, [3]int{lv[0], lv[1], scalarLevel(lv[2])}, types, varM)
	}
	fb.add("VdotV", []int{n}, [3]int{1, lv[1], lv[2]}, types, varM)
	fb.add("Vset", []int{n}, lv, types, varM)
	fb.add("Vequals", []int{n}, lv, types, varM)
	fb.add("Vreset", []int{n}, lv, types, varM)
	fb.add("VasDense", []int{n}, lv, types, varM)
	fb.add("VasSparse", []int{n}, lv, types, varM)
	if !varM {
		fb.add("VnewSparse", []int{n}, [3]int{3, 3, 3}, types, false)
		fb.add("VnewDense", []int{n}, [3]int{3, 3, 3}, types, false)
	}
}

// scalarLevel: the scalar operand of V*S / M*S has the full alphabet {0,1,-2,(z)}, with the
// derivative-only letters where the second operand of the binary operations has them.
func scalarLevel(lvB int) int {
	if lvB == 8 {
		return 8
	}
	return 3
}

// matVecFamilies: MdotV / VdotM / Outer with an n×m matrix.
func (fb *famBuilder) matVecFamilies(n, m int, lvVec, lvMat int, types []*tinfo, varM bool) {
	fb.add("MdotV", []int{n, m}, [3]int{lvVec, lvMat, lvVec}, types, varM)
	fb.add("VdotM", []int{n, m}, [3]int{lvVec, lvVec, lvMat}, types, varM)
	fb.add("Outer", []int{n, m}, [3]int{lvMat, lvVec, lvVec}, types, varM)
}

// matrixFamilies adds every matrix operation on r×c matrices. lv: levels of the
// element-wise binary operations; ra: levels (receiver, operand) of everything else.
func (fb *famBuilder) matrixFamilies(r, c int, lv [3]int, ra [2]int, types []*tinfo, varM bool) {
	for _, op := range matBin {
		fb.add(op, []int{r, c}, lv, types, varM)
	}
	for _, op := range matScal {
		fb.add(op, []int{r, c}, [3]int{ra[0], ra[1], scalarLevel(lv[2])}, types, varM)
	}
	one := max(ra[0], ra[1])
	fb.add("Mset", []int{r, c}, [3]int{ra[0], ra[1], 0}, types, varM)
	fb.add("Mequals", []int{r, c}, [3]int{ra[0], ra[1], 0}, types, varM)
	fb.add("Mreset", []int{r, c}, [3]int{one, 0, 0}, types, varM)
	fb.add("MsetIdentity", []int{r, c}, [3]int{one, 0, 0}, types, varM)
	fb.add("MasDense", []int{r, c}, [3]int{0, one, 0}, types, varM)
	fb.add("MasSparse", []int{r, c}, [3]int{0, one, 0}, types, varM)
	if !varM {
		if r*c <= 6 {
			fb.add("MnewSparse", []int{r, c}, [3]int{3, 3, 3}, types, false)
		}
		if r*c <= 4 {
			fb.add("MnewDense", []int{r, c}, [3]int{3, 3, 3}, types, false)
		}
	}
}

func (fb *famBuilder) mdotm(n, k, m int, lv [3]int, types []*tinfo, varM bool) {
	fb.add("MdotM", []int{n, k, m}, lv, types, varM)
}

// ---- SparseConst*Vector operands (storage class c) ---------------------------------

func (f *family) withConst(cross bool, slots ...int) *family {
	for _, i := range slots {
		f.stor[i] = "dsc"
	}
	f.needC, f.cross = true, cross
	return f
}

// constVectorFamilies: every vector operation that accepts ConstVector operands, with at
// least one operand stored as SparseConst*Vector. lvR/lvO: alphabet levels of the
// receiver's prior content and of the operands.
func (fb *famBuilder) constVectorFamilies(n int, lvR, lvO int, types []*tinfo, cross, varM bool) {
	d := []int{n}
	for _, op := range vecBin {
		fb.add(op, d, [3]int{lvR, lvO, lvO}, types, varM).withConst(cross, 1, 2)
	}
	for _, op := range vecScal {
		fb.add(op, d, [3]int{lvR, lvO, 3}, types, varM).withConst(cross, 1)
	}
	fb.add("VdotV", d, [3]int{1, lvO, lvO}, types, varM).withConst(cross, 1, 2)
	fb.add("Vset", d, [3]int{lvR, lvO, 0}, types, varM).withConst(cross, 1)
	fb.add("Vequals", d, [3]int{lvO, lvO, 0}, types, varM).withConst(cross, 0, 1)
	fb.add("VasDense", d, [3]int{0, lvO, 0}, types, varM).withConst(cross, 1)
	fb.add("VasSparse", d, [3]int{0, lvO, 0}, types, varM).withConst(cross, 1)
	if !varM {
		f := fb.add("VasConst", d, [3]int{0, lvO, 0}, types, false)
		f.stor[1], f.cross = "dsc", cross
		fb.add("VnewConst", d, [3]int{3, 3, 3}, f64Only, false).cross = true
	}
}

func (fb *famBuilder) constMatVecFamilies(n, m int, lvR, lvVec, lvMat int, types []*tinfo, cross, varM bool) {
	fb.add("MdotV", []int{n, m}, [3]int{lvR, lvMat, lvVec}, types, varM).withConst(cross, 2)
	fb.add("VdotM", []int{n, m}, [3]int{lvR, lvVec, lvMat}, types, varM).withConst(cross, 1)
	fb.add("Outer", []int{n, m}, [3]int{lvR, lvVec, lvVec}, types, varM).withConst(cross, 1, 2)
}

// ---- operand histories ---------------------------------------------------------------

// histFamily: op with every history of 1..hlen steps on slot si. The operand with the
// history gets level lvH and every storage class it admits; the other operands level lvO
// (dense/sparse), the receiver's prior content level lvR.
func (fb *famBuilder) histFamily(op string, dims []int, si, hlen int, sl2 bool, lvH, lvO, lvR int, types []*tinfo) {
	f := fb.add(op, dims, [3]int{lvR, lvO, lvO}, types, false)
	for i := 1; i < 3; i++ {
		if f.slots[i].kind == 'm' && f.slots[si].kind == 'v' {
			f.levels[i] = 0 // matrix next to a vector with a history: all-zero / all-x
		}
	}
	f.levels[si] = lvH
	f.histSlot, f.histLen, f.histSl2 = si, hlen, sl2
	if f.slots[si].kind == 'v' && (si > 0 || op == "Vequals") {
		f.stor[si] = "dsc"
	}
}

// vecHistFamilies: histories on every vector operand of every operation (dimension n;
// matrix-vector products with an n×m / m×n matrix for every m in ms).
func (fb *famBuilder) vecHistFamilies(n int, ms []int, hlen int, sl2 bool, lvH, lvO, lvR int, types []*tinfo, recvToo bool) {
	d := []int{n}
	h := func(op string, dims []int, slots ...int) {
		for _, si := range slots {
			if si == 0 && !recvToo && op != "Vequals" {
				continue
			}
			fb.histFamily(op, dims, si, hlen, sl2, lvH, lvO, lvR, types)
		}
	}
	for _, op := range vecBin {
		h(op, d, 1, 2, 0)
	}
	for _, op := range vecScal {
		h(op, d, 1, 0)
	}
	h("VdotV", d, 1, 2)
	h("Vset", d, 1, 0)
	h("Vequals", d, 0, 1)
	h("VasDense", d, 1)
	h("VasSparse", d, 1)
	h("VasConst", d, 1)
	for _, m := range ms {
		h("MdotV", []int{m, n}, 2) // b has dimension n
		h("VdotM", []int{n, m}, 1)
		h("Outer", []int{n, m}, 1)
		h("Outer", []int{m, n}, 2)
		if recvToo {
			h("MdotV", []int{n, m}, 0)
			h("VdotM", []int{m, n}, 0)
		}
	}
}

// matHistFamilies: histories on every matrix operand (r×c).
func (fb *famBuilder) matHistFamilies(r, c int, hlen int, sl2 bool, lvH, lvO, lvR int, types []*tinfo) {
	d := []int{r, c}
	h := func(op string, dims []int, slots ...int) {
		for _, si := range slots {
			fb.histFamily(op, dims, si, hlen, sl2, lvH, lvO, lvR, types)
		}
	}
	for _, op := range matBin {
		h(op, d, 1, 2)
	}
	for _, op := range matScal {
		h(op, d, 1)
	}
	h("Mset", d, 1)
	h("Mequals", d, 0, 1)
	h("MasDense", d, 1)
	h("MasSparse", d, 1)
	h("MdotV", d, 1)
	h("VdotM", d, 2)
	h("MdotM", []int{r, c, r}, 1)
	h("MdotM", []int{c, r, c}, 2)
}

// ---- Equals with tiny differences and several epsilons ------------------------------

func (fb *famBuilder) vequalsE(n, level int, types []*tinfo) {
	f := fb.add("VequalsE", []int{n}, [3]int{level, level, 0}, types, false)
	f.stor[0], f.stor[1] = "dsc", "dsc"
}

func (fb *famBuilder) mequalsE(r, c, level int, types []*tinfo) {
	fb.add("MequalsE", []int{r, c}, [3]int{level, level, 0}, types, false)
}

// ---- joint-iterator traversals (joint.go) ----------------------------------------------

func (fb *famBuilder) vjoint(n, lvR, lvA int, types []*tinfo) {
	f := fb.add("VjointWalk", []int{n}, [3]int{lvR, lvA, 0}, types, false)
	f.stor[1] = "dsc"
	f = fb.add("VcjointWalk", []int{n}, [3]int{lvR, lvA, 0}, types, false)
	f.stor[0], f.stor[1] = "dsc", "dsc"
}

func (fb *famBuilder) mjoint(r, c, lvR, lvA int, types []*tinfo) {
	fb.add("MjointWalk", []int{r, c}, [3]int{lvR, lvA, 0}, types, false)
}

// ---- derivative-only elements ----------------------------------------------------------

// derivOnly: every operation over the derivative-only alphabet (level 8: value 0 with a
// gradient only / a diagonal Hessian only / an off-diagonal Hessian only / nothing but
// memory of order 2, next to 0|no entry, explicit zero and a non-zero variable), Real32 and
// Real64, every storage combination. The number of variables of a configuration is the
// number its letters introduce (1, 2 and more all occur). Smallest shapes: the alphabet in
// every slot at once; next shapes: in one slot at a time (first operand, second operand,
// receiver prior content) with levels 2/1 in the others. recvOnly (receiver lives): only the
// receiver's prior content.
func (fb *famBuilder) derivOnly(thorough, recvOnly bool) {
	ty := realTypes
	add := func(op string, d []int, lv [][3]int) {
		for _, l := range lv {
			fb.add(op, d, l, ty, true)
		}
	}
	// level triples for receiver, a, b; size = elements of the largest container
	trip := func(all bool) [][3]int {
		switch {
		case recvOnly:
			return [][3]int{{8, 1, 1}}
		case all:
			return [][3]int{{8, 8, 8}}
		}
		return [][3]int{{1, 8, 2}, {1, 2, 8}, {8, 1, 1}}
	}
	pair := func(all bool) [][3]int { // receiver and one operand
		switch {
		case recvOnly:
			return [][3]int{{8, 1, 0}}
		case all:
			return [][3]int{{8, 8, 0}}
		}
		return [][3]int{{1, 8, 0}, {8, 1, 0}}
	}
	prod := func() [][3]int { // products: both operands at once, the receiver separately
		if recvOnly {
			return [][3]int{{8, 1, 1}}
		}
		return [][3]int{{1, 8, 8}, {8, 1, 1}}
	}
	big := [][3]int{{0, 8, 1}, {0, 1, 8}, {8, 0, 0}} // 2x2 matrices (thorough)
	if recvOnly {
		big = [][3]int{{8, 0, 0}}
	}
	for n := 1; n <= 2; n++ {
		if recvOnly && n == 2 && !thorough {
			continue
		}
		d := []int{n}
		all := n == 1 || (thorough && !recvOnly)
		for _, op := range vecBin {
			add(op, d, trip(all))
		}
		for _, op := range vecScal {
			add(op, d, trip(all))
		}
		add("Vset", d, pair(all))
		add("Vequals", d, pair(all))
		add("Vreset", d, [][3]int{{8, 0, 0}})
		if !recvOnly {
			add("VdotV", d, [][3]int{{1, 8, 8}})
			add("VasDense", d, [][3]int{{0, 8, 0}})
			add("VasSparse", d, [][3]int{{0, 8, 0}})
		}
	}
	for n := 1; n <= 2; n++ {
		for m := 1; m <= 2; m++ {
			if n*m > 2 && !thorough {
				continue
			}
			if recvOnly && n*m > 1 && !thorough {
				continue
			}
			d := []int{n, m}
			for _, op := range []string{"MdotV", "VdotM", "Outer"} {
				add(op, d, prod())
			}
		}
	}
	for r := 1; r <= 2; r++ {
		for c := 1; c <= 2; c++ {
			if r*c > 2 && !thorough {
				continue
			}
			if recvOnly && r*c > 1 && !thorough {
				continue
			}
			d := []int{r, c}
			all := r*c == 1
			tr, pa := trip(all), pair(all)
			if r*c > 2 {
				tr = big
				pa = [][3]int{{0, 8, 0}, {8, 0, 0}}
				if recvOnly {
					pa = pa[1:]
				}
			}
			for _, op := range matBin {
				add(op, d, tr)
			}
			for _, op := range matScal {
				add(op, d, tr)
			}
			add("Mset", d, pa)
			add("Mequals", d, pa)
			add("Mreset", d, [][3]int{{8, 0, 0}})
			add("MsetIdentity", d, [][3]int{{8, 0, 0}})
			if !recvOnly {
				add("MasDense", d, [][3]int{{0, 8, 0}})
				add("MasSparse", d, [][3]int{{0, 8, 0}})
			}
		}
	}
	for n := 1; n <= 2; n++ {
		for k := 1; k <= 2; k++ {
			for m := 1; m <= 2; m++ {
				if n*k*m <= 2 || (thorough && n*k*m <= 4) {
					if recvOnly && n*k*m > 1 && !thorough {
						continue
					}
					add("MdotM", []int{n, k, m}, prod())
				}
			}
		}
	}
}

func subtract(all []*tinfo, minus []*tinfo) []*tinfo {
	r := []*tinfo{}
	for _, t := range all {
		in := false
		for _, u := range minus {
			in = in || u == t
		}
		if !in {
			r = append(r, t)
		}
	}
	return r
}

// families lists the whole bounded space of a tier.
func families(tier string) []*family {
	fb := &famBuilder{}
	thorough := tier == "thorough"
	L := func(a, b, c int) [3]int { return [3]int{a, b, c} }
	P := func(a, b int) [2]int { return [2]int{a, b} }
	others := subtract(allTypes, mainTypes)

	// ---- vectors ----
	for n := 0; n <= 2; n++ {
		fb.vectorFamilies(n, L(3, 3, 3), allTypes, false)
		fb.vectorFamilies(n, L(3, 3, 3), realTypes, true)
	}
	if thorough {
		fb.vectorFamilies(3, L(3, 3, 3), allTypes, false)
		fb.vectorFamilies(3, L(2, 3, 3), realTypes, true)
		fb.vectorFamilies(4, L(2, 3, 3), f64Only, false)
	} else {
		fb.vectorFamilies(3, L(1, 3, 3), mainTypes, false)
		fb.vectorFamilies(3, L(1, 2, 2), real64, true)
	}

	// ---- matrix·vector, vector·matrix, outer product ----
	for n := 0; n <= 2; n++ {
		for m := 0; m <= 2; m++ {
			switch {
			case n*m <= 2:
				fb.matVecFamilies(n, m, 3, 3, allTypes, false)
				fb.matVecFamilies(n, m, 3, 3, realTypes, true)
			case thorough:
				fb.matVecFamilies(n, m, 3, 3, allTypes, false)
				fb.matVecFamilies(n, m, 2, 2, realTypes, true)
			default:
				fb.matVecFamilies(n, m, 3, 2, allTypes, false)
				fb.matVecFamilies(n, m, 1, 2, realTypes, true)
			}
		}
	}
	if thorough {
		for _, d := range [][2]int{{0, 3}, {3, 0}, {1, 3}, {3, 1}, {2, 3}, {3, 2}} {
			fb.matVecFamilies(d[0], d[1], 2, 2, allTypes, false)
			fb.matVecFamilies(d[0], d[1], 1, 2, realTypes, true)
		}
		fb.matVecFamilies(3, 3, 1, 2, f64Only, false)
	}

	// ---- matrices ----
	for r := 0; r <= 2; r++ {
		for c := 0; c <= 2; c++ {
			switch {
			case r*c <= 2:
				fb.matrixFamilies(r, c, L(3, 3, 3), P(3, 3), allTypes, false)
				fb.matrixFamilies(r, c, L(3, 3, 3), P(3, 3), realTypes, true)
			case thorough:
				fb.matrixFamilies(r, c, L(1, 3, 3), P(3, 3), mainTypes, false)
				fb.matrixFamilies(r, c, L(1, 2, 3), P(3, 3), others, false)
				fb.matrixFamilies(r, c, L(1, 2, 2), P(2, 2), realTypes, true)
			default:
				fb.matrixFamilies(r, c, L(1, 2, 1), P(2, 3), mainTypes, false)
				fb.matrixFamilies(r, c, L(0, 2, 1), P(1, 3), others, false)
				fb.matrixFamilies(r, c, L(0, 2, 1), P(1, 2), realTypes, true)
			}
		}
	}
	if thorough {
		for _, d := range [][2]int{{0, 3}, {3, 0}, {1, 3}, {3, 1}} {
			fb.matrixFamilies(d[0], d[1], L(3, 3, 3), P(3, 3), allTypes, false)
			fb.matrixFamilies(d[0], d[1], L(2, 2, 2), P(2, 2), realTypes, true)
		}
		for _, d := range [][2]int{{2, 3}, {3, 2}} {
			fb.matrixFamilies(d[0], d[1], L(0, 2, 1), P(1, 2), allTypes, false)
			fb.matrixFamilies(d[0], d[1], L(0, 2, 0), P(1, 1), realTypes, true)
		}
		fb.matrixFamilies(3, 3, L(0, 1, 1), P(1, 1), f64Only, false)
	}

	// ---- matrix products, all shapes n×k · k×m ----
	for n := 0; n <= 2; n++ {
		for k := 0; k <= 2; k++ {
			for m := 0; m <= 2; m++ {
				switch {
				case n*k*m <= 2:
					fb.mdotm(n, k, m, L(3, 3, 3), allTypes, false)
					fb.mdotm(n, k, m, L(2, 2, 2), realTypes, true)
				case n*k*m <= 4 || thorough:
					fb.mdotm(n, k, m, L(2, 2, 2), allTypes, false)
					fb.mdotm(n, k, m, L(1, 2, 1), realTypes, true)
				default:
					fb.mdotm(n, k, m, L(1, 2, 1), mainTypes, false)
					fb.mdotm(n, k, m, L(0, 2, 1), others, false)
					fb.mdotm(n, k, m, L(0, 2, 1), realTypes, true)
				}
			}
		}
	}
	if thorough {
		for n := 0; n <= 3; n++ {
			for k := 0; k <= 3; k++ {
				for m := 0; m <= 3; m++ {
					if (n < 3 && k < 3 && m < 3) || n*k*m == 27 {
						continue
					}
					if n*k+k*m+n*m <= 12 {
						fb.mdotm(n, k, m, L(1, 2, 2), allTypes, false)
					} else {
						fb.mdotm(n, k, m, L(0, 1, 1), allTypes, false)
					}
				}
			}
		}
		fb.mdotm(3, 3, 3, L(0, 1, 1), f64Only, false)
	}
	// ---- derivative-only elements: interface methods, concrete methods, receiver lives ----
	fb.derivOnly(thorough, false)
	fb.conc = true
	fb.derivOnly(thorough, false)
	fb.conc = false
	fb.lifeLen = 1
	fb.derivOnly(thorough, true)
	fb.lifeLen = 0

	// ---- SparseConst*Vector operands ----
	floatReal := typeSet("Float64", "Real64", "Float32", "Real32")
	for n := 0; n <= 2; n++ {
		fb.constVectorFamilies(n, 1, 3, allTypes, true, false)
		fb.constVectorFamilies(n, 1, 3, realTypes, false, true)
	}
	if thorough {
		fb.constVectorFamilies(3, 1, 3, allTypes, false, false)
		fb.constVectorFamilies(3, 1, 2, realTypes, false, true)
		fb.constVectorFamilies(4, 1, 2, f64Only, false, false)
	} else {
		fb.constVectorFamilies(3, 1, 2, allTypes, false, false)
		fb.constVectorFamilies(3, 0, 2, real64, false, true)
	}
	for n := 0; n <= 2; n++ {
		for m := 0; m <= 2; m++ {
			lvM := 2
			if n*m <= 2 {
				lvM = 3
			}
			fb.constMatVecFamilies(n, m, 1, 3, lvM, allTypes, thorough || n*m <= 2, false)
			fb.constMatVecFamilies(n, m, 1, 2, 1, realTypes, false, true)
		}
	}
	if thorough {
		for _, d := range [][2]int{{1, 3}, {3, 1}, {2, 3}, {3, 2}, {3, 3}} {
			fb.constMatVecFamilies(d[0], d[1], 1, 2, 1, allTypes, false, false)
		}
	}

	// ---- operand histories ----
	if thorough {
		for n := 0; n <= 2; n++ {
			fb.vecHistFamilies(n, []int{1, 2}, 2, true, 3, 1, 1, allTypes, true)
		}
		fb.vecHistFamilies(3, []int{2}, 2, true, 3, 1, 0, mainTypes, false)
		fb.vecHistFamilies(3, []int{2}, 1, true, 3, 1, 0, others, false)
		fb.vecHistFamilies(4, []int{2}, 1, true, 2, 0, 0, f64Only, false)
		for _, d := range [][2]int{{1, 1}, {1, 2}, {2, 1}} {
			fb.matHistFamilies(d[0], d[1], 2, false, 3, 0, 0, allTypes)
		}
		fb.matHistFamilies(2, 2, 2, false, 3, 0, 0, mainTypes)
		fb.matHistFamilies(2, 3, 1, true, 2, 0, 0, mainTypes)
		fb.matHistFamilies(3, 2, 1, true, 2, 0, 0, mainTypes)
	} else {
		for n := 0; n <= 1; n++ {
			fb.vecHistFamilies(n, []int{1, 2}, 2, true, 3, 1, 1, allTypes, true)
		}
		fb.vecHistFamilies(2, []int{2}, 2, true, 3, 1, 0, mainTypes, false)
		fb.vecHistFamilies(2, []int{2}, 1, true, 3, 1, 0, others, false)
		fb.vecHistFamilies(2, []int{1}, 1, true, 3, 0, 0, mainTypes, true)
		fb.vecHistFamilies(3, []int{1}, 1, true, 2, 0, 0, mainTypes, false)
		for _, d := range [][2]int{{1, 1}, {1, 2}, {2, 1}} {
			fb.matHistFamilies(d[0], d[1], 2, false, 3, 0, 0, mainTypes)
		}
		fb.matHistFamilies(2, 2, 1, true, 2, 0, 0, mainTypes)
	}

	// ---- receiver lives: every operation with a container receiver ----
	fb.lifeLen = 1
	for n := 0; n <= 2; n++ {
		fb.vectorFamilies(n, L(3, 1, 1), allTypes, false)
		fb.vectorFamilies(n, L(2, 1, 1), realTypes, true)
	}
	if thorough {
		fb.vectorFamilies(3, L(2, 1, 1), allTypes, false)
		fb.vectorFamilies(3, L(2, 1, 1), realTypes, true)
	} else {
		fb.vectorFamilies(3, L(1, 0, 0), allTypes, false)
	}
	for n := 0; n <= 2; n++ {
		for m := 0; m <= 2; m++ {
			if thorough {
				fb.matVecFamilies(n, m, 2, 1, allTypes, false)
			} else {
				fb.matVecFamilies(n, m, 2, 0, allTypes, false)
			}
			fb.matVecFamilies(n, m, 2, 0, realTypes, true)
		}
	}
	for r := 0; r <= 2; r++ {
		for c := 0; c <= 2; c++ {
			switch {
			case r*c <= 2:
				fb.matrixFamilies(r, c, L(3, 1, 1), P(3, 1), allTypes, false)
				fb.matrixFamilies(r, c, L(2, 1, 1), P(2, 1), realTypes, true)
			case thorough:
				fb.matrixFamilies(r, c, L(2, 1, 1), P(2, 1), allTypes, false)
				fb.matrixFamilies(r, c, L(1, 0, 0), P(1, 0), realTypes, true)
			default:
				fb.matrixFamilies(r, c, L(1, 0, 0), P(1, 0), allTypes, false)
				fb.matrixFamilies(r, c, L(1, 0, 0), P(1, 0), realTypes, true)
			}
		}
	}
	for n := 0; n <= 2; n++ {
		for k := 0; k <= 2; k++ {
			for m := 0; m <= 2; m++ {
				if n*k*m <= 2 {
					fb.mdotm(n, k, m, L(2, 1, 1), allTypes, false)
				} else {
					fb.mdotm(n, k, m, L(1, 0, 0), allTypes, false)
				}
			}
		}
	}
	if thorough {
		for _, d := range [][2]int{{2, 3}, {3, 2}} {
			fb.matrixFamilies(d[0], d[1], L(1, 0, 0), P(1, 0), allTypes, false)
		}
	}
	fb.lifeLen = 2
	for n := 0; n <= 2; n++ {
		fb.vectorFamilies(n, L(1, 0, 0), allTypes, false)
	}
	for r := 0; r <= 2; r++ {
		for c := 0; c <= 2; c++ {
			if r*c <= 2 || thorough {
				fb.matrixFamilies(r, c, L(1, 0, 0), P(1, 0), allTypes, false)
			}
		}
	}
	if thorough {
		fb.vectorFamilies(3, L(1, 0, 0), allTypes, false)
		for n := 1; n <= 2; n++ {
			for m := 1; m <= 2; m++ {
				fb.matVecFamilies(n, m, 1, 0, allTypes, false)
			}
		}
	}
	fb.lifeLen = 0

	// ---- concrete entry points (one storage class for all containers) ----
	fb.conc = true
	for n := 0; n <= 2; n++ {
		fb.vectorFamilies(n, L(3, 3, 3), allTypes, false)
		fb.vectorFamilies(n, L(3, 3, 3), realTypes, true)
	}
	if thorough {
		fb.vectorFamilies(3, L(3, 3, 3), allTypes, false)
		fb.vectorFamilies(3, L(2, 3, 3), realTypes, true)
	} else {
		fb.vectorFamilies(3, L(1, 2, 2), allTypes, false)
		fb.vectorFamilies(3, L(1, 2, 2), realTypes, true)
	}
	for n := 0; n <= 2; n++ {
		for m := 0; m <= 2; m++ {
			if n*m <= 2 || thorough {
				fb.matVecFamilies(n, m, 3, 3, allTypes, false)
				fb.matVecFamilies(n, m, 2, 2, realTypes, true)
			} else {
				fb.matVecFamilies(n, m, 3, 2, allTypes, false)
				fb.matVecFamilies(n, m, 1, 2, realTypes, true)
			}
		}
	}
	for r := 0; r <= 2; r++ {
		for c := 0; c <= 2; c++ {
			if r*c <= 2 || thorough {
				fb.matrixFamilies(r, c, L(3, 3, 3), P(3, 3), allTypes, false)
				fb.matrixFamilies(r, c, L(2, 2, 2), P(2, 2), realTypes, true)
			} else {
				fb.matrixFamilies(r, c, L(1, 2, 1), P(2, 3), allTypes, false)
				fb.matrixFamilies(r, c, L(0, 2, 1), P(1, 2), realTypes, true)
			}
		}
	}
	for n := 0; n <= 2; n++ {
		for k := 0; k <= 2; k++ {
			for m := 0; m <= 2; m++ {
				if n*k*m <= 2 {
					fb.mdotm(n, k, m, L(3, 3, 3), allTypes, false)
					fb.mdotm(n, k, m, L(2, 2, 2), realTypes, true)
				} else {
					fb.mdotm(n, k, m, L(1, 2, 1), allTypes, false)
					fb.mdotm(n, k, m, L(0, 2, 1), realTypes, true)
				}
			}
		}
	}
	fb.conc = false

	// ---- joint-iterator traversals with clone look-ahead ----
	for n := 0; n <= 2; n++ {
		fb.vjoint(n, 3, 3, allTypes)
	}
	if thorough {
		fb.vjoint(3, 3, 3, allTypes)
		fb.vjoint(4, 1, 2, mainTypes)
	} else {
		fb.vjoint(3, 1, 2, allTypes)
	}
	for r := 0; r <= 2; r++ {
		for c := 0; c <= 2; c++ {
			switch {
			case r*c <= 2:
				fb.mjoint(r, c, 3, 3, allTypes)
			case thorough:
				fb.mjoint(r, c, 2, 2, allTypes)
			default:
				fb.mjoint(r, c, 1, 1, allTypes)
			}
		}
	}
	if thorough {
		for _, d := range [][2]int{{1, 3}, {3, 1}, {2, 3}, {3, 2}} {
			fb.mjoint(d[0], d[1], 1, 1, allTypes)
		}
	}

	// ---- Equals: tiny differences, several epsilons, infinities and NaN ----
	for n := 0; n <= 2; n++ {
		fb.vequalsE(n, 5, allTypes)
		fb.vequalsE(n, 6, floatReal)
	}
	if thorough {
		fb.vequalsE(3, 4, allTypes)
		fb.vequalsE(3, 6, floatReal)
	} else {
		fb.vequalsE(3, 4, floatReal)
	}
	for r := 0; r <= 2; r++ {
		for c := 0; c <= 2; c++ {
			switch {
			case r*c <= 2:
				fb.mequalsE(r, c, 5, allTypes)
				fb.mequalsE(r, c, 6, floatReal)
			case thorough:
				fb.mequalsE(r, c, 4, allTypes)
			default:
				fb.mequalsE(r, c, 7, floatReal)
			}
		}
	}
	return fb.fams
}
