// Enumeration: families (operation × shape × alphabet level × type set) and the
// exhaustive product of storage combinations and element patterns inside each family.
package main

import (
	"fmt"
)

type slot struct {
	kind byte // 'v' vector, 'm' matrix, 's' scalar, 'l' index/value list, 'o' list order, 0 none
	r, c int  // vector: r = n
}

func (s slot) size() int {
	switch s.kind {
	case 'v', 'l', 'L':
		return s.r
	case 'm':
		return s.r * s.c
	case 's':
		return 1
	}
	return 0
}

type family struct {
	op     string
	dims   []int
	slots  [3]slot // receiver, a, b
	levels [3]int
	types  []*tinfo
	varM   bool
}

// Alphabet levels (per element position p; x(p) = 1 for even p, -2 for odd p):
//
//	0: only the two patterns all-zero / all-x
//	1: dense {0,x}     sparse {_,x}
//	2: dense {0,x}     sparse {_,e,x}      (+z in variable mode)
//	3: dense {0,1,m}   sparse {_,e,1,m}    (+z in variable mode)
func alphabet(stor byte, level int, varM bool, p int) string {
	x := "1"
	if p%2 == 1 {
		x = "m"
	}
	var a string
	switch {
	case stor == 'd' && level <= 2:
		a = "0" + x
	case stor == 'd':
		a = "01m"
	case level <= 1:
		a = "_" + x
	case level == 2:
		a = "_e" + x
	default:
		a = "_e1m"
	}
	if varM && level >= 2 {
		a += "z"
	}
	return a
}

var patCache = map[string][]string{}

func patterns(s slot, stor byte, level int, varM bool) []string {
	switch s.kind {
	case 0:
		return []string{""}
	case 's':
		if level <= 1 {
			return []string{"0", "1"}
		}
		if varM {
			return []string{"0", "1", "m", "z"}
		}
		return []string{"0", "1", "m"}
	case 'o':
		return []string{"asc", "desc"}
	case 'l', 'L':
		stor = s.kind
	}
	n := s.size()
	key := fmt.Sprintf("%c%d/%d/%v/%c", s.kind, n, level, varM, stor)
	if r, ok := patCache[key]; ok {
		return r
	}
	var res []string
	if level == 0 {
		z, f := make([]byte, n), make([]byte, n)
		for p := 0; p < n; p++ {
			z[p] = alphabet(stor, 1, false, p)[0]
			f[p] = alphabet(stor, 1, false, p)[1]
		}
		res = []string{string(z)}
		if n > 0 {
			res = append(res, string(f))
		}
	} else {
		alph := make([]string, n)
		for p := 0; p < n; p++ {
			if stor == 'l' {
				alph[p] = "_01m"
			} else if stor == 'L' {
				alph[p] = "01m"
			} else {
				alph[p] = alphabet(stor, level, varM, p)
			}
		}
		cur := make([]byte, n)
		var rec func(p int)
		rec = func(p int) {
			if p == n {
				res = append(res, string(cur))
				return
			}
			for i := 0; i < len(alph[p]); i++ {
				cur[p] = alph[p][i]
				rec(p + 1)
			}
		}
		rec(0)
	}
	patCache[key] = res
	return res
}

// storage combinations of a family, all-dense first
func storages(f *family) []string {
	res := []string{""}
	for _, s := range f.slots {
		var opts string
		if s.kind == 'v' || s.kind == 'm' {
			opts = "ds"
		} else {
			opts = "-"
		}
		var nx []string
		for _, pre := range res {
			for i := 0; i < len(opts); i++ {
				nx = append(nx, pre+string(opts[i]))
			}
		}
		res = nx
	}
	return res
}

func vecSlot(n int) slot    { return slot{'v', n, 0} }
func matSlot(r, c int) slot { return slot{'m', r, c} }

var scalarSlot = slot{kind: 's'}

type famBuilder struct {
	fams []*family
}

func (fb *famBuilder) add(op string, dims []int, levels [3]int, types []*tinfo, varM bool) {
	fb.fams = append(fb.fams, &family{op: op, dims: dims, slots: opSlots(op, dims), levels: levels, types: types, varM: varM})
}

// opSlots gives the shape of receiver, a and b of an operation.
func opSlots(op string, d []int) [3]slot {
	none := slot{}
	switch op {
	case "VaddV", "VsubV", "VmulV", "VdivV":
		return [3]slot{vecSlot(d[0]), vecSlot(d[0]), vecSlot(d[0])}
	case "VaddS", "VsubS", "VmulS", "VdivS":
		return [3]slot{vecSlot(d[0]), vecSlot(d[0]), scalarSlot}
	case "VdotV":
		return [3]slot{scalarSlot, vecSlot(d[0]), vecSlot(d[0])}
	case "Vset", "Vequals":
		return [3]slot{vecSlot(d[0]), vecSlot(d[0]), none}
	case "Vreset":
		return [3]slot{vecSlot(d[0]), none, none}
	case "VasDense", "VasSparse":
		return [3]slot{none, vecSlot(d[0]), none}
	case "VnewSparse":
		return [3]slot{none, {kind: 'l', r: d[0]}, {kind: 'o'}}
	case "VnewDense":
		return [3]slot{none, {kind: 'L', r: d[0]}, none}
	case "MdotV":
		return [3]slot{vecSlot(d[0]), matSlot(d[0], d[1]), vecSlot(d[1])}
	case "VdotM":
		return [3]slot{vecSlot(d[1]), vecSlot(d[0]), matSlot(d[0], d[1])}
	case "Outer":
		return [3]slot{matSlot(d[0], d[1]), vecSlot(d[0]), vecSlot(d[1])}
	case "MaddM", "MsubM", "MmulM", "MdivM":
		return [3]slot{matSlot(d[0], d[1]), matSlot(d[0], d[1]), matSlot(d[0], d[1])}
	case "MaddS", "MsubS", "MmulS", "MdivS":
		return [3]slot{matSlot(d[0], d[1]), matSlot(d[0], d[1]), scalarSlot}
	case "Mset", "Mequals":
		return [3]slot{matSlot(d[0], d[1]), matSlot(d[0], d[1]), none}
	case "Mreset", "MsetIdentity":
		return [3]slot{matSlot(d[0], d[1]), none, none}
	case "MasDense", "MasSparse":
		return [3]slot{none, matSlot(d[0], d[1]), none}
	case "MnewSparse":
		return [3]slot{none, {kind: 'l', r: d[0] * d[1]}, {kind: 'o'}}
	case "MnewDense":
		return [3]slot{none, {kind: 'L', r: d[0] * d[1]}, none}
	case "MdotM":
		return [3]slot{matSlot(d[0], d[2]), matSlot(d[0], d[1]), matSlot(d[1], d[2])}
	}
	panic("harness: unknown op " + op)
}

var vecBin = []string{"VaddV", "VsubV", "VmulV", "VdivV"}
var vecScal = []string{"VaddS", "VsubS", "VmulS", "VdivS"}
var matBin = []string{"MaddM", "MsubM", "MmulM", "MdivM"}
var matScal = []string{"MaddS", "MsubS", "MmulS", "MdivS"}

// vectorFamilies adds every vector operation at dimension n.
func (fb *famBuilder) vectorFamilies(n int, lv [3]int, types []*tinfo, varM bool) {
	for _, op := range vecBin {
		fb.add(op, []int{n}, lv, types, varM)
	}
	for _, op := range vecScal {
		fb.add(op, []int{n}, [3]int{lv[0], lv[1], 3}, types, varM)
	}
	fb.add("VdotV", []int{n}, [3]int{1, lv[1], lv[2]}, types, varM)
	fb.add("Vset", []int{n}, lv, types, varM)
	fb.add("Vequals", []int{n}, lv, types, varM)
	fb.add("Vreset", []int{n}, lv, types, varM)
	fb.add("VasDense", []int{n}, lv, types, varM)
	fb.add("VasSparse", []int{n}, lv, types, varM)
	if !varM {
		fb.add("VnewSparse", []int{n}, [3]int{3, 3, 3}, types, false)
		fb.add("VnewDense", []int{n}, [3]int{3, 3, 3}, types, false)
	}
}

// matVecFamilies: MdotV / VdotM / Outer with an n×m matrix.
func (fb *famBuilder) matVecFamilies(n, m int, lvVec, lvMat int, types []*tinfo, varM bool) {
	fb.add("MdotV", []int{n, m}, [3]int{lvVec, lvMat, lvVec}, types, varM)
	fb.add("VdotM", []int{n, m}, [3]int{lvVec, lvVec, lvMat}, types, varM)
	fb.add("Outer", []int{n, m}, [3]int{lvMat, lvVec, lvVec}, types, varM)
}

// matrixFamilies adds every matrix operation on r×c matrices. lv: levels of the
// element-wise binary operations; ra: levels (receiver, operand) of everything else.
func (fb *famBuilder) matrixFamilies(r, c int, lv [3]int, ra [2]int, types []*tinfo, varM bool) {
	for _, op := range matBin {
		fb.add(op, []int{r, c}, lv, types, varM)
	}
	for _, op := range matScal {
		fb.add(op, []int{r, c}, [3]int{ra[0], ra[1], 3}, types, varM)
	}
	one := max(ra[0], ra[1])
	fb.add("Mset", []int{r, c}, [3]int{ra[0], ra[1], 0}, types, varM)
	fb.add("Mequals", []int{r, c}, [3]int{ra[0], ra[1], 0}, types, varM)
	fb.add("Mreset", []int{r, c}, [3]int{one, 0, 0}, types, varM)
	fb.add("MsetIdentity", []int{r, c}, [3]int{one, 0, 0}, types, varM)
	fb.add("MasDense", []int{r, c}, [3]int{0, one, 0}, types, varM)
	fb.add("MasSparse", []int{r, c}, [3]int{0, one, 0}, types, varM)
	if !varM {
		if r*c <= 6 {
			fb.add("MnewSparse", []int{r, c}, [3]int{3, 3, 3}, types, false)
		}
		if r*c <= 4 {
			fb.add("MnewDense", []int{r, c}, [3]int{3, 3, 3}, types, false)
		}
	}
}

func (fb *famBuilder) mdotm(n, k, m int, lv [3]int, types []*tinfo, varM bool) {
	fb.add("MdotM", []int{n, k, m}, lv, types, varM)
}

func subtract(all []*tinfo, minus []*tinfo) []*tinfo {
	r := []*tinfo{}
	for _, t := range all {
		in := false
		for _, u := range minus {
			in = in || u == t
		}
		if !in {
			r = append(r, t)
		}
	}
	return r
}

// families lists the whole bounded space of a tier.
func families(tier string) []*family {
	fb := &famBuilder{}
	thorough := tier == "thorough"
	L := func(a, b, c int) [3]int { return [3]int{a, b, c} }
	P := func(a, b int) [2]int { return [2]int{a, b} }
	others := subtract(allTypes, mainTypes)

	// ---- vectors ----
	for n := 0; n <= 2; n++ {
		fb.vectorFamilies(n, L(3, 3, 3), allTypes, false)
		fb.vectorFamilies(n, L(3, 3, 3), realTypes, true)
	}
	if thorough {
		fb.vectorFamilies(3, L(3, 3, 3), allTypes, false)
		fb.vectorFamilies(3, L(2, 3, 3), realTypes, true)
		fb.vectorFamilies(4, L(2, 3, 3), f64Only, false)
	} else {
		fb.vectorFamilies(3, L(1, 3, 3), mainTypes, false)
		fb.vectorFamilies(3, L(1, 2, 2), real64, true)
	}

	// ---- matrix·vector, vector·matrix, outer product ----
	for n := 0; n <= 2; n++ {
		for m := 0; m <= 2; m++ {
			switch {
			case n*m <= 2:
				fb.matVecFamilies(n, m, 3, 3, allTypes, false)
				fb.matVecFamilies(n, m, 3, 3, realTypes, true)
			case thorough:
				fb.matVecFamilies(n, m, 3, 3, allTypes, false)
				fb.matVecFamilies(n, m, 2, 2, realTypes, true)
			default:
				fb.matVecFamilies(n, m, 3, 2, allTypes, false)
				fb.matVecFamilies(n, m, 1, 2, realTypes, true)
			}
		}
	}
	if thorough {
		for _, d := range [][2]int{{0, 3}, {3, 0}, {1, 3}, {3, 1}, {2, 3}, {3, 2}} {
			fb.matVecFamilies(d[0], d[1], 2, 2, allTypes, false)
			fb.matVecFamilies(d[0], d[1], 1, 2, realTypes, true)
		}
		fb.matVecFamilies(3, 3, 1, 2, f64Only, false)
	}

	// ---- matrices ----
	for r := 0; r <= 2; r++ {
		for c := 0; c <= 2; c++ {
			switch {
			case r*c <= 2:
				fb.matrixFamilies(r, c, L(3, 3, 3), P(3, 3), allTypes, false)
				fb.matrixFamilies(r, c, L(3, 3, 3), P(3, 3), realTypes, true)
			case thorough:
				fb.matrixFamilies(r, c, L(1, 3, 3), P(3, 3), mainTypes, false)
				fb.matrixFamilies(r, c, L(1, 2, 3), P(3, 3), others, false)
				fb.matrixFamilies(r, c, L(1, 2, 2), P(2, 2), realTypes, true)
			default:
				fb.matrixFamilies(r, c, L(1, 2, 1), P(2, 3), mainTypes, false)
				fb.matrixFamilies(r, c, L(0, 2, 1), P(1, 3), others, false)
				fb.matrixFamilies(r, c, L(0, 2, 1), P(1, 2), realTypes, true)
			}
		}
	}
	if thorough {
		for _, d := range [][2]int{{0, 3}, {3, 0}, {1, 3}, {3, 1}} {
			fb.matrixFamilies(d[0], d[1], L(3, 3, 3), P(3, 3), allTypes, false)
			fb.matrixFamilies(d[0], d[1], L(2, 2, 2), P(2, 2), realTypes, true)
		}
		for _, d := range [][2]int{{2, 3}, {3, 2}} {
			fb.matrixFamilies(d[0], d[1], L(0, 2, 1), P(1, 2), allTypes, false)
			fb.matrixFamilies(d[0], d[1], L(0, 2, 0), P(1, 1), realTypes, true)
		}
		fb.matrixFamilies(3, 3, L(0, 1, 1), P(1, 1), f64Only, false)
	}

	// ---- matrix products, all shapes n×k · k×m ----
	for n := 0; n <= 2; n++ {
		for k := 0; k <= 2; k++ {
			for m := 0; m <= 2; m++ {
				switch {
				case n*k*m <= 2:
					fb.mdotm(n, k, m, L(3, 3, 3), allTypes, false)
					fb.mdotm(n, k, m, L(2, 2, 2), realTypes, true)
				case n*k*m <= 4 || thorough:
					fb.mdotm(n, k, m, L(2, 2, 2), allTypes, false)
					fb.mdotm(n, k, m, L(1, 2, 1), realTypes, true)
				default:
					fb.mdotm(n, k, m, L(1, 2, 1), mainTypes, false)
					fb.mdotm(n, k, m, L(0, 2, 1), others, false)
					fb.mdotm(n, k, m, L(0, 2, 1), realTypes, true)
				}
			}
		}
	}
	if thorough {
		for n := 0; n <= 3; n++ {
			for k := 0; k <= 3; k++ {
				for m := 0; m <= 3; m++ {
					if (n < 3 && k < 3 && m < 3) || n*k*m == 27 {
						continue
					}
					if n*k+k*m+n*m <= 12 {
						fb.mdotm(n, k, m, L(1, 2, 2), allTypes, false)
					} else {
						fb.mdotm(n, k, m, L(0, 1, 1), allTypes, false)
					}
				}
			}
		}
		fb.mdotm(3, 3, 3, L(0, 1, 1), f64Only, false)
	}
	return fb.fams
}
