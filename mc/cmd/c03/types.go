// Per-element-type table: every one of the 9 instantiations of the dense and sparse
// vector/matrix templates is reached through its own typed constructors (a change in a
// single generated file, e.g. vector_sparse_int16_math.go, is therefore exercised).
package main

import (
	ad "github.com/pbenner/autodiff"
)

type number interface {
	~int8 | ~int16 | ~int32 | ~int64 | ~int | ~float32 | ~float64
}

func conv[T number](xs []float64) []T {
	r := make([]T, len(xs))
	for i, x := range xs {
		r[i] = T(x)
	}
	return r
}

type tinfo struct {
	name  string
	t     ad.ScalarType
	class string // int | float | real
	// typed constructors from value lists
	newDenseVec  func(vals []float64) ad.Vector
	newSparseVec func(idx []int, vals []float64, n int) ad.Vector
	newDenseMat  func(vals []float64, r, c int) ad.Matrix
	newSparseMat func(ri, ci []int, vals []float64, r, c int) ad.Matrix
}

var types = []*tinfo{
	{"Float64", ad.Float64Type, "float",
		func(v []float64) ad.Vector { return ad.NewDenseFloat64Vector(conv[float64](v)) },
		func(i []int, v []float64, n int) ad.Vector { return ad.NewSparseFloat64Vector(i, conv[float64](v), n) },
		func(v []float64, r, c int) ad.Matrix { return ad.NewDenseFloat64Matrix(conv[float64](v), r, c) },
		func(ri, ci []int, v []float64, r, c int) ad.Matrix {
			return ad.NewSparseFloat64Matrix(ri, ci, conv[float64](v), r, c)
		}},
	{"Real64", ad.Real64Type, "real",
		func(v []float64) ad.Vector { return ad.NewDenseReal64Vector(conv[float64](v)) },
		func(i []int, v []float64, n int) ad.Vector { return ad.NewSparseReal64Vector(i, conv[float64](v), n) },
		func(v []float64, r, c int) ad.Matrix { return ad.NewDenseReal64Matrix(conv[float64](v), r, c) },
		func(ri, ci []int, v []float64, r, c int) ad.Matrix {
			return ad.NewSparseReal64Matrix(ri, ci, conv[float64](v), r, c)
		}},
	{"Int", ad.IntType, "int",
		func(v []float64) ad.Vector { return ad.NewDenseIntVector(conv[int](v)) },
		func(i []int, v []float64, n int) ad.Vector { return ad.NewSparseIntVector(i, conv[int](v), n) },
		func(v []float64, r, c int) ad.Matrix { return ad.NewDenseIntMatrix(conv[int](v), r, c) },
		func(ri, ci []int, v []float64, r, c int) ad.Matrix {
			return ad.NewSparseIntMatrix(ri, ci, conv[int](v), r, c)
		}},
	{"Float32", ad.Float32Type, "float",
		func(v []float64) ad.Vector { return ad.NewDenseFloat32Vector(conv[float32](v)) },
		func(i []int, v []float64, n int) ad.Vector { return ad.NewSparseFloat32Vector(i, conv[float32](v), n) },
		func(v []float64, r, c int) ad.Matrix { return ad.NewDenseFloat32Matrix(conv[float32](v), r, c) },
		func(ri, ci []int, v []float64, r, c int) ad.Matrix {
			return ad.NewSparseFloat32Matrix(ri, ci, conv[float32](v), r, c)
		}},
	{"Real32", ad.Real32Type, "real",
		func(v []float64) ad.Vector { return ad.NewDenseReal32Vector(conv[float32](v)) },
		func(i []int, v []float64, n int) ad.Vector { return ad.NewSparseReal32Vector(i, conv[float32](v), n) },
		func(v []float64, r, c int) ad.Matrix { return ad.NewDenseReal32Matrix(conv[float32](v), r, c) },
		func(ri, ci []int, v []float64, r, c int) ad.Matrix {
			return ad.NewSparseReal32Matrix(ri, ci, conv[float32](v), r, c)
		}},
	{"Int8", ad.Int8Type, "int",
		func(v []float64) ad.Vector { return ad.NewDenseInt8Vector(conv[int8](v)) },
		func(i []int, v []float64, n int) ad.Vector { return ad.NewSparseInt8Vector(i, conv[int8](v), n) },
		func(v []float64, r, c int) ad.Matrix { return ad.NewDenseInt8Matrix(conv[int8](v), r, c) },
		func(ri, ci []int, v []float64, r, c int) ad.Matrix {
			return ad.NewSparseInt8Matrix(ri, ci, conv[int8](v), r, c)
		}},
	{"Int16", ad.Int16Type, "int",
		func(v []float64) ad.Vector { return ad.NewDenseInt16Vector(conv[int16](v)) },
		func(i []int, v []float64, n int) ad.Vector { return ad.NewSparseInt16Vector(i, conv[int16](v), n) },
		func(v []float64, r, c int) ad.Matrix { return ad.NewDenseInt16Matrix(conv[int16](v), r, c) },
		func(ri, ci []int, v []float64, r, c int) ad.Matrix {
			return ad.NewSparseInt16Matrix(ri, ci, conv[int16](v), r, c)
		}},
	{"Int32", ad.Int32Type, "int",
		func(v []float64) ad.Vector { return ad.NewDenseInt32Vector(conv[int32](v)) },
		func(i []int, v []float64, n int) ad.Vector { return ad.NewSparseInt32Vector(i, conv[int32](v), n) },
		func(v []float64, r, c int) ad.Matrix { return ad.NewDenseInt32Matrix(conv[int32](v), r, c) },
		func(ri, ci []int, v []float64, r, c int) ad.Matrix {
			return ad.NewSparseInt32Matrix(ri, ci, conv[int32](v), r, c)
		}},
	{"Int64", ad.Int64Type, "int",
		func(v []float64) ad.Vector { return ad.NewDenseInt64Vector(conv[int64](v)) },
		func(i []int, v []float64, n int) ad.Vector { return ad.NewSparseInt64Vector(i, conv[int64](v), n) },
		func(v []float64, r, c int) ad.Matrix { return ad.NewDenseInt64Matrix(conv[int64](v), r, c) },
		func(ri, ci []int, v []float64, r, c int) ad.Matrix {
			return ad.NewSparseInt64Matrix(ri, ci, conv[int64](v), r, c)
		}},
}

func typeByName(n string) *tinfo {
	for _, t := range types {
		if t.name == n {
			return t
		}
	}
	return nil
}

// type sets used by the tiers
func typeSet(names ...string) []*tinfo {
	r := []*tinfo{}
	for _, n := range names {
		r = append(r, typeByName(n))
	}
	return r
}

var (
	allTypes  = types
	mainTypes = typeSet("Float64", "Real64", "Int")
	f64Only   = typeSet("Float64")
	realTypes = typeSet("Real64", "Real32")
	real64    = typeSet("Real64")
)

// ---- SparseConst*Vector operand storage class ('c') --------------------------------
//
// The read-only sparse vectors exist for 7 element types. A 'c' operand is built with
// NewSparseConst<T>Vector (or, when the pattern holds an explicitly stored zero, with
// UnsafeSparseConst<T>Vector, which keeps the lists as given).

type cinfo struct {
	name  string
	class string // int | float
	mk    func(idx []int, vals []float64, n int, unsafe bool) ad.ConstVector
	as    func(v ad.ConstVector) ad.ConstVector
}

func cmk[T number, V ad.ConstVector](nw, us func([]int, []T, int) V) func([]int, []float64, int, bool) ad.ConstVector {
	return func(idx []int, vals []float64, n int, unsafe bool) ad.ConstVector {
		if unsafe {
			return us(idx, conv[T](vals), n)
		}
		return nw(idx, conv[T](vals), n)
	}
}

func cas[V ad.ConstVector](f func(ad.ConstVector) V) func(ad.ConstVector) ad.ConstVector {
	return func(v ad.ConstVector) ad.ConstVector { return f(v) }
}

var ctypes = []*cinfo{
	{"Float64", "float", cmk(ad.NewSparseConstFloat64Vector, ad.UnsafeSparseConstFloat64Vector), cas(ad.AsSparseConstFloat64Vector)},
	{"Int", "int", cmk(ad.NewSparseConstIntVector, ad.UnsafeSparseConstIntVector), cas(ad.AsSparseConstIntVector)},
	{"Float32", "float", cmk(ad.NewSparseConstFloat32Vector, ad.UnsafeSparseConstFloat32Vector), cas(ad.AsSparseConstFloat32Vector)},
	{"Int8", "int", cmk(ad.NewSparseConstInt8Vector, ad.UnsafeSparseConstInt8Vector), cas(ad.AsSparseConstInt8Vector)},
	{"Int16", "int", cmk(ad.NewSparseConstInt16Vector, ad.UnsafeSparseConstInt16Vector), cas(ad.AsSparseConstInt16Vector)},
	{"Int32", "int", cmk(ad.NewSparseConstInt32Vector, ad.UnsafeSparseConstInt32Vector), cas(ad.AsSparseConstInt32Vector)},
	{"Int64", "int", cmk(ad.NewSparseConstInt64Vector, ad.UnsafeSparseConstInt64Vector), cas(ad.AsSparseConstInt64Vector)},
}

func ctypeByName(n string) *cinfo {
	for _, t := range ctypes {
		if t.name == n {
			return t
		}
	}
	return nil
}

// pairedConst: the read-only element type of the same precision as t.
func pairedConst(t *tinfo) *cinfo {
	switch t.name {
	case "Real64":
		return ctypeByName("Float64")
	case "Real32":
		return ctypeByName("Float32")
	}
	return ctypeByName(t.name)
}

// roundTo maps a model value to what an element of the named type holds after
// SetFloat64 (identity for the {0,1,-2} alphabet; matters for the tiny values of the
// Equals alphabets).
func roundTo(name string, x float64) float64 {
	switch name {
	case "Float64", "Real64":
		return x
	case "Float32", "Real32":
		return float64(float32(x))
	}
	if x != x || x > 1e18 || x < -1e18 {
		return x // not used with integer types
	}
	return float64(int64(x))
}
