// Joint-iterator traversals through the public API.
//
// The two-way joint iterator of a receiver r and an operand a merges the two index
// streams. Whatever the storage of r and a, the merged stream must
//
//   - move through the index space in strictly increasing order (matrices: row major),
//   - stop at every position where r or a holds a non-zero element,
//   - yield at a position the receiver's element (nil allowed where it is zero) and the
//     operand's element (nil or a zero constant where it is zero).
//
// Operations: VjointWalk (Vector.JointIterator, elements read with Get), VcjointWalk
// (ConstVector.ConstJointIterator, GetConst; SparseConst receivers as well), MjointWalk
// (Matrix.JointIterator). The walk follows a program (slot b):
//
//   - plain traversal to the end
//     J<k>.<j>   after k steps the iterator is cloned with CloneJointIterator, the clone is
//     advanced j steps (look-ahead, every visited element checked), then the
//     original continues to the end
//     C<k>.<j>   the same with CloneConstJointIterator
//
// for every k, j in range: a clone must be an independent cursor, the original's
// remaining stream is judged by the same three rules.
package main

import (
	"fmt"
	"strconv"
	"strings"

	ad "github.com/pbenner/autodiff"
)

func walkPrograms(size int) []string {
	res := []string{"-"}
	for _, c := range []string{"J", "C"} {
		for k := 0; k <= size; k++ {
			for j := 1; j <= size; j++ {
				res = append(res, fmt.Sprintf("%s%d.%d", c, k, j))
			}
		}
	}
	return res
}

func parseWalk(p string) (clone byte, k, j int, err error) {
	if p == "-" {
		return 0, 0, 0, nil
	}
	if len(p) < 4 || (p[0] != 'J' && p[0] != 'C') {
		return 0, 0, 0, fmt.Errorf("bad walk program %q", p)
	}
	f := strings.Split(p[1:], ".")
	if len(f) != 2 {
		return 0, 0, 0, fmt.Errorf("bad walk program %q", p)
	}
	if k, err = strconv.Atoi(f[0]); err != nil {
		return
	}
	j, err = strconv.Atoi(f[1])
	return p[0], k, j, err
}

func isWalk(op string) bool { return op == "VjointWalk" || op == "VcjointWalk" || op == "MjointWalk" }

// cursor: a joint iterator of either shape behind one face; positions are linear (row
// major) indices.
type cursor struct {
	ok    func() bool
	next  func()
	get   func() (int, ad.ConstScalar, ad.ConstScalar)
	clone func(kind byte) *cursor // nil result: this kind of clone is not offered
}

func vecCursorC(it ad.VectorConstJointIterator, dim int) *cursor {
	return &cursor{ok: it.Ok, next: it.Next,
		get: func() (int, ad.ConstScalar, ad.ConstScalar) {
			s1, s2 := it.GetConst()
			return it.Index(), s1, s2
		},
		clone: func(kind byte) *cursor {
			if kind == 'C' {
				return vecCursorC(it.CloneConstJointIterator(), dim)
			}
			if x, ok := it.(ad.VectorJointIterator); ok {
				return vecCursor(x.CloneJointIterator(), dim)
			}
			return nil
		}}
}

func vecCursor(it ad.VectorJointIterator, dim int) *cursor {
	return &cursor{ok: it.Ok, next: it.Next,
		get: func() (int, ad.ConstScalar, ad.ConstScalar) {
			s1, s2 := it.Get()
			if s1 == nil {
				return it.Index(), nil, s2
			}
			return it.Index(), s1, s2
		},
		clone: func(kind byte) *cursor {
			if kind == 'J' {
				return vecCursor(it.CloneJointIterator(), dim)
			}
			if x, ok := it.(ad.VectorConstJointIterator); ok {
				return vecCursorC(x.CloneConstJointIterator(), dim)
			}
			return nil
		}}
}

func matCursorC(it ad.MatrixConstJointIterator, cols int) *cursor {
	return &cursor{ok: it.Ok, next: it.Next,
		get: func() (int, ad.ConstScalar, ad.ConstScalar) {
			s1, s2 := it.GetConst()
			i, j := it.Index()
			if i < 0 || j < 0 || j >= cols {
				return -1, s1, s2
			}
			return i*cols + j, s1, s2
		},
		clone: func(kind byte) *cursor {
			if kind == 'C' {
				return matCursorC(it.CloneConstJointIterator(), cols)
			}
			if x, ok := it.(ad.MatrixJointIterator); ok {
				return matCursor(x.CloneJointIterator(), cols)
			}
			return nil
		}}
}

func matCursor(it ad.MatrixJointIterator, cols int) *cursor {
	return &cursor{ok: it.Ok, next: it.Next,
		get: func() (int, ad.ConstScalar, ad.ConstScalar) {
			s1, s2 := it.Get()
			i, j := it.Index()
			p := i*cols + j
			if i < 0 || j < 0 || j >= cols {
				p = -1
			}
			if s1 == nil {
				return p, nil, s2
			}
			return p, s1, s2
		},
		clone: func(kind byte) *cursor {
			if kind == 'J' {
				return matCursor(it.CloneJointIterator(), cols)
			}
			if x, ok := it.(ad.MatrixConstJointIterator); ok {
				return matCursorC(x.CloneConstJointIterator(), cols)
			}
			return nil
		}}
}

// walker checks one stream against the contents R and A (values per linear index).
type walker struct {
	R, A []float64
	last int // last visited position of this stream
	kind string
	msg  string
}

func (w *walker) fail(kind, msg string) bool {
	if w.msg == "" {
		w.kind, w.msg = kind, msg
	}
	return false
}

// visit checks the cursor's current position (the cursor is Ok).
func (w *walker) visit(c *cursor, who string) bool {
	p, s1, s2 := c.get()
	if p <= w.last || p >= len(w.R) {
		return w.fail("order", fmt.Sprintf("%s: position %d after %d (size %d)", who, p, w.last, len(w.R)))
	}
	for q := w.last + 1; q < p; q++ {
		if w.R[q] != 0 || w.A[q] != 0 {
			return w.fail("skips", fmt.Sprintf("%s: moves from position %d to %d and skips %d (receiver %v, operand %v)", who, w.last, p, q, w.R[q], w.A[q]))
		}
	}
	w.last = p
	var v1, v2 float64
	if s1 != nil {
		v1 = s1.GetFloat64()
	}
	if s2 != nil {
		v2 = s2.GetFloat64()
	}
	if v1 != w.R[p] || v2 != w.A[p] {
		return w.fail("value", fmt.Sprintf("%s: yields (%v, %v) at position %d, the elements are (%v, %v)", who, v1, v2, p, w.R[p], w.A[p]))
	}
	return true
}

// end checks that nothing non-zero is left behind an exhausted stream.
func (w *walker) end(who string) bool {
	for q := w.last + 1; q < len(w.R); q++ {
		if w.R[q] != 0 || w.A[q] != 0 {
			return w.fail("skips", fmt.Sprintf("%s: ends after position %d and skips %d (receiver %v, operand %v)", who, w.last, q, w.R[q], w.A[q]))
		}
	}
	return true
}

// runWalk executes the program; returns kind and message of the first deviation.
func runWalk(c *cursor, prog string, R, A []float64) (string, string, bool) {
	kind, k, j, err := parseWalk(prog)
	if err != nil {
		panic("harness: " + err.Error())
	}
	size := len(R)
	w := &walker{R: R, A: A, last: -1}
	steps := 0
	for ; c.ok(); c.next() {
		if kind != 0 && steps == k {
			break
		}
		if steps++; steps > size+1 {
			return "order", "the joint iterator does not end", true
		}
		if !w.visit(c, "joint iterator") {
			return w.kind, w.msg, true
		}
	}
	if kind == 0 {
		if !w.end("joint iterator") {
			return w.kind, w.msg, true
		}
		return "", "", true
	}
	if steps < k {
		return "", "", false // the stream is shorter than k: same as the plain program
	}
	cl := c.clone(kind)
	if cl == nil {
		return "", "", false
	}
	// look-ahead on the clone
	cw := &walker{R: R, A: A, last: w.last}
	for n := 0; n < j && cl.ok(); n++ {
		if !cw.visit(cl, "clone") {
			return "clone-" + cw.kind, cw.msg, true
		}
		cl.next()
	}
	if !cl.ok() && !cw.end("clone") {
		return "clone-" + cw.kind, cw.msg, true
	}
	// the original continues
	for ; c.ok(); c.next() {
		if steps++; steps > size+1 {
			return "after-clone-order", "the joint iterator does not end after a clone was advanced", true
		}
		if !w.visit(c, "original after the clone's look-ahead") {
			return "after-clone-" + w.kind, w.msg, true
		}
	}
	if !w.end("original after the clone's look-ahead") {
		return "after-clone-" + w.kind, w.msg, true
	}
	return "", "", true
}
