// Operand histories: a short sequence of READ-ONLY uses of one operand (and of objects
// derived from it) that is executed between the construction of the operands and the
// judged call. Read-only uses must not change what later operations see: sparse
// containers build lazy indices, share them with derived objects and prune stored zeros
// while they are iterated.
//
// A history is written "<slot>:<step>,<step>" with slot r|a|b and the steps
//
//	D          Dim() / Dims()
//	P          fmt.Sprint (String())
//	I          ConstIterator walk over the whole operand
//	F          Float64At over all indices
//	S<i>.<j>   vectors: s := ConstSlice(i,j), then s.ConstAt(k) for all k
//	R<i> C<j>  matrices: ConstRow(i) / ConstCol(j), then ConstAt over the result
//	S<a>.<b>.<c>.<d>  matrices: s := ConstSlice(a,b,c,d), then s.ConstAt over all of s
//
// Every value a step reads is compared with the operand's content (a deviation is
// reported under its own key "history-read").
package main

import (
	"fmt"
	"strconv"
	"strings"

	ad "github.com/pbenner/autodiff"
)

type hstep struct {
	kind byte
	arg  []int
}

func (h hstep) String() string {
	s := string(h.kind)
	for i, a := range h.arg {
		if i > 0 {
			s += "."
		}
		s += strconv.Itoa(a)
	}
	return s
}

func parseHist(h string) (slot int, steps []hstep, err error) {
	if len(h) < 3 || h[1] != ':' {
		return 0, nil, fmt.Errorf("bad history %q", h)
	}
	slot = strings.IndexByte("rab", h[0])
	if slot < 0 {
		return 0, nil, fmt.Errorf("bad history slot %q", h)
	}
	for _, f := range strings.Split(h[2:], ",") {
		if f == "" {
			return 0, nil, fmt.Errorf("bad history %q", h)
		}
		st := hstep{kind: f[0]}
		if len(f) > 1 {
			for _, a := range strings.Split(f[1:], ".") {
				v, e := strconv.Atoi(a)
				if e != nil {
					return 0, nil, e
				}
				st.arg = append(st.arg, v)
			}
		}
		want := map[byte][]int{'D': {0}, 'P': {0}, 'I': {0}, 'F': {0}, 'R': {1}, 'C': {1}, 'S': {2, 4}}[st.kind]
		ok := false
		for _, w := range want {
			ok = ok || w == len(st.arg)
		}
		if !ok {
			return 0, nil, fmt.Errorf("bad history step %q", f)
		}
		steps = append(steps, st)
	}
	return slot, steps, nil
}

// stepLetters lists the alphabet of history steps of a slot, simplest first.
func stepLetters(s slot, slices bool) []string {
	res := []string{"D", "P", "I", "F"}
	switch s.kind {
	case 'v':
		if slices {
			for w := 0; w <= s.r; w++ { // by width, then offset
				for i := 0; i+w <= s.r; i++ {
					res = append(res, fmt.Sprintf("S%d.%d", i, i+w))
				}
			}
		}
	case 'm':
		for i := 0; i < s.r; i++ {
			res = append(res, fmt.Sprintf("R%d", i))
		}
		for j := 0; j < s.c; j++ {
			res = append(res, fmt.Sprintf("C%d", j))
		}
		if slices {
			for h := 0; h <= s.r; h++ {
				for w := 0; w <= s.c; w++ {
					for i := 0; i+h <= s.r; i++ {
						for j := 0; j+w <= s.c; j++ {
							res = append(res, fmt.Sprintf("S%d.%d.%d.%d", i, i+h, j, j+w))
						}
					}
				}
			}
		}
	}
	return res
}

var histCache = map[string][]string{}

// histories: every history of at most maxLen steps on slot si (without the empty one,
// which is the plain case of the other families). slices2: slice steps also take part in
// the two-step histories (otherwise only in the one-step ones).
func histories(s slot, si int, maxLen int, slices2 bool) []string {
	key := fmt.Sprintf("%c%d.%d/%d/%d/%v", s.kind, s.r, s.c, si, maxLen, slices2)
	if r, ok := histCache[key]; ok {
		return r
	}
	pre := string("rab"[si]) + ":"
	var res []string
	l1 := stepLetters(s, true)
	for _, x := range l1 {
		res = append(res, pre+x)
	}
	if maxLen >= 2 {
		l2 := stepLetters(s, slices2)
		for _, x := range l2 {
			for _, y := range l2 {
				res = append(res, pre+x+","+y)
			}
		}
	}
	histCache[key] = res
	return res
}

// histClass is the structural class of a history for violation keys: the step kinds,
// slices split into prefix (from index 0), offset and empty ones.
func histClass(h string) string {
	slot, steps, err := parseHist(h)
	if err != nil {
		return "?"
	}
	var parts []string
	for _, st := range steps {
		switch st.kind {
		case 'D':
			parts = append(parts, "dim")
		case 'P':
			parts = append(parts, "string")
		case 'I':
			parts = append(parts, "iterate")
		case 'F':
			parts = append(parts, "float64at")
		case 'R':
			parts = append(parts, "row+at")
		case 'C':
			parts = append(parts, "col+at")
		case 'S':
			empty := st.arg[0] == st.arg[1]
			prefix := st.arg[0] == 0
			if len(st.arg) == 4 {
				empty = empty || st.arg[2] == st.arg[3]
				prefix = prefix && st.arg[2] == 0
			}
			switch {
			case empty:
				parts = append(parts, "empty-slice")
			case prefix:
				parts = append(parts, "prefix-slice+at")
			default:
				parts = append(parts, "offset-slice+at")
			}
		}
	}
	return string("rab"[slot]) + ":" + strings.Join(parts, ",")
}

// subHistories: the shorter histories contained in h (one step dropped), shortest first;
// "" is the empty history.
func subHistories(h string) []string {
	_, steps, err := parseHist(h)
	if err != nil || len(steps) < 2 {
		return []string{""}
	}
	if steps[0].String() == steps[1].String() {
		return []string{"", h[:2] + steps[0].String()}
	}
	return []string{"", h[:2] + steps[0].String(), h[:2] + steps[1].String()}
}

// ---- execution -------------------------------------------------------------------

type histRun struct {
	pat string // content of the operand (row major)
	typ string // its element type
	s   slot
}

func (h *histRun) val(p int) float64 { return roundTo(h.typ, letterVal(h.pat[p])) }

// apply executes the steps on obj and returns the first deviation seen by a read ("" if
// none).
func (h *histRun) apply(obj any, steps []hstep) string {
	for _, st := range steps {
		var msg string
		switch x := obj.(type) {
		case ad.ConstVector:
			msg = h.vecStep(x, st)
		case ad.ConstMatrix:
			msg = h.matStep(x, st)
		default:
			panic("harness: history on a slot that is no container")
		}
		if msg != "" {
			return st.String() + ": " + msg
		}
	}
	return ""
}

func (h *histRun) vecStep(v ad.ConstVector, st hstep) string {
	n := h.s.r
	switch st.kind {
	case 'D':
		if v.Dim() != n {
			return fmt.Sprintf("Dim()=%d, expected %d", v.Dim(), n)
		}
	case 'P':
		_ = fmt.Sprint(v)
	case 'I':
		last, seen, steps := -1, make([]bool, n), 0
		for it := v.ConstIterator(); it.Ok(); it.Next() {
			if steps++; steps > n+1 {
				return "ConstIterator does not end"
			}
			i := it.Index()
			if i <= last || i >= n {
				return fmt.Sprintf("ConstIterator index %d after %d (dim %d)", i, last, n)
			}
			last, seen[i] = i, true
			c := it.GetConst()
			if c == nil {
				return fmt.Sprintf("ConstIterator yields nil at index %d", i)
			}
			if g := c.GetFloat64(); !sameClass(g, h.val(i)) {
				return fmt.Sprintf("ConstIterator yields %v at index %d, element is %v", g, i, h.val(i))
			}
		}
		for i := 0; i < n; i++ {
			if !seen[i] && h.val(i) != 0 {
				return fmt.Sprintf("ConstIterator skips index %d (element %v)", i, h.val(i))
			}
		}
	case 'F':
		for i := 0; i < n; i++ {
			if g := v.Float64At(i); !sameClass(g, h.val(i)) {
				return fmt.Sprintf("Float64At(%d)=%v, element is %v", i, g, h.val(i))
			}
		}
	case 'S':
		i, j := st.arg[0], st.arg[1]
		s := v.ConstSlice(i, j)
		if s.Dim() != j-i {
			return fmt.Sprintf("ConstSlice(%d,%d).Dim()=%d", i, j, s.Dim())
		}
		for k := 0; k < j-i; k++ {
			if g := s.ConstAt(k).GetFloat64(); !sameClass(g, h.val(i+k)) {
				return fmt.Sprintf("ConstSlice(%d,%d).ConstAt(%d)=%v, element is %v", i, j, k, g, h.val(i+k))
			}
		}
	default:
		panic("harness: vector history step " + st.String())
	}
	return ""
}

func (h *histRun) matStep(m ad.ConstMatrix, st hstep) string {
	r, c := h.s.r, h.s.c
	switch st.kind {
	case 'D':
		if gr, gc := m.Dims(); gr != r || gc != c {
			return fmt.Sprintf("Dims()=%dx%d, expected %dx%d", gr, gc, r, c)
		}
	case 'P':
		_ = fmt.Sprint(m)
	case 'I':
		seen, steps := make([]bool, r*c), 0
		for it := m.ConstIterator(); it.Ok(); it.Next() {
			if steps++; steps > r*c+1 {
				return "ConstIterator does not end"
			}
			i, j := it.Index()
			if i < 0 || j < 0 || i >= r || j >= c || seen[i*c+j] {
				return fmt.Sprintf("ConstIterator index (%d,%d) out of range or repeated", i, j)
			}
			seen[i*c+j] = true
			x := it.GetConst()
			if x == nil {
				return fmt.Sprintf("ConstIterator yields nil at (%d,%d)", i, j)
			}
			if g := x.GetFloat64(); !sameClass(g, h.val(i*c+j)) {
				return fmt.Sprintf("ConstIterator yields %v at (%d,%d), element is %v", g, i, j, h.val(i*c+j))
			}
		}
		for p := range seen {
			if !seen[p] && h.val(p) != 0 {
				return fmt.Sprintf("ConstIterator skips (%d,%d) (element %v)", p/c, p%c, h.val(p))
			}
		}
	case 'F':
		for i := 0; i < r; i++ {
			for j := 0; j < c; j++ {
				if g := m.Float64At(i, j); !sameClass(g, h.val(i*c+j)) {
					return fmt.Sprintf("Float64At(%d,%d)=%v, element is %v", i, j, g, h.val(i*c+j))
				}
			}
		}
	case 'R':
		i := st.arg[0]
		v := m.ConstRow(i)
		if v.Dim() != c {
			return fmt.Sprintf("ConstRow(%d).Dim()=%d", i, v.Dim())
		}
		for j := 0; j < c; j++ {
			if g := v.ConstAt(j).GetFloat64(); !sameClass(g, h.val(i*c+j)) {
				return fmt.Sprintf("ConstRow(%d).ConstAt(%d)=%v, element is %v", i, j, g, h.val(i*c+j))
			}
		}
	case 'C':
		j := st.arg[0]
		v := m.ConstCol(j)
		if v.Dim() != r {
			return fmt.Sprintf("ConstCol(%d).Dim()=%d", j, v.Dim())
		}
		for i := 0; i < r; i++ {
			if g := v.ConstAt(i).GetFloat64(); !sameClass(g, h.val(i*c+j)) {
				return fmt.Sprintf("ConstCol(%d).ConstAt(%d)=%v, element is %v", j, i, g, h.val(i*c+j))
			}
		}
	case 'S':
		a, b, cf, ct := st.arg[0], st.arg[1], st.arg[2], st.arg[3]
		s := m.ConstSlice(a, b, cf, ct)
		if gr, gc := s.Dims(); gr != b-a || gc != ct-cf {
			return fmt.Sprintf("ConstSlice(%d,%d,%d,%d).Dims()=%dx%d", a, b, cf, ct, gr, gc)
		}
		for i := 0; i < b-a; i++ {
			for j := 0; j < ct-cf; j++ {
				if g := s.ConstAt(i, j).GetFloat64(); !sameClass(g, h.val((a+i)*c+cf+j)) {
					return fmt.Sprintf("ConstSlice(%d,%d,%d,%d).ConstAt(%d,%d)=%v, element is %v", a, b, cf, ct, i, j, g, h.val((a+i)*c+cf+j))
				}
			}
		}
	default:
		panic("harness: matrix history step " + st.String())
	}
	return ""
}
