// Receiver lives: what the receiver went through between its construction (prior content
// of the case) and the judged call. The steps are the whole-container writers of the
// Vector/Matrix interfaces, and Reset on a slice of the receiver:
//
//	Z            Reset()
//	Z<i>.<j>     vectors: Slice(i,j).Reset()
//	Z<a>.<b>.<c>.<d>  matrices: Slice(a,b,c,d).Reset()
//	Od  Os       Set(x) with x the all-zero dense / sparse container of the same shape
//	Xd  Xs       Set(x) with x the dense / sparse container holding the constants 1 (even
//	             positions) and -2 (odd positions) everywhere
//	Y            matrices: SetIdentity()
//
// A life is written "<step>,<step>". The judged operation must give the same result after
// every life (the result of an operation does not depend on what the receiver held
// before, nor on how it came to hold it); for Equals/Reset/SetIdentity the receiver's
// content after the life is the model's receiver.
package main

import (
	"fmt"
	"strconv"
	"strings"

	ad "github.com/pbenner/autodiff"
)

type lstep struct {
	kind byte
	stor byte  // O, X
	arg  []int // Z on a slice
}

func parseLife(l string) ([]lstep, error) {
	var steps []lstep
	for _, f := range strings.Split(l, ",") {
		if f == "" {
			return nil, fmt.Errorf("bad life %q", l)
		}
		st := lstep{kind: f[0]}
		switch st.kind {
		case 'O', 'X':
			if len(f) != 2 || (f[1] != 'd' && f[1] != 's') {
				return nil, fmt.Errorf("bad life step %q", f)
			}
			st.stor = f[1]
		case 'Y':
			if len(f) != 1 {
				return nil, fmt.Errorf("bad life step %q", f)
			}
		case 'Z':
			if len(f) > 1 {
				for _, a := range strings.Split(f[1:], ".") {
					v, e := strconv.Atoi(a)
					if e != nil {
						return nil, e
					}
					st.arg = append(st.arg, v)
				}
				if len(st.arg) != 2 && len(st.arg) != 4 {
					return nil, fmt.Errorf("bad life step %q", f)
				}
			}
		default:
			return nil, fmt.Errorf("bad life step %q", f)
		}
		steps = append(steps, st)
	}
	return steps, nil
}

// lifeLetters: the alphabet of life steps of a receiver slot, simplest first. slices:
// include Reset on every non-empty slice and on one empty slice.
func lifeLetters(s slot, slices bool) []string {
	res := []string{"Z"}
	if s.kind == 'm' {
		res = append(res, "Y")
	}
	res = append(res, "Od", "Os", "Xd", "Xs")
	if !slices {
		return res
	}
	switch s.kind {
	case 'v':
		res = append(res, "Z0.0")
		for w := 1; w <= s.r; w++ {
			for i := 0; i+w <= s.r; i++ {
				res = append(res, fmt.Sprintf("Z%d.%d", i, i+w))
			}
		}
	case 'm':
		res = append(res, "Z0.0.0.0")
		for h := 1; h <= s.r; h++ {
			for w := 1; w <= s.c; w++ {
				for i := 0; i+h <= s.r; i++ {
					for j := 0; j+w <= s.c; j++ {
						res = append(res, fmt.Sprintf("Z%d.%d.%d.%d", i, i+h, j, j+w))
					}
				}
			}
		}
	}
	return res
}

var lifeCache = map[string][]string{}

// lives: every life of at most maxLen steps of a receiver slot (without the empty one:
// that is the plain case of the other families). Slice steps take part in the one-step
// lives only.
func lives(s slot, maxLen int) []string {
	key := fmt.Sprintf("%c%d.%d/%d", s.kind, s.r, s.c, maxLen)
	if r, ok := lifeCache[key]; ok {
		return r
	}
	res := append([]string{}, lifeLetters(s, true)...)
	if maxLen >= 2 {
		l2 := lifeLetters(s, false)
		for _, x := range l2 {
			for _, y := range l2 {
				res = append(res, x+","+y)
			}
		}
	}
	lifeCache[key] = res
	return res
}

// lifeClass: structural class of a life for violation keys.
func lifeClass(l string) string {
	steps, err := parseLife(l)
	if err != nil {
		return "?"
	}
	var parts []string
	for _, st := range steps {
		switch st.kind {
		case 'Z':
			switch {
			case st.arg == nil:
				parts = append(parts, "reset")
			case st.arg[0] == st.arg[1] || (len(st.arg) == 4 && st.arg[2] == st.arg[3]):
				parts = append(parts, "empty-slice-reset")
			default:
				parts = append(parts, "slice-reset")
			}
		case 'Y':
			parts = append(parts, "set-identity")
		case 'O':
			parts = append(parts, "set-zero-"+map[byte]string{'d': "dense", 's': "sparse"}[st.stor])
		case 'X':
			parts = append(parts, "set-"+map[byte]string{'d': "dense", 's': "sparse"}[st.stor])
		}
	}
	return strings.Join(parts, ",")
}

// subLives: the shorter lives contained in l, shortest first ("" = none).
func subLives(l string) []string {
	p := strings.Split(l, ",")
	if len(p) < 2 {
		return []string{""}
	}
	if p[0] == p[1] {
		return []string{"", p[0]}
	}
	return []string{"", p[0], p[1]}
}

// ---- the letters of the receiver after its life ------------------------------------
//
// 'p' and 'r' are the constants 1 and -2 (never variables, also in variable mode).

func lifeConst(p int) byte {
	if p%2 == 1 {
		return 'r'
	}
	return 'p'
}

func zeroLetter(c byte, stor byte) byte {
	if stor == 'd' {
		return '0'
	}
	if c == '_' {
		return '_'
	}
	return 'e'
}

// effR: the receiver's content, in pattern letters, at the time of the judged call.
func (cs *Case) effR() string {
	if cs.Life == "" {
		return cs.R
	}
	steps, err := parseLife(cs.Life)
	if err != nil {
		panic("harness: " + err.Error())
	}
	slots := opSlots(cs.Op, cs.Dims)
	s := slots[0]
	r := []byte(cs.R)
	for _, st := range steps {
		switch st.kind {
		case 'Z', 'O':
			for p := range r {
				in := true
				if len(st.arg) == 2 {
					in = p >= st.arg[0] && p < st.arg[1]
				} else if len(st.arg) == 4 {
					i, j := p/s.c, p%s.c
					in = i >= st.arg[0] && i < st.arg[1] && j >= st.arg[2] && j < st.arg[3]
				}
				if in {
					r[p] = zeroLetter(r[p], cs.Stor[0])
				}
			}
		case 'X':
			for p := range r {
				r[p] = lifeConst(p)
			}
		case 'Y':
			for p := range r {
				if p/s.c == p%s.c {
					r[p] = 'p'
				} else {
					r[p] = zeroLetter(r[p], cs.Stor[0])
				}
			}
		}
	}
	return string(r)
}

// ---- execution ---------------------------------------------------------------------

func applyLife(obj any, life string, t *tinfo, s slot) {
	steps, err := parseLife(life)
	if err != nil {
		panic("harness: " + err.Error())
	}
	other := func(st lstep) any {
		b := &builder{t: t}
		p := make([]byte, s.size())
		for i := range p {
			switch {
			case st.kind == 'X' && i%2 == 0:
				p[i] = '1'
			case st.kind == 'X':
				p[i] = 'm'
			case st.stor == 'd':
				p[i] = '0'
			default:
				p[i] = '_'
			}
		}
		return b.build(s, st.stor, string(p))
	}
	for _, st := range steps {
		switch r := obj.(type) {
		case ad.Vector:
			switch st.kind {
			case 'Z':
				if st.arg == nil {
					r.Reset()
				} else {
					r.Slice(st.arg[0], st.arg[1]).Reset()
				}
			case 'O', 'X':
				r.Set(other(st).(ad.ConstVector))
			default:
				panic("harness: vector life step " + string(st.kind))
			}
		case ad.Matrix:
			switch st.kind {
			case 'Z':
				if st.arg == nil {
					r.Reset()
				} else {
					r.Slice(st.arg[0], st.arg[1], st.arg[2], st.arg[3]).Reset()
				}
			case 'Y':
				r.SetIdentity()
			case 'O', 'X':
				r.Set(other(st).(ad.ConstMatrix))
			}
		default:
			panic("harness: life on a receiver that is no mutable container")
		}
	}
}
