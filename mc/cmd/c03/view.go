// Iteration view of a result container.
//
// The element-wise read of a result goes through random access (ConstAt, Float64At). A
// sparse container keeps two structures, the entries and an ordered index over them;
// random access uses the first, every iterator (and with it every later operation that
// takes the container as operand: conversions, Equals, joint iterators, products) the
// second. The result of an operation must be the same mathematical object for both kinds
// of consumer, whatever its storage and whatever the receiver went through before. After
// the random-access read the same container is therefore read three more times:
//
//	iterate   ConstIterator walk: indices in range and strictly increasing (matrices: not
//	          repeated), the element yielded at an index is the one ConstAt returned there
//	          (value and derivatives), and no index whose element is non-zero (value or any
//	          derivative) is skipped;
//	asdense   AsDenseVector/AsDenseMatrix (same element type) of the container, read over
//	          all indices, equals the random-access read (value and derivatives);
//	equals    a dense twin built from the values of the random-access read is Equal to the
//	          container, asked both ways (container.Equals(twin), twin.Equals(container)).
package main

import (
	"fmt"

	ad "github.com/pbenner/autodiff"
)

// jetEq: two reads of the same element agree (NaN = NaN: both reads come from the library).
func jetEq(a, b jet, varM bool) bool {
	if !sameClass(a.v, b.v) {
		return false
	}
	return !varM || (sliceSame(a.d, b.d) && sliceSame(a.h, b.h))
}

func sliceSame(a, b []float64) bool {
	n := max(len(a), len(b))
	for i := 0; i < n; i++ {
		var x, y float64
		if i < len(a) {
			x = a[i]
		}
		if i < len(b) {
			y = b[i]
		}
		if !sameClass(x, y) {
			return false
		}
	}
	return true
}

func jetNonzero(a jet) bool { return a.v != 0 || !allZero(a.d) || !allZero(a.h) }

// viewsDone counts the result containers whose three further reads were completed.
var viewsDone int64

func (o *obs) setView(kind string, p int, msg string) {
	if o.view == "" {
		o.view, o.viewKind, o.viewPos = msg, kind, p
	}
}

func (o *obs) viewVec(v ad.ConstVector, n int, varM bool) {
	t := typeByName(o.rtyp)
	if t == nil || o.dimErr != "" {
		return
	}
	dim := len(o.res)
	// iterate
	last, seen, steps := -1, make([]bool, dim), 0
	for it := v.ConstIterator(); it.Ok(); it.Next() {
		if steps++; steps > dim+1 {
			o.setView("iterate-order", -1, "ConstIterator over the result does not end")
			return
		}
		i := it.Index()
		if i <= last || i >= dim {
			o.setView("iterate-order", -1, fmt.Sprintf("ConstIterator over the result: index %d after %d (dim %d)", i, last, dim))
			return
		}
		last, seen[i] = i, true
		c := it.GetConst()
		if c == nil {
			o.setView("iterate-value", i, fmt.Sprintf("ConstIterator over the result yields nil at index %d", i))
			return
		}
		if g := readScalar(c, n, varM); !jetEq(g, o.res[i], varM) {
			o.setView("iterate-value", i, fmt.Sprintf("ConstIterator over the result yields %v (d=%v h=%v) at index %d, ConstAt(%d) returned %v (d=%v h=%v)", g.v, g.d, g.h, i, i, o.res[i].v, o.res[i].d, o.res[i].h))
			return
		}
	}
	for i := 0; i < dim; i++ {
		if !seen[i] && jetNonzero(o.res[i]) {
			o.setView("iterate-skips", i, fmt.Sprintf("ConstIterator over the result skips index %d although ConstAt(%d) returned %v (d=%v h=%v)", i, i, o.res[i].v, o.res[i].d, o.res[i].h))
			return
		}
	}
	// asdense
	w := ad.AsDenseVector(t.t, v)
	if w.Dim() != dim {
		o.setView("asdense", -1, fmt.Sprintf("AsDenseVector(result).Dim()=%d, expected %d", w.Dim(), dim))
		return
	}
	for i := 0; i < dim; i++ {
		if g := readScalar(w.ConstAt(i), n, varM); !jetEq(g, o.res[i], varM) {
			o.setView("asdense", i, fmt.Sprintf("AsDenseVector(result) holds %v (d=%v h=%v) at index %d, the result's ConstAt(%d) returned %v (d=%v h=%v)", g.v, g.d, g.h, i, i, o.res[i].v, o.res[i].d, o.res[i].h))
			return
		}
	}
	// equals, both ways
	d := ad.NullDenseVector(t.t, dim)
	for i := 0; i < dim; i++ {
		if x := o.res[i].v; x != 0 {
			d.At(i).SetFloat64(x)
		}
	}
	if !v.Equals(d, 1e-8) {
		o.setView("equals-as-receiver", -1, fmt.Sprintf("result.Equals(d) is false for the dense vector d = %v built from the result's ConstAt values", d))
		return
	}
	if !d.Equals(v, 1e-8) {
		o.setView("equals-as-operand", -1, fmt.Sprintf("d.Equals(result) is false for the dense vector d = %v built from the result's ConstAt values", d))
		return
	}
	viewsDone++
}

func (o *obs) viewMat(m ad.ConstMatrix, r, c int, n int, varM bool) {
	t := typeByName(o.rtyp)
	if t == nil || o.dimErr != "" {
		return
	}
	seen, steps := make([]bool, r*c), 0
	for it := m.ConstIterator(); it.Ok(); it.Next() {
		if steps++; steps > r*c+1 {
			o.setView("iterate-order", -1, "ConstIterator over the result does not end")
			return
		}
		i, j := it.Index()
		if i < 0 || j < 0 || i >= r || j >= c || seen[i*c+j] {
			o.setView("iterate-order", -1, fmt.Sprintf("ConstIterator over the result: index (%d,%d) out of range or repeated", i, j))
			return
		}
		p := i*c + j
		seen[p] = true
		x := it.GetConst()
		if x == nil {
			o.setView("iterate-value", p, fmt.Sprintf("ConstIterator over the result yields nil at (%d,%d)", i, j))
			return
		}
		if g := readScalar(x, n, varM); !jetEq(g, o.res[p], varM) {
			o.setView("iterate-value", p, fmt.Sprintf("ConstIterator over the result yields %v (d=%v h=%v) at (%d,%d), ConstAt returned %v (d=%v h=%v)", g.v, g.d, g.h, i, j, o.res[p].v, o.res[p].d, o.res[p].h))
			return
		}
	}
	for p := range seen {
		if !seen[p] && jetNonzero(o.res[p]) {
			o.setView("iterate-skips", p, fmt.Sprintf("ConstIterator over the result skips (%d,%d) although ConstAt returned %v (d=%v h=%v)", p/c, p%c, o.res[p].v, o.res[p].d, o.res[p].h))
			return
		}
	}
	w := ad.AsDenseMatrix(t.t, m)
	if gr, gc := w.Dims(); gr != r || gc != c {
		o.setView("asdense", -1, fmt.Sprintf("AsDenseMatrix(result).Dims()=%dx%d, expected %dx%d", gr, gc, r, c))
		return
	}
	for i := 0; i < r; i++ {
		for j := 0; j < c; j++ {
			p := i*c + j
			if g := readScalar(w.ConstAt(i, j), n, varM); !jetEq(g, o.res[p], varM) {
				o.setView("asdense", p, fmt.Sprintf("AsDenseMatrix(result) holds %v (d=%v h=%v) at (%d,%d), the result's ConstAt returned %v (d=%v h=%v)", g.v, g.d, g.h, i, j, o.res[p].v, o.res[p].d, o.res[p].h))
				return
			}
		}
	}
	d := ad.NullDenseMatrix(t.t, r, c)
	for p := range o.res {
		if x := o.res[p].v; x != 0 {
			d.At(p/c, p%c).SetFloat64(x)
		}
	}
	if !m.Equals(d, 1e-8) {
		o.setView("equals-as-receiver", -1, "result.Equals(d) is false for the dense matrix d built from the result's ConstAt values")
		return
	}
	if !d.Equals(m, 1e-8) {
		o.setView("equals-as-operand", -1, "d.Equals(result) is false for the dense matrix d built from the result's ConstAt values")
		return
	}
	viewsDone++
}
