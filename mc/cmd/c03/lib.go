// Driving the real library: build operands in the requested storage, run one
// operation through the public interfaces, read the result over all indices.
package main

import (
	"fmt"
	"strings"

	ad "github.com/pbenner/autodiff"
)

// Case is one fully determined configuration (also the replay artefact).
type Case struct {
	Op    string   `json:"op"`
	Type  string   `json:"type"`
	Var   bool     `json:"variables"` // Real only: non-zero entries and 'z' are activated variables (order 2)
	Dims  []int    `json:"dims"`
	Stor  string   `json:"storage"` // one letter per slot receiver,a,b: d=dense s=sparse -=scalar/none
	R     string   `json:"recv"`    // receiver prior content, one pattern letter per element (row major)
	A     string   `json:"a"`
	B     string   `json:"b"`
	Elem  string   `json:"elem_label,omitempty"`
	Types []string `json:"failing_types,omitempty"`
}

func (cs *Case) String() string {
	return fmt.Sprintf("%s[%s%s] dims=%v stor=%s recv=%q a=%q b=%q", cs.Op, cs.Type, map[bool]string{true: "+var", false: ""}[cs.Var], cs.Dims, cs.Stor, cs.R, cs.A, cs.B)
}

type builder struct {
	t    *tinfo
	varM bool
	n    int // number of variables
	next int
}

func (b *builder) elem(s ad.Scalar, c byte) {
	if v := letterVal(c); v != 0 {
		s.SetFloat64(v)
	}
	if isVar(c, b.varM) {
		if err := s.(ad.MagicScalar).SetVariable(b.next, b.n, 2); err != nil {
			panic(err)
		}
		b.next++
	}
}

func (b *builder) vec(stor byte, p string) ad.Vector {
	var v ad.Vector
	if stor == 'd' {
		v = ad.NullDenseVector(b.t.t, len(p))
	} else {
		v = ad.NullSparseVector(b.t.t, len(p))
	}
	for i := 0; i < len(p); i++ {
		switch p[i] {
		case '0', '_':
		case 'e':
			v.At(i)
		default:
			b.elem(v.At(i), p[i])
		}
	}
	return v
}

func (b *builder) mat(stor byte, p string, r, c int) ad.Matrix {
	var m ad.Matrix
	if stor == 'd' {
		m = ad.NullDenseMatrix(b.t.t, r, c)
	} else {
		m = ad.NullSparseMatrix(b.t.t, r, c)
	}
	for i := 0; i < r; i++ {
		for j := 0; j < c; j++ {
			switch l := p[i*c+j]; l {
			case '0', '_':
			case 'e':
				m.At(i, j)
			default:
				b.elem(m.At(i, j), l)
			}
		}
	}
	return m
}

func (b *builder) scalar(p string) ad.Scalar {
	s := ad.NewScalar(b.t.t, 0.0)
	b.elem(s, p[0])
	return s
}

// observation of one run
type obs struct {
	panicked bool
	pmsg     string
	res      []jet
	isB      bool
	b        bool
	dimErr   string
	getter   string // Float64At disagrees with ConstAt
}

func readScalar(s ad.ConstScalar, n int, varM bool) jet {
	j := jet{v: s.GetFloat64()}
	if !varM || n == 0 {
		return j
	}
	o, sn := s.GetOrder(), s.GetN()
	if o >= 1 && sn > 0 {
		j.d = make([]float64, n)
		for k := 0; k < n && k < sn; k++ {
			j.d[k] = s.GetDerivative(k)
		}
		if o >= 2 {
			j.h = make([]float64, n*n)
			for k := 0; k < n && k < sn; k++ {
				for l := 0; l < n && l < sn; l++ {
					j.h[k*n+l] = s.GetHessian(k, l)
				}
			}
		}
	}
	return j
}

func (o *obs) readVec(v ad.ConstVector, want int, n int, varM bool) {
	if v.Dim() != want {
		o.dimErr = fmt.Sprintf("Dim()=%d, expected %d", v.Dim(), want)
		return
	}
	o.res = make([]jet, want)
	for i := 0; i < want; i++ {
		o.res[i] = readScalar(v.ConstAt(i), n, varM)
		if f := v.Float64At(i); !sameClass(f, o.res[i].v) && o.getter == "" {
			o.getter = fmt.Sprintf("Float64At(%d)=%v but ConstAt(%d)=%v", i, f, i, o.res[i].v)
		}
	}
}

func (o *obs) readMat(m ad.ConstMatrix, r, c int, n int, varM bool) {
	if gr, gc := m.Dims(); gr != r || gc != c {
		o.dimErr = fmt.Sprintf("Dims()=%dx%d, expected %dx%d", gr, gc, r, c)
		return
	}
	o.res = make([]jet, r*c)
	for i := 0; i < r; i++ {
		for j := 0; j < c; j++ {
			o.res[i*c+j] = readScalar(m.ConstAt(i, j), n, varM)
			if f := m.Float64At(i, j); !sameClass(f, o.res[i*c+j].v) && o.getter == "" {
				o.getter = fmt.Sprintf("Float64At(%d,%d)=%v but ConstAt=%v", i, j, f, o.res[i*c+j].v)
			}
		}
	}
}

// index/value lists for the NewSparse* constructors. Pattern letters: '_' position not
// listed, '0' listed with value 0, '1', 'm'. order "asc"/"desc" = order of the lists.
func lists(p, order string) (idx []int, vals []float64) {
	for i := 0; i < len(p); i++ {
		if p[i] != '_' {
			idx = append(idx, i)
			vals = append(vals, letterVal(p[i]))
		}
	}
	if order == "desc" {
		for i, j := 0, len(idx)-1; i < j; i, j = i+1, j-1 {
			idx[i], idx[j] = idx[j], idx[i]
			vals[i], vals[j] = vals[j], vals[i]
		}
	}
	return
}

// run executes the case on the real library.
func run(cs *Case, t *tinfo) (o *obs) {
	o = &obs{}
	defer func() {
		if r := recover(); r != nil {
			o.panicked = true
			o.pmsg = fmt.Sprint(r)
		}
	}()
	b := &builder{t: t, varM: cs.Var}
	b.n = countVars(cs.A, cs.Var) + countVars(cs.B, cs.Var) + countVars(cs.R, cs.Var)
	n := b.n
	sr, sa, sb := cs.Stor[0], cs.Stor[1], cs.Stor[2]
	d := cs.Dims
	switch cs.Op {
	case "VaddV", "VsubV", "VmulV", "VdivV":
		a, bb, r := b.vec(sa, cs.A), b.vec(sb, cs.B), b.vec(sr, cs.R)
		switch cs.Op {
		case "VaddV":
			r.VaddV(a, bb)
		case "VsubV":
			r.VsubV(a, bb)
		case "VmulV":
			r.VmulV(a, bb)
		case "VdivV":
			r.VdivV(a, bb)
		}
		o.readVec(r, d[0], n, cs.Var)
	case "VaddS", "VsubS", "VmulS", "VdivS":
		a, s, r := b.vec(sa, cs.A), b.scalar(cs.B), b.vec(sr, cs.R)
		switch cs.Op {
		case "VaddS":
			r.VaddS(a, s)
		case "VsubS":
			r.VsubS(a, s)
		case "VmulS":
			r.VmulS(a, s)
		case "VdivS":
			r.VdivS(a, s)
		}
		o.readVec(r, d[0], n, cs.Var)
	case "VdotV":
		a, bb, r := b.vec(sa, cs.A), b.vec(sb, cs.B), b.scalar(cs.R)
		r.VdotV(a, bb)
		o.res = []jet{readScalar(r, n, cs.Var)}
	case "MdotV":
		a, bb, r := b.mat(sa, cs.A, d[0], d[1]), b.vec(sb, cs.B), b.vec(sr, cs.R)
		r.MdotV(a, bb)
		o.readVec(r, d[0], n, cs.Var)
	case "VdotM":
		a, bb, r := b.vec(sa, cs.A), b.mat(sb, cs.B, d[0], d[1]), b.vec(sr, cs.R)
		r.VdotM(a, bb)
		o.readVec(r, d[1], n, cs.Var)
	case "Vset":
		a, r := b.vec(sa, cs.A), b.vec(sr, cs.R)
		r.Set(a)
		o.readVec(r, d[0], n, cs.Var)
	case "Vequals":
		a, r := b.vec(sa, cs.A), b.vec(sr, cs.R)
		o.isB, o.b = true, r.Equals(a, 1e-8)
		o.readVec(r, d[0], n, cs.Var)
	case "Vreset":
		r := b.vec(sr, cs.R)
		r.Reset()
		o.readVec(r, d[0], n, cs.Var)
	case "VasDense":
		o.readVec(ad.AsDenseVector(t.t, b.vec(sa, cs.A)), d[0], n, cs.Var)
	case "VasSparse":
		o.readVec(ad.AsSparseVector(t.t, b.vec(sa, cs.A)), d[0], n, cs.Var)
	case "VnewSparse":
		idx, vals := lists(cs.A, cs.B)
		o.readVec(t.newSparseVec(idx, vals, d[0]), d[0], 0, false)
	case "VnewDense":
		_, vals := lists(cs.A, "asc")
		o.readVec(t.newDenseVec(vals), d[0], 0, false)
	case "MaddM", "MsubM", "MmulM", "MdivM":
		a, bb, r := b.mat(sa, cs.A, d[0], d[1]), b.mat(sb, cs.B, d[0], d[1]), b.mat(sr, cs.R, d[0], d[1])
		switch cs.Op {
		case "MaddM":
			r.MaddM(a, bb)
		case "MsubM":
			r.MsubM(a, bb)
		case "MmulM":
			r.MmulM(a, bb)
		case "MdivM":
			r.MdivM(a, bb)
		}
		o.readMat(r, d[0], d[1], n, cs.Var)
	case "MaddS", "MsubS", "MmulS", "MdivS":
		a, s, r := b.mat(sa, cs.A, d[0], d[1]), b.scalar(cs.B), b.mat(sr, cs.R, d[0], d[1])
		switch cs.Op {
		case "MaddS":
			r.MaddS(a, s)
		case "MsubS":
			r.MsubS(a, s)
		case "MmulS":
			r.MmulS(a, s)
		case "MdivS":
			r.MdivS(a, s)
		}
		o.readMat(r, d[0], d[1], n, cs.Var)
	case "MdotM":
		a, bb, r := b.mat(sa, cs.A, d[0], d[1]), b.mat(sb, cs.B, d[1], d[2]), b.mat(sr, cs.R, d[0], d[2])
		r.MdotM(a, bb)
		o.readMat(r, d[0], d[2], n, cs.Var)
	case "Outer":
		a, bb, r := b.vec(sa, cs.A), b.vec(sb, cs.B), b.mat(sr, cs.R, d[0], d[1])
		r.Outer(a, bb)
		o.readMat(r, d[0], d[1], n, cs.Var)
	case "Mset":
		a, r := b.mat(sa, cs.A, d[0], d[1]), b.mat(sr, cs.R, d[0], d[1])
		r.Set(a)
		o.readMat(r, d[0], d[1], n, cs.Var)
	case "Mequals":
		a, r := b.mat(sa, cs.A, d[0], d[1]), b.mat(sr, cs.R, d[0], d[1])
		o.isB, o.b = true, r.Equals(a, 1e-8)
		o.readMat(r, d[0], d[1], n, cs.Var)
	case "Mreset":
		r := b.mat(sr, cs.R, d[0], d[1])
		r.Reset()
		o.readMat(r, d[0], d[1], n, cs.Var)
	case "MsetIdentity":
		r := b.mat(sr, cs.R, d[0], d[1])
		r.SetIdentity()
		o.readMat(r, d[0], d[1], n, cs.Var)
	case "MasDense":
		o.readMat(ad.AsDenseMatrix(t.t, b.mat(sa, cs.A, d[0], d[1])), d[0], d[1], n, cs.Var)
	case "MasSparse":
		o.readMat(ad.AsSparseMatrix(t.t, b.mat(sa, cs.A, d[0], d[1])), d[0], d[1], n, cs.Var)
	case "MnewSparse":
		idx, vals := lists(cs.A, cs.B)
		ri, ci := make([]int, len(idx)), make([]int, len(idx))
		for k, x := range idx {
			ri[k], ci[k] = x/d[1], x%d[1]
		}
		o.readMat(t.newSparseMat(ri, ci, vals, d[0], d[1]), d[0], d[1], 0, false)
	case "MnewDense":
		_, vals := lists(cs.A, "asc")
		o.readMat(t.newDenseMat(vals, d[0], d[1]), d[0], d[1], 0, false)
	default:
		panic("harness: unknown op " + cs.Op)
	}
	return o
}

// denseTwin is the same mathematical content with every container dense.
func denseTwin(cs *Case) *Case {
	tw := *cs
	tw.Stor = strings.Map(func(r rune) rune {
		if r == 's' {
			return 'd'
		}
		return r
	}, cs.Stor)
	f := func(p string, st byte) string {
		if st == '-' {
			return p
		}
		return strings.Map(func(r rune) rune {
			if r == '_' || r == 'e' {
				return '0'
			}
			return r
		}, p)
	}
	tw.R, tw.A, tw.B = f(cs.R, cs.Stor[0]), f(cs.A, cs.Stor[1]), f(cs.B, cs.Stor[2])
	return &tw
}
