// Driving the real library: build operands in the requested storage, run one
// operation through the public interfaces, read the result over all indices.
package main

import (
	"fmt"
	"reflect"
	"strings"

	ad "github.com/pbenner/autodiff"
)

// Case is one fully determined configuration (also the replay artefact).
type Case struct {
	Op    string   `json:"op"`
	Type  string   `json:"type"`
	Var   bool     `json:"variables"` // Real only: non-zero entries and 'z' are activated variables (order 2)
	Dims  []int    `json:"dims"`
	Stor  string   `json:"storage"` // one letter per slot receiver,a,b: d=dense s=sparse -=scalar/none
	R     string   `json:"recv"`    // receiver prior content, one pattern letter per element (row major)
	A     string   `json:"a"`
	B     string   `json:"b"`
	CT    string   `json:"const_type,omitempty"` // element type of SparseConst*Vector operands (storage letter c) and of VasConst/VnewConst
	Hist  string   `json:"history,omitempty"`    // read-only uses of one operand before the judged call, e.g. "a:S0.1,I" (hist.go)
	Life  string   `json:"life,omitempty"`       // whole-container writers applied to the receiver before the judged call, e.g. "Xs,Z" (life.go)
	Conc  bool     `json:"concrete,omitempty"`   // the judged call goes through the concrete method (VADDV, MDOTM, EQUALS, ...) of the receiver's type (conc.go)
	Elem  string   `json:"elem_label,omitempty"`
	Types []string `json:"failing_types,omitempty"`
}

func (cs *Case) String() string {
	s := fmt.Sprintf("%s[%s%s] dims=%v stor=%s recv=%q a=%q b=%q", cs.Op, cs.Type, map[bool]string{true: "+var", false: ""}[cs.Var], cs.Dims, cs.Stor, cs.R, cs.A, cs.B)
	if cs.CT != "" {
		s += " const=" + cs.CT
	}
	if cs.Hist != "" {
		s += " history=" + cs.Hist
	}
	if cs.Life != "" {
		s += " life=" + cs.Life
	}
	if cs.Conc {
		s += " concrete"
	}
	return s
}

// slotVar: do the letters 1, m, z (h, o, y) of slot i carry derivatives?
func (cs *Case) slotVar(i int) bool { return cs.Var && cs.Stor[i] != 'c' }

func (cs *Case) nvars() int {
	return countVars(cs.A, cs.slotVar(1)) + countVars(cs.B, cs.slotVar(2)) + countVars(cs.R, cs.slotVar(0))
}

// eps: the epsilon passed to Equals (VequalsE/MequalsE carry it in the b slot).
func (cs *Case) eps() float64 {
	if cs.Op == "VequalsE" || cs.Op == "MequalsE" {
		switch cs.B {
		case "0.75":
			return 0.75
		case "0":
			return 0
		}
	}
	return 1e-8
}

type builder struct {
	t    *tinfo
	ct   *cinfo
	varM bool
	n    int // number of variables
	next int
}

func (b *builder) elem(s ad.Scalar, c byte) {
	if v := letterVal(c); v != 0 {
		s.SetFloat64(v)
	}
	if !b.varM {
		return
	}
	k := b.next
	b.next += ownVars(c, true)
	switch c {
	case 'z', '1', 'm':
		if err := s.(ad.MagicScalar).SetVariable(k, b.n, 2); err != nil {
			panic(err)
		}
	case 'h': // x_k*x_k at 0
		s.(ad.MagicScalar).Alloc(b.n, 2)
		s.(ad.MagicScalar).SetHessian(k, k, 2)
	case 'o': // x_k*x_(k+1) at (0,0)
		s.(ad.MagicScalar).Alloc(b.n, 2)
		s.(ad.MagicScalar).SetHessian(k, k+1, 1)
		s.(ad.MagicScalar).SetHessian(k+1, k, 1)
	case 'y': // zero with memory for the derivatives of order 2
		s.(ad.MagicScalar).Alloc(b.n, 2)
	}
}

// cvec builds a SparseConst*Vector: NewSparseConst<T>Vector from the non-zero entries, or
// (explicitly stored zero in the pattern) UnsafeSparseConst<T>Vector from sorted lists.
func (b *builder) cvec(p string) ad.ConstVector {
	if b.ct == nil {
		panic("harness: case without const_type")
	}
	idx, vals, unsafe := []int{}, []float64{}, false
	for i := 0; i < len(p); i++ {
		switch p[i] {
		case '_':
		case 'e':
			unsafe = true
			fallthrough
		default:
			idx = append(idx, i)
			vals = append(vals, letterVal(p[i]))
		}
	}
	return b.ct.mk(idx, vals, len(p), unsafe)
}

// build creates the object of one slot (nil for list/order/epsilon slots).
func (b *builder) build(s slot, stor byte, p string) any {
	switch s.kind {
	case 'v':
		if stor == 'c' {
			return b.cvec(p)
		}
		return b.vec(stor, p)
	case 'm':
		return b.mat(stor, p, s.r, s.c)
	case 's':
		return b.scalar(p)
	}
	return nil
}

func (b *builder) vec(stor byte, p string) ad.Vector {
	var v ad.Vector
	if stor == 'd' {
		v = ad.NullDenseVector(b.t.t, len(p))
	} else {
		v = ad.NullSparseVector(b.t.t, len(p))
	}
	for i := 0; i < len(p); i++ {
		switch p[i] {
		case '0', '_':
		case 'e':
			v.At(i)
		default:
			b.elem(v.At(i), p[i])
		}
	}
	return v
}

func (b *builder) mat(stor byte, p string, r, c int) ad.Matrix {
	var m ad.Matrix
	if stor == 'd' {
		m = ad.NullDenseMatrix(b.t.t, r, c)
	} else {
		m = ad.NullSparseMatrix(b.t.t, r, c)
	}
	for i := 0; i < r; i++ {
		for j := 0; j < c; j++ {
			switch l := p[i*c+j]; l {
			case '0', '_':
			case 'e':
				m.At(i, j)
			default:
				b.elem(m.At(i, j), l)
			}
		}
	}
	return m
}

func (b *builder) scalar(p string) ad.Scalar {
	s := ad.NewScalar(b.t.t, 0.0)
	b.elem(s, p[0])
	return s
}

// observation of one run
type obs struct {
	panicked bool
	pmsg     string
	res      []jet
	isB      bool
	b        bool
	dimErr   string
	getter   string // Float64At disagrees with ConstAt
	hist     string // a read of the history saw something else than the operand's content
	view     string // the result seen through iteration differs from the result seen through random access (view.go)
	viewKind string
	viewPos  int
	noConc   bool   // no concrete method of that name/signature for these operand types
	walk     string // a joint-iterator traversal deviates (joint.go)
	walkKind string
	walkNA   bool   // the walk program does not apply (stream shorter than k, clone kind not offered)
	rtyp     string // element type of the container the result was read from
}

func readScalar(s ad.ConstScalar, n int, varM bool) jet {
	j := jet{v: s.GetFloat64()}
	if !varM || n == 0 {
		return j
	}
	o, sn := s.GetOrder(), s.GetN()
	if o >= 1 && sn > 0 {
		j.d = make([]float64, n)
		for k := 0; k < n && k < sn; k++ {
			j.d[k] = s.GetDerivative(k)
		}
		if o >= 2 {
			j.h = make([]float64, n*n)
			for k := 0; k < n && k < sn; k++ {
				for l := 0; l < n && l < sn; l++ {
					j.h[k*n+l] = s.GetHessian(k, l)
				}
			}
		}
	}
	return j
}

func (o *obs) readVec(v ad.ConstVector, want int, n int, varM bool, typ string) {
	o.rtyp = typ
	if v.Dim() != want {
		o.dimErr = fmt.Sprintf("Dim()=%d, expected %d", v.Dim(), want)
		return
	}
	o.res = make([]jet, want)
	for i := 0; i < want; i++ {
		o.res[i] = readScalar(v.ConstAt(i), n, varM)
		if f := v.Float64At(i); !sameClass(f, o.res[i].v) && o.getter == "" {
			o.getter = fmt.Sprintf("Float64At(%d)=%v but ConstAt(%d)=%v", i, f, i, o.res[i].v)
		}
	}
	if o.getter == "" {
		o.viewVec(v, n, varM)
	}
}

func (o *obs) readMat(m ad.ConstMatrix, r, c int, n int, varM bool, typ string) {
	o.rtyp = typ
	if gr, gc := m.Dims(); gr != r || gc != c {
		o.dimErr = fmt.Sprintf("Dims()=%dx%d, expected %dx%d", gr, gc, r, c)
		return
	}
	o.res = make([]jet, r*c)
	for i := 0; i < r; i++ {
		for j := 0; j < c; j++ {
			o.res[i*c+j] = readScalar(m.ConstAt(i, j), n, varM)
			if f := m.Float64At(i, j); !sameClass(f, o.res[i*c+j].v) && o.getter == "" {
				o.getter = fmt.Sprintf("Float64At(%d,%d)=%v but ConstAt=%v", i, j, f, o.res[i*c+j].v)
			}
		}
	}
	if o.getter == "" {
		o.viewMat(m, r, c, n, varM)
	}
}

// index/value lists for the NewSparse* constructors. Pattern letters: '_' position not
// listed, '0' listed with value 0, '1', 'm'. order "asc"/"desc" = order of the lists.
func lists(p, order string) (idx []int, vals []float64) {
	for i := 0; i < len(p); i++ {
		if p[i] != '_' {
			idx = append(idx, i)
			vals = append(vals, letterVal(p[i]))
		}
	}
	if order == "desc" {
		for i, j := 0, len(idx)-1; i < j; i, j = i+1, j-1 {
			idx[i], idx[j] = idx[j], idx[i]
			vals[i], vals[j] = vals[j], vals[i]
		}
	}
	return
}

// run executes the case on the real library.
func run(cs *Case, t *tinfo) (o *obs) {
	o = &obs{}
	defer func() {
		if r := recover(); r != nil {
			o.panicked = true
			o.pmsg = fmt.Sprint(r)
		}
	}()
	b := &builder{t: t, varM: cs.Var, ct: ctypeByName(cs.CT)}
	b.n = cs.nvars()
	n := b.n
	d := cs.Dims
	slots := opSlots(cs.Op, d)
	pats := [3]string{cs.R, cs.A, cs.B}
	var ob [3]any
	for _, i := range []int{1, 2, 0} { // variables are numbered a, b, receiver
		ob[i] = b.build(slots[i], cs.Stor[i], pats[i])
	}
	if cs.Hist != "" {
		hs, steps, err := parseHist(cs.Hist)
		if err != nil || ob[hs] == nil {
			panic("harness: bad history " + cs.Hist)
		}
		hb := &histRun{pat: pats[hs], typ: cs.Type, s: slots[hs]}
		if cs.Stor[hs] == 'c' {
			hb.typ = cs.CT
		}
		o.hist = hb.apply(ob[hs], steps)
	}
	if cs.Life != "" {
		applyLife(ob[0], cs.Life, t, slots[0])
	}
	vec := func(i int) ad.Vector { return ob[i].(ad.Vector) }
	cv := func(i int) ad.ConstVector { return ob[i].(ad.ConstVector) }
	mat := func(i int) ad.Matrix { return ob[i].(ad.Matrix) }
	sc := func(i int) ad.Scalar { return ob[i].(ad.Scalar) }
	gen := !cs.Conc // the judged call goes through the interface method
	concB := false
	if cs.Conc {
		var args []any
		for i := 1; i < 3; i++ {
			if ob[i] != nil {
				args = append(args, ob[i])
			}
		}
		if cs.Op == "Vequals" || cs.Op == "Mequals" {
			args = append(args, cs.eps())
		}
		m, in, ok := concMethod(ob[0], cs.Op, args...)
		if !ok {
			o.noConc = true
			return o
		}
		if out := m.Call(in); len(out) == 1 && out[0].Kind() == reflect.Bool {
			concB = out[0].Bool()
		}
	}
	switch cs.Op {
	case "VaddV", "VsubV", "VmulV", "VdivV":
		a, bb, r := cv(1), cv(2), vec(0)
		switch {
		case !gen:
		case cs.Op == "VaddV":
			r.VaddV(a, bb)
		case cs.Op == "VsubV":
			r.VsubV(a, bb)
		case cs.Op == "VmulV":
			r.VmulV(a, bb)
		case cs.Op == "VdivV":
			r.VdivV(a, bb)
		}
		o.readVec(r, d[0], n, cs.Var, t.name)
	case "VaddS", "VsubS", "VmulS", "VdivS":
		a, s, r := cv(1), sc(2), vec(0)
		switch {
		case !gen:
		case cs.Op == "VaddS":
			r.VaddS(a, s)
		case cs.Op == "VsubS":
			r.VsubS(a, s)
		case cs.Op == "VmulS":
			r.VmulS(a, s)
		case cs.Op == "VdivS":
			r.VdivS(a, s)
		}
		o.readVec(r, d[0], n, cs.Var, t.name)
	case "VdotV":
		r := sc(0)
		r.VdotV(cv(1), cv(2))
		o.res = []jet{readScalar(r, n, cs.Var)}
	case "MdotV":
		r := vec(0)
		if gen {
			r.MdotV(mat(1), cv(2))
		}
		o.readVec(r, d[0], n, cs.Var, t.name)
	case "VdotM":
		r := vec(0)
		if gen {
			r.VdotM(cv(1), mat(2))
		}
		o.readVec(r, d[1], n, cs.Var, t.name)
	case "Vset":
		r := vec(0)
		if gen {
			r.Set(cv(1))
		}
		o.readVec(r, d[0], n, cs.Var, t.name)
	case "Vequals", "VequalsE":
		r := cv(0)
		if gen {
			o.isB, o.b = true, r.Equals(cv(1), cs.eps())
		} else {
			o.isB, o.b = true, concB
		}
		rt := t.name
		if cs.Stor[0] == 'c' {
			rt = cs.CT
		}
		o.readVec(r, d[0], n, cs.slotVar(0), rt)
	case "VjointWalk", "VcjointWalk", "MjointWalk":
		rt := t.name
		if cs.Stor[0] == 'c' {
			rt = cs.CT
		}
		at := t.name
		if cs.Stor[1] == 'c' {
			at = cs.CT
		}
		R, A := make([]float64, len(cs.R)), make([]float64, len(cs.A))
		for i := range R {
			R[i], A[i] = roundTo(rt, letterVal(cs.R[i])), roundTo(at, letterVal(cs.A[i]))
		}
		var cur *cursor
		switch cs.Op {
		case "VjointWalk":
			cur = vecCursor(vec(0).JointIterator(cv(1)), d[0])
		case "VcjointWalk":
			cur = vecCursorC(cv(0).ConstJointIterator(cv(1)), d[0])
		default:
			cur = matCursor(mat(0).JointIterator(mat(1)), d[1])
		}
		kind, msg, ran := runWalk(cur, cs.B, R, A)
		o.walk, o.walkKind, o.walkNA = msg, kind, !ran
		if cs.Op == "MjointWalk" {
			o.readMat(mat(0), d[0], d[1], n, false, rt)
		} else {
			o.readVec(cv(0), d[0], n, false, rt)
		}
	case "Vreset":
		r := vec(0)
		r.Reset()
		o.readVec(r, d[0], n, cs.Var, t.name)
	case "VasDense":
		o.readVec(ad.AsDenseVector(t.t, cv(1)), d[0], n, cs.Var, t.name)
	case "VasSparse":
		o.readVec(ad.AsSparseVector(t.t, cv(1)), d[0], n, cs.Var, t.name)
	case "VasConst":
		o.readVec(b.ct.as(cv(1)), d[0], 0, false, cs.CT)
	case "VnewSparse":
		idx, vals := lists(cs.A, cs.B)
		o.readVec(t.newSparseVec(idx, vals, d[0]), d[0], 0, false, t.name)
	case "VnewConst":
		idx, vals := lists(cs.A, cs.B)
		o.readVec(b.ct.mk(idx, vals, d[0], false), d[0], 0, false, cs.CT)
	case "VnewDense":
		_, vals := lists(cs.A, "asc")
		o.readVec(t.newDenseVec(vals), d[0], 0, false, t.name)
	case "MaddM", "MsubM", "MmulM", "MdivM":
		a, bb, r := mat(1), mat(2), mat(0)
		switch {
		case !gen:
		case cs.Op == "MaddM":
			r.MaddM(a, bb)
		case cs.Op == "MsubM":
			r.MsubM(a, bb)
		case cs.Op == "MmulM":
			r.MmulM(a, bb)
		case cs.Op == "MdivM":
			r.MdivM(a, bb)
		}
		o.readMat(r, d[0], d[1], n, cs.Var, t.name)
	case "MaddS", "MsubS", "MmulS", "MdivS":
		a, s, r := mat(1), sc(2), mat(0)
		switch {
		case !gen:
		case cs.Op == "MaddS":
			r.MaddS(a, s)
		case cs.Op == "MsubS":
			r.MsubS(a, s)
		case cs.Op == "MmulS":
			r.MmulS(a, s)
		case cs.Op == "MdivS":
			r.MdivS(a, s)
		}
		o.readMat(r, d[0], d[1], n, cs.Var, t.name)
	case "MdotM":
		r := mat(0)
		if gen {
			r.MdotM(mat(1), mat(2))
		}
		o.readMat(r, d[0], d[2], n, cs.Var, t.name)
	case "Outer":
		r := mat(0)
		if gen {
			r.Outer(cv(1), cv(2))
		}
		o.readMat(r, d[0], d[1], n, cs.Var, t.name)
	case "Mset":
		r := mat(0)
		if gen {
			r.Set(mat(1))
		}
		o.readMat(r, d[0], d[1], n, cs.Var, t.name)
	case "Mequals", "MequalsE":
		r := mat(0)
		if gen {
			o.isB, o.b = true, r.Equals(mat(1), cs.eps())
		} else {
			o.isB, o.b = true, concB
		}
		o.readMat(r, d[0], d[1], n, cs.Var, t.name)
	case "Mreset":
		r := mat(0)
		r.Reset()
		o.readMat(r, d[0], d[1], n, cs.Var, t.name)
	case "MsetIdentity":
		r := mat(0)
		r.SetIdentity()
		o.readMat(r, d[0], d[1], n, cs.Var, t.name)
	case "MasDense":
		o.readMat(ad.AsDenseMatrix(t.t, mat(1)), d[0], d[1], n, cs.Var, t.name)
	case "MasSparse":
		o.readMat(ad.AsSparseMatrix(t.t, mat(1)), d[0], d[1], n, cs.Var, t.name)
	case "MnewSparse":
		idx, vals := lists(cs.A, cs.B)
		ri, ci := make([]int, len(idx)), make([]int, len(idx))
		for k, x := range idx {
			ri[k], ci[k] = x/d[1], x%d[1]
		}
		o.readMat(t.newSparseMat(ri, ci, vals, d[0], d[1]), d[0], d[1], 0, false, t.name)
	case "MnewDense":
		_, vals := lists(cs.A, "asc")
		o.readMat(t.newDenseMat(vals, d[0], d[1]), d[0], d[1], 0, false, t.name)
	default:
		panic("harness: unknown op " + cs.Op)
	}
	return o
}

// denseTwin is the same mathematical content with every container dense.
func denseTwin(cs *Case) *Case {
	tw := *cs
	tw.Stor = strings.Map(func(r rune) rune {
		if r == 's' || r == 'c' {
			return 'd'
		}
		return r
	}, cs.Stor)
	f := func(p string, st byte) string {
		if st == '-' {
			return p
		}
		return strings.Map(func(r rune) rune {
			if r == '_' || r == 'e' {
				return '0'
			}
			return r
		}, p)
	}
	tw.R, tw.A, tw.B = f(cs.R, cs.Stor[0]), f(cs.A, cs.Stor[1]), f(cs.B, cs.Stor[2])
	return &tw
}
