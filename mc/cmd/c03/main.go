// C03: vector and matrix results do not depend on dense or sparse storage.
//
// Exhaustive small-scope enumeration: every operation × every dense/sparse storage
// combination of receiver and operands × every element pattern of a small alphabet
// (including zeros inside dense operands, explicitly stored zeros inside sparse ones and
// arbitrary prior receiver content) × every element type. The oracle is a plain dense
// reference model (model.go); the implementation result is read over ALL indices through
// the public API and must equal the model element-wise (values, and for Real elements
// with activated variables also gradient and Hessian).
//
// Added after the second seeding round (enum.go, hist.go):
//   - SparseConst*Vector (7 element types) as a third storage class of every vector
//     operand that is a ConstVector, and as receiver of Equals; AsSparseConst*/NewSparseConst*;
//   - operand histories: every sequence of at most two read-only uses (Dim, String,
//     ConstIterator walk, Float64At, ConstSlice(i,j)+ConstAt for all i<=j; rows, columns and
//     sub-matrices of matrices) of one operand before the judged call;
//   - Equals with tiny non-zero values, three epsilons (1e-8, 0.75, 0), infinities and NaN,
//     judged by the documented element comparison of the dense implementation.
//
// Added after the third seeding round (view.go, life.go, conc.go, joint.go):
//   - iteration view: every result container is read a second time through ConstIterator,
//     AsDense* and Equals (both ways) against a dense twin, and must be the same object for
//     consumers that iterate as for consumers that use random access;
//   - receiver lives: every sequence of at most two whole-container writers (Reset,
//     Set(zero), Set(non-zero), SetIdentity; Reset on every slice) applied to the receiver
//     between its construction and the judged call;
//   - concrete entry points: VADDV ... MDOTM, OUTER, SET, EQUALS of every container type
//     (dense and sparse, values and derivatives) next to the interface methods;
//   - joint-iterator traversals through the public API with clone look-ahead.
package main

import (
	"encoding/json"
	"fmt"
	"math"
	"os"
	"sort"
	"strings"
	"time"

	"verif/mc/vf"
)

// ---- classification of one run ------------------------------------------------

type verdict struct {
	fail     bool
	key      string // structural key without the elem label
	what     string
	outcome  string
	compared int
}

func panicClass(msg string) string {
	switch {
	case strings.Contains(msg, "divide by zero"):
		return "divzero"
	case strings.Contains(msg, "out of bounds"), strings.Contains(msg, "out of range"):
		return "index"
	case strings.Contains(msg, "nil pointer"), strings.Contains(msg, "nil map"):
		return "nil"
	case strings.Contains(msg, "dimension"):
		return "dims"
	case strings.Contains(msg, "interface conversion"):
		return "conversion"
	case strings.Contains(msg, "must be different"):
		return "alias-guard"
	case strings.Contains(msg, "automatic differentiation failed"):
		return "ad-n-mismatch"
	}
	return "other"
}

func hasContainer(stor string) bool { return strings.ContainsAny(stor, "dsc") }

func shapeClass(cs *Case) string {
	if cs.Op == "MdotV" || cs.Op == "VdotM" {
		switch {
		case cs.Dims[0] < cs.Dims[1]:
			return "rows<cols"
		case cs.Dims[0] > cs.Dims[1]:
			return "rows>cols"
		}
		return "rows=cols"
	}
	return "-"
}

func letterClass(c byte) string {
	switch c {
	case '_':
		return "entry-absent"
	case 'e':
		return "explicit-zero"
	case '0':
		return "zero"
	case 'z':
		return "zero-variable"
	case 'h', 'o', 'y':
		return "zero-derivative-only"
	case 't', 'u', 'n':
		return "tiny"
	case 'I', 'J':
		return "inf"
	case 'N':
		return "nan"
	}
	return "nonzero"
}

// sameValueLetter: the letter of the same value in the alphabet of storage stor.
func sameValueLetter(c byte, stor byte) byte {
	switch {
	case stor == 'd' && (c == '_' || c == 'e'):
		return '0'
	case stor != 'd' && (c == '0' || c == 'e'):
		return '_'
	}
	return c
}

// valueClass: the value of an element whatever its storage (Equals alphabets).
func valueClass(c byte) string {
	switch c {
	case '_', 'e', '0':
		return "zero"
	}
	return letterClass(c)
}

// patternClass describes the structural situation at the first failing position p.
func patternClass(cs *Case, slots [3]slot, p int) string {
	pats := [3]string{cs.effR(), cs.A, cs.B}
	// operands that share the index space of the result
	res := slots[0]
	if res.kind == 0 {
		res = slots[1]
	}
	same := func(i int) bool {
		return (slots[i].kind == 'v' || slots[i].kind == 'm') && slots[i].kind == res.kind && slots[i].size() == res.size()
	}
	elementwise := false
	switch cs.Op {
	case "VaddV", "VsubV", "VmulV", "VdivV", "VaddS", "VsubS", "VmulS", "VdivS", "Vset", "Vequals", "VequalsE",
		"MaddM", "MsubM", "MmulM", "MdivM", "MaddS", "MsubS", "MmulS", "MdivS", "Mset", "Mequals", "MequalsE":
		elementwise = true
	}
	if elementwise && p > 0 {
		// a position q<p at which every operand is zero-valued while some operand is
		// physically visited there by its iterator (dense vector element, or a stored
		// zero-valued variable): the sparse joint iterators report !Ok() at q
		for q := 0; q < p; q++ {
			allZero, phys := true, false
			for i := 0; i < 3; i++ {
				if !same(i) {
					continue
				}
				c := pats[i][q]
				if letterVal(c) != 0 {
					allZero = false
				}
				if (slots[i].kind == 'v' && cs.Stor[i] == 'd') || c == 'z' || c == 'h' || c == 'o' {
					phys = true
				}
			}
			if allZero && phys {
				return "interior-zero"
			}
		}
	}
	if p < 0 {
		return "-"
	}
	if slots[0].kind == 'v' || slots[0].kind == 'm' {
		return "recv-" + letterClass(pats[0][p])
	}
	if slots[0].kind == 's' {
		return "recv-scalar"
	}
	if slots[1].kind == 'v' || slots[1].kind == 'm' {
		return "src-" + letterClass(cs.A[p])
	}
	return "-"
}

func derivEq(a, b []float64) bool {
	n := len(a)
	if len(b) > n {
		n = len(b)
	}
	for i := 0; i < n; i++ {
		var x, y float64
		if i < len(a) {
			x = a[i]
		}
		if i < len(b) {
			y = b[i]
		}
		if x != y {
			return false
		}
	}
	return true
}

func allZero(a []float64) bool { return derivEq(a, nil) }

// judge runs the case for type t and compares with the expectation.
func judge(cs *Case, t *tinfo, ex *expect) verdict {
	slots := opSlots(cs.Op, cs.Dims)
	mk := func(p int, sym string) string {
		// the detailed symptom (stale/zero/wrong/missing) goes into the message, the key
		// keeps only its kind so that one root cause yields few keys
		kind := sym
		if i := strings.IndexByte(sym, '-'); i > 0 && (strings.HasPrefix(sym, "value-") || strings.HasPrefix(sym, "deriv-")) {
			kind = sym[:i]
		}
		pc := patternClass(cs, slots, p)
		// operand storage matters for zero patterns inside operands; for a receiver-entry
		// situation only the receiver's storage is part of the signature
		key := fmt.Sprintf("%s|%s|%s|%s", cs.Op, storClass(slots, cs.Stor, !strings.HasPrefix(pc, "recv-")), pc, kind)
		if sc := shapeClass(cs); sc != "-" {
			key += "|" + sc
		}
		return key
	}
	o := run(cs, t)
	effR := cs.effR()
	if o.noConc {
		return verdict{outcome: "no-concrete-method"}
	}
	anyUnd := false
	for _, j := range ex.res {
		anyUnd = anyUnd || j.und
	}
	if o.panicked {
		if strings.HasPrefix(o.pmsg, "harness:") {
			return verdict{fail: true, key: "HARNESS", what: o.pmsg}
		}
		if anyUnd {
			if panicClass(o.pmsg) == "divzero" {
				return verdict{outcome: "int-divide-by-zero-panic"}
			}
			return verdict{fail: true, key: mk(-1, "panic:"+panicClass(o.pmsg)), what: "expected the integer divide-by-zero panic, got panic: " + o.pmsg}
		}
		if !hasContainer(cs.Stor) {
			return verdict{fail: true, key: mk(-1, "panic:"+panicClass(o.pmsg)), what: "panic: " + o.pmsg}
		}
		if !strings.ContainsAny(cs.Stor, "sc") {
			// the all-dense configuration is the reference for loud failures
			return verdict{outcome: "dense-panic:" + panicClass(o.pmsg)}
		}
		tw := run(denseTwin(cs), t)
		if tw.panicked {
			return verdict{outcome: "consistent-panic:" + panicClass(o.pmsg)}
		}
		return verdict{fail: true, key: mk(-1, "panic:"+panicClass(o.pmsg)), what: "panics (" + o.pmsg + ") although the all-dense configuration of the same content returns a result"}
	}
	if anyUnd {
		return verdict{fail: true, key: mk(-1, "no-panic"), what: "integer division by zero did not panic (the dense implementation does)"}
	}
	if o.dimErr != "" {
		return verdict{fail: true, key: mk(-1, "dim"), what: o.dimErr}
	}
	if o.hist != "" {
		// the judged call was not reached: the key names the operand's storage only
		hs := strings.IndexByte("rab", cs.Hist[0])
		kind := map[byte]string{'v': "vector", 'm': "matrix"}[slots[hs].kind]
		return verdict{fail: true, key: "history-read|" + map[byte]string{'d': "dense", 's': "sparse", 'c': "const"}[cs.Stor[hs]] + "-" + kind,
			what: "read-only use of the operand before the call, step " + o.hist}
	}
	if o.getter != "" {
		return verdict{fail: true, key: mk(-1, "getter"), what: o.getter}
	}
	if o.walk != "" {
		phase := "plain-walk"
		if cs.B != "-" {
			phase = map[byte]string{'J': "CloneJointIterator", 'C': "CloneConstJointIterator"}[cs.B[0]]
		}
		return verdict{fail: true, key: fmt.Sprintf("%s|%s|%s|%s", cs.Op, storClass(slots, cs.Stor, true), phase, o.walkKind), what: o.walk}
	}
	if o.walkNA {
		return verdict{outcome: "walk-program-not-applicable"}
	}
	if len(o.res) != len(ex.res) {
		return verdict{fail: true, key: "HARNESS", what: fmt.Sprintf("harness: result length %d vs model %d", len(o.res), len(ex.res))}
	}
	if ex.isB && o.b != ex.b {
		// the first position that decides: with a wrong "true" the first pair of elements
		// that is not equal, with a wrong "false" the first pair that is not identical
		p := -1
		sym := "false-for-equal"
		if o.b {
			sym = "true-for-unequal"
		}
		var x, y float64
		val := func(i int) (float64, float64) {
			return roundTo(o.rtyp, letterVal(effR[i])), roundTo(o.rtyp, letterVal(cs.A[i]))
		}
		decides := func(i int) bool {
			x, y := val(i)
			return (o.b && !elemEquals(t.class, x, y, cs.eps())) || (!o.b && !(x == y))
		}
		for i := range cs.A {
			if decides(i) {
				p = i
				break
			}
		}
		isolated := false
		if cs.Op == "VequalsE" || cs.Op == "MequalsE" {
			// isolate the deciding pair: the first candidate position that alone (every other
			// operand element made identical to the receiver's) still gives the wrong verdict
			for i := range cs.A {
				if !decides(i) {
					continue
				}
				cp := *cs
				a := []byte(cs.A)
				for q := range a {
					if q != i {
						a[q] = sameValueLetter(effR[q], cs.Stor[1])
					}
				}
				cp.A = string(a)
				if o2 := run(&cp, t); !o2.panicked && o2.b == o.b {
					p, isolated = i, true
					break
				}
			}
		}
		if p >= 0 {
			x, y = val(p)
		}
		what := fmt.Sprintf("Equals(…, %v) returned %v, the dense comparison |a-b| < epsilon gives %v", cs.eps(), o.b, ex.b)
		if cs.Op == "VequalsE" || cs.Op == "MequalsE" {
			// signature: storage of the receiver, value classes of the deciding pair, where
			// |difference| lies relative to epsilon
			key := fmt.Sprintf("%s|%s|-|%s", cs.Op, storClass(slots, cs.Stor, false), sym)
			if p >= 0 && !isolated {
				// no single pair reproduces the verdict: it takes the zero pattern around it
				key = fmt.Sprintf("%s|%s|needs-several-positions|%s", cs.Op, storClass(slots, cs.Stor, false), sym)
			} else if p >= 0 {
				rel := "diff>eps"
				switch d := math.Abs(x - y); {
				case d != d || math.IsInf(x, 0) || math.IsInf(y, 0):
					rel = "diff-not-finite"
				case d < cs.eps():
					rel = "diff<eps"
				case d == cs.eps():
					rel = "diff=eps"
				}
				key = fmt.Sprintf("%s|%s|recv-%s,operand-%s|%s|%s", cs.Op, storClass(slots, cs.Stor, false), valueClass(effR[p]), valueClass(cs.A[p]), rel, sym)
			}
			if cs.eps() == 0 {
				key += "|eps=0"
			}
			return verdict{fail: true, key: key, what: what}
		}
		return verdict{fail: true, key: mk(p, sym), what: what}
	}
	for p := range ex.res {
		e, g := ex.res[p], o.res[p]
		e.v = roundTo(o.rtyp, e.v)
		if !sameClass(e.v, g.v) {
			sym := "wrong"
			if ex.prior != nil && len(ex.prior) == len(ex.res) && sameClass(g.v, ex.prior[p].v) && !ex.isB {
				sym = "stale"
			} else if g.v == 0 {
				sym = "zero"
			}
			return verdict{fail: true, key: mk(p, "value-"+sym), what: fmt.Sprintf("element %d: got %v, expected %v", p, g.v, e.v)}
		}
		if cs.Var && !e.nod {
			if !derivEq(e.d, g.d) || !derivEq(e.h, g.h) {
				sym := "wrong"
				which := "gradient"
				if derivEq(e.d, g.d) {
					which = "hessian"
				}
				if allZero(g.d) && allZero(g.h) {
					sym = "missing"
				} else if ex.prior != nil && len(ex.prior) == len(ex.res) && derivEq(g.d, ex.prior[p].d) && derivEq(g.h, ex.prior[p].h) && !ex.isB {
					sym = "stale"
				}
				return verdict{fail: true, key: mk(p, "deriv-"+sym), what: fmt.Sprintf("element %d: value %v ok, %s differs: got d=%v h=%v, expected d=%v h=%v", p, g.v, which, g.d, g.h, e.d, e.h)}
			}
		}
	}
	if o.view != "" {
		// the random-access read is right, a consumer that iterates sees something else
		return verdict{fail: true, key: mk(o.viewPos, "view:"+o.viewKind), what: o.view}
	}
	out := "ok"
	if ex.isB {
		out = fmt.Sprintf("ok:equals=%v", ex.b)
	}
	return verdict{outcome: out, compared: len(ex.res)}
}

// storClass: receiver storage and whether some container operand is dense.
func storClass(slots [3]slot, stor string, withOperands bool) string {
	var parts []string
	if k := slots[0].kind; k == 'v' || k == 'm' {
		parts = append(parts, "recv="+map[byte]string{'d': "dense", 's': "sparse", 'c': "const"}[stor[0]])
	}
	nd, ns, nc := 0, 0, 0
	for i := 1; i < 3; i++ {
		if k := slots[i].kind; k == 'v' || k == 'm' {
			switch stor[i] {
			case 'd':
				nd++
			case 'c':
				nc++
			default:
				ns++
			}
		}
	}
	switch {
	case nd+ns+nc == 0 || !withOperands:
	case ns+nc == 0:
		parts = append(parts, "operands=dense")
	case nd+nc == 0:
		parts = append(parts, "operands=sparse")
	case nd+ns == 0:
		parts = append(parts, "operands=const")
	case nc > 0:
		parts = append(parts, "operands=mixed+const")
	default:
		parts = append(parts, "operands=mixed")
	}
	if len(parts) == 0 {
		return "-"
	}
	return strings.Join(parts, ",")
}

// ---- exploration ----------------------------------------------------------------

func rankOf(cs *Case, ti int) int64 {
	sz := 0
	for _, d := range cs.Dims {
		sz += d
	}
	nz, ex := 0, 0
	for _, p := range []string{cs.R, cs.A, cs.B} {
		for i := 0; i < len(p); i++ {
			switch p[i] {
			case '1', 'm', 'z', 'h', 'o', 'y', 't', 'u', 'n', 'q', 'I', 'J', 'N':
				nz++
			case 'e':
				ex++
			}
		}
	}
	r := int64(sz)*1000000 + int64(len(cs.R)+len(cs.A)+len(cs.B))*50000 + int64(nz)*2000 + int64(ex)*500 + int64(strings.Count(cs.Stor, "s")+strings.Count(cs.Stor, "c"))*100 + int64(ti)
	r += int64(strings.Count(cs.Hist, ",")+len(cs.Hist)) * 10000
	r += int64(strings.Count(cs.Life, ",")+len(cs.Life)) * 10000
	if cs.Conc {
		r += 60
	}
	if cs.Var {
		r += 50
	}
	return r
}

type failure struct {
	types []string // labels of the failing runs ("Type" or "Type/ConstType")
	cs    *Case
	what  string
	rank  int64
	key   string
}

// dry run: only count the configurations per operation (C03_DRY=1, development aid)
func dryRun(c *vf.Ctx, fams []*family) {
	if c.Shard != 0 {
		return
	}
	for _, f := range fams {
		for _, stor := range storages(f) {
			n := int64(len(patterns(f.slots[0], stor[0], f.levels[0], f.varM))) *
				int64(len(patterns(f.slots[1], stor[1], f.levels[1], f.varM))) *
				int64(len(patterns(f.slots[2], stor[2], f.levels[2], f.varM))) * int64(len(f.hists()))
			var runs int64
			for _, t := range f.typesFor(stor) {
				runs += int64(len(f.ctypesFor(t, stor)))
			}
			n *= runs
			lab := f.op
			switch {
			case f.lifeLen > 0:
				lab = "life:" + lab
			case f.conc:
				lab = "concrete:" + lab
			case f.histSlot >= 0:
				lab = "history:" + lab
			case f.needC || f.ctOp:
				lab = "const:" + lab
			}
			if f.varM {
				lab += "+var"
			}
			c.Count("dry:"+lab, n)
			switch {
			case f.lifeLen > 0:
				c.Count("dry:TOTAL-life", n)
			case f.conc:
				c.Count("dry:TOTAL-concrete", n)
			case f.histSlot >= 0:
				c.Count("dry:TOTAL-history", n)
			case f.needC || f.ctOp:
				c.Count("dry:TOTAL-const", n)
			case isWalk(f.op):
				c.Count("dry:TOTAL-joint-walk", n)
			case f.op == "VequalsE" || f.op == "MequalsE":
				c.Count("dry:TOTAL-equals-eps", n)
			default:
				c.Count("dry:TOTAL-base", n)
			}
			if f.derivOnlyAlphabet() {
				c.Count("dry:TOTAL-derivative-only-alphabet", n)
			}
			c.Count("dry:TOTAL", n)
		}
	}
	c.Cap("dry run")
}

// groupLabel names a set of failing element types relative to the types that were run:
// "every-type", whole classes ("float+real": e.g. where integer truncation hides the
// failure), or the explicit list (a defect in a single instantiation).
func groupLabel(failing, comparable []string, class func(string) string) string {
	nf, nc := map[string]int{}, map[string]int{}
	for _, n := range comparable {
		nc[class(n)]++
	}
	for _, n := range failing {
		nf[class(n)]++
	}
	if len(failing) == len(comparable) {
		return "every-type" // every type run for this configuration
	}
	var cl []string
	for _, k := range []string{"int", "float", "real"} {
		if nf[k] == 0 {
			continue
		}
		if nf[k] != nc[k] || nc[k] < 2 {
			return strings.Join(failing, ",")
		}
		cl = append(cl, k)
	}
	return strings.Join(cl, "+")
}

func uniq(xs []string) []string {
	seen := map[string]bool{}
	var r []string
	for _, x := range xs {
		if x != "" && !seen[x] {
			seen[x] = true
			r = append(r, x)
		}
	}
	return r
}

// classLabel (families added with the SparseConst operands, histories and Equals
// alphabets, whose type sets differ between shapes): the element classes whose run
// members all fail ("float+real"; "every-type" when that is all three classes), or the
// explicit list when a class fails only in part (a defect in a single instantiation).
func classLabel(failing, comparable []string, class func(string) string, nclasses int) string {
	nf, nc := map[string]int{}, map[string]int{}
	for _, n := range comparable {
		nc[class(n)]++
	}
	for _, n := range failing {
		nf[class(n)]++
	}
	var cl []string
	for _, k := range []string{"int", "float", "real"} {
		if nf[k] == 0 {
			continue
		}
		if nf[k] != nc[k] {
			return strings.Join(failing, ",")
		}
		cl = append(cl, k)
	}
	if len(cl) == nclasses {
		return "every-type"
	}
	return strings.Join(cl, "+")
}

// elemLabel: failing/comparable are "Type" or "Type/ConstType" run labels.
func elemLabel(failing, comparable []string, byClass, cross bool) string {
	split := func(xs []string, k int) []string {
		var r []string
		for _, x := range xs {
			p := strings.SplitN(x, "/", 2)
			if k < len(p) {
				r = append(r, p[k])
			}
		}
		return uniq(r)
	}
	tc := func(n string) string { return typeByName(n).class }
	cc := func(n string) string { return ctypeByName(n).class }
	if !byClass {
		return groupLabel(split(failing, 0), split(comparable, 0), tc)
	}
	lab := classLabel(split(failing, 0), split(comparable, 0), tc, 3)
	if cross { // receiver and SparseConst element types vary independently
		lab += ",const=" + classLabel(split(failing, 1), split(comparable, 1), cc, 2)
	}
	return lab
}

// fullKey: the verdict's key plus the class of the (minimal) history and the type label.
func fullKey(cs *Case, key string) string {
	if cs.Hist != "" {
		key += "|after=" + histClass(cs.Hist)
	}
	if cs.Life != "" {
		key += "|receiver-life=" + lifeClass(cs.Life)
	}
	if cs.Conc {
		key += "|concrete-method"
	}
	return key + "|elem=" + cs.Elem
}

// minimalHistory: if the failure of cs (with a two-step history) also occurs with a
// shorter history, return that one (the shortest; "" = no history needed at all).
func minimalHistory(cs *Case, t *tinfo, ex *expect) (string, verdict) {
	for _, h := range subHistories(cs.Hist) {
		cp := *cs
		cp.Hist = h
		if v := judge(&cp, t, ex); v.fail {
			return h, v
		}
	}
	return cs.Hist, verdict{}
}

// minimalLife: the same for a receiver life (the expectation depends on the life).
func minimalLife(cs *Case, t *tinfo) (string, verdict) {
	for _, l := range subLives(cs.Life) {
		cp := *cs
		cp.Life = l
		if v := judge(&cp, t, expected(&cp, t.class)); v.fail {
			return l, v
		}
	}
	return cs.Life, verdict{}
}

// minimalRecv (families over the derivative-only alphabet): if the failure of cs also
// occurs with a receiver that holds nothing before the call (no entries / all zero),
// return that prior content.
func minimalRecv(cs *Case, t *tinfo) (string, verdict) {
	if k := opSlots(cs.Op, cs.Dims)[0].kind; k != 'v' && k != 'm' {
		return cs.R, verdict{}
	}
	z := "_"
	if cs.Stor[0] == 'd' {
		z = "0"
	}
	r := strings.Repeat(z, len(cs.R))
	if r == cs.R {
		return cs.R, verdict{}
	}
	cp := *cs
	cp.R = r
	if v := judge(&cp, t, expected(&cp, t.class)); v.fail {
		return r, v
	}
	return cs.R, verdict{}
}

func (f *family) derivOnlyAlphabet() bool {
	return f.levels[0] == 8 || f.levels[1] == 8 || f.levels[2] == 8
}

func explore(c *vf.Ctx) {
	fams := families(c.Tier)
	if os.Getenv("C03_DRY") != "" {
		dryRun(c, fams)
		return
	}
	var idx int64
	var evals, nontriv int64
	outcomes := map[string]int64{}
	counts := map[string]int64{}
	flush := func() {
		c.Eval(evals)
		c.Nontrivial(nontriv)
		evals, nontriv = 0, 0
	}
	defer func() { // also when the soft deadline ends the enumeration early
		keys := make([]string, 0, len(outcomes))
		for k := range outcomes {
			keys = append(keys, k)
		}
		sort.Strings(keys)
		for _, k := range keys {
			c.Outcome(k)
			c.Count("outcome:"+k, outcomes[k])
		}
		for k, n := range counts {
			c.Count(k, n)
		}
		c.Count("iteration-views-completed", viewsDone)
		if c.Shard == 0 {
			c.Count("families", int64(len(fams)))
		}
	}()
	for fi, f := range fams {
		hists := f.hists()
		group := "base"
		switch {
		case f.lifeLen > 0:
			group = "receiver-life"
		case f.conc:
			group = "concrete-entry-point"
		case f.histSlot >= 0:
			group = "operand-history"
		case f.needC || f.ctOp:
			group = "sparse-const-operand"
		case f.op == "VequalsE" || f.op == "MequalsE":
			group = "equals-epsilon"
		case isWalk(f.op):
			group = "joint-iterator-walk"
		}
		var groupEvals int64
		defer func(g string) { counts["evaluations:"+g] += groupEvals }(group)
		if f.derivOnlyAlphabet() {
			// also counted in its group (base, concrete-entry-point or receiver-life)
			defer func() { counts["evaluations:with-derivative-only-alphabet"] += groupEvals }()
		}
		for _, stor := range storages(f) {
			pr := patterns(f.slots[0], stor[0], f.levels[0], f.varM)
			pa := patterns(f.slots[1], stor[1], f.levels[1], f.varM)
			pb := patterns(f.slots[2], stor[2], f.levels[2], f.varM)
			type runT struct {
				t     *tinfo
				ct    *cinfo
				label string
			}
			var runs []runT
			for _, t := range f.typesFor(stor) {
				for _, ct := range f.ctypesFor(t, stor) {
					r := runT{t: t, ct: ct, label: t.name}
					if ct != nil {
						r.label += "/" + ct.name
					}
					runs = append(runs, r)
				}
			}
			for _, r := range pr {
				for _, a := range pa {
					idx++
					if !c.Mine(idx) {
						continue
					}
					if c.Expired() {
						c.Cap("soft deadline reached before the enumeration was complete")
						flush()
						return
					}
					c.Guard(fmt.Sprintf("%s|%s", f.op, stor), int64(fi), map[string]any{"op": f.op, "dims": f.dims, "storage": stor, "recv": r, "a": a})
					for _, b := range pb {
						base := Case{Op: f.op, Var: f.varM, Dims: f.dims, Stor: stor, R: r, A: a, B: b, Conc: f.conc}
						if f.varM && base.nvars() == 0 {
							continue // identical to the case without variables
						}
						var exs [3]*expect // per class
						for _, h := range hists {
							cs := base
							if f.lifeLen > 0 {
								cs.Life = h
								exs = [3]*expect{} // the expectation depends on the life
							} else {
								cs.Hist = h
							}
							fails := map[string]*failure{}
							var compTypes []string // runs that did not end in an accepted panic
							for ri, rn := range runs {
								t := rn.t
								ci := map[string]int{"int": 0, "float": 1, "real": 2}[t.class]
								if exs[ci] == nil {
									exs[ci] = expected(&cs, t.class)
								}
								cs.Type, cs.CT = t.name, ""
								if rn.ct != nil {
									cs.CT = rn.ct.name
								}
								v := judge(&cs, t, exs[ci])
								evals++
								groupEvals++
								if v.fail || strings.HasPrefix(v.outcome, "ok") {
									compTypes = append(compTypes, rn.label)
								}
								if v.fail {
									if v.key == "HARNESS" {
										c.HarnessError(v.what + " in " + cs.String())
										continue
									}
									// a failure must reproduce (map iteration order etc.)
									if v2 := judge(&cs, t, exs[ci]); !v2.fail || v2.key != v.key {
										c.HarnessError("verdict not reproducible for " + cs.String() + ": " + v.key + " vs " + v2.key)
										continue
									}
									cp := cs
									if cs.Hist != "" {
										// attribute the failure to the shortest history that shows it
										// ("": the plain configuration fails as well)
										if mh, mv := minimalHistory(&cs, t, exs[ci]); mh != cs.Hist {
											cp.Hist, v = mh, mv
										}
									}
									if cs.Life != "" {
										if ml, mv := minimalLife(&cs, t); ml != cs.Life {
											cp.Life, v = ml, mv
										}
									}
									if f.derivOnlyAlphabet() {
										if mr, mv := minimalRecv(&cp, t); mr != cp.R {
											cp.R, v = mr, mv
										}
									}
									fk := v.key
									if cp.Hist != "" {
										fk += "|after=" + histClass(cp.Hist)
									}
									if cp.Life != "" {
										fk += "|receiver-life=" + lifeClass(cp.Life)
									}
									fl := fails[fk]
									if fl == nil {
										fl = &failure{cs: &cp, what: v.what, rank: rankOf(&cp, ri), key: v.key}
										fails[fk] = fl
									}
									fl.types = append(fl.types, rn.label)
									outcomes[f.op+"|FAIL"]++
								} else {
									out := v.outcome
									switch {
									case h != "" && f.lifeLen > 0:
										out += "|after-receiver-life"
									case h != "":
										out += "|after-history"
									}
									if f.conc {
										out += "|concrete-method"
									}
									outcomes[f.op+"|"+out]++
									if v.compared > 0 || (v.outcome != "" && strings.HasPrefix(v.outcome, "ok:equals")) {
										nontriv++
									}
								}
							}
							for _, fl := range fails {
								fl.cs.Elem = elemLabel(fl.types, compTypes, group != "base", f.cross)
								fl.cs.Types = fl.types
								first := strings.SplitN(fl.types[0], "/", 2)
								fl.cs.Type, fl.cs.CT = first[0], ""
								if len(first) > 1 {
									fl.cs.CT = first[1]
								}
								c.Violate(fullKey(fl.cs, fl.key), fmt.Sprintf("%s :: %s", fl.cs.String(), fl.what), fl.rank, fl.cs)
							}
						}
						if evals > 100000 {
							flush()
						}
						if idx%4001 == 17 && b == pb[len(pb)-1] {
							if f.lifeLen > 0 {
								base.Life = hists[len(hists)-1]
							} else {
								base.Hist = hists[len(hists)-1]
							}
							c.Sample(map[string]any{"case": base.String(), "runs_per_case": len(runs), "histories": len(hists)})
						}
					}
				}
			}
		}
	}
	flush()
}

func main() {
	vf.Main(vf.Spec{
		ID:    "C03",
		Level: "exploration",
		Rule: "exhaustive product, per operation and shape, of storage combinations (receiver and each operand independently dense/sparse) × element patterns (dense {0,1,-2}; sparse {no entry, explicitly stored zero, 1, -2}; with variables additionally a zero-valued variable) for receiver prior content and both operands × element types (all 9 at the small shapes; at the largest shapes of a tier a reduced per-position alphabet {0|no entry, explicit zero, x} and a subset of types, see families() in enum.go); " +
			"further families (listed in families()): (i) the same operations with SparseConst<T>Vector operands (third storage class of every ConstVector operand, receiver of Equals; all 7 element types, crossed with all 9 receiver types at n<=2), AsSparseConst*/NewSparseConst*; " +
			"(ii) operand histories: every sequence of 1..2 read-only uses {Dim, String, ConstIterator walk, Float64At over all indices, ConstSlice(i,j) then ConstAt over the slice for all i<=j (matrices: ConstRow/ConstCol/every sub-matrix)} applied to one operand (each operand in turn, every storage class) between construction and the judged call, every value read in the history compared as well; " +
			"(iii) Equals (vector and matrix, every storage combination incl. SparseConst) over the alphabets {0|no entry, explicit zero, ±1e-17, 1e-9, 0.75, 1} and {0|no entry, explicit zero, 1, ±Inf, NaN} × epsilon {1e-8, 0.75, 0}, reference |a-b| < epsilon (or both NaN / same infinity; integers exact) on the dense model; " +
			"(iv) iteration view (every family): after the element-wise read through ConstAt/Float64At every result container is read again through a ConstIterator walk (order, element = ConstAt element incl. derivatives, no non-zero element skipped), through AsDenseVector/AsDenseMatrix of the same element type (all elements incl. derivatives) and through Equals against a dense twin of the ConstAt values, asked both ways; " +
			"(v) receiver lives: every operation with a container receiver after every sequence of 1..2 whole-container writers {Reset, Set(all-zero dense), Set(all-zero sparse), Set(constants 1/-2 dense), Set(the same sparse), matrices: SetIdentity} and, as one-step lives, Reset on every non-empty slice/sub-matrix and on one empty slice, applied to the receiver (prior content from the full alphabet, with variables for Real) before the judged call; the model's receiver is the content after the life; all 9 element types; " +
			"(vi) concrete entry points: the same products for VADDV VSUBV VMULV VDIVV VADDS VSUBS VMULS VDIVS MDOTV VDOTM MADDM..MDIVS MDOTM OUTER SET EQUALS, called by name on the receiver's dynamic type, in the storage combinations where receiver and container operands share one storage class (all dense, all sparse) and the type has a method of that name taking the operands' concrete types; all 9 element types, Real types also with variables in receiver and operands (gradient and Hessian compared); " +
			"(vii) joint-iterator traversals: Vector.JointIterator, ConstVector.ConstJointIterator (also SparseConst receivers and operands) and Matrix.JointIterator over receiver × operand patterns × storage, walked by the programs {plain; clone (CloneJointIterator | CloneConstJointIterator) after k steps, clone advanced j steps, original continued} for all k in 0..size, j in 1..size: every stream strictly increasing, no position skipped where receiver or operand is non-zero, yielded elements = the elements at the position; " +
			"(viii) derivative-only elements (Real32 and Real64, order 2): the operations of the base product, their concrete entry points and one-step receiver lives over the per-position alphabet dense {0, x, z, h, o, y} / sparse {no entry, explicit zero, x, z, h, o, y} with x a non-zero variable and, all of value 0, z = a variable at 0 (gradient only), h = x_k*x_k at 0 (one diagonal Hessian entry only), o = x_k*x_l at (0,0) (off-diagonal Hessian entries only), y = a zero with allocated all-zero derivatives of order 2; the number of variables is the number the letters introduce (1, 2 and more occur); vectors n=1, 1x1 matrices: the alphabet in receiver prior content and both operands (and the scalar operand) at once; vectors n=2, 1x2/2x1 matrices, products with n*k*m<=2 (thorough: 2x2, n=2 in all slots at once): in one slot at a time resp. in both operands of a product; value, gradient and every Hessian entry compared; " +
			"every configuration is distinct by construction; one is counted non-trivial when the library returned a result that was compared element-wise with the dense reference model over at least one element (or an Equals verdict); runs ending in a panic shared with the all-dense configuration are counted as evaluations only",
		Assume: []string{
			"a panic is an acceptable outcome of a configuration iff the all-dense configuration of the same mathematical content panics as well (loud failure itself is C20's subject)",
			"exact regime: all values are small integers/dyadics, division only by ±1, ±2 or IEEE division by zero compared by class; derivatives are not compared at elements produced by a division by zero",
			"operands are whole containers (no slices/transposes: C10; slices only appear as objects derived in an operand history or reset in a receiver life), receiver never aliases an operand (C08); concrete methods are compared with the same dense model as the interface methods (the generic-vs-concrete differential over all argument shapes is C09)",
			"a failure under a receiver life is attributed to the shortest sub-life (possibly none) that still shows it; a walk program whose k exceeds the length of the stream, or whose clone kind the iterator does not offer, is counted as evaluation only",
			"a SparseConst vector with an explicitly stored zero is built with UnsafeSparseConst<T>Vector from sorted index/value lists; every other one with NewSparseConst<T>Vector",
			"a failure under a history is attributed to the shortest sub-history (possibly the empty one) that still shows it",
			"derivative-only elements are written through the scalar interface (Alloc, SetHessian, SetVariable) into the element returned by At; a failure in a family over the derivative-only alphabet is attributed to the empty receiver (no entries / all zero) when that still shows it",
		},
		Run:       explore,
		SoftLimit: map[string]time.Duration{"quick": 100 * time.Second, "thorough": 14 * time.Minute},
		Replay: func(c *vf.Ctx, raw json.RawMessage) {
			var cs Case
			if err := json.Unmarshal(raw, &cs); err != nil {
				c.HarnessError(err.Error())
				return
			}
			t := typeByName(cs.Type)
			if t == nil {
				c.HarnessError("unknown type " + cs.Type)
				return
			}
			v := judge(&cs, t, expected(&cs, t.class))
			if v.fail {
				c.Violate(fullKey(&cs, v.key), cs.String()+" :: "+v.what, 0, &cs)
			}
		},
	})
}
