// C03: vector and matrix results do not depend on dense or sparse storage.
//
// Exhaustive small-scope enumeration: every operation × every dense/sparse storage
// combination of receiver and operands × every element pattern of a small alphabet
// (including zeros inside dense operands, explicitly stored zeros inside sparse ones and
// arbitrary prior receiver content) × every element type. The oracle is a plain dense
// reference model (model.go); the implementation result is read over ALL indices through
// the public API and must equal the model element-wise (values, and for Real elements
// with activated variables also gradient and Hessian).
package main

import (
	"encoding/json"
	"fmt"
	"os"
	"sort"
	"strings"
	"time"

	"verif/mc/vf"
)

// ---- classification of one run ------------------------------------------------

type verdict struct {
	fail     bool
	key      string // structural key without the elem label
	what     string
	outcome  string
	compared int
}

func panicClass(msg string) string {
	switch {
	case strings.Contains(msg, "divide by zero"):
		return "divzero"
	case strings.Contains(msg, "out of bounds"), strings.Contains(msg, "out of range"):
		return "index"
	case strings.Contains(msg, "nil pointer"), strings.Contains(msg, "nil map"):
		return "nil"
	case strings.Contains(msg, "dimension"):
		return "dims"
	case strings.Contains(msg, "interface conversion"):
		return "conversion"
	case strings.Contains(msg, "must be different"):
		return "alias-guard"
	case strings.Contains(msg, "automatic differentiation failed"):
		return "ad-n-mismatch"
	}
	return "other"
}

func hasContainer(stor string) bool { return strings.ContainsAny(stor, "ds") }

func shapeClass(cs *Case) string {
	if cs.Op == "MdotV" || cs.Op == "VdotM" {
		switch {
		case cs.Dims[0] < cs.Dims[1]:
			return "rows<cols"
		case cs.Dims[0] > cs.Dims[1]:
			return "rows>cols"
		}
		return "rows=cols"
	}
	return "-"
}

func letterClass(c byte) string {
	switch c {
	case '_':
		return "entry-absent"
	case 'e':
		return "explicit-zero"
	case '0':
		return "zero"
	case 'z':
		return "zero-variable"
	}
	return "nonzero"
}

// patternClass describes the structural situation at the first failing position p.
func patternClass(cs *Case, slots [3]slot, p int) string {
	pats := [3]string{cs.R, cs.A, cs.B}
	// operands that share the index space of the result
	res := slots[0]
	if res.kind == 0 {
		res = slots[1]
	}
	same := func(i int) bool {
		return (slots[i].kind == 'v' || slots[i].kind == 'm') && slots[i].kind == res.kind && slots[i].size() == res.size()
	}
	elementwise := false
	switch cs.Op {
	case "VaddV", "VsubV", "VmulV", "VdivV", "VaddS", "VsubS", "VmulS", "VdivS", "Vset", "Vequals",
		"MaddM", "MsubM", "MmulM", "MdivM", "MaddS", "MsubS", "MmulS", "MdivS", "Mset", "Mequals":
		elementwise = true
	}
	if elementwise && p > 0 {
		// a position q<p at which every operand is zero-valued while some operand is
		// physically visited there by its iterator (dense vector element, or a stored
		// zero-valued variable): the sparse joint iterators report !Ok() at q
		for q := 0; q < p; q++ {
			allZero, phys := true, false
			for i := 0; i < 3; i++ {
				if !same(i) {
					continue
				}
				c := pats[i][q]
				if letterVal(c) != 0 {
					allZero = false
				}
				if (slots[i].kind == 'v' && cs.Stor[i] == 'd') || c == 'z' {
					phys = true
				}
			}
			if allZero && phys {
				return "interior-zero"
			}
		}
	}
	if p < 0 {
		return "-"
	}
	if slots[0].kind == 'v' || slots[0].kind == 'm' {
		return "recv-" + letterClass(cs.R[p])
	}
	if slots[0].kind == 's' {
		return "recv-scalar"
	}
	if slots[1].kind == 'v' || slots[1].kind == 'm' {
		return "src-" + letterClass(cs.A[p])
	}
	return "-"
}

func derivEq(a, b []float64) bool {
	n := len(a)
	if len(b) > n {
		n = len(b)
	}
	for i := 0; i < n; i++ {
		var x, y float64
		if i < len(a) {
			x = a[i]
		}
		if i < len(b) {
			y = b[i]
		}
		if x != y {
			return false
		}
	}
	return true
}

func allZero(a []float64) bool { return derivEq(a, nil) }

// judge runs the case for type t and compares with the expectation.
func judge(cs *Case, t *tinfo, ex *expect) verdict {
	slots := opSlots(cs.Op, cs.Dims)
	mk := func(p int, sym string) string {
		// the detailed symptom (stale/zero/wrong/missing) goes into the message, the key
		// keeps only its kind so that one root cause yields few keys
		kind := sym
		if i := strings.IndexByte(sym, '-'); i > 0 && (strings.HasPrefix(sym, "value-") || strings.HasPrefix(sym, "deriv-")) {
			kind = sym[:i]
		}
		pc := patternClass(cs, slots, p)
		// operand storage matters for zero patterns inside operands; for a receiver-entry
		// situation only the receiver's storage is part of the signature
		key := fmt.Sprintf("%s|%s|%s|%s", cs.Op, storClass(slots, cs.Stor, !strings.HasPrefix(pc, "recv-")), pc, kind)
		if sc := shapeClass(cs); sc != "-" {
			key += "|" + sc
		}
		return key
	}
	o := run(cs, t)
	anyUnd := false
	for _, j := range ex.res {
		anyUnd = anyUnd || j.und
	}
	if o.panicked {
		if strings.HasPrefix(o.pmsg, "harness:") {
			return verdict{fail: true, key: "HARNESS", what: o.pmsg}
		}
		if anyUnd {
			if panicClass(o.pmsg) == "divzero" {
				return verdict{outcome: "int-divide-by-zero-panic"}
			}
			return verdict{fail: true, key: mk(-1, "panic:"+panicClass(o.pmsg)), what: "expected the integer divide-by-zero panic, got panic: " + o.pmsg}
		}
		if !hasContainer(cs.Stor) {
			return verdict{fail: true, key: mk(-1, "panic:"+panicClass(o.pmsg)), what: "panic: " + o.pmsg}
		}
		if !strings.Contains(cs.Stor, "s") {
			// the all-dense configuration is the reference for loud failures
			return verdict{outcome: "dense-panic:" + panicClass(o.pmsg)}
		}
		tw := run(denseTwin(cs), t)
		if tw.panicked {
			return verdict{outcome: "consistent-panic:" + panicClass(o.pmsg)}
		}
		return verdict{fail: true, key: mk(-1, "panic:"+panicClass(o.pmsg)), what: "panics (" + o.pmsg + ") although the all-dense configuration of the same content returns a result"}
	}
	if anyUnd {
		return verdict{fail: true, key: mk(-1, "no-panic"), what: "integer division by zero did not panic (the dense implementation does)"}
	}
	if o.dimErr != "" {
		return verdict{fail: true, key: mk(-1, "dim"), what: o.dimErr}
	}
	if o.getter != "" {
		return verdict{fail: true, key: mk(-1, "getter"), what: o.getter}
	}
	if len(o.res) != len(ex.res) {
		return verdict{fail: true, key: "HARNESS", what: fmt.Sprintf("harness: result length %d vs model %d", len(o.res), len(ex.res))}
	}
	if ex.isB && o.b != ex.b {
		p := -1
		sym := "false-for-equal"
		if o.b {
			sym = "true-for-unequal"
			for i := range cs.A {
				if letterVal(cs.A[i]) != letterVal(cs.R[i]) {
					p = i
					break
				}
			}
		}
		return verdict{fail: true, key: mk(p, sym), what: fmt.Sprintf("Equals returned %v, contents equal: %v", o.b, ex.b)}
	}
	for p := range ex.res {
		e, g := ex.res[p], o.res[p]
		if !sameClass(e.v, g.v) {
			sym := "wrong"
			if ex.prior != nil && len(ex.prior) == len(ex.res) && sameClass(g.v, ex.prior[p].v) && !ex.isB {
				sym = "stale"
			} else if g.v == 0 {
				sym = "zero"
			}
			return verdict{fail: true, key: mk(p, "value-"+sym), what: fmt.Sprintf("element %d: got %v, expected %v", p, g.v, e.v)}
		}
		if cs.Var && !e.nod {
			if !derivEq(e.d, g.d) || !derivEq(e.h, g.h) {
				sym := "wrong"
				which := "gradient"
				if derivEq(e.d, g.d) {
					which = "hessian"
				}
				if allZero(g.d) && allZero(g.h) {
					sym = "missing"
				} else if ex.prior != nil && len(ex.prior) == len(ex.res) && derivEq(g.d, ex.prior[p].d) && derivEq(g.h, ex.prior[p].h) && !ex.isB {
					sym = "stale"
				}
				return verdict{fail: true, key: mk(p, "deriv-"+sym), what: fmt.Sprintf("element %d: value %v ok, %s differs: got d=%v h=%v, expected d=%v h=%v", p, g.v, which, g.d, g.h, e.d, e.h)}
			}
		}
	}
	out := "ok"
	if ex.isB {
		out = fmt.Sprintf("ok:equals=%v", ex.b)
	}
	return verdict{outcome: out, compared: len(ex.res)}
}

// storClass: receiver storage and whether some container operand is dense.
func storClass(slots [3]slot, stor string, withOperands bool) string {
	var parts []string
	if k := slots[0].kind; k == 'v' || k == 'm' {
		parts = append(parts, "recv="+map[byte]string{'d': "dense", 's': "sparse"}[stor[0]])
	}
	nd, ns := 0, 0
	for i := 1; i < 3; i++ {
		if k := slots[i].kind; k == 'v' || k == 'm' {
			if stor[i] == 'd' {
				nd++
			} else {
				ns++
			}
		}
	}
	switch {
	case nd+ns == 0 || !withOperands:
	case ns == 0:
		parts = append(parts, "operands=dense")
	case nd == 0:
		parts = append(parts, "operands=sparse")
	default:
		parts = append(parts, "operands=mixed")
	}
	if len(parts) == 0 {
		return "-"
	}
	return strings.Join(parts, ",")
}

// ---- exploration ----------------------------------------------------------------

func rankOf(cs *Case, ti int) int64 {
	sz := 0
	for _, d := range cs.Dims {
		sz += d
	}
	nz, ex := 0, 0
	for _, p := range []string{cs.R, cs.A, cs.B} {
		for i := 0; i < len(p); i++ {
			switch p[i] {
			case '1', 'm', 'z':
				nz++
			case 'e':
				ex++
			}
		}
	}
	r := int64(sz)*1000000 + int64(len(cs.R)+len(cs.A)+len(cs.B))*50000 + int64(nz)*2000 + int64(ex)*500 + int64(strings.Count(cs.Stor, "s"))*100 + int64(ti)
	if cs.Var {
		r += 50
	}
	return r
}

type failure struct {
	types []string
	cs    *Case
	what  string
	rank  int64
}

// dry run: only count the configurations per operation (C03_DRY=1, development aid)
func dryRun(c *vf.Ctx, fams []*family) {
	if c.Shard != 0 {
		return
	}
	for _, f := range fams {
		for _, stor := range storages(f) {
			n := int64(len(patterns(f.slots[0], stor[0], f.levels[0], f.varM))) *
				int64(len(patterns(f.slots[1], stor[1], f.levels[1], f.varM))) *
				int64(len(patterns(f.slots[2], stor[2], f.levels[2], f.varM))) * int64(len(f.types))
			lab := f.op
			if f.varM {
				lab += "+var"
			}
			c.Count("dry:"+lab, n)
			c.Count("dry:TOTAL", n)
		}
	}
	c.Cap("dry run")
}

// elemLabel names the set of failing element types: "every-type", whole classes
// ("float+real": e.g. where integer truncation hides the failure), or the explicit list
// (a defect in a single instantiation).
func elemLabel(failing, comparable []string) string {
	nf, nc := map[string]int{}, map[string]int{}
	for _, n := range comparable {
		nc[typeByName(n).class]++
	}
	for _, n := range failing {
		nf[typeByName(n).class]++
	}
	if len(failing) == len(comparable) {
		return "every-type" // every type run for this configuration
	}
	var cl []string
	for _, k := range []string{"int", "float", "real"} {
		if nf[k] == 0 {
			continue
		}
		if nf[k] != nc[k] || nc[k] < 2 {
			return strings.Join(failing, ",")
		}
		cl = append(cl, k)
	}
	return strings.Join(cl, "+")
}

func explore(c *vf.Ctx) {
	fams := families(c.Tier)
	if os.Getenv("C03_DRY") != "" {
		dryRun(c, fams)
		return
	}
	var idx int64
	var evals, nontriv int64
	outcomes := map[string]int64{}
	flush := func() {
		c.Eval(evals)
		c.Nontrivial(nontriv)
		evals, nontriv = 0, 0
	}
	defer func() { // also when the soft deadline ends the enumeration early
		keys := make([]string, 0, len(outcomes))
		for k := range outcomes {
			keys = append(keys, k)
		}
		sort.Strings(keys)
		for _, k := range keys {
			c.Outcome(k)
			c.Count("outcome:"+k, outcomes[k])
		}
		if c.Shard == 0 {
			c.Count("families", int64(len(fams)))
		}
	}()
	for fi, f := range fams {
		for _, stor := range storages(f) {
			pr := patterns(f.slots[0], stor[0], f.levels[0], f.varM)
			pa := patterns(f.slots[1], stor[1], f.levels[1], f.varM)
			pb := patterns(f.slots[2], stor[2], f.levels[2], f.varM)
			for _, r := range pr {
				for _, a := range pa {
					idx++
					if !c.Mine(idx) {
						continue
					}
					if c.Expired() {
						c.Cap("soft deadline reached before the enumeration was complete")
						flush()
						return
					}
					c.Guard(fmt.Sprintf("%s|%s", f.op, stor), int64(fi), map[string]any{"op": f.op, "dims": f.dims, "storage": stor, "recv": r, "a": a})
					for _, b := range pb {
						cs := Case{Op: f.op, Var: f.varM, Dims: f.dims, Stor: stor, R: r, A: a, B: b}
						if f.varM && countVars(a, true)+countVars(b, true)+countVars(r, true) == 0 {
							continue // identical to the case without variables
						}
						var exs [3]*expect // per class
						fails := map[string]*failure{}
						var compTypes []string // types whose run did not end in an accepted panic
						for ti, t := range f.types {
							ci := map[string]int{"int": 0, "float": 1, "real": 2}[t.class]
							if exs[ci] == nil {
								exs[ci] = expected(&cs, t.class)
							}
							cs.Type = t.name
							v := judge(&cs, t, exs[ci])
							evals++
							if v.fail || strings.HasPrefix(v.outcome, "ok") {
								compTypes = append(compTypes, t.name)
							}
							if v.fail {
								if v.key == "HARNESS" {
									c.HarnessError(v.what + " in " + cs.String())
									continue
								}
								// a failure must reproduce (map iteration order etc.)
								if v2 := judge(&cs, t, exs[ci]); !v2.fail || v2.key != v.key {
									c.HarnessError("verdict not reproducible for " + cs.String() + ": " + v.key + " vs " + v2.key)
									continue
								}
								fl := fails[v.key]
								if fl == nil {
									cp := cs
									fl = &failure{cs: &cp, what: v.what, rank: rankOf(&cs, ti)}
									fails[v.key] = fl
								}
								fl.types = append(fl.types, t.name)
								outcomes[f.op+"|FAIL"]++
							} else {
								outcomes[f.op+"|"+v.outcome]++
								if v.compared > 0 || (v.outcome != "" && strings.HasPrefix(v.outcome, "ok:equals")) {
									nontriv++
								}
							}
						}
						for key, fl := range fails {
							label := elemLabel(fl.types, compTypes)
							fl.cs.Elem = label
							fl.cs.Types = fl.types
							c.Violate(key+"|elem="+label, fmt.Sprintf("%s :: %s", fl.cs.String(), fl.what), fl.rank, fl.cs)
						}
						if evals > 100000 {
							flush()
						}
						if idx%4001 == 17 && b == pb[len(pb)-1] {
							c.Sample(map[string]any{"case": cs.String(), "types_run": len(f.types)})
						}
					}
				}
			}
		}
	}
	flush()
}

func main() {
	vf.Main(vf.Spec{
		ID:    "C03",
		Level: "exploration",
		Rule: "exhaustive product, per operation and shape, of storage combinations (receiver and each operand independently dense/sparse) × element patterns (dense {0,1,-2}; sparse {no entry, explicitly stored zero, 1, -2}; with variables additionally a zero-valued variable) for receiver prior content and both operands × element types (all 9 at the small shapes; at the largest shapes of a tier a reduced per-position alphabet {0|no entry, explicit zero, x} and a subset of types, see families() in enum.go); " +
			"every configuration is distinct by construction; one is counted non-trivial when the library returned a result that was compared element-wise with the dense reference model over at least one element (or an Equals verdict); runs ending in a panic shared with the all-dense configuration are counted as evaluations only",
		Assume: []string{
			"a panic is an acceptable outcome of a configuration iff the all-dense configuration of the same mathematical content panics as well (loud failure itself is C20's subject)",
			"exact regime: all values are small integers/dyadics, division only by ±1, ±2 or IEEE division by zero compared by class; derivatives are not compared at elements produced by a division by zero",
			"operands are whole containers (no slices/transposes: C10), receiver never aliases an operand (C08), generic interface methods only (concrete VADDV… are C09)",
		},
		Run:       explore,
		SoftLimit: map[string]time.Duration{"quick": 100 * time.Second, "thorough": 14 * time.Minute},
		Replay: func(c *vf.Ctx, raw json.RawMessage) {
			var cs Case
			if err := json.Unmarshal(raw, &cs); err != nil {
				c.HarnessError(err.Error())
				return
			}
			t := typeByName(cs.Type)
			if t == nil {
				c.HarnessError("unknown type " + cs.Type)
				return
			}
			v := judge(&cs, t, expected(&cs, t.class))
			if v.fail {
				c.Violate(v.key+"|elem="+cs.Elem, cs.String()+" :: "+v.what, 0, &cs)
			}
		},
	})
}
