package main

// Container part of C08: element-wise vector / matrix operations, matrix and
// matrix-vector products, outer product; aliasing by identity (set partitions of
// the container slots, scalar operand taken from an element of the receiver)
// and through views (slices / transposes of one base object).

import (
	"fmt"
	"reflect"
	"strings"

	ad "github.com/pbenner/autodiff"
)

// View of a base container. For vectors only R0,R1 are used.
type View struct {
	Fresh          bool `json:"fresh,omitempty"` // separate object, not a view of the base
	T              bool `json:"t,omitempty"`     // transposed after slicing
	R0, R1, C0, C1 int
}

func (v View) shape() (int, int) {
	if v.T {
		return v.C1 - v.C0, v.R1 - v.R0
	}
	return v.R1 - v.R0, v.C1 - v.C0
}

// ContCase describes one container call.
//
// Identity mode (Views == nil): Slot[i] is the object bound to container slot i
// (slot 0 = receiver), Objs[k] the element codes of object k, Shapes[k] its dims.
// SAlias: the scalar operand of an xxxS operation is element SIdx of slot SAlias
// (-1: separate scalar SVal).
//
// View mode: Base is the content of the base object, Views[i] the view bound to
// slot i.
type ContCase struct {
	Mode   string   `json:"mode"` // vv vs mm ms mdotm mdotv vdotm outer
	Op     string   `json:"op"`
	T      string   `json:"type"`
	Sparse bool     `json:"sparse,omitempty"`
	Slots  []string `json:"slots"`
	Slot   []int    `json:"slot_object,omitempty"`
	Objs   [][]int  `json:"objects,omitempty"`
	Shapes [][2]int `json:"shapes,omitempty"`
	SAlias int      `json:"scalar_alias_slot"`
	SIdx   int      `json:"scalar_alias_index,omitempty"`
	SVal   *SSpec   `json:"scalar,omitempty"`
	BaseR  int      `json:"base_rows,omitempty"`
	BaseC  int      `json:"base_cols,omitempty"`
	Views  []View   `json:"views,omitempty"`
}

// slot kinds per mode: 'v' vector, 'm' matrix
var modeSlots = map[string]struct {
	names []string
	kinds string
}{
	"vv":    {[]string{"r", "a", "b"}, "vvv"},
	"vs":    {[]string{"r", "a"}, "vv"},
	"mm":    {[]string{"r", "a", "b"}, "mmm"},
	"ms":    {[]string{"r", "a"}, "mm"},
	"mdotm": {[]string{"r", "a", "b"}, "mmm"},
	"mdotv": {[]string{"r", "a", "b"}, "vmv"},
	"vdotm": {[]string{"r", "a", "b"}, "vvm"},
	"outer": {[]string{"r", "a", "b"}, "mvv"},
}

func contTypeName(e ElemT, sparse bool, kind byte) string {
	s := "Dense"
	if sparse {
		s = "Sparse"
	}
	k := "Vector"
	if kind == 'm' {
		k = "Matrix"
	}
	return s + e.Name + k
}

func baseCodes(n, off int) []int {
	c := make([]int, n)
	for i := range c {
		c[i] = eSeven + off + i
	}
	return c
}

func applyViewM(m ad.Matrix, v View) ad.Matrix {
	r := m.Slice(v.R0, v.R1, v.C0, v.C1)
	if v.T {
		r = r.T()
	}
	return r
}

type world struct {
	objs []any // per slot: ad.Vector or ad.Matrix
	s    ad.Scalar
}

func (cs *ContCase) build(aliased bool) (w world) {
	e := elemByName(cs.T)
	ms := modeSlots[cs.Mode]
	w.objs = make([]any, len(cs.Slots))
	mkObj := func(kind byte, shape [2]int, codes []int) any {
		if kind == 'v' {
			return mkVector(e, cs.Sparse, codes)
		}
		return mkMatrix(e, cs.Sparse, shape[0], shape[1], codes)
	}
	if cs.Views != nil {
		// view mode
		mkBase := func() any {
			if ms.kinds[0] == 'v' {
				return mkVector(e, cs.Sparse, baseCodes(cs.BaseR, 0))
			}
			return mkMatrix(e, cs.Sparse, cs.BaseR, cs.BaseC, baseCodes(cs.BaseR*cs.BaseC, 0))
		}
		var shared any
		if aliased {
			shared = mkBase()
		}
		for i, v := range cs.Views {
			kind := ms.kinds[i]
			if v.Fresh {
				r, c := v.shape()
				n := r * c
				if kind == 'v' {
					n = r
				}
				w.objs[i] = mkObj(kind, [2]int{r, c}, baseCodes(n, 20+10*i))
				continue
			}
			b := shared
			if !aliased {
				b = mkBase()
			}
			if kind == 'v' {
				w.objs[i] = b.(ad.Vector).Slice(v.R0, v.R1)
			} else {
				w.objs[i] = applyViewM(b.(ad.Matrix), v)
			}
		}
	} else {
		built := make([]any, len(cs.Objs))
		for i, o := range cs.Slot {
			kind := ms.kinds[i]
			if aliased {
				if built[o] == nil {
					built[o] = mkObj(kind, cs.Shapes[o], cs.Objs[o])
				}
				w.objs[i] = built[o]
			} else {
				w.objs[i] = mkObj(kind, cs.Shapes[o], cs.Objs[o])
			}
		}
	}
	// scalar operand
	if cs.Mode == "vs" || cs.Mode == "ms" {
		if cs.SAlias >= 0 {
			src := w.objs[cs.SAlias]
			var el ad.Scalar
			if v, ok := src.(ad.Vector); ok {
				el = v.At(cs.SIdx)
			} else {
				m := src.(ad.Matrix)
				_, c := m.Dims()
				el = m.At(cs.SIdx/c, cs.SIdx%c)
			}
			if aliased {
				w.s = el
			} else {
				w.s = el.CloneScalar()
			}
		} else {
			w.s = mkScalar(e, *cs.SVal)
		}
	}
	return
}

func (cs *ContCase) invoke(w world) {
	recv := reflect.ValueOf(w.objs[0])
	m := recv.MethodByName(cs.Op)
	if !m.IsValid() {
		panic("no method " + cs.Op)
	}
	var in []reflect.Value
	for _, o := range w.objs[1:] {
		in = append(in, reflect.ValueOf(o))
	}
	if w.s != nil {
		in = append(in, reflect.ValueOf(w.s))
	}
	m.Call(in)
}

func encCont(x any) []string {
	var out []string
	switch v := x.(type) {
	case ad.Matrix:
		r, c := v.Dims()
		for i := 0; i < r; i++ {
			for j := 0; j < c; j++ {
				out = append(out, encElem(v.ConstAt(i, j), true, isSparse(v)))
			}
		}
	case ad.Vector:
		for i := 0; i < v.Dim(); i++ {
			out = append(out, encElem(v.ConstAt(i), true, isSparse(v)))
		}
	}
	return out
}

func (cs *ContCase) partition() string {
	if cs.Views != nil {
		var p []string
		for i, v := range cs.Views {
			p = append(p, cs.Slots[i]+"="+viewName(v, cs.Mode))
		}
		return strings.Join(p, ",")
	}
	s := partString(cs.Slots, cs.Slot)
	if cs.SAlias >= 0 {
		s += fmt.Sprintf(",s=%s[i]", cs.Slots[cs.SAlias])
	}
	return s
}

func viewName(v View, mode string) string {
	if v.Fresh {
		return "fresh"
	}
	if mode == "vv" || mode == "vs" {
		return fmt.Sprintf("V[%d:%d]", v.R0, v.R1)
	}
	s := fmt.Sprintf("M[%d:%d,%d:%d]", v.R0, v.R1, v.C0, v.C1)
	if v.T {
		s += ".T"
	}
	return s
}

// relation of an operand view to the receiver view
func viewRel(r, x View) string {
	if x.Fresh {
		return "fresh"
	}
	same := r.R0 == x.R0 && r.R1 == x.R1 && r.C0 == x.C0 && r.C1 == x.C1
	if same && r.T == x.T {
		return "same-view"
	}
	if same {
		return "same-window-transposed"
	}
	ov := r.R0 < x.R1 && x.R0 < r.R1 && (r.C1 == 0 && x.C1 == 0 || r.C0 < x.C1 && x.C0 < r.C1)
	if !ov {
		return "disjoint"
	}
	if r.T != x.T {
		return "overlap-transposed"
	}
	return "overlap"
}

func (cs *ContCase) class(firstDiff int) string {
	// shapes of the objects (receiver block first) tell square / rectangular apart
	var p []string
	for _, s := range cs.Shapes {
		if s[0] == s[1] || modeSlots[cs.Mode].kinds[0] == 'v' && cs.Mode != "mdotv" && cs.Mode != "vdotm" {
			continue
		}
		p = append(p, "rectangular")
		break
	}
	if len(p) == 0 {
		return "-"
	}
	return p[0]
}

func opFamily(op string) string {
	u := strings.ToUpper(op)
	if len(u) == 5 && (u[0] == 'V' || u[0] == 'M') && (u[4] == 'V' || u[4] == 'M' || u[4] == 'S') && u != "MDOTM" && u != "MDOTV" && u != "VDOTM" {
		return "elementwise-" + string(u[0]) + string(u[4])
	}
	if u == op {
		return op[:1] + strings.ToLower(op[1:4]) + op[4:] // MDOTM -> MdotM
	}
	return op
}

func contFamily(e ElemT, sparse bool, kind byte) string {
	s := "dense"
	if sparse {
		s = "sparse"
	}
	f := "plain"
	if e.Real {
		f = "real"
	}
	k := "vector"
	if kind == 'm' {
		k = "matrix"
	}
	return s + "-" + f + "-" + k
}

// weak alias families get coarse keys (operation family x template family): the
// element-wise loops have no overlap handling at all, so one structural key per
// (loop family, container template, relation) describes the finding.
func (cs *ContCase) weak() bool { return cs.Views != nil || cs.SAlias >= 0 }

func (cs *ContCase) viewClass() string {
	tr, sh := false, false
	for i := 1; i < len(cs.Views); i++ {
		switch viewRel(cs.Views[0], cs.Views[i]) {
		case "same-window-transposed", "overlap-transposed":
			tr = true
		case "overlap":
			sh = true
		}
	}
	switch {
	case tr && sh:
		return "transposed+shifted-overlap"
	case tr:
		return "transposed"
	case sh:
		return "shifted-overlap"
	}
	return "same-view-only"
}

func runContCase(cs *ContCase) (key, what, outcome string) {
	var wa, wr world
	if p := call(func() { wa = cs.build(true); wr = cs.build(false) }); p != nil {
		// constructing the views themselves fails (e.g. sparse T() of a slice): not this property
		return "", "", "construction-panics"
	}
	pA := call(func() { cs.invoke(wa) })
	pR := call(func() { cs.invoke(wr) })
	if pR != nil {
		return "", "", "reference-panics"
	}
	e := elemByName(cs.T)
	kind := modeSlots[cs.Mode].kinds[0]
	tn := contTypeName(e, cs.Sparse, kind)
	mkKey := func(first int, d string) string {
		if cs.Views != nil {
			return fmt.Sprintf("%s|%s|views|%s|differs", opFamily(cs.Op), contFamily(e, cs.Sparse, kind), cs.viewClass())
		}
		if cs.SAlias >= 0 {
			src := "receiver"
			if cs.Slot[cs.SAlias] != cs.Slot[0] {
				src = "operand"
			}
			return fmt.Sprintf("%s|%s|s=%s[i]|scalar-operand-is-element-of-%s|differs", opFamily(cs.Op), contFamily(e, cs.Sparse, kind), cs.Slots[cs.SAlias], src)
		}
		return fmt.Sprintf("%s|%s|%s|%s|%s", cs.Op, tn, cs.partition(), cs.class(first), d)
	}
	if pA != nil {
		if isAliasRejection(pA) {
			return "", "", "alias-rejected"
		}
		what = fmt.Sprintf("%s.%s with %s: aliased call panics (%s), alias-free call succeeds", tn, cs.Op, cs.partition(), short(pA))
		return mkKey(-1, "panic:"+panicClass(pA)), what, "differs"
	}
	ea, er := encCont(wa.objs[0]), encCont(wr.objs[0])
	first := -1
	if len(ea) != len(er) {
		first = 0
	} else {
		for i := range ea {
			if ea[i] != er[i] {
				first = i
				break
			}
		}
	}
	if first < 0 {
		return "", "", "equal"
	}
	d := "dims"
	if len(ea) == len(er) {
		d = "element-" + diffKind(ea[first], er[first])
	}
	what = fmt.Sprintf("%s.%s with %s: aliased call leaves receiver %v, alias-free call %v", tn, cs.Op, cs.partition(), ea, er)
	return mkKey(first, d), what, "differs"
}

/* enumeration ------------------------------------------------------------------ */

type copSpec struct {
	mode string
	ops  []string
}

var contOps = []copSpec{
	{"vv", []string{"VaddV", "VsubV", "VmulV", "VdivV"}},
	{"vs", []string{"VaddS", "VsubS", "VmulS", "VdivS"}},
	{"mm", []string{"MaddM", "MsubM", "MmulM", "MdivM"}},
	{"ms", []string{"MaddS", "MsubS", "MmulS", "MdivS"}},
	{"mdotm", []string{"MdotM"}},
	{"mdotv", []string{"MdotV"}},
	{"vdotm", []string{"VdotM"}},
	{"outer", []string{"Outer"}},
}

func (x *explorer) variantsOf(proto any, op string) []string {
	v := []string{}
	if _, ok := reflect.TypeOf(proto).MethodByName(op); ok {
		v = append(v, op)
	}
	if u, ok := upperIfExists(proto, op); ok {
		v = append(v, u)
	}
	return v
}

func (x *explorer) alphabet(e ElemT, sparse bool, cells int, first bool) []int {
	// small objects get the full lattice, larger ones fewer element states
	lim := 2
	if x.c.Thorough() {
		lim = 4
	}
	if cells > 4 {
		return []int{eZero, eOne}
	}
	a := []int{eZero, eOne, eM2}
	if sparse && (cells <= lim || first) {
		a = append(a, eStored)
	}
	if e.Real && cells <= lim {
		a = append(a, eDer0)
	}
	return a
}

// budget: maximal number of content tuples per (operation, partition, shape tuple)
func (x *explorer) budget(mode string) int {
	product := mode == "mdotm" || mode == "mdotv" || mode == "vdotm" || mode == "outer"
	switch {
	case !x.c.Thorough():
		return 8000
	case product:
		return 20000
	}
	return 300000
}

func (x *explorer) priorAlphabet(sparse bool) []int {
	if sparse {
		return []int{eZero, eStored, eJunk}
	}
	return []int{eZero, eJunk}
}

func (x *explorer) exploreContainers() {
	for _, sparse := range []bool{false, true} {
		for _, e := range elemTypes {
			for _, spec := range contOps {
				ms := modeSlots[spec.mode]
				var proto any
				if ms.kinds[0] == 'v' {
					proto = newVector(e, sparse, 1)
				} else {
					proto = newMatrix(e, sparse, 1, 1)
				}
				for _, op := range spec.ops {
					for _, vn := range x.variantsOf(proto, op) {
						x.c.Guard(fmt.Sprintf("%T.%s", proto, vn), x.idx, nil)
						x.exploreIdentity(e, sparse, spec.mode, vn)
						x.exploreViews(e, sparse, spec.mode, vn)
					}
				}
			}
		}
	}
}

// shapes of the objects of a partition for the given mode; returns nil when the
// partition forces incompatible kinds (e.g. vector = matrix).
func (x *explorer) shapeTuples(mode string, blocks []int, nb int, f func(shapes [][2]int)) {
	D := x.dim
	ms := modeSlots[mode]
	// kind consistency
	kindOf := make([]byte, nb)
	for i, b := range blocks {
		if kindOf[b] != 0 && kindOf[b] != ms.kinds[i] {
			return
		}
		kindOf[b] = ms.kinds[i]
	}
	try := func(slotShapes [][2]int) {
		sh := make([][2]int, nb)
		set := make([]bool, nb)
		for i, b := range blocks {
			if set[b] && sh[b] != slotShapes[i] {
				return
			}
			sh[b], set[b] = slotShapes[i], true
		}
		f(sh)
	}
	switch mode {
	case "vv", "vs":
		for n := 0; n <= D; n++ {
			s := [2]int{n, 1}
			try([][2]int{s, s, s}[:len(blocks)])
		}
	case "mm", "ms":
		for n := 0; n <= D; n++ {
			for m := 0; m <= D; m++ {
				s := [2]int{n, m}
				try([][2]int{s, s, s}[:len(blocks)])
			}
		}
	case "mdotm":
		for n := 0; n <= D; n++ {
			for k := 0; k <= D; k++ {
				for m := 0; m <= D; m++ {
					try([][2]int{{n, m}, {n, k}, {k, m}})
				}
			}
		}
	case "mdotv":
		for n := 0; n <= D; n++ {
			for m := 0; m <= D; m++ {
				try([][2]int{{n, 1}, {n, m}, {m, 1}})
			}
		}
	case "vdotm":
		for n := 0; n <= D; n++ {
			for m := 0; m <= D; m++ {
				try([][2]int{{m, 1}, {n, 1}, {n, m}})
			}
		}
	case "outer":
		for n := 0; n <= D; n++ {
			for m := 0; m <= D; m++ {
				try([][2]int{{n, m}, {n, 1}, {m, 1}})
			}
		}
	}
}

func (x *explorer) exploreIdentity(e ElemT, sparse bool, mode, op string) {
	ms := modeSlots[mode]
	n := len(ms.names)
	hasScalar := mode == "vs" || mode == "ms"
	setPartitions(n, func(blocks []int, nb int) {
		if nb == n && !hasScalar {
			return
		}
		x.shapeTuples(mode, blocks, nb, func(shapes [][2]int) {
			read := make([]bool, nb)
			for i, b := range blocks {
				if i > 0 {
					read[b] = true
				}
			}
			cs := ContCase{Mode: mode, Op: op, T: e.Name, Sparse: sparse, Slots: ms.names, Slot: cp(blocks), SAlias: -1}
			cs.Shapes = append([][2]int(nil), shapes...)
			// contents: every tuple of per-object element patterns. The element
			// alphabets shrink (full lattice -> {0,1,-2} -> {0,1} -> one content with
			// distinct values) until the number of tuples fits the per-shape budget.
			contents := func(reduced bool, f func(c ContCase)) {
				alphs := make([][]int, nb)
				cellsOf := func(b int) int { return shapes[b][0] * shapes[b][1] }
				level := 0
				for ; level < 3; level++ {
					total := 1.0
					for b := 0; b < nb; b++ {
						switch {
						case reduced && read[b] && sparse:
							alphs[b] = []int{eZero, eOne, eM2}
						case reduced && read[b]:
							alphs[b] = []int{eOne, eM2}
						case reduced:
							alphs[b] = []int{eJunk}
						case !read[b]:
							alphs[b] = x.priorAlphabet(sparse)
						case level == 0:
							alphs[b] = x.alphabet(e, sparse, cellsOf(b), b == 0)
						case level == 1:
							alphs[b] = []int{eZero, eOne, eM2}
						default:
							alphs[b] = []int{eZero, eOne}
						}
						for k := 0; k < cellsOf(b); k++ {
							total *= float64(len(alphs[b]))
						}
					}
					if total <= float64(x.budget(mode)) {
						break
					}
				}
				objs := make([][]int, nb)
				if level == 3 {
					// one content: all elements distinct and non-zero
					for b := 0; b < nb; b++ {
						objs[b] = baseCodes(cellsOf(b), 10*b)
					}
					c := cs
					c.Objs = objs
					x.c.Count("shapes_with_single_content", 1)
					f(c)
					return
				}
				var rec func(b int)
				rec = func(b int) {
					if b == nb {
						c := cs
						c.Objs = make([][]int, nb)
						for i := range objs {
							c.Objs[i] = cp(objs[i])
						}
						f(c)
						return
					}
					product(alphs[b], cellsOf(b), func(t []int) {
						objs[b] = cp(t)
						rec(b + 1)
					})
				}
				rec(0)
			}
			if !hasScalar {
				contents(false, func(c ContCase) { x.emitCont(&c) })
				return
			}
			// separate scalar operand: only interesting when r = a
			if nb < n {
				contents(false, func(c ContCase) {
					for _, sp := range contScalarGrid(e) {
						sp := sp
						c2 := c
						c2.SVal = &sp
						x.emitCont(&c2)
					}
				})
			}
			// scalar operand is an element of r or of a (element patterns without the
			// zero-specific codes: the hazard does not depend on them)
			contents(true, func(c ContCase) {
				for slot := 0; slot < n; slot++ {
					if slot > 0 && blocks[slot] == blocks[0] {
						continue // same object as the receiver, already covered
					}
					cells := shapes[blocks[slot]][0] * shapes[blocks[slot]][1]
					for i := 0; i < cells; i++ {
						c2 := c
						c2.SAlias, c2.SIdx = slot, i
						x.emitCont(&c2)
					}
				}
			})
		})
	})
}

func contScalarGrid(e ElemT) []SSpec {
	out := []SSpec{{V: "0"}, {V: "1"}, {V: "-2"}}
	if e.Real {
		out = append(out, SSpec{V: "3", K: 3, D: 1})
	}
	return out
}

func (x *explorer) viewsOf(R, C int, vec bool) []View {
	var out []View
	for r0 := 0; r0 < R; r0++ {
		for r1 := r0 + 1; r1 <= R; r1++ {
			if vec {
				out = append(out, View{R0: r0, R1: r1, C0: 0, C1: 1})
				continue
			}
			for c0 := 0; c0 < C; c0++ {
				for c1 := c0 + 1; c1 <= C; c1++ {
					out = append(out, View{R0: r0, R1: r1, C0: c0, C1: c1})
					out = append(out, View{R0: r0, R1: r1, C0: c0, C1: c1, T: true})
				}
			}
		}
	}
	return out
}

func (x *explorer) exploreViews(e ElemT, sparse bool, mode, op string) {
	ms := modeSlots[mode]
	R, C := x.baseR, x.baseC
	fresh := func(r, c int) View { return View{Fresh: true, R0: 0, R1: r, C0: 0, C1: c} }
	emit := func(br, bc int, vs ...View) {
		anyShared := false
		for _, v := range vs[1:] {
			if !v.Fresh {
				anyShared = true
			}
		}
		if !anyShared {
			return
		}
		cs := ContCase{Mode: mode, Op: op, T: e.Name, Sparse: sparse, Slots: ms.names, SAlias: -1, BaseR: br, BaseC: bc, Views: append([]View(nil), vs...)}
		if mode == "vs" || mode == "ms" {
			sp := SSpec{V: "-2"}
			cs.SVal = &sp
		}
		x.emitCont(&cs)
	}
	switch mode {
	case "vv", "vs":
		cs := x.viewsOf(x.baseV, 1, true)
		for _, r := range cs {
			n, _ := r.shape()
			var cand []View
			for _, a := range cs {
				if m, _ := a.shape(); m == n {
					cand = append(cand, a)
				}
			}
			cand = append(cand, fresh(n, 1))
			for _, a := range cand {
				if mode == "vs" {
					emit(x.baseV, 1, r, a)
					continue
				}
				for _, b := range cand {
					emit(x.baseV, 1, r, a, b)
				}
			}
		}
	case "mm", "ms":
		vs := x.viewsOf(R, C, false)
		for _, r := range vs {
			h, w := r.shape()
			var cand []View
			for _, a := range vs {
				if ah, aw := a.shape(); ah == h && aw == w {
					cand = append(cand, a)
				}
			}
			cand = append(cand, fresh(h, w))
			for _, a := range cand {
				if mode == "ms" {
					emit(R, C, r, a)
					continue
				}
				for _, b := range cand {
					emit(R, C, r, a, b)
				}
			}
		}
	case "mdotm":
		vs := x.viewsOf(R, C, false)
		for _, r := range vs {
			h, w := r.shape()
			for k := 1; k <= max(R, C); k++ {
				var ca, cb []View
				for _, a := range vs {
					ah, aw := a.shape()
					if ah == h && aw == k {
						ca = append(ca, a)
					}
					if ah == k && aw == w {
						cb = append(cb, a)
					}
				}
				ca = append(ca, fresh(h, k))
				cb = append(cb, fresh(k, w))
				for _, a := range ca {
					for _, b := range cb {
						emit(R, C, r, a, b)
					}
				}
			}
		}
	case "mdotv", "vdotm":
		// receiver and vector operand are windows of one base vector, the matrix is separate
		cs := x.viewsOf(x.baseV, 1, true)
		for _, r := range cs {
			for _, b := range cs {
				n, _ := r.shape()
				m, _ := b.shape()
				if mode == "mdotv" {
					emit(x.baseV, 1, r, fresh(n, m), b)
				} else {
					emit(x.baseV, 1, r, b, fresh(m, n))
				}
			}
		}
	}
}

func (x *explorer) emitCont(cs *ContCase) {
	x.idx++
	if !x.c.Mine(x.idx) {
		return
	}
	c := x.c
	c.Eval(1)
	key, what, outcome := runContCase(cs)
	kind := "identity"
	if cs.Views != nil {
		kind = "views"
	}
	c.Outcome("container:" + kind + ":" + outcome)
	c.Count("cases:"+cs.Mode+":"+kind, 1)
	if outcome != "reference-panics" {
		c.Nontrivial(1)
	}
	if key != "" {
		c.Violate(key, what, x.idx, Case{Cont: cs})
	}
	if x.idx%500009 == 1 {
		c.Sample(cs)
	}
}
