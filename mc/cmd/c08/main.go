// C08: results do not depend on the receiver aliasing an operand.
//
// Differential and reference-free: every call is executed once with the alias
// pattern under test and once with every slot bound to its own deep copy; the
// receiver must end bitwise equal (value, order, N, every derivative slot, every
// element). Accepted alternative: a panic that is an explicit alias rejection of
// the API ("result and argument must be different ...").
package main

import (
	"encoding/json"

	"verif/mc/vf"
)

type Case struct {
	Scalar *ScalarCase `json:"scalar,omitempty"`
	Cont   *ContCase   `json:"container,omitempty"`
}

type explorer struct {
	c            *vf.Ctx
	idx          int64
	dim          int // max container dimension (identity aliasing)
	baseR, baseC int // base matrix of the view exploration
	baseV        int // base vector of the view exploration
	histDepth    int // number of earlier contents in an object history (scalars)
}

func run(c *vf.Ctx) {
	x := &explorer{c: c, dim: 2, baseR: 2, baseC: 2, baseV: 3, histDepth: 1}
	if c.Thorough() {
		x.dim, x.baseR, x.baseC, x.baseV = 3, 3, 3, 4
		x.histDepth = 2
	}
	x.exploreScalars()
	x.exploreContainers()
}

func main() {
	vf.Main(vf.Spec{
		ID:    "C08",
		Level: "exploration",
		Rule: "scalars: every operation (generic + capital variant, 9 element types) x ALL set partitions of its slots (receiver, operands, temporaries; for reductions receiver/temporaries bound to vector elements) x operand grid incl. branch boundaries x jet kinds (order 0/1/2, N 0/2) x prior content of written-only objects; " +
			"object histories (Real32/Real64 scalar operations, every op x alias partition x operand grid whose call on brand-new objects is alias independent): one object at a time (receiver block, operand, temporary) received its current content only after having held contents of other derivative orders over the same number of variables (order sequences o2>o1, o0>o1, o1>o2, o0>o2, o1>o0, o2>o0; thorough: one more earlier content, e.g. o2>o0>o1, o1>o2>o1), the last assignment by r.Set(src) or as result of r.Add(src, 0); compared with the call on brand-new objects; " +
			"containers (dense+sparse, 9 element types, generic + capital variant): all non-trivial partitions of {r,a,b} for element-wise ops, MdotM, MdotV, VdotM, Outer over all shapes 0..D and all element patterns over {0/absent,1,-2,stored-zero,zero-with-derivative}, scalar operand taken from every element of r or a; " +
			"views: r,a,b from all non-empty windows (and their transposes) of one base matrix/vector or a separate object; a case is non-trivial when at least two slots share storage and the alias-free reference call returns normally",
		Assume: []string{
			"temporaries (t of LogAdd/LogSub/Sigmoid, t[] of SmoothMax/LogSmoothMax) are scratch space: partitions in which a temporary shares its object with another slot are executed and counted (info_temp_shared_alias_dependent) but are not violations; the only documentation is 'take the third argument as a temporary variable' and every caller in the repository passes a dedicated object",
			"the alias-free reference call defines the expected result; cases whose reference call panics (domain/usage errors) are outside the property",
			"a panic containing 'result and argument must be different' is the API's explicit alias rejection",
			"an object history is built through the public API only (NewScalar, Alloc/SetDerivative/SetHessian for the first content, Set / Add for every later one); its public state (value, order, N, every derivative slot) afterwards is verified to equal that of a brand-new object with the same content, so 'what a fresh receiver would hold' is the call on brand-new objects",
		},
		Run: run,
		Replay: func(c *vf.Ctx, raw json.RawMessage) {
			var cs Case
			if err := json.Unmarshal(raw, &cs); err != nil {
				c.HarnessError(err.Error())
				return
			}
			var key, what string
			defer func() {
				if r := recover(); r != nil {
					if hb, ok := r.(histBuildError); ok {
						c.HarnessError("replay: " + hb.msg)
						return
					}
					panic(r)
				}
			}()
			switch {
			case cs.Scalar != nil:
				key, what, _ = runScalarCase(cs.Scalar)
			case cs.Cont != nil:
				key, what, _ = runContCase(cs.Cont)
			}
			if key != "" {
				c.Violate(key, what, 0, cs)
			}
		},
	})
}
