package main

// Scalar part of C08: every scalar operation (generic and capital-letter
// variant) x every set partition of its argument slots into objects x operand
// values x jet kinds.

import (
	"fmt"
	"reflect"
	"strings"

	ad "github.com/pbenner/autodiff"
)

// slot roles
const (
	roleRecv = "r"
	roleOp   = "o" // read-only operand (ConstScalar parameter)
	roleTmp  = "t" // temporary / scratch parameter
)

type sop struct {
	name   string
	shape  string   // argument layout, see callScalarOp
	slots  []string // slot names, slot 0 is the receiver
	roles  []string
	grid   string // operand value grid
	branch func(v []float64) string
}

func mk(name, shape, grid string, branch func(v []float64) string) sop {
	o := sop{name: name, shape: shape, grid: grid, branch: branch}
	switch shape {
	case "a", "ak", "pa":
		o.slots, o.roles = []string{"r", "a"}, []string{roleRecv, roleOp}
	case "ab":
		o.slots, o.roles = []string{"r", "a", "b"}, []string{roleRecv, roleOp, roleOp}
	case "abt":
		o.slots, o.roles = []string{"r", "a", "b", "t"}, []string{roleRecv, roleOp, roleOp, roleTmp}
	case "at":
		o.slots, o.roles = []string{"r", "a", "t"}, []string{roleRecv, roleOp, roleTmp}
	}
	return o
}

func sgn(x float64) string {
	switch {
	case x != x:
		return "nan"
	case x < 0:
		return "a<0"
	case x > 0:
		return "a>0"
	}
	return "a=0"
}

func cmpab(v []float64) string {
	switch {
	case v[0] < v[1]:
		return "a<b"
	case v[0] > v[1]:
		return "a>b"
	case v[0] == v[1]:
		return "a=b"
	}
	return "unordered"
}

var scalarOps = []sop{
	mk("Set", "a", "G", nil),
	mk("Neg", "a", "G", nil),
	mk("Abs", "a", "G", func(v []float64) string { return sgn(v[0]) }),
	mk("Add", "ab", "G", nil),
	mk("Sub", "ab", "G", nil),
	mk("Mul", "ab", "G", nil),
	mk("Div", "ab", "G", nil),
	mk("Min", "ab", "G", cmpab),
	mk("Max", "ab", "G", cmpab),
	mk("Pow", "ab", "G", nil),
	mk("Sqrt", "a", "G", nil),
	mk("Exp", "a", "G", nil),
	mk("Log", "a", "G", nil),
	mk("Log1p", "a", "G", nil),
	mk("Sin", "a", "G", nil),
	mk("Sinh", "a", "G", nil),
	mk("Cos", "a", "G", nil),
	mk("Cosh", "a", "G", nil),
	mk("Tan", "a", "G", nil),
	mk("Tanh", "a", "G", nil),
	mk("Erf", "a", "G", nil),
	mk("Erfc", "a", "G", nil),
	mk("LogErfc", "a", "G", nil),
	mk("Logistic", "a", "G", nil),
	mk("Log1pExp", "a", "L1PE", func(v []float64) string {
		switch x := v[0]; {
		case x <= -37:
			return "x<=-37"
		case x <= 18:
			return "-37<x<=18"
		case x <= 33.3:
			return "18<x<=33.3"
		}
		return "x>33.3"
	}),
	mk("Sigmoid", "at", "G", func(v []float64) string {
		if v[0] >= 0 {
			return "a>=0"
		}
		return "a<0"
	}),
	mk("LogAdd", "abt", "G", func(v []float64) string {
		a, b := v[0], v[1]
		if a > b {
			a, b = b, a
		}
		if a < -1e300 || a > 1e300 {
			return "inf-branch"
		}
		return cmpab(v)
	}),
	mk("LogSub", "abt", "G", func(v []float64) string {
		if v[1] < -1e300 {
			return "b=-inf"
		}
		return "finite-b"
	}),
	mk("Gamma", "a", "POS", nil),
	mk("Lgamma", "a", "POS", nil),
	mk("Mlgamma", "ak", "POS", nil),
	mk("GammaP", "pa", "POS", nil),
	mk("BesselI", "pa", "POS", nil),
	mk("LogBesselI", "pa", "POS", nil),
}

var grids = map[string][]string{
	"G":    {"0", "1", "-2", "0.5", "-0.5", "2", "20", "-40", "40", "+Inf", "-Inf"},
	"L1PE": {"0", "-2", "2", "-37", "-40", "18", "20", "33.3", "34", "40"},
	"POS":  {"0.5", "1", "2.5"},
	"INT":  {"0", "1", "-2", "2", "-1", "3"},
}

func gridFor(e ElemT, g string) []string {
	if !e.Float {
		if g == "POS" {
			return []string{"1", "2", "3"}
		}
		return grids["INT"]
	}
	return grids[g]
}

func kindsFor(e ElemT) []int {
	if e.Real {
		return []int{0, 1, 2, 4} // order 0/N 0, order 1/N 2, order 2/N 2, order 0/N 2
	}
	return []int{0}
}

// prior contents of objects that are written only (receiver, temporaries)
func priorsFor(e ElemT) []SSpec {
	if e.Real {
		return []SSpec{{V: "0"}, {V: "7", K: 1, D: 2}, {V: "7", K: 2, D: 2}}
	}
	return []SSpec{{V: "0"}, {V: "7"}}
}

// ScalarCase: one call. Objs are the distinct objects; Slot[i] is the object
// bound to slot i. For reductions the first NE objects are the elements of the
// vector operand(s) (x0,x1[,y0,y1]); they exist inside a dense vector.
type ScalarCase struct {
	Op    string   `json:"op"`
	T     string   `json:"type"`
	Slots []string `json:"slots"`
	Roles []string `json:"roles"`
	Slot  []int    `json:"slot_object"`
	Objs  []SSpec  `json:"objects"`
	Shape string   `json:"shape"`
	NE    int      `json:"vector_elements,omitempty"`
	// Hist: one object of the aliased call did not start its life with the content Objs[Hist.Obj]:
	// it held earlier contents of other derivative orders first (see ObjHist)
	Hist *ObjHist `json:"history,omitempty"`
}

// ObjHist: the object was created holding a value of jet kind Prev[0] (value 7, derivative
// pattern 2), was then overwritten with values of kinds Prev[1:], and finally received its
// current content Objs[Obj] by the assignment Route: "Set" (r.Set(src)) or "Add0" (as the
// result of the operation r.Add(src, 0)). Every step goes through the public API; the public
// state of the object afterwards equals that of a brand-new object holding Objs[Obj] (checked,
// else harness error), so the alias-free references are built from brand-new objects.
type ObjHist struct {
	Obj   int    `json:"object"`
	Prev  []int  `json:"earlier_kinds"`
	Route string `json:"route"`
}

var histRoutes = []string{"Set", "Add0"}

// histsFor: the earlier-content sequences of an object whose current content has jet kind k:
// kinds over the same number of variables (order 1, 2, 0 with N=2), adjacent orders different,
// the last one different from the current order; depth earlier assignments.
func histsFor(k, depth int) [][]int {
	cur, _ := kindOrderN(k)
	pool := []int{2, 1, 4}
	var out [][]int
	var rec func(seq []int, next int)
	rec = func(seq []int, next int) {
		if len(seq) > 0 {
			out = append(out, append([]int(nil), seq...))
		}
		if len(seq) == depth {
			return
		}
		for _, p := range pool {
			o, _ := kindOrderN(p)
			if o == next {
				continue
			}
			rec(append([]int{p}, seq...), o)
		}
	}
	rec(nil, cur)
	return out
}

func histString(h *ObjHist, cur int) string {
	var p []string
	for _, k := range append(append([]int(nil), h.Prev...), cur) {
		o, _ := kindOrderN(k)
		p = append(p, fmt.Sprintf("o%d", o))
	}
	return strings.Join(p, ">")
}

// mkHistScalar builds the object described by h. ok=false: the route did not reproduce the
// intended public state (the harness's construction is wrong, not the library).
func mkHistScalar(e ElemT, sp SSpec, h *ObjHist) (s ad.Scalar, ok bool) {
	junk := func(k int) ad.Scalar { return mkScalar(e, SSpec{V: "7", K: k, D: 2}) }
	s = junk(h.Prev[0])
	for _, k := range h.Prev[1:] {
		s.Set(junk(k))
	}
	src := mkScalar(e, sp)
	switch h.Route {
	case "Set":
		s.Set(src)
	case "Add0":
		s.Add(src, ad.ConstFloat64(0))
	default:
		panic("unknown history route " + h.Route)
	}
	return s, encScalar(s, true) == encScalar(src, true)
}

func upperIfExists(recv any, name string) (string, bool) {
	u := strings.ToUpper(name)
	_, ok := reflect.TypeOf(recv).MethodByName(u)
	return u, ok
}

// callScalarOp invokes cs.Op on args (args[0] is the receiver).
func callScalarOp(cs *ScalarCase, e ElemT, args []ad.Scalar, vecs []ad.Vector) (ret []reflect.Value) {
	recv := reflect.ValueOf(args[0])
	m := recv.MethodByName(cs.Op)
	if !m.IsValid() {
		panic("no method " + cs.Op)
	}
	var in []reflect.Value
	v := func(s ad.Scalar) reflect.Value { return reflect.ValueOf(s) }
	switch cs.Shape {
	case "a":
		in = []reflect.Value{v(args[1])}
	case "ab":
		in = []reflect.Value{v(args[1]), v(args[2])}
	case "abt":
		in = []reflect.Value{v(args[1]), v(args[2]), v(args[3])}
	case "at":
		in = []reflect.Value{v(args[1]), v(args[2])}
	case "ak":
		in = []reflect.Value{v(args[1]), reflect.ValueOf(2)}
	case "pa":
		in = []reflect.Value{reflect.ValueOf(1.5), v(args[1])}
	case "x": // Vmean, Vnorm
		in = []reflect.Value{reflect.ValueOf(vecs[0])}
	case "xy": // VdotV
		in = []reflect.Value{reflect.ValueOf(vecs[0]), reflect.ValueOf(vecs[1])}
	case "xt2", "xt3": // SmoothMax, LogSmoothMax
		n := 2
		if cs.Shape == "xt3" {
			n = 3
		}
		arr := reflect.New(m.Type().In(2)).Elem()
		for i := 0; i < n; i++ {
			arr.Index(i).Set(v(args[1+i]))
		}
		in = []reflect.Value{reflect.ValueOf(vecs[0]), reflect.ValueOf(ad.ConstFloat64(1.0)), arr}
	case "M": // Mtrace, Mnorm
		in = []reflect.Value{reflect.ValueOf(vecs[0].AsMatrix(1, vecs[0].Dim()))}
		if cs.Op == "Mtrace" {
			in = []reflect.Value{reflect.ValueOf(vecs[0].AsMatrix(2, 2))}
		}
	default:
		panic("bad shape " + cs.Shape)
	}
	return m.Call(in)
}

// buildScalarWorld constructs the objects of a case. aliased=true: one object
// per Objs entry; aliased=false: every slot gets its own deep copy and the
// vectors are separate copies as well.
func buildScalarWorld(cs *ScalarCase, e ElemT, aliased bool) (args []ad.Scalar, vecs []ad.Vector) {
	// vectors of reductions
	nv := 0
	switch cs.Shape {
	case "x", "xt2", "xt3", "M":
		nv = 1
	case "xy":
		nv = 2
	}
	var elems []ad.Scalar
	if nv > 0 {
		per := cs.NE / nv
		for k := 0; k < nv; k++ {
			vec := ad.NullDenseVector(e.ST, per)
			for i := 0; i < per; i++ {
				assign(e, vec.At(i), cs.Objs[k*per+i])
				elems = append(elems, vec.At(i))
			}
			vecs = append(vecs, vec)
		}
	}
	objs := make([]ad.Scalar, len(cs.Objs))
	copy(objs, elems)
	args = make([]ad.Scalar, len(cs.Slot))
	for i, o := range cs.Slot {
		if aliased {
			if objs[o] == nil {
				if cs.Hist != nil && cs.Hist.Obj == o {
					var ok bool
					if objs[o], ok = mkHistScalar(e, cs.Objs[o], cs.Hist); !ok {
						panic(histBuildError{fmt.Sprintf("history %v of object %d (%v) does not end in the intended public state", *cs.Hist, o, cs.Objs[o])})
					}
				} else {
					objs[o] = mkScalar(e, cs.Objs[o])
				}
			}
			args[i] = objs[o]
		} else {
			args[i] = mkScalar(e, cs.Objs[o])
		}
	}
	return
}

// demanded: aliasing of this partition must not change the result. Temporaries
// are scratch space: a partition in which a temporary shares its object with any
// other slot (or with a vector element) is run and reported as information only.
func (cs *ScalarCase) demanded() bool {
	use := map[int]int{}
	for _, o := range cs.Slot {
		use[o]++
	}
	for i, r := range cs.Roles {
		if r == roleTmp && (use[cs.Slot[i]] > 1 || cs.Slot[i] < cs.NE) {
			return false
		}
	}
	return true
}

func (cs *ScalarCase) aliasedAtAll() bool {
	use := map[int]int{}
	for _, o := range cs.Slot {
		use[o]++
		if o < cs.NE || use[o] > 1 {
			return true
		}
	}
	return false
}

func (cs *ScalarCase) partition() string {
	// blocks in order of first slot; vector elements are named x0.. / y0..
	names := map[int][]string{}
	var order []int
	for i, o := range cs.Slot {
		if _, ok := names[o]; !ok {
			order = append(order, o)
			if o < cs.NE {
				per := cs.NE
				if cs.Shape == "xy" {
					per = cs.NE / 2
				}
				n := fmt.Sprintf("x[%d]", o)
				if o >= per {
					n = fmt.Sprintf("y[%d]", o-per)
				}
				names[o] = append(names[o], n)
			}
		}
		names[o] = append(names[o], cs.Slots[i])
	}
	var parts []string
	for _, o := range order {
		parts = append(parts, strings.Join(names[o], "="))
	}
	return strings.Join(parts, ",")
}

func orderOf(sp SSpec) int { o, _ := kindOrderN(sp.K); return o }

// operand class: jet orders of the objects that are read (receiver block first)
// and the value branch of the operation
func (cs *ScalarCase) class(op *sop) string {
	read := map[int]bool{}
	for i, r := range cs.Roles {
		if r == roleOp {
			read[cs.Slot[i]] = true
		}
	}
	for o := 0; o < cs.NE; o++ {
		read[o] = true
	}
	var ords []string
	seen := map[int]bool{}
	mixed := false
	first := -1
	add := func(o int) {
		if seen[o] || !read[o] {
			return
		}
		seen[o] = true
		k := orderOf(cs.Objs[o])
		if first < 0 {
			first = k
		} else if k != first {
			mixed = true
		}
		ords = append(ords, fmt.Sprint(k))
	}
	for _, o := range cs.Slot {
		add(o)
	}
	for o := 0; o < cs.NE; o++ {
		add(o)
	}
	c := "same-order"
	if mixed {
		c = "orders=" + strings.Join(ords, "/")
	}
	if op != nil && op.branch != nil {
		var vals []float64
		for i, r := range cs.Roles {
			if r == roleOp {
				vals = append(vals, fval(cs.Objs[cs.Slot[i]].V))
			}
		}
		c += ";" + op.branch(vals)
	}
	return c
}

func findOp(name string) *sop {
	for i := range scalarOps {
		if scalarOps[i].name == name || strings.ToUpper(scalarOps[i].name) == name {
			return &scalarOps[i]
		}
	}
	return nil
}

// diffKind tells which part of two scalar encodings differs.
func diffKind(a, b string) string {
	sa, sb := strings.SplitN(a, "{", 2), strings.SplitN(b, "{", 2)
	if sa[0] != sb[0] {
		return "value"
	}
	if len(sa) != len(sb) {
		return "order-N"
	}
	if len(sa) == 2 {
		if sa[1][:4] != sb[1][:4] {
			return "order-N"
		}
		ga, gb := strings.SplitN(sa[1], " H", 2), strings.SplitN(sb[1], " H", 2)
		if ga[0] != gb[0] {
			return "gradient"
		}
		return "hessian"
	}
	return "state"
}

// receiverShared: the receiver object is also bound to another slot / is a vector element
func (cs *ScalarCase) receiverShared() bool {
	if cs.Slot[0] < cs.NE {
		return true
	}
	for _, o := range cs.Slot[1:] {
		if o == cs.Slot[0] {
			return true
		}
	}
	return false
}

// runScalarCase returns key=="" when the aliased and the alias-free call agree.
//
// Two alias-free references: (1) every slot bound to its own deep copy of its
// object (the receiver copy has the prior content the aliased receiver had);
// (2) when the receiver itself is aliased, additionally a brand-new null receiver
// ("what a fresh receiver would hold").
func runScalarCase(cs *ScalarCase) (key, what, outcome string) {
	e := elemByName(cs.T)
	var rA, rR string
	if cs.Hist != nil && (cs.NE > 0 || !e.Real || cs.Hist.Obj < 0 || cs.Hist.Obj >= len(cs.Objs) || len(cs.Hist.Prev) == 0) {
		panic(histBuildError{"malformed history case"})
	}
	aArgs, aVecs := buildScalarWorld(cs, e, true)
	pA := call(func() { callScalarOp(cs, e, aArgs, aVecs) })
	rArgs, rVecs := buildScalarWorld(cs, e, false)
	pR := call(func() { callScalarOp(cs, e, rArgs, rVecs) })
	ref := "copied operands"
	if pR != nil && cs.receiverShared() {
		// e.g. the receiver copy cannot take the result; fall through to the null receiver
		pR = nil
		rArgs, rVecs = buildScalarWorld(cs, e, false)
		rArgs[0] = ad.NewScalar(e.ST, 0)
		pR = call(func() { callScalarOp(cs, e, rArgs, rVecs) })
		ref = "copied operands and a new null receiver"
	}
	if pR != nil {
		// the alias-free call itself fails (domain / usage error): nothing to compare
		return "", "", "reference-panics"
	}
	rR = encScalar(rArgs[0], true)
	diff := ""
	if pA != nil {
		if isAliasRejection(pA) {
			return "", "", "alias-rejected"
		}
		diff = "panic:" + panicClass(pA)
		rA = "panic: " + short(pA)
	} else {
		rA = encScalar(aArgs[0], true)
		if rA != rR {
			diff = diffKind(rA, rR)
		} else if cs.receiverShared() && ref == "copied operands" {
			fArgs, fVecs := buildScalarWorld(cs, e, false)
			fArgs[0] = ad.NewScalar(e.ST, 0)
			if pF := call(func() { callScalarOp(cs, e, fArgs, fVecs) }); pF == nil {
				if rF := encScalar(fArgs[0], true); rF != rA {
					rR, ref = rF, "copied operands and a new null receiver"
					diff = diffKind(rA, rF) + "(vs-null-receiver)"
				}
			}
		}
		if diff == "" {
			return "", "", "equal"
		}
	}
	op := findOp(cs.Op)
	what = fmt.Sprintf("%s.%s with %s: aliased call leaves receiver %s, the same call with %s leaves %s (objects %s)", cs.T, cs.Op, cs.partition(), rA, ref, rR, fmtObjs(cs.Objs))
	if !cs.demanded() {
		return "", what, "temp-shared-differs"
	}
	if cs.NE > 0 {
		// reductions: the only demanded aliasing is receiver = element of the vector operand
		fam := "plain"
		if e.Real {
			fam = "real"
		}
		key = fmt.Sprintf("%s|%s-scalar|r=x[i]|receiver-is-element-of-vector-operand|differs", cs.Op, fam)
		return key, what, "differs"
	}
	if h := cs.Hist; h != nil {
		// only reached when the same call on brand-new objects is alias independent: keyed by the
		// history and the block of slots the object is bound to, not by the operation
		what += fmt.Sprintf("; the object bound to %s held contents of orders %s before (last assignment: %s); with brand-new objects the aliased call agrees", cs.blockName(h.Obj), histString(h, cs.Objs[h.Obj].K), h.Route)
		key = fmt.Sprintf("history|%s|shape=%s|%s|object=%s|%s|%s", cs.T, cs.Shape, cs.partition(), cs.blockName(h.Obj), histString(h, cs.Objs[h.Obj].K), diff)
		return key, what, "differs"
	}
	key = fmt.Sprintf("%s|%s|%s|%s|%s", cs.Op, cs.T, cs.partition(), cs.class(op), diff)
	return key, what, "differs"
}

type histBuildError struct{ msg string }

// blockName: the slots bound to object o.
func (cs *ScalarCase) blockName(o int) string {
	var m []string
	for i, b := range cs.Slot {
		if b == o {
			m = append(m, cs.Slots[i])
		}
	}
	return strings.Join(m, "=")
}

func fmtObjs(o []SSpec) string {
	var p []string
	for _, s := range o {
		p = append(p, fmt.Sprintf("%s/k%d", s.V, s.K))
	}
	return strings.Join(p, " ")
}

/* enumeration ------------------------------------------------------------------ */

func (x *explorer) exploreScalars() {
	for _, e := range elemTypes {
		proto := ad.NewScalar(e.ST, 0)
		for _, op := range scalarOps {
			variants := []string{op.name}
			if _, ok := reflect.TypeOf(proto).MethodByName(op.name); !ok {
				continue
			}
			if u, ok := upperIfExists(proto, op.name); ok {
				variants = append(variants, u)
			}
			for _, vn := range variants {
				x.exploreScalarOp(e, op, vn)
			}
		}
		x.exploreReductions(e)
	}
}

func (x *explorer) exploreScalarOp(e ElemT, op sop, vname string) {
	vals := gridFor(e, op.grid)
	kinds := kindsFor(e)
	priors := priorsFor(e)
	n := len(op.slots)
	setPartitions(n, func(blocks []int, nb int) {
		if nb == n {
			return // no aliasing at all: the call is its own reference
		}
		// which blocks are read (contain an operand slot)
		read := make([]bool, nb)
		for i, b := range blocks {
			if op.roles[i] == roleOp {
				read[b] = true
			}
		}
		cs := ScalarCase{Op: vname, T: e.Name, Slots: op.slots, Roles: op.roles, Slot: cp(blocks), Shape: op.shape}
		objs := make([]SSpec, nb)
		var rec func(b int)
		rec = func(b int) {
			if b == nb {
				c := cs
				c.Objs = append([]SSpec(nil), objs...)
				x.emitScalar(&c)
				return
			}
			if read[b] {
				for _, k := range kinds {
					for _, v := range vals {
						objs[b] = SSpec{V: v, K: k, D: b}
						rec(b + 1)
					}
				}
			} else {
				for _, p := range priors {
					objs[b] = p
					rec(b + 1)
				}
			}
		}
		rec(0)
	})
}

type redOp struct {
	name  string
	shape string
	ntmp  int
	nvec  int
	grid  string
}

var reductions = []redOp{
	{"Vmean", "x", 0, 1, "G"},
	{"Vnorm", "x", 0, 1, "G"},
	{"VdotV", "xy", 0, 2, "G"},
	{"Mtrace", "M", 0, 1, "G"},
	{"Mnorm", "M", 0, 1, "G"},
	{"SmoothMax", "xt2", 2, 1, "SM"},
	{"LogSmoothMax", "xt3", 3, 1, "POS"},
}

func (x *explorer) exploreReductions(e ElemT) {
	proto := ad.NewScalar(e.ST, 0)
	for _, op := range reductions {
		if _, ok := reflect.TypeOf(proto).MethodByName(op.name); !ok {
			continue
		}
		per := 2
		if op.name == "Mtrace" {
			per = 4
		}
		ne := per * op.nvec
		vals := gridFor(e, op.grid)
		if op.grid == "SM" {
			vals = []string{"0", "1", "-2", "0.5"}
			if !e.Float {
				vals = []string{"0", "1", "-2"}
			}
		}
		if op.nvec == 2 || per == 4 {
			vals = vals[:3]
		}
		kinds := kindsFor(e)
		priors := priorsFor(e)
		if op.ntmp > 0 {
			priors = []SSpec{priors[0], priors[len(priors)-1]}
		}
		slots := []string{"r"}
		roles := []string{roleRecv}
		for i := 0; i < op.ntmp; i++ {
			slots = append(slots, fmt.Sprintf("t[%d]", i))
			roles = append(roles, roleTmp)
		}
		// assignments of the free slots (r, t*) to vector elements or fresh objects
		nfree := len(slots)
		assign := make([]int, nfree)
		var recA func(i, nfresh int)
		recA = func(i, nfresh int) {
			if i == nfree {
				nobj := ne + nfresh
				cs := ScalarCase{Op: op.name, T: e.Name, Slots: slots, Roles: roles, Slot: cp(assign), Shape: op.shape, NE: ne}
				if !cs.aliasedAtAll() {
					return
				}
				objs := make([]SSpec, nobj)
				var rec func(b int)
				rec = func(b int) {
					if b == nobj {
						c := cs
						c.Objs = append([]SSpec(nil), objs...)
						x.emitScalar(&c)
						return
					}
					if b < ne {
						for _, k := range kinds {
							for _, v := range vals {
								objs[b] = SSpec{V: v, K: k, D: b}
								rec(b + 1)
							}
						}
					} else {
						for _, p := range priors {
							objs[b] = p
							rec(b + 1)
						}
					}
				}
				rec(0)
				return
			}
			for o := 0; o < ne+nfresh+1; o++ {
				assign[i] = o
				nf := nfresh
				if o == ne+nfresh {
					nf++
				}
				recA(i+1, nf)
			}
		}
		recA(0, 0)
	}
}

func (x *explorer) emitScalar(cs *ScalarCase) {
	x.idx++
	if !x.c.Mine(x.idx) {
		return
	}
	c := x.c
	c.Eval(1)
	key, what, outcome := runScalarCase(cs)
	dem := "demanded"
	if !cs.demanded() {
		dem = "temp-shared"
	}
	c.Outcome("scalar:" + dem + ":" + outcome)
	if cs.NE > 0 {
		c.Count("cases:scalar-reduction", 1)
	} else {
		c.Count("cases:scalar-op", 1)
	}
	if outcome != "reference-panics" {
		c.Nontrivial(1)
	}
	if outcome == "temp-shared-differs" {
		c.Count("info_temp_shared_alias_dependent:"+cs.Op, 1)
	}
	if key != "" {
		c.Violate(key, what, x.idx, Case{Scalar: cs})
	}
	if x.idx%500009 == 1 {
		c.Sample(cs)
	}
	// object histories (derivative-tracking types): the same call, alias-independent on brand-new
	// objects, with one object at a time having held contents of other derivative orders before
	if outcome != "equal" || cs.NE > 0 || !elemByName(cs.T).Real {
		return
	}
	nobj := len(cs.Objs)
	for o := 0; o < nobj; o++ {
		for _, prev := range histsFor(cs.Objs[o].K, x.histDepth) {
			for _, route := range histRoutes {
				hc := *cs
				hc.Hist = &ObjHist{Obj: o, Prev: prev, Route: route}
				x.emitHist(&hc)
			}
		}
	}
}

func (x *explorer) emitHist(cs *ScalarCase) {
	c := x.c
	defer func() {
		if r := recover(); r != nil {
			if hb, ok := r.(histBuildError); ok {
				c.HarnessError(hb.msg)
				return
			}
			panic(r)
		}
	}()
	c.Eval(1)
	key, what, outcome := runScalarCase(cs)
	dem := "demanded"
	if !cs.demanded() {
		dem = "temp-shared"
	}
	c.Outcome("scalar-history:" + dem + ":" + outcome)
	c.Count("cases:scalar-op-object-history", 1)
	c.Count("cases:scalar-op-object-history:"+histString(cs.Hist, cs.Objs[cs.Hist.Obj].K), 1)
	if outcome != "reference-panics" {
		c.Nontrivial(1)
	}
	if key != "" {
		c.Violate(key, what, x.idx, Case{Scalar: cs})
	}
}
