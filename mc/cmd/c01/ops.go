package main

import (
	"encoding/json"
	"fmt"
	"math"
)

// ---- operation alphabet -------------------------------------------------------

type Kind int

const (
	Unary Kind = iota
	Binary
	Reduce
)

// OpDef is one instruction kind of the register machine. Par is the fixed parameter
// (Mlgamma k, GammaP a, BesselI nu, constant exponent, smooth-max alpha).
type OpDef struct {
	Name  string
	Kind  Kind
	Par   float64
	Core  bool // member of the reduced alphabet used for the widest depth-3 shapes
	Slow  bool // the family representative kept in quick depth-2 programs; still too slow for depth 3
	Heavy bool // the library spends tens of microseconds per call (continued fractions): composed programs of the quick tier use one representative per family
}

func (o *OpDef) String() string {
	switch o.Name {
	case "Mlgamma", "GammaP", "BesselI", "LogBesselI", "PowK", "SmoothMax", "LogSmoothMax":
		return fmt.Sprintf("%s[%g]", o.Name, o.Par)
	}
	return o.Name
}

// ordered simplest first
var ops = []*OpDef{
	{Name: "Neg", Kind: Unary, Core: true},
	{Name: "Abs", Kind: Unary, Core: true},
	{Name: "Exp", Kind: Unary, Core: true},
	{Name: "Log", Kind: Unary, Core: true},
	{Name: "Sqrt", Kind: Unary},
	{Name: "PowK", Kind: Unary, Par: -1},
	{Name: "PowK", Kind: Unary, Par: 3},
	{Name: "Log1p", Kind: Unary},
	{Name: "Sin", Kind: Unary, Core: true},
	{Name: "Cos", Kind: Unary},
	{Name: "Tan", Kind: Unary},
	{Name: "Sinh", Kind: Unary},
	{Name: "Cosh", Kind: Unary},
	{Name: "Tanh", Kind: Unary, Core: true},
	{Name: "Logistic", Kind: Unary},
	{Name: "Sigmoid", Kind: Unary, Core: true},
	{Name: "Log1pExp", Kind: Unary, Core: true},
	{Name: "Erf", Kind: Unary},
	{Name: "Erfc", Kind: Unary},
	{Name: "LogErfc", Kind: Unary},
	{Name: "Gamma", Kind: Unary},
	{Name: "Lgamma", Kind: Unary, Core: true},
	{Name: "Mlgamma", Kind: Unary, Par: 1},
	{Name: "Mlgamma", Kind: Unary, Par: 2},
	{Name: "Mlgamma", Kind: Unary, Par: 3},
	{Name: "GammaP", Kind: Unary, Par: 0.5, Heavy: true},
	{Name: "GammaP", Kind: Unary, Par: 1, Slow: true},
	{Name: "GammaP", Kind: Unary, Par: 2.5, Heavy: true},
	{Name: "BesselI", Kind: Unary, Par: 0, Heavy: true},
	{Name: "BesselI", Kind: Unary, Par: 0.5, Heavy: true},
	{Name: "BesselI", Kind: Unary, Par: 1, Slow: true},
	{Name: "BesselI", Kind: Unary, Par: 2.5, Heavy: true},
	{Name: "LogBesselI", Kind: Unary, Par: 0, Heavy: true},
	{Name: "LogBesselI", Kind: Unary, Par: 0.5, Heavy: true},
	{Name: "LogBesselI", Kind: Unary, Par: 1, Heavy: true},
	{Name: "LogBesselI", Kind: Unary, Par: 2.5, Heavy: true},

	{Name: "Add", Kind: Binary, Core: true},
	{Name: "Sub", Kind: Binary, Core: true},
	{Name: "Mul", Kind: Binary, Core: true},
	{Name: "Div", Kind: Binary, Core: true},
	{Name: "Pow", Kind: Binary, Core: true},
	{Name: "Min", Kind: Binary},
	{Name: "Max", Kind: Binary, Core: true},
	{Name: "LogAdd", Kind: Binary, Core: true},
	{Name: "LogSub", Kind: Binary},

	{Name: "Vmean", Kind: Reduce},
	{Name: "VdotV", Kind: Reduce},
	{Name: "Vnorm", Kind: Reduce},
	{Name: "Mtrace", Kind: Reduce},
	{Name: "Mnorm", Kind: Reduce},
	{Name: "SmoothMax", Kind: Reduce, Par: 0.5},
	{Name: "SmoothMax", Kind: Reduce, Par: 2},
	{Name: "LogSmoothMax", Kind: Reduce, Par: 0.5},
	{Name: "LogSmoothMax", Kind: Reduce, Par: 2},
}

func findOp(name string, par float64) int {
	for i, o := range ops {
		if o.Name == name && o.Par == par {
			return i
		}
	}
	return -1
}

func lightOps(set []int) []int {
	var r []int
	for _, i := range set {
		if !ops[i].Heavy {
			r = append(r, i)
		}
	}
	return r
}

func fastOps(set []int) []int {
	var r []int
	for _, i := range set {
		if !ops[i].Heavy && !ops[i].Slow {
			r = append(r, i)
		}
	}
	return r
}

func hasHeavy(p *Program) bool {
	for i := range p.Ins {
		if ops[p.Ins[i].Op].Heavy {
			return true
		}
	}
	return false
}

func opsOfKind(k Kind, coreOnly bool) []int {
	var r []int
	for i, o := range ops {
		if o.Kind == k && (!coreOnly || o.Core) {
			r = append(r, i)
		}
	}
	return r
}

// ---- operands, instructions, programs ----------------------------------------------

// Operand kinds: 'V' variable i, 'K' ConstFloat64 literal, 'P' plain (non-magic) Float64,
// 'C' magic-typed scalar holding a constant (order 0; used inside vectors/matrices),
// 'R' result register of an earlier instruction.
type Operand struct {
	K byte    `json:"k"`
	I int     `json:"i,omitempty"`
	V float64 `json:"v,omitempty"`
}

// JSON cannot carry -Inf; encode non-finite operand constants separately.
type operandJSON struct {
	K string  `json:"k"`
	I int     `json:"i,omitempty"`
	V float64 `json:"v,omitempty"`
	S string  `json:"special,omitempty"`
}

func (o Operand) MarshalJSON() ([]byte, error) {
	if o.K == 0 {
		return []byte(`{"k":"-"}`), nil // unused slot
	}
	j := operandJSON{K: string([]byte{o.K}), I: o.I}
	switch {
	case math.IsInf(o.V, -1):
		j.S = "-Inf"
	case math.IsInf(o.V, 1):
		j.S = "+Inf"
	case math.IsNaN(o.V):
		j.S = "NaN"
	default:
		j.V = o.V
	}
	return json.Marshal(j)
}

func (o *Operand) UnmarshalJSON(b []byte) error {
	var j operandJSON
	if err := json.Unmarshal(b, &j); err != nil {
		return err
	}
	if j.K == "-" || j.K == "" || j.K == "\x00" {
		*o = Operand{}
		return nil
	}
	if len(j.K) != 1 {
		return fmt.Errorf("bad operand kind %q", j.K)
	}
	o.K, o.I, o.V = j.K[0], j.I, j.V
	switch j.S {
	case "-Inf":
		o.V = math.Inf(-1)
	case "+Inf":
		o.V = math.Inf(1)
	case "NaN":
		o.V = math.NaN()
	}
	return nil
}

func (o Operand) String() string {
	switch o.K {
	case 'V':
		return fmt.Sprintf("V%d", o.I)
	case 'R':
		return fmt.Sprintf("R%d", o.I)
	}
	return fmt.Sprintf("%c(%g)", o.K, o.V)
}

// Instr: R<index> := Op(A[,B]) or Op(Vec[,Vec2]); matrices are Vec reshaped to Rows x len/Rows.
type Instr struct {
	Op   int       `json:"-"`
	Name string    `json:"op"`
	Par  float64   `json:"par,omitempty"`
	A    Operand   `json:"a"`
	B    Operand   `json:"b"`
	Vec  []Operand `json:"vec,omitempty"`
	Vec2 []Operand `json:"vec2,omitempty"`
	Rows int       `json:"rows,omitempty"`
	// second operand vector of VdotV given as a plain DenseFloat64Vector
	PlainVec2 bool `json:"plain_vec2,omitempty"`
	// Dst: "" = the result goes to a destination register of its own (SSA form); "a" / "b" = the
	// destination IS the object of operand A / B (in-place update t.Mul(t, x), t.Sub(x, t),
	// t.Exp(t)); "ab" = both operand slots hold one object which is also the destination
	// (t.Mul(t, t)). The overwritten name (variable or register) is dead afterwards, so the
	// reference semantics are those of the same program in SSA form.
	Dst string `json:"dst,omitempty"`
}

func mkInstr(op int) Instr { return Instr{Op: op, Name: ops[op].Name, Par: ops[op].Par} }

func (in *Instr) resolve() error {
	in.Op = findOp(in.Name, in.Par)
	if in.Op < 0 {
		return fmt.Errorf("unknown op %s[%g]", in.Name, in.Par)
	}
	return nil
}

// target: the operand whose object receives the result of an in-place instruction.
func (in *Instr) target() (Operand, bool) {
	switch in.Dst {
	case "a", "ab":
		return in.A, true
	case "b":
		return in.B, true
	}
	return Operand{}, false
}

func (in Instr) String() string {
	o := ops[in.Op]
	d := ""
	if in.Dst != "" {
		d = "{dst=" + in.Dst + "}"
	}
	switch o.Kind {
	case Unary:
		return fmt.Sprintf("%v(%v)%s", o, in.A, d)
	case Binary:
		return fmt.Sprintf("%v(%v,%v)%s", o, in.A, in.B, d)
	}
	s := fmt.Sprintf("%v(%v", o, in.Vec)
	if in.Vec2 != nil {
		s += fmt.Sprintf(",%v", in.Vec2)
	}
	if in.Rows > 0 {
		s += fmt.Sprintf(";rows=%d", in.Rows)
	}
	return s + ")"
}

type Program struct {
	N   int     `json:"nvars"`
	Ins []Instr `json:"instructions"`
}

func (p Program) String() string {
	s := ""
	for i, in := range p.Ins {
		if i > 0 {
			s += "; "
		}
		s += fmt.Sprintf("R%d:=%v", i, in)
	}
	return s
}

// Case is one (program, element type, order, point, pollution) evaluation; it is the
// replay artefact.
type Case struct {
	Prog    Program   `json:"program"`
	Type    string    `json:"type"` // Real64 | Real32
	Order   int       `json:"order"`
	X       []float64 `json:"x"`
	XS      []string  `json:"x_special,omitempty"` // non-finite coordinates
	Pollute int       `json:"pollute"`             // 0 fresh objects; 1/2: registers, scratch and constant-valued magic scalars reused from an earlier order-1/2 computation; >= 3: reused objects with a longer history (index into polHists)
	// Stale 1/2: the variable objects themselves served as result registers of an earlier order-1/2
	// computation over the same number of variables (they still carry its gradient / Hessian) and are
	// activated AGAIN; Act: through which route ("" = Variables on fresh objects)
	Stale int    `json:"stale_variables,omitempty"`
	Act   string `json:"activate,omitempty"`
	// Hist: the variable objects are re-activated after an earlier differentiation round in which
	// each of them was updated in place by an operation reading the variable itself (see VarHist);
	// X is then the point they hold after that update
	Hist *VarHist `json:"variable_history,omitempty"`
	// RegHist: for Pollute >= 3, the orders of the contents the reused objects held (informational)
	RegHist string `json:"register_history,omitempty"`
	// Entry "concrete": every instruction whose operation has an upper-case concrete twin (NEG, ABS,
	// EXP, LOG, LOG1P, SQRT, ADD, SUB, MUL, DIV, POW, MIN, MAX, LOGADD, LOGSUB) and whose operands,
	// scratch temporary and destination all have the receiver's concrete type (*Real64 / *Real32)
	// is called through that twin; the other instructions through the Scalar interface ("" = all
	// instructions through the interface)
	Entry string `json:"entry_points,omitempty"`
	// Overwrite: after the program every object that is still alive (input variables, result
	// registers, scratch temporaries, constant-valued magic scalars) is overwritten in turn by
	// X_k := W_k*W_k (see overwriteRound); afterwards every X_k must hold exactly that product
	Overwrite bool `json:"overwrite_live_objects,omitempty"`
}

// VarHist: an earlier differentiation round on the variable objects. The objects were created
// at X0, activated with Variables(Order, ...), and then each variable i (in index order) was
// overwritten in place by one depth-1 program of the alphabet that reads the variable itself:
//
//	Form "a":  Vi := Op(Vi)  or  Vi := Op(Vi, O)
//	Form "b":  Vi := Op(O, Vi)
//	Form "ab": Vi := Op(Vi, Vi)
//
// with the other operand O = the next variable V(i+1 mod n) ("V"), the ConstFloat64 literal
// ("K"), the plain Float64 ("P"), or a register T = Vj*Vj computed beforehand from the next
// variable ("T": a term that depends on other variables with a non-zero Hessian, as in the
// coordinate-wise update x := x + g(y)).
type VarHist struct {
	Order int       `json:"earlier_order"`
	X0    []float64 `json:"earlier_point"`
	Op    string    `json:"update_op"`
	Par   float64   `json:"update_par,omitempty"`
	Form  string    `json:"update_form"`
	Other string    `json:"update_other,omitempty"`
}

func (h *VarHist) String() string {
	o := ops[findOp(h.Op, h.Par)]
	oth := map[string]string{"V": "Vnext", "K": fmt.Sprintf("K(%g)", constK), "P": fmt.Sprintf("P(%g)", constP), "T": "T=Vnext*Vnext"}[h.Other]
	switch {
	case o.Kind == Unary:
		return fmt.Sprintf("Vi:=%v(Vi)", o)
	case h.Form == "ab":
		return fmt.Sprintf("Vi:=%v(Vi,Vi)", o)
	case h.Form == "b":
		return fmt.Sprintf("Vi:=%v(%s,Vi)", o, oth)
	}
	return fmt.Sprintf("Vi:=%v(Vi,%s)", o, oth)
}

// objHist: the contents a reused object (destination register, scratch temporary,
// constant-valued magic scalar) held before the program runs: results of earlier computations
// of the given derivative orders over the same number of variables, oldest first, each
// assigned over the previous one by Set; the last one by Route ("Set", or "Add0": as the
// result of the operation r.Add(src, 0)).
type objHist struct {
	Orders []int
	Route  string
}

func (h objHist) orderString() string { return objHist{Orders: h.Orders}.String() }

func (h objHist) String() string {
	s := ""
	for i, o := range h.Orders {
		if i > 0 {
			s += ">"
		}
		s += fmt.Sprintf("o%d", o)
	}
	if h.Route != "" {
		s += ":" + h.Route
	}
	return s
}

// polHists: Case.Pollute indexes this table. 0: fresh objects; 1, 2: one earlier content of
// order 1 / 2; 3..: every sequence of two, then three contents with different adjacent orders
// (2>1, 2>0, 1>2, ..., 2>0>1, 1>2>1, ...) x last-assignment route.
var polHists = []objHist{{}, {Orders: []int{1}}, {Orders: []int{2}}}

// polHistQuick: the modes [3, polHistQuick) are the two-content histories.
var polHistQuick int

func init() {
	var seqs func(length int, f func([]int))
	seqs = func(length int, f func([]int)) {
		var rec func(seq []int)
		rec = func(seq []int) {
			if len(seq) == length {
				f(append([]int(nil), seq...))
				return
			}
			for _, o := range []int{2, 1, 0} {
				if len(seq) > 0 && seq[len(seq)-1] == o {
					continue
				}
				rec(append(seq, o))
			}
		}
		rec(nil)
	}
	for _, l := range []int{2, 3} {
		seqs(l, func(q []int) {
			for _, r := range []string{"Set", "Add0"} {
				polHists = append(polHists, objHist{Orders: q, Route: r})
			}
		})
		if l == 2 {
			polHistQuick = len(polHists)
		}
	}
}

// the routes by which scalars become variables
var actRoutes = []string{"Variables", "SetVariable", "vector.Variables", "matrix.Variables"}

func (c *Case) encodeX() {
	c.XS = nil
	for i, v := range c.X {
		if math.IsInf(v, 0) || math.IsNaN(v) {
			if c.XS == nil {
				c.XS = make([]string, len(c.X))
			}
			c.XS[i] = fmt.Sprint(v)
			c.X[i] = 0
		}
	}
}

func (c *Case) decodeX() {
	for i, s := range c.XS {
		switch s {
		case "-Inf":
			c.X[i] = math.Inf(-1)
		case "+Inf":
			c.X[i] = math.Inf(1)
		case "NaN":
			c.X[i] = math.NaN()
		}
	}
}

// ---- region labels (which branch of a piecewise definition a point exercises) ------

func sgn(x float64) string {
	switch {
	case math.IsNaN(x):
		return "x=NaN"
	case x < 0:
		return "x<0"
	case x > 0:
		return "x>0"
	}
	return "x=0"
}

func region1(o *OpDef, x float64) string {
	switch o.Name {
	case "Log1pExp":
		switch {
		case x <= -37:
			return "x<=-37"
		case x <= 18:
			return "-37<x<=18"
		case x <= 33.3:
			return "18<x<=33.3"
		}
		return "x>33.3"
	case "Sigmoid":
		if x >= 0 {
			return "x>=0"
		}
		return "x<0"
	case "LogErfc":
		switch {
		case x*x < 2.4607833005759251e-02:
			return "x^2<0.0246"
		case x > 26:
			return "x>26"
		case x > 8:
			return "8<x<=26"
		}
		return "mid"
	case "PowK":
		return "exp=const," + baseClass(x) + "," + expClass(x, o.Par)
	case "Neg", "Exp", "Sin", "Cos", "Sinh", "Cosh", "Tanh", "Erf", "Erfc", "Logistic", "Tan":
		return "-"
	}
	return sgn(x)
}

func baseClass(x float64) string {
	switch {
	case x < 0:
		return "base<0"
	case x == 0:
		return "base=0"
	case x == 1:
		return "base=1"
	}
	return "base>0"
}

// the exponents 0, 1, 2 are boundaries only at base 0 (vanishing coefficients times infinite powers)
func expClass(x, y float64) string {
	switch {
	case x == 0 && y == 0:
		return "exp=0"
	case x == 0 && y == 1:
		return "exp=1"
	case x == 0 && y == 2:
		return "exp=2"
	case y == math.Floor(y):
		return "exp=int"
	}
	return "exp=frac"
}

func cmpClass(a, b float64) string {
	switch {
	case a < b:
		return "a<b"
	case a > b:
		return "a>b"
	case a == b:
		return "a=b"
	}
	return "a?b"
}

func region2(o *OpDef, a, b float64, bMagic bool) string {
	switch o.Name {
	case "Min", "Max":
		return cmpClass(a, b)
	case "LogAdd":
		switch {
		case math.IsInf(a, -1) && math.IsInf(b, -1):
			return "both=-Inf"
		case math.IsInf(a, -1):
			return "a=-Inf"
		case math.IsInf(b, -1):
			return "b=-Inf"
		}
		return cmpClass(a, b)
	case "LogSub":
		if math.IsInf(b, -1) {
			return "b=-Inf"
		}
		return cmpClass(a, b)
	case "Pow":
		e := "exp=const,"
		if bMagic {
			e = "exp=var,"
		}
		return e + baseClass(a) + "," + expClass(a, b)
	case "Div":
		return "-"
	}
	return "-"
}
