// Execution of register programs on the real library types, and the comparison of every
// register against the reference jets.
package main

import (
	"fmt"
	"math"
	"strings"

	ad "github.com/pbenner/autodiff"
	"verif/mc/vf"
)

type logBesselIer interface {
	LogBesselI(float64, ad.ConstScalar) ad.Scalar
}

// libRT binds one element type.
type libRT struct {
	typ      string
	elemType ad.ScalarType
	newMagic func(v float64) ad.MagicScalar
	round    func(v float64) float64
	makeVec  func(e []ad.MagicScalar) ad.ConstVector
	makeMat  func(e []ad.MagicScalar, rows, cols int) ad.ConstMatrix
	asMagicV func(e []ad.MagicScalar) ad.MagicVector
	// concrete: call the upper-case concrete twin of the named operation if destination, operands
	// and scratch temporary all have the receiver's concrete type; false: not applicable
	concrete func(name string, d ad.Scalar, a, b ad.ConstScalar, scratch func() ad.MagicScalar) bool
	// read-only operands W_k and expected products W_k*W_k of the overwrite round, see overwriteRound
	owCache *[maxN + 1][3][2][]*owEntry
	owObjs  []liveObj
	owExp   []*owEntry
}

// concScalar: the concrete entry points of the scalar type T (= *Real64, *Real32).
type concScalar[T any] interface {
	ad.MagicScalar
	MIN(a, b T) ad.Scalar
	MAX(a, b T) ad.Scalar
	ABS(a T) ad.Scalar
	NEG(a T) T
	ADD(a, b T) T
	SUB(a, b T) T
	MUL(a, b T) T
	DIV(a, b T) T
	POW(a, k T) T
	LOGADD(a, b, t T) T
	LOGSUB(a, b, t T) T
	SQRT(a T) T
	EXP(a T) T
	LOG(a T) T
	LOG1P(a T) T
}

// concreteTwin: operations of the alphabet that have an upper-case concrete entry point.
var concreteTwin = map[string]bool{"Neg": true, "Abs": true, "Exp": true, "Log": true, "Log1p": true, "Sqrt": true,
	"Add": true, "Sub": true, "Mul": true, "Div": true, "Pow": true, "Min": true, "Max": true, "LogAdd": true, "LogSub": true}

func concreteCall[T concScalar[T]](name string, d ad.Scalar, a, b ad.ConstScalar, scratch func() ad.MagicScalar) bool {
	dd, ok := d.(T)
	if !ok {
		return false
	}
	aa, ok := a.(T)
	if !ok {
		return false
	}
	var bb T
	switch name {
	case "Add", "Sub", "Mul", "Div", "Pow", "Min", "Max", "LogAdd", "LogSub":
		if bb, ok = b.(T); !ok {
			return false
		}
	}
	switch name {
	case "Neg":
		dd.NEG(aa)
	case "Abs":
		dd.ABS(aa)
	case "Exp":
		dd.EXP(aa)
	case "Log":
		dd.LOG(aa)
	case "Log1p":
		dd.LOG1P(aa)
	case "Sqrt":
		dd.SQRT(aa)
	case "Add":
		dd.ADD(aa, bb)
	case "Sub":
		dd.SUB(aa, bb)
	case "Mul":
		dd.MUL(aa, bb)
	case "Div":
		dd.DIV(aa, bb)
	case "Pow":
		dd.POW(aa, bb)
	case "Min":
		dd.MIN(aa, bb)
	case "Max":
		dd.MAX(aa, bb)
	case "LogAdd", "LogSub":
		t, ok := scratch().(T)
		if !ok {
			panic("concreteCall: scratch temporary of another type")
		}
		if name == "LogAdd" {
			dd.LOGADD(aa, bb, t)
		} else {
			dd.LOGSUB(aa, bb, t)
		}
	default:
		return false
	}
	return true
}

// concreteApplicable: some instruction of the program would run through a concrete entry point.
func concreteApplicable(p *Program) bool {
	typed := func(o Operand) bool { return o.K == 'V' || o.K == 'R' || o.K == 'C' }
	for i := range p.Ins {
		in := &p.Ins[i]
		o := ops[in.Op]
		if !concreteTwin[o.Name] {
			continue
		}
		if typed(in.A) && (o.Kind == Unary || typed(in.B)) {
			return true
		}
	}
	return false
}

var rtReal64 = &libRT{
	typ:      "Real64",
	elemType: ad.Real64Type,
	newMagic: func(v float64) ad.MagicScalar { return ad.NewReal64(v) },
	round:    func(v float64) float64 { return v },
	concrete: concreteCall[*ad.Real64],
	makeVec: func(e []ad.MagicScalar) ad.ConstVector {
		v := make(ad.DenseReal64Vector, len(e))
		for i := range e {
			v[i] = e[i].(*ad.Real64)
		}
		return v
	},
	makeMat: func(e []ad.MagicScalar, rows, cols int) ad.ConstMatrix {
		v := make(ad.DenseReal64Vector, len(e))
		for i := range e {
			v[i] = e[i].(*ad.Real64)
		}
		return v.ToDenseReal64Matrix(rows, cols)
	},
	asMagicV: func(e []ad.MagicScalar) ad.MagicVector {
		v := make(ad.DenseReal64Vector, len(e))
		for i := range e {
			v[i] = e[i].(*ad.Real64)
		}
		return v
	},
}

var rtReal32 = &libRT{
	typ:      "Real32",
	elemType: ad.Real32Type,
	newMagic: func(v float64) ad.MagicScalar { return ad.NewReal32(float32(v)) },
	round:    func(v float64) float64 { return float64(float32(v)) },
	concrete: concreteCall[*ad.Real32],
	makeVec: func(e []ad.MagicScalar) ad.ConstVector {
		v := make(ad.DenseReal32Vector, len(e))
		for i := range e {
			v[i] = e[i].(*ad.Real32)
		}
		return v
	},
	makeMat: func(e []ad.MagicScalar, rows, cols int) ad.ConstMatrix {
		v := make(ad.DenseReal32Vector, len(e))
		for i := range e {
			v[i] = e[i].(*ad.Real32)
		}
		return v.ToDenseReal32Matrix(rows, cols)
	},
	asMagicV: func(e []ad.MagicScalar) ad.MagicVector {
		v := make(ad.DenseReal32Vector, len(e))
		for i := range e {
			v[i] = e[i].(*ad.Real32)
		}
		return v
	},
}

func rtOf(typ string) *libRT {
	if typ == "Real32" {
		return rtReal32
	}
	return rtReal64
}

// a register or scratch scalar: fresh, or reused from earlier computations over the same
// number of variables (stale value, gradient and asymmetric Hessian garbage): polHists[pollute]
// lists the derivative orders of the contents it held, each assigned over the previous one.
func (rt *libRT) temp(n, pollute int, salt float64) ad.MagicScalar {
	if pollute == 0 {
		return rt.newMagic(0)
	}
	h := polHists[pollute]
	r := rt.used(7.25+salt, n, h.Orders[0], salt)
	for k, o := range h.Orders[1:] {
		src := rt.used(7.25+salt+float64(k+1), n, o, salt+float64(k+1))
		if k == len(h.Orders)-2 && h.Route == "Add0" {
			r.Add(src, ad.ConstFloat64(0))
		} else {
			r.Set(src)
		}
	}
	return r
}

// constObj: a magic-typed scalar holding the constant v (an accumulator, a constant vector
// element): a new object, or a reused one (see temp) whose value was set with SetFloat64,
// which zeroes the derivatives and keeps order and number of variables.
func (rt *libRT) constObj(v float64, n, pollute int) ad.MagicScalar {
	if pollute == 0 {
		return rt.newMagic(v)
	}
	r := rt.temp(n, pollute, 3.5)
	r.SetFloat64(v)
	return r
}

// used: a scalar holding value v that was the result of an order-`order` computation over n variables.
func (rt *libRT) used(v float64, n, order int, salt float64) ad.MagicScalar {
	r := rt.newMagic(v)
	r.Alloc(n, order)
	for i := 0; i < n && order >= 1; i++ {
		r.SetDerivative(i, -3.5-float64(i)-salt)
		if order >= 2 {
			for k := 0; k < n; k++ {
				r.SetHessian(i, k, 11.0+float64(3*i)-float64(5*k)+salt)
			}
		}
	}
	return r
}

// buildHist: the variable objects after the earlier differentiation round described by h.
func (rt *libRT) buildHist(h *VarHist) []ad.MagicScalar {
	n := len(h.X0)
	op := findOp(h.Op, h.Par)
	if op < 0 || n == 0 || (ops[op].Kind != Unary && ops[op].Kind != Binary) {
		panic("buildHist: malformed variable history")
	}
	o := ops[op]
	mv := make([]ad.MagicScalar, n)
	for i := range mv {
		mv[i] = rt.newMagic(h.X0[i])
	}
	if err := ad.Variables(h.Order, mv...); err != nil {
		panic(err)
	}
	var T []ad.MagicScalar
	if h.Other == "T" {
		T = make([]ad.MagicScalar, n)
		for i := range T {
			T[i] = rt.newMagic(0)
			T[i].Mul(mv[(i+1)%n], mv[(i+1)%n])
		}
	}
	for i := range mv {
		var other ad.ConstScalar
		switch h.Other {
		case "V":
			other = mv[(i+1)%n]
		case "K":
			other = ad.ConstFloat64(constK)
		case "P":
			other = ad.NewFloat64(constP)
		case "T":
			other = T[i]
		}
		var a, b ad.ConstScalar = mv[i], other
		switch {
		case o.Kind == Unary:
			b = nil
		case h.Form == "ab":
			b = mv[i]
		case h.Form == "b":
			a, b = other, mv[i]
		}
		rt.applyScalar(o, mv[i], a, b, &callEnv{n: n})
	}
	return mv
}

// activate: the routes by which scalars become the variables of a differentiation.
func (rt *libRT) activate(route string, order int, mv []ad.MagicScalar) error {
	switch route {
	case "", "Variables":
		return ad.Variables(order, mv...)
	case "SetVariable":
		for i := range mv {
			if err := mv[i].SetVariable(i, len(mv), order); err != nil {
				return err
			}
		}
		return nil
	case "vector.Variables":
		return rt.asMagicV(mv).Variables(order)
	case "matrix.Variables":
		return rt.makeMat(mv, 1, len(mv)).(interface{ Variables(int) error }).Variables(order)
	}
	return fmt.Errorf("unknown activation route %q", route)
}

type runOut struct {
	regs     []ad.MagicScalar
	panicAt  int // -1: none
	panicMsg string
	// the objects the program reads that must come out of it unchanged: the input variables (nil
	// when supplied from outside) and the constant-valued magic scalars, with the value read back
	// when they were handed to the program; dead: objects overwritten by an in-place instruction
	vars      []ad.MagicScalar
	varVal    [maxN]float64
	consts    []ad.MagicScalar
	constVal  []float64
	dead      [maxIns]ad.MagicScalar // at most one per instruction
	nDead     int
	scratch   []ad.MagicScalar // scratch temporaries handed to the library
	nConcrete int              // instructions executed through a concrete entry point
}

const maxIns = 4 // longest program of the enumeration: 3 instructions

func (out *runOut) isDead(o ad.MagicScalar) bool {
	for _, d := range out.dead[:out.nDead] {
		if d == o {
			return true
		}
	}
	return false
}

// callEnv: what an instruction call needs besides its operands.
type callEnv struct {
	n, pollute int
	concrete   bool              // through the concrete twin wherever destination and operands have the receiver's type
	scratch    *[]ad.MagicScalar // records the scratch temporaries (nil: not recorded)
	nConcrete  int
}

func (rt *libRT) scratchTemp(env *callEnv, salt float64) ad.MagicScalar {
	t := rt.temp(env.n, env.pollute, salt)
	if env.scratch != nil {
		*env.scratch = append(*env.scratch, t)
	}
	return t
}

// run executes the program. vars may be supplied from outside (Matrix.Hessian/Jacobian
// helpers activate their own clones); otherwise they are created and activated here.
func (rt *libRT) run(p *Program, cs *Case, ext []ad.ConstScalar) runOut {
	return rt.runHook(p, cs, ext, nil)
}

// runHook: after(k, out) is called after instruction k has completed.
func (rt *libRT) runHook(p *Program, cs *Case, ext []ad.ConstScalar, after func(k int, out *runOut)) (out runOut) {
	n := p.N
	if len(p.Ins) > maxIns || n > maxN {
		panic("run: program longer than maxIns instructions or over more than maxN variables")
	}
	out.panicAt = -1
	vars := ext
	if vars == nil {
		mv := make([]ad.MagicScalar, n)
		vars = make([]ad.ConstScalar, n)
		if cs.Hist != nil {
			mv = rt.buildHist(cs.Hist)
			for i := range mv {
				if !sameBits(mv[i].GetFloat64(), cs.X[i]) {
					panic(fmt.Sprintf("variable history %v from %v leaves x%d = %v, the case says %v", cs.Hist, cs.Hist.X0, i, mv[i].GetFloat64(), cs.X[i]))
				}
			}
		}
		for i := 0; i < n; i++ {
			switch {
			case cs.Hist != nil:
			case cs.Stale > 0:
				mv[i] = rt.used(cs.X[i], n, cs.Stale, 0.25+float64(i))
			default:
				mv[i] = rt.newMagic(cs.X[i])
			}
			vars[i] = mv[i]
		}
		if err := rt.activate(cs.Act, cs.Order, mv); err != nil {
			panic(err)
		}
		out.vars = mv
		for i := range mv {
			out.varVal[i] = mv[i].GetFloat64()
		}
	}
	out.regs = make([]ad.MagicScalar, 0, len(p.Ins))
	cur := 0
	env := &callEnv{n: n, pollute: cs.Pollute, concrete: cs.Entry == "concrete", scratch: &out.scratch}
	defer func() {
		out.nConcrete = env.nConcrete
		if r := recover(); r != nil {
			out.panicAt = cur
			out.panicMsg = fmt.Sprint(r)
		}
	}()
	// constant-valued magic scalars are reused objects only in depth-1 programs: a constant register
	// computed from such objects in a deeper program is a variable by the library's own definition
	// (order >= 1), and Pow with that register as exponent takes the x^y branch (log(x) * 0 at x <= 0)
	polC := cs.Pollute
	if len(p.Ins) > 1 {
		polC = 0
	}
	constant := func(c ad.MagicScalar) ad.MagicScalar {
		out.consts = append(out.consts, c)
		out.constVal = append(out.constVal, c.GetFloat64())
		return c
	}
	get := func(o Operand) ad.ConstScalar {
		switch o.K {
		case 'V':
			return vars[o.I]
		case 'R':
			return out.regs[o.I]
		case 'K':
			return ad.ConstFloat64(o.V)
		case 'P':
			return ad.NewFloat64(o.V)
		case 'C':
			return constant(rt.constObj(o.V, n, polC))
		}
		panic("bad operand kind")
	}
	elems := func(os []Operand) []ad.MagicScalar {
		e := make([]ad.MagicScalar, len(os))
		for i, o := range os {
			switch o.K {
			case 'V':
				e[i] = vars[o.I].(ad.MagicScalar)
			case 'R':
				e[i] = out.regs[o.I]
			default:
				e[i] = constant(rt.constObj(o.V, n, polC))
			}
		}
		return e
	}
	for i := range p.Ins {
		cur = i
		in := &p.Ins[i]
		o := ops[in.Op]
		// in-place forms: the destination is the object of an operand. A function handed to
		// Matrix.Hessian/Jacobian (ext != nil) must not overwrite its argument: SSA form there.
		alias := in.Dst
		if ext != nil {
			alias = ""
		}
		var a, b ad.ConstScalar
		switch o.Kind {
		case Unary:
			if in.A.K == 'C' {
				// one operand: the receiver takes order and number of variables from it and nothing is
				// re-allocated when it is the operand itself; on a reused object of order >= 1 the
				// operation would only form f'(c) * 0
				a = constant(rt.newMagic(in.A.V))
			} else {
				a = get(in.A)
			}
		case Binary:
			a = get(in.A)
			switch {
			case alias == "ab" && o.Name == "Pow" && in.A.K == 'C':
				a = constant(rt.newMagic(in.A.V)) // base, exponent and destination one object: see below
				b = a
			case alias == "ab":
				b = a
			case o.Name == "Pow" && in.B.K == 'C':
				// Pow decides between x^const and x^y by the exponent's order: a constant exponent
				// is a constant by the library's own definition only in a scalar of order 0
				b = constant(rt.newMagic(in.B.V))
			default:
				b = get(in.B)
			}
		}
		var dst ad.MagicScalar
		switch alias {
		case "a", "ab":
			dst = a.(ad.MagicScalar)
		case "b":
			dst = b.(ad.MagicScalar)
		default:
			dst = rt.temp(n, cs.Pollute, float64(i))
		}
		if alias != "" {
			out.dead[out.nDead] = dst
			out.nDead++
		}
		if t, ok := in.target(); ok && alias != "" && t.K == 'R' {
			// the object of an earlier register is about to be overwritten: keep a copy of that
			// register's result for the comparison (every register is compared, in order, so a wrong
			// result is attributed to the instruction that produced it)
			out.regs[t.I] = out.regs[t.I].CloneMagicScalar()
		}
		var d ad.Scalar = dst
		switch o.Kind {
		case Unary, Binary:
			rt.applyScalar(o, d, a, b, env)
		case Reduce:
			switch o.Name {
			case "Vmean":
				d.Vmean(rt.makeVec(elems(in.Vec)))
			case "Vnorm":
				d.Vnorm(rt.makeVec(elems(in.Vec)))
			case "VdotV":
				var w ad.ConstVector
				if in.PlainVec2 {
					vals := make([]float64, len(in.Vec2))
					for k, q := range in.Vec2 {
						vals[k] = q.V
					}
					w = ad.NewDenseFloat64Vector(vals)
				} else {
					w = rt.makeVec(elems(in.Vec2))
				}
				d.VdotV(rt.makeVec(elems(in.Vec)), w)
			case "Mtrace":
				d.Mtrace(rt.makeMat(elems(in.Vec), in.Rows, len(in.Vec)/in.Rows))
			case "Mnorm":
				d.Mnorm(rt.makeMat(elems(in.Vec), in.Rows, len(in.Vec)/in.Rows))
			case "SmoothMax":
				d.SmoothMax(rt.makeVec(elems(in.Vec)), ad.ConstFloat64(o.Par),
					[2]ad.Scalar{rt.scratchTemp(env, 0.5), rt.scratchTemp(env, 1.5)})
			case "LogSmoothMax":
				d.LogSmoothMax(rt.makeVec(elems(in.Vec)), ad.ConstFloat64(o.Par),
					[3]ad.Scalar{rt.scratchTemp(env, 0.5), rt.scratchTemp(env, 1.5), rt.scratchTemp(env, 2.5)})
			default:
				panic("run: unknown reduction " + o.Name)
			}
		}
		out.regs = append(out.regs, dst)
		if after != nil {
			after(i, &out)
		}
	}
	return out
}

// applyScalar: d := o(a[, b]); scratch temporaries as temp(n, pollute, .).
func (rt *libRT) applyScalar(o *OpDef, d ad.Scalar, a, b ad.ConstScalar, env *callEnv) {
	if env.concrete && concreteTwin[o.Name] {
		if rt.concrete(o.Name, d, a, b, func() ad.MagicScalar { return rt.scratchTemp(env, 0.5) }) {
			env.nConcrete++
			return
		}
	}
	switch o.Kind {
	case Unary:
		switch o.Name {
		case "Neg":
			d.Neg(a)
		case "Abs":
			d.Abs(a)
		case "Exp":
			d.Exp(a)
		case "Log":
			d.Log(a)
		case "Sqrt":
			d.Sqrt(a)
		case "PowK":
			d.Pow(a, ad.ConstFloat64(o.Par))
		case "Log1p":
			d.Log1p(a)
		case "Sin":
			d.Sin(a)
		case "Cos":
			d.Cos(a)
		case "Tan":
			d.Tan(a)
		case "Sinh":
			d.Sinh(a)
		case "Cosh":
			d.Cosh(a)
		case "Tanh":
			d.Tanh(a)
		case "Logistic":
			d.Logistic(a)
		case "Sigmoid":
			d.Sigmoid(a, rt.scratchTemp(env, 0.5))
		case "Log1pExp":
			d.Log1pExp(a)
		case "Erf":
			d.Erf(a)
		case "Erfc":
			d.Erfc(a)
		case "LogErfc":
			d.LogErfc(a)
		case "Gamma":
			d.Gamma(a)
		case "Lgamma":
			d.Lgamma(a)
		case "Mlgamma":
			d.Mlgamma(a, int(o.Par))
		case "GammaP":
			d.GammaP(o.Par, a)
		case "BesselI":
			d.BesselI(o.Par, a)
		case "LogBesselI":
			d.(logBesselIer).LogBesselI(o.Par, a)
		default:
			panic("run: unknown unary " + o.Name)
		}
	case Binary:
		switch o.Name {
		case "Add":
			d.Add(a, b)
		case "Sub":
			d.Sub(a, b)
		case "Mul":
			d.Mul(a, b)
		case "Div":
			d.Div(a, b)
		case "Pow":
			d.Pow(a, b)
		case "Min":
			d.Min(a, b)
		case "Max":
			d.Max(a, b)
		case "LogAdd":
			d.LogAdd(a, b, rt.scratchTemp(env, 0.5))
		case "LogSub":
			d.LogSub(a, b, rt.scratchTemp(env, 0.5))
		default:
			panic("run: unknown binary " + o.Name)
		}
	}
}

// ---- comparison ------------------------------------------------------------------------------

const tolK = 64.0

type failure struct {
	key, what string
	reg       int // index of the failing register (instruction)
}

type checker struct {
	c     *vf.Ctx
	fails []failure
}

func opClass(j *Jet) string {
	if j.Deps != 0 {
		return "m"
	}
	return "c"
}

// signature and region of instruction k (operand classes: m = depends on a variable, c = constant)
func instrSig(p *Program, k int, jets []Jet, x []float64) (string, string) {
	in := &p.Ins[k]
	o := ops[in.Op]
	getJ := func(q Operand) Jet {
		switch q.K {
		case 'V':
			return varJet(q.I, x[q.I])
		case 'R':
			return jets[q.I]
		}
		return constJet(q.V)
	}
	switch o.Kind {
	case Unary:
		a := getJ(in.A)
		return fmt.Sprintf("%v(%s)", o, opClass(&a)), region1(o, a.Val.V)
	case Binary:
		a, b := getJ(in.A), getJ(in.B)
		return fmt.Sprintf("%v(%s,%s)", o, opClass(&a), opClass(&b)), region2(o, a.Val.V, b.Val.V, b.Deps != 0)
	}
	if o.Name == "LogSmoothMax" {
		// an entry that depends on a variable and is exactly zero: the log-scale evaluation takes log 0
		for _, q := range in.Vec {
			if j := getJ(q); j.Deps != 0 && j.Val.V == 0 {
				return o.String(), "variable-entry=0"
			}
		}
	}
	return o.String(), "-"
}

// family: which derivative-propagation routine an operation runs through
func family(o *OpDef) string {
	switch o.Name {
	case "Abs", "Min", "Max":
		return "copy(" + o.Name + ")"
	case "Log1pExp", "Sigmoid", "Logistic", "LogAdd", "LogSub":
		return "composite(" + o.Name + ")"
	}
	switch o.Kind {
	case Unary:
		return "unary"
	case Binary:
		return "binary"
	}
	return "reduction(" + o.Name + ")"
}

func sameBits(a, b float64) bool {
	return math.Float64bits(a) == math.Float64bits(b) || (a == 0 && b == 0)
}

// within: a tolerance larger than half the reference value cannot even decide the sign; such a
// component is ill conditioned at this point and is not compared (whatever the library reports).
func vacuous(want, tol float64) bool { return tol > 0 && tol >= 0.5*abs(want) && tol >= 1e-3 }

func within(got, want, tol float64) bool {
	if vacuous(want, tol) {
		return true
	}
	if math.IsNaN(got) || math.IsInf(got, 0) {
		return false
	}
	return abs(got-want) <= tol
}

func nanTag(what string, got float64) string {
	switch {
	case math.IsNaN(got):
		return what + ":NaN"
	case math.IsInf(got, 0):
		return what + ":Inf"
	}
	return what
}

type cmpStats struct {
	checkedRegs int
	nontrivial  bool
	status      string // outcome label of the final register
	kinks       int    // registers on a kink compared against the hull of the one-sided derivatives
	nonsmooth   int    // other registers without unique derivatives (domain boundary, downstream of a kink): structure only
}

// compareRegs checks every register of a finished run against the model. Returns the
// failures of the first failing register only (later ones are consequences).
func compareRegs(m *Model, p *Program, cs *Case, out *runOut, jets []Jet) (fails []failure, st cmpStats) {
	n := p.N
	typ := cs.Type
	allFinite := true
	illcond := false
	gate := 1e-6
	if m.F32 {
		gate = 1e-2
	}
	defer func() {
		if r := recover(); r != nil {
			sig, reg := instrSig(p, len(p.Ins)-1, jets, cs.X)
			fails = append(fails, failure{fmt.Sprintf("%s|%s|getter-panic|%s", sig, reg, typ), fmt.Sprintf("reading the result panicked: %v", r), len(p.Ins) - 1})
		}
	}()
	illJet := func(j *Jet) bool {
		ill := vacuous(j.Val.V, tolK*j.Val.E)
		for i := 0; i < n && !ill; i++ {
			ill = vacuous(j.G[i].V, tolK*j.G[i].E)
			for l := 0; l < n && cs.Order >= 2 && !ill; l++ {
				ill = vacuous(j.H[i][l].V, tolK*j.H[i][l].E)
			}
		}
		return ill
	}
	nregs := len(out.regs)
	for k := 0; k < nregs; k++ {
		j := &jets[k]
		r := out.regs[k]
		if j.Status == stUndefined {
			if st.status == "" {
				st.status = "undefined:" + j.Why
			}
			return
		}
		sig, reg := "", ""
		fail := func(what, msg string) {
			if sig == "" {
				sig, reg = instrSig(p, k, jets, cs.X)
			}
			key := fmt.Sprintf("%s|%s|%s|%s", sig, reg, what, typ)
			if what == "symmetry" || what == "nonzero-independent-slot" {
				// structural failures stem from the shared chain-rule combinators (or Set), not from
				// an operation's coefficients: keyed by the combinator family only
				key = fmt.Sprintf("%s|*|%s|%s", family(ops[p.Ins[k].Op]), what, typ)
			}
			fails = append(fails, failure{key, fmt.Sprintf("R%d of [%v] at x=%v order=%d pollute=%d: %s", k, p, cs.X, cs.Order, cs.Pollute, msg), k})
		}
		got := r.GetFloat64()
		if !within(got, j.Val.V, tolK*j.Val.E) {
			fail(nanTag("value", got), fmt.Sprintf("value %v, reference %v (tolerance %.3g)", got, j.Val.V, tolK*j.Val.E))
			return
		}
		if j.Status == stNonsmooth || (j.Sing && cs.Pollute > 0) {
			// kink or boundary of the domain: the derivatives are not unique, but the clauses that
			// do not depend on a convention still hold (see checkNonsmooth). The same for a constant
			// with a singular local derivative held in a reused object of order >= 1 (0 * Inf).
			allFinite = false
			st.checkedRegs++
			if !illcond {
				checkNonsmooth(j, r, n, cs.Order, fail)
				if j.K != nil {
					st.kinks++
				} else {
					st.nonsmooth++
				}
			}
			if len(fails) > 0 {
				return
			}
			if k == nregs-1 {
				switch {
				case j.K != nil:
					st.status = "kink-bounds:" + j.Why
				case j.Status != stNonsmooth:
					st.status = "value+structure:constant-with-singular-derivative"
				default:
					st.status = "value+structure:" + j.Why
				}
			}
			continue
		}
		// a register with an ill-conditioned component (cancellation inside the operation) may
		// legitimately hold non-finite intermediates: neither its derivatives nor those of later
		// registers are compared, and no exact zeros are demanded
		if illcond || illJet(j) {
			illcond, allFinite = true, false
			st.checkedRegs++
			if k == len(p.Ins)-1 {
				st.status = "value-only:ill-conditioned"
			}
			continue
		}
		// gradient
		low := ""
		scale := abs(j.Val.V)
		maxtol := tolK * j.Val.E
		for i := 0; i < n && low == ""; i++ {
			g := r.GetDerivative(i)
			if j.Deps&(1<<uint(i)) == 0 && allFinite {
				if g != 0 {
					what := "nonzero-independent-slot"
					if math.IsNaN(g) {
						what = "d1:NaN"
					}
					fail(what, fmt.Sprintf("d/dx%d = %v although the register does not depend on x%d", i, g, i))
				}
				continue
			}
			scale = math.Max(scale, abs(j.G[i].V))
			maxtol = math.Max(maxtol, tolK*j.G[i].E)
			if !within(g, j.G[i].V, tolK*j.G[i].E) {
				low = "d1"
				fail(nanTag("d1", g), fmt.Sprintf("d/dx%d = %v, reference %v (tolerance %.3g)", i, g, j.G[i].V, tolK*j.G[i].E))
			}
		}
		if cs.Order >= 2 {
			for i := 0; i < n; i++ {
				for l := i; l < n; l++ {
					h, ht := r.GetHessian(i, l), r.GetHessian(l, i)
					if !sameBits(h, ht) && !(math.IsNaN(h) && math.IsNaN(ht)) {
						fail("symmetry", fmt.Sprintf("H[%d][%d]=%v but H[%d][%d]=%v", i, l, h, l, i, ht))
					}
					if (j.Deps&(1<<uint(i)) == 0 || j.Deps&(1<<uint(l)) == 0) && allFinite {
						if h != 0 || ht != 0 {
							what := "nonzero-independent-slot"
							if math.IsNaN(h) || math.IsNaN(ht) {
								what = "d2:NaN"
							}
							if low == "" || what == "nonzero-independent-slot" {
								fail(what, fmt.Sprintf("H[%d][%d] = %v although the register does not depend on both variables", i, l, h))
							}
						}
						continue
					}
					scale = math.Max(scale, abs(j.H[i][l].V))
					maxtol = math.Max(maxtol, tolK*j.H[i][l].E)
					if low == "" && !within(h, j.H[i][l].V, tolK*j.H[i][l].E) {
						low = "d2"
						fail(nanTag("d2", h), fmt.Sprintf("H[%d][%d] = %v, reference %v (tolerance %.3g)", i, l, h, j.H[i][l].V, tolK*j.H[i][l].E))
					}
				}
			}
		}
		if len(fails) > 0 {
			return
		}
		st.checkedRegs++
		if k == len(p.Ins)-1 {
			if j.Deps != 0 && scale > 0 && maxtol <= gate*scale {
				st.nontrivial = true
				st.status = "checked"
			} else if j.Deps == 0 {
				st.status = "checked-constant"
			} else {
				st.status = "checked-loose"
			}
		}
	}
	if out.panicAt >= 0 {
		// every register completed before the panic agreed with the model
		k := out.panicAt
		if jets[k].Status != stUndefined {
			// a panic is keyed by the operation only (one key per routine that blows up)
			fails = append(fails, failure{fmt.Sprintf("%v|*|panic|%s", ops[p.Ins[k].Op], typ), fmt.Sprintf("%v in [%v] at x=%v order=%d pollute=%d panicked: %s", p.Ins[k], p, cs.X, cs.Order, cs.Pollute, out.panicMsg), k})
			st.status = "panic"
			return
		}
		st.status = "panic-expected"
	}
	return
}

// ---- objects that must survive the program unchanged ------------------------------------------------

// liveMismatch: the first input variable that is not overwritten by an in-place instruction and no
// longer holds its seed jet (value as activated, d/dx_i = 1, every other slot exactly 0), or the
// first constant-valued magic scalar that no longer holds its value with all derivative slots
// exactly 0. Exact comparison: no operation may write to an object that is only its operand.
func liveMismatch(out *runOut, n int) (role, name, comp, msg string) {
	vi, ci := -1, -1
	describe := func() {
		if vi >= 0 {
			role, name = "input-variable", fmt.Sprintf("V%d", vi)
		} else if ci >= 0 {
			role, name = "constant-operand", fmt.Sprintf("the constant-valued magic scalar %v", out.constVal[ci])
		}
	}
	defer func() {
		if r := recover(); r != nil {
			describe()
			comp, msg = "getter-panic", fmt.Sprintf("reading %s after the program panicked: %v", name, r)
		}
	}()
	chk := func(obj ad.MagicScalar, val float64, seed int) (string, string) {
		if got := obj.GetFloat64(); !sameBits(got, val) && !(math.IsNaN(got) && math.IsNaN(val)) {
			return "value", fmt.Sprintf("value %v, was %v", got, val)
		}
		for i := 0; i < n; i++ {
			want := 0.0
			if i == seed {
				want = 1
			}
			if g := obj.GetDerivative(i); g != want {
				return nanTag("d1", g), fmt.Sprintf("d/dx%d = %v, was %v", i, g, want)
			}
		}
		if obj.GetOrder() < 2 {
			return "", "" // no second derivatives are stored
		}
		for i := 0; i < n; i++ {
			for l := 0; l < n; l++ {
				if h := obj.GetHessian(i, l); h != 0 {
					return nanTag("d2", h), fmt.Sprintf("H[%d][%d] = %v, was 0", i, l, h)
				}
			}
		}
		return "", ""
	}
	for i, v := range out.vars {
		if out.nDead > 0 && out.isDead(v) {
			continue
		}
		vi = i
		if comp, msg = chk(v, out.varVal[i], i); comp != "" {
			describe()
			return
		}
	}
	vi = -1
	for i, c := range out.consts {
		if out.nDead > 0 && out.isDead(c) {
			continue
		}
		ci = i
		if comp, msg = chk(c, out.constVal[i], -1); comp != "" {
			describe()
			return
		}
	}
	return "", "", "", ""
}

// checkLive: every input variable and every constant-valued magic scalar that no in-place
// instruction overwrote still holds what it held when the program started. On a mismatch the
// program is run again with the same check after every instruction, to name the instruction
// after which the object changed.
func (rt *libRT) checkLive(p *Program, cs *Case, out *runOut) (fails []failure) {
	if out.panicAt >= 0 {
		return nil
	}
	role, name, comp, msg := liveMismatch(out, p.N)
	if comp == "" {
		return nil
	}
	at := -1
	rt.runHook(p, cs, nil, func(k int, o *runOut) {
		if at < 0 {
			if _, _, c, _ := liveMismatch(o, p.N); c != "" {
				at = k
			}
		}
	})
	by := "?"
	if at >= 0 {
		by = family(ops[p.Ins[at].Op])
	} else {
		at = len(p.Ins) - 1
	}
	key := fmt.Sprintf("operand-modified|%s|by:%s|%s|%s", role, by, comp, cs.Type)
	return []failure{{key, fmt.Sprintf("[%v] at x=%v order=%d pollute=%d entry=%q: %s, which is only read by the program, changed (first seen after R%d): %s", p, cs.X, cs.Order, cs.Pollute, cs.Entry, name, at, msg), at}}
}

// ---- overwrite round ----------------------------------------------------------------------------

// owEntry: the read-only operand W_k of the overwrite round and the product W_k*W_k as the
// library computes it into a new object.
type owEntry struct {
	w   ad.MagicScalar
	val float64
	g   [maxN]float64
	h   [maxN][maxN]float64
}

func (rt *libRT) owMul(entry string, x, w ad.MagicScalar) {
	if entry == "concrete" {
		if !rt.concrete("Mul", x, w, w, nil) {
			panic("overwrite round: concrete MUL not applicable")
		}
		return
	}
	x.Mul(w, w)
}

func (rt *libRT) owGet(n, order, k int, entry string) *owEntry {
	ei := 0
	if entry != "" {
		ei = 1
	}
	if rt.owCache == nil {
		rt.owCache = &[maxN + 1][3][2][]*owEntry{}
	}
	tab := &rt.owCache[n][order][ei]
	for len(*tab) <= k {
		*tab = append(*tab, nil)
	}
	if e := (*tab)[k]; e != nil {
		return e
	}
	e := &owEntry{w: rt.used(1.5+0.25*float64(k), n, order, 0.5*float64(k))}
	x := rt.newMagic(0)
	rt.owMul(entry, x, e.w)
	e.val = x.GetFloat64()
	for i := 0; i < n; i++ {
		e.g[i] = x.GetDerivative(i)
		for l := 0; l < n; l++ {
			e.h[i][l] = x.GetHessian(i, l)
		}
	}
	(*tab)[k] = e
	return e
}

// liveObj: kind 'R' result register idx, 'V' input variable idx, 'C' constant-valued magic scalar
// idx (of runOut.consts), 'T' scratch temporary idx.
type liveObj struct {
	obj  ad.MagicScalar
	kind byte
	idx  int
}

func (l liveObj) role(p *Program) string {
	switch l.kind {
	case 'R':
		return "result:" + family(ops[p.Ins[l.idx].Op])
	case 'V':
		return "input-variable"
	case 'C':
		return "constant-operand"
	}
	return "scratch-temporary"
}

func (l liveObj) name(out *runOut) string {
	switch l.kind {
	case 'R':
		return fmt.Sprintf("R%d", l.idx)
	case 'V':
		return fmt.Sprintf("V%d", l.idx)
	case 'C':
		return fmt.Sprintf("constant %v", out.constVal[l.idx])
	}
	return fmt.Sprintf("scratch temporary %d", l.idx)
}

// liveObjects: the distinct objects that exist when the program has finished: result registers
// (a variable or constant overwritten in place is the register it holds), input variables,
// constant-valued magic scalars, scratch temporaries.
func liveObjects(out *runOut, objs []liveObj) []liveObj {
	objs = objs[:0]
	add := func(o ad.MagicScalar, kind byte, idx int) {
		for i := range objs {
			if objs[i].obj == o {
				return
			}
		}
		objs = append(objs, liveObj{o, kind, idx})
	}
	for k := len(out.regs) - 1; k >= 0; k-- {
		add(out.regs[k], 'R', k)
	}
	for i, v := range out.vars {
		add(v, 'V', i)
	}
	for i, c := range out.consts {
		add(c, 'C', i)
	}
	for i, t := range out.scratch {
		add(t, 'T', i)
	}
	return objs
}

// overwriteRound ("temporaries reused" after the program): every object that is alive when the
// program has finished is overwritten in turn by X_k := W_k*W_k through the entry points of the
// case (Mul / MUL), W_k distinct scalars of the program's order and number of variables.
// Afterwards every X_k must hold, bit for bit, the product the library computes from W_k into a
// new object: an object whose content follows a write to ANOTHER object shares state with it.
func (rt *libRT) overwriteRound(p *Program, cs *Case, out *runOut) (fails []failure) {
	if out.panicAt >= 0 {
		return nil
	}
	n := p.N
	rt.owObjs = liveObjects(out, rt.owObjs)
	objs := rt.owObjs
	at := len(p.Ins) - 1
	defer func() {
		if r := recover(); r != nil {
			rt.owCache = nil
			fails = append(fails, failure{fmt.Sprintf("overwrite-round|*|panic|%s", cs.Type), fmt.Sprintf("[%v] at x=%v order=%d entry=%q: overwriting the live objects by X:=W*W panicked: %v", p, cs.X, cs.Order, cs.Entry, r), at})
		}
	}()
	rt.owExp = rt.owExp[:0]
	for k := range objs {
		rt.owExp = append(rt.owExp, rt.owGet(n, cs.Order, k, cs.Entry))
	}
	exp := rt.owExp
	for k := range objs {
		rt.owMul(cs.Entry, objs[k].obj, exp[k].w)
	}
	eq := func(a, b float64) bool { return sameBits(a, b) || (math.IsNaN(a) && math.IsNaN(b)) }
	for k := range objs {
		x, e := objs[k].obj, exp[k]
		comp, got, want := "", 0.0, 0.0
		slot := func(j int) float64 { return 0 }
		if v := x.GetFloat64(); !eq(v, e.val) {
			comp, got, want = "value", v, e.val
			slot = func(j int) float64 { return exp[j].val }
		}
		for i := 0; i < n && comp == ""; i++ {
			if g := x.GetDerivative(i); !eq(g, e.g[i]) {
				i := i
				comp, got, want = "d1", g, e.g[i]
				slot = func(j int) float64 { return exp[j].g[i] }
			}
		}
		for i := 0; i < n && comp == ""; i++ {
			for l := 0; l < n && comp == ""; l++ {
				if h := x.GetHessian(i, l); !eq(h, e.h[i][l]) {
					i, l := i, l
					comp, got, want = "d2", h, e.h[i][l]
					slot = func(j int) float64 { return exp[j].h[i][l] }
				}
			}
		}
		if comp == "" {
			continue
		}
		other, otherName := "unidentified", "an object that could not be identified"
		for j := range objs {
			if j != k && eq(slot(j), got) {
				other, otherName = objs[j].role(p), objs[j].name(out)
			}
		}
		rt.owCache = nil
		if i := strings.IndexByte(other, ':'); i >= 0 {
			other = other[:i] // the partner's producing operation does not matter
		}
		key := fmt.Sprintf("shared-state|%s|with:%s|%s|%s", objs[k].role(p), other, comp, cs.Type)
		return []failure{{key, fmt.Sprintf("[%v] at x=%v order=%d entry=%q: after the program every live object was overwritten in turn by X:=W*W; %s (%s) then holds %s %v instead of %v: it follows the write to %s (%s)",
			p, cs.X, cs.Order, cs.Entry, objs[k].name(out), objs[k].role(p), comp, got, want, otherName, other), at}}
	}
	return nil
}

// checkNonsmooth: what can be demanded of a register that sits on a kink (Abs at 0, Min/Max tie)
// or on the boundary of an operation's domain (Sqrt at 0), where the property fixes no derivative:
//   - the Hessian is symmetric;
//   - a slot of a variable the register does not depend on never holds a finite nonzero number
//     (0 times anything is 0 or NaN): that can only be content unrelated to the computation;
//   - at a kink whose two pieces are smooth (j.K != nil) every slot is finite and lies between
//     the two one-sided derivatives (tolerance included); independent slots are exactly zero.
func checkNonsmooth(j *Jet, r ad.MagicScalar, n, order int, fail func(what, msg string)) {
	dep := func(i int) bool { return j.Deps&(1<<uint(i)) != 0 }
	finite := func(v float64) bool { return !math.IsNaN(v) && !math.IsInf(v, 0) }
	K := j.K
	low := false
	for i := 0; i < n; i++ {
		g := r.GetDerivative(i)
		switch {
		case !dep(i):
			if g != 0 && finite(g) {
				fail("nonzero-independent-slot", fmt.Sprintf("d/dx%d = %v although the register does not depend on x%d (%s)", i, g, i, j.Why))
			} else if !finite(g) && K != nil {
				low = true
				fail(nanTag("d1-kink", g), fmt.Sprintf("d/dx%d = %v at a kink between two finite one-sided derivatives (%s)", i, g, j.Why))
			}
		case K != nil:
			if !(g >= K.GLo[i] && g <= K.GHi[i]) {
				low = true
				fail(nanTag("d1-kink", g), fmt.Sprintf("d/dx%d = %v is not between the one-sided derivatives [%v, %v] (%s)", i, g, K.GLo[i], K.GHi[i], j.Why))
			}
		}
	}
	if order < 2 {
		return
	}
	for i := 0; i < n; i++ {
		for l := i; l < n; l++ {
			h, ht := r.GetHessian(i, l), r.GetHessian(l, i)
			if !sameBits(h, ht) && !(math.IsNaN(h) && math.IsNaN(ht)) {
				fail("symmetry", fmt.Sprintf("H[%d][%d]=%v but H[%d][%d]=%v (%s)", i, l, h, l, i, ht, j.Why))
			}
			switch {
			case !dep(i) || !dep(l):
				if (h != 0 && finite(h)) || (ht != 0 && finite(ht)) {
					fail("nonzero-independent-slot", fmt.Sprintf("H[%d][%d] = %v although the register does not depend on both variables (%s)", i, l, h, j.Why))
				} else if !finite(h) && K != nil && !low {
					fail(nanTag("d2-kink", h), fmt.Sprintf("H[%d][%d] = %v at a kink between two finite one-sided derivatives (%s)", i, l, h, j.Why))
				}
			case K != nil:
				if !(h >= K.HLo[i][l] && h <= K.HHi[i][l]) && !low {
					fail(nanTag("d2-kink", h), fmt.Sprintf("H[%d][%d] = %v is not between the one-sided second derivatives [%v, %v] (%s)", i, l, h, K.HLo[i][l], K.HHi[i][l], j.Why))
				}
			}
		}
	}
}

// helperChecks: GetGradient / GetHessian / CopyGradient / CopyHessian agree with the per-slot getters.
func helperChecks(rt *libRT, p *Program, cs *Case, res ad.MagicScalar) (fails []failure) {
	sig := ops[p.Ins[len(p.Ins)-1].Op].String()
	fail := func(what, msg string) {
		fails = append(fails, failure{fmt.Sprintf("%s|helpers|%s|%s", sig, what, cs.Type), fmt.Sprintf("[%v] at x=%v order=%d: %s", p, cs.X, cs.Order, msg), len(p.Ins) - 1})
	}
	defer func() {
		if r := recover(); r != nil {
			fail("panic", fmt.Sprint(r))
		}
	}()
	n := res.GetN()
	eq := func(a, b float64) bool { return sameBits(a, b) || (math.IsNaN(a) && math.IsNaN(b)) }
	for _, t := range []ad.ScalarType{ad.Float64Type, rt.elemType} {
		g := ad.GetGradient(t, res)
		if g.Dim() != n {
			fail("GetGradient", fmt.Sprintf("dimension %d, GetN()=%d", g.Dim(), n))
			return
		}
		g2 := ad.NullDenseVector(t, n)
		if err := ad.CopyGradient(g2, res); err != nil {
			fail("CopyGradient", err.Error())
			return
		}
		for i := 0; i < n; i++ {
			w := res.GetDerivative(i)
			if !eq(g.ConstAt(i).GetFloat64(), w) {
				fail("GetGradient", fmt.Sprintf("[%d]=%v, GetDerivative=%v", i, g.ConstAt(i).GetFloat64(), w))
			}
			if !eq(g2.ConstAt(i).GetFloat64(), w) {
				fail("CopyGradient", fmt.Sprintf("[%d]=%v, GetDerivative=%v", i, g2.ConstAt(i).GetFloat64(), w))
			}
			if g.ConstAt(i).GetOrder() != 0 {
				fail("GetGradient", "gradient entries carry derivatives themselves")
			}
		}
		H := ad.GetHessian(t, res)
		H2 := ad.NullDenseMatrix(t, n, n)
		if err := ad.CopyHessian(H2, res); err != nil {
			fail("CopyHessian", err.Error())
			return
		}
		if r, c := H.Dims(); r != n || c != n {
			fail("GetHessian", fmt.Sprintf("dimension %dx%d, GetN()=%d", r, c, n))
			return
		}
		for i := 0; i < n; i++ {
			for k := 0; k < n; k++ {
				w := res.GetHessian(i, k)
				if !eq(H.ConstAt(i, k).GetFloat64(), w) {
					fail("GetHessian", fmt.Sprintf("[%d,%d]=%v, per-slot getter %v", i, k, H.ConstAt(i, k).GetFloat64(), w))
				}
				if !eq(H2.ConstAt(i, k).GetFloat64(), w) {
					fail("CopyHessian", fmt.Sprintf("[%d,%d]=%v, per-slot getter %v", i, k, H2.ConstAt(i, k).GetFloat64(), w))
				}
			}
		}
	}
	return
}

// matrixHelperChecks: Matrix.Hessian / Matrix.Jacobian evaluate the program as a function
// and must reproduce what the directly activated run reports through the per-slot getters.
// stale 1/2: the argument vector handed to the helpers still carries the gradient / Hessian of
// an earlier order-1/2 computation (the helpers clone it and activate the clone).
func matrixHelperChecks(rt *libRT, p *Program, cs *Case, stale int) (fails []failure) {
	sig := ops[p.Ins[len(p.Ins)-1].Op].String()
	fail := func(what, msg string) {
		key := fmt.Sprintf("%s|helpers|%s|%s", sig, what, cs.Type)
		if stale > 0 {
			// only reached when the helpers agree on a fresh argument: keyed by the route, not by the operation
			key = fmt.Sprintf("reactivation|%s(argument-with-stale-derivatives)|%s", what, cs.Type)
			msg += fmt.Sprintf(" (argument carries derivatives of an earlier order-%d computation; with a fresh argument the helper agrees)", stale)
			if cs.Hist != nil {
				msg += fmt.Sprintf(" (earlier round from x=%v, every variable updated in place by %v)", cs.Hist.X0, cs.Hist)
			}
		}
		fails = append(fails, failure{key, fmt.Sprintf("[%v] at x=%v: %s", p, cs.X, msg), len(p.Ins) - 1})
	}
	defer func() {
		if r := recover(); r != nil {
			fail("matrix-helper-panic", fmt.Sprint(r))
		}
	}()
	n := p.N
	eq := func(a, b float64) bool { return sameBits(a, b) || (math.IsNaN(a) && math.IsNaN(b)) }
	c1, c2 := *cs, *cs
	c1.Order, c2.Order = 1, 2
	c1.Pollute, c2.Pollute = 0, 0
	c1.Stale, c2.Stale, c1.Act, c2.Act, c1.Hist, c2.Hist = 0, 0, "", "", nil, nil
	d1, d2 := rt.run(p, &c1, nil), rt.run(p, &c2, nil)
	if d1.panicAt >= 0 || d2.panicAt >= 0 {
		return
	}
	r1, r2 := d1.regs[len(d1.regs)-1], d2.regs[len(d2.regs)-1]
	xs := make([]ad.MagicScalar, n)
	if cs.Hist != nil && stale > 0 {
		xs = rt.buildHist(cs.Hist)
	}
	for i := range xs {
		switch {
		case cs.Hist != nil && stale > 0:
		case stale > 0:
			xs[i] = rt.used(cs.X[i], n, stale, 0.25+float64(i))
		default:
			xs[i] = rt.newMagic(cs.X[i])
		}
	}
	x := rt.asMagicV(xs)
	var inner string
	f := func(v ad.ConstVector) ad.ConstScalar {
		ext := make([]ad.ConstScalar, n)
		for i := 0; i < n; i++ {
			ext[i] = v.ConstAt(i)
		}
		cc := *cs
		cc.Pollute, cc.Hist = 0, nil
		o := rt.run(p, &cc, ext)
		if o.panicAt >= 0 {
			inner = o.panicMsg
			return rt.newMagic(math.NaN())
		}
		return o.regs[len(o.regs)-1]
	}
	for _, t := range []ad.ScalarType{ad.Float64Type, rt.elemType} {
		H := ad.NullDenseMatrix(t, n, n)
		H.Hessian(f, x)
		J := ad.NullDenseMatrix(t, 1, n)
		J.Jacobian(func(v ad.ConstVector) ad.ConstVector {
			return rt.makeVec([]ad.MagicScalar{f(v).(ad.MagicScalar)})
		}, x)
		if inner != "" {
			fail("matrix-helper-panic", inner)
			return
		}
		for i := 0; i < n; i++ {
			if !eq(J.ConstAt(0, i).GetFloat64(), r1.GetDerivative(i)) {
				fail("Matrix.Jacobian", fmt.Sprintf("[0,%d]=%v, GetDerivative=%v", i, J.ConstAt(0, i).GetFloat64(), r1.GetDerivative(i)))
			}
			for k := 0; k < n; k++ {
				if !eq(H.ConstAt(i, k).GetFloat64(), r2.GetHessian(i, k)) {
					fail("Matrix.Hessian", fmt.Sprintf("[%d,%d]=%v, per-slot getter %v", i, k, H.ConstAt(i, k).GetFloat64(), r2.GetHessian(i, k)))
				}
			}
		}
	}
	return
}
