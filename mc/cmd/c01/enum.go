// Point lattices and program enumerators (all deterministic, simplest first).
package main

import (
	"math"
	"sort"
)

// ---- points ---------------------------------------------------------------------------------------

var compGrid = []float64{-1.5, -0.5, 0.25, 0.5, 1, 2, 3}
var compGridSmall = []float64{-0.5, 0.25, 1, 3}

const (
	constK = 2.0 // value of the ConstFloat64 literal in composed programs
	constP = 0.5 // value of the plain Float64 operand in composed programs
	constC = 2.0 // value of a constant magic-typed vector/matrix element
)

func ulpStep(x float64, k int, f32 bool) float64 {
	if f32 {
		y := float32(x)
		for ; k > 0; k-- {
			y = math.Nextafter32(y, float32(math.Inf(1)))
		}
		for ; k < 0; k++ {
			y = math.Nextafter32(y, float32(math.Inf(-1)))
		}
		return float64(y)
	}
	for ; k > 0; k-- {
		x = math.Nextafter(x, math.Inf(1))
	}
	for ; k < 0; k++ {
		x = math.Nextafter(x, math.Inf(-1))
	}
	return x
}

// nbrs: a boundary, +-1 and +-2 ulps of the element type, and +-1e-3.
func nbrs(b float64, f32 bool) []float64 {
	r := []float64{b, b - 1e-3, b + 1e-3}
	if b != 0 {
		for _, k := range []int{-2, -1, 1, 2} {
			r = append(r, ulpStep(b, k, f32))
		}
	} else {
		r = append(r, -1e-20, 1e-20)
	}
	return r
}

func uniq(xs []float64, f32 bool) []float64 {
	m := map[uint64]bool{}
	var r []float64
	for _, x := range xs {
		if f32 && !math.IsInf(x, 0) {
			x = float64(float32(x))
		}
		b := math.Float64bits(x)
		if x == 0 {
			b = 0
		}
		if !m[b] {
			m[b] = true
			r = append(r, x)
		}
	}
	return r
}

// generic log-spaced grid over both signs, 8 points per decade from 1e-6 to 1e3
func genericGrid() []float64 {
	r := []float64{0, 1e-20, -1e-20}
	for e := -48; e <= 24; e++ {
		v := math.Pow(10, float64(e)/8)
		r = append(r, v, -v)
	}
	r = append(r, 0.25, -0.25, 0.5, -0.5, 1.5, -1.5, 2, -2, 3, -3, 5, -5, 20, -20, 30, -30, 40, -40, 1e6, -1e6)
	return r
}

// lattice1: evaluation points of a depth-1 unary program: generic grid plus every
// piecewise boundary of the operation with its neighbours.
func lattice1(o *OpDef, f32 bool) []float64 {
	r := genericGrid()
	add := func(bs ...float64) {
		for _, b := range bs {
			r = append(r, nbrs(b, f32)...)
		}
	}
	switch o.Name {
	case "Log1pExp":
		add(-37, 18, 33.3)
		r = append(r, -45, -38, -36, 17, 19, 25, 33, 34, 36)
	case "Sigmoid", "Logistic", "Abs", "Tanh", "Neg", "Exp":
		add(0)
	case "LogErfc":
		b := math.Sqrt(2.4607833005759251e-02)
		add(b, -b, 8, 26.5)
		r = append(r, 7, 9, 12, 25, 26, 27, 28, 35)
	case "Gamma", "Lgamma":
		add(1, 2, 1.4616321449683623)
		r = append(r, -0.5, -1.5, -2.5, -3.5, -0.999, -1.001, -1.999, -2.001, 0.999, 12, 13, 170)
	case "Log":
		add(1)
		r = append(r, 1e-10, 1e10)
	case "Log1p":
		add(0, -0.5)
		r = append(r, -0.999, -0.9, 1e10)
	case "Sqrt":
		add(1)
		r = append(r, 1e-10, 1e10)
	case "Sin", "Cos", "Tan":
		add(math.Pi/4, math.Pi/2, math.Pi, 3*math.Pi/2, 2*math.Pi, -math.Pi/2, -math.Pi)
	case "PowK":
		add(0, 1, -1)
	case "Mlgamma":
		k := o.Par
		add((k-1)/2+0.5, (k-1)/2+1, (k-1)/2+2)
		r = append(r, (k-1)/2+0.01, (k-1)/2+1e-3)
	case "GammaP":
		add(o.Par, o.Par+1, 1.1)
		r = append(r, 0)
	case "BesselI", "LogBesselI":
		add(0.625, 2, 4.5, 7.75, 12, 15, 20, 25, 50)
	case "Erf", "Erfc":
		add(0, 0.84375, 1.25, 2.857142857, 6)
	}
	r = uniq(r, f32)
	sort.Slice(r, func(i, j int) bool {
		ai, aj := math.Abs(r[i]), math.Abs(r[j])
		if ai != aj {
			return ai < aj
		}
		return r[i] > r[j]
	})
	return r
}

type pair struct{ a, b float64 }

func cross(as, bs []float64) []pair {
	var r []pair
	for _, a := range as {
		for _, b := range bs {
			r = append(r, pair{a, b})
		}
	}
	return r
}

// lattice2: evaluation points (a,b) of a depth-1 binary program.
func lattice2(o *OpDef, f32 bool) []pair {
	A := []float64{0, 1, 0.5, -1.5, 2, 3, -1e-3, 1e-20, 1e3, -1e6, 0.1, -0.7}
	var r []pair
	switch o.Name {
	case "Add", "Sub", "Mul":
		r = cross(A, A)
	case "Div":
		r = cross(A, A[1:])
	case "Min", "Max":
		r = cross(A, A)
		for _, v := range []float64{0.5, -1.5, 0, 1e3} {
			for _, w := range nbrs(v, f32) {
				r = append(r, pair{v, w}, pair{w, v})
			}
		}
	case "Pow":
		bases := []float64{0, 1e-3, 0.5, 1.5, 2, 3, 10, -1, -1.5, -2, -1e-3}
		bases = append(bases, nbrs(1, f32)...)
		exps := []float64{-2, -1, -0.5, 0.5, 1.5, 3, 4, -3, 2.5}
		exps = append(exps, nbrs(0, f32)...)
		exps = append(exps, nbrs(1, f32)...)
		exps = append(exps, nbrs(2, f32)...)
		r = cross(bases, exps)
	case "LogAdd", "LogSub":
		L := []float64{math.Inf(-1), -700, -40, -37, -1.5, 0, 1, 3, 36, 40, 700, -1e-20}
		L = append(L, nbrs(0.5, f32)...)
		r = cross(L, L)
		if o.Name == "LogAdd" {
			r = append(r, pair{math.Inf(1), math.Inf(1)}, pair{math.Inf(1), 1}, pair{1, math.Inf(1)})
		}
	}
	// uniq
	seen := map[[2]uint64]bool{}
	var u []pair
	for _, p := range r {
		if f32 {
			p = pair{float64(float32(p.a)), float64(float32(p.b))}
		}
		k := [2]uint64{math.Float64bits(p.a + 0), math.Float64bits(p.b + 0)}
		if !seen[k] {
			seen[k] = true
			u = append(u, p)
		}
	}
	return u
}

// gridPoints: full product of vals over n variables.
func gridPoints(vals []float64, n int) [][]float64 {
	pts := [][]float64{{}}
	for i := 0; i < n; i++ {
		var nx [][]float64
		for _, p := range pts {
			for _, v := range vals {
				q := append(append([]float64{}, p...), v)
				nx = append(nx, q)
			}
		}
		pts = nx
	}
	return pts
}

// ---- programs ---------------------------------------------------------------------------------------

func cloneProgram(p *Program) Program {
	q := Program{N: p.N, Ins: make([]Instr, len(p.Ins))}
	for i, in := range p.Ins {
		in.Vec = append([]Operand(nil), in.Vec...)
		in.Vec2 = append([]Operand(nil), in.Vec2...)
		if len(in.Vec) == 0 {
			in.Vec = nil
		}
		if len(in.Vec2) == 0 {
			in.Vec2 = nil
		}
		q.Ins[i] = in
	}
	return q
}

// scalar operand choices of instruction k: variables, the literal, the plain scalar, earlier registers
func scalarOperands(n, k int) []Operand {
	var r []Operand
	for i := 0; i < n; i++ {
		r = append(r, Operand{K: 'V', I: i})
	}
	r = append(r, Operand{K: 'K', V: constK}, Operand{K: 'P', V: constP})
	for i := 0; i < k; i++ {
		r = append(r, Operand{K: 'R', I: i})
	}
	return r
}

func usesReg(in *Instr, r int) bool {
	o := ops[in.Op]
	is := func(q Operand) bool { return q.K == 'R' && q.I == r }
	switch o.Kind {
	case Unary:
		return is(in.A)
	case Binary:
		return is(in.A) || is(in.B)
	}
	for _, q := range in.Vec {
		if is(q) {
			return true
		}
	}
	for _, q := range in.Vec2 {
		if is(q) {
			return true
		}
	}
	return false
}

func usesAnyReg(in *Instr) bool {
	for r := 0; r < 3; r++ {
		if usesReg(in, r) {
			return true
		}
	}
	return false
}

// scalarInstrs enumerates every unary/binary instruction at position k over n variables.
// mustUse >= 0: only instructions reading that register.
func scalarInstrs(n, k int, opset []int, mustUse int, f func(in Instr)) {
	opnds := scalarOperands(n, k)
	for _, op := range opset {
		o := ops[op]
		switch o.Kind {
		case Unary:
			for _, a := range opnds {
				in := mkInstr(op)
				in.A = a
				if mustUse >= 0 && !usesReg(&in, mustUse) {
					continue
				}
				f(in)
			}
		case Binary:
			for _, a := range opnds {
				for _, b := range opnds {
					in := mkInstr(op)
					in.A, in.B = a, b
					if mustUse >= 0 && !usesReg(&in, mustUse) {
						continue
					}
					f(in)
				}
			}
		}
	}
}

// vectors of the given length over the element choices
func vectorsOver(el []Operand, length int) [][]Operand {
	vs := [][]Operand{{}}
	for i := 0; i < length; i++ {
		var nx [][]Operand
		for _, v := range vs {
			for _, e := range el {
				nx = append(nx, append(append([]Operand{}, v...), e))
			}
		}
		vs = nx
	}
	return vs
}

func vecUses(v []Operand, r int) bool {
	for _, q := range v {
		if q.K == 'R' && q.I == r {
			return true
		}
	}
	return false
}

// reduceInstrs enumerates the reduction instructions at position k: vector length 1..maxLen
// over {variables, constant element, earlier registers} (zeroConst: also a constant element that
// is exactly zero); matrices up to 2x2 (3x3 with a fixed off-diagonal pattern when big is set).
func reduceInstrs(n, k, maxLen int, mustUse int, big, zeroConst bool, f func(in Instr)) {
	var el []Operand
	for i := 0; i < n; i++ {
		el = append(el, Operand{K: 'V', I: i})
	}
	el = append(el, Operand{K: 'C', V: constC})
	if zeroConst {
		// a constant element that is exactly zero: together with the variables (whose grid contains 0)
		// every zero pattern of the operand vector occurs (leading, trailing, interleaved, all-zero),
		// with smooth derivatives in the remaining entries
		el = append(el, Operand{K: 'C', V: 0})
	}
	for i := 0; i < k; i++ {
		el = append(el, Operand{K: 'R', I: i})
	}
	ok := func(in *Instr) bool { return mustUse < 0 || usesReg(in, mustUse) }
	for _, op := range opsOfKind(Reduce, false) {
		o := ops[op]
		switch o.Name {
		case "Vmean", "Vnorm", "SmoothMax", "LogSmoothMax":
			for l := 1; l <= maxLen; l++ {
				for _, v := range vectorsOver(el, l) {
					in := mkInstr(op)
					in.Vec = v
					if ok(&in) {
						f(in)
					}
				}
			}
		case "VdotV":
			for l := 1; l <= maxLen; l++ {
				vs := vectorsOver(el, l)
				if l <= 2 || big {
					for _, v := range vs {
						for _, w := range vs {
							in := mkInstr(op)
							in.Vec, in.Vec2 = v, w
							if ok(&in) {
								f(in)
							}
						}
					}
				}
				// magic vector times a plain DenseFloat64Vector
				for _, v := range vs {
					w := make([]Operand, l)
					for i := range w {
						w[i] = Operand{K: 'C', V: 0.5 + float64(i)}
					}
					in := mkInstr(op)
					in.Vec, in.Vec2, in.PlainVec2 = v, w, true
					if ok(&in) {
						f(in)
					}
				}
			}
		case "Mtrace", "Mnorm":
			shapes := [][2]int{{1, 1}, {2, 2}}
			if o.Name == "Mnorm" {
				shapes = [][2]int{{1, 1}, {1, 2}, {2, 1}, {2, 2}}
			}
			for _, sh := range shapes {
				if sh[0]*sh[1] > 2 && maxLen < 2 {
					continue
				}
				for _, v := range vectorsOver(el, sh[0]*sh[1]) {
					in := mkInstr(op)
					in.Vec, in.Rows = v, sh[0]
					if ok(&in) {
						f(in)
					}
				}
			}
			if big {
				// 3x3: diagonal enumerated, off-diagonal fixed pattern V0 / C
				for _, dg := range vectorsOver(el, 3) {
					v := make([]Operand, 9)
					for i := range v {
						if i%2 == 0 {
							v[i] = Operand{K: 'C', V: constC}
						} else {
							v[i] = Operand{K: 'V', I: 0}
						}
					}
					v[0], v[4], v[8] = dg[0], dg[1], dg[2]
					in := mkInstr(op)
					in.Vec, in.Rows = v, 3
					if ok(&in) {
						f(in)
					}
				}
			}
		}
	}
}

// ---- destination-aliases-operand forms ---------------------------------------------------------------

// canHold: operands whose object can be the receiver of an operation (a variable, an earlier
// result register, a magic-typed scalar holding a constant such as an accumulator).
func canHold(o Operand) bool { return o.K == 'V' || o.K == 'R' || o.K == 'C' }

// sameName: both slots name one variable or one register, i.e. one object.
func sameName(a, b Operand) bool { return a.K == b.K && a.I == b.I && (a.K == 'V' || a.K == 'R') }

// aliasChoices: every way the destination of a scalar instruction can be one of its operands.
// Reductions have none: a receiver that is an element of the reduction's own operand is the
// family "receiver-is-element-of-vector-operand" listed as open finding of property C08
// (every reduction starts with r.Reset()); it is not enumerated a second time here.
func aliasChoices(in *Instr) []string {
	switch ops[in.Op].Kind {
	case Unary:
		if canHold(in.A) {
			return []string{"a"}
		}
	case Binary:
		if sameName(in.A, in.B) {
			return []string{"ab"}
		}
		var r []string
		if canHold(in.A) {
			r = append(r, "a")
		}
		if canHold(in.B) {
			r = append(r, "b")
		}
		if in.A.K == 'C' && in.B.K == 'C' && in.A.V == in.B.V {
			r = append(r, "ab") // c.Mul(c, c) on a constant-valued magic scalar
		}
		return r
	}
	return nil
}

func refsName(in *Instr, t Operand) bool {
	is := func(q Operand) bool { return q.K == t.K && q.I == t.I }
	if is(in.A) || is(in.B) {
		return true
	}
	for _, q := range in.Vec {
		if is(q) {
			return true
		}
	}
	for _, q := range in.Vec2 {
		if is(q) {
			return true
		}
	}
	return false
}

func hasAlias(p *Program) bool {
	for i := range p.Ins {
		if p.Ins[i].Dst != "" {
			return true
		}
	}
	return false
}

// stripAlias: the same program in SSA form.
func stripAlias(p *Program) Program {
	q := Program{N: p.N, Ins: append([]Instr(nil), p.Ins...)}
	for i := range q.Ins {
		q.Ins[i].Dst = ""
	}
	return q
}

// usesFreshObjects: some destination register or scratch temporary of the program is an
// object of its own (whose previous content the register-reuse modes vary).
func usesFreshObjects(p *Program) bool {
	for i := range p.Ins {
		if p.Ins[i].Dst == "" {
			return true
		}
		switch ops[p.Ins[i].Op].Name {
		case "Sigmoid", "LogAdd", "LogSub":
			return true
		}
	}
	return false
}

// usesConstObjects: the program reads a constant-valued magic scalar ('C' operand of a binary
// operation, vector element) that the register-reuse modes replace by a reused object (operands
// of unary operations and the exponent of Pow are always new objects, and so are all of them in
// programs of more than one instruction, see libRT.run).
func usesConstObjects(p *Program) bool {
	if len(p.Ins) > 1 {
		return false
	}
	for i := range p.Ins {
		in := &p.Ins[i]
		switch ops[in.Op].Kind {
		case Unary:
		case Binary:
			if in.A.K == 'C' || (in.B.K == 'C' && ops[in.Op].Name != "Pow") {
				return true
			}
		default:
			for _, q := range in.Vec {
				if q.K == 'C' {
					return true
				}
			}
			for _, q := range in.Vec2 {
				if q.K == 'C' && !in.PlainVec2 {
					return true
				}
			}
		}
	}
	return false
}

// aliasVariants: every program that differs from the SSA program p only in that a non-empty
// set of instructions (among those admitted by only) writes its result into one of its own
// operands, and in which no later instruction reads an overwritten variable or register.
func aliasVariants(p *Program, only func(k int) bool) []Program {
	choices := make([][]string, len(p.Ins))
	any := false
	for k := range p.Ins {
		choices[k] = []string{""}
		if only == nil || only(k) {
			choices[k] = append(choices[k], aliasChoices(&p.Ins[k])...)
		}
		any = any || len(choices[k]) > 1
	}
	if !any {
		return nil
	}
	var out []Program
	cur := make([]string, len(p.Ins))
	var rec func(k int)
	rec = func(k int) {
		if k == len(p.Ins) {
			q := Program{N: p.N, Ins: append([]Instr(nil), p.Ins...)}
			aliased := false
			for i := range q.Ins {
				q.Ins[i].Dst = cur[i]
				aliased = aliased || cur[i] != ""
			}
			if !aliased {
				return
			}
			for i := range q.Ins {
				t, ok := q.Ins[i].target()
				if !ok || t.K == 'C' {
					continue
				}
				for l := i + 1; l < len(q.Ins); l++ {
					if refsName(&q.Ins[l], t) {
						return // the overwritten name is read again: no SSA equivalent
					}
				}
			}
			out = append(out, q)
			return
		}
		for _, c := range choices[k] {
			cur[k] = c
			rec(k + 1)
		}
	}
	rec(0)
	return out
}

// zeroClasses: where the exact zeros of a depth-1 reduction's (first) operand vector sit at point x.
func zeroClasses(in *Instr, x []float64) []string {
	vals := make([]float64, len(in.Vec))
	nz := 0
	for i, q := range in.Vec {
		vals[i] = q.V
		if q.K == 'V' {
			vals[i] = x[q.I]
		}
		if vals[i] == 0 {
			nz++
		}
	}
	switch {
	case nz == 0:
		return nil
	case nz == len(vals):
		return []string{"all-zero"}
	}
	var cl []string
	if vals[0] == 0 {
		cl = append(cl, "leading")
	}
	if vals[len(vals)-1] == 0 {
		cl = append(cl, "trailing")
	}
	for i := 1; i < len(vals)-1; i++ {
		if vals[i] == 0 && vals[i-1] != 0 && vals[i+1] != 0 {
			cl = append(cl, "interleaved")
			break
		}
	}
	return cl
}
