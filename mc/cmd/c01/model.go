// Independent jet reference model: value, gradient and Hessian propagated by the textbook
// chain rule, every component carrying a running first-order rounding bound (Q.E) that a
// reasonable floating-point evaluation of the same mathematical function may incur.
// Composite operations (Log1pExp, Sigmoid, LogAdd, SmoothMax, ...) are modelled by their
// mathematical definition, never by the library's decomposition.
package main

import "math"

const uL = 0x1p-53 // unit roundoff of the float64 arithmetic used inside every operation

const (
	epsElem = 8 * uL // relative accuracy granted to elementary libm functions
	epsSpec = 4e-11  // relative accuracy granted to special functions (Gamma family, Bessel, erfc tails)
)

const maxN = 3

// Q is a real number with an absolute error bound.
type Q struct{ V, E float64 }

func abs(x float64) float64 { return math.Abs(x) }

func (a Q) zero() bool { return a.V == 0 && a.E == 0 }

func qmul(a, b Q) Q {
	if a.zero() || b.zero() {
		return Q{}
	}
	v := a.V * b.V
	return Q{v, abs(a.V)*b.E + abs(b.V)*a.E + a.E*b.E + 2*uL*abs(v)}
}

func qadd(a, b Q) Q {
	if a.zero() {
		return b
	}
	if b.zero() {
		return a
	}
	return Q{a.V + b.V, a.E + b.E + uL*(abs(a.V)+abs(b.V))}
}

func qscale(a Q, s float64) Q { return Q{a.V * s, a.E*abs(s) + uL*abs(a.V*s)} }

// Status of a jet.
const (
	stOK        = iota
	stNonsmooth // value defined, derivatives not (kink, boundary of the domain)
	stUndefined // outside the domain, non finite, out of the representable working range, or ill conditioned beyond repair
)

type Jet struct {
	Val    Q
	G      [maxN]Q
	H      [maxN][maxN]Q
	Deps   uint8  // syntactic dependency set (bit i = variable i)
	Br     uint32 // signature of the branch decisions (Abs sign, Min/Max selection) taken so far
	Status int
	Why    string // why Status != stOK
	// K: set on a register that sits exactly on a kink between two smooth pieces (Abs at 0, a
	// Min/Max tie between different functions) whose one-sided derivatives are all known.
	K *kinkInfo
	// Sing: the register is a constant, but on the way a local derivative was not finite (Sqrt,
	// GammaP at 0: boundary of the domain). Held in a scalar of order 0 it has no derivative slots;
	// if the constant operand is a magic scalar of order >= 1 with zero derivatives (a reused
	// object), the library forms 0 * Inf and NaN is a legitimate content of the slots.
	Sing bool
}

// kinkInfo: per derivative slot the closed interval spanned by the two one-sided derivatives,
// widened by the comparison tolerance of either side. Any convention a library may follow at a
// kink (one of the two pieces, zero for Abs, a convex combination) lies inside; content
// unrelated to the operands (a stale buffer) does not, up to coincidence.
type kinkInfo struct {
	GLo, GHi [maxN]float64
	HLo, HHi [maxN][maxN]float64
}

// kinkBetween: slot-wise hull of sp*p and sq*q (p, q smooth jets of the two pieces).
func (m *Model) kinkBetween(p *Jet, sp float64, q *Jet, sq float64) *kinkInfo {
	k := &kinkInfo{}
	hull := func(a, b Q) (float64, float64) {
		u, v := sp*a.V, sq*b.V
		eu, ev := tolK*a.E, tolK*b.E
		return math.Min(u-eu, v-ev), math.Max(u+eu, v+ev)
	}
	for i := 0; i < m.N; i++ {
		k.GLo[i], k.GHi[i] = hull(p.G[i], q.G[i])
		for l := 0; l < m.N; l++ {
			k.HLo[i][l], k.HHi[i][l] = hull(p.H[i][l], q.H[i][l])
		}
	}
	return k
}

func constJet(v float64) Jet { return Jet{Val: Q{v, 0}} }

func varJet(i int, v float64) Jet {
	j := Jet{Val: Q{v, 0}, Deps: 1 << uint(i)}
	j.G[i] = Q{1, 0}
	return j
}

func undefined(why string, deps uint8) Jet { return Jet{Status: stUndefined, Why: why, Deps: deps} }

// Model carries the per-type parameters.
type Model struct {
	N      int
	US     float64 // unit roundoff of the storage type (2^-53 Real64, 2^-24 Real32)
	Lo, Hi float64 // working range: a nonzero component outside [Lo,Hi] makes the case "range"
	F32    bool
}

func newModel(typ string, n int) *Model {
	if typ == "Real32" {
		return &Model{N: n, US: 0x1p-24, Lo: 1e-30, Hi: 1e30, F32: true}
	}
	return &Model{N: n, US: 0x1p-53, Lo: 1e-100, Hi: 1e100}
}

// finish applies storage rounding, range checks and finiteness checks to a result.
func (m *Model) finish(j *Jet) {
	if j.Status == stUndefined {
		return
	}
	chk := func(q *Q) bool {
		if math.IsNaN(q.V) || math.IsInf(q.V, 0) || math.IsNaN(q.E) || math.IsInf(q.E, 0) {
			return false
		}
		if q.V != 0 && (abs(q.V) < m.Lo || abs(q.V) > m.Hi) {
			return false
		}
		q.E += m.US * abs(q.V)
		return true
	}
	if !chk(&j.Val) {
		j.Status, j.Why = stUndefined, "range/value"
		return
	}
	if j.Status == stNonsmooth {
		return
	}
	for i := 0; i < m.N; i++ {
		if !chk(&j.G[i]) {
			j.Status, j.Why = stUndefined, "range/gradient"
			return
		}
		for k := 0; k < m.N; k++ {
			if !chk(&j.H[i][k]) {
				j.Status, j.Why = stUndefined, "range/hessian"
				return
			}
		}
	}
}

// ---- local derivative tables ---------------------------------------------------------

type Loc1 struct {
	F       [3]float64 // f, f', f''
	S       [3]float64 // magnitude of the terms a natural evaluation combines (>= |F|)
	Eps     float64
	OK      bool // inside the domain
	ValOnly bool // value defined, derivatives not (boundary of the domain)
	Kink    bool
	Comp    bool       // composite operation: a natural implementation rounds intermediates to the storage type
	X       [3]float64 // additional absolute error a natural evaluation incurs (cancellation inherent in the definition)
}

func sigmoid(x float64) float64 {
	if x >= 0 {
		return 1 / (1 + math.Exp(-x))
	}
	e := math.Exp(x)
	return e / (1 + e)
}

func powLocal(x, y float64) Loc1 {
	l := Loc1{Eps: epsElem}
	isInt := y == math.Floor(y)
	switch {
	case x < 0 && !isInt:
		return l
	case x == 0 && y < 0:
		return l
	case x == 0 && !isInt:
		l.OK, l.ValOnly = true, true
		l.F[0] = 0
		return l
	}
	l.OK = true
	l.F[0] = math.Pow(x, y)
	if y != 0 {
		l.F[1] = y * math.Pow(x, y-1)
		if y != 1 {
			l.F[2] = y * (y - 1) * math.Pow(x, y-2)
		}
	}
	for k := range l.F {
		l.S[k] = abs(l.F[k])
	}
	return l
}

func local1(o *OpDef, x float64) Loc1 {
	l := Loc1{Eps: epsElem}
	if math.IsNaN(x) || math.IsInf(x, 0) {
		return l
	}
	set := func(f0, f1, f2 float64) {
		l.OK = true
		l.F = [3]float64{f0, f1, f2}
		l.S = [3]float64{abs(f0), abs(f1), abs(f2)}
	}
	switch o.Name {
	case "Neg":
		set(-x, -1, 0)
	case "Abs":
		switch {
		case x > 0:
			set(x, 1, 0)
		case x < 0:
			set(-x, -1, 0)
		default:
			l.OK, l.Kink = true, true
		}
	case "Exp":
		e := math.Exp(x)
		set(e, e, e)
	case "Log":
		if x > 0 {
			set(math.Log(x), 1/x, -1/(x*x))
		}
	case "Sqrt":
		if x > 0 {
			r := math.Sqrt(x)
			set(r, 0.5/r, -0.25/(x*r))
		} else if x == 0 {
			l.OK, l.ValOnly = true, true
		}
	case "PowK":
		return powLocal(x, o.Par)
	case "Log1p":
		if x > -1 {
			set(math.Log1p(x), 1/(1+x), -1/((1+x)*(1+x)))
		}
	case "Sin":
		set(math.Sin(x), math.Cos(x), -math.Sin(x))
		l.S = [3]float64{1, 1, 1}
	case "Cos":
		set(math.Cos(x), -math.Sin(x), -math.Cos(x))
		l.S = [3]float64{1, 1, 1}
	case "Tan":
		c := math.Cos(x)
		if c != 0 {
			t := math.Tan(x)
			set(t, 1/(c*c), 2*t/(c*c))
		}
	case "Sinh":
		set(math.Sinh(x), math.Cosh(x), math.Sinh(x))
	case "Cosh":
		set(math.Cosh(x), math.Sinh(x), math.Cosh(x))
	case "Tanh":
		c := math.Cosh(x)
		t := math.Tanh(x)
		set(t, 1/(c*c), -2*t/(c*c))
		l.S[1], l.S[2] = 1, 2
	case "Logistic", "Sigmoid":
		s := sigmoid(x)
		z := math.Exp(-abs(x))
		if z == 0 {
			return l // e^|x| overflows: outside the working range
		}
		f1 := z / ((1 + z) * (1 + z))
		set(s, f1, -math.Tanh(x/2)*f1)
		l.S[2] = 3 * f1
		l.Comp = true
	case "Log1pExp":
		s := sigmoid(x)
		z := math.Exp(-abs(x))
		if z == 0 {
			return l
		}
		set(math.Max(x, 0)+math.Log1p(z), s, z/((1+z)*(1+z)))
		l.S[2] = s
		l.Comp = true
	case "Erf":
		d := 2 / sqrtPi * math.Exp(-x*x)
		set(math.Erf(x), d, -2*x*d)
	case "Erfc":
		d := 2 / sqrtPi * math.Exp(-x*x)
		set(math.Erfc(x), -d, 2*x*d)
	case "LogErfc":
		f0, f1, f2, h := logErfcJet(x)
		set(f0, f1, f2)
		l.S[0] = abs(f0) + uL // log of a quantity known to relative accuracy
		l.S[2] = 2*abs(x)*h + h*h
		// where erfc underflows, h can only be formed on log scale as exp(-x^2 - log erfc(x)):
		// the two O(x^2) terms cancel, leaving a relative error u x^2 in h and in 2x - h
		l.X[1] = 8 * uL * x * x * h
		l.X[2] = 8 * uL * x * x * h * (2*abs(x) + 2*h)
		l.Eps = epsSpec
	case "Gamma":
		if x <= 0 && x == math.Floor(x) {
			return l
		}
		g := math.Gamma(x)
		p, p1 := refDigamma(x), refTrigamma(x)
		set(g, g*p, g*(p*p+p1))
		l.S[1] = abs(g) * (1 + abs(p))
		l.Eps = epsSpec
	case "Lgamma":
		if x <= 0 && x == math.Floor(x) {
			return l
		}
		lg, sign := math.Lgamma(x)
		if sign < 0 {
			return l
		}
		set(lg, refDigamma(x), refTrigamma(x))
		l.Eps = epsSpec
	case "Mlgamma":
		k := int(o.Par)
		if x <= float64(k-1)/2 {
			return l
		}
		c := float64(k*(k-1)) / 4 * math.Log(math.Pi)
		f0, f1, f2, s0 := c, 0.0, 0.0, abs(c)
		for j := 1; j <= k; j++ {
			y := x + float64(1-j)/2
			lg, _ := math.Lgamma(y)
			f0 += lg
			s0 += abs(lg)
			f1 += refDigamma(y)
			f2 += refTrigamma(y)
		}
		set(f0, f1, f2)
		l.S[0] = s0
		l.Eps = epsSpec
	case "GammaP":
		a := o.Par
		switch {
		case x < 0:
			return l
		case x == 0:
			l.OK, l.ValOnly = true, true // boundary of the domain [0,inf)
			return l
		}
		lg, _ := math.Lgamma(a)
		p1 := math.Exp((a-1)*math.Log(x) - x - lg)
		set(refGammaP(a, x), p1, p1*((a-1)/x-1))
		l.S[2] = p1 * (abs(a-1)/x + 1)
		l.Eps = epsSpec
	case "BesselI":
		f, s, ok := besselSeries(o.Par, x)
		if !ok {
			return l
		}
		set(f[0], f[1], f[2])
		l.S = s
		l.Eps = epsSpec
	case "LogBesselI":
		f, s, ok := besselSeries(o.Par, x)
		if !ok || !(f[0] > 0) {
			return l
		}
		r1 := f[1] / f[0]
		set(math.Log(f[0]), r1, f[2]/f[0]-r1*r1)
		l.S[0] = abs(l.F[0]) + 1 // log of a quantity known to relative accuracy
		l.S[1] = s[1] / f[0]
		l.S[2] = s[2]/f[0] + r1*r1
		l.Eps = epsSpec
	default:
		panic("local1: unknown op " + o.Name)
	}
	return l
}

type Loc2 struct {
	F    [6]float64 // f, fa, fb, faa, fab, fbb
	S    [6]float64
	Eps  float64
	OK   bool
	Comp bool
}

func local2(o *OpDef, a, b float64) Loc2 {
	l := Loc2{Eps: epsElem}
	if math.IsNaN(a) || math.IsNaN(b) || math.IsInf(a, 0) || math.IsInf(b, 0) {
		return l
	}
	set := func(f ...float64) {
		l.OK = true
		copy(l.F[:], f)
		for k := range l.F {
			l.S[k] = abs(l.F[k])
		}
	}
	switch o.Name {
	case "Add":
		set(a+b, 1, 1, 0, 0, 0)
	case "Sub":
		set(a-b, 1, -1, 0, 0, 0)
	case "Mul":
		set(a*b, b, a, 0, 1, 0)
	case "Div":
		if b != 0 {
			set(a/b, 1/b, -a/(b*b), 0, -1/(b*b), 2*a/(b*b*b))
		}
	case "Pow":
		if a > 0 {
			p := math.Pow(a, b)
			p1 := math.Pow(a, b-1)
			lg := math.Log(a)
			set(p, b*p1, p*lg, b*(b-1)*math.Pow(a, b-2), p1*(1+b*lg), p*lg*lg)
			l.S[4] = p1 * (1 + abs(b*lg))
		}
	case "LogAdd":
		m := math.Max(a, b)
		f := m + math.Log1p(math.Exp(-abs(a-b)))
		p, q := sigmoid(a-b), sigmoid(b-a)
		set(f, p, q, p*q, -p*q, p*q)
		l.S = [6]float64{math.Max(abs(f), math.Max(abs(a), abs(b))), 1, 1, 1, 1, 1}
		l.Comp = true
	case "LogSub":
		if a > b {
			d := b - a
			ed := math.Exp(d)
			om := -math.Expm1(d) // 1 - e^d
			lom := math.Log(om)
			if ed < 0.5 {
				lom = math.Log1p(-ed)
			}
			P := 1 / om
			Qq := ed * P
			set(a+lom, P, -Qq, -P*Qq, P*Qq, -P*Qq)
			// 1 - e^d cancels: a natural evaluation knows it to absolute accuracy u, i.e. relative accuracy u*P
			l.S = [6]float64{math.Max(abs(l.F[0]), abs(a)) + P, P * P, P * P, P * P * P, P * P * P, P * P * P}
			l.Comp = true
		}
	default:
		panic("local2: unknown op " + o.Name)
	}
	return l
}

// ---- chain rule with running error bounds --------------------------------------------------

func (m *Model) merge(a, b *Jet) (uint8, bool) {
	return a.Deps | b.Deps, a.Status == stUndefined || b.Status == stUndefined
}

// combine1 applies f with local derivatives f[0..2] (as Q) to operand a.
func (m *Model) combine1(a *Jet, f [3]Q) Jet {
	c := Jet{Deps: a.Deps, Br: a.Br, Sing: a.Sing}
	c.Val = f[0]
	if a.Status == stNonsmooth {
		c.Status, c.Why = stNonsmooth, a.Why
		m.finish(&c)
		return c
	}
	for i := 0; i < m.N; i++ {
		c.G[i] = qmul(a.G[i], f[1])
	}
	for i := 0; i < m.N; i++ {
		for k := i; k < m.N; k++ {
			h := qadd(qmul(qmul(a.G[i], a.G[k]), f[2]), qmul(a.H[i][k], f[1]))
			c.H[i][k], c.H[k][i] = h, h
		}
	}
	m.finish(&c)
	return c
}

func (m *Model) combine2(a, b *Jet, f [6]Q) Jet {
	c := Jet{Deps: a.Deps | b.Deps, Br: a.Br*31 + b.Br*17, Sing: a.Sing || b.Sing}
	c.Val = f[0]
	if a.Status == stNonsmooth || b.Status == stNonsmooth {
		c.Status, c.Why = stNonsmooth, a.Why
		if a.Status != stNonsmooth {
			c.Why = b.Why
		}
		m.finish(&c)
		return c
	}
	for i := 0; i < m.N; i++ {
		c.G[i] = qadd(qmul(a.G[i], f[1]), qmul(b.G[i], f[2]))
	}
	for i := 0; i < m.N; i++ {
		for k := i; k < m.N; k++ {
			h := qadd(qmul(a.H[i][k], f[1]), qmul(b.H[i][k], f[2]))
			h = qadd(h, qmul(qmul(a.G[i], a.G[k]), f[3]))
			h = qadd(h, qmul(qmul(b.G[i], b.G[k]), f[5]))
			x := qadd(qmul(a.G[i], b.G[k]), qmul(b.G[i], a.G[k]))
			h = qadd(h, qmul(x, f[4]))
			c.H[i][k], c.H[k][i] = h, h
		}
	}
	m.finish(&c)
	return c
}

// inputSlack: uncertainty of an operand value as seen by a local function: its own bound
// plus a few ulps granted to the libm routine's argument handling.
func inputSlack(q Q) float64 { return q.E + 4*uL*abs(q.V) }

func (m *Model) isConst(a *Jet) bool { return a.Deps == 0 }

// Unary applies a unary op.
func (m *Model) Unary(o *OpDef, a *Jet) Jet {
	if a.Status == stUndefined {
		return undefined(a.Why, a.Deps)
	}
	x := a.Val.V
	l := local1(o, x)
	if !l.OK {
		return undefined("domain:"+o.Name, a.Deps)
	}
	e := inputSlack(a.Val)
	if o.Name == "Mlgamma" {
		// the natural evaluation forms x + (1-j)/2: absolute rounding of the shifted argument
		e += 4 * uL * (abs(x) + o.Par/2)
	}
	if l.Kink {
		// |a| at a == 0
		if a.Val.E != 0 {
			return undefined("kink-ambiguous", a.Deps)
		}
		c := Jet{Deps: a.Deps}
		if a.Status == stOK && m.allDerivsZero(a) {
			// |a| with a identically flat to second order: derivative 0 is the only candidate
			m.finish(&c)
			return c
		}
		c.Status, c.Why = stNonsmooth, "kink:"+o.Name
		if a.Status == stOK {
			c.K = m.kinkBetween(a, 1, a, -1) // |a| is +a on one side of the kink and -a on the other
		}
		m.finish(&c)
		return c
	}
	if o.Name == "Abs" && abs(x) <= 64*e {
		return undefined("kink-ambiguous", a.Deps)
	}
	var f [3]Q
	if l.ValOnly {
		c := Jet{Deps: a.Deps, Val: Q{l.F[0], 0}}
		if a.Val.E != 0 {
			return undefined("boundary-ambiguous", a.Deps)
		}
		if !m.isConst(a) {
			c.Status, c.Why = stNonsmooth, "domain-boundary:"+o.Name
		} else {
			c.Sing = true
		}
		m.finish(&c)
		return c
	}
	var d [3]float64
	if e > 0 {
		lp, lm := local1(o, x+e), local1(o, x-e)
		if !lp.OK || !lm.OK || lp.ValOnly || lm.ValOnly || lp.Kink || lm.Kink {
			return undefined("domain-edge:"+o.Name, a.Deps)
		}
		for k := 0; k < 3; k++ {
			d[k] = math.Max(abs(lp.F[k]-l.F[k]), abs(lm.F[k]-l.F[k]))
		}
	}
	eps := l.Eps
	if l.Comp {
		eps = math.Max(eps, 8*m.US)
	}
	for k := 0; k < 3; k++ {
		f[k] = Q{l.F[k], d[k] + eps*math.Max(abs(l.F[k]), l.S[k]) + l.X[k]}
	}
	c := m.combine1(a, f)
	if o.Name == "Abs" {
		c.Br = c.Br*7 + 1
		if x < 0 {
			c.Br++
		}
	}
	return c
}

func (m *Model) allDerivsZero(a *Jet) bool {
	for i := 0; i < m.N; i++ {
		if !a.G[i].zero() {
			return false
		}
		for k := 0; k < m.N; k++ {
			if !a.H[i][k].zero() {
				return false
			}
		}
	}
	return true
}

func (m *Model) sameJet(a, b *Jet) bool {
	if a.Status != stOK || b.Status != stOK {
		return false
	}
	for i := 0; i < m.N; i++ {
		if a.G[i] != b.G[i] {
			return false
		}
		for k := 0; k < m.N; k++ {
			if a.H[i][k] != b.H[i][k] {
				return false
			}
		}
	}
	return true
}

// tieMargin: how close two values must be before a comparison made by the library (in
// the storage type's precision) cannot be predicted from the reference values.
func (m *Model) tieMargin(a, b Q) float64 {
	mg := 64 * (a.E + b.E)
	if m.F32 {
		mg += 4 * m.US * math.Max(abs(a.V), abs(b.V))
	}
	return mg
}

// Binary applies a binary op.
func (m *Model) Binary(o *OpDef, a, b *Jet) Jet {
	deps, und := m.merge(a, b)
	if und {
		return undefined(a.Why+b.Why, deps)
	}
	x, y := a.Val.V, b.Val.V
	switch o.Name {
	case "Min", "Max":
		if math.IsNaN(x) || math.IsNaN(y) || math.IsInf(x, 0) || math.IsInf(y, 0) {
			return undefined("nonfinite", deps)
		}
		var c Jet
		switch {
		case x == y && a.Val.E == 0 && b.Val.E == 0:
			if m.sameJet(a, b) {
				c = *b
			} else {
				// tie between different functions: value defined, derivative not
				c = Jet{Val: b.Val, Status: stNonsmooth, Why: "tie:" + o.Name}
				if a.Status == stOK && b.Status == stOK {
					c.K = m.kinkBetween(a, 1, b, 1) // the result is a on one side of the tie and b on the other
				}
			}
		case abs(x-y) <= m.tieMargin(a.Val, b.Val):
			return undefined("tie-ambiguous", deps)
		case (x < y) == (o.Name == "Min"):
			c = *a
			c.Br = a.Br*31 + b.Br*17 + 1
		default:
			c = *b
			c.Br = a.Br*31 + b.Br*17 + 2
		}
		c.Deps = deps
		return c
	case "LogAdd":
		// log(e^a+e^b) with one operand -Inf is the other operand
		switch {
		case math.IsInf(x, -1) && math.IsInf(y, -1):
			return undefined("nonfinite", deps)
		case math.IsInf(x, -1) && a.Val.E == 0:
			c := *b
			c.Deps = deps
			return c
		case math.IsInf(y, -1) && b.Val.E == 0:
			c := *a
			c.Deps = deps
			return c
		}
	case "LogSub":
		if math.IsInf(y, -1) && b.Val.E == 0 && !math.IsInf(x, 0) {
			c := *a
			c.Deps = deps
			return c
		}
	case "Pow":
		if m.isConst(b) && b.Val.E == 0 {
			// constant exponent: x^c, defined for negative bases when c is an integer
			po := OpDef{Name: "PowK", Kind: Unary, Par: y}
			c := m.Unary(&po, a)
			c.Deps = deps
			return c
		}
	}
	l := local2(o, x, y)
	if !l.OK {
		return undefined("domain:"+o.Name, deps)
	}
	ea, eb := inputSlack(a.Val), inputSlack(b.Val)
	var d [6]float64
	for _, sa := range []float64{-1, 1} {
		for _, sb := range []float64{-1, 1} {
			lc := local2(o, x+sa*ea, y+sb*eb)
			if !lc.OK {
				return undefined("domain-edge:"+o.Name, deps)
			}
			for k := 0; k < 6; k++ {
				d[k] = math.Max(d[k], abs(lc.F[k]-l.F[k]))
			}
		}
	}
	var f [6]Q
	eps := l.Eps
	if l.Comp {
		eps = math.Max(eps, 8*m.US)
	}
	for k := 0; k < 6; k++ {
		f[k] = Q{l.F[k], d[k] + eps*math.Max(abs(l.F[k]), l.S[k])}
	}
	// structural zeros of the linear operations stay exact
	switch o.Name {
	case "Add", "Sub":
		f[1].E, f[2].E = 0, 0
		f[3], f[4], f[5] = Q{}, Q{}, Q{}
		if a.Val.E == 0 && b.Val.E == 0 {
			// sum of two exactly known numbers: one correctly rounded operation; in particular
			// x - x is exactly 0 (so that |x - y| at x == y is recognised as sitting on the kink)
			f[0].E = uL * abs(f[0].V)
		}
	case "Mul":
		f[3], f[5] = Q{}, Q{}
		f[4].E = 0
	case "Div":
		f[3] = Q{}
	}
	return m.combine2(a, b, f)
}

// ---- reductions, from their mathematical definitions ------------------------------------------

var (
	opAdd  = &OpDef{Name: "Add", Kind: Binary}
	opMul  = &OpDef{Name: "Mul", Kind: Binary}
	opDiv  = &OpDef{Name: "Div", Kind: Binary}
	opExp  = &OpDef{Name: "Exp", Kind: Unary}
	opSqrt = &OpDef{Name: "Sqrt", Kind: Unary}
	opLog  = &OpDef{Name: "Log", Kind: Unary}

	opLogAdd = &OpDef{Name: "LogAdd", Kind: Binary}
)

func (m *Model) sum(xs []Jet) Jet {
	s := xs[0]
	for i := 1; i < len(xs); i++ {
		s = m.Binary(opAdd, &s, &xs[i])
	}
	return s
}

func (m *Model) ReduceOp(o *OpDef, v, w []Jet, rows int) Jet {
	var deps uint8
	for i := range v {
		deps |= v[i].Deps
	}
	for i := range w {
		deps |= w[i].Deps
	}
	fix := func(j Jet) Jet { j.Deps = deps; return j }
	if len(v) == 0 {
		return undefined("empty", deps)
	}
	switch o.Name {
	case "Vmean":
		s := m.sum(v)
		k := constJet(float64(len(v)))
		return fix(m.Binary(opDiv, &s, &k))
	case "VdotV":
		t := make([]Jet, len(v))
		for i := range v {
			t[i] = m.Binary(opMul, &v[i], &w[i])
		}
		return fix(m.sum(t))
	case "Vnorm", "Mnorm":
		t := make([]Jet, len(v))
		for i := range v {
			t[i] = m.Binary(opMul, &v[i], &v[i])
		}
		s := m.sum(t)
		return fix(m.Unary(opSqrt, &s))
	case "Mtrace":
		cols := len(v) / rows
		var t []Jet
		for i := 0; i < rows; i++ {
			t = append(t, v[i*cols+i])
		}
		return fix(m.sum(t))
	case "SmoothMax", "LogSmoothMax":
		// sum x_i e^(alpha x_i) / sum e^(alpha x_i); the log-domain variant needs x_i >= 0: an entry
		// that is exactly zero (log 0 = -Inf) adds nothing to the weighted sum and e^0 = 1 to the
		// normaliser. The function itself is smooth there, also with respect to the zero entry
		// (d/dx_i x_i e^(alpha x_i) = 1 at 0): the full jet is demanded. (The widening of the second
		// derivatives for the log-scale evaluation cannot be formed at such a point and is left out.)
		al := constJet(o.Par)
		num := make([]Jet, len(v))
		den := make([]Jet, len(v))
		boundary, sing := false, false
		for i := range v {
			if o.Name == "LogSmoothMax" && v[i].Status != stUndefined {
				switch {
				case v[i].Val.V == 0 && v[i].Val.E == 0:
					boundary = boundary || v[i].Deps != 0
					sing = sing || v[i].Deps == 0 // log of a constant zero: see Jet.Sing
				case !(v[i].Val.V-64*v[i].Val.E > 0):
					return undefined("domain:LogSmoothMax", deps)
				}
			}
			ax := m.Binary(opMul, &al, &v[i])
			den[i] = m.Unary(opExp, &ax)
			num[i] = m.Binary(opMul, &v[i], &den[i])
		}
		n, d := m.sum(num), m.sum(den)
		r := m.Binary(opDiv, &n, &d)
		r.Sing = r.Sing || sing
		if o.Name == "LogSmoothMax" && r.Status == stOK {
			if !boundary {
				m.widenLogDomain(&r, v, &al)
			}
		}
		return fix(r)
	}
	panic("ReduceOp: unknown op " + o.Name)
}

// widenLogDomain: LogSmoothMax exists to be evaluated on log scale,
// f = exp(L1 - L2), L1 = log sum x_i e^(alpha x_i), L2 = log sum e^(alpha x_i), each log-sum
// accumulated pairwise. One accumulation step c = log(e^a + e^b) has the Hessian
// s(1-s) dg dg^T + s H_a + (1-s) H_b (s = weight of a, dg = grad a - grad b). When one element
// dominates, these three terms cancel down to O(s^2) in the cross entries, so every faithful
// log-scale evaluation carries an absolute error eps*(sum of their magnitudes) there which the
// quotient formula sum x e^(alpha x) / sum e^(alpha x) does not have. The second derivatives of the
// reference jet (values from the quotient formula) get this running magnitude as additional
// error bound; value and gradient have no such cancellation and stay as they are.
func (m *Model) widenLogDomain(r *Jet, v []Jet, al *Jet) {
	type mag [maxN][maxN]float64
	var l [2]Jet // running log-sums
	var s [2]mag // running magnitude sums of their Hessians
	var have [2]bool
	for i := range v {
		ax := m.Binary(opMul, al, &v[i])
		z := [2]Jet{{}, ax}
		zero := v[i].Val.V == 0 && v[i].Val.E == 0 && v[i].Deps == 0
		if !zero {
			lx := m.Unary(opLog, &v[i])
			z[0] = m.Binary(opAdd, &ax, &lx)
		}
		for q := 0; q < 2; q++ {
			if q == 0 && zero {
				continue // a constant zero entry: log 0 = -Inf, nothing is added to the first log-sum
			}
			if z[q].Status != stOK {
				return
			}
			if !have[q] {
				have[q] = true
				l[q] = z[q]
				continue
			}
			c := m.Binary(opLogAdd, &l[q], &z[q])
			if c.Status != stOK {
				return
			}
			w := sigmoid(l[q].Val.V - z[q].Val.V) // weight of the part accumulated so far
			for j := 0; j < m.N; j++ {
				for k := 0; k < m.N; k++ {
					dj, dk := l[q].G[j].V-z[q].G[j].V, l[q].G[k].V-z[q].G[k].V
					s[q][j][k] = w*s[q][j][k] + w*(1-w)*abs(dj*dk) + w*abs(l[q].H[j][k].V) + (1-w)*abs(z[q].H[j][k].V)
				}
			}
			l[q] = c
		}
	}
	if !have[0] || !have[1] {
		return // every entry a constant zero: the result is the constant 0
	}
	eps := math.Max(epsElem, 8*m.US)
	f := abs(r.Val.V)
	for j := 0; j < m.N; j++ {
		for k := 0; k < m.N; k++ {
			dj, dk := l[0].G[j].V-l[1].G[j].V, l[0].G[k].V-l[1].G[k].V
			e := eps * f * (s[0][j][k] + s[1][j][k] + abs(l[0].H[j][k].V) + abs(l[1].H[j][k].V) + abs(dj*dk))
			if e > r.H[j][k].E {
				r.H[j][k].E = e
			}
		}
	}
}

// ---- program evaluation -------------------------------------------------------------------------

// EvalProgram returns the jet of every register.
func (m *Model) EvalProgram(p *Program, x []float64, regs []Jet) []Jet {
	regs = regs[:0]
	get := func(o Operand) Jet {
		switch o.K {
		case 'V':
			return varJet(o.I, x[o.I])
		case 'R':
			return regs[o.I]
		}
		return constJet(o.V)
	}
	for i := range p.Ins {
		in := &p.Ins[i]
		o := ops[in.Op]
		var r Jet
		switch o.Kind {
		case Unary:
			a := get(in.A)
			r = m.Unary(o, &a)
		case Binary:
			a, b := get(in.A), get(in.B)
			r = m.Binary(o, &a, &b)
		case Reduce:
			v := make([]Jet, len(in.Vec))
			for k := range in.Vec {
				v[k] = get(in.Vec[k])
			}
			var w []Jet
			if in.Vec2 != nil {
				w = make([]Jet, len(in.Vec2))
				for k := range in.Vec2 {
					w[k] = get(in.Vec2[k])
				}
			}
			r = m.ReduceOp(o, v, w, in.Rows)
		}
		regs = append(regs, r)
	}
	return regs
}
