// C01: automatic differentiation returns exact first and second derivatives.
// Bounded-exhaustive enumeration of straight-line register programs over the scalar
// operations of the Scalar interface (plus the vector/matrix reductions), executed on the
// real Real64/Real32 types and compared register by register against an independent jet
// reference model with running rounding bounds. Programs are enumerated in SSA form and in
// every destination-aliases-operand (in-place) form; registers are fresh or reused; variables
// are fresh objects or re-activated former result registers; instructions go through the
// Scalar interface or through the upper-case concrete entry points; every object the program
// only reads must come out unchanged, and the objects alive at the end are overwritten in turn
// to expose state shared between two scalars.
package main

import (
	"encoding/json"
	"fmt"
	"math"
	"os"
	"runtime/debug"
	"runtime/pprof"
	"strings"
	"time"

	"verif/mc/vf"
)

type engine struct {
	c      *vf.Ctx
	idx    int64
	jets   []Jet
	fdbuf  []Jet
	types  []string
	orders []int
	stop   bool
	// the object-history reuse modes rotate through polHists[3:nPolHist]
	nPolHist int
	// composed programs: the concrete entry points at every concStride-th point, the overwrite round
	// at every owStride-th point (both rotating with the program; depth-1 scalar programs: every point)
	concStride, owStride int
}

func (e *engine) expired() bool {
	if e.stop {
		return true
	}
	if e.c.Expired() {
		e.c.Cap("soft deadline reached before the enumeration finished")
		e.stop = true
	}
	return e.stop
}

func roundPoint(x []float64, f32 bool) []float64 {
	r := make([]float64, len(x))
	for i, v := range x {
		if f32 && !math.IsInf(v, 0) {
			v = float64(float32(v))
		}
		r[i] = v
	}
	return r
}

// roundOperands: constants handed to a Real32 program keep their float64 value (ConstFloat64
// and Float64 operands are not rounded by the library), only 'C' elements are stored as float32.
func finalName(p *Program) string { return ops[p.Ins[len(p.Ins)-1].Op].Name }

type evalOpts struct {
	pollAllPoints bool // run the reused-register variants at every point (else only at the first two)
	fdAllPoints   bool // validate the model by finite differences at every point (else only at the first checked one)
	fdNone        bool
	helpers       bool
	// alias > 0: also run every destination-aliases-operand form of the program (aliasVariants),
	// at every alias-th point.
	alias int
	// react > 0: at every react-th point also run the program on variables that are re-activated
	// after having served as result registers (stale order-1 / order-2 content, same N), through
	// one of the activation routes (rotating through route x stale order with point and program);
	react        int
	helpersStale bool // Matrix.Hessian / Jacobian also on an argument carrying stale derivatives
	// concrete > 0: at every concrete-th point (rotating with the program) the program, in SSA and in
	// every in-place form, fresh and reused registers, is also run through the concrete entry points
	concrete int
	// overwrite > 0: at every overwrite-th point (rotating with the program) the runs on fresh
	// objects (SSA and in-place forms, both entry modes) end with the overwrite round
	overwrite int
}

// aliasLabel: key suffix of a failure that appears only in the in-place form of a program
// (the SSA form of the same case passes): how the failing instruction aliases its operands,
// or that an earlier instruction did.
func aliasLabel(p *Program, reg int) string {
	if reg >= 0 && reg < len(p.Ins) && p.Ins[reg].Dst != "" {
		return "|in-place:dst=" + p.Ins[reg].Dst
	}
	return "|in-place:upstream"
}

func suffixFails(cs *Case, fails []failure) {
	if cs.Entry != "" {
		// only reached when the same case passed through the interface methods
		defer func() {
			for i := range fails {
				fails[i].key += "|concrete-entry-points"
			}
		}()
	}
	al := hasAlias(&cs.Prog)
	if cs.Stale > 0 || cs.Act != "" || cs.Hist != nil {
		// only reached when the same case passed on fresh variable objects activated by Variables():
		// keyed by the activation route, whatever the program is
		route := cs.Act
		if route == "" {
			route = "Variables"
		}
		for i := range fails {
			if h := cs.Hist; h != nil {
				fails[i].key = fmt.Sprintf("reactivation|%s|%s|after-in-place-update", route, cs.Type)
				fails[i].what += fmt.Sprintf(" (variables re-activated through %s after an order-%d round from x=%v in which every variable was updated in place by %v; passes on fresh variable objects)", route, h.Order, h.X0, h)
				continue
			}
			fails[i].key = fmt.Sprintf("reactivation|%s|%s", route, cs.Type)
			fails[i].what += fmt.Sprintf(" (variables re-activated through %s after use as order-%d result registers; passes on fresh variable objects)", route, cs.Stale)
		}
		return
	}
	if cs.Pollute >= 3 {
		// only reached when the same program passed on fresh objects: keyed by the history of the
		// reused objects (orders of the earlier contents), whatever the program is
		form := "ssa"
		if al {
			form = "in-place"
		}
		h := polHists[cs.Pollute]
		for i := range fails {
			fails[i].key = fmt.Sprintf("object-history|%s|%s|%s", h.orderString(), form, cs.Type)
			fails[i].what += fmt.Sprintf(" (registers, scratch temporaries and constant-valued magic scalars are reused objects that held contents of orders %v before; passes on fresh objects)", h)
		}
		return
	}
	for i := range fails {
		if al && (strings.HasPrefix(fails[i].key, "operand-modified|") || strings.HasPrefix(fails[i].key, "shared-state|")) {
			fails[i].key += "|in-place"
		} else if al {
			fails[i].key += aliasLabel(&cs.Prog, fails[i].reg)
		}
		if cs.Pollute > 0 {
			fails[i].key += "|reused-registers"
		}
	}
}

// evalCase runs one case and reports. Returns the comparison statistics.
func (e *engine) evalCase(cs *Case, jets []Jet, m *Model, rank int64) (cmpStats, bool) {
	rt := rtOf(cs.Type)
	// Nothing is compared from the first register on that the reference model leaves undefined
	// (operand outside the domain, NaN, overflow): the instructions behind it are not executed.
	// (They would only be fed NaN/Inf; special.BesselI spends 10-20 ms per call on such an
	// argument, which used to be four fifths of the CPU time of this check.)
	for k := 0; k < len(jets)-1; k++ {
		if jets[k].Status == stUndefined {
			cs.Prog = Program{N: cs.Prog.N, Ins: cs.Prog.Ins[:k+1]}
			jets = jets[:k+1]
			e.c.Count("programs_cut_behind_first_undefined_register", 1)
			break
		}
	}
	p := &cs.Prog
	if cs.Entry != "" && !concreteApplicable(p) {
		// what is left of the program has no instruction with a concrete twin: same run as through the interface
		e.c.Count("concrete_entry_skipped_nothing_applicable_after_cut", 1)
		return cmpStats{}, false
	}
	if cs.Pollute >= 3 {
		cs.RegHist = polHists[cs.Pollute].String()
	}
	e.c.Guard(finalName(p), rank, nil)
	out := rt.run(p, cs, nil)
	fails, st := compareRegs(m, p, cs, &out, jets)
	if len(fails) == 0 && out.panicAt < 0 {
		// the objects the program only reads: input variables and constant-valued magic scalars
		fails = rt.checkLive(p, cs, &out)
		e.c.Count("runs_with_operand_objects_reverified", 1)
		if len(fails) == 0 && cs.Overwrite {
			fails = rt.overwriteRound(p, cs, &out)
			e.c.Count("overwrite_rounds", 1)
		}
	}
	if cs.Entry != "" {
		e.c.Count("concrete_entry_evaluations", 1)
		e.c.Count("concrete_entry_instructions_executed", int64(out.nConcrete))
		if out.nConcrete == 0 && out.panicAt < 0 {
			e.c.HarnessError(fmt.Sprintf("concrete entry mode executed no concrete instruction in [%v]", p))
		}
	}
	e.c.Eval(1)
	if st.nontrivial {
		e.c.Nontrivial(1)
	}
	e.c.Outcome(st.status)
	// an in-place form is only reached when the SSA form of the same case passed, a reused-register
	// mode only when the same program passed on fresh registers: the failure is due to aliasing / reuse
	suffixFails(cs, fails)
	if hasAlias(p) {
		e.c.Count("in_place_evaluations", 1)
		e.c.Count(fmt.Sprintf("in_place_evaluations_depth%d_n%d", len(p.Ins), p.N), 1)
	}
	if st.kinks > 0 {
		e.c.Count("kink_registers_bounded_by_one_sided_derivatives", int64(st.kinks))
	}
	if len(p.Ins) == 1 && ops[p.Ins[0].Op].Kind == Reduce && st.checkedRegs > 0 {
		for _, zc := range zeroClasses(&p.Ins[0], cs.X) {
			e.c.Count("depth1_reductions_compared_on_zero_pattern:"+zc, 1)
		}
	}
	if st.nonsmooth > 0 {
		e.c.Count("nonsmooth_registers_structure_checked", int64(st.nonsmooth))
	}
	e.report(cs, fails, rank)
	return st, len(fails) > 0
}

func (e *engine) report(cs *Case, fails []failure, rank int64) {
	if len(fails) == 0 {
		return
	}
	cc := *cs
	cc.Prog = cloneProgram(&cs.Prog)
	cc.X = append([]float64(nil), cs.X...)
	cc.encodeX()
	seen := map[string]bool{}
	for _, f := range fails {
		if seen[f.key] {
			continue
		}
		seen[f.key] = true
		e.c.Violate(f.key, f.what, rank, &cc)
	}
}

// runProgram evaluates one program at all points, orders, types and register-reuse modes.
func (e *engine) runProgram(p *Program, pts [][]float64, o evalOpts) {
	e.idx++
	if !e.c.Mine(e.idx) || e.expired() {
		return
	}
	depth := int64(len(p.Ins))
	fdDone := false
	reactStride := o.react
	var variants []Program
	var variantFresh []bool
	pols := [4]int{0, 1, 2, 3}
	stride := o.alias
	applicable := concreteApplicable(p)
	var variantIface [][4]bool // per in-place form and reuse mode: passed through the interface methods
	if stride > 0 {
		variants = aliasVariants(p, nil)
		variantIface = make([][4]bool, len(variants))
		for i := range variants {
			variantFresh = append(variantFresh, usesFreshObjects(&variants[i]) || usesConstObjects(&variants[i]))
		}
		e.c.Count("in_place_programs", int64(len(variants)))
	}
	for _, typ := range e.types {
		m := newModel(typ, p.N)
		helpersDone := false
		for pi, x := range pts {
			xr := roundPoint(x, m.F32)
			e.jets = m.EvalProgram(p, xr, e.jets)
			jets := e.jets
			last := &jets[len(jets)-1]
			pis := int64(pi)
			if pis > 9999 {
				pis = 9999
			}
			var stFresh cmpStats
			// the very first register lies outside the operation's domain: nothing is compared, the call is
			// made once per order (fresh registers, SSA form) and not repeated in the reuse / in-place /
			// re-activation modes (out of its domain the library's GammaP spends 5 ms per call)
			outside := jets[0].Status == stUndefined
			// reuse modes: fresh objects, objects reused from an order-1 / order-2 computation, and one
			// longer object history (two earlier contents; thorough: also three), rotating with the
			// point and the program so that every operation meets every history on its lattice
			pols[3] = 3 + int((int64(pi)+e.idx)%int64(e.nPolHist-3))
			entries := []string{""}
			if o.concrete > 0 && applicable && (int64(pi)+e.idx)%int64(o.concrete) == 0 {
				entries = append(entries, "concrete")
			}
			ow := o.overwrite > 0 && (int64(pi)+e.idx)%int64(o.overwrite) == 0
			for _, order := range e.orders {
				var passedIface [4]bool
				for i := range variantIface {
					variantIface[i] = [4]bool{}
				}
				for ei, entry := range entries {
					// the concrete entry points only where the same case passed through the interface methods,
					// so that a failure is due to the entry points
					erank := int64(ei) * 1e13
					var passed [4]bool
					for q, pol := range pols {
						if pol > 0 && ((!o.pollAllPoints && pi >= 2) || outside) {
							continue
						}
						if ei > 0 && (!passedIface[q] || outside) {
							continue
						}
						cs := Case{Prog: *p, Type: typ, Order: order, X: xr, Pollute: pol, Entry: entry, Overwrite: ow && pol == 0 && !outside}
						rank := depth*1e15 + int64(min(pol, 3))*1e14 + erank + pis*1e10 + e.idx%1e10
						st, failed := e.evalCase(&cs, jets, m, rank)
						passed[q] = !failed
						if pol == 0 && order == 2 && ei == 0 {
							stFresh = st
						}
						if pol == 0 && failed {
							break // the reused-register variants would only repeat this failure
						}
						if pol >= 3 {
							e.c.Count("object_history_evaluations", 1)
						}
					}
					if ei == 0 {
						passedIface = passed
					}
					// re-activated variables: same reference jets again. One (route, stale order) combination
					// per point, rotating with the point and the program, so that every operation meets every
					// combination on its lattice
					if outside {
						continue
					}
					if rs := reactStride; ei == 0 && rs > 0 && passed[0] && pi%rs == 0 {
						k := (int64(pi/rs) + e.idx) % int64(2*len(actRoutes))
						cs := Case{Prog: *p, Type: typ, Order: order, X: xr, Stale: 1 + int(k%2), Act: actRoutes[k/2]}
						rank := depth*1e15 + 7e13 + pis*1e10 + e.idx%1e10
						e.evalCase(&cs, jets, m, rank)
						e.c.Count("reactivated_variable_evaluations", 1)
					}
					// in-place forms: same reference jets (the model does not care about object identity);
					// run only where the SSA form passed, so that a failure is due to the aliasing
					if len(variants) == 0 || !passed[0] || pi%stride != 0 {
						continue
					}
					for vi := range variants {
						for q, pol := range pols {
							if pol > 0 && (!passed[q] || !variantFresh[vi]) {
								continue
							}
							if ei > 0 && !variantIface[vi][q] {
								continue
							}
							cs := Case{Prog: variants[vi], Type: typ, Order: order, X: xr, Pollute: pol, Entry: entry, Overwrite: ow && pol == 0}
							rank := depth*1e15 + 5e13 + int64(min(pol, 3))*1e14 + erank + pis*1e10 + e.idx%1e10
							_, failed := e.evalCase(&cs, jets, m, rank)
							if ei == 0 {
								variantIface[vi][q] = !failed
							}
							if failed && pol == 0 {
								break
							}
							if pol >= 3 {
								e.c.Count("object_history_evaluations", 1)
							}
						}
					}
				}
			}
			if e.c.Shard == 0 && e.idx%997 == 1 && pi == len(pts)/2 && typ == "Real64" {
				e.c.Sample(map[string]any{"program": p.String(), "x": fmt.Sprint(xr), "type": typ, "status": stFresh.status})
			}
			if o.helpers && !helpersDone && last.Status != stUndefined {
				helpersDone = true
				rt := rtOf(typ)
				for _, order := range e.orders {
					cs := Case{Prog: *p, Type: typ, Order: order, X: xr}
					out := rt.run(p, &cs, nil)
					if out.panicAt < 0 {
						e.report(&cs, helperChecks(rt, p, &cs, out.regs[len(out.regs)-1]), depth*1e15+pis*1e10+e.idx%1e10)
						e.c.Count("helper_checks", 1)
					}
				}
				cs := Case{Prog: *p, Type: typ, Order: 2, X: xr}
				hf := matrixHelperChecks(rt, p, &cs, 0)
				for stale := 1; stale <= 2 && len(hf) == 0 && o.helpersStale; stale++ {
					hf = matrixHelperChecks(rt, p, &cs, stale)
				}
				e.report(&cs, hf, depth*1e15+pis*1e10+e.idx%1e10)
			}
			// self validation of the reference model against finite differences of its own value function
			if typ == "Real64" && !o.fdNone && (o.fdAllPoints || !fdDone) && stFresh.nontrivial {
				fdDone = true
				e.fdCheck(p, xr, last)
			}
		}
	}
}

// ---- model self validation ------------------------------------------------------------------------

// fdCheck compares the model's gradient and Hessian of the final register with
// Richardson-extrapolated central differences of the model's own value function. A
// mismatch must be confirmed with a 16 times smaller step before it is reported.
func (e *engine) fdCheck(p *Program, x []float64, ref *Jet) {
	for _, xi := range x {
		if xi != 0 && abs(xi) < 1e-3 {
			e.c.Count("fd_skipped_tiny_coordinate", 1)
			return
		}
	}
	bad1, ok := e.fdPass(p, x, ref, 1)
	if !ok || len(bad1) == 0 {
		return
	}
	bad2, ok := e.fdPass(p, x, ref, 1.0/16)
	if !ok {
		return
	}
	for k, msg := range bad2 {
		if _, both := bad1[k]; both {
			e.c.HarnessError(msg)
		}
	}
}

func (e *engine) fdPass(p *Program, x []float64, ref *Jet, scale float64) (map[string]string, bool) {
	n := p.N
	m := newModel("Real64", n)
	errV := ref.Val.E
	bad := false
	val := func(y []float64) float64 {
		e.fdbuf = m.EvalProgram(p, y, e.fdbuf)
		j := &e.fdbuf[len(e.fdbuf)-1]
		if j.Status != stOK || j.Br != ref.Br {
			bad = true
			return 0
		}
		if j.Val.E > errV {
			errV = j.Val.E
		}
		return j.Val.V
	}
	y := make([]float64, n)
	at := func(i int, di float64, k int, dk float64) float64 {
		copy(y, x)
		y[i] += di
		if k >= 0 {
			y[k] += dk
		}
		return val(y)
	}
	v0 := val(x)
	h := make([]float64, n)
	for i := range h {
		h[i] = 0x1p-9 * scale
		if x[i] != 0 {
			h[i] *= abs(x[i])
		}
	}
	mism := map[string]string{}
	unreliable := 0
	for i := 0; i < n; i++ {
		if ref.Deps&(1<<uint(i)) == 0 {
			continue
		}
		d1 := func(s float64) float64 { return (at(i, s, -1, 0) - at(i, -s, -1, 0)) / (2 * s) }
		a, b, c := d1(h[i]), d1(h[i]/2), d1(h[i]/4)
		r1, r2 := (4*b-a)/3, (4*c-b)/3
		noise := 4 * errV / (h[i] / 4)
		if bad {
			e.c.Count("fd_skipped_stencil_leaves_domain_or_branch", 1)
			return nil, false
		}
		if abs(r1-r2) > 1e-6*abs(r2)+10*noise {
			unreliable++
		} else if abs(r2-ref.G[i].V) > 1e-5*(abs(r2)+abs(ref.G[i].V))+20*noise+tolK*ref.G[i].E {
			mism[fmt.Sprintf("g%d", i)] = fmt.Sprintf("reference model self-check failed: [%v] at x=%v: d/dx%d model %v, Richardson finite difference %v", p, x, i, ref.G[i].V, r2)
		} else if scale == 1 {
			e.c.Count("fd_first_derivatives_validated", 1)
		}
		for k := i; k < n; k++ {
			if ref.Deps&(1<<uint(k)) == 0 {
				continue
			}
			d2 := func(s float64) float64 {
				if k == i {
					si := s * h[i]
					return (at(i, si, -1, 0) - 2*v0 + at(i, -si, -1, 0)) / (si * si)
				}
				si, sk := s*h[i], s*h[k]
				return (at(i, si, k, sk) - at(i, si, k, -sk) - at(i, -si, k, sk) + at(i, -si, k, -sk)) / (4 * si * sk)
			}
			a, b, c := d2(1), d2(0.5), d2(0.25)
			r1, r2 := (4*b-a)/3, (4*c-b)/3
			noise := 16 * errV / (h[i] / 4 * h[k] / 4)
			if bad {
				e.c.Count("fd_skipped_stencil_leaves_domain_or_branch", 1)
				return nil, false
			}
			if abs(r1-r2) > 1e-5*abs(r2)+10*noise {
				unreliable++
			} else if abs(r2-ref.H[i][k].V) > 1e-4*(abs(r2)+abs(ref.H[i][k].V))+20*noise+tolK*ref.H[i][k].E {
				mism[fmt.Sprintf("h%d%d", i, k)] = fmt.Sprintf("reference model self-check failed: [%v] at x=%v: d2/dx%ddx%d model %v, Richardson finite difference %v", p, x, i, k, ref.H[i][k].V, r2)
			} else if scale == 1 {
				e.c.Count("fd_second_derivatives_validated", 1)
			}
		}
	}
	if unreliable > 0 && scale == 1 {
		e.c.Count("fd_estimates_not_self_consistent", int64(unreliable))
	}
	return mism, true
}

// ---- phases ----------------------------------------------------------------------------------------------

const firstPointOnly = 1 << 30 // a stride no point index but 0 is a multiple of

const filler = 1.25 // value of variables a depth-1 program does not read

// depth-1 scalar programs on their boundary lattices
func (e *engine) phaseDepth1Scalar() {
	opt := evalOpts{pollAllPoints: true, fdAllPoints: true, helpers: true, alias: 1, react: 1, helpersStale: true, concrete: 1, overwrite: 1}
	for _, op := range opsOfKind(Unary, false) {
		o := ops[op]
		for _, typ := range e.types {
			f32 := typ == "Real32"
			lat := lattice1(o, f32)
			save := e.types
			e.types = []string{typ}
			// variable operand at every slot of 1..3 variables
			for n := 1; n <= 3; n++ {
				for i := 0; i < n; i++ {
					in := mkInstr(op)
					in.A = Operand{K: 'V', I: i}
					p := Program{N: n, Ins: []Instr{in}}
					pts := make([][]float64, len(lat))
					for k, v := range lat {
						x := make([]float64, n)
						for q := range x {
							x[q] = filler
						}
						x[i] = v
						pts[k] = x
					}
					e.runProgram(&p, pts, opt)
				}
			}
			// constant / plain operand / magic-typed scalar holding a constant (which can be its own
			// destination): one program per lattice point
			for _, kind := range []byte{'K', 'P', 'C'} {
				for _, v := range lat {
					in := mkInstr(op)
					in.A = Operand{K: kind, V: v}
					p := Program{N: 1, Ins: []Instr{in}}
					e.runProgram(&p, [][]float64{{filler}}, evalOpts{pollAllPoints: true, fdNone: true, alias: 1, concrete: 1, overwrite: 1})
				}
			}
			e.types = save
		}
	}
	for _, op := range opsOfKind(Binary, false) {
		o := ops[op]
		for _, typ := range e.types {
			f32 := typ == "Real32"
			lat := lattice2(o, f32)
			save := e.types
			e.types = []string{typ}
			type vv struct{ n, i, k int }
			for _, s := range []vv{{2, 0, 1}, {2, 1, 0}, {3, 2, 0}, {3, 1, 2}} {
				in := mkInstr(op)
				in.A, in.B = Operand{K: 'V', I: s.i}, Operand{K: 'V', I: s.k}
				p := Program{N: s.n, Ins: []Instr{in}}
				pts := make([][]float64, len(lat))
				for q, pr := range lat {
					x := make([]float64, s.n)
					for t := range x {
						x[t] = filler
					}
					x[s.i], x[s.k] = pr.a, pr.b
					pts[q] = x
				}
				e.runProgram(&p, pts, opt)
			}
			// the same variable in both slots
			{
				in := mkInstr(op)
				in.A, in.B = Operand{K: 'V', I: 0}, Operand{K: 'V', I: 0}
				p := Program{N: 1, Ins: []Instr{in}}
				seen := map[float64]bool{}
				var pts [][]float64
				for _, pr := range lat {
					if !seen[pr.a] && !math.IsNaN(pr.a) {
						seen[pr.a] = true
						pts = append(pts, []float64{pr.a})
					}
				}
				e.runProgram(&p, pts, opt)
			}
			// variable with constant / plain / constant-valued magic scalar (the accumulator pattern
			// s.Add(s, x) is the in-place form of Add(C, V)), constant with constant
			for _, ka := range []byte{'V', 'K', 'P', 'C'} {
				for _, kb := range []byte{'V', 'K', 'P', 'C'} {
					if ka == 'V' && kb == 'V' {
						continue
					}
					for _, pr := range lat {
						in := mkInstr(op)
						in.A, in.B = Operand{K: ka, V: pr.a}, Operand{K: kb, V: pr.b}
						x := []float64{filler}
						if ka == 'V' {
							in.A = Operand{K: 'V', I: 0}
							x[0] = pr.a
						}
						if kb == 'V' {
							in.B = Operand{K: 'V', I: 0}
							x[0] = pr.b
						}
						p := Program{N: 1, Ins: []Instr{in}}
						e.runProgram(&p, [][]float64{x}, evalOpts{pollAllPoints: true, fdAllPoints: true, alias: 1, react: 1, concrete: 1, overwrite: 1})
					}
				}
			}
			e.types = save
		}
	}
}

func withZero(g []float64) []float64 { return append([]float64{0}, g...) }

// depth-1 reductions
func (e *engine) phaseDepth1Reduce(thorough bool) {
	for n := 1; n <= 3; n++ {
		maxLen := 3
		grid := withZero(compGrid)
		if n == 3 {
			grid = withZero(compGridSmall)
			if !thorough {
				maxLen = 2
			}
		}
		pts := gridPoints(grid, n)
		reduceInstrs(n, 0, maxLen, -1, thorough, true, func(in Instr) {
			p := Program{N: n, Ins: []Instr{in}}
			e.runProgram(&p, pts, evalOpts{pollAllPoints: n <= 2, helpers: true, react: 1, helpersStale: true, overwrite: e.owStride})
		})
	}
}

// updateForms: every depth-1 program of the scalar alphabet that overwrites a variable in place
// and reads that variable itself (see VarHist). Heavy operations (tens of microseconds per
// call) only in the thorough tier.
func updateForms(n int, thorough bool) []VarHist {
	var r []VarHist
	all := append(opsOfKind(Unary, false), opsOfKind(Binary, false)...)
	if !thorough {
		all = lightOps(all)
	}
	for _, op := range all {
		o := ops[op]
		if o.Kind == Unary {
			r = append(r, VarHist{Op: o.Name, Par: o.Par, Form: "a"})
			continue
		}
		for _, other := range []string{"V", "T", "K", "P"} {
			if other == "V" && n == 1 {
				continue // the next variable is the variable itself: form "ab"
			}
			for _, form := range []string{"a", "b"} {
				r = append(r, VarHist{Op: o.Name, Par: o.Par, Form: form, Other: other})
			}
		}
		r = append(r, VarHist{Op: o.Name, Par: o.Par, Form: "ab"})
	}
	return r
}

// reactivationProbes: programs that carry the complete derivative state of every variable into
// a compared register: each variable alone (x_i + const), their mean, and <x, x>.
func reactivationProbes(n int) []Program {
	var ps []Program
	var all []Operand
	for i := 0; i < n; i++ {
		in := mkInstr(findOp("Add", 0))
		in.A, in.B = Operand{K: 'V', I: i}, Operand{K: 'K', V: constK}
		ps = append(ps, Program{N: n, Ins: []Instr{in}})
		all = append(all, Operand{K: 'V', I: i})
	}
	if n > 1 {
		in := mkInstr(findOp("Vmean", 0))
		in.Vec = all
		ps = append(ps, Program{N: n, Ins: []Instr{in}})
	}
	in := mkInstr(findOp("VdotV", 0))
	in.Vec, in.Vec2 = all, all
	ps = append(ps, Program{N: n, Ins: []Instr{in}})
	return ps
}

// Variables that are re-activated after an earlier differentiation round in which they were
// updated in place: for every update form x earlier point x earlier order x new order x
// activation route, the probes must report the derivatives of a freshly seeded variable.
func (e *engine) phaseReactivation(thorough bool) {
	for n := 1; n <= 3; n++ {
		grid := compGridSmall
		if n == 3 && !thorough {
			grid = []float64{0.25, 3}
		}
		pts := gridPoints(grid, n)
		probes := reactivationProbes(n)
		var jets [][]Jet
		for _, u := range updateForms(n, thorough) {
			for pi, x0 := range pts {
				e.idx++
				if !e.c.Mine(e.idx) || e.expired() {
					continue
				}
				for _, typ := range e.types {
					rt := rtOf(typ)
					m := newModel(typ, n)
					h := u
					h.X0 = roundPoint(x0, m.F32)
					h.Order = 1
					// the point the variables hold after the earlier round
					var x []float64
					if msg := func() (msg string) {
						defer func() {
							if r := recover(); r != nil {
								msg = fmt.Sprint(r)
							}
						}()
						for _, v := range rt.buildHist(&h) {
							x = append(x, v.GetFloat64())
						}
						return ""
					}(); msg != "" {
						e.c.Count("reactivation_histories_update_panics", 1)
						continue
					}
					ok := true
					for _, v := range x {
						ok = ok && !math.IsNaN(v) && !math.IsInf(v, 0)
					}
					if !ok {
						e.c.Count("reactivation_histories_update_leaves_domain", 1)
						continue
					}
					e.c.Count("reactivation_histories", 1)
					jets = jets[:0]
					for k := range probes {
						jets = append(jets, m.EvalProgram(&probes[k], x, nil))
					}
					rank := int64(1e15) + 8e13 + int64(pi)*1e10 + e.idx%1e10
					for _, order := range e.orders {
						// the probes on fresh variable objects at the same point
						base := make([]bool, len(probes))
						for k := range probes {
							cs := Case{Prog: probes[k], Type: typ, Order: order, X: x}
							_, failed := e.evalCase(&cs, jets[k], m, rank)
							base[k] = !failed
						}
						for _, so := range []int{1, 2} {
							for _, route := range actRoutes {
								hh := h
								hh.Order = so
								for k := range probes {
									if !base[k] {
										continue
									}
									cs := Case{Prog: probes[k], Type: typ, Order: order, X: x, Act: route, Hist: &hh}
									e.evalCase(&cs, jets[k], m, rank)
									e.c.Count("reactivated_after_update_evaluations", 1)
								}
							}
						}
					}
					// Matrix.Hessian / Matrix.Jacobian on an argument vector with this history
					hh := h
					hh.Order = 1 + int(e.idx%2)
					cs := Case{Prog: probes[len(probes)-1], Type: typ, Order: 2, X: x, Hist: &hh}
					if hf := matrixHelperChecks(rt, &cs.Prog, &cs, 0); len(hf) == 0 {
						e.report(&cs, matrixHelperChecks(rt, &cs.Prog, &cs, hh.Order), rank)
						e.c.Count("helper_checks_argument_updated_in_place", 1)
					}
				}
			}
		}
	}
}

// depth-2 scalar programs on the composition grid
func (e *engine) phaseDepth2Scalar(thorough bool) {
	all := append(opsOfKind(Unary, false), opsOfKind(Binary, false)...)
	if !thorough {
		all = lightOps(all)
	}
	for n := 1; n <= 3; n++ {
		grid := compGrid
		if n == 3 && !thorough {
			grid = compGridSmall
		}
		pts := gridPoints(grid, n)
		ptsHeavy := pts
		if n == 3 {
			ptsHeavy = gridPoints(compGridSmall, n)
		}
		// in-place forms: every grid point for one and two variables, every 5th point for three
		// variables (a stride coprime to the grid size, so that every coordinate runs through all its
		// values); re-activated variables: at the first grid point
		opt := evalOpts{helpers: true, alias: 1, react: firstPointOnly, concrete: e.concStride, overwrite: e.owStride}
		if n == 1 {
			opt.concrete, opt.overwrite = 1, 1 // seven points only
		}
		if n == 3 {
			opt.alias = 5
			opt.concrete++
		}
		scalarInstrs(n, 0, all, -1, func(i1 Instr) {
			scalarInstrs(n, 1, all, 0, func(i2 Instr) {
				p := Program{N: n, Ins: []Instr{i1, i2}}
				if hasHeavy(&p) {
					e.runProgram(&p, ptsHeavy, opt)
				} else {
					e.runProgram(&p, pts, opt)
				}
			})
		})
	}
}

// depth-2 programs with a reduction as first or second instruction
func (e *engine) phaseDepth2Reduce(thorough bool) {
	all := lightOps(append(opsOfKind(Unary, false), opsOfKind(Binary, false)...))
	ns := []int{2}
	if thorough {
		ns = []int{1, 2, 3}
	}
	for _, n := range ns {
		grid := compGrid
		if n == 3 {
			grid = compGridSmall
		}
		pts := gridPoints(grid, n)
		maxLen := 2
		if thorough && n <= 2 {
			maxLen = 3
		}
		// in-place forms of the scalar instruction (x.Exp(x) feeding a reduction, r.Vmean(v); r.Exp(r))
		// at every 2nd grid point; re-activated variables at the first grid point
		optR := evalOpts{alias: 2, react: firstPointOnly, concrete: e.concStride, overwrite: e.owStride}
		if n == 1 {
			optR.concrete, optR.overwrite = 1, 1
		}
		if n == 3 {
			optR.concrete++
		}
		// scalar op feeding a reduction
		scalarInstrs(n, 0, all, -1, func(i1 Instr) {
			if n == 3 {
				return // three variables: only reductions feeding a scalar op
			}
			reduceInstrs(n, 1, maxLen, 0, false, false, func(i2 Instr) {
				if !thorough && len(i2.Vec) > 2 {
					// quick: matrices only with the register on the first diagonal slot
					if !(i2.Vec[0].K == 'R' && !vecUses(i2.Vec[1:], 0)) {
						return
					}
				}
				if !thorough && i2.Vec2 != nil && !i2.PlainVec2 && len(i2.Vec) > 1 {
					return
				}
				p := Program{N: n, Ins: []Instr{i1, i2}}
				e.runProgram(&p, pts, optR)
			})
		})
		// reduction feeding a scalar op
		reduceInstrs(n, 0, maxLen, -1, false, false, func(i1 Instr) {
			if !thorough && (len(i1.Vec) > 2 || (i1.Vec2 != nil && len(i1.Vec) > 1 && !i1.PlainVec2)) {
				return
			}
			scalarInstrs(n, 1, all, 0, func(i2 Instr) {
				p := Program{N: n, Ins: []Instr{i1, i2}}
				e.runProgram(&p, pts, optR)
			})
		})
	}
}

func instrLess(a, b *Instr) bool {
	if a.Op != b.Op {
		return a.Op < b.Op
	}
	ka := fmt.Sprint(a.A, a.B)
	kb := fmt.Sprint(b.A, b.B)
	return ka <= kb
}

// depth-3 scalar programs: every result used. Chains unary.binary.unary over the full
// alphabet, every other shape over the core alphabet.
func (e *engine) phaseDepth3() {
	all := append(opsOfKind(Unary, false), opsOfKind(Binary, false)...)
	un := fastOps(opsOfKind(Unary, false))
	bin := opsOfKind(Binary, false)
	core := append(opsOfKind(Unary, true), opsOfKind(Binary, true)...)
	n := 2
	pts := gridPoints(compGrid, n)
	_ = all
	ptsSmall := gridPoints(compGridSmall, n)
	full := true
	emit := func(i1, i2, i3 Instr) {
		if e.stop {
			return
		}
		p := Program{N: n, Ins: []Instr{i1, i2, i3}}
		if full {
			e.runProgram(&p, pts, evalOpts{fdNone: e.idx%16 != 0, concrete: e.concStride, overwrite: e.owStride})
		} else {
			e.runProgram(&p, ptsSmall, evalOpts{fdNone: e.idx%16 != 0, concrete: e.concStride, overwrite: e.owStride})
		}
	}
	// (1) unary . binary . unary chains, full alphabet
	scalarInstrs(n, 0, un, -1, func(i1 Instr) {
		scalarInstrs(n, 1, bin, 0, func(i2 Instr) {
			scalarInstrs(n, 2, un, 1, func(i3 Instr) {
				emit(i1, i2, i3)
			})
		})
	})
	// (2) all shapes over the core alphabet, 4x4 grid
	full = false
	isCore := map[int]bool{}
	for _, c := range core {
		isCore[c] = true
	}
	scalarInstrs(n, 0, core, -1, func(i1 Instr) {
		scalarInstrs(n, 1, core, -1, func(i2 Instr) {
			u2 := usesReg(&i2, 0)
			if !u2 && !instrLess(&i1, &i2) {
				return // independent first two instructions: canonical order only
			}
			scalarInstrs(n, 2, core, -1, func(i3 Instr) {
				if !usesReg(&i3, 1) {
					return
				}
				if !u2 && !usesReg(&i3, 0) {
					return
				}
				k1, k2, k3 := ops[i1.Op].Kind, ops[i2.Op].Kind, ops[i3.Op].Kind
				if k1 == Unary && k2 == Binary && k3 == Unary && u2 {
					return // already covered by (1)
				}
				emit(i1, i2, i3)
			})
		})
	})
}

// ---- main ---------------------------------------------------------------------------------------------------

// profShard: which worker writes the CPU profile requested by C01_PROF (development aid).
func profShard() string {
	if s := os.Getenv("C01_PROF_SHARD"); s != "" {
		return s
	}
	return "0"
}

func runAll(c *vf.Ctx) {
	debug.SetGCPercent(1000) // tiny live heap, very high allocation rate
	if pf := os.Getenv("C01_PROF"); pf != "" && fmt.Sprint(c.Shard) == profShard() {
		if f, err := os.Create(pf); err == nil {
			pprof.StartCPUProfile(f)
			defer pprof.StopCPUProfile()
		}
	}
	e := &engine{c: c, types: []string{"Real64", "Real32"}, orders: []int{1, 2}, nPolHist: polHistQuick, concStride: 3, owStride: 4}
	th := c.Thorough()
	if th {
		e.nPolHist = len(polHists)
		e.concStride, e.owStride = 2, 3
	}
	mark := func(name string, t0 time.Time, i0 int64) {
		if c.Shard == 0 {
			c.Count("programs_"+name, e.idx-i0)
			c.Note(fmt.Sprintf("phase %s: %d programs, %.1fs in shard 0", name, e.idx-i0, time.Since(t0).Seconds()))
		}
	}
	t0, i0 := time.Now(), e.idx
	e.phaseDepth1Scalar()
	mark("depth1_scalar", t0, i0)
	t0, i0 = time.Now(), e.idx
	e.phaseDepth1Reduce(th)
	mark("depth1_reduce", t0, i0)
	t0, i0 = time.Now(), e.idx
	e.phaseReactivation(th)
	mark("reactivation_after_in_place_update", t0, i0)
	if os.Getenv("C01_ONLY") == "depth1" {
		// development aid: the evidence of such a run says exhaustive:false
		c.Cap("C01_ONLY=depth1: the depth-2/3 phases were not run")
		return
	}
	t0, i0 = time.Now(), e.idx
	e.phaseDepth2Scalar(th)
	mark("depth2_scalar", t0, i0)
	t0, i0 = time.Now(), e.idx
	e.phaseDepth2Reduce(th)
	mark("depth2_reduce", t0, i0)
	if th {
		t0, i0 = time.Now(), e.idx
		e.phaseDepth3()
		mark("depth3_scalar", t0, i0)
	}
}

func replay(c *vf.Ctx, raw json.RawMessage) {
	var cs Case
	if err := json.Unmarshal(raw, &cs); err != nil {
		c.HarnessError("replay: " + err.Error())
		return
	}
	for i := range cs.Prog.Ins {
		if err := cs.Prog.Ins[i].resolve(); err != nil {
			c.HarnessError("replay: " + err.Error())
			return
		}
	}
	cs.decodeX()
	e := &engine{c: c}
	m := newModel(cs.Type, cs.Prog.N)
	jets := m.EvalProgram(&cs.Prog, cs.X, nil)
	rt := rtOf(cs.Type)
	// the same ladder as the explorer: SSA form on fresh registers and fresh variables, SSA form on
	// reused registers, in-place form on fresh registers, in-place form on reused registers,
	// re-activated variables; the first rung that fails names the cause
	base := cs
	base.Prog = stripAlias(&cs.Prog)
	base.Pollute, base.Stale, base.Act, base.Hist, base.Entry = 0, 0, "", nil, ""
	ladder := []Case{base}
	if cs.Pollute > 0 {
		r := base
		r.Pollute = cs.Pollute
		ladder = append(ladder, r)
	}
	if hasAlias(&cs.Prog) {
		r := base
		r.Prog = cs.Prog
		ladder = append(ladder, r)
		if cs.Pollute > 0 {
			r.Pollute = cs.Pollute
			ladder = append(ladder, r)
		}
	}
	if cs.Entry != "" {
		// the same rungs through the concrete entry points
		for _, r := range ladder {
			r.Entry = cs.Entry
			ladder = append(ladder, r)
		}
	}
	if cs.Stale > 0 || cs.Act != "" || cs.Hist != nil {
		ladder = append(ladder, cs)
	}
	var fails []failure
	var st cmpStats
	var out runOut
	var cc Case
	for i := range ladder {
		cc = ladder[i]
		// the overwrite round ends the runs on fresh objects
		cc.Overwrite = cs.Overwrite && cc.Pollute == 0 && cc.Stale == 0 && cc.Act == "" && cc.Hist == nil
		if cc.Entry != "" && !concreteApplicable(&cc.Prog) {
			continue
		}
		out = rt.run(&cc.Prog, &cc, nil)
		fails, st = compareRegs(m, &cc.Prog, &cc, &out, jets)
		if len(fails) == 0 && out.panicAt < 0 {
			fails = rt.checkLive(&cc.Prog, &cc, &out)
			if len(fails) == 0 && cc.Overwrite {
				fails = rt.overwriteRound(&cc.Prog, &cc, &out)
				if len(fails) > 0 {
					// the objects have been overwritten: show the registers of a run without that round
					c2 := cc
					c2.Overwrite = false
					out = rt.run(&c2.Prog, &c2, nil)
				}
			}
		}
		if len(fails) > 0 {
			break
		}
	}
	if out.panicAt < 0 && len(fails) == 0 {
		fails = append(fails, helperChecks(rt, &cc.Prog, &cc, out.regs[len(out.regs)-1])...)
		for stale := 0; stale <= 2 && len(fails) == 0; stale++ {
			fails = append(fails, matrixHelperChecks(rt, &base.Prog, &base, stale)...)
		}
		if cs.Hist != nil && len(fails) == 0 {
			hb := base
			hb.Hist = cs.Hist
			fails = append(fails, matrixHelperChecks(rt, &hb.Prog, &hb, cs.Hist.Order)...)
		}
	} else {
		suffixFails(&cc, fails)
	}
	fmt.Printf("replay: [%v] type=%s order=%d x=%v pollute=%d entry=%q overwrite-round=%v -> status=%q\n", cc.Prog, cc.Type, cc.Order, cc.X, cc.Pollute, cc.Entry, cc.Overwrite, st.status)
	for k := range out.regs {
		over := ""
		for l := k + 1; l < len(cc.Prog.Ins); l++ {
			if t, ok := cc.Prog.Ins[l].target(); ok && t.K == 'R' && t.I == k {
				over = fmt.Sprintf("  (copy taken before R%d overwrote the object in place)", l)
			}
		}
		fmt.Printf("  R%d = %v  gradient=%v%s\n", k, out.regs[k].GetFloat64(), gradOf(out.regs[k], cs.Prog.N), over)
		if k < len(jets) {
			fmt.Printf("       reference value %v gradient %v status %d %s\n", jets[k].Val.V, jets[k].G[:cs.Prog.N], jets[k].Status, jets[k].Why)
		}
	}
	e.report(&cc, fails, 0)
}

func gradOf(r interface {
	GetDerivative(int) float64
	GetN() int
}, n int) []float64 {
	g := []float64{}
	for i := 0; i < n && i < r.GetN(); i++ {
		g = append(g, r.GetDerivative(i))
	}
	return g
}

func main() {
	vf.Main(vf.Spec{
		ID:    "C01",
		Level: "exploration",
		Rule: "every straight-line register program over the scalar operations of the Scalar interface (36 unary incl. parameters, 9 binary, 9 reductions) with every operand slot ranging over variables / ConstFloat64 literal / plain Float64 / earlier result registers, every result used; " +
			"depth 1 at per-operation boundary lattices (all piecewise branch boundaries with +-1,+-2 ulp neighbours), depth 2 (thorough: 3) on the full composition grid; orders 1 and 2; 1..3 variables; Real64 and Real32; fresh and reused (stale) registers. " +
			"Reuse modes: destination registers and scratch temporaries (in depth-1 programs also the constant-valued magic scalars that are operands of binary operations / vector elements, their value set with SetFloat64) are new objects, objects that held one earlier result of order 1 or 2 over the same number of variables, or objects with a longer history: every sequence of two (thorough: also three) earlier contents with different adjacent orders out of {2,1,0} (2>1, 2>0, 1>2, 1>0, 0>1, 0>2; 2>0>1, 1>2>1, ...), each content assigned over the previous one by Set, the last one by Set or as result of r.Add(src,0); one history per (point, order), rotating with point and program, in the SSA and in every in-place form. " +
			"Depth-1 reductions over {variables, constant element 2, constant element exactly 0} on a grid containing 0: every zero pattern of the operand vector (leading, trailing, interleaved, all-zero; counted). " +
			"Every scalar instruction also in its destination-aliases-operand forms (dst = operand a, dst = operand b, both slots and the destination one object: t.Exp(t), t.Mul(t,x), t.Sub(x,t), t.Mul(t,t); on variables, result registers and constant-valued magic scalars; all combinations over the instructions of a program in which no overwritten name is read again; depth 1: every lattice point, depth 2: every grid point for 1-2 variables, every 5th for 3 variables, every 2nd in programs with a reduction), judged against the same reference jets as the SSA form; reductions whose receiver is an element of their own operand are the C08 family and are not repeated here. " +
			"Variables that are re-activated after having served as order-1/order-2 result registers (same N), through Variables / SetVariable / DenseVector.Variables / DenseMatrix.Variables (one route x stale-order combination per point, rotating; depth 1: every point, depth 2: first grid point) and as argument of Matrix.Hessian / Matrix.Jacobian. " +
			"Variables that are re-activated after an earlier differentiation round (order 1 and 2) in which every variable was overwritten in place by a depth-1 program reading the variable itself: ALL such programs of the scalar alphabet (every unary Vi:=op(Vi); every binary Vi:=op(Vi,O), op(O,Vi), op(Vi,Vi) with O = next variable / a register T=Vj*Vj depending on another variable / ConstFloat64 / plain Float64; heavy operations in the thorough tier) x earlier points on a 4-value grid (1..3 variables) x new order x all four activation routes, probed by x_i+const for every i, the mean and <x,x> at the point the variables hold afterwards, and as argument of Matrix.Hessian / Matrix.Jacobian. " +
			"Entry points: every program, in SSA and in every in-place form, on fresh and reused registers, is also run through the upper-case concrete entry points (NEG, ABS, EXP, LOG, LOG1P, SQRT, ADD, SUB, MUL, DIV, POW, MIN, MAX, LOGADD, LOGSUB; an instruction goes through its twin when destination, operands and scratch temporary all have the receiver's concrete type, i.e. are variables, registers or constant-valued magic scalars; programs without such an instruction are not repeated): depth 1 and composed programs over one variable at every point, composed programs over two variables at every 3rd grid point (thorough: every 2nd), over three variables at every 4th (thorough: every 3rd), rotating with the program; run only where the same case passed through the interface methods. " +
			"Objects: after every run (every form, reuse mode, entry mode) all result registers are read when the whole program has finished, and every input variable and every constant-valued magic scalar that no in-place instruction overwrote must still hold, exactly, its value, d/dx_i = 1 in its own slot (constants: none) and 0 in every other gradient and Hessian slot. Overwrite round ('temporaries reused' after the program): on fresh objects, SSA and in-place forms, both entry modes, depth 1 and composed programs over one variable at every point, other composed programs and depth-1 reductions at every 4th grid point (thorough: every 3rd), rotating with the program, every object alive at the end (result registers, input variables, constant-valued magic scalars, scratch temporaries) is overwritten in turn by X_k := W_k*W_k (Mul / MUL, W_k distinct scalars of the program's order and number of variables); afterwards every X_k must hold bit for bit the product the library computes from W_k into a new object. " +
			"A case (program, point, order, type, register reuse mode, entry mode) is distinct by construction; it counts as non-trivial when the final register depends on at least one variable, every intermediate is inside the operation's domain and finite, and the reference tolerance of every compared component is below 1e-6 (Real32: 1e-2) of the jet's scale",
		Assume: []string{
			"Go's math package (Exp, Log, Erf, Erfc, Gamma, Lgamma, ...) is accurate to a few ulps; it is used as primitive by the reference model",
			"at a kink between two smooth pieces (Abs at 0, Min/Max tie between different functions) no particular derivative is demanded: every gradient / Hessian slot must be finite and lie between the two one-sided derivatives (tolerance included), slots of variables the register does not depend on must be exactly zero, the Hessian symmetric",
			"on the boundary of an operation's domain (Sqrt at 0, GammaP at 0) and behind a kink only the value, Hessian symmetry and the absence of finite nonzero content in slots of independent variables are checked; LogSmoothMax ('SmoothMax computed on log scale') is defined and smooth where entries are exactly 0 (the repository's own test uses such a vector): value and the full jet are demanded there, also with respect to the zero entries (key region 'variable-entry=0')",
			"a constant with a singular local derivative (Sqrt(0), log 0 inside LogSmoothMax) held in a reused magic scalar of order >= 1 (zero derivatives) may report NaN derivatives (0 * Inf): value and structure only; operands of unary operations and the exponent of Pow (which selects x^const or x^y by the exponent's order) are always new constant objects",
			"the very first register outside the operation's domain: the call is made once per order on fresh objects and not repeated in the reuse / in-place / re-activation modes (nothing is compared there)",
			"the instructions behind the first register the reference model leaves undefined (outside the domain, NaN, out of range) are not executed; nothing could be compared there",
			"an in-place instruction leaves the overwritten variable / register dead (programs reading it again have no SSA equivalent and are not enumerated); the result of an overwritten register is compared on a copy (CloneMagicScalar) taken just before",
			"an operation never writes to an object that is only its operand: input variables and constant-valued magic scalars are compared exactly against what they held before the program; after the overwrite round an object that does not hold exactly the product written into it shares state with another object (or the product depends on the receiver's previous content): both are reported, keyed by the roles of the two objects",
			"reused registers stem from a computation over the same number of variables (the library documents mixing different numbers of variables as misuse)",
			"a nonzero reference component outside [1e-100,1e100] (Real32: [1e-30,1e30]) makes a case out of range; it is executed but not compared",
		},
		Run:       runAll,
		Replay:    replay,
		SoftLimit: map[string]time.Duration{"quick": 75 * time.Second, "thorough": 14 * time.Minute},
	})
}
