// C01: automatic differentiation returns exact first and second derivatives.
// Bounded-exhaustive enumeration of straight-line register programs over the scalar
// operations of the Scalar interface (plus the vector/matrix reductions), executed on the
// real Real64/Real32 types and compared register by register against an independent jet
// reference model with running rounding bounds.
package main

import (
	"encoding/json"
	"fmt"
	"math"
	"os"
	"runtime/debug"
	"runtime/pprof"
	"time"

	"verif/mc/vf"
)

type engine struct {
	c      *vf.Ctx
	idx    int64
	jets   []Jet
	fdbuf  []Jet
	types  []string
	orders []int
	stop   bool
}

func (e *engine) expired() bool {
	if e.stop {
		return true
	}
	if e.c.Expired() {
		e.c.Cap("soft deadline reached before the enumeration finished")
		e.stop = true
	}
	return e.stop
}

func roundPoint(x []float64, f32 bool) []float64 {
	r := make([]float64, len(x))
	for i, v := range x {
		if f32 && !math.IsInf(v, 0) {
			v = float64(float32(v))
		}
		r[i] = v
	}
	return r
}

// roundOperands: constants handed to a Real32 program keep their float64 value (ConstFloat64
// and Float64 operands are not rounded by the library), only 'C' elements are stored as float32.
func finalName(p *Program) string { return ops[p.Ins[len(p.Ins)-1].Op].Name }

type evalOpts struct {
	pollAllPoints bool // run the reused-register variants at every point (else only at the first two)
	fdAllPoints   bool // validate the model by finite differences at every point (else only at the first checked one)
	fdNone        bool
	helpers       bool
}

// evalCase runs one case and reports. Returns the comparison statistics.
func (e *engine) evalCase(cs *Case, jets []Jet, m *Model, rank int64) (cmpStats, bool) {
	rt := rtOf(cs.Type)
	p := &cs.Prog
	e.c.Guard(finalName(p), rank, nil)
	out := rt.run(p, cs, nil)
	fails, st := compareRegs(m, p, cs, &out, jets)
	e.c.Eval(1)
	if st.nontrivial {
		e.c.Nontrivial(1)
	}
	e.c.Outcome(st.status)
	if cs.Pollute > 0 {
		// only reached when the same case passed on fresh registers: the failure is due to reuse
		for i := range fails {
			fails[i].key += "|reused-registers"
		}
	}
	e.report(cs, fails, rank)
	return st, len(fails) > 0
}

func (e *engine) report(cs *Case, fails []failure, rank int64) {
	if len(fails) == 0 {
		return
	}
	cc := *cs
	cc.Prog = cloneProgram(&cs.Prog)
	cc.X = append([]float64(nil), cs.X...)
	cc.encodeX()
	seen := map[string]bool{}
	for _, f := range fails {
		if seen[f.key] {
			continue
		}
		seen[f.key] = true
		e.c.Violate(f.key, f.what, rank, &cc)
	}
}

// runProgram evaluates one program at all points, orders, types and register-reuse modes.
func (e *engine) runProgram(p *Program, pts [][]float64, o evalOpts) {
	e.idx++
	if !e.c.Mine(e.idx) || e.expired() {
		return
	}
	depth := int64(len(p.Ins))
	fdDone := false
	for _, typ := range e.types {
		m := newModel(typ, p.N)
		helpersDone := false
		for pi, x := range pts {
			xr := roundPoint(x, m.F32)
			e.jets = m.EvalProgram(p, xr, e.jets)
			jets := e.jets
			last := &jets[len(jets)-1]
			pis := int64(pi)
			if pis > 9999 {
				pis = 9999
			}
			var stFresh cmpStats
			for _, order := range e.orders {
				for pol := 0; pol <= 2; pol++ {
					if pol > 0 && !o.pollAllPoints && pi >= 2 {
						continue
					}
					cs := Case{Prog: *p, Type: typ, Order: order, X: xr, Pollute: pol}
					rank := depth*1e15 + int64(pol)*1e14 + pis*1e10 + e.idx%1e10
					st, failed := e.evalCase(&cs, jets, m, rank)
					if pol == 0 && order == 2 {
						stFresh = st
					}
					if pol == 0 && failed {
						break // the reused-register variants would only repeat this failure
					}
				}
			}
			if e.c.Shard == 0 && e.idx%997 == 1 && pi == len(pts)/2 && typ == "Real64" {
				e.c.Sample(map[string]any{"program": p.String(), "x": fmt.Sprint(xr), "type": typ, "status": stFresh.status})
			}
			if o.helpers && !helpersDone && last.Status != stUndefined {
				helpersDone = true
				rt := rtOf(typ)
				for _, order := range e.orders {
					cs := Case{Prog: *p, Type: typ, Order: order, X: xr}
					out := rt.run(p, &cs, nil)
					if out.panicAt < 0 {
						e.report(&cs, helperChecks(rt, p, &cs, out.regs[len(out.regs)-1]), depth*1e15+pis*1e10+e.idx%1e10)
						e.c.Count("helper_checks", 1)
					}
				}
				cs := Case{Prog: *p, Type: typ, Order: 2, X: xr}
				e.report(&cs, matrixHelperChecks(rt, p, &cs), depth*1e15+pis*1e10+e.idx%1e10)
			}
			// self validation of the reference model against finite differences of its own value function
			if typ == "Real64" && !o.fdNone && (o.fdAllPoints || !fdDone) && stFresh.nontrivial {
				fdDone = true
				e.fdCheck(p, xr, last)
			}
		}
	}
}

// ---- model self validation ------------------------------------------------------------------------

// fdCheck compares the model's gradient and Hessian of the final register with
// Richardson-extrapolated central differences of the model's own value function. A
// mismatch must be confirmed with a 16 times smaller step before it is reported.
func (e *engine) fdCheck(p *Program, x []float64, ref *Jet) {
	for _, xi := range x {
		if xi != 0 && abs(xi) < 1e-3 {
			e.c.Count("fd_skipped_tiny_coordinate", 1)
			return
		}
	}
	bad1, ok := e.fdPass(p, x, ref, 1)
	if !ok || len(bad1) == 0 {
		return
	}
	bad2, ok := e.fdPass(p, x, ref, 1.0/16)
	if !ok {
		return
	}
	for k, msg := range bad2 {
		if _, both := bad1[k]; both {
			e.c.HarnessError(msg)
		}
	}
}

func (e *engine) fdPass(p *Program, x []float64, ref *Jet, scale float64) (map[string]string, bool) {
	n := p.N
	m := newModel("Real64", n)
	errV := ref.Val.E
	bad := false
	val := func(y []float64) float64 {
		e.fdbuf = m.EvalProgram(p, y, e.fdbuf)
		j := &e.fdbuf[len(e.fdbuf)-1]
		if j.Status != stOK || j.Br != ref.Br {
			bad = true
			return 0
		}
		if j.Val.E > errV {
			errV = j.Val.E
		}
		return j.Val.V
	}
	y := make([]float64, n)
	at := func(i int, di float64, k int, dk float64) float64 {
		copy(y, x)
		y[i] += di
		if k >= 0 {
			y[k] += dk
		}
		return val(y)
	}
	v0 := val(x)
	h := make([]float64, n)
	for i := range h {
		h[i] = 0x1p-9 * scale
		if x[i] != 0 {
			h[i] *= abs(x[i])
		}
	}
	mism := map[string]string{}
	unreliable := 0
	for i := 0; i < n; i++ {
		if ref.Deps&(1<<uint(i)) == 0 {
			continue
		}
		d1 := func(s float64) float64 { return (at(i, s, -1, 0) - at(i, -s, -1, 0)) / (2 * s) }
		a, b, c := d1(h[i]), d1(h[i]/2), d1(h[i]/4)
		r1, r2 := (4*b-a)/3, (4*c-b)/3
		noise := 4 * errV / (h[i] / 4)
		if bad {
			e.c.Count("fd_skipped_stencil_leaves_domain_or_branch", 1)
			return nil, false
		}
		if abs(r1-r2) > 1e-6*abs(r2)+10*noise {
			unreliable++
		} else if abs(r2-ref.G[i].V) > 1e-5*(abs(r2)+abs(ref.G[i].V))+20*noise+tolK*ref.G[i].E {
			mism[fmt.Sprintf("g%d", i)] = fmt.Sprintf("reference model self-check failed: [%v] at x=%v: d/dx%d model %v, Richardson finite difference %v", p, x, i, ref.G[i].V, r2)
		} else if scale == 1 {
			e.c.Count("fd_first_derivatives_validated", 1)
		}
		for k := i; k < n; k++ {
			if ref.Deps&(1<<uint(k)) == 0 {
				continue
			}
			d2 := func(s float64) float64 {
				if k == i {
					si := s * h[i]
					return (at(i, si, -1, 0) - 2*v0 + at(i, -si, -1, 0)) / (si * si)
				}
				si, sk := s*h[i], s*h[k]
				return (at(i, si, k, sk) - at(i, si, k, -sk) - at(i, -si, k, sk) + at(i, -si, k, -sk)) / (4 * si * sk)
			}
			a, b, c := d2(1), d2(0.5), d2(0.25)
			r1, r2 := (4*b-a)/3, (4*c-b)/3
			noise := 16 * errV / (h[i] / 4 * h[k] / 4)
			if bad {
				e.c.Count("fd_skipped_stencil_leaves_domain_or_branch", 1)
				return nil, false
			}
			if abs(r1-r2) > 1e-5*abs(r2)+10*noise {
				unreliable++
			} else if abs(r2-ref.H[i][k].V) > 1e-4*(abs(r2)+abs(ref.H[i][k].V))+20*noise+tolK*ref.H[i][k].E {
				mism[fmt.Sprintf("h%d%d", i, k)] = fmt.Sprintf("reference model self-check failed: [%v] at x=%v: d2/dx%ddx%d model %v, Richardson finite difference %v", p, x, i, k, ref.H[i][k].V, r2)
			} else if scale == 1 {
				e.c.Count("fd_second_derivatives_validated", 1)
			}
		}
	}
	if unreliable > 0 && scale == 1 {
		e.c.Count("fd_estimates_not_self_consistent", int64(unreliable))
	}
	return mism, true
}

// ---- phases ----------------------------------------------------------------------------------------------

const filler = 1.25 // value of variables a depth-1 program does not read

// depth-1 scalar programs on their boundary lattices
func (e *engine) phaseDepth1Scalar() {
	opt := evalOpts{pollAllPoints: true, fdAllPoints: true, helpers: true}
	for _, op := range opsOfKind(Unary, false) {
		o := ops[op]
		for _, typ := range e.types {
			f32 := typ == "Real32"
			lat := lattice1(o, f32)
			save := e.types
			e.types = []string{typ}
			// variable operand at every slot of 1..3 variables
			for n := 1; n <= 3; n++ {
				for i := 0; i < n; i++ {
					in := mkInstr(op)
					in.A = Operand{K: 'V', I: i}
					p := Program{N: n, Ins: []Instr{in}}
					pts := make([][]float64, len(lat))
					for k, v := range lat {
						x := make([]float64, n)
						for q := range x {
							x[q] = filler
						}
						x[i] = v
						pts[k] = x
					}
					e.runProgram(&p, pts, opt)
				}
			}
			// constant / plain operand: one program per lattice point
			for _, kind := range []byte{'K', 'P'} {
				for _, v := range lat {
					in := mkInstr(op)
					in.A = Operand{K: kind, V: v}
					p := Program{N: 1, Ins: []Instr{in}}
					e.runProgram(&p, [][]float64{{filler}}, evalOpts{pollAllPoints: true, fdNone: true})
				}
			}
			e.types = save
		}
	}
	for _, op := range opsOfKind(Binary, false) {
		o := ops[op]
		for _, typ := range e.types {
			f32 := typ == "Real32"
			lat := lattice2(o, f32)
			save := e.types
			e.types = []string{typ}
			type vv struct{ n, i, k int }
			for _, s := range []vv{{2, 0, 1}, {2, 1, 0}, {3, 2, 0}, {3, 1, 2}} {
				in := mkInstr(op)
				in.A, in.B = Operand{K: 'V', I: s.i}, Operand{K: 'V', I: s.k}
				p := Program{N: s.n, Ins: []Instr{in}}
				pts := make([][]float64, len(lat))
				for q, pr := range lat {
					x := make([]float64, s.n)
					for t := range x {
						x[t] = filler
					}
					x[s.i], x[s.k] = pr.a, pr.b
					pts[q] = x
				}
				e.runProgram(&p, pts, opt)
			}
			// the same variable in both slots
			{
				in := mkInstr(op)
				in.A, in.B = Operand{K: 'V', I: 0}, Operand{K: 'V', I: 0}
				p := Program{N: 1, Ins: []Instr{in}}
				seen := map[float64]bool{}
				var pts [][]float64
				for _, pr := range lat {
					if !seen[pr.a] && !math.IsNaN(pr.a) {
						seen[pr.a] = true
						pts = append(pts, []float64{pr.a})
					}
				}
				e.runProgram(&p, pts, opt)
			}
			// variable with constant / plain, constant with constant
			for _, ka := range []byte{'V', 'K', 'P'} {
				for _, kb := range []byte{'V', 'K', 'P'} {
					if ka == 'V' && kb == 'V' {
						continue
					}
					for _, pr := range lat {
						in := mkInstr(op)
						in.A, in.B = Operand{K: ka, V: pr.a}, Operand{K: kb, V: pr.b}
						x := []float64{filler}
						if ka == 'V' {
							in.A = Operand{K: 'V', I: 0}
							x[0] = pr.a
						}
						if kb == 'V' {
							in.B = Operand{K: 'V', I: 0}
							x[0] = pr.b
						}
						p := Program{N: 1, Ins: []Instr{in}}
						e.runProgram(&p, [][]float64{x}, evalOpts{pollAllPoints: true, fdAllPoints: true})
					}
				}
			}
			e.types = save
		}
	}
}

func withZero(g []float64) []float64 { return append([]float64{0}, g...) }

// depth-1 reductions
func (e *engine) phaseDepth1Reduce(thorough bool) {
	for n := 1; n <= 3; n++ {
		maxLen := 3
		grid := withZero(compGrid)
		if n == 3 {
			grid = withZero(compGridSmall)
			if !thorough {
				maxLen = 2
			}
		}
		pts := gridPoints(grid, n)
		reduceInstrs(n, 0, maxLen, -1, thorough, func(in Instr) {
			p := Program{N: n, Ins: []Instr{in}}
			e.runProgram(&p, pts, evalOpts{pollAllPoints: n <= 2, helpers: true})
		})
	}
}

// depth-2 scalar programs on the composition grid
func (e *engine) phaseDepth2Scalar(thorough bool) {
	all := append(opsOfKind(Unary, false), opsOfKind(Binary, false)...)
	if !thorough {
		all = lightOps(all)
	}
	for n := 1; n <= 3; n++ {
		grid := compGrid
		if n == 3 && !thorough {
			grid = compGridSmall
		}
		pts := gridPoints(grid, n)
		ptsHeavy := pts
		if n == 3 {
			ptsHeavy = gridPoints(compGridSmall, n)
		}
		scalarInstrs(n, 0, all, -1, func(i1 Instr) {
			scalarInstrs(n, 1, all, 0, func(i2 Instr) {
				p := Program{N: n, Ins: []Instr{i1, i2}}
				if hasHeavy(&p) {
					e.runProgram(&p, ptsHeavy, evalOpts{helpers: true})
				} else {
					e.runProgram(&p, pts, evalOpts{helpers: true})
				}
			})
		})
	}
}

// depth-2 programs with a reduction as first or second instruction
func (e *engine) phaseDepth2Reduce(thorough bool) {
	all := lightOps(append(opsOfKind(Unary, false), opsOfKind(Binary, false)...))
	ns := []int{2}
	if thorough {
		ns = []int{1, 2, 3}
	}
	for _, n := range ns {
		grid := compGrid
		if n == 3 {
			grid = compGridSmall
		}
		pts := gridPoints(grid, n)
		maxLen := 2
		if thorough && n <= 2 {
			maxLen = 3
		}
		// scalar op feeding a reduction
		scalarInstrs(n, 0, all, -1, func(i1 Instr) {
			if n == 3 {
				return // three variables: only reductions feeding a scalar op
			}
			reduceInstrs(n, 1, maxLen, 0, false, func(i2 Instr) {
				if !thorough && len(i2.Vec) > 2 {
					// quick: matrices only with the register on the first diagonal slot
					if !(i2.Vec[0].K == 'R' && !vecUses(i2.Vec[1:], 0)) {
						return
					}
				}
				if !thorough && i2.Vec2 != nil && !i2.PlainVec2 && len(i2.Vec) > 1 {
					return
				}
				p := Program{N: n, Ins: []Instr{i1, i2}}
				e.runProgram(&p, pts, evalOpts{})
			})
		})
		// reduction feeding a scalar op
		reduceInstrs(n, 0, maxLen, -1, false, func(i1 Instr) {
			if !thorough && (len(i1.Vec) > 2 || (i1.Vec2 != nil && len(i1.Vec) > 1 && !i1.PlainVec2)) {
				return
			}
			scalarInstrs(n, 1, all, 0, func(i2 Instr) {
				p := Program{N: n, Ins: []Instr{i1, i2}}
				e.runProgram(&p, pts, evalOpts{})
			})
		})
	}
}

func instrLess(a, b *Instr) bool {
	if a.Op != b.Op {
		return a.Op < b.Op
	}
	ka := fmt.Sprint(a.A, a.B)
	kb := fmt.Sprint(b.A, b.B)
	return ka <= kb
}

// depth-3 scalar programs: every result used. Chains unary.binary.unary over the full
// alphabet, every other shape over the core alphabet.
func (e *engine) phaseDepth3() {
	all := append(opsOfKind(Unary, false), opsOfKind(Binary, false)...)
	un := fastOps(opsOfKind(Unary, false))
	bin := opsOfKind(Binary, false)
	core := append(opsOfKind(Unary, true), opsOfKind(Binary, true)...)
	n := 2
	pts := gridPoints(compGrid, n)
	_ = all
	ptsSmall := gridPoints(compGridSmall, n)
	full := true
	emit := func(i1, i2, i3 Instr) {
		if e.stop {
			return
		}
		p := Program{N: n, Ins: []Instr{i1, i2, i3}}
		if full {
			e.runProgram(&p, pts, evalOpts{fdNone: e.idx%16 != 0})
		} else {
			e.runProgram(&p, ptsSmall, evalOpts{fdNone: e.idx%16 != 0})
		}
	}
	// (1) unary . binary . unary chains, full alphabet
	scalarInstrs(n, 0, un, -1, func(i1 Instr) {
		scalarInstrs(n, 1, bin, 0, func(i2 Instr) {
			scalarInstrs(n, 2, un, 1, func(i3 Instr) {
				emit(i1, i2, i3)
			})
		})
	})
	// (2) all shapes over the core alphabet, 4x4 grid
	full = false
	isCore := map[int]bool{}
	for _, c := range core {
		isCore[c] = true
	}
	scalarInstrs(n, 0, core, -1, func(i1 Instr) {
		scalarInstrs(n, 1, core, -1, func(i2 Instr) {
			u2 := usesReg(&i2, 0)
			if !u2 && !instrLess(&i1, &i2) {
				return // independent first two instructions: canonical order only
			}
			scalarInstrs(n, 2, core, -1, func(i3 Instr) {
				if !usesReg(&i3, 1) {
					return
				}
				if !u2 && !usesReg(&i3, 0) {
					return
				}
				k1, k2, k3 := ops[i1.Op].Kind, ops[i2.Op].Kind, ops[i3.Op].Kind
				if k1 == Unary && k2 == Binary && k3 == Unary && u2 {
					return // already covered by (1)
				}
				emit(i1, i2, i3)
			})
		})
	})
}

// ---- main ---------------------------------------------------------------------------------------------------

func runAll(c *vf.Ctx) {
	debug.SetGCPercent(1000) // tiny live heap, very high allocation rate
	if pf := os.Getenv("C01_PROF"); pf != "" && c.Shard == 0 {
		if f, err := os.Create(pf); err == nil {
			pprof.StartCPUProfile(f)
			defer pprof.StopCPUProfile()
		}
	}
	e := &engine{c: c, types: []string{"Real64", "Real32"}, orders: []int{1, 2}}
	th := c.Thorough()
	mark := func(name string, t0 time.Time, i0 int64) {
		if c.Shard == 0 {
			c.Count("programs_"+name, e.idx-i0)
			c.Note(fmt.Sprintf("phase %s: %d programs, %.1fs in shard 0", name, e.idx-i0, time.Since(t0).Seconds()))
		}
	}
	t0, i0 := time.Now(), e.idx
	e.phaseDepth1Scalar()
	mark("depth1_scalar", t0, i0)
	t0, i0 = time.Now(), e.idx
	e.phaseDepth1Reduce(th)
	mark("depth1_reduce", t0, i0)
	t0, i0 = time.Now(), e.idx
	e.phaseDepth2Scalar(th)
	mark("depth2_scalar", t0, i0)
	t0, i0 = time.Now(), e.idx
	e.phaseDepth2Reduce(th)
	mark("depth2_reduce", t0, i0)
	if th {
		t0, i0 = time.Now(), e.idx
		e.phaseDepth3()
		mark("depth3_scalar", t0, i0)
	}
}

func replay(c *vf.Ctx, raw json.RawMessage) {
	var cs Case
	if err := json.Unmarshal(raw, &cs); err != nil {
		c.HarnessError("replay: " + err.Error())
		return
	}
	for i := range cs.Prog.Ins {
		if err := cs.Prog.Ins[i].resolve(); err != nil {
			c.HarnessError("replay: " + err.Error())
			return
		}
	}
	cs.decodeX()
	e := &engine{c: c}
	m := newModel(cs.Type, cs.Prog.N)
	jets := m.EvalProgram(&cs.Prog, cs.X, nil)
	rt := rtOf(cs.Type)
	out := rt.run(&cs.Prog, &cs, nil)
	fails, st := compareRegs(m, &cs.Prog, &cs, &out, jets)
	if out.panicAt < 0 && len(fails) == 0 {
		fails = append(fails, helperChecks(rt, &cs.Prog, &cs, out.regs[len(out.regs)-1])...)
		fails = append(fails, matrixHelperChecks(rt, &cs.Prog, &cs)...)
	}
	fmt.Printf("replay: [%v] type=%s order=%d x=%v pollute=%d -> status=%q\n", cs.Prog, cs.Type, cs.Order, cs.X, cs.Pollute, st.status)
	for k := range out.regs {
		fmt.Printf("  R%d = %v  gradient=%v\n", k, out.regs[k].GetFloat64(), gradOf(out.regs[k], cs.Prog.N))
		if k < len(jets) {
			fmt.Printf("       reference value %v gradient %v status %d %s\n", jets[k].Val.V, jets[k].G[:cs.Prog.N], jets[k].Status, jets[k].Why)
		}
	}
	if cs.Pollute > 0 {
		for i := range fails {
			fails[i].key += "|reused-registers"
		}
	}
	e.report(&cs, fails, 0)
}

func gradOf(r interface {
	GetDerivative(int) float64
	GetN() int
}, n int) []float64 {
	g := []float64{}
	for i := 0; i < n && i < r.GetN(); i++ {
		g = append(g, r.GetDerivative(i))
	}
	return g
}

func main() {
	vf.Main(vf.Spec{
		ID:    "C01",
		Level: "exploration",
		Rule: "every straight-line register program over the scalar operations of the Scalar interface (36 unary incl. parameters, 9 binary, 9 reductions) with every operand slot ranging over variables / ConstFloat64 literal / plain Float64 / earlier result registers, every result used; " +
			"depth 1 at per-operation boundary lattices (all piecewise branch boundaries with +-1,+-2 ulp neighbours), depth 2 (thorough: 3) on the full composition grid; orders 1 and 2; 1..3 variables; Real64 and Real32; fresh and reused (stale) registers. " +
			"A case (program, point, order, type, register reuse mode) is distinct by construction; it counts as non-trivial when the final register depends on at least one variable, every intermediate is inside the operation's domain and finite, and the reference tolerance of every compared component is below 1e-6 (Real32: 1e-2) of the jet's scale",
		Assume: []string{
			"Go's math package (Exp, Log, Erf, Erfc, Gamma, Lgamma, ...) is accurate to a few ulps; it is used as primitive by the reference model",
			"derivatives are not demanded at kinks (Abs at 0, Min/Max ties between different functions) nor on the boundary of an operation's domain (Sqrt at 0, GammaP at 0); only the value is compared there",
			"reused registers stem from a computation over the same number of variables (the library documents mixing different numbers of variables as misuse)",
			"a nonzero reference component outside [1e-100,1e100] (Real32: [1e-30,1e30]) makes a case out of range; it is executed but not compared",
		},
		Run:       runAll,
		Replay:    replay,
		SoftLimit: map[string]time.Duration{"quick": 75 * time.Second, "thorough": 14 * time.Minute},
	})
}
