// Reference special functions for the C01 jet model. Everything here is written from
// the textbook definitions (series, recurrences, asymptotic expansions) and shares no
// code with github.com/pbenner/autodiff/special. Go's stdlib math (Erf, Erfc, Gamma,
// Lgamma, Exp, ...) is used as a primitive: it is not the library under test.
package main

import "math"

const sqrtPi = 1.7724538509055160272981674833411451827975494561224

// digamma: reflection for x<0.5, upward recurrence to x>=12, asymptotic series.
func refDigamma(x float64) float64 {
	if x <= 0 && x == math.Floor(x) {
		return math.NaN()
	}
	if x < 0 {
		// psi(1-x) - psi(x) = pi cot(pi x)
		return refDigamma(1-x) - math.Pi/math.Tan(math.Pi*x)
	}
	r := 0.0
	for x < 12 {
		r -= 1 / x
		x++
	}
	x2 := 1 / (x * x)
	// ln x - 1/2x - sum B_2k / (2k x^2k)
	s := x2 * (1.0/12 - x2*(1.0/120-x2*(1.0/252-x2*(1.0/240-x2*(1.0/132-x2*(691.0/32760-x2*(1.0/12)))))))
	return r + math.Log(x) - 0.5/x - s
}

// trigamma: reflection, recurrence, asymptotic series.
func refTrigamma(x float64) float64 {
	if x <= 0 && x == math.Floor(x) {
		return math.NaN()
	}
	if x < 0 {
		s := math.Sin(math.Pi * x)
		return math.Pi*math.Pi/(s*s) - refTrigamma(1-x)
	}
	r := 0.0
	for x < 12 {
		r += 1 / (x * x)
		x++
	}
	x2 := 1 / (x * x)
	// 1/x + 1/2x^2 + sum B_2k / x^(2k+1)
	s := (1.0/6 - x2*(1.0/30-x2*(1.0/42-x2*(1.0/30-x2*(5.0/66-x2*(691.0/2730-x2*(7.0/6))))))) * x2 / x
	return r + 1/x + 0.5*x2 + s
}

// regularised lower incomplete gamma P(a,x), a>0, x>=0 (series / Lentz continued fraction)
func refGammaP(a, x float64) float64 {
	if x < 0 || a <= 0 {
		return math.NaN()
	}
	if x == 0 {
		return 0
	}
	lg, _ := math.Lgamma(a)
	if x < a+1 {
		ap := a
		sum := 1 / a
		del := sum
		for n := 0; n < 2000; n++ {
			ap++
			del *= x / ap
			sum += del
			if math.Abs(del) < math.Abs(sum)*1e-18 {
				break
			}
		}
		return sum * math.Exp(-x+a*math.Log(x)-lg)
	}
	// Q by continued fraction
	const tiny = 1e-300
	b := x + 1 - a
	c := 1 / tiny
	d := 1 / b
	h := d
	for i := 1; i < 2000; i++ {
		an := -float64(i) * (float64(i) - a)
		b += 2
		d = an*d + b
		if math.Abs(d) < tiny {
			d = tiny
		}
		c = b + an/c
		if math.Abs(c) < tiny {
			c = tiny
		}
		d = 1 / d
		del := d * c
		h *= del
		if math.Abs(del-1) < 1e-17 {
			break
		}
	}
	q := math.Exp(-x+a*math.Log(x)-lg) * h
	return 1 - q
}

// besselSeries returns I_nu(x), I_nu'(x), I_nu”(x) from the termwise differentiated
// power series  sum_k (x/2)^(2k+nu) / (k! Gamma(k+nu+1)), together with the sums of
// the absolute values of the terms (the natural cancellation scales).
// Valid for x>0 (any nu>=0) and for x<0 when nu is an integer; x==0 only for integer nu.
func besselSeries(nu, x float64) (f [3]float64, s [3]float64, ok bool) {
	isInt := nu == math.Floor(nu)
	if nu < 0 || (x < 0 && !isInt) || (x == 0 && !isInt) {
		return f, s, false
	}
	if x == 0 {
		switch nu {
		case 0:
			f = [3]float64{1, 0, 0.5}
		case 1:
			f = [3]float64{0, 0.5, 0}
		case 2:
			f = [3]float64{0, 0, 0.25}
		}
		s = [3]float64{math.Abs(f[0]), math.Abs(f[1]), math.Abs(f[2])}
		return f, s, true
	}
	h := x / 2
	t := math.Pow(h, nu) / math.Gamma(nu+1) // term k=0 (integer nu: Pow of a negative base is fine)
	q := h * h
	for k := 0; k < 500; k++ {
		p := 2*float64(k) + nu
		t0 := t
		t1 := t * p / x
		t2 := t * p * (p - 1) / (x * x)
		f[0] += t0
		f[1] += t1
		f[2] += t2
		s[0] += math.Abs(t0)
		s[1] += math.Abs(t1)
		s[2] += math.Abs(t2)
		if k > 3 && math.Abs(t2) < 1e-19*s[2] && math.Abs(t0) < 1e-19*s[0] {
			break
		}
		t *= q / (float64(k+1) * (float64(k+1) + nu))
	}
	return f, s, true
}

// erfcTail: for x>20, erfc(x) = exp(-x^2)/(x sqrt(pi)) * (1+T) with the asymptotic series
// T = sum_{k>=1} (-1)^k (2k-1)!! / (2x^2)^k  (terms below 1e-18 long before they start to grow)
func erfcTail(x float64) float64 {
	z := 1 / (2 * x * x)
	sum, term := 0.0, 1.0
	for k := 1; k < 30; k++ {
		nt := -term * float64(2*k-1) * z
		if math.Abs(nt) >= math.Abs(term) {
			break
		}
		term = nt
		sum += term
		if math.Abs(term) < 1e-19*math.Abs(sum) {
			break
		}
	}
	return sum
}

// log erfc(x): log1p(-erf) near 0, direct up to 20, asymptotic expansion beyond.
func refLogErfc(x float64) float64 {
	if x < 0.4 && x > -0.4 {
		return math.Log1p(-math.Erf(x))
	}
	if x <= 20 {
		return math.Log(math.Erfc(x))
	}
	return -x*x - math.Log(x*sqrtPi) + math.Log1p(erfcTail(x))
}

// logErfcJet: value, first and second derivative of log erfc. With h = 2/sqrt(pi) exp(-x^2)/erfc(x):
// f' = -h, f” = h (2x - h); for x>20, h = 2x/(1+T) and 2x - h = 2x T/(1+T) without cancellation.
func logErfcJet(x float64) (f0, f1, f2, h float64) {
	f0 = refLogErfc(x)
	if x > 20 {
		t := erfcTail(x)
		h = 2 * x / (1 + t)
		return f0, -h, h * 2 * x * t / (1 + t), h
	}
	h = 2 / sqrtPi * math.Exp(-x*x-f0)
	return f0, -h, h * (2*x - h), h
}
