package main

// One session per case: it owns the InSitu object of the routine under test, runs the
// earlier calls of the case's history on it and then the call that is judged. The same
// code path serves single calls without an InSitu object, the "InSitu" warm-up, caller
// supplied result buffers (zero, junk, NaN) and two-/three-call histories.

import (
	"fmt"
	"math"
	"reflect"
	"strings"

	ad "github.com/pbenner/autodiff"
	"github.com/pbenner/autodiff/algorithm/cholesky"
	"github.com/pbenner/autodiff/algorithm/eigensystem"
	"github.com/pbenner/autodiff/algorithm/gramSchmidt"
	"github.com/pbenner/autodiff/algorithm/hessenbergReduction"
	"github.com/pbenner/autodiff/algorithm/householderBidiagonalization"
	"github.com/pbenner/autodiff/algorithm/householderTridiagonalization"
	"github.com/pbenner/autodiff/algorithm/qrAlgorithm"
	"github.com/pbenner/autodiff/algorithm/svd"

	"verif/mc/cmd/c05/lat"
)

// Step is one earlier call on the same InSitu object.
type Step struct {
	Opts string `json:"options"`
	// "warm": a fixed dense matrix of the class the options need (symmetric positive definite
	// for Sym/cholesky/tridiag, general otherwise); "same": the matrix of the case itself;
	// "reduced": diag(1..n) (already has the promised structure)
	Input string `json:"input"`
}

func hasTok(opts, tok string) bool {
	for _, t := range strings.Split(opts, ",") {
		if t == tok {
			return true
		}
	}
	return false
}

// symmetric algorithm requested (by either spelling)?
func wantsSym(opts string) bool { return hasTok(opts, "Sym") || hasTok(opts, "qrSym") }

func warmFor(routine, opts string, r, c int) lat.Mat {
	switch routine {
	case "cholesky", "tridiag":
		return warmSym(c)
	case "hessenberg":
		return warmSquare(c)
	case "qrAlgorithm", "eigensystem":
		if wantsSym(opts) {
			return warmSym(c)
		}
		return warmSquare(c)
	}
	return warmTall(r, c)
}

func reducedFor(r, c int) lat.Mat {
	m := lat.New(r, c)
	for i := 0; i < c && i < r; i++ {
		m.Set(i, i, float64(i+1))
	}
	return m
}

// junk content of a caller-supplied buffer: no entry is 0 or 1, signs alternate
func junkVals(n, salt int, nan bool) []float64 {
	v := make([]float64, n)
	for k := range v {
		if nan {
			v[k] = math.NaN()
			continue
		}
		x := 3.5 + 0.37*float64(k) + 1.25*float64(salt)
		if k%2 == 1 {
			x = -x
		}
		v[k] = x
	}
	return v
}

type supplied struct {
	name string
	m    ad.Matrix
	v    ad.Vector
}

type sess struct {
	cs      *Case
	e       string
	t       ad.ScalarType
	r, c    int
	nan     bool
	salt    int
	chol    *cholesky.InSitu
	gs      *gramSchmidt.InSitu
	hess    *hessenbergReduction.InSitu
	tri     *householderTridiagonalization.InSitu
	bid     *householderBidiagonalization.InSitu
	sv      *svd.InSitu
	qr      *qrAlgorithm.InSitu
	eig     *eigensystem.InSitu
	M1      ad.Matrix
	M2      ad.Matrix
	M3      ad.Matrix
	vec     ad.Vector
	sup     []supplied
	hasISit bool
}

func newSess(cs *Case) *sess {
	return &sess{cs: cs, e: cs.Elem, t: elemType(cs.Elem), r: cs.R, c: cs.C}
}

func (s *sess) jm(r, c int) ad.Matrix {
	s.salt++
	return mkVals(s.e, junkVals(r*c, s.salt, s.nan), r, c)
}

func (s *sess) jv(n int) ad.Vector {
	s.salt++
	v := junkVals(n, s.salt, s.nan)
	switch s.e {
	case "Real64":
		return ad.NewDenseReal64Vector(v)
	case "Float32":
		return ad.NewDenseFloat32Vector(to32(v))
	case "Real32":
		return ad.NewDenseReal32Vector(to32(v))
	}
	return ad.NewDenseFloat64Vector(v)
}

// setup creates the InSitu object. mode: "" none, "insitu" the object a caller would recycle
// (as the library's own callers create it), "buf" zero result buffers (eigensystem), "junk"
// result buffers allocated by the caller and holding arbitrary previous content.
func (s *sess) setup(mode string) {
	if mode == "" {
		return
	}
	s.hasISit = true
	t, m, n := s.t, s.r, s.c
	switch s.cs.Routine {
	case "cholesky":
		s.chol = &cholesky.InSitu{L: ad.NullDenseMatrix(t, n, n), D: ad.NullDenseMatrix(t, n, n), S: ad.NullScalar(t), T: ad.NullScalar(t)}
	case "gramSchmidt":
		s.gs = &gramSchmidt.InSitu{Q: ad.NullDenseMatrix(t, m, n), R: ad.NullDenseMatrix(t, m, n)}
	case "hessenberg":
		s.hess = &hessenbergReduction.InSitu{}
	case "tridiag":
		s.tri = &householderTridiagonalization.InSitu{}
	case "bidiag":
		s.bid = &householderBidiagonalization.InSitu{}
	case "svd":
		s.sv = &svd.InSitu{}
	case "qrAlgorithm":
		s.qr = &qrAlgorithm.InSitu{InitializeH: true, InitializeU: true}
	case "eigensystem":
		s.eig = &eigensystem.InSitu{}
		if mode == "buf" {
			s.eig.Eigenvalues = ad.NullDenseVector(t, n)
			if !hasTok(s.cs.Opts, "Vec=false") {
				s.eig.Eigenvectors = ad.NullDenseMatrix(t, n, n)
			}
		} else {
			s.eig.QrAlgorithm.InitializeH = true
			s.eig.QrAlgorithm.InitializeU = true
		}
	}
	if mode == "junk" {
		s.swap()
	}
}

// swap installs fresh caller-allocated result buffers with junk content in the InSitu object.
func (s *sess) swap() {
	m, n := s.r, s.c
	s.sup = nil
	add := func(name string, x ad.Matrix) ad.Matrix {
		s.sup = append(s.sup, supplied{name: name, m: x})
		return x
	}
	switch s.cs.Routine {
	case "cholesky":
		s.chol.L = add("L", s.jm(n, n))
		s.chol.D = add("D", s.jm(n, n))
	case "gramSchmidt":
		s.gs = &gramSchmidt.InSitu{Q: add("Q", s.jm(m, n)), R: add("R", s.jm(m, n))}
	case "hessenberg":
		s.hess.H = s.jm(n, n)
		s.hess.U = add("U", s.jm(n, n))
	case "tridiag":
		s.tri.A = s.jm(n, n)
		s.tri.U = add("U", s.jm(n, n))
	case "bidiag":
		s.bid.A = s.jm(m, n)
		s.bid.U = add("U", s.jm(m, m))
		s.bid.V = add("V", s.jm(n, n))
	case "svd":
		s.sv.A = s.jm(m, n)
		s.sv.U = add("U", s.jm(m, m))
		s.sv.V = add("V", s.jm(n, n))
	case "qrAlgorithm":
		s.qr.H = s.jm(n, n)
		s.qr.U = add("U", s.jm(n, n))
	case "eigensystem":
		v := s.jv(n)
		s.sup = append(s.sup, supplied{name: "eigenvalues", v: v})
		s.eig.Eigenvalues = v
		s.eig.Eigenvectors = add("eigenvectors", s.jm(n, n))
	}
}

// returned factor that belongs to a supplied buffer
func (s *sess) returned(name string) (ad.Matrix, ad.Vector) {
	switch s.cs.Routine {
	case "cholesky":
		if name == "L" {
			return s.M1, nil
		}
		return s.M2, nil
	case "gramSchmidt":
		if name == "Q" {
			return s.M1, nil
		}
		return s.M2, nil
	case "eigensystem":
		if name == "eigenvalues" {
			return nil, s.vec
		}
		return s.M1, nil
	}
	switch name {
	case "U":
		return s.M2, nil
	case "V":
		return s.M3, nil
	}
	return s.M1, nil
}

// checkSupplied: a result buffer the caller put into the InSitu object must hold the factor
// that the call returned (that is what supplying it is for).
func (s *sess) checkSupplied(f *fails) {
	for _, b := range s.sup {
		rm, rv := s.returned(b.name)
		if b.v != nil {
			if isNil(rv) {
				continue
			}
			x, y := getVec(b.v), getVec(rv)
			if !sameFloats(x, y) {
				f.add("result-not-in-supplied-buffer", "caller-supplied %s vector holds %v but %v was returned", b.name, x, y)
			}
			continue
		}
		if isNil(rm) {
			continue
		}
		x, y := get(b.m), get(rm)
		if x.R != y.R || x.C != y.C || !sameFloats(x.V, y.V) {
			f.add("result-not-in-supplied-buffer", "caller-supplied %s matrix holds %v but %v was returned", b.name, x.V, y.V)
		}
	}
}

// isNil: nil interface or an interface holding a nil pointer (a factor that was not computed)
func isNil(x any) bool {
	if x == nil {
		return true
	}
	v := reflect.ValueOf(x)
	return v.Kind() == reflect.Ptr && v.IsNil()
}

func sameFloats(x, y []float64) bool {
	if len(x) != len(y) {
		return false
	}
	for i := range x {
		if x[i] != y[i] && !(math.IsNaN(x[i]) && math.IsNaN(y[i])) {
			return false
		}
	}
	return true
}

// call runs the routine once on a with the option tokens opts (and the session's InSitu object).
func (s *sess) call(a ad.Matrix, opts string) error {
	s.M1, s.M2, s.M3, s.vec = nil, nil, nil, nil
	var args []interface{}
	var err error
	switch s.cs.Routine {
	case "cholesky":
		if hasTok(opts, "LDL") {
			args = append(args, cholesky.LDL{Value: true})
		}
		if hasTok(opts, "ForcePD") {
			args = append(args, cholesky.ForcePD{Value: true})
		}
		if s.chol != nil {
			args = append(args, s.chol)
		}
		s.M1, s.M2, err = cholesky.Run(a, args...)
	case "gramSchmidt":
		if s.gs != nil {
			args = append(args, *s.gs)
		}
		s.M1, s.M2, err = gramSchmidt.Run(a, args...)
	case "bidiag":
		args = append(args, householderBidiagonalization.ComputeU{Value: hasTok(opts, "U")}, householderBidiagonalization.ComputeV{Value: hasTok(opts, "V")})
		if hasTok(opts, "Eps") {
			args = append(args, householderBidiagonalization.Epsilon{Value: 1e-12})
		}
		if s.bid != nil {
			args = append(args, s.bid)
		}
		s.M1, s.M2, s.M3, err = householderBidiagonalization.Run(a, args...)
	case "svd":
		args = append(args, svd.ComputeU{Value: hasTok(opts, "U")}, svd.ComputeV{Value: hasTok(opts, "V")})
		if hasTok(opts, "Eps") {
			args = append(args, svd.Epsilon{Value: 1e-12})
		}
		if s.sv != nil {
			args = append(args, s.sv)
		}
		s.M1, s.M2, s.M3, err = svd.Run(a, args...)
	case "tridiag":
		args = append(args, householderTridiagonalization.ComputeU{Value: hasTok(opts, "U")})
		if hasTok(opts, "Eps") {
			args = append(args, householderTridiagonalization.Epsilon{Value: 1e-12})
		}
		if s.tri != nil {
			args = append(args, s.tri)
		}
		s.M1, s.M2, err = householderTridiagonalization.Run(a, args...)
	case "hessenberg":
		args = append(args, hessenbergReduction.ComputeU{Value: hasTok(opts, "U")})
		if hasTok(opts, "SetZero=false") {
			args = append(args, hessenbergReduction.SetZero{Value: false})
		}
		if s.hess != nil {
			args = append(args, s.hess)
		}
		s.M1, s.M2, err = hessenbergReduction.Run(a, args...)
	case "qrAlgorithm":
		args = append(args, qrAlgorithm.ComputeU{Value: hasTok(opts, "U")})
		if hasTok(opts, "Eps") {
			args = append(args, qrAlgorithm.Epsilon{Value: 1e-12})
		}
		if hasTok(opts, "Sym") {
			args = append(args, qrAlgorithm.Symmetric{Value: true})
		}
		if s.qr != nil {
			args = append(args, s.qr)
		}
		s.M1, s.M2, err = qrAlgorithm.Run(a, args...)
	case "eigensystem":
		if hasTok(opts, "Vec=false") {
			args = append(args, eigensystem.ComputeEigenvectors{Value: false})
		}
		if hasTok(opts, "Sym") {
			args = append(args, eigensystem.Symmetric{Value: true})
		}
		// options of the QR algorithm, which eigensystem passes on (ComputeU is documented as
		// dropped: eigensystem decides itself whether it needs the Schur vectors)
		if hasTok(opts, "Eps") {
			args = append(args, qrAlgorithm.Epsilon{Value: 1e-12})
		}
		if hasTok(opts, "qrSym") {
			args = append(args, qrAlgorithm.Symmetric{Value: true})
		}
		if hasTok(opts, "qrU") {
			args = append(args, qrAlgorithm.ComputeU{Value: true})
		}
		if hasTok(opts, "qrU=false") {
			args = append(args, qrAlgorithm.ComputeU{Value: false})
		}
		if s.eig != nil {
			args = append(args, s.eig)
		}
		s.vec, s.M1, err = eigensystem.Run(a, args...)
	default:
		return fmt.Errorf("no driver for %s", s.cs.Routine)
	}
	return err
}
