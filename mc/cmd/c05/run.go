package main

import (
	"fmt"
	"math"
	"sort"

	ad "github.com/pbenner/autodiff"
	"github.com/pbenner/autodiff/algorithm/msqrt"
	"github.com/pbenner/autodiff/algorithm/msqrtInv"
	"github.com/pbenner/autodiff/algorithm/qrAlgorithm"
	verifrt "github.com/pbenner/autodiff/zz_verifrt"

	"verif/mc/cmd/c05/lat"
)

// Case is one executed configuration; it is also the replay artefact.
type Case struct {
	Routine string `json:"routine"`
	Opts    string `json:"options"`
	Elem    string `json:"elem"`
	R       int    `json:"rows"`
	C       int    `json:"cols"`
	Base    []int  `json:"matrix_row_major"`
	Graded  int    `json:"graded_shift,omitempty"` // input is D·A·D⁻¹, D=diag(1,2^s,2^2s)
	Exp2    int    `json:"exp2,omitempty"`         // input is matrix_row_major · 2^exp2 (ill-conditioned families)
	Family  string `json:"family,omitempty"`       // "", "spd-wide", "ill-conditioned", "blocks6"
	// earlier calls on the same InSitu object, oldest first; the call described by Opts/Base is
	// the last one and the only one that is judged
	Hist []Step `json:"history,omitempty"`
}

func (cs *Case) has(tok string) bool { return hasTok(cs.Opts, tok) }

// mode of the InSitu object of the case (sess.setup)
func (cs *Case) mode() string {
	switch {
	case cs.has("Junk"), cs.has("JunkNaN"):
		return "junk"
	case cs.has("Buf"):
		return "buf"
	case cs.has("InSitu"), cs.has("Swap"), len(cs.Hist) > 0:
		return "insitu"
	}
	return ""
}

type prevCall struct {
	opts string
	m    lat.Mat
}

// prelude lists the calls made on the InSitu object before the judged one: the history of
// the case, or for the plain "InSitu" token one warm-up call with the same options on a
// different dense matrix of the same shape.
func (cs *Case) prelude() []prevCall {
	var ps []prevCall
	for _, st := range cs.Hist {
		var m lat.Mat
		switch st.Input {
		case "same":
			m = cs.input()
		case "reduced":
			m = reducedFor(cs.R, cs.C)
		default:
			m = warmFor(cs.Routine, st.Opts, cs.R, cs.C)
		}
		ps = append(ps, prevCall{st.Opts, m})
	}
	if len(cs.Hist) == 0 && cs.has("InSitu") {
		ps = append(ps, prevCall{cs.Opts, warmFor(cs.Routine, cs.Opts, cs.R, cs.C)})
	}
	return ps
}

func (cs *Case) input() lat.Mat {
	a := lat.FromInts(cs.Base, cs.R, cs.C)
	if cs.Graded != 0 {
		a = lat.Graded(a, cs.Graded)
	}
	if cs.Exp2 != 0 {
		for i := range a.V {
			a.V[i] = math.Ldexp(a.V[i], cs.Exp2) // exact: |entries| < 2^53
		}
	}
	return a
}

// tallClassOf: structural class of a tall input; the ill-conditioned families are full rank by
// construction (exact Gram determinant, lat.CondUpper) and their scaled integers would
// overflow the int64 determinant of tallClass.
func (cs *Case) tallClassOf() string {
	if cs.Family == "ill-conditioned" {
		return "ill-conditioned"
	}
	return tallClass(cs.Base, cs.R, cs.C)
}

// condUpperCached memoises lat.CondUpper for the matrix of the previous call (the same matrix
// runs through several option sets and element types in a row); compared by content.
var condLast struct {
	base []int
	m, n int
	k    float64
}

func condUpperCached(base []int, m, n int) float64 {
	if condLast.m == m && condLast.n == n && len(condLast.base) == len(base) {
		same := true
		for i, v := range base {
			if condLast.base[i] != v {
				same = false
				break
			}
		}
		if same {
			return condLast.k
		}
	}
	condLast.base = append(condLast.base[:0], base...)
	condLast.m, condLast.n = m, n
	condLast.k = lat.CondUpper(base, m, n)
	return condLast.k
}

// unit roundoff of float64
const unitRoundoff = 1.1102230246251565e-16

// budgetFor is the C20 verdict budget; budgetStage1 is a 100x smaller first-stage budget
// (ordinary runs use < 1e4 ticks): a case exceeding it is re-run under the full budget.
func budgetFor(n int) int64    { return 200000 * int64(n+1) * int64(n+1) * int64(n+1) }
func budgetStage1(n int) int64 { return 2000 * int64(n+1) * int64(n+1) * int64(n+1) }

// ---- element types ---------------------------------------------------------------------

// elemsFor: element types a routine is run with. Every routine runs on Float64 and Real64
// (typed fast path where there is one, generic path); a routine that dispatches on the
// element type (cholesky: Float32 and Float64 instantiations next to the generic one) also
// runs on the 32 bit types, so that every instantiation sees the same inputs and options.
func elemsFor(routine string) []string {
	if routine == "cholesky" {
		return []string{"Float64", "Real64", "Float32", "Real32"}
	}
	return []string{"Float64", "Real64"}
}

func is32(e string) bool { return e == "Float32" || e == "Real32" }

// unit roundoff of float32
const unitRoundoff32 = 1.0 / (1 << 24)

// relTolFor: relative tolerance of the defining equations for the element type: 1e-9 for the
// 64 bit types, 2^10·u for the 32 bit types (u = 2^-24).
func relTolFor(e string) float64 {
	if is32(e) {
		return 1024 * unitRoundoff32
	}
	return relTol
}

// exact32: every entry is a float32 number (the input of a 32 bit case is exactly the
// matrix that the reference side sees)
func exact32(m lat.Mat) bool {
	for _, v := range m.V {
		if float64(float32(v)) != v {
			return false
		}
	}
	return true
}

// safelyPD32: every pivot of the LDLᵀ recurrence of A (float64, reference side) is at least
// 64·n·2^-24·max a_ii: rounding in float32 cannot make a pivot non-positive.
func safelyPD32(A lat.Mat) bool {
	n := A.R
	amax := 0.0
	for i := 0; i < n; i++ {
		amax = math.Max(amax, math.Abs(A.At(i, i)))
	}
	l := lat.New(n, n)
	d := make([]float64, n)
	for j := 0; j < n; j++ {
		c := A.At(j, j)
		for k := 0; k < j; k++ {
			c -= l.At(j, k) * l.At(j, k) * d[k]
		}
		if !(c >= 64*float64(n)*unitRoundoff32*amax) {
			return false
		}
		d[j] = c
		l.Set(j, j, 1)
		for i := j + 1; i < n; i++ {
			s := A.At(i, j)
			for k := 0; k < j; k++ {
				s -= l.At(i, k) * l.At(j, k) * d[k]
			}
			l.Set(i, j, s/c)
		}
	}
	return true
}

func elemType(e string) ad.ScalarType {
	switch e {
	case "Real64":
		return ad.Real64Type
	case "Float32":
		return ad.Float32Type
	case "Real32":
		return ad.Real32Type
	}
	return ad.Float64Type
}

func to32(v []float64) []float32 {
	w := make([]float32, len(v))
	for i, x := range v {
		w[i] = float32(x)
	}
	return w
}

func mkVals(e string, v []float64, r, c int) ad.Matrix {
	switch e {
	case "Real64":
		return ad.NewDenseReal64Matrix(v, r, c)
	case "Float32":
		return ad.NewDenseFloat32Matrix(to32(v), r, c)
	case "Real32":
		return ad.NewDenseReal32Matrix(to32(v), r, c)
	}
	return ad.NewDenseFloat64Matrix(v, r, c)
}

func mk(e string, m lat.Mat) ad.Matrix {
	return mkVals(e, append([]float64{}, m.V...), m.R, m.C)
}

func get(m ad.ConstMatrix) lat.Mat {
	r, c := m.Dims()
	o := lat.New(r, c)
	for i := 0; i < r; i++ {
		for j := 0; j < c; j++ {
			o.V[i*c+j] = m.ConstAt(i, j).GetFloat64()
		}
	}
	return o
}

func getVec(v ad.ConstVector) []float64 {
	o := make([]float64, v.Dim())
	for i := range o {
		o[i] = v.ConstAt(i).GetFloat64()
	}
	return o
}

// protect runs fn under the tick budget and recovers library panics.
func protect(budget int64, fn func()) (pan any, over bool) {
	defer func() {
		if r := recover(); r != nil {
			if _, ok := r.(verifrt.BudgetExceeded); ok {
				over = true
			} else {
				pan = r
			}
		}
		verifrtLast = verifrt.Count()
		verifrt.Reset(0)
	}()
	verifrt.Reset(budget)
	fn()
	return
}

// warm-up inputs used to make InSitu buffers "stale" (contents of a previous call on a
// different dense matrix of the same shape), the realistic way buffers are reused.
func warmSym(n int) lat.Mat {
	m := lat.New(n, n)
	for i := 0; i < n; i++ {
		for j := 0; j < n; j++ {
			if i == j {
				m.Set(i, j, float64(n+1+i))
			} else {
				m.Set(i, j, 1)
			}
		}
	}
	return m
}
func warmSquare(n int) lat.Mat {
	m := warmSym(n)
	for i := 0; i < n; i++ {
		for j := i + 1; j < n; j++ {
			m.Set(i, j, 2+float64(j))
		}
	}
	return m
}
func warmTall(r, c int) lat.Mat {
	m := lat.New(r, c)
	for i := 0; i < r; i++ {
		for j := 0; j < c; j++ {
			v := 1.0 + float64((i*3+j*5)%4)
			if i == j {
				v += float64(3 + i)
			}
			m.Set(i, j, v)
		}
	}
	return m
}

// result of running a case
type outcome struct {
	fails    fails
	status   string // "ok", "budget", "error-returned", "panic"
	skipped  int    // eigenvector checks skipped (complex / split repeated roots)
	ticks    int64
	mutated  bool // the routine changed its input matrix (information only; C12's business)
	suffPD   bool
	class    string
	trivial  bool
	harnessE string
	// gramSchmidt: orthogonality defect relative to its tolerance, condition bound (statistics)
	gsMargin, gsCond float64
}

func runCase(cs *Case, bud int64) (out outcome) {
	out.status = "ok"
	A := cs.input()
	n := cs.C
	f := &out.fails
	e := cs.Elem
	a := mk(e, A)
	scale := scaleOf(A)
	tol := relTolFor(e) * scale
	graded := cs.Graded != 0
	if is32(e) && !exact32(A) {
		out.status = "excluded32"
		out.class = "input-not-representable-in-float32"
		return
	}

	// exec runs the earlier calls of the case and then the judged call on one InSitu object,
	// all under the tick budget. An earlier call that fails is not this case's business (it is
	// judged where it is the last call): the case is discarded.
	s := newSess(cs)
	s.nan = cs.has("JunkNaN")
	discarded := ""
	exec := func() (any, bool, error) {
		var err error
		stage := 0
		pre := cs.prelude()
		pan, over := protect(bud, func() {
			s.setup(cs.mode())
			for _, p := range pre {
				if perr := s.call(mk(e, p.m), p.opts); perr != nil {
					discarded = "earlier call returned an error: " + perr.Error()
					return
				}
				stage++
			}
			if cs.has("Swap") {
				s.swap()
			}
			err = s.call(a, cs.Opts)
		})
		if pan != nil && stage < len(pre) {
			discarded = fmt.Sprintf("earlier call panicked: %v", pan)
			pan = nil
		}
		return pan, over, err
	}

	finish := func(pan any, over bool, err error) bool {
		out.ticks = verifrtLast
		if discarded != "" && !over {
			if len(cs.Hist) == 0 {
				out.harnessE = "warm-up call failed: " + discarded
			}
			out.status = "discarded"
			return false
		}
		if over {
			out.status = "budget"
			return false
		}
		if pan != nil {
			out.status = "panic"
			f.add("panic", "panic: %v", pan)
			return false
		}
		if err != nil {
			out.status = "error-returned"
			f.add("error-returned", "error on admissible input: %v", err)
			return false
		}
		return true
	}
	defer func() {
		if !lat.Finite(A) {
			return
		}
		after := get(a)
		for i := range after.V {
			if after.V[i] != A.V[i] {
				out.mutated = true
			}
		}
	}()

	switch cs.Routine {
	// ------------------------------------------------------------------ cholesky
	case "cholesky":
		ldl, fpd := cs.has("LDL"), cs.has("ForcePD")
		spd := lat.IsSPD(cs.Base, n)
		out.class = symClass(cs.Base, n, spd)
		out.trivial = isDiagonal(cs.Base, n)
		if is32(e) && spd && !safelyPD32(A) {
			// a pivot at the rounding level of float32: the factorisation may legitimately break down
			out.status = "excluded32"
			return
		}
		if !finish(exec()) {
			return
		}
		L, D := s.M1, s.M2
		defer s.checkSupplied(f)
		if L == nil {
			f.add("nil-factor", "L is nil without error")
			return
		}
		l := get(L)
		if l.R != n || l.C != n {
			f.add("shape", "L is %dx%d", l.R, l.C)
			return
		}
		if !lat.Finite(l) {
			f.add("nonfinite", "L has non-finite entries %v", l.V)
			return
		}
		if v := maxWhere(l, func(i, j int) bool { return j > i }); v > 0 {
			f.add("structure-lower-triangular", "L has a non-zero entry %.3g above the diagonal", v)
		}
		// the lower triangle is the factor (entries above it are judged above)
		for i := 0; i < n; i++ {
			for j := i + 1; j < n; j++ {
				l.Set(i, j, 0)
			}
		}
		if !ldl {
			if d := lat.Fro(lat.Sub(lat.Mul(l, lat.T(l)), A)); !(d <= tol) {
				f.add("reconstruction", "‖L·Lᵀ−A‖=%.3g (tol %.3g)", d, tol)
			}
			return
		}
		if D == nil {
			f.add("nil-factor", "D is nil without error")
			return
		}
		d := get(D)
		if d.R != n || d.C != n || !lat.Finite(d) {
			f.add("shape", "D is %dx%d / non-finite", d.R, d.C)
			return
		}
		for i := 0; i < n; i++ {
			if l.At(i, i) != 1 {
				f.add("structure-unit-diagonal", "L[%d,%d]=%v, expected 1", i, i, l.At(i, i))
				break
			}
		}
		if v := maxWhere(d, func(i, j int) bool { return j != i }); v > 0 {
			f.add("structure-diagonal", "D has an off-diagonal entry %.3g", v)
		}
		for i := 0; i < n; i++ {
			if !(d.At(i, i) > 0) {
				f.add("not-positive-definite", "D[%d,%d]=%v is not positive, L·D·Lᵀ is not positive definite", i, i, d.At(i, i))
				break
			}
		}
		rec := lat.Sub(lat.Mul(lat.Mul(l, d), lat.T(l)), A)
		if !fpd || spd && sufficientlyPD(A) {
			out.suffPD = true
			if r := lat.Fro(rec); !(r <= tol) {
				f.add("reconstruction", "‖L·D·Lᵀ−A‖=%.3g (tol %.3g)", r, tol)
			}
		}
	// ------------------------------------------------------------------ gramSchmidt
	case "gramSchmidt":
		m := cs.R
		out.class = cs.tallClassOf()
		out.trivial = isUpperTriangular(cs.Base, m, n)
		if !finish(exec()) {
			return
		}
		Q, R := s.M1, s.M2
		defer s.checkSupplied(f)
		if Q == nil || R == nil {
			f.add("nil-factor", "Q or R nil without error")
			return
		}
		q, r := get(Q), get(R)
		if q.R != m || q.C != n || r.C != n || r.R < n {
			f.add("shape", "Q is %dx%d, R is %dx%d for %dx%d input", q.R, q.C, r.R, r.C, m, n)
			return
		}
		if !lat.Finite(q) || !lat.Finite(r) {
			f.add("nonfinite", "Q or R has non-finite entries")
			return
		}
		if v := maxWhere(r, func(i, j int) bool { return i > j }); v > tol {
			f.add("structure-upper-triangular", "R has entry %.3g below the diagonal", v)
		}
		// the upper triangle is the factor (entries below it are judged above)
		rt := lat.New(n, n)
		for i := 0; i < n; i++ {
			for j := i; j < n; j++ {
				rt.Set(i, j, r.At(i, j))
			}
		}
		// modified Gram–Schmidt loses orthogonality like u·cond(A) (Björck 1967), the classical
		// recurrence like u·cond(A)²: the tolerance is 1e3·u·cond with cond an upper bound of
		// cond_2(A) from the exact Gram matrix (reference side only)
		kappa := condUpperCached(cs.Base, m, n)
		otol := 1e3 * unitRoundoff * kappa
		d := lat.OrthoDefect(q)
		if !(d <= otol) {
			f.add("orthogonality-Q", "‖QᵀQ−I‖=%.3g (tol 1e3·u·cond=%.3g, cond<=%.3g)", d, otol, kappa)
		}
		out.gsMargin, out.gsCond = d/otol, kappa
		if d := lat.Fro(lat.Sub(lat.Mul(q, rt), A)); !(d <= tol) {
			f.add("reconstruction", "‖Q·R−A‖=%.3g (tol %.3g)", d, tol)
		}
	// ------------------------------------------------------------------ bidiagonalisation
	case "bidiag":
		m := cs.R
		out.class = cs.tallClassOf()
		out.trivial = isBidiagonal(cs.Base, m, n)
		cu, cv := cs.has("U"), cs.has("V")
		if !finish(exec()) {
			return
		}
		B, U, V := s.M1, s.M2, s.M3
		defer s.checkSupplied(f)
		checkUBV(f, A, B, U, V, cu, cv, "bidiagonal", func(i, j int) bool { return !(j == i || j == i+1) }, cs)
	// ------------------------------------------------------------------ svd
	case "svd":
		m := cs.R
		out.class = cs.tallClassOf()
		out.trivial = isDiagonalRect(cs.Base, m, n)
		cu, cv := cs.has("U"), cs.has("V")
		if !finish(exec()) {
			return
		}
		S, U, V := s.M1, s.M2, s.M3
		defer s.checkSupplied(f)
		checkUBV(f, A, S, U, V, cu, cv, "diagonal", func(i, j int) bool { return i != j }, cs)
		if S != nil && len(*f) == 0 && cs.Exp2 == 0 {
			s := get(S)
			var sv []float64
			for i := 0; i < n; i++ {
				if s.At(i, i) < -tol {
					f.add("negative-singular-value", "S[%d,%d]=%.6g", i, i, s.At(i, i))
				}
				sv = append(sv, math.Abs(s.At(i, i)))
			}
			sort.Float64s(sv)
			ref, rerr := singularRef(cs.Base, m, n)
			if rerr != nil {
				out.harnessE = rerr.Error()
				return
			}
			for i := range sv {
				if math.Abs(sv[i]-ref[i]) > 10*tol {
					f.add("singular-values", "singular values %v, exact %v", sv, ref)
					break
				}
			}
		}
	// ------------------------------------------------------------------ tridiagonalisation
	case "tridiag":
		out.class = symClass(cs.Base, n, lat.IsSPD(cs.Base, n))
		out.trivial = isTridiagonal(cs.Base, n)
		cu := cs.has("U")
		if !finish(exec()) {
			return
		}
		T, U := s.M1, s.M2
		defer s.checkSupplied(f)
		checkUMU(f, A, T, U, cu, "tridiagonal", func(i, j int) bool { return i > j+1 || j > i+1 }, true, cs)
	// ------------------------------------------------------------------ hessenberg
	case "hessenberg":
		sp, serr := spectrum(cs.Base, n)
		if serr != nil {
			out.harnessE = serr.Error()
			return
		}
		out.class = sqClass(cs, &sp)
		out.trivial = isHessenberg(cs.Base, n)
		cu := cs.has("U")
		setZero := !cs.has("SetZero=false")
		if !finish(exec()) {
			return
		}
		H, U := s.M1, s.M2
		defer s.checkSupplied(f)
		checkUMU(f, A, H, U, cu, "hessenberg", func(i, j int) bool { return i > j+1 }, setZero, cs)
	// ------------------------------------------------------------------ QR algorithm
	case "qrAlgorithm":
		sp, serr := spectrum(cs.Base, n)
		if serr != nil {
			out.harnessE = serr.Error()
			return
		}
		out.class = sqClass(cs, &sp)
		out.trivial = isUpperTriangular(cs.Base, n, n)
		cu, sym := cs.has("U"), cs.has("Sym")
		if !finish(exec()) {
			return
		}
		T, U := s.M1, s.M2
		defer s.checkSupplied(f)
		if T == nil {
			f.add("nil-factor", "Schur factor nil without error")
			return
		}
		if cu != (U != nil) {
			f.add("factor-presence", "ComputeU=%v but U nil=%v", cu, U == nil)
		}
		var up *lat.Mat
		if U != nil {
			u := get(U)
			up = &u
		}
		checkSchur(f, A, get(T), up, &sp, sym, graded)
	// ------------------------------------------------------------------ eigensystem
	case "eigensystem":
		sp, serr := spectrum(cs.Base, n)
		if serr != nil {
			out.harnessE = serr.Error()
			return
		}
		out.class = sqClass(cs, &sp)
		out.trivial = isUpperTriangular(cs.Base, n, n)
		vec := !cs.has("Vec=false")
		if !finish(exec()) {
			return
		}
		ev, V := s.vec, s.M1
		defer s.checkSupplied(f)
		if ev == nil {
			f.add("nil-factor", "eigenvalue vector nil without error")
			return
		}
		if vec != (V != nil) {
			f.add("factor-presence", "ComputeEigenvectors=%v but eigenvector matrix nil=%v", vec, V == nil)
		}
		var vp *lat.Mat
		if V != nil {
			v := get(V)
			vp = &v
		}
		// the 2x2 diagonal blocks that the plain QR algorithm leaves for this input: numerically
		// complex ones (negative discriminant) and ones with real eigenvalues, which a real
		// Schur form must not contain
		splitWith := func(qargs ...interface{}) (cplx, real bool) {
			var T ad.Matrix
			pan, over := protect(bud, func() { T, _, _ = qrAlgorithm.Run(mk(e, A), qargs...) })
			if pan != nil || over || T == nil {
				return
			}
			tm := get(T)
			for i := 0; i+1 < n; i++ {
				if tm.At(i+1, i) != 0 {
					if discNonNegative(tm.At(i, i), tm.At(i, i+1), tm.At(i+1, i), tm.At(i+1, i+1)) {
						real = true
					} else {
						cplx = true
					}
				}
			}
			return
		}
		// with the default epsilon and with the epsilon of the case (eigensystem may or may not
		// forward it). A complex block only decides whether a failing eigenvector check on a
		// repeated root is skipped; a real block names the cause of a failing eigenvector check
		// (the Schur form is not one) and is never a reason to skip
		split := func() (bool, bool) {
			c1, r1 := splitWith()
			if cs.has("Eps") {
				c2, r2 := splitWith(qrAlgorithm.Epsilon{Value: 1e-12})
				c1, r1 = c1 || c2, r1 || r2
			}
			if wantsSym(cs.Opts) {
				r1 = false
			}
			return c1, r1
		}
		checkEigen(f, A, getVec(ev), vp, &sp, graded, split, &out.skipped)
	// ------------------------------------------------------------------ msqrt / msqrtInv
	case "msqrt", "msqrtInv":
		out.class = symClass(cs.Base, n, true)
		out.trivial = isIdentity(cs.Base, n)
		var X ad.Matrix
		var err error
		pan, over := protect(bud, func() {
			if cs.Routine == "msqrt" {
				X, err = msqrt.Run(a)
			} else {
				X, err = msqrtInv.Run(a)
			}
		})
		if !finish(pan, over, err) {
			return
		}
		if X == nil {
			f.add("nil-factor", "result nil without error")
			return
		}
		x := get(X)
		if x.R != n || x.C != n {
			f.add("shape", "result is %dx%d", x.R, x.C)
			return
		}
		// iterative methods with a fixed stopping rule: a looser, still tight tolerance
		itTol := 1e-7 * scale
		if cs.Routine == "msqrt" {
			if d := lat.Fro(lat.Sub(lat.Mul(x, x), A)); !(d <= itTol) {
				f.add("reconstruction", "‖X·X−A‖=%.3g (tol %.3g)", d, itTol)
			}
		} else {
			if d := lat.Fro(lat.Sub(lat.Mul(lat.Mul(x, A), x), lat.Eye(n))); !(d <= itTol) {
				f.add("reconstruction", "‖X·A·X−I‖=%.3g (tol %.3g)", d, itTol)
			}
		}
	default:
		out.harnessE = "unknown routine " + cs.Routine
	}
	return
}

var verifrtLast int64

// checkUBV: A = U·M·Vᵀ with orthogonal U (m×m), V (n×n) and M (m×n) zero where zeroAt says so.
func checkUBV(f *fails, A lat.Mat, M, U, V ad.Matrix, cu, cv bool, name string, zeroAt func(i, j int) bool, cs *Case) {
	m, n := A.R, A.C
	tol := relTol * scaleOf(A)
	if M == nil {
		f.add("nil-factor", "middle factor nil without error")
		return
	}
	if cu != (U != nil) || cv != (V != nil) {
		f.add("factor-presence", "ComputeU=%v ComputeV=%v but U nil=%v, V nil=%v", cu, cv, U == nil, V == nil)
	}
	b := get(M)
	if b.R != m || b.C != n {
		f.add("shape", "middle factor is %dx%d for %dx%d input", b.R, b.C, m, n)
		return
	}
	if !lat.Finite(b) {
		f.add("nonfinite", "middle factor has non-finite entries %v", b.V)
		return
	}
	if v := maxWhere(b, zeroAt); v > tol {
		f.add("structure-"+name, "middle factor is not %s: stray entry %.3g (tol %.3g)", name, v, tol)
	}
	if d := math.Abs(lat.Fro(b) - lat.Fro(A)); !(d <= tol) {
		f.add("norm-invariance", "‖middle‖_F=%.12g but ‖A‖_F=%.12g", lat.Fro(b), lat.Fro(A))
	}
	var u, v lat.Mat
	if U != nil {
		u = get(U)
		if u.R != m || u.C != m {
			f.add("shape", "U is %dx%d, expected %dx%d", u.R, u.C, m, m)
			return
		}
		if d := lat.OrthoDefect(u); !(d <= 10*relTol) {
			f.add("orthogonality-U", "‖UᵀU−I‖=%.3g", d)
		}
	}
	if V != nil {
		v = get(V)
		if v.R != n || v.C != n {
			f.add("shape", "V is %dx%d, expected %dx%d", v.R, v.C, n, n)
			return
		}
		if d := lat.OrthoDefect(v); !(d <= 10*relTol) {
			f.add("orthogonality-V", "‖VᵀV−I‖=%.3g", d)
		}
	}
	switch {
	case U != nil && V != nil:
		if d := lat.Fro(lat.Sub(lat.Mul(lat.Mul(u, b), lat.T(v)), A)); !(d <= tol) {
			f.add("reconstruction", "‖U·M·Vᵀ−A‖=%.3g (tol %.3g)", d, tol)
		}
	case U != nil:
		// Uᵀ·A = M·Vᵀ  ⇒  (UᵀA)(UᵀA)ᵀ = M·Mᵀ
		x := lat.Mul(lat.T(u), A)
		if d := lat.Fro(lat.Sub(lat.Mul(x, lat.T(x)), lat.Mul(b, lat.T(b)))); !(d <= tol*scaleOf(A)) {
			f.add("reconstruction", "‖(UᵀA)(UᵀA)ᵀ−M·Mᵀ‖=%.3g", d)
		}
	case V != nil:
		// A·V = U·M  ⇒  (AV)ᵀ(AV) = MᵀM
		x := lat.Mul(A, v)
		if d := lat.Fro(lat.Sub(lat.Mul(lat.T(x), x), lat.Mul(lat.T(b), b))); !(d <= tol*scaleOf(A)) {
			f.add("reconstruction", "‖(AV)ᵀ(AV)−MᵀM‖=%.3g", d)
		}
	default:
		// MᵀM must be orthogonally similar to AᵀA: compare the invariants trace(G^k)
		ga, gb := lat.Mul(lat.T(A), A), lat.Mul(lat.T(b), b)
		pa, pb := ga.Clone(), gb.Clone()
		s := scaleOf(A) * scaleOf(A)
		for k := 1; k <= n; k++ {
			ta, tb := 0.0, 0.0
			for i := 0; i < n; i++ {
				ta += pa.At(i, i)
				tb += pb.At(i, i)
			}
			if !(math.Abs(ta-tb) <= relTol*math.Pow(s, float64(k))*10) {
				f.add("reconstruction", "trace((MᵀM)^%d)=%.12g but trace((AᵀA)^%d)=%.12g", k, tb, k, ta)
				break
			}
			pa, pb = lat.Mul(pa, ga), lat.Mul(pb, gb)
		}
	}
}

// checkUMU: A = U·M·Uᵀ with orthogonal U and M zero where zeroAt says so.
func checkUMU(f *fails, A lat.Mat, M, U ad.Matrix, cu bool, name string, zeroAt func(i, j int) bool, exactZero bool, cs *Case) {
	n := A.R
	tol := relTol * scaleOf(A)
	if M == nil {
		f.add("nil-factor", "middle factor nil without error")
		return
	}
	if cu != (U != nil) {
		f.add("factor-presence", "ComputeU=%v but U nil=%v", cu, U == nil)
	}
	h := get(M)
	if h.R != n || h.C != n {
		f.add("shape", "middle factor is %dx%d", h.R, h.C)
		return
	}
	if !lat.Finite(h) {
		f.add("nonfinite", "middle factor has non-finite entries %v", h.V)
		return
	}
	zt := tol
	if exactZero {
		zt = 0
	}
	if v := maxWhere(h, zeroAt); v > zt {
		f.add("structure-"+name, "middle factor is not %s: stray entry %.3g (tol %.3g)", name, v, zt)
	}
	if U != nil {
		u := get(U)
		if u.R != n || u.C != n {
			f.add("shape", "U is %dx%d", u.R, u.C)
			return
		}
		if d := lat.OrthoDefect(u); !(d <= 10*relTol) {
			f.add("orthogonality-U", "‖UᵀU−I‖=%.3g", d)
		}
		if d := lat.Fro(lat.Sub(lat.Mul(lat.Mul(u, h), lat.T(u)), A)); !(d <= tol) {
			f.add("reconstruction", "‖U·M·Uᵀ−A‖=%.3g (tol %.3g)", d, tol)
		}
		return
	}
	// no U: similarity invariants trace(M^k) = trace(A^k), ‖M‖_F = ‖A‖_F
	if d := math.Abs(lat.Fro(h) - lat.Fro(A)); !(d <= tol) {
		f.add("norm-invariance", "‖middle‖_F=%.12g but ‖A‖_F=%.12g", lat.Fro(h), lat.Fro(A))
	}
	pa, pb := A.Clone(), h.Clone()
	s := scaleOf(A)
	for k := 1; k <= n; k++ {
		ta, tb := 0.0, 0.0
		for i := 0; i < n; i++ {
			ta += pa.At(i, i)
			tb += pb.At(i, i)
		}
		if !(math.Abs(ta-tb) <= relTol*math.Pow(s, float64(k))*10) {
			f.add("reconstruction", "trace(M^%d)=%.12g but trace(A^%d)=%.12g", k, tb, k, ta)
			break
		}
		pa, pb = lat.Mul(pa, A), lat.Mul(pb, h)
	}
}

// sufficientlyPD: Gill–Murray–Wright's criterion evaluated on the exact LDLᵀ recurrences of
// A (reference side only) with a safety factor 2: every pivot d_j >= 2·max((θ_j/β)², δ).
func sufficientlyPD(A lat.Mat) bool {
	n := A.R
	gamma, xi := 0.0, 0.0
	for i := 0; i < n; i++ {
		for j := 0; j < n; j++ {
			v := math.Abs(A.At(i, j))
			if i == j {
				gamma = math.Max(gamma, v)
			} else {
				xi = math.Max(xi, v)
			}
		}
	}
	nu := math.Max(1, math.Sqrt(float64(n*n-1)))
	beta2 := math.Max(math.Max(gamma, xi/nu), 1e-12)
	l := lat.New(n, n)
	d := make([]float64, n)
	for j := 0; j < n; j++ {
		c := A.At(j, j)
		for k := 0; k < j; k++ {
			c -= l.At(j, k) * l.At(j, k) * d[k]
		}
		theta := 0.0
		cij := make([]float64, n)
		for i := j + 1; i < n; i++ {
			s := A.At(i, j)
			for k := 0; k < j; k++ {
				s -= l.At(i, k) * l.At(j, k) * d[k]
			}
			cij[i] = s
			theta = math.Max(theta, math.Abs(s))
		}
		if !(c >= 2*math.Max(theta*theta/beta2, 1e-6)) {
			return false
		}
		d[j] = c
		l.Set(j, j, 1)
		for i := j + 1; i < n; i++ {
			l.Set(i, j, cij[i]/c)
		}
	}
	return true
}

// ---- structural classes (reference side) -------------------------------------------------

func isZero(a []int) bool {
	for _, v := range a {
		if v != 0 {
			return false
		}
	}
	return true
}
func isDiagonal(a []int, n int) bool { return isDiagonalRect(a, n, n) }
func isDiagonalRect(a []int, m, n int) bool {
	for i := 0; i < m; i++ {
		for j := 0; j < n; j++ {
			if i != j && a[i*n+j] != 0 {
				return false
			}
		}
	}
	return true
}
func isIdentity(a []int, n int) bool {
	if !isDiagonal(a, n) {
		return false
	}
	for i := 0; i < n; i++ {
		if a[i*n+i] != 1 {
			return false
		}
	}
	return true
}
func isUpperTriangular(a []int, m, n int) bool {
	for i := 0; i < m; i++ {
		for j := 0; j < n && j < i; j++ {
			if a[i*n+j] != 0 {
				return false
			}
		}
	}
	return true
}
func isBidiagonal(a []int, m, n int) bool {
	for i := 0; i < m; i++ {
		for j := 0; j < n; j++ {
			if j != i && j != i+1 && a[i*n+j] != 0 {
				return false
			}
		}
	}
	return true
}
func isTridiagonal(a []int, n int) bool {
	for i := 0; i < n; i++ {
		for j := 0; j < n; j++ {
			if (i > j+1 || j > i+1) && a[i*n+j] != 0 {
				return false
			}
		}
	}
	return true
}
func isHessenberg(a []int, n int) bool {
	for i := 0; i < n; i++ {
		for j := 0; j+1 < i; j++ {
			if a[i*n+j] != 0 {
				return false
			}
		}
	}
	return true
}

func sizeTag(n int) string {
	if n == 1 {
		return "n=1/"
	}
	return ""
}

func symClass(a []int, n int, spd bool) string {
	switch {
	case isZero(a):
		return sizeTag(n) + "zero-matrix"
	case spd && isDiagonal(a, n):
		return sizeTag(n) + "spd-diagonal"
	case spd:
		return sizeTag(n) + "spd"
	}
	// semidefinite?
	if lat.IsSymmetric(a, n) {
		sp, err := spectrum(a, n)
		if err == nil {
			neg, zero := false, false
			for _, r := range sp.Roots {
				if r.Re < -1e-9 {
					neg = true
				}
				if math.Abs(r.Re) <= 1e-9 {
					zero = true
				}
			}
			if !neg && zero {
				return sizeTag(n) + "psd-singular"
			}
			if sp.MaxMult() > 1 {
				return sizeTag(n) + "indefinite-repeated-eigenvalue"
			}
		}
	}
	return sizeTag(n) + "indefinite"
}

func tallClass(a []int, m, n int) string {
	tag := sizeTag(n)
	if isZero(a) {
		return tag + "zero-matrix"
	}
	for j := 0; j < n; j++ {
		z := true
		for i := 0; i < m; i++ {
			if a[i*n+j] != 0 {
				z = false
			}
		}
		if z {
			return tag + "zero-column"
		}
	}
	if lat.GramDet(a, m, n) == 0 {
		return tag + "rank-deficient"
	}
	return tag + "full-rank"
}

func sqClass(cs *Case, sp *lat.Spectrum) string {
	tag := sizeTag(cs.C)
	if cs.Graded != 0 {
		tag += "graded/"
	}
	if isZero(cs.Base) {
		return tag + "zero-matrix"
	}
	c := spectrumClass(*sp)
	if lat.IsSymmetric(cs.Base, cs.C) {
		return tag + "symmetric/" + c
	}
	return tag + c
}

func optName(o string) string {
	if o == "" {
		return "default"
	}
	return o
}
