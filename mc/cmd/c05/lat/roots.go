package lat

import (
	"fmt"
	"math"
	"math/big"
	"math/cmplx"
	"sort"
)

// Root is one distinct root of an integer polynomial with its exact multiplicity.
type Root struct {
	Re, Im float64 // Im >= 0; conjugate is implied when Im > 0
	Mult   int
}

// Spectrum is the exact root structure of a characteristic polynomial.
type Spectrum struct {
	Roots []Root // distinct roots (one entry per conjugate pair), sorted by Re then Im
	N     int
}

// RealParts lists the real part of every eigenvalue (with multiplicity; both members of a
// conjugate pair), together with the multiplicity of the distinct root it stems from and
// whether it is a real root.
type Part struct {
	Re   float64
	Mult int
	Real bool
}

func (s Spectrum) Parts() []Part {
	var p []Part
	for _, r := range s.Roots {
		k := r.Mult
		if r.Im > 0 {
			k *= 2
		}
		for i := 0; i < k; i++ {
			p = append(p, Part{r.Re, r.Mult, r.Im == 0})
		}
	}
	sort.Slice(p, func(i, j int) bool { return p[i].Re < p[j].Re })
	return p
}

func (s Spectrum) MaxMult() int {
	m := 1
	for _, r := range s.Roots {
		if r.Mult > m {
			m = r.Mult
		}
	}
	return m
}

func (s Spectrum) NumComplexPairs() int {
	c := 0
	for _, r := range s.Roots {
		if r.Im > 0 {
			c += r.Mult
		}
	}
	return c
}

// ---- rational polynomials ---------------------------------------------------------

type poly []*big.Rat // p[i] coefficient of x^i, no trailing zeros (zero poly = empty)

func trim(p poly) poly {
	for len(p) > 0 && p[len(p)-1].Sign() == 0 {
		p = p[:len(p)-1]
	}
	return p
}

func pderiv(p poly) poly {
	if len(p) <= 1 {
		return nil
	}
	d := make(poly, len(p)-1)
	for i := 1; i < len(p); i++ {
		d[i-1] = new(big.Rat).Mul(p[i], big.NewRat(int64(i), 1))
	}
	return trim(d)
}

// pdivmod returns quotient and remainder.
func pdivmod(a, b poly) (poly, poly) {
	a = append(poly{}, a...)
	for i := range a {
		a[i] = new(big.Rat).Set(a[i])
	}
	if len(b) == 0 {
		panic("division by zero polynomial")
	}
	if len(a) < len(b) {
		return nil, trim(a)
	}
	q := make(poly, len(a)-len(b)+1)
	for i := range q {
		q[i] = new(big.Rat)
	}
	lb := b[len(b)-1]
	for k := len(a) - len(b); k >= 0; k-- {
		c := new(big.Rat).Quo(a[k+len(b)-1], lb)
		q[k] = c
		for j := range b {
			t := new(big.Rat).Mul(c, b[j])
			a[k+j].Sub(a[k+j], t)
		}
	}
	return trim(q), trim(a[:len(b)-1])
}

func pmonic(p poly) poly {
	if len(p) == 0 {
		return p
	}
	l := p[len(p)-1]
	r := make(poly, len(p))
	for i := range p {
		r[i] = new(big.Rat).Quo(p[i], l)
	}
	return r
}

func pgcd(a, b poly) poly {
	for len(b) > 0 {
		_, r := pdivmod(a, b)
		a, b = b, r
	}
	return pmonic(a)
}

// squarefree (Yun): p = prod_k f_k^k with f_k squarefree and pairwise coprime.
func squarefree(p poly) []poly {
	p = pmonic(p)
	var out []poly
	d := pderiv(p)
	a := pgcd(p, d)
	b, _ := pdivmod(p, a)
	c, _ := pdivmod(d, a)
	for {
		// d = c - b'
		bd := pderiv(b)
		dd := make(poly, max(len(c), len(bd)))
		for i := range dd {
			dd[i] = new(big.Rat)
			if i < len(c) {
				dd[i].Add(dd[i], c[i])
			}
			if i < len(bd) {
				dd[i].Sub(dd[i], bd[i])
			}
		}
		dd = trim(dd)
		if len(b) <= 1 {
			break
		}
		var f poly
		if len(dd) == 0 {
			f = pmonic(b)
			out = append(out, f)
			break
		}
		f = pgcd(b, dd)
		out = append(out, f)
		b, _ = pdivmod(b, f)
		c, _ = pdivmod(dd, f)
	}
	return out
}

func pfloat(p poly) []float64 {
	r := make([]float64, len(p))
	for i := range p {
		r[i], _ = p[i].Float64()
	}
	return r
}

// simpleRoots: all complex roots of a squarefree real polynomial (Durand–Kerner with
// Newton polishing); ok=false if it did not converge.
func simpleRoots(c []float64) ([]complex128, bool) {
	n := len(c) - 1
	if n <= 0 {
		return nil, true
	}
	lead := c[n]
	a := make([]complex128, n+1)
	for i := range c {
		a[i] = complex(c[i]/lead, 0)
	}
	eval := func(z complex128) complex128 {
		s := complex(0, 0)
		for i := n; i >= 0; i-- {
			s = s*z + a[i]
		}
		return s
	}
	deval := func(z complex128) complex128 {
		s := complex(0, 0)
		for i := n; i >= 1; i-- {
			s = s*z + a[i]*complex(float64(i), 0)
		}
		return s
	}
	bound := 1.0
	for i := 0; i < n; i++ {
		if v := cmplx.Abs(a[i]); v+1 > bound {
			bound = v + 1
		}
	}
	z := make([]complex128, n)
	for i := range z {
		z[i] = cmplx.Rect(bound*0.7, 0.4+2*math.Pi*float64(i)/float64(n))
	}
	for it := 0; it < 2000; it++ {
		delta := 0.0
		for i := range z {
			den := complex(1, 0)
			for j := range z {
				if j != i {
					den *= z[i] - z[j]
				}
			}
			if den == 0 {
				den = complex(1e-30, 0)
			}
			w := eval(z[i]) / den
			z[i] -= w
			delta += cmplx.Abs(w)
		}
		if delta < 1e-15*bound {
			break
		}
	}
	for i := range z {
		for it := 0; it < 5; it++ {
			d := deval(z[i])
			if d == 0 {
				break
			}
			z[i] -= eval(z[i]) / d
		}
	}
	// validate: reconstructed coefficients
	rec := []complex128{1}
	for _, r := range z {
		nx := make([]complex128, len(rec)+1)
		for i, v := range rec {
			nx[i+1] += v
			nx[i] -= v * r
		}
		rec = nx
	}
	for i := 0; i <= n; i++ {
		if cmplx.Abs(rec[i]-a[i]) > 1e-9*(1+cmplx.Abs(a[i]))*math.Pow(bound, float64(n-i)) {
			return z, false
		}
	}
	return z, true
}

// SpectrumOf computes the exact root structure of the monic integer polynomial with
// coefficients c (c[i] for x^i). The multiplicities are exact (rational squarefree
// decomposition); the root values are accurate to ~1e-13 (simple roots of the factors).
func SpectrumOf(c []int64) (Spectrum, error) {
	n := len(c) - 1
	sp := Spectrum{N: n}
	if n <= 0 {
		return sp, nil
	}
	p := make(poly, len(c))
	for i, v := range c {
		p[i] = big.NewRat(v, 1)
	}
	fs := squarefree(p)
	total := 0
	for k, f := range fs {
		mult := k + 1
		if len(f) <= 1 {
			continue
		}
		zs, ok := simpleRoots(pfloat(f))
		if !ok {
			return sp, fmt.Errorf("root finder did not converge for %v", c)
		}
		// pair conjugates
		used := make([]bool, len(zs))
		for i, z := range zs {
			if used[i] {
				continue
			}
			used[i] = true
			if math.Abs(imag(z)) < 1e-9*(1+cmplx.Abs(z)) {
				sp.Roots = append(sp.Roots, Root{real(z), 0, mult})
				total += mult
				continue
			}
			// find conjugate
			best, bd := -1, math.Inf(1)
			for j, w := range zs {
				if !used[j] {
					if d := cmplx.Abs(w - cmplx.Conj(z)); d < bd {
						best, bd = j, d
					}
				}
			}
			if best < 0 || bd > 1e-8*(1+cmplx.Abs(z)) {
				return sp, fmt.Errorf("unpaired complex root for %v", c)
			}
			used[best] = true
			sp.Roots = append(sp.Roots, Root{real(z), math.Abs(imag(z)), mult})
			total += 2 * mult
		}
	}
	if total != n {
		return sp, fmt.Errorf("root count %d != degree %d for %v", total, n, c)
	}
	sort.Slice(sp.Roots, func(i, j int) bool {
		if sp.Roots[i].Re != sp.Roots[j].Re {
			return sp.Roots[i].Re < sp.Roots[j].Re
		}
		return sp.Roots[i].Im < sp.Roots[j].Im
	})
	return sp, nil
}
