package lat

import (
	"math"
	"math/big"
)

// Exact / independent reference for the conditioning of an integer matrix N (m×n, m>=n,
// entries up to ~2^27): the Gram matrix NᵀN and its characteristic polynomial are computed
// exactly in big.Int (Faddeev–LeVerrier), the smallest eigenvalue is then approached FROM
// BELOW by Newton's iteration started at 0 in 1024-bit floating point (all roots of the
// characteristic polynomial of a Gram matrix are real and >= 0, so the iterates increase
// monotonically and never pass the smallest root). The returned bound therefore satisfies
//
//	SigmaMinLower(N) <= sigma_min(N)   and   >= sigma_min(N)/sqrt(n) after the first step,
//
// so CondUpper(N) = ‖N‖_F / SigmaMinLower(N) is an upper bound of cond_2(N) that is tight up
// to a factor ~sqrt(n). Both are invariant under a common scaling of N by a power of two.

// GramBig returns NᵀN (n×n) exactly.
func GramBig(a []int, m, n int) []*big.Int {
	g := make([]*big.Int, n*n)
	for i := 0; i < n; i++ {
		for j := 0; j < n; j++ {
			s := new(big.Int)
			for k := 0; k < m; k++ {
				t := new(big.Int).Mul(big.NewInt(int64(a[k*n+i])), big.NewInt(int64(a[k*n+j])))
				s.Add(s, t)
			}
			g[i*n+j] = s
		}
	}
	return g
}

// CharPolyBig: coefficients c[0..n] of det(xI-G) for an n×n big.Int matrix (exact).
func CharPolyBig(G []*big.Int, n int) []*big.Int {
	c := make([]*big.Int, n+1)
	c[n] = big.NewInt(1)
	M := make([]*big.Int, n*n)
	for i := range M {
		M[i] = new(big.Int)
	}
	for i := 0; i < n; i++ {
		M[i*n+i].SetInt64(1)
	}
	for k := 1; k <= n; k++ {
		AM := make([]*big.Int, n*n)
		tr := new(big.Int)
		for i := 0; i < n; i++ {
			for j := 0; j < n; j++ {
				s := new(big.Int)
				for l := 0; l < n; l++ {
					s.Add(s, new(big.Int).Mul(G[i*n+l], M[l*n+j]))
				}
				AM[i*n+j] = s
			}
			tr.Add(tr, AM[i*n+i])
		}
		ck := new(big.Int).Neg(tr)
		ck.Quo(ck, big.NewInt(int64(k))) // exact division
		c[n-k] = ck
		for i := 0; i < n; i++ {
			AM[i*n+i].Add(AM[i*n+i], ck)
		}
		M = AM
	}
	return c
}

// SigmaMinLower: see above; 0 when N is rank deficient (exact test det(NᵀN) == 0).
func SigmaMinLower(a []int, m, n int) float64 {
	if n == 0 {
		return 0
	}
	c := CharPolyBig(GramBig(a, m, n), n)
	if c[0].Sign() == 0 {
		return 0
	}
	const prec = 1024
	cf := make([]*big.Float, n+1)
	for i := range c {
		cf[i] = new(big.Float).SetPrec(prec).SetInt(c[i])
	}
	x := new(big.Float).SetPrec(prec)
	for it := 0; it < 80; it++ {
		p := new(big.Float).SetPrec(prec)
		d := new(big.Float).SetPrec(prec)
		for i := n; i >= 0; i-- {
			// d = d*x + p ; p = p*x + c_i
			d.Mul(d, x)
			d.Add(d, p)
			p.Mul(p, x)
			p.Add(p, cf[i])
		}
		if d.Sign() == 0 || p.Sign() == 0 {
			break
		}
		step := new(big.Float).SetPrec(prec).Quo(p, d)
		step.Neg(step)
		if step.Sign() <= 0 {
			break // cannot happen left of the smallest root; stay on the safe side
		}
		x.Add(x, step)
		r := new(big.Float).SetPrec(prec).Quo(step, x)
		if rf, _ := r.Float64(); rf < 1e-6 {
			break
		}
	}
	// a safety margin of one part in 1e3 keeps the value a lower bound after rounding to float64
	xf, _ := x.Float64()
	return math.Sqrt(xf) * (1 - 1e-3)
}

// CondUpper returns an upper bound of cond_2 of the integer matrix (+Inf if rank deficient).
func CondUpper(a []int, m, n int) float64 {
	s := SigmaMinLower(a, m, n)
	if s == 0 {
		return math.Inf(1)
	}
	f := 0.0
	for _, v := range a {
		f += float64(v) * float64(v)
	}
	return math.Sqrt(f) / s
}
