// Package lat: pure-Go helpers shared by the C05 and C20 harnesses. Nothing in here
// touches the autodiff API: integer matrix lattices (simplest-first enumeration), plain
// float64 matrix arithmetic used by the oracles (so that an oracle never relies on the
// library's own MdotM), and the exact integer/rational reference computations
// (determinants, Sylvester test, characteristic polynomial, root multiplicities).
package lat

import (
	"math"
)

// E5 and E3 are the entry alphabets, ordered simplest first.
var E5 = []int{0, 1, -1, 2, -2}
var E3 = []int{0, 1, -1}
var E2 = []int{0, 1}

// Pow returns b^e for small non-negative e.
func Pow(b, e int) int64 {
	r := int64(1)
	for i := 0; i < e; i++ {
		r *= int64(b)
	}
	return r
}

// Decode returns the idx-th r×c matrix over alphabet E (row major, first entry is the
// fastest digit), index 0 is the zero matrix.
func Decode(idx int64, r, c int, E []int) []int {
	a := make([]int, r*c)
	b := int64(len(E))
	for k := range a {
		a[k] = E[idx%b]
		idx /= b
	}
	return a
}

// DecodeSym returns the idx-th symmetric n×n matrix (upper triangle digits).
func DecodeSym(idx int64, n int, E []int) []int {
	a := make([]int, n*n)
	b := int64(len(E))
	for i := 0; i < n; i++ {
		for j := i; j < n; j++ {
			v := E[idx%b]
			idx /= b
			a[i*n+j] = v
			a[j*n+i] = v
		}
	}
	return a
}

// DecodeStrictUpper returns the idx-th strictly upper triangular n×n {0,1} pattern.
func DecodeStrictUpper(idx int64, n int) []int {
	a := make([]int, n*n)
	for i := 0; i < n; i++ {
		for j := i + 1; j < n; j++ {
			a[i*n+j] = int(idx & 1)
			idx >>= 1
		}
	}
	return a
}

func IsSymmetric(a []int, n int) bool {
	for i := 0; i < n; i++ {
		for j := 0; j < i; j++ {
			if a[i*n+j] != a[j*n+i] {
				return false
			}
		}
	}
	return true
}

// Weight is used to rank witnesses: smaller = simpler.
func Weight(a []int) int64 {
	var s, nz int64
	for _, v := range a {
		if v != 0 {
			nz++
		}
		if v < 0 {
			s += int64(-v)*2 + 1
		} else {
			s += int64(v) * 2
		}
	}
	return int64(len(a))*10000 + s*10 + nz
}

// ---- exact integer linear algebra (n<=4, entries tiny: int64 never overflows) ----

// LeadingMinor returns det(A[0:k,0:k]) of the n×n integer matrix a.
func LeadingMinor(a []int, n, k int) int64 {
	b := make([]int64, k*k)
	for i := 0; i < k; i++ {
		for j := 0; j < k; j++ {
			b[i*k+j] = int64(a[i*n+j])
		}
	}
	return DetInt(b, k)
}

// DetInt: determinant of a k×k int64 matrix (row-major), permutation expansion with signs.
func DetInt(b []int64, k int) int64 {
	if k == 0 {
		return 1
	}
	perm := make([]int, k)
	for i := range perm {
		perm[i] = i
	}
	var total int64
	var rec func(i int, sign int64)
	rec = func(i int, sign int64) {
		if i == k {
			p := sign
			for r := 0; r < k; r++ {
				p *= b[r*k+perm[r]]
				if p == 0 {
					return
				}
			}
			total += p
			return
		}
		for j := i; j < k; j++ {
			perm[i], perm[j] = perm[j], perm[i]
			s := sign
			if j != i {
				s = -s
			}
			rec(i+1, s)
			perm[i], perm[j] = perm[j], perm[i]
		}
	}
	rec(0, 1)
	return total
}

// IsSPD decides positive definiteness of a symmetric integer matrix exactly (Sylvester).
func IsSPD(a []int, n int) bool {
	if !IsSymmetric(a, n) {
		return false
	}
	for k := 1; k <= n; k++ {
		if LeadingMinor(a, n, k) <= 0 {
			return false
		}
	}
	return true
}

// GramDet returns det(AᵀA) for an m×n integer matrix (full column rank iff != 0).
func GramDet(a []int, m, n int) int64 {
	g := make([]int64, n*n)
	for i := 0; i < n; i++ {
		for j := 0; j < n; j++ {
			var s int64
			for k := 0; k < m; k++ {
				s += int64(a[k*n+i]) * int64(a[k*n+j])
			}
			g[i*n+j] = s
		}
	}
	return DetInt(g, n)
}

// Gram returns AᵀA as an integer matrix.
func Gram(a []int, m, n int) []int {
	g := make([]int, n*n)
	for i := 0; i < n; i++ {
		for j := 0; j < n; j++ {
			s := 0
			for k := 0; k < m; k++ {
				s += a[k*n+i] * a[k*n+j]
			}
			g[i*n+j] = s
		}
	}
	return g
}

// CharPoly returns the monic characteristic polynomial det(xI-A) coefficients
// c[0]+c[1]x+...+c[n]x^n by the Faddeev–LeVerrier recurrence (all divisions exact).
func CharPoly(a []int, n int) []int64 {
	A := make([]int64, n*n)
	for i, v := range a {
		A[i] = int64(v)
	}
	c := make([]int64, n+1)
	c[n] = 1
	M := make([]int64, n*n) // M_1 = I
	for i := 0; i < n; i++ {
		M[i*n+i] = 1
	}
	for k := 1; k <= n; k++ {
		// AM = A*M_k
		AM := make([]int64, n*n)
		var tr int64
		for i := 0; i < n; i++ {
			for j := 0; j < n; j++ {
				var s int64
				for l := 0; l < n; l++ {
					s += A[i*n+l] * M[l*n+j]
				}
				AM[i*n+j] = s
			}
			tr += AM[i*n+i]
		}
		c[n-k] = -tr / int64(k)
		for i := 0; i < n; i++ {
			AM[i*n+i] += c[n-k]
		}
		M = AM
	}
	return c
}

// ---- plain float64 matrices for the oracles -------------------------------------

type Mat struct {
	R, C int
	V    []float64
}

func New(r, c int) Mat { return Mat{r, c, make([]float64, r*c)} }

func FromInts(a []int, r, c int) Mat {
	m := New(r, c)
	for i, v := range a {
		m.V[i] = float64(v)
	}
	return m
}

func Eye(n int) Mat {
	m := New(n, n)
	for i := 0; i < n; i++ {
		m.V[i*n+i] = 1
	}
	return m
}

func (m Mat) At(i, j int) float64 { return m.V[i*m.C+j] }
func (m Mat) Set(i, j int, v float64) {
	m.V[i*m.C+j] = v
}
func (m Mat) Clone() Mat {
	return Mat{m.R, m.C, append([]float64{}, m.V...)}
}

func Mul(a, b Mat) Mat {
	if a.C != b.R {
		panic("lat.Mul: shapes")
	}
	r := New(a.R, b.C)
	for i := 0; i < a.R; i++ {
		for j := 0; j < b.C; j++ {
			s := 0.0
			for k := 0; k < a.C; k++ {
				s += a.V[i*a.C+k] * b.V[k*b.C+j]
			}
			r.V[i*b.C+j] = s
		}
	}
	return r
}

func T(a Mat) Mat {
	r := New(a.C, a.R)
	for i := 0; i < a.R; i++ {
		for j := 0; j < a.C; j++ {
			r.V[j*a.R+i] = a.V[i*a.C+j]
		}
	}
	return r
}

func Sub(a, b Mat) Mat {
	if a.R != b.R || a.C != b.C {
		panic("lat.Sub: shapes")
	}
	r := New(a.R, a.C)
	for i := range r.V {
		r.V[i] = a.V[i] - b.V[i]
	}
	return r
}

// Fro is the Frobenius norm; NaN/Inf entries give +Inf so that every "<= tol" test fails.
func Fro(a Mat) float64 {
	s := 0.0
	for _, v := range a.V {
		if math.IsNaN(v) || math.IsInf(v, 0) {
			return math.Inf(1)
		}
		s += v * v
	}
	return math.Sqrt(s)
}

func Finite(a Mat) bool {
	for _, v := range a.V {
		if math.IsNaN(v) || math.IsInf(v, 0) {
			return false
		}
	}
	return true
}

// OrthoDefect returns ‖QᵀQ − I‖_F.
func OrthoDefect(q Mat) float64 {
	return Fro(Sub(Mul(T(q), q), Eye(q.C)))
}

// Graded returns D·A·D⁻¹ for D = diag(1, 2^s, 2^(2s), …) (exact in float64).
func Graded(a Mat, s int) Mat {
	r := a.Clone()
	for i := 0; i < a.R; i++ {
		for j := 0; j < a.C; j++ {
			r.V[i*a.C+j] = math.Ldexp(a.V[i*a.C+j], s*(i-j))
		}
	}
	return r
}
