package main

// Histories on one InSitu object and caller-supplied result buffers.
//
// The routines keep work and result matrices in an InSitu object that callers recycle
// (newton.go, the estimators). What a call leaves there - matrices wired into nested InSitu
// objects, result buffers of another option set, stale entries outside the part a routine
// writes - must not influence the next call. Enumerated on small lattices, for every routine
// that takes an InSitu object:
//
//	H0  one call, result buffers allocated by the caller and pre-filled with junk;
//	H1  two calls: every ordered pair (earlier option set, judged option set) x earlier input
//	    (a dense matrix of another class / the same matrix [/ an already reduced one]);
//	    the same with the caller replacing the result buffers before the judged call (Swap);
//	H2  (thorough) three calls.
//
// The judged call is held to exactly the defining equations of a first call.

import (
	"fmt"
	"os"
	"strings"
	"sync"

	"verif/mc/cmd/c05/lat"
)

type histLattice struct {
	name  string
	r, c  int
	count int64
	dec   func(i int64) []int
	skip  func(a []int) bool
	noH2  bool // no three-call histories on this lattice (cost)
}

func histLattices(thorough bool) []histLattice {
	zeroDiag4 := func(a []int) bool {
		for i := 0; i < 4; i++ {
			if a[i*4+i] != 0 {
				return true
			}
		}
		return false
	}
	ls := []histLattice{
		{name: "1x1{-2..2}", r: 1, c: 1, count: 5, dec: func(i int64) []int { return lat.Decode(i, 1, 1, lat.E5) }},
		{name: "2x2{-1,0,1}", r: 2, c: 2, count: lat.Pow(3, 4), dec: func(i int64) []int { return lat.Decode(i, 2, 2, lat.E3) }},
		{name: "3x3{0,1}", r: 3, c: 3, count: lat.Pow(2, 9), dec: func(i int64) []int { return lat.Decode(i, 3, 3, lat.E2) }},
		{name: "3x2{0,1}", r: 3, c: 2, count: lat.Pow(2, 6), dec: func(i int64) []int { return lat.Decode(i, 3, 2, lat.E2) }},
		{name: "3x3spd{-2..2}", r: 3, c: 3, count: lat.Pow(5, 6), dec: func(i int64) []int { return lat.DecodeSym(i, 3, lat.E5) }, skip: func(a []int) bool { return !lat.IsSPD(a, 3) }},
		{name: "4x4sym{0,1} zero diagonal", r: 4, c: 4, count: lat.Pow(2, 10), dec: func(i int64) []int { return lat.DecodeSym(i, 4, lat.E2) }, skip: zeroDiag4},
	}
	if thorough {
		ls = append(ls,
			histLattice{name: "2x2{-2..2}", r: 2, c: 2, count: lat.Pow(5, 4), dec: func(i int64) []int { return lat.Decode(i, 2, 2, lat.E5) }, skip: inE3},
			histLattice{name: "3x3sym{-1,0,1}", r: 3, c: 3, count: lat.Pow(3, 6), dec: func(i int64) []int { return lat.DecodeSym(i, 3, lat.E3) }, skip: func(a []int) bool {
				for _, v := range a {
					if v < 0 {
						return false
					}
				}
				return true
			}},
			histLattice{name: "4x2{0,1}", r: 4, c: 2, count: lat.Pow(2, 8), dec: func(i int64) []int { return lat.Decode(i, 4, 2, lat.E2) }},
			histLattice{name: "4x4sym{0,1}", noH2: true, r: 4, c: 4, count: lat.Pow(2, 10), dec: func(i int64) []int { return lat.DecodeSym(i, 4, lat.E2) }, skip: func(a []int) bool { return !zeroDiag4(a) }},
		)
	}
	return ls
}

// histPlans: option sets of every InSitu-taking routine that are admissible for the matrix.
// all=true: the option sets admissible for the warm-up matrices (symmetric positive definite
// resp. dense of full rank), i.e. the whole alphabet.
func histPlans(base []int, r, c int, all, thorough bool) []plan {
	var ps []plan
	eps := func(toks ...string) []string {
		if thorough {
			toks = append(toks, "Eps")
		}
		return product(toks...)
	}
	if r == c {
		n := r
		sym := all || lat.IsSymmetric(base, n)
		ps = append(ps, plan{"hessenberg", product("U", "SetZero=false")})
		qr := eps("U")
		eig := eps("Vec=false")
		if thorough {
			eig = append(eig, "qrU=false", "qrU,Vec=false")
		}
		if sym {
			qr = append(qr, withTok(eps("U"), "Sym")...)
			e0 := eps("Vec=false")
			eig = append(eig, withTok(e0, "Sym")...)
			eig = append(eig, withTok(e0, "qrSym")...)
			eig = append(eig, withTok(e0, "Sym,qrSym")...)
		}
		ps = append(ps, plan{"qrAlgorithm", qr}, plan{"eigensystem", eig})
		if sym {
			ps = append(ps, plan{"tridiag", eps("U")})
			ch := []string{"LDL,ForcePD"}
			if all || lat.IsSPD(base, n) {
				ch = []string{"", "LDL", "ForcePD", "LDL,ForcePD"}
			}
			ps = append(ps, plan{"cholesky", ch})
		}
	}
	if r >= c {
		if all || lat.GramDet(base, r, c) != 0 {
			ps = append(ps, plan{"gramSchmidt", []string{""}})
		}
		ps = append(ps, plan{"bidiag", product("U", "V")}, plan{"svd", product("U", "V")})
	}
	return ps
}

func addTok(o, tok string) string {
	if o == "" {
		return tok
	}
	return o + "," + tok
}

func runHistories(rn *runner, idx *int64) {
	c := rn.c
	thorough := c.Thorough()
	for _, l := range histLattices(thorough) {
		lname := "histories/buffers on " + l.name
		if f := os.Getenv("C05_LATTICE"); f != "" && f != lname {
			continue
		}
		var done, nH0, nH1, nH2 int64
		for i := int64(0); i < l.count; i++ {
			*idx++
			if !c.Mine(*idx) {
				continue
			}
			if c.Expired() {
				c.Cap("soft deadline reached in " + lname)
				break
			}
			base := l.dec(i)
			if l.skip != nil && l.skip(base) {
				continue
			}
			done++
			rank := lat.Weight(base) + 100000
			over := map[string]bool{}
			cur := histPlans(base, l.r, l.c, false, thorough)
			warm := histPlans(base, l.r, l.c, true, thorough)
			// three-call histories use the quick option alphabets (no Epsilon / ComputeU pass-through)
			cur3 := histPlans(base, l.r, l.c, false, false)
			warm3 := histPlans(base, l.r, l.c, true, false)
			for pi, p := range cur {
				if f := os.Getenv("C05_ROUTINE"); f != "" && f != p.routine {
					continue
				}
				find := func(ps []plan) plan {
					for _, w := range ps {
						if w.routine == p.routine {
							return w
						}
					}
					return plan{}
				}
				wp := find(warm)
				// earlier calls: (option set, input)
				var prev []Step
				for _, o := range wp.opts {
					prev = append(prev, Step{o, "warm"})
				}
				for _, o := range p.opts {
					prev = append(prev, Step{o, "same"})
				}
				if thorough {
					for _, o := range wp.opts {
						prev = append(prev, Step{o, "reduced"})
					}
				}
				k := int64(0)
				do := func(opts string, hist []Step) {
					for ei, e := range elemsFor(p.routine) {
						k++
						cs := &Case{Routine: p.routine, Opts: opts, Elem: e, R: l.r, C: l.c, Base: base, Hist: hist}
						rn.exec(cs, rank+100000*int64(len(hist))+k, over, *idx%257 == 0 && pi == 1 && ei == 0 && k%7 == 1)
					}
				}
				for _, o := range p.opts {
					// H0: caller-allocated result buffers holding junk
					do(addTok(o, "Junk"), nil)
					nH0++
					if thorough {
						do(addTok(o, "JunkNaN"), nil)
						nH0++
					}
					// H1
					for _, st := range prev {
						do(o, []Step{st})
						nH1++
						if st.Input == "warm" {
							do(addTok(o, "Swap"), []Step{st})
							nH1++
						}
					}
				}
				// H2
				if thorough && !l.noH2 {
					c3, w3 := find(cur3), find(warm3)
					for _, o := range c3.opts {
						for _, o1 := range w3.opts {
							for _, o2 := range w3.opts {
								do(o, []Step{{o1, "warm"}, {o2, "warm"}})
								nH2++
							}
							for _, o2 := range c3.opts {
								do(o, []Step{{o1, "warm"}, {o2, "same"}})
								nH2++
							}
						}
					}
				}
			}
		}
		c.Count("matrices:"+lname, done)
		c.Count("configurations(x element types of the routine):junk-filled caller buffers, one call", nH0)
		c.Count("configurations(x element types of the routine):two-call histories", nH1)
		if thorough {
			c.Count("configurations(x element types of the routine):three-call histories", nH2)
		}
	}
}

// ---- keys of history cases ---------------------------------------------------------------

func (cs *Case) optLabel() string {
	if len(cs.Hist) == 0 {
		return optName(cs.Opts)
	}
	var hs []string
	for _, st := range cs.Hist {
		hs = append(hs, optName(st.Opts)+"@"+st.Input)
	}
	return "after(" + strings.Join(hs, ";") + ")then(" + optName(cs.Opts) + ")"
}

var histMemoMu sync.Mutex
var histMemo = map[string][3]string{}

// minimiseHist coarsens the key of a failing history case: if the judged call fails in the same
// way as a first call on a fresh object, the key is that of the plain case; otherwise earlier
// calls, option tokens of the judged call and of the earlier calls are dropped and inputs are
// replaced by the warm-up matrix as long as the same failure remains. The result is memoised
// per configuration (routine, options, history, element type, class, failure): one defect
// gives a handful of keys. A failure of the buffer handling that also shows when the judged
// input is replaced by the fixed warm-up matrix does not depend on the input: its class is
// reported as "any-input".
func minimiseHist(cs *Case, class, what string) (string, string, string) {
	mk := fmt.Sprintf("%s|%s|%s|%s|%s", cs.Routine, cs.optLabel(), cs.Elem, class, what)
	histMemoMu.Lock()
	r, ok := histMemo[mk]
	histMemoMu.Unlock()
	if ok {
		return r[0], r[1], r[2]
	}
	fails := func(t *Case) bool {
		out := runCase(t, budgetStage1(max(cs.R, cs.C)))
		for _, f := range out.fails {
			if f.what == what {
				return true
			}
		}
		return false
	}
	dropTok := func(opts string, i int) string {
		toks := strings.Split(opts, ",")
		return strings.Join(append(append([]string{}, toks[:i]...), toks[i+1:]...), ",")
	}
	ntok := func(opts string) int {
		if opts == "" {
			return 0
		}
		return len(strings.Split(opts, ","))
	}
	cur := *cs
	cur.Hist = append([]Step{}, cs.Hist...)
	// a first call on a fresh object fails alike: not a history defect
	// (replacing the result buffers before the judged call corresponds to a first call with
	// caller-allocated junk-filled buffers)
	plain := cur
	plain.Hist = nil
	if hasTok(plain.Opts, "Swap") {
		toks := strings.Split(plain.Opts, ",")
		for i, t := range toks {
			if t == "Swap" {
				toks[i] = "Junk"
			}
		}
		plain.Opts = strings.Join(toks, ",")
	}
	var o, e string
	if len(cs.Hist) == 0 {
		o, e = minimise(&cur, what)
		o = optName(o)
	} else if fails(&plain) {
		o, e = minimise(&plain, what)
		o = optName(o)
		// a first-call failure seen through a history: key of the first call
		cur = plain
	} else {
		// drop earlier calls
		for i := 0; i < len(cur.Hist) && len(cur.Hist) > 1; {
			t := cur
			t.Hist = append(append([]Step{}, cur.Hist[:i]...), cur.Hist[i+1:]...)
			if fails(&t) {
				cur = t
			} else {
				i++
			}
		}
		// inputs of earlier calls
		for i := range cur.Hist {
			if cur.Hist[i].Input != "warm" {
				t := cur
				t.Hist = append([]Step{}, cur.Hist...)
				t.Hist[i].Input = "warm"
				if fails(&t) {
					cur = t
				}
			}
		}
		// tokens of the judged call, then of the earlier calls
		for i := 0; i < ntok(cur.Opts); {
			t := cur
			t.Opts = dropTok(cur.Opts, i)
			if fails(&t) {
				cur = t
			} else {
				i++
			}
		}
		for h := range cur.Hist {
			for i := 0; i < ntok(cur.Hist[h].Opts); {
				t := cur
				t.Hist = append([]Step{}, cur.Hist...)
				t.Hist[h].Opts = dropTok(cur.Hist[h].Opts, i)
				if fails(&t) {
					cur = t
				} else {
					i++
				}
			}
		}
		e = elemKey(cur.Routine, cur.Elem, func(el string) bool {
			t := cur
			t.Elem = el
			return fails(&t)
		})
		o = cur.optLabel()
	}
	if len(cur.Hist) > 0 || hasTok(cur.Opts, "Junk") || hasTok(cur.Opts, "JunkNaN") {
		t := cur
		w := warmFor(cs.Routine, cs.Opts, cs.R, cs.C)
		t.Base = make([]int, len(w.V))
		for i, v := range w.V {
			t.Base[i] = int(v)
		}
		t.Graded, t.Exp2, t.Family = 0, 0, ""
		if fails(&t) {
			class = "any-input"
		}
	}
	histMemoMu.Lock()
	histMemo[mk] = [3]string{o, e, class}
	histMemoMu.Unlock()
	return o, e, class
}
