package main

import (
	"fmt"
	"math"
	"sort"
	"sync"

	"verif/mc/cmd/c05/lat"
)

// fail is one oracle failure of a case; what is the "what is violated" part of the key.
type fail struct {
	what string
	msg  string
}

type fails []fail

func (f *fails) add(what, format string, a ...any) {
	*f = append(*f, fail{what, fmt.Sprintf(format, a...)})
}

// relative tolerance of the defining equations on the well-conditioned lattices
const relTol = 1e-9

func scaleOf(a lat.Mat) float64 { return math.Max(1, lat.Fro(a)) }

// tolMult: eigenvalue tolerance for a root of exact multiplicity k (perturbation of a
// k-fold root under a backward error u·‖A‖ is O((u·c)^(1/k))).
func tolMult(k int, scale float64) float64 {
	if k < 1 {
		k = 1
	}
	return math.Pow(relTol, 1/float64(k)) * scale
}

// ---- reference spectrum cache ------------------------------------------------------

var specMu sync.Mutex
var specCache = map[string]lat.Spectrum{}

func spectrum(base []int, n int) (lat.Spectrum, error) {
	cp := lat.CharPoly(base, n)
	key := fmt.Sprint(cp)
	specMu.Lock()
	s, ok := specCache[key]
	specMu.Unlock()
	if ok {
		return s, nil
	}
	s, err := lat.SpectrumOf(cp)
	if err != nil {
		return s, err
	}
	specMu.Lock()
	if len(specCache) > 200000 {
		specCache = map[string]lat.Spectrum{}
	}
	specCache[key] = s
	specMu.Unlock()
	return s, nil
}

func spectrumClass(s lat.Spectrum) string {
	if s.NumComplexPairs() > 0 {
		if s.MaxMult() > 1 {
			return "complex-pair+repeated"
		}
		return "complex-pair"
	}
	if s.MaxMult() > 1 {
		return "repeated-eigenvalue"
	}
	return "distinct-real"
}

// ---- structure helpers ---------------------------------------------------------------

// maxWhere returns the largest |m_ij| over positions selected by pred (NaN counts as +Inf).
func maxWhere(m lat.Mat, pred func(i, j int) bool) float64 {
	r := 0.0
	for i := 0; i < m.R; i++ {
		for j := 0; j < m.C; j++ {
			if pred(i, j) {
				v := math.Abs(m.At(i, j))
				if math.IsNaN(v) {
					return math.Inf(1)
				}
				if v > r {
					r = v
				}
			}
		}
	}
	return r
}

// matchMultiset decides whether some bijection pairs every returned value with a
// reference part within that part's tolerance (n <= 4: all permutations).
func matchMultiset(vals []float64, parts []lat.Part, scale float64) bool {
	n := len(vals)
	if n != len(parts) {
		return false
	}
	used := make([]bool, n)
	var rec func(i int) bool
	rec = func(i int) bool {
		if i == n {
			return true
		}
		for j := 0; j < n; j++ {
			if used[j] {
				continue
			}
			if math.Abs(vals[j]-parts[i].Re) <= tolMult(parts[i].Mult, scale) {
				used[j] = true
				if rec(i + 1) {
					return true
				}
				used[j] = false
			}
		}
		return false
	}
	return rec(0)
}

// ---- Schur form ------------------------------------------------------------------------

// discNonNegative: the discriminant (a-d)² + 4bc of the block [a b; c d] is >= 0 however the
// expression is rounded (plain and with either product fused into the sum).
func discNonNegative(a, b, c, d float64) bool {
	x := a - d
	return x*x+4*b*c >= 0 && math.FMA(x, x, 4*b*c) >= 0 && math.FMA(4*b, c, x*x) >= 0
}

// schurBlocks scans T and returns the real parts of its eigenvalues (2×2 blocks contribute
// their mean twice), the index set of 2×2 blocks, and structural failures.
func checkSchur(f *fails, A, T lat.Mat, U *lat.Mat, sp *lat.Spectrum, symmetricMode, graded bool) (has2x2 bool) {
	n := A.R
	scale := scaleOf(A)
	tol := relTol * scale
	if T.R != n || T.C != n {
		f.add("shape", "Schur factor is %dx%d for %dx%d input", T.R, T.C, n, n)
		return
	}
	if !lat.Finite(T) {
		f.add("nonfinite", "Schur factor has non-finite entries: %v", T.V)
		return
	}
	if symmetricMode {
		if v := maxWhere(T, func(i, j int) bool { return i != j }); v > tol {
			f.add("structure-diagonal", "symmetric QR result is not diagonal: max off-diagonal %.3g (tol %.3g)", v, tol)
		}
	} else {
		if v := maxWhere(T, func(i, j int) bool { return i > j+1 }); v > tol {
			f.add("structure-quasi-triangular", "entry below the sub-diagonal %.3g (tol %.3g)", v, tol)
		}
	}
	var vals []float64
	for i := 0; i < n; i++ {
		if i+1 < n && math.Abs(T.At(i+1, i)) > tol {
			has2x2 = true
			a, b, c, d := T.At(i, i), T.At(i, i+1), T.At(i+1, i), T.At(i+1, i+1)
			disc := (a-d)*(a-d) + 4*b*c
			// a 2x2 diagonal block of a real Schur form stands for a complex-conjugate pair: its
			// discriminant is negative. Strict: the block is exactly what the routine looked at
			// when it decided not to reduce it (later steps do not touch it), so there is no
			// rounding between its decision and this one; 0 is a double REAL eigenvalue.
			if !symmetricMode && discNonNegative(a, b, c, d) {
				f.add("structure-real-2x2-block", "2x2 diagonal block [%g %g; %g %g] at %d has real eigenvalues (discriminant %.3g >= 0) but its sub-diagonal entry was not reduced", a, b, c, d, i, disc)
			}
			if i+2 < n && math.Abs(T.At(i+2, i+1)) > tol {
				f.add("structure-quasi-triangular", "two consecutive non-zero sub-diagonal entries at %d,%d", i, i+1)
			}
			vals = append(vals, (a+d)/2, (a+d)/2)
			i++
		} else {
			vals = append(vals, T.At(i, i))
		}
	}
	if sp != nil && !graded && len(vals) == n {
		if !matchMultiset(vals, sp.Parts(), scale) {
			f.add("eigenvalue-multiset", "diagonal blocks give eigenvalue real parts %v, exact spectrum %v", vals, sp.Roots)
		}
	}
	if U != nil {
		if U.R != n || U.C != n {
			f.add("shape", "U is %dx%d", U.R, U.C)
			return
		}
		if d := lat.OrthoDefect(*U); !(d <= relTol*10) {
			f.add("orthogonality-U", "‖UᵀU−I‖=%.3g", d)
		}
		if d := lat.Fro(lat.Sub(lat.Mul(lat.Mul(*U, T), lat.T(*U)), A)); !(d <= tol) {
			f.add("reconstruction", "‖U·T·Uᵀ−A‖=%.3g (tol %.3g)", d, tol)
		}
	}
	return
}

// ---- eigensystem -----------------------------------------------------------------------

// checkEigen: evals as returned (sorted by the routine), evecs columns (nil if not computed).
// split2x2 tells whether the plain QR algorithm left a 2×2 block for this input (only used to
// WEAKEN the eigenvector check on repeated roots that the routine treated as a complex pair).
func checkEigen(f *fails, A lat.Mat, evals []float64, evecs *lat.Mat, sp *lat.Spectrum, graded bool, split2x2 func() (cplx, real bool), skipped *int) {
	n := A.R
	scale := scaleOf(A)
	if len(evals) != n {
		f.add("shape", "%d eigenvalues for n=%d", len(evals), n)
		return
	}
	for _, e := range evals {
		if math.IsNaN(e) || math.IsInf(e, 0) {
			f.add("nonfinite", "non-finite eigenvalue in %v", evals)
			return
		}
	}
	for i := 0; i+1 < n; i++ {
		if math.Abs(evals[i]) < math.Abs(evals[i+1]) {
			f.add("order", "eigenvalues %v are not ordered by decreasing magnitude", evals)
			break
		}
	}
	parts := sp.Parts()
	if !graded {
		if !matchMultiset(evals, parts, scale) {
			f.add("eigenvalue-multiset", "returned %v, exact spectrum (root,multiplicity) %v", evals, sp.Roots)
			return
		}
	}
	if evecs == nil {
		return
	}
	if evecs.R != n || evecs.C != n {
		f.add("shape", "eigenvector matrix is %dx%d", evecs.R, evecs.C)
		return
	}
	allSimpleReal := sp.NumComplexPairs() == 0 && sp.MaxMult() == 1
	for j := 0; j < n; j++ {
		k := 0
		if graded {
			if !allSimpleReal {
				*skipped++
				continue
			}
			k = 1
		} else {
			complexCand := false
			for _, p := range parts {
				if math.Abs(evals[j]-p.Re) <= tolMult(p.Mult, scale) {
					if !p.Real {
						complexCand = true
					}
					if p.Mult > k {
						k = p.Mult
					}
				}
			}
			if complexCand || k == 0 {
				*skipped++
				continue
			}
		}
		// residual
		nv, nr := 0.0, 0.0
		finite := true
		for i := 0; i < n; i++ {
			v := evecs.At(i, j)
			if math.IsNaN(v) || math.IsInf(v, 0) {
				finite = false
			}
			nv += v * v
			s := -evals[j] * v
			for l := 0; l < n; l++ {
				s += A.At(i, l) * evecs.At(l, j)
			}
			nr += s * s
		}
		nv, nr = math.Sqrt(nv), math.Sqrt(nr)
		bad, what, msg := false, "", ""
		if !finite {
			bad, what, msg = true, "eigenvector-nonfinite", fmt.Sprintf("eigenvector %d for real eigenvalue %.6g (exact multiplicity %d) has non-finite entries", j, evals[j], k)
		} else if nv == 0 {
			bad, what, msg = true, "eigenvector-zero", fmt.Sprintf("eigenvector %d for real eigenvalue %.6g is the zero vector", j, evals[j])
		} else if !(nr <= tolMult(k, scale)*nv) {
			bad, what, msg = true, "eigenpair-residual", fmt.Sprintf("‖A·v−λ·v‖/‖v‖=%.3g for λ=%.9g (exact multiplicity %d, tol %.3g)", nr/nv, evals[j], k, tolMult(k, scale))
		}
		if bad {
			if split2x2 != nil {
				cplx, real := split2x2()
				if real {
					// not the back-substitution: the QR algorithm handed over a "Schur form" with a
					// 2x2 diagonal block whose eigenvalues are real, which eigensystem has to take
					// for a complex pair
					f.add("schur-form-real-2x2-block", "the QR algorithm leaves a 2x2 diagonal block with real eigenvalues for this input (not a real Schur form), eigensystem takes it for a complex pair: %s", msg)
					return
				}
				if k >= 2 && cplx {
					*skipped++
					continue
				}
			}
			f.add(what, "%s", msg)
			return
		}
	}
}

// ---- singular values -------------------------------------------------------------------

func singularRef(base []int, m, n int) ([]float64, error) {
	g := lat.Gram(base, m, n)
	sp, err := spectrum(g, n)
	if err != nil {
		return nil, err
	}
	var r []float64
	for _, p := range sp.Parts() {
		v := p.Re
		if v < 1e-12 {
			v = 0
		}
		r = append(r, math.Sqrt(v))
	}
	sort.Float64s(r)
	return r, nil
}
