// C05: matrix factorizations reproduce their input with the promised structure.
// Exhaustive small-scope enumeration over integer matrix lattices × every option
// combination × {Float64, Real64} (× {Float32, Real32} for routines that dispatch on the
// element type: cholesky); oracles are the reference-free defining equations
// evaluated in plain float64 arithmetic (never with the library's own matrix products),
// the exact integer characteristic polynomial for spectra, and exact integer
// Sylvester/rank tests for admissibility.
package main

import (
	"encoding/json"
	"fmt"
	"os"
	"strings"
	"time"

	"verif/mc/cmd/c05/lat"
	"verif/mc/vf"
)

// option products ------------------------------------------------------------------------

func product(toks ...string) []string {
	out := []string{""}
	for _, t := range toks {
		n := len(out)
		for i := 0; i < n; i++ {
			if out[i] == "" {
				out = append(out, t)
			} else {
				out = append(out, out[i]+","+t)
			}
		}
	}
	return out
}

type plan struct {
	routine string
	opts    []string
}

// routinesFor lists routine × option sets admissible for the matrix.
func routinesFor(base []int, r, c int, graded bool, reduced bool) []plan {
	var ps []plan
	pick := func(full, red []string) []string {
		if reduced {
			return red
		}
		return full
	}
	if r == c {
		n := r
		sym := !graded && lat.IsSymmetric(base, n)
		ps = append(ps, plan{"hessenberg", pick(product("U", "SetZero=false", "InSitu"), []string{"", "U", "SetZero=false", "U,SetZero=false", "U,InSitu"})})
		ps = append(ps, plan{"qrAlgorithm", pick(product("U", "Eps", "InSitu"), []string{"", "U", "U,InSitu"})})
		// qrU / qrU=false / qrSym: options of the QR algorithm handed to eigensystem, which passes on
		// what it does not know (Eps is one of them) and drops ComputeU
		ps = append(ps, plan{"eigensystem", pick(append(product("Vec=false", "Eps", "InSitu"), "Buf", "Buf,Vec=false", "qrU=false", "qrU,Vec=false"), []string{"", "Vec=false", "InSitu", "Buf", "qrU=false"})})
		if sym {
			ps = append(ps, plan{"qrAlgorithm", pick(withTok(product("U", "Eps", "InSitu"), "Sym"), []string{"Sym", "U,Sym", "U,InSitu,Sym"})})
			ps = append(ps, plan{"eigensystem", pick(append(withTok(append(product("Vec=false", "Eps", "InSitu"), "Buf"), "Sym"), "Sym,qrSym", "qrSym", "Vec=false,Sym,qrSym", "Buf,Sym,qrSym", "InSitu,Sym,qrSym", "qrU=false,Sym"),
				[]string{"Sym", "Vec=false,Sym", "InSitu,Sym", "Buf,Sym", "Sym,qrSym", "qrSym"})})
			ps = append(ps, plan{"tridiag", pick(product("U", "Eps", "InSitu"), []string{"", "U", "U,InSitu"})})
			ps = append(ps, plan{"cholesky", []string{"LDL,ForcePD", "LDL,ForcePD,InSitu"}})
			if lat.IsSPD(base, n) {
				ps = append(ps, plan{"cholesky", []string{"", "InSitu", "ForcePD", "ForcePD,InSitu", "LDL", "LDL,InSitu"}})
				ps = append(ps, plan{"msqrt", []string{""}})
				ps = append(ps, plan{"msqrtInv", []string{""}})
			}
		}
	}
	if !graded && r >= c {
		if lat.GramDet(base, r, c) != 0 {
			ps = append(ps, plan{"gramSchmidt", []string{"", "InSitu"}})
		}
		ps = append(ps, plan{"bidiag", pick(product("U", "V", "Eps", "InSitu"), []string{"", "U", "V", "U,V", "U,V,InSitu"})})
		ps = append(ps, plan{"svd", pick(product("U", "V", "Eps", "InSitu"), []string{"", "U", "V", "U,V", "U,V,InSitu"})})
	}
	return ps
}

func withTok(os []string, tok string) []string {
	r := make([]string, len(os))
	for i, o := range os {
		if o == "" {
			r[i] = tok
		} else {
			r[i] = o + "," + tok
		}
	}
	return r
}

// lattices ---------------------------------------------------------------------------------

type lattice struct {
	name    string
	r, c    int
	E       []int
	sym     bool // enumerate symmetric matrices only
	graded  int
	reduced bool               // reduced option sets
	skip    func(a []int) bool // members already covered by a smaller lattice
	custom  func(i int64) []int
	customN int64
	// families (families.go): power-of-two exponent of the i-th member (entry = integer·2^exp2),
	// family tag carried in the case, and a routine plan that replaces routinesFor
	exp2   func(i int64) int
	family string
	plans  func(base []int) []plan
}

func (l lattice) count() int64 {
	if l.custom != nil {
		return l.customN
	}
	if l.sym {
		return lat.Pow(len(l.E), l.r*(l.r+1)/2)
	}
	return lat.Pow(len(l.E), l.r*l.c)
}

func (l lattice) decode(i int64) []int {
	if l.custom != nil {
		return l.custom(i)
	}
	if l.sym {
		return lat.DecodeSym(i, l.r, l.E)
	}
	return lat.Decode(i, l.r, l.c, l.E)
}

func inE3(a []int) bool {
	for _, v := range a {
		if v < -1 || v > 1 {
			return false
		}
	}
	return true
}

func lattices(thorough bool) []lattice {
	ls := []lattice{
		{name: "1x1{-2..2}", r: 1, c: 1, E: lat.E5},
		{name: "2x2{-2..2}", r: 2, c: 2, E: lat.E5},
		{name: "3x3{-1,0,1}", r: 3, c: 3, E: lat.E3},
		{name: "2x1{-2..2}", r: 2, c: 1, E: lat.E5},
		{name: "3x1{-2..2}", r: 3, c: 1, E: lat.E5},
		{name: "4x1{-2..2}", r: 4, c: 1, E: lat.E5},
		{name: "3x2{-1,0,1}", r: 3, c: 2, E: lat.E3},
		{name: "4x2{-1,0,1}", r: 4, c: 2, E: lat.E3, reduced: true},
		{name: "3x3spd{-2..2}", r: 3, c: 3, E: lat.E5, sym: true, skip: func(a []int) bool { return !lat.IsSPD(a, 3) }},
		// 4x4 is the smallest size with two Hessenberg/tridiagonalisation reflectors and a
		// 3x3 trailing block after deflation
		{name: "4x4sym{0,1}", r: 4, c: 4, E: lat.E2, sym: true, reduced: true},
		{name: "4x4{lower triangle in {0,1}, upper triangle = 1}", r: 4, c: 4, reduced: true, customN: 1024, custom: func(i int64) []int {
			a := make([]int, 16)
			for r := 0; r < 4; r++ {
				for c := 0; c < 4; c++ {
					if c > r {
						a[r*4+c] = 1
					} else {
						a[r*4+c] = int(i & 1)
						i >>= 1
					}
				}
			}
			return a
		}},
		// --- families (families.go) ---
		{name: "3x3spd-wide{diag 1,3,10,30,100; off 0,±1,±3,±10,±30}", r: 3, c: 3, customN: spdWide3Count(), custom: spdWide3, family: "spd-wide",
			skip: func(a []int) bool { return !lat.IsSPD(a, 3) }, plans: choleskyPlans(true)},
		{name: "4x4spd D·M·D{M diag 2,3; off 0,1,2; D in {1,10}^4}", r: 4, c: 4, customN: spdDMD4Count([]int{1, 10}), custom: func(i int64) []int { return spdDMD4(i, []int{1, 10}) }, family: "spd-wide",
			skip: func(a []int) bool { return !lat.IsSPD(a, 4) }, plans: choleskyPlans(false)},
		{name: "4x3 Läuchli [w;2^-k·I], w in {1,-1,2}^3, k in {10,15,20,25}", r: 4, c: 3, customN: lauchliCount(3), family: "ill-conditioned",
			custom: func(i int64) []int { a, _ := lauchli(i, 3); return a }, exp2: func(i int64) int { _, e := lauchli(i, 3); return e },
			skip: illCondSkip(4, 3), plans: illCondPlans},
		{name: "5x4 Läuchli [w;2^-k·I], w in {1,-1,2}^4, k in {10,15,20,25}", r: 5, c: 4, customN: lauchliCount(4), family: "ill-conditioned",
			custom: func(i int64) []int { a, _ := lauchli(i, 4); return a }, exp2: func(i int64) int { _, e := lauchli(i, 4); return e },
			skip: illCondSkip(5, 4), plans: illCondPlans},
		{name: "3x3 ones+2^-k·C, C over {-1,0,1}, k in {10,20,26}", r: 3, c: 3, customN: lat.Pow(3, 9) * int64(len(parallelK)), family: "ill-conditioned",
			custom: func(i int64) []int { a, _ := nearlyParallel(i, 3, 3, lat.E3); return a }, exp2: func(i int64) int { _, e := nearlyParallel(i, 3, 3, lat.E3); return e },
			skip: illCondSkip(3, 3), plans: illCondPlans},
		{name: "4x3 ones+2^-k·C, C over {0,1}, k in {10,20,26}", r: 4, c: 3, customN: lat.Pow(2, 12) * int64(len(parallelK)), family: "ill-conditioned",
			custom: func(i int64) []int { a, _ := nearlyParallel(i, 4, 3, lat.E2); return a }, exp2: func(i int64) int { _, e := nearlyParallel(i, 4, 3, lat.E2); return e },
			skip: illCondSkip(4, 3), plans: illCondPlans},
		{name: "6x6 block triangular (1x1 and 2x2 diagonal blocks in all orders, ones above / flipped)", r: 6, c: 6, customN: int64(len(blocks6All)), custom: blocks6, family: "blocks6", plans: blocks6Plans},
	}
	if thorough {
		ls = append(ls,
			lattice{name: "3x2{-2..2}", r: 3, c: 2, E: lat.E5, skip: inE3},
			lattice{name: "3x3sym{-2..2}", r: 3, c: 3, E: lat.E5, sym: true, skip: func(a []int) bool { return inE3(a) || lat.IsSPD(a, 3) }},
			lattice{name: "4x4sym{-1,0,1}", r: 4, c: 4, E: lat.E3, sym: true},
			lattice{name: "4x3{-1,0,1}", r: 4, c: 3, E: lat.E3, reduced: true},
			lattice{name: "4x2{-2..2}", r: 4, c: 2, E: lat.E5, reduced: true, skip: inE3},
			lattice{name: "3x3graded{-1,0,1}·diag(1,2^8,2^16)", r: 3, c: 3, E: lat.E3, graded: 8},
			lattice{name: "3x3{-2..2}", r: 3, c: 3, E: lat.E5, reduced: true, skip: func(a []int) bool { return inE3(a) || lat.IsSymmetric(a, 3) }},
			lattice{name: "4x4spd D·M·D{M diag 2,3; off 0,1,2; D in {1,10,-10}^4 with a negative entry}", r: 4, c: 4, customN: spdDMD4Count([]int{1, 10, -10}), custom: func(i int64) []int { return spdDMD4(i, []int{1, 10, -10}) }, family: "spd-wide",
				skip: func(a []int) bool {
					neg := false
					for _, v := range a {
						neg = neg || v < 0
					}
					return !neg || !lat.IsSPD(a, 4)
				}, plans: choleskyPlans(false)},
			lattice{name: "4x3 ones+2^-k·C, C over {-1,0,1}, k in {10,20,26}", r: 4, c: 3, customN: lat.Pow(3, 12) * int64(len(parallelK)), family: "ill-conditioned",
				custom: func(i int64) []int { a, _ := nearlyParallel(i, 4, 3, lat.E3); return a }, exp2: func(i int64) int { _, e := nearlyParallel(i, 4, 3, lat.E3); return e },
				skip: func(a []int) bool {
					for _, v := range a {
						if v&((1<<10)-1) == (1<<10)-1 { // an entry 2^k-1: C has a -1, not in the quick family
							return illCondSkip(4, 3)(a)
						}
					}
					return true
				}, plans: func([]int) []plan { return []plan{{"gramSchmidt", []string{"", "InSitu"}}} }},
		)
	}
	return ls
}

var debug = os.Getenv("C05_DEBUG") != ""

func report(c *vf.Ctx, cs *Case, out *outcome, rank int64) {
	if out.harnessE != "" {
		c.HarnessError(fmt.Sprintf("%s on %+v", out.harnessE, *cs))
		return
	}
	if out.status == "excluded32" {
		// 32 bit element types: input not a float32 matrix, or a pivot at the float32 rounding level
		c.Count("excluded_32bit:not_representable_or_pivot_at_rounding_level", 1)
		return
	}
	c.Eval(1)
	if out.status == "discarded" {
		// an earlier call of the history failed: judged where it is the last call
		c.Count("history_discarded:earlier_call_failed", 1)
		return
	}
	if is32(cs.Elem) && out.status == "ok" {
		c.Count("cases_on_32bit_element_types:"+cs.Elem, 1)
	}
	if out.status == "budget" {
		c.Count("excluded_over_tick_budget(C20)", 1)
		c.Outcome(cs.Routine + "|" + out.class + "|over-budget")
		return
	}
	if !out.trivial && out.status == "ok" {
		c.Nontrivial(1)
	}
	if out.status == "ok" {
		d := 2
		for t := out.ticks; t >= 100; t /= 10 {
			d++
		}
		c.Count(fmt.Sprintf("ticks<1e%d", d), 1)
	}
	if out.skipped > 0 {
		c.Count("eigenvector_checks_skipped_complex_or_split", int64(out.skipped))
	}
	if out.mutated {
		c.Count("input_matrix_modified_by_"+cs.Routine+"(info,C12)", 1)
	}
	if cs.Routine == "gramSchmidt" && out.status == "ok" && out.gsCond > 0 {
		// how much of the conditioning-aware tolerance is used, by decade of the condition number
		dc := 0
		for k := out.gsCond; k >= 10; k /= 10 {
			dc++
		}
		b := "<1e-3"
		switch {
		case out.gsMargin > 1:
			b = ">1(violation)"
		case out.gsMargin > 1e-1:
			b = "<1"
		case out.gsMargin > 1e-2:
			b = "<1e-1"
		case out.gsMargin > 1e-3:
			b = "<1e-2"
		}
		c.Count(fmt.Sprintf("gramSchmidt_orthogonality_defect/tol%s@cond~1e%d", b, dc), 1)
	}
	if out.suffPD && strings.Contains(cs.Opts, "ForcePD") && strings.Contains(cs.Opts, "LDL") {
		c.Count("forcepd_sufficiently_pd_inputs", 1)
	}
	if len(out.fails) == 0 {
		c.Outcome(cs.Routine + "|" + out.class + "|holds")
		return
	}
	seen := map[string]bool{}
	for _, f := range out.fails {
		var o, e string
		class := out.class
		if len(cs.Hist) > 0 || cs.has("Junk") || cs.has("JunkNaN") {
			o, e, class = minimiseHist(cs, out.class, f.what)
		} else {
			o, e = minimise(cs, f.what)
			o = optName(o)
		}
		key := fmt.Sprintf("%s|%s|elem=%s|%s|%s", cs.Routine, o, e, class, f.what)
		if seen[key] {
			continue
		}
		seen[key] = true
		c.Outcome(cs.Routine + "|" + out.class + "|" + f.what)
		c.Violate(key, f.msg, rank, cs)
	}
}

// minimise coarsens the key of a failing case: option tokens whose removal keeps the same
// failure are dropped from the key (greedy, left to right), and the element type is
// reported as "any" when the other element type fails in the same way. The replay
// artefact keeps the original case.
func minimise(cs *Case, what string) (string, string) {
	failsWith := func(opts, elem string) bool {
		t := *cs
		t.Opts, t.Elem = opts, elem
		out := runCase(&t, budgetStage1(max(cs.R, cs.C)))
		for _, f := range out.fails {
			if f.what == what {
				return true
			}
		}
		return false
	}
	toks := []string{}
	if cs.Opts != "" {
		toks = strings.Split(cs.Opts, ",")
	}
	for i := 0; i < len(toks); {
		rest := append(append([]string{}, toks[:i]...), toks[i+1:]...)
		if failsWith(strings.Join(rest, ","), cs.Elem) {
			toks = rest
		} else {
			i++
		}
	}
	opts := strings.Join(toks, ",")
	return opts, elemKey(cs.Routine, cs.Elem, func(el string) bool { return failsWith(opts, el) })
}

// elemKey names the element types on which a failure shows: the type of the case if no other
// type of the routine fails alike, "any" if all do, otherwise the failing types joined in
// the order of elemsFor (e.g. "Real64+Real32": the generic instantiation).
func elemKey(routine, elem string, failsOn func(elem string) bool) string {
	all := elemsFor(routine)
	var bad []string
	for _, el := range all {
		if el == elem || failsOn(el) {
			bad = append(bad, el)
		}
	}
	if len(bad) == len(all) {
		return "any"
	}
	return strings.Join(bad, "+")
}

// runner carries the state shared by all cases of a shard: the number of confirmed
// over-budget inputs per routine|class.
type runner struct {
	c         *vf.Ctx
	confirmed map[string]int
}

// exec runs one case under the two-stage tick budget and reports it. over (per matrix):
// routines that already exceeded the budget on this matrix.
func (r *runner) exec(cs *Case, rank int64, over map[string]bool, sample bool) {
	c := r.c
	okey := fmt.Sprintf("%s/%v", cs.Routine, wantsSym(cs.Opts))
	if over[okey] {
		// this routine already exceeded the tick budget on this matrix with another
		// option set: the matrix is excluded here for the routine (C20 reports it)
		c.Count("excluded_over_tick_budget(C20):not-rerun-with-other-options", 1)
		return
	}
	c.Guard(cs.Routine+"|"+cs.optLabel(), rank, cs)
	t0 := time.Now()
	nn := max(cs.R, cs.C)
	out := runCase(cs, budgetStage1(nn))
	if out.status == "budget" {
		ck := cs.Routine + "|" + out.class
		if r.confirmed[ck] < 2 {
			out = runCase(cs, budgetFor(nn))
			if out.status == "budget" {
				r.confirmed[ck]++
			} else {
				c.Count("slow_but_within_full_budget", 1)
				c.Outcome(cs.Routine + "|" + out.class + "|slow: over the stage-1 budget, within the full budget")
				c.Sample(cs)
			}
		} else {
			c.Count("excluded_over_stage1_budget_presumed_spin(after 2 confirmed per routine|class)", 1)
			c.Cap("full-budget confirmation skipped for inputs over the stage-1 budget after 2 confirmed per routine|class (only happens when C20 has a violation)")
		}
	}
	if debug && (out.status == "budget" || time.Since(t0) > 50*time.Millisecond) {
		fmt.Fprintf(os.Stderr, "SLOW %v %s ticks=%d %+v\n", time.Since(t0), out.status, out.ticks, *cs)
	}
	if out.status == "budget" && len(cs.Hist) == 0 {
		over[okey] = true
	}
	report(c, cs, &out, rank)
	if sample {
		c.Sample(cs)
	}
}

func run(c *vf.Ctx) {
	var idx int64
	rn := &runner{c: c, confirmed: map[string]int{}}
	for _, l := range lattices(c.Thorough()) {
		if f := os.Getenv("C05_LATTICE"); f != "" && f != l.name {
			continue
		}
		n := l.count()
		var done int64
		for i := int64(0); i < n; i++ {
			idx++
			if !c.Mine(idx) {
				continue
			}
			if c.Expired() {
				c.Cap("soft deadline reached in lattice " + l.name)
				break
			}
			base := l.decode(i)
			if l.skip != nil && l.skip(base) {
				continue
			}
			done++
			rank := lat.Weight(base)
			if l.graded != 0 {
				rank += 5000
			}
			over := map[string]bool{}
			e2 := 0
			if l.exp2 != nil {
				e2 = l.exp2(i)
			}
			var ps []plan
			if l.plans != nil {
				ps = l.plans(base)
			} else {
				ps = routinesFor(base, l.r, l.c, l.graded != 0, l.reduced)
			}
			for _, p := range ps {
				if f := os.Getenv("C05_ROUTINE"); f != "" && f != p.routine {
					continue
				}
				for oi, o := range p.opts {
					for ei, e := range elemsFor(p.routine) {
						cs := &Case{Routine: p.routine, Opts: o, Elem: e, R: l.r, C: l.c, Base: base, Graded: l.graded, Exp2: e2, Family: l.family}
						rn.exec(cs, rank+int64(oi)+int64(ei)*100, over, idx%4099 == 0 && oi == 1 && ei == 0)
					}
				}
			}
		}
		c.Count("matrices:"+l.name, done)
	}
	runHistories(rn, &idx)
}

func main() {
	vf.Main(vf.Spec{
		ID:    "C05",
		Level: "exploration",
		Rule: "every matrix of the integer lattices (1x1,2x2 over {-2..2}; 3x3 over {-1,0,1} quick / {-2..2} thorough; symmetric 3x3 {-2..2} and 4x4 {-1,0,1} thorough; tall 2x1,3x1,4x1 {-2..2}, 3x2,4x2 {-1,0,1} quick, 3x2,4x2 {-2..2} and 4x3 {-1,0,1} thorough; graded D·A·D⁻¹ thorough) × every routine admissible for it " +
			"(square/symmetric/SPD by exact integer Sylvester test/full column rank by exact Gram determinant) × every option combination × {Float64,Real64} is executed; " +
			"a routine that dispatches on the element type (cholesky, its LDL and forced-positive-definite variants: Float32, Float64 and generic instantiations) is run on {Float64,Real64,Float32,Real32} in every lattice, family and history it takes part in, with the InSitu object, its buffers and the junk of the element type of the input; " +
			"families: SPD 3x3 over the wide alphabet (diag 1,3,10,30,100; off-diag 0,±1,±3,±10,±30) and graded SPD 4x4 D·M·D through every Cholesky/LDL/ForcePD option product; ill-conditioned tall matrices (Läuchli [w;2^-k·I] 4x3 and 5x4, ones+2^-k·C 3x3 and 4x3, cond up to 2^34 by an exact Gram-matrix bound) through gramSchmidt/bidiag/svd; " +
			"6x6 block triangular matrices (all orders of 1x1 and 2x2 diagonal blocks, both orientations) through hessenberg/qrAlgorithm/eigensystem; " +
			"eigensystem option sets include the QR algorithm's options handed through it (qrAlgorithm.Epsilon, qrAlgorithm.Symmetric with and without eigensystem.Symmetric, qrAlgorithm.ComputeU true/false); " +
			"histories and buffers, for every routine that takes an InSitu object (cholesky, gramSchmidt, hessenberg, tridiag, bidiag, svd, qrAlgorithm, eigensystem) on 1x1 {-2..2}, 2x2 {-1,0,1}, 3x3 {0,1}, 3x2 {0,1}, SPD 3x3 {-2..2}, symmetric 4x4 {0,1} with zero diagonal " +
			"(thorough: 2x2 {-2..2}, symmetric 3x3 {-1,0,1}, 4x2 {0,1}, symmetric 4x4 {0,1}): every admissible option set with caller-allocated result buffers pre-filled with junk (thorough: also NaN); every ordered pair (option set of an earlier call, option set of the judged call) on one InSitu object " +
			"with the earlier call on a fixed dense matrix of the class its options need or on the same matrix (thorough: or on diag(1..n)), and the same pairs with the caller replacing the result buffers by junk-filled ones before the judged call; thorough: every three-call history (n<=3); " +
			"a case is non-trivial when the routine returned factors and the input did not already have the promised middle-factor structure (diagonal/triangular/bidiagonal/tridiagonal/Hessenberg/identity)",
		Assume: []string{
			"tolerance 1e-9·max(1,‖A‖_F) for defining equations; eigenvalues compared with (1e-9)^(1/k)·‖A‖ for a root of exact multiplicity k",
			"32 bit element types (Float32, Real32): tolerance 2^10·u·max(1,‖A‖_F) with u=2^-24; the input must be exactly a float32 matrix (all lattices and families of cholesky are integers below 2^24) and, if positive definite, every pivot of its LDLᵀ recurrence must be >= 64·n·u·max a_ii (else excluded and counted; no member of the present lattices is); factors are read back through GetFloat64 and the defining equations are evaluated in float64",
			"msqrt/msqrtInv are fixed-threshold iterations: residual tolerance 1e-7·‖A‖",
			"gramSchmidt is modified Gram–Schmidt: ‖QᵀQ−I‖ <= 1e3·u·cond(A) with u=2^-53 and cond(A) <= ‖A‖_F/σ_min from the exact Gram matrix (big integers; Newton from below on its characteristic polynomial); Householder/Givens based routines keep the fixed 1e-8",
			"ill-conditioned families: members with cond bound > 2^34 or exactly rank deficient are skipped (bounded condition number); singular values are not compared with a reference there",
			"eigensystem option Buf = caller-allocated Eigenvalues/Eigenvectors result buffers on first use",
			"eigenvector residuals are checked for every returned value that can only be a real eigenvalue; values that may be the real part of a complex pair are skipped",
			"graded inputs: backward-error oracles only (reconstruction, orthogonality, residual relative to ‖D·A·D⁻¹‖)",
			"InSitu buffers are 'stale': they carry the contents of a previous call on a different dense matrix of the same shape (InitializeH/InitializeU set as newton.go does)",
			"histories: all calls of a history have the shape of the judged input (the routines reject buffers of another shape); the judged call is held to exactly the oracles of a first call; a history whose earlier call fails is discarded (that call is judged where it is the last one); qrAlgorithm InSitu objects have InitializeH set (documented way to recycle them)",
			"a result buffer (L, D, Q, R, U, V, eigenvalues, eigenvectors) that the caller put into the InSitu object must hold exactly the factor that the call returns; work copies of the input (H, A) are pre-filled too but only the returned middle factor is judged",
			"real Schur form: a 2x2 diagonal block whose sub-diagonal entry exceeds the tolerance must have a discriminant (a-d)²+4bc < 0 in float64 (plain and fused evaluation); discriminant exactly 0 is a double real eigenvalue and a violation. An eigenvector failure of eigensystem is attributed to 'schur-form-real-2x2-block' when the plain QR algorithm leaves such a block for the input, and only a numerically complex block (negative discriminant) excuses a failing eigenvector of a repeated root",
			"triangular factors: entries on the wrong side of the diagonal are judged by the structure oracle; the reconstruction oracle uses the triangle that is the factor",
			"inputs on which a routine exceeds 2e5·(n+1)^3 loop ticks are excluded here and belong to C20",
		},
		SoftLimit: map[string]time.Duration{"quick": 100 * time.Second, "thorough": 13 * time.Minute},
		Run:       run,
		Replay: func(c *vf.Ctx, raw json.RawMessage) {
			var cs Case
			if err := json.Unmarshal(raw, &cs); err != nil {
				c.HarnessError(err.Error())
				return
			}
			out := runCase(&cs, budgetFor(max(cs.R, cs.C)))
			report(c, &cs, &out, lat.Weight(cs.Base))
		},
	})
}
