// C05: matrix factorizations reproduce their input with the promised structure.
// Exhaustive small-scope enumeration over integer matrix lattices × every option
// combination × {Float64, Real64}; oracles are the reference-free defining equations
// evaluated in plain float64 arithmetic (never with the library's own matrix products),
// the exact integer characteristic polynomial for spectra, and exact integer
// Sylvester/rank tests for admissibility.
package main

import (
	"encoding/json"
	"fmt"
	"os"
	"strings"
	"time"

	"verif/mc/cmd/c05/lat"
	"verif/mc/vf"
)

// option products ------------------------------------------------------------------------

func product(toks ...string) []string {
	out := []string{""}
	for _, t := range toks {
		n := len(out)
		for i := 0; i < n; i++ {
			if out[i] == "" {
				out = append(out, t)
			} else {
				out = append(out, out[i]+","+t)
			}
		}
	}
	return out
}

type plan struct {
	routine string
	opts    []string
}

// routinesFor lists routine × option sets admissible for the matrix.
func routinesFor(base []int, r, c int, graded bool, reduced bool) []plan {
	var ps []plan
	pick := func(full, red []string) []string {
		if reduced {
			return red
		}
		return full
	}
	if r == c {
		n := r
		sym := !graded && lat.IsSymmetric(base, n)
		ps = append(ps, plan{"hessenberg", pick(product("U", "SetZero=false", "InSitu"), []string{"", "U", "SetZero=false", "U,SetZero=false", "U,InSitu"})})
		ps = append(ps, plan{"qrAlgorithm", pick(product("U", "Eps", "InSitu"), []string{"", "U", "U,InSitu"})})
		ps = append(ps, plan{"eigensystem", pick(product("Vec=false", "Eps", "InSitu"), []string{"", "Vec=false", "InSitu"})})
		if sym {
			ps = append(ps, plan{"qrAlgorithm", pick(withTok(product("U", "Eps", "InSitu"), "Sym"), []string{"Sym", "U,Sym", "U,InSitu,Sym"})})
			ps = append(ps, plan{"eigensystem", pick(withTok(product("Vec=false", "Eps", "InSitu"), "Sym"), []string{"Sym", "Vec=false,Sym", "InSitu,Sym"})})
			ps = append(ps, plan{"tridiag", pick(product("U", "Eps", "InSitu"), []string{"", "U", "U,InSitu"})})
			ps = append(ps, plan{"cholesky", []string{"LDL,ForcePD", "LDL,ForcePD,InSitu"}})
			if lat.IsSPD(base, n) {
				ps = append(ps, plan{"cholesky", []string{"", "InSitu", "ForcePD", "ForcePD,InSitu", "LDL", "LDL,InSitu"}})
				ps = append(ps, plan{"msqrt", []string{""}})
				ps = append(ps, plan{"msqrtInv", []string{""}})
			}
		}
	}
	if !graded && r >= c {
		if lat.GramDet(base, r, c) != 0 {
			ps = append(ps, plan{"gramSchmidt", []string{"", "InSitu"}})
		}
		ps = append(ps, plan{"bidiag", pick(product("U", "V", "Eps", "InSitu"), []string{"", "U", "V", "U,V", "U,V,InSitu"})})
		ps = append(ps, plan{"svd", pick(product("U", "V", "Eps", "InSitu"), []string{"", "U", "V", "U,V", "U,V,InSitu"})})
	}
	return ps
}

func withTok(os []string, tok string) []string {
	r := make([]string, len(os))
	for i, o := range os {
		if o == "" {
			r[i] = tok
		} else {
			r[i] = o + "," + tok
		}
	}
	return r
}

// lattices ---------------------------------------------------------------------------------

type lattice struct {
	name    string
	r, c    int
	E       []int
	sym     bool // enumerate symmetric matrices only
	graded  int
	reduced bool               // reduced option sets
	skip    func(a []int) bool // members already covered by a smaller lattice
	custom  func(i int64) []int
	customN int64
}

func (l lattice) count() int64 {
	if l.custom != nil {
		return l.customN
	}
	if l.sym {
		return lat.Pow(len(l.E), l.r*(l.r+1)/2)
	}
	return lat.Pow(len(l.E), l.r*l.c)
}

func (l lattice) decode(i int64) []int {
	if l.custom != nil {
		return l.custom(i)
	}
	if l.sym {
		return lat.DecodeSym(i, l.r, l.E)
	}
	return lat.Decode(i, l.r, l.c, l.E)
}

func inE3(a []int) bool {
	for _, v := range a {
		if v < -1 || v > 1 {
			return false
		}
	}
	return true
}

func lattices(thorough bool) []lattice {
	ls := []lattice{
		{name: "1x1{-2..2}", r: 1, c: 1, E: lat.E5},
		{name: "2x2{-2..2}", r: 2, c: 2, E: lat.E5},
		{name: "3x3{-1,0,1}", r: 3, c: 3, E: lat.E3},
		{name: "2x1{-2..2}", r: 2, c: 1, E: lat.E5},
		{name: "3x1{-2..2}", r: 3, c: 1, E: lat.E5},
		{name: "4x1{-2..2}", r: 4, c: 1, E: lat.E5},
		{name: "3x2{-1,0,1}", r: 3, c: 2, E: lat.E3},
		{name: "4x2{-1,0,1}", r: 4, c: 2, E: lat.E3, reduced: true},
		{name: "3x3spd{-2..2}", r: 3, c: 3, E: lat.E5, sym: true, skip: func(a []int) bool { return !lat.IsSPD(a, 3) }},
		// 4x4 is the smallest size with two Hessenberg/tridiagonalisation reflectors and a
		// 3x3 trailing block after deflation
		{name: "4x4sym{0,1}", r: 4, c: 4, E: lat.E2, sym: true, reduced: true},
		{name: "4x4{lower triangle in {0,1}, upper triangle = 1}", r: 4, c: 4, reduced: true, customN: 1024, custom: func(i int64) []int {
			a := make([]int, 16)
			for r := 0; r < 4; r++ {
				for c := 0; c < 4; c++ {
					if c > r {
						a[r*4+c] = 1
					} else {
						a[r*4+c] = int(i & 1)
						i >>= 1
					}
				}
			}
			return a
		}},
	}
	if thorough {
		ls = append(ls,
			lattice{name: "3x2{-2..2}", r: 3, c: 2, E: lat.E5, skip: inE3},
			lattice{name: "3x3sym{-2..2}", r: 3, c: 3, E: lat.E5, sym: true, skip: func(a []int) bool { return inE3(a) || lat.IsSPD(a, 3) }},
			lattice{name: "4x4sym{-1,0,1}", r: 4, c: 4, E: lat.E3, sym: true},
			lattice{name: "4x3{-1,0,1}", r: 4, c: 3, E: lat.E3, reduced: true},
			lattice{name: "4x2{-2..2}", r: 4, c: 2, E: lat.E5, reduced: true, skip: inE3},
			lattice{name: "3x3graded{-1,0,1}·diag(1,2^8,2^16)", r: 3, c: 3, E: lat.E3, graded: 8},
			lattice{name: "3x3{-2..2}", r: 3, c: 3, E: lat.E5, reduced: true, skip: func(a []int) bool { return inE3(a) || lat.IsSymmetric(a, 3) }},
		)
	}
	return ls
}

var elems = []string{"Float64", "Real64"}

var debug = os.Getenv("C05_DEBUG") != ""

func report(c *vf.Ctx, cs *Case, out *outcome, rank int64) {
	if out.harnessE != "" {
		c.HarnessError(fmt.Sprintf("%s on %+v", out.harnessE, *cs))
		return
	}
	c.Eval(1)
	if out.status == "budget" {
		c.Count("excluded_over_tick_budget(C20)", 1)
		c.Outcome(cs.Routine + "|" + out.class + "|over-budget")
		return
	}
	if !out.trivial && out.status == "ok" {
		c.Nontrivial(1)
	}
	if out.status == "ok" {
		d := 2
		for t := out.ticks; t >= 100; t /= 10 {
			d++
		}
		c.Count(fmt.Sprintf("ticks<1e%d", d), 1)
	}
	if out.skipped > 0 {
		c.Count("eigenvector_checks_skipped_complex_or_split", int64(out.skipped))
	}
	if out.mutated {
		c.Count("input_matrix_modified_by_"+cs.Routine+"(info,C12)", 1)
	}
	if out.suffPD && strings.Contains(cs.Opts, "ForcePD") && strings.Contains(cs.Opts, "LDL") {
		c.Count("forcepd_sufficiently_pd_inputs", 1)
	}
	if len(out.fails) == 0 {
		c.Outcome(cs.Routine + "|" + out.class + "|holds")
		return
	}
	seen := map[string]bool{}
	for _, f := range out.fails {
		o, e := minimise(cs, f.what)
		key := fmt.Sprintf("%s|%s|elem=%s|%s|%s", cs.Routine, optName(o), e, out.class, f.what)
		if seen[key] {
			continue
		}
		seen[key] = true
		c.Outcome(cs.Routine + "|" + out.class + "|" + f.what)
		c.Violate(key, f.msg, rank, cs)
	}
}

// minimise coarsens the key of a failing case: option tokens whose removal keeps the same
// failure are dropped from the key (greedy, left to right), and the element type is
// reported as "any" when the other element type fails in the same way. The replay
// artefact keeps the original case.
func minimise(cs *Case, what string) (string, string) {
	failsWith := func(opts, elem string) bool {
		t := *cs
		t.Opts, t.Elem = opts, elem
		out := runCase(&t, budgetStage1(max(cs.R, cs.C)))
		for _, f := range out.fails {
			if f.what == what {
				return true
			}
		}
		return false
	}
	toks := []string{}
	if cs.Opts != "" {
		toks = strings.Split(cs.Opts, ",")
	}
	for i := 0; i < len(toks); {
		rest := append(append([]string{}, toks[:i]...), toks[i+1:]...)
		if failsWith(strings.Join(rest, ","), cs.Elem) {
			toks = rest
		} else {
			i++
		}
	}
	opts := strings.Join(toks, ",")
	other := "Real64"
	if cs.Elem == "Real64" {
		other = "Float64"
	}
	elem := cs.Elem
	if failsWith(opts, other) {
		elem = "any"
	}
	return opts, elem
}

func run(c *vf.Ctx) {
	var idx int64
	confirmed := map[string]int{}
	for _, l := range lattices(c.Thorough()) {
		if f := os.Getenv("C05_LATTICE"); f != "" && f != l.name {
			continue
		}
		n := l.count()
		var done int64
		for i := int64(0); i < n; i++ {
			idx++
			if !c.Mine(idx) {
				continue
			}
			if c.Expired() {
				c.Cap("soft deadline reached in lattice " + l.name)
				break
			}
			base := l.decode(i)
			if l.skip != nil && l.skip(base) {
				continue
			}
			done++
			rank := lat.Weight(base)
			if l.graded != 0 {
				rank += 5000
			}
			over := map[string]bool{}
			for _, p := range routinesFor(base, l.r, l.c, l.graded != 0, l.reduced) {
				if f := os.Getenv("C05_ROUTINE"); f != "" && f != p.routine {
					continue
				}
				for oi, o := range p.opts {
					for ei, e := range elems {
						cs := &Case{Routine: p.routine, Opts: o, Elem: e, R: l.r, C: l.c, Base: base, Graded: l.graded}
						okey := fmt.Sprintf("%s/%v", p.routine, cs.has("Sym"))
						if over[okey] {
							// this routine already exceeded the tick budget on this matrix with another
							// option set: the matrix is excluded here for the routine (C20 reports it)
							c.Count("excluded_over_tick_budget(C20):not-rerun-with-other-options", 1)
							continue
						}
						c.Guard(p.routine+"|"+optName(o), rank, cs)
						t0 := time.Now()
						nn := max(l.r, l.c)
						out := runCase(cs, budgetStage1(nn))
						if out.status == "budget" {
							ck := p.routine + "|" + out.class
							if confirmed[ck] < 2 {
								out = runCase(cs, budgetFor(nn))
								if out.status == "budget" {
									confirmed[ck]++
								} else {
									c.Count("slow_but_within_full_budget", 1)
								}
							} else {
								c.Count("excluded_over_stage1_budget_presumed_spin(after 2 confirmed per routine|class)", 1)
								c.Cap("full-budget confirmation skipped for inputs over the stage-1 budget after 2 confirmed per routine|class (only happens when C20 has a violation)")
							}
						}
						if debug && (out.status == "budget" || time.Since(t0) > 50*time.Millisecond) {
							fmt.Fprintf(os.Stderr, "SLOW %v %s ticks=%d %+v\n", time.Since(t0), out.status, out.ticks, *cs)
						}
						if out.status == "budget" {
							over[okey] = true
						}
						report(c, cs, &out, rank+int64(oi)+int64(ei)*100)
						if idx%4099 == 0 && oi == 1 && ei == 0 {
							c.Sample(cs)
						}
					}
				}
			}
		}
		c.Count("matrices:"+l.name, done)
	}
}

func main() {
	vf.Main(vf.Spec{
		ID:    "C05",
		Level: "exploration",
		Rule: "every matrix of the integer lattices (1x1,2x2 over {-2..2}; 3x3 over {-1,0,1} quick / {-2..2} thorough; symmetric 3x3 {-2..2} and 4x4 {-1,0,1} thorough; tall 2x1,3x1,4x1 {-2..2}, 3x2,4x2 {-1,0,1} quick, 3x2,4x2 {-2..2} and 4x3 {-1,0,1} thorough; graded D·A·D⁻¹ thorough) × every routine admissible for it " +
			"(square/symmetric/SPD by exact integer Sylvester test/full column rank by exact Gram determinant) × every option combination × {Float64,Real64} is executed; " +
			"a case is non-trivial when the routine returned factors and the input did not already have the promised middle-factor structure (diagonal/triangular/bidiagonal/tridiagonal/Hessenberg/identity)",
		Assume: []string{
			"tolerance 1e-9·max(1,‖A‖_F) for defining equations; eigenvalues compared with (1e-9)^(1/k)·‖A‖ for a root of exact multiplicity k",
			"msqrt/msqrtInv are fixed-threshold iterations: residual tolerance 1e-7·‖A‖",
			"eigenvector residuals are checked for every returned value that can only be a real eigenvalue; values that may be the real part of a complex pair are skipped",
			"graded inputs: backward-error oracles only (reconstruction, orthogonality, residual relative to ‖D·A·D⁻¹‖)",
			"InSitu buffers are 'stale': they carry the contents of a previous call on a different dense matrix of the same shape (InitializeH/InitializeU set as newton.go does)",
			"inputs on which a routine exceeds 2e5·(n+1)^3 loop ticks are excluded here and belong to C20",
		},
		SoftLimit: map[string]time.Duration{"quick": 100 * time.Second, "thorough": 13 * time.Minute},
		Run:       run,
		Replay: func(c *vf.Ctx, raw json.RawMessage) {
			var cs Case
			if err := json.Unmarshal(raw, &cs); err != nil {
				c.HarnessError(err.Error())
				return
			}
			out := runCase(&cs, budgetFor(max(cs.R, cs.C)))
			report(c, &cs, &out, lat.Weight(cs.Base))
		},
	})
}
