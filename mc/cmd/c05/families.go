package main

// Exhaustively enumerated families beyond the plain integer lattices:
//
//   - wide-alphabet / graded SPD matrices (n=3,4) for Cholesky, LDL and the forced-positive
//     definite LDL variant, whose per-column state (theta_j) only matters when an earlier
//     column has large off-diagonal entries relative to a later pivot;
//   - ill-conditioned tall matrices (Läuchli type, nearly parallel columns) for the
//     orthogonal-factor routines, with a conditioning-aware orthogonality oracle;
//   - 6x6 block (quasi-)triangular matrices for the QR algorithm: the smallest size at which
//     a 2x2 diagonal block can sit below four leading rows.

import (
	"math"

	"verif/mc/cmd/c05/lat"
)

// ---- SPD, wide alphabet -----------------------------------------------------------------

var wideDiag = []int{1, 3, 10, 30, 100}
var wideOff = []int{0, 1, -1, 3, -3, 10, -10, 30, -30}

func spdWide3Count() int64 { return lat.Pow(len(wideDiag), 3) * lat.Pow(len(wideOff), 3) }

// spdWide3 decodes the i-th symmetric 3x3 matrix with diagonal from wideDiag and
// off-diagonal from wideOff (index 0 is the identity).
func spdWide3(i int64) []int {
	a := make([]int, 9)
	nd, no := int64(len(wideDiag)), int64(len(wideOff))
	for k := 0; k < 3; k++ {
		a[k*3+k] = wideDiag[i%nd]
		i /= nd
	}
	for r := 0; r < 3; r++ {
		for c := r + 1; c < 3; c++ {
			v := wideOff[i%no]
			i /= no
			a[r*3+c], a[c*3+r] = v, v
		}
	}
	return a
}

var dmdDiag = []int{2, 3}
var dmdOff = []int{0, 1, 2}

func spdDMD4Count(scales []int) int64 {
	return lat.Pow(len(dmdDiag), 4) * lat.Pow(len(dmdOff), 6) * lat.Pow(len(scales), 4)
}

// spdDMD4 decodes the i-th matrix D·M·D: M symmetric 4x4 with diagonal from {2,3} and
// off-diagonal from {0,1,2}, D = diag(d), d_k from scales (slowest digits).
func spdDMD4(i int64, scales []int) []int {
	m := make([]int, 16)
	nd, no, ns := int64(len(dmdDiag)), int64(len(dmdOff)), int64(len(scales))
	for k := 0; k < 4; k++ {
		m[k*4+k] = dmdDiag[i%nd]
		i /= nd
	}
	for r := 0; r < 4; r++ {
		for c := r + 1; c < 4; c++ {
			v := dmdOff[i%no]
			i /= no
			m[r*4+c], m[c*4+r] = v, v
		}
	}
	d := make([]int, 4)
	for k := 0; k < 4; k++ {
		d[k] = scales[i%ns]
		i /= ns
	}
	for r := 0; r < 4; r++ {
		for c := 0; c < 4; c++ {
			m[r*4+c] *= d[r] * d[c]
		}
	}
	return m
}

func choleskyPlans(full bool) func([]int) []plan {
	return func([]int) []plan {
		if full {
			return []plan{{"cholesky", []string{"", "InSitu", "ForcePD", "ForcePD,InSitu", "LDL", "LDL,InSitu", "LDL,ForcePD", "LDL,ForcePD,InSitu"}}}
		}
		return []plan{{"cholesky", []string{"", "LDL", "LDL,ForcePD", "LDL,ForcePD,InSitu"}}}
	}
}

// ---- ill-conditioned tall matrices ------------------------------------------------------

// maxCond bounds the condition number of the admitted inputs ("bounded condition number"):
// beyond it u·cond approaches 1 and Gram–Schmidt may legitimately break down.
var maxCond = math.Ldexp(1, 34)

var lauchliW = []int{1, -1, 2}
var lauchliK = []int{10, 15, 20, 25}

func lauchliCount(n int) int64 { return lat.Pow(len(lauchliW), n) * int64(len(lauchliK)) }

// lauchli decodes the i-th (n+1)×n matrix [wᵀ; 2^-k·I] scaled by 2^k (integer), w in
// {1,-1,2}^n, and returns the power-of-two exponent -k.
func lauchli(i int64, n int) ([]int, int) {
	k := lauchliK[i%int64(len(lauchliK))]
	i /= int64(len(lauchliK))
	a := make([]int, (n+1)*n)
	for j := 0; j < n; j++ {
		a[j] = lauchliW[i%int64(len(lauchliW))] << uint(k)
		i /= int64(len(lauchliW))
		a[(j+1)*n+j] = 1
	}
	return a, -k
}

var parallelK = []int{10, 20, 26}

// nearlyParallel decodes the i-th r×c matrix ones(r,c) + 2^-k·C scaled by 2^k, C over the
// alphabet E, and returns the exponent -k (k is the fastest digit).
func nearlyParallel(i int64, r, c int, E []int) ([]int, int) {
	k := parallelK[i%int64(len(parallelK))]
	i /= int64(len(parallelK))
	a := lat.Decode(i, r, c, E)
	for j := range a {
		a[j] += 1 << uint(k)
	}
	return a, -k
}

func illCondSkip(r, c int) func([]int) bool {
	return func(a []int) bool { return !(condUpperCached(a, r, c) <= maxCond) }
}

func illCondPlans([]int) []plan {
	return []plan{
		{"gramSchmidt", []string{"", "InSitu"}},
		{"bidiag", []string{"U,V"}},
		{"svd", []string{"U,V"}},
	}
}

// ---- 6x6 block triangular matrices ------------------------------------------------------

// 2x2 diagonal blocks: symmetric with real eigenvalues ±1, non-symmetric with real
// eigenvalues 2,-1, rotation (±i), complex pair 1±i·sqrt(2), and two blocks with a double
// real eigenvalue and a non-zero sub-diagonal entry (discriminant exactly 0: transposed
// Jordan block, eigenvalue 1 twice), which a real Schur form has to triangularise.
var blocks2 = [][4]int{{0, 1, 1, 0}, {1, 2, 1, 0}, {0, -1, 1, 0}, {1, -2, 1, 1}, {1, 0, 1, 1}, {2, 1, -1, 0}}

// compositions of 6 into parts 1 and 2 (bit j of the mask: part j is a 2x2 block)
var comps6 = func() [][]int {
	var out [][]int
	var rec func(left int, cur []int)
	rec = func(left int, cur []int) {
		if left == 0 {
			out = append(out, append([]int{}, cur...))
			return
		}
		rec(left-1, append(cur, 1))
		if left >= 2 {
			rec(left-2, append(cur, 2))
		}
	}
	rec(6, nil)
	return out
}()

type blocks6Index struct {
	comp    int
	digits  int64
	flipped bool
}

// blocks6All lists the family: for every composition, every choice of 1x1 block value from
// {2+position, -1} and of 2x2 block from blocks2, in both orientations (upper: ones above the
// blocks; flipped: J·A·J, i.e. lower quasi-triangular so that the Hessenberg reduction and the
// Francis iteration have to do the work).
var blocks6All = func() []blocks6Index {
	var out []blocks6Index
	for ci, comp := range comps6 {
		n := int64(1)
		for _, p := range comp {
			if p == 1 {
				n *= 2
			} else {
				n *= int64(len(blocks2))
			}
		}
		for d := int64(0); d < n; d++ {
			out = append(out, blocks6Index{ci, d, false}, blocks6Index{ci, d, true})
		}
	}
	return out
}()

func blocks6(i int64) []int {
	const n = 6
	ix := blocks6All[i]
	a := make([]int, n*n)
	for r := 0; r < n; r++ {
		for c := r + 1; c < n; c++ {
			a[r*n+c] = 1
		}
	}
	d := ix.digits
	pos := 0
	for bi, p := range comps6[ix.comp] {
		if p == 1 {
			v := 2 + bi
			if d%2 == 1 {
				v = -1
			}
			d /= 2
			a[pos*n+pos] = v
		} else {
			b := blocks2[d%int64(len(blocks2))]
			d /= int64(len(blocks2))
			a[pos*n+pos], a[pos*n+pos+1], a[(pos+1)*n+pos], a[(pos+1)*n+pos+1] = b[0], b[1], b[2], b[3]
		}
		pos += p
	}
	if ix.flipped {
		f := make([]int, n*n)
		for r := 0; r < n; r++ {
			for c := 0; c < n; c++ {
				f[r*n+c] = a[(n-1-r)*n+(n-1-c)]
			}
		}
		return f
	}
	return a
}

func blocks6Plans([]int) []plan {
	return []plan{
		{"hessenberg", []string{"U"}},
		{"qrAlgorithm", []string{"", "U", "U,InSitu"}},
		// eigenvalues only: eigenvectors behind 2x2 blocks are a recorded open defect of
		// eigensystem (back substitution), which every member of this family would hit
		{"eigensystem", []string{"Vec=false"}},
	}
}
