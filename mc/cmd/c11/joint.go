package main

import (
	"fmt"
	"reflect"
	"sort"
	"strings"

	ad "github.com/pbenner/autodiff"
)

// Live (partially consumed) JOINT iterators interleaved with mutation.
//
// Separate configurations (Config.Joint) with a reduced alphabet on one container of fixed
// dimension, element values {0,1}: element writes At.SetFloat64(0|1) at every position, a
// full foreign walk (purges the stored zeros), Reset; opening a joint iterator in every
// reachable form (JointIterator, ConstJointIterator, the concrete JOINT_ITERATOR_ of the
// vector types through reflection) with every operand of a menu (dense and sparse; zero,
// ones, alternating patterns), advancing it, dropping it; and, while the iterator is live
// and its operand is sparse, mutating the OPERAND: element writes and a full walk of it
// (which purges the operand's stored zeros under the iterator).
//
// Demand (the same as for the plain live iterators): the iterator continues over positions
// beyond its own in strictly ascending order, visits at least every position where the
// container or the operand holds a non-zero element (it may visit more: dense operands
// report every position), reports the true values there, and TERMINATES: every
// continuation is cut after dim+3 steps and reported as a violation.

const (
	jfInterface = iota // JointIterator(b)
	jfConst            // ConstJointIterator(b)
	jfConcrete         // JOINT_ITERATOR_(b *Sparse<T>Vector), vectors only
)

func jformName(f int) string {
	switch f {
	case jfInterface:
		return "JointIterator"
	case jfConst:
		return "ConstJointIterator"
	}
	return "JOINT_ITERATOR_"
}

const (
	jflRecvDel = 1 << iota
	jflRecvIns
	jflOpndDel
	jflOpndIns
)

func jflagString(f int) string {
	var p []string
	if f&jflRecvDel != 0 {
		p = append(p, "receiver-entry-removed")
	}
	if f&jflRecvIns != 0 {
		p = append(p, "receiver-entry-created")
	}
	if f&jflOpndDel != 0 {
		p = append(p, "operand-entry-removed")
	}
	if f&jflOpndIns != 0 {
		p = append(p, "operand-entry-created")
	}
	if len(p) == 0 {
		return "no-entry-change-ahead"
	}
	return strings.Join(p, "+")
}

// jslot: one live joint iterator. Positions are flattened (matrix: i*cols+j).
type jslot struct {
	live       bool
	form       int
	raw        interface{}
	ok         func() bool
	next       func()
	index      func() (int, bool) // flattened index, in range
	get        func() (float64, float64)
	cur        int
	bv         ad.Vector // operand (vector worlds)
	bx         ad.Matrix // operand (matrix worlds)
	bm         []int     // operand model, flattened
	bsparse    bool
	flags      int    // entry changes ahead of cur made by the last operation (and by the oracle's purging walk after it)
	side       string // what the last operation worked on: receiver | operand | iterator
	afterFresh bool   // the check's fresh full iteration (which purges stored zeros) ran on this instance
	rkeys      []int  // stored keys of the receiver / operand when the last operation ended
	okeys      []int
	cols       int // matrix: number of columns (flattening); vector: 0
}

type jhost interface {
	jmodel() []int // receiver model, flattened
	jrecvKeys() []int
	jkind() string
	jelem() string
	jsetFail(f *failure)
	jfailed() bool
}

func (w *vworld) jmodel() []int       { return w.model }
func (w *vworld) jkind() string       { return "vector" }
func (w *vworld) jelem() string       { return w.et.name }
func (w *vworld) jfailed() bool       { return w.fail != nil }
func (w *vworld) jsetFail(f *failure) { w.fail = f }
func (w *vworld) jrecvKeys() []int    { return cellKeys(ad.VerifC11Vector(w.v)) }

func (w *mworld) jmodel() []int {
	var r []int
	for i := range w.model {
		r = append(r, w.model[i]...)
	}
	return r
}
func (w *mworld) jkind() string       { return "matrix" }
func (w *mworld) jelem() string       { return w.et.name }
func (w *mworld) jfailed() bool       { return w.fail != nil }
func (w *mworld) jsetFail(f *failure) { w.fail = f }
func (w *mworld) jrecvKeys() []int    { return cellKeys(ad.VerifC11Matrix(w.m).Values) }

func cellKeys(pv ad.VerifC11Vec) []int {
	r := make([]int, 0, len(pv.Cells))
	for _, c := range pv.Cells {
		r = append(r, c.Key)
	}
	return r
}

func (j *jslot) opndKeys() []int {
	if !j.bsparse {
		return nil
	}
	if j.bv != nil {
		return cellKeys(ad.VerifC11Vector(j.bv))
	}
	return cellKeys(ad.VerifC11Matrix(j.bx).Values)
}

func tmplOf(elem string) string {
	if strings.HasPrefix(elem, "Real") {
		return "real"
	}
	return "plain"
}

func (j *jslot) failf(h jhost, code, f string, a ...any) {
	if h.jfailed() {
		return
	}
	op := "dense"
	if j.bsparse {
		op = "sparse"
	}
	// coarse key: container kind x template x iterator form x what the last operation did.
	// Every state passes the complete continuation oracle before it is expanded, so the
	// last operation is the one that broke the iterator.
	cause := "iterator-moved"
	switch j.side {
	case "receiver":
		cause = "receiver-entry-created-or-written"
		if j.flags&jflRecvDel != 0 {
			cause = "receiver-entry-removed"
		}
	case "operand":
		cause = "operand-entry-created-or-written"
		if j.flags&jflOpndDel != 0 {
			cause = "operand-entry-removed"
		}
	}
	form := jformName(j.form)
	if j.form == jfConst {
		form = jformName(jfInterface) // the same object
	}
	h.jsetFail(&failure{
		key:  fmt.Sprintf("JointIterator(live)|%s|tmpl=%s|form=%s|%s", h.jkind(), tmplOf(h.jelem()), form, cause),
		what: fmt.Sprintf("[%s, %s operand, %s: %s] ", jformName(j.form), op, jflagString(j.flags), code) + fmt.Sprintf(f, a...),
	})
}

// diffAhead: entry changes at keys > cur between two sorted key lists
func diffAhead(old, new []int, cur int) (del, ins bool) {
	in := func(l []int, x int) bool {
		k := sort.SearchInts(l, x)
		return k < len(l) && l[k] == x
	}
	for _, x := range old {
		if x > cur && !in(new, x) {
			del = true
		}
	}
	for _, x := range new {
		if x > cur && !in(old, x) {
			ins = true
		}
	}
	return
}

// noteChanges compares the stored key sets with those recorded last and raises the flags
func (j *jslot) noteChanges(h jhost) {
	if !j.live {
		return
	}
	rk, ok := h.jrecvKeys(), j.opndKeys()
	if d, i := diffAhead(j.rkeys, rk, j.cur); d || i {
		if d {
			j.flags |= jflRecvDel
		}
		if i {
			j.flags |= jflRecvIns
		}
	}
	if d, i := diffAhead(j.okeys, ok, j.cur); d || i {
		if d {
			j.flags |= jflOpndDel
		}
		if i {
			j.flags |= jflOpndIns
		}
	}
	j.rkeys, j.okeys = rk, ok
}

// must: smallest flattened position >= from where the container or the operand is non-zero (-1: none)
func (j *jslot) must(h jhost, from int) int {
	m := h.jmodel()
	for i := from; i < len(m); i++ {
		if i >= 0 && (m[i] != 0 || j.bm[i] != 0) {
			return i
		}
	}
	return -1
}

// position checks a freshly opened / advanced iterator; from = first admissible position
func (j *jslot) position(h jhost, from int) {
	m := h.jmodel()
	must := j.must(h, from)
	if !j.ok() {
		if must >= 0 {
			j.failf(h, "missed", "joint iterator ended, position %d is still to come (container %v, operand %v)", must, m, j.bm)
		}
		j.live = false
		return
	}
	i, inRange := j.index()
	if !inRange || i < from {
		// not ascending: find out whether it terminates at all (bounded)
		code, seq := "order", []int{i}
		func() {
			defer func() { recover() }()
			for steps := 0; j.ok(); steps++ {
				if steps > len(m)+3 {
					code = "nonterm"
					return
				}
				j.next()
				if j.ok() {
					k, _ := j.index()
					seq = append(seq, k)
				}
			}
		}()
		j.failf(h, code, "joint iterator moved from %d to %v (%d positions; container %v, operand %v)", j.cur, seq, len(m), m, j.bm)
		return
	}
	if must >= 0 && i > must {
		j.failf(h, "missed", "joint iterator moved from %d to %d and skipped position %d (container %v, operand %v)", j.cur, i, must, m, j.bm)
		return
	}
	v1, v2 := j.get()
	if !f64eq(v1, m[i]) || !f64eq(v2, j.bm[i]) {
		j.failf(h, "value", "joint iterator at %d reports (%v,%v), expected (%d,%d)", i, v1, v2, m[i], j.bm[i])
		return
	}
	j.cur = i
}

// finish continues the iterator to its end (cut after dim+3 steps) and judges the rest
func (j *jslot) finish(h jhost) {
	if !j.live || h.jfailed() {
		return
	}
	j.noteChanges(h) // the fresh walk of the oracle purged the stored zeros of the container
	m := h.jmodel()
	pre := ""
	if j.afterFresh {
		pre = "after a fresh full iteration of the container the "
	}
	type visit struct {
		i      int
		ok     bool
		v1, v2 float64
	}
	var vs []visit
	fin := false
	func() {
		defer func() {
			if r := recover(); r != nil {
				j.failf(h, "panic", "continuing the joint iterator positioned at %d panics: %v (container %v, operand %v)", j.cur, r, m, j.bm)
			}
		}()
		j.next()
		for steps := 0; steps <= len(m)+3; steps++ {
			if !j.ok() {
				fin = true
				return
			}
			i, ok := j.index()
			v1, v2 := j.get()
			vs = append(vs, visit{i, ok, v1, v2})
			j.next()
		}
	}()
	if h.jfailed() {
		return
	}
	var idx []int
	for _, v := range vs {
		idx = append(idx, v.i)
	}
	if !fin {
		j.failf(h, "nonterm", "%sjoint iterator positioned at %d does not terminate: Ok() is still true after %d further steps, it reported %v (container %v, operand %v)", pre, j.cur, len(vs), idx, m, j.bm)
		return
	}
	last := j.cur
	for _, v := range vs {
		if !v.ok || v.i <= last {
			j.failf(h, "order", "%sjoint iterator positioned at %d continues with %v (%d positions; container %v, operand %v)", pre, j.cur, idx, len(m), m, j.bm)
			return
		}
		last = v.i
	}
	for i := j.cur + 1; i < len(m); i++ {
		if m[i] == 0 && j.bm[i] == 0 {
			continue
		}
		seen := false
		for _, v := range vs {
			seen = seen || v.i == i
		}
		if !seen {
			j.failf(h, "missed", "%sjoint iterator positioned at %d continues with %v and misses position %d (container %v, operand %v)", pre, j.cur, idx, i, m, j.bm)
			return
		}
	}
	for _, v := range vs {
		if !f64eq(v.v1, m[v.i]) || !f64eq(v.v2, j.bm[v.i]) {
			j.failf(h, "value", "joint iterator reports (%v,%v) at %d, expected (%d,%d)", v.v1, v.v2, v.i, m[v.i], j.bm[v.i])
			return
		}
	}
}

func scalarValue(s ad.ConstScalar) float64 {
	if s == nil {
		return 0
	}
	if v := reflect.ValueOf(s); v.Kind() == reflect.Ptr && v.IsNil() {
		return 0
	}
	return s.GetFloat64()
}

// operand menu: pattern k/2 of {zero, ones, 1010.., 0101..}, kind k%2 (0 dense, 1 sparse)
const jointOperands = 8

func jointPattern(k, n int) []int {
	p := make([]int, n)
	for i := range p {
		switch k {
		case 1:
			p[i] = 1
		case 2:
			p[i] = (i + 1) % 2
		case 3:
			p[i] = i % 2
		}
	}
	return p
}

// ---- vectors -------------------------------------------------------------------------

type vecJoint interface {
	Ok() bool
	Next()
	Index() int
	GetConst() (ad.ConstScalar, ad.ConstScalar)
}

// reflJoint adapts the concrete *Sparse<T>VectorJointIterator_ (typed GET)
type reflJoint struct{ v reflect.Value }

func (r reflJoint) Ok() bool   { return r.v.MethodByName("Ok").Call(nil)[0].Bool() }
func (r reflJoint) Next()      { r.v.MethodByName("Next").Call(nil) }
func (r reflJoint) Index() int { return int(r.v.MethodByName("Index").Call(nil)[0].Int()) }
func (r reflJoint) values() (float64, float64) {
	out := r.v.MethodByName("GET").Call(nil)
	val := func(x reflect.Value) float64 {
		switch x.Kind() {
		case reflect.Ptr:
			if x.IsNil() {
				return 0
			}
		case reflect.Struct:
			if x.NumField() > 0 && x.Field(0).Kind() == reflect.Ptr && x.Field(0).IsNil() {
				return 0
			}
		}
		return x.MethodByName("GetFloat64").Call(nil)[0].Float()
	}
	return val(out[0]), val(out[1])
}

func (w *vworld) jointOpen(o Op) {
	n := len(w.model)
	p := jointPattern(o.W/2, n)
	sparse := o.W%2 == 1
	b := buildVec(w.et, p, sparse)
	j := &jslot{form: o.S, cur: -1, bv: b, bm: p, bsparse: sparse}
	switch o.S {
	case jfInterface, jfConst:
		var it vecJoint
		if o.S == jfInterface {
			it = w.v.JointIterator(b)
		} else {
			it = w.v.ConstJointIterator(b)
		}
		j.raw = it
		j.ok, j.next = it.Ok, it.Next
		j.index = func() (int, bool) { i := it.Index(); return i, i >= 0 && i < n }
		j.get = func() (float64, float64) {
			s1, s2 := it.GetConst()
			return scalarValue(s1), scalarValue(s2)
		}
	case jfConcrete:
		m := reflect.ValueOf(w.v).MethodByName("JOINT_ITERATOR_")
		if !m.IsValid() || !sparse {
			w.herr = "JOINT_ITERATOR_ is not reachable"
			return
		}
		rj := reflJoint{m.Call([]reflect.Value{reflect.ValueOf(b)})[0]}
		j.raw = rj.v.Interface()
		j.ok, j.next = rj.Ok, rj.Next
		j.index = func() (int, bool) { i := rj.Index(); return i, i >= 0 && i < n }
		j.get = rj.values
	default:
		w.herr = "unknown joint iterator form"
		return
	}
	j.live = true
	w.j = j
	j.rkeys, j.okeys = w.jrecvKeys(), j.opndKeys()
	j.position(w, 0)
}

func (w *vworld) execJointOp(o Op) {
	j := w.j
	switch o.C {
	case "jopen":
		w.jointOpen(o)
	case "jnext":
		j.next()
		j.position(w, j.cur+1)
	case "jdrop":
		w.j = nil
	case "bset":
		j.bv.At(o.I).SetFloat64(float64(o.V))
		j.bm[o.I] = o.V
	case "bwalk":
		idx, vals, fin := walkVec(j.bv.ConstIterator(), len(j.bm))
		exp := []int{}
		for i, x := range j.bm {
			if x != 0 {
				exp = append(exp, i)
			}
		}
		w.cmpWalkOn("operand-iter", idx, vals, fin, exp, j.bm)
	}
	if w.j != nil && !w.j.live {
		w.j = nil
	}
}

func (w *vworld) enabledJoint() []Op {
	n := len(w.model)
	var ops []Op
	for _, v := range []int{1, 0} {
		for i := 0; i < n; i++ {
			ops = append(ops, Op{C: "set", I: i, V: v})
		}
	}
	ops = append(ops, Op{C: "walk"}, Op{C: "reset"})
	if w.j == nil {
		for _, f := range w.jforms {
			for k := 0; k < jointOperands; k++ {
				if f == jfConcrete && k%2 == 0 {
					continue
				}
				ops = append(ops, Op{C: "jopen", S: f, W: k})
			}
		}
		return ops
	}
	ops = append(ops, Op{C: "jnext"}, Op{C: "jdrop"})
	if w.j.bsparse && w.jmut {
		for _, v := range []int{1, 0} {
			for i := 0; i < n; i++ {
				ops = append(ops, Op{C: "bset", I: i, V: v})
			}
		}
		ops = append(ops, Op{C: "bwalk"})
	}
	return ops
}

// jointCanon: the joint iterator and its operand as part of the state key
func (j *jslot) canon(recvShape *shape, recvTree *ad.AvlTree, recvSelf uintptr, stable bool) string {
	if j == nil || !j.live {
		return ""
	}
	js := ad.VerifC11Joint(j.raw)
	var sb strings.Builder
	fmt.Fprintf(&sb, "joint{form=%d,cur=%d,idx=%v,s1nil=%v,s2nil=%v,b=%v", j.form, j.cur, js.Idx, js.S1Nil, js.S2Nil, j.bm)
	if !js.Known {
		sb.WriteString(",unknown")
	}
	d1, _ := describeIter(js.It1, recvShape, recvTree, recvSelf, stable)
	sb.WriteString(",it1=" + d1)
	if j.bsparse {
		var pv ad.VerifC11Vec
		if j.bv != nil {
			pv = ad.VerifC11Vector(j.bv)
		} else {
			pv = ad.VerifC11Matrix(j.bx).Values
		}
		desc, _, sh := describeVec(pv, stable)
		d2, _ := describeIter(js.It2, sh, pv.Tree, pv.Self, stable)
		sb.WriteString(",sparse:" + desc + ",it2=" + d2)
	} else {
		type denseIt interface{ Ok() bool }
		d2 := "end"
		if it, ok := js.It2.(denseIt); ok && it.Ok() {
			switch x := js.It2.(type) {
			case interface{ Index() int }:
				d2 = fmt.Sprint(x.Index())
			case interface{ Index() (int, int) }:
				a, b := x.Index()
				d2 = fmt.Sprint(a, ",", b)
			}
		}
		sb.WriteString(",dense,it2=" + d2)
	}
	sb.WriteString("}")
	return sb.String()
}

// ---- matrices ------------------------------------------------------------------------

type matJoint interface {
	Ok() bool
	Next()
	Index() (int, int)
	GetConst() (ad.ConstScalar, ad.ConstScalar)
}

func (w *mworld) jointOpen(o Op) {
	R, C := w.dims()
	p := jointPattern(o.W/2, R*C)
	sparse := o.W%2 == 1
	b := buildMat(w.et, R, C, p, sparse)
	j := &jslot{form: o.S, cur: -1, bx: b, bm: p, bsparse: sparse, cols: C}
	var it matJoint
	switch o.S {
	case jfInterface:
		it = w.m.JointIterator(b)
	default:
		w.herr = "unknown joint iterator form"
		return
	}
	j.raw = it
	j.ok, j.next = it.Ok, it.Next
	j.index = func() (int, bool) {
		a, b := it.Index()
		return a*C + b, a >= 0 && b >= 0 && a < R && b < C
	}
	j.get = func() (float64, float64) {
		s1, s2 := it.GetConst()
		return scalarValue(s1), scalarValue(s2)
	}
	j.live = true
	w.j = j
	j.rkeys, j.okeys = w.jrecvKeys(), j.opndKeys()
	j.position(w, 0)
}

func (w *mworld) execJointOp(o Op) {
	j := w.j
	switch o.C {
	case "mjopen":
		w.jointOpen(o)
	case "mjnext":
		j.next()
		j.position(w, j.cur+1)
	case "mjdrop":
		w.j = nil
	case "mbset":
		j.bx.At(o.I, o.J).SetFloat64(float64(o.V))
		j.bm[o.I*j.cols+o.J] = o.V
	case "mbwalk":
		R, C := w.dims()
		bm := newModel(R, C)
		for k, x := range j.bm {
			bm[k/C][k%C] = x
		}
		idx, vals, fin := walkMat(j.bx.ConstIterator(), R*C)
		w.cmpWalk("operand-iter", idx, vals, fin, nonzeroOf(bm), bm)
	}
	if w.j != nil && !w.j.live {
		w.j = nil
	}
}

func (w *mworld) enabledJoint() []Op {
	R, C := w.dims()
	var ops []Op
	for _, v := range []int{1, 0} {
		for i := 0; i < R; i++ {
			for j := 0; j < C; j++ {
				ops = append(ops, Op{C: "mset", I: i, J: j, V: v})
			}
		}
	}
	ops = append(ops, Op{C: "mwalk"}, Op{C: "mreset"})
	if w.j == nil {
		for _, f := range w.jforms {
			for k := 0; k < jointOperands; k++ {
				ops = append(ops, Op{C: "mjopen", S: f, W: k})
			}
		}
		return ops
	}
	ops = append(ops, Op{C: "mjnext"}, Op{C: "mjdrop"})
	if w.j.bsparse && w.jmut {
		for _, v := range []int{1, 0} {
			for i := 0; i < R; i++ {
				for j := 0; j < C; j++ {
					ops = append(ops, Op{C: "mbset", I: i, J: j, V: v})
				}
			}
		}
		ops = append(ops, Op{C: "mbwalk"})
	}
	return ops
}

func isJointOp(c string) bool {
	switch c {
	case "jopen", "jnext", "jdrop", "bset", "bwalk", "mjopen", "mjnext", "mjdrop", "mbset", "mbwalk":
		return true
	}
	return false
}

func jointOpName(o Op) string {
	c := strings.TrimPrefix(o.C, "m")
	switch c {
	case "jopen":
		return jformName(o.S) + "(" + kindName(o.W) + ")-open"
	case "jnext":
		return "JointIterator.Next"
	case "jdrop":
		return "JointIterator-drop"
	case "bset":
		return "operand.At.SetFloat64"
	case "bwalk":
		return "operand.Iterator-walk"
	}
	return o.C
}

func jointSide(o Op) string {
	switch o.C {
	case "bset", "bwalk", "mbset", "mbwalk":
		return "operand"
	case "jopen", "jnext", "jdrop", "mjopen", "mjnext", "mjdrop":
		return "iterator"
	}
	return "receiver"
}
