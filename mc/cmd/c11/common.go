package main

import (
	"fmt"
	"sort"
	"strconv"
	"strings"

	ad "github.com/pbenner/autodiff"
)

// ---- element types ------------------------------------------------------------

type elem struct {
	name string
	t    ad.ScalarType
}

var allElems = []elem{
	{"Float64", ad.Float64Type}, {"Real64", ad.Real64Type}, {"Int8", ad.Int8Type},
	{"Float32", ad.Float32Type}, {"Real32", ad.Real32Type}, {"Int16", ad.Int16Type},
	{"Int32", ad.Int32Type}, {"Int64", ad.Int64Type}, {"Int", ad.IntType},
}

func elemByName(s string) (elem, bool) {
	for _, e := range allElems {
		if e.name == s {
			return e, true
		}
	}
	return elem{}, false
}

// a scalar type different from e (used for AppendScalar with a foreign scalar)
func otherElem(e elem) elem {
	if e.name == "Float64" {
		return allElems[2]
	}
	return allElems[0]
}

// ---- operations ---------------------------------------------------------------

// Op is one step of a history. Which fields are used depends on C.
type Op struct {
	C string `json:"op"`
	I int    `json:"i,omitempty"`
	J int    `json:"j,omitempty"`
	K int    `json:"k,omitempty"`
	L int    `json:"l,omitempty"`
	V int    `json:"v,omitempty"`
	W int    `json:"w,omitempty"` // menu index
	S int    `json:"slot,omitempty"`
	B bool   `json:"flag,omitempty"`
	P []int  `json:"pi,omitempty"`
}

func (o Op) String() string {
	switch o.C {
	case "init", "at", "walkf":
		return fmt.Sprintf("%s(%d)", o.C, o.I)
	case "minit":
		return fmt.Sprintf("init(%dx%d)", o.I, o.J)
	case "mat", "mwalkf":
		return fmt.Sprintf("%s(%d,%d)", o.C, o.I, o.J)
	case "mrow", "mcrow":
		return fmt.Sprintf("%s(%d)", o.C, o.I)
	case "mcol":
		return fmt.Sprintf("mcol(%d)", o.J)
	case "set":
		return fmt.Sprintf("set(%d:=%d)", o.I, o.V)
	case "swap", "mswapr", "mswapc":
		return fmt.Sprintf("%s(%d,%d)", o.C, o.I, o.J)
	case "mset":
		return fmt.Sprintf("mset(%d,%d:=%d)", o.I, o.J, o.V)
	case "perm", "mpermr", "mpermc", "msymp":
		return fmt.Sprintf("%s(%v)", o.C, o.P)
	case "sort":
		return fmt.Sprintf("sort(%v)", o.B)
	case "slw":
		if o.K < 0 {
			return fmt.Sprintf("slice(%d,%d)", o.I, o.J)
		}
		return fmt.Sprintf("slice(%d,%d).at(%d):=%d", o.I, o.J, o.K, o.V)
	case "apps":
		return fmt.Sprintf("apps(%d,foreign=%v)", o.V, o.B)
	case "vmuls":
		return fmt.Sprintf("vmuls(%d)", o.V)
	case "setw", "SETw", "appv", "vmulv", "vmulv2", "vsubv", "vaddv", "vaddv2", "jwalk", "msetw", "mjwalk":
		return fmt.Sprintf("%s(w%d)", o.C, o.W)
	case "iopen", "inext", "idrop", "miopen", "minext", "midrop":
		return fmt.Sprintf("%s(slot%d)", o.C, o.S)
	case "ifrom":
		return fmt.Sprintf("ifrom(slot%d,%d)", o.S, o.I)
	case "mifrom":
		return fmt.Sprintf("mifrom(slot%d,%d,%d)", o.S, o.I, o.J)
	case "mswap":
		return fmt.Sprintf("mswap(%d,%d<->%d,%d)", o.I, o.J, o.K, o.L)
	case "mslw":
		if o.V < 0 {
			return fmt.Sprintf("mslice(%d:%d,%d:%d)", o.I, o.J, o.K, o.L)
		}
		return fmt.Sprintf("mslice(%d:%d,%d:%d).at(%d,%d):=%d", o.I, o.J, o.K, o.L, o.S, o.W, o.V)
	case "jopen", "mjopen":
		return fmt.Sprintf("%s(w%d:%s %v..)", jformName(o.S), o.W, kindName(o.W), jointPattern(o.W/2, 4))
	case "jnext", "jdrop", "bwalk", "mjnext", "mjdrop", "mbwalk":
		return o.C
	case "bset":
		return fmt.Sprintf("operand.set(%d:=%d)", o.I, o.V)
	case "mbset":
		return fmt.Sprintf("operand.set(%d,%d:=%d)", o.I, o.J, o.V)
	case "slop":
		return fmt.Sprintf("slice(%d,%d).%s[w%d]", o.I, o.J, vecWriterName(o), o.W)
	case "mslop":
		return fmt.Sprintf("mslice(%d:%d,%d:%d).%s[w%d]", o.I, o.J, o.K, o.L, matWriterName(o), o.W)
	case "vop":
		return vopName(o.W)
	case "walk", "reset", "rev", "clone", "mwalk", "mreset", "mident", "mT", "mTip", "mclone", "mdiag":
		return o.C
	}
	return fmt.Sprintf("%s(i=%d,j=%d,k=%d,l=%d,v=%d,w=%d,slot=%d,%v)", o.C, o.I, o.J, o.K, o.L, o.V, o.W, o.S, o.B)
}

func histString(h []Op) string {
	var p []string
	for _, o := range h {
		p = append(p, o.String())
	}
	return strings.Join(p, " ; ")
}

// ---- failure bookkeeping --------------------------------------------------------

type failure struct {
	key  string // structural key
	what string
}

type base struct {
	et     elem
	fail   *failure
	warn   string // first private incoherence (early warning, annotation only)
	warnOp string // name of the operation after which it was first seen
	step   int
	quiet  bool // replaying a prefix: no classification, no early-warning bookkeeping
	// unstable: the index tree was last rebuilt in Go map iteration order, so its shape is
	// not determined by the history (its key set is)
	unstable bool
	herr     string // harness error (accessor does not understand the object)
}

func (b *base) failed() *failure { return b.fail }

// ---- permutations -----------------------------------------------------------------

func perms(n int) [][]int {
	if n < len(permCache) && permCache[n] != nil {
		return permCache[n]
	}
	return permsCompute(n)
}

func permsCompute(n int) [][]int {
	var r [][]int
	p := make([]int, n)
	used := make([]bool, n)
	var rec func(i int)
	rec = func(i int) {
		if i == n {
			r = append(r, append([]int{}, p...))
			return
		}
		for k := 0; k < n; k++ {
			if !used[k] {
				used[k] = true
				p[i] = k
				rec(i + 1)
				used[k] = false
			}
		}
	}
	rec(0)
	return r
}

// ---- menus ------------------------------------------------------------------------

// patterns over {0,1,2}^n used as Set / JointIterator / VsubV operands: complete for
// n<=2, a fixed menu (zero, unit first, unit last, interior zero, interior only, full,
// leading zeros, trailing zeros) for larger n. Ordered simplest first.
func setPatterns(n int) [][]int {
	if n < len(setPatCache) && setPatCache[n] != nil {
		return setPatCache[n]
	}
	return setPatternsCompute(n)
}

var setPatCache [11][][]int
var maskPatCache [7][][]int
var permCache [6][][]int
var thoroughMenus bool

func initCaches(thorough bool) {
	thoroughMenus = thorough
	for n := range setPatCache {
		setPatCache[n] = setPatternsCompute(n)
	}
	for n := range maskPatCache {
		maskPatCache[n] = maskPatternsCompute(n)
	}
	for n := 0; n < 6; n++ {
		permCache[n] = permsCompute(n)
	}
}

func setPatternsCompute(n int) [][]int {
	if n == 0 {
		return [][]int{{}}
	}
	if n <= 2 {
		var r [][]int
		tot := 1
		for i := 0; i < n; i++ {
			tot *= 3
		}
		for c := 0; c < tot; c++ {
			p := make([]int, n)
			x := c
			for i := 0; i < n; i++ {
				p[i] = x % 3
				x /= 3
			}
			r = append(r, p)
		}
		sort.SliceStable(r, func(i, j int) bool { return weight(r[i]) < weight(r[j]) })
		return r
	}
	z := func() []int { return make([]int, n) }
	var r [][]int
	r = append(r, z())
	a := z()
	a[0] = 1
	r = append(r, a)
	a = z()
	a[n-1] = 2
	r = append(r, a)
	a = z()
	a[0], a[n-1] = 1, 2
	r = append(r, a) // interior zeros
	a = z()
	a[1] = 1
	r = append(r, a) // interior only
	a = z()
	for i := range a {
		a[i] = 1 + i%2
	}
	r = append(r, a) // full
	if !thoroughMenus {
		return r
	}
	a = z()
	a[n-1], a[n-2] = 1, 2
	r = append(r, a) // leading zeros
	a = z()
	a[0], a[1] = 2, 1
	r = append(r, a) // trailing zeros
	return r
}

func weight(p []int) int {
	w := 0
	for _, x := range p {
		w += x
	}
	return w
}

// all 0/1 masks of length n, simplest first
func maskPatterns(n int) [][]int {
	if n < len(maskPatCache) && maskPatCache[n] != nil {
		return maskPatCache[n]
	}
	return maskPatternsCompute(n)
}

func maskPatternsCompute(n int) [][]int {
	var r [][]int
	for c := 0; c < 1<<uint(n); c++ {
		p := make([]int, n)
		for i := 0; i < n; i++ {
			p[i] = (c >> uint(i)) & 1
		}
		r = append(r, p)
	}
	sort.SliceStable(r, func(i, j int) bool { return weight(r[i]) < weight(r[j]) })
	return r
}

func denseVec(e elem, p []int) ad.Vector {
	v := ad.NullDenseVector(e.t, len(p))
	for i, x := range p {
		if x != 0 {
			v.At(i).SetFloat64(float64(x))
		}
	}
	return v
}

func sparseVec(e elem, p []int) ad.Vector {
	v := ad.NullSparseVector(e.t, len(p))
	for i, x := range p {
		if x != 0 {
			v.At(i).SetFloat64(float64(x))
		}
	}
	return v
}

// menuVec: w = 2*pattern + kind, kind 0 = dense, 1 = sparse (same element type)
func menuVec(e elem, pats [][]int, w int) (ad.Vector, []int, string) {
	p := pats[w/2]
	if w%2 == 0 {
		return denseVec(e, p), p, "dense"
	}
	return sparseVec(e, p), p, "sparse"
}

func patClass(p []int) string {
	z, nz := false, false
	for _, x := range p {
		if x == 0 {
			z = true
		} else {
			nz = true
		}
	}
	switch {
	case z && nz:
		return "mixed"
	case nz:
		return "full"
	}
	return "zero"
}

// ---- AVL tree shape (read-only) ----------------------------------------------------

type shape struct {
	sb    strings.Builder
	paths map[*ad.AvlNode]string
	keys  []int
	n     int
	bad   bool
}

func (sh *shape) walk(n *ad.AvlNode, path string, depth int) {
	if n == nil {
		sh.sb.WriteString(".")
		return
	}
	if depth > 32 || sh.n > 256 {
		sh.bad = true
		sh.sb.WriteString("!cycle")
		return
	}
	sh.n++
	if _, dup := sh.paths[n]; dup {
		sh.bad = true
		sh.sb.WriteString("!shared")
		return
	}
	sh.paths[n] = path
	sh.sb.WriteString("(")
	sh.walk(n.Left, path+"L", depth+1)
	sh.sb.WriteByte(' ')
	sh.sb.WriteString(strconv.Itoa(n.Value))
	sh.sb.WriteByte('#')
	sh.sb.WriteString(strconv.Itoa(n.Balance))
	if n.Deleted {
		sh.sb.WriteString("!D")
	}
	sh.sb.WriteString(" ")
	sh.keys = append(sh.keys, n.Value)
	sh.walk(n.Right, path+"R", depth+1)
	sh.sb.WriteString(")")
}

func observeTree(t *ad.AvlTree) *shape {
	sh := &shape{paths: map[*ad.AvlNode]string{}}
	if t != nil {
		sh.walk(t.Root, "", 0)
	}
	return sh
}

// successor values reachable from a node by the iterator's own link-following rule
// (read-only re-implementation, used only to describe detached iterator nodes)
func successorValues(n *ad.AvlNode) []int {
	var r []int
	for steps := 0; n != nil && steps < 64; steps++ {
		if n.Right != nil {
			n = n.Right
			for d := 0; n.Left != nil && d < 64; d++ {
				n = n.Left
			}
		} else {
			for d := 0; n.Parent != nil && n.Parent.Right == n && d < 64; d++ {
				n = n.Parent
			}
			n = n.Parent
		}
		if n != nil {
			r = append(r, n.Value)
		}
	}
	return r
}

// describe the private state of a sparse vector: canonical string, early warning
func describeVec(pv ad.VerifC11Vec, stable bool) (string, string, *shape) {
	sh := observeTree(pv.Tree)
	buf := make([]byte, 0, 96)
	buf = append(buf, "n="...)
	buf = strconv.AppendInt(buf, int64(pv.N), 10)
	buf = append(buf, " cells="...)
	nils := 0
	coherent := len(pv.Cells) == len(sh.keys)
	for ci, c := range pv.Cells {
		if coherent && sh.keys[ci] != c.Key {
			coherent = false
		}
		buf = strconv.AppendInt(buf, int64(c.Key), 10)
		switch {
		case c.Nil:
			buf = append(buf, 'N')
			nils++
		case c.Zero:
			buf = append(buf, 'z')
		}
		if !c.Nil {
			for _, d := range pv.Cells[:ci] {
				if !d.Nil && d.Ptr == c.Ptr {
					buf = append(buf, '@')
					buf = strconv.AppendInt(buf, int64(d.Key), 10)
					break
				}
			}
		}
		buf = append(buf, ',')
	}
	if stable {
		buf = append(buf, " tree="...)
		buf = append(buf, sh.sb.String()...)
	} else {
		// the index was rebuilt in Go map iteration order (ReverseOrder, T): its shape is not a
		// function of the history; only its key set is part of the state
		buf = append(buf, " tree-keys="...)
		buf = append(buf, fmt.Sprint(sh.keys)...)
	}
	warn := ""
	if !coherent || nils > 0 || sh.bad {
		var mapKeys, nilKeys []int
		for _, c := range pv.Cells {
			mapKeys = append(mapKeys, c.Key)
			if c.Nil {
				nilKeys = append(nilKeys, c.Key)
			}
		}
		if !coherent {
			warn = fmt.Sprintf("map keys %v != index keys %v", mapKeys, sh.keys)
		}
		if len(nilKeys) > 0 {
			if warn != "" {
				warn += "; "
			}
			warn += fmt.Sprintf("nil placeholder at %v", nilKeys)
		}
		if sh.bad {
			warn += "; index tree malformed"
		}
	}
	return string(buf), warn, sh
}

func describeIter(it interface{}, sh *shape, tree *ad.AvlTree, self uintptr, stable bool) (string, bool) {
	ai, vec, ok := ad.VerifC11Iter(it)
	if !ok {
		return "", false
	}
	n := ad.VerifC11IterNode(ai)
	d := fmt.Sprintf("v=%d", ad.VerifC11IterValue(ai))
	if n == nil {
		d += ",end"
	} else if p, ok := sh.paths[n]; ok || n.Deleted || n.Value != ad.VerifC11IterValue(ai) {
		switch {
		case !stable:
			// index shape (and with it which node a deletion physically removed) is not part
			// of the state: only the iterator's value is
			d += ",live"
		case n.Deleted || n.Value != ad.VerifC11IterValue(ai):
			// Next() re-locates such an iterator by value (FindNodeLE(value+1)); the stale
			// links of the node are never followed
			d += ",relocate"
		default:
			d += ",at=/" + p
		}
	} else {
		// live node of a tree that is no longer the index (wholesale rebuild): Next()
		// follows its links
		d += fmt.Sprintf(",detached(succ=%v)", successorValues(n))
	}
	if ad.VerifC11IterTree(ai) != tree {
		d += ",foreign-tree"
	}
	if vec != self {
		d += ",foreign-vec"
	}
	return d, true
}

// cell class of position i (annotation for violation keys)
func cellClass(pv ad.VerifC11Vec, sh *shape, i int) string {
	inIdx := false
	for _, k := range sh.keys {
		if k == i {
			inIdx = true
		}
	}
	for _, c := range pv.Cells {
		if c.Key == i {
			s := "nonzero"
			if c.Nil {
				s = "nil-placeholder"
			} else if c.Zero {
				s = "stored-zero"
			}
			if !inIdx {
				s += "+unindexed"
			}
			return s
		}
	}
	if inIdx {
		return "absent+indexed"
	}
	return "absent"
}

func summaryClass(pv ad.VerifC11Vec) string {
	z := false
	for _, c := range pv.Cells {
		if c.Zero {
			z = true
		}
	}
	if z {
		return "has-stored-zero"
	}
	return "no-stored-zero"
}

func f64eq(got float64, want int) bool { return got == float64(want) }

// smaller operand menus for VsubV(x,x) and the swapped-operand VmulV (indices into
// setPatterns / maskPatterns): everything in the thorough tier and for n<=2
func subMenu(n int, pats [][]int) []int {
	var r []int
	if thoroughMenus && n <= 3 || n <= 2 {
		for i := range pats {
			r = append(r, i)
		}
		return r
	}
	seen := map[string]bool{}
	for i, p := range pats {
		// one pattern per class, plus every pattern with an interior zero
		c := patClass(p)
		interior := false
		for k := 1; k+1 < len(p); k++ {
			if p[k] == 0 && weight(p[:k]) > 0 && weight(p[k+1:]) > 0 {
				interior = true
			}
		}
		if !seen[c] || interior {
			seen[c] = true
			r = append(r, i)
		}
	}
	return r
}
