package main

import (
	"fmt"
	"reflect"
	"sort"
	"strings"

	ad "github.com/pbenner/autodiff"
)

// iterModel is the reference view of a live (partially consumed) iterator.
// stale: a reordering operation (Swap, Permute, Sort, ReverseOrder) happened while
// the iterator was live; the property then only demands that continuing it is safe
// (no panic, terminates, ascending, reports only positions that hold the reported
// non-zero value, leaves the container intact) -- an implementation may rebuild its
// index wholesale in such operations.
type iterModel struct {
	live  bool
	cur   int
	stale bool
}

type vworld struct {
	base
	v       ad.Vector
	model   []int
	its     []ad.VectorIterator
	mits    []iterModel
	cap     int // largest dimension reachable through Append
	curOp   string
	curCls  string
	curLive string
	snap    *vsnap  // private state after the last operation (computed once)
	large   bool    // reduced alphabet on one large container (large.go)
	maxZ    int     // large: bound on the stored zeros
	views   []vview // slice + sibling views left by the last slice-writer operation (views.go)
	joint   bool    // reduced alphabet with one live joint iterator (joint.go)
	jforms  []int
	jmut    bool
	j       *jslot
}

func newVWorld(e elem, slots, cap int) *vworld {
	w := &vworld{cap: cap}
	w.et = e
	w.its = make([]ad.VectorIterator, slots)
	w.mits = make([]iterModel, slots)
	return w
}

func (w *vworld) failf(code, f string, a ...any) {
	if w.fail != nil {
		return
	}
	cls := w.curCls
	if strings.HasPrefix(code, "live-") || strings.HasPrefix(code, "post-live-") {
		cls += w.curLive
	}
	w.fail = &failure{
		key:  fmt.Sprintf("%s|vector|elem=%s|%s|%s", w.curOp, w.et.name, cls, code),
		what: fmt.Sprintf(f, a...),
	}
}

func (w *vworld) nonzero(from int) []int {
	r := []int{}
	for i := from; i < len(w.model); i++ {
		if i >= 0 && w.model[i] != 0 {
			r = append(r, i)
		}
	}
	return r
}

func vecOpName(e elem, o Op, n int) string {
	kind := func(w int) string {
		if w%2 == 0 {
			return "dense"
		}
		return "sparse"
	}
	switch o.C {
	case "at":
		return "At"
	case "set":
		if o.V == 0 {
			return "At.SetFloat64(0)"
		}
		return "At.SetFloat64(nz)"
	case "setw":
		return "Set(" + kind(o.W) + ")"
	case "SETw":
		return "SET"
	case "reset":
		return "Reset"
	case "swap":
		return "Swap"
	case "perm":
		return "Permute"
	case "sort":
		return "Sort"
	case "rev":
		return "ReverseOrder"
	case "slw":
		if o.K < 0 {
			return "Slice"
		}
		return "Slice+write"
	case "apps":
		if o.B {
			return "AppendScalar(foreign)"
		}
		return "AppendScalar"
	case "appv":
		return "AppendVector(" + kind(o.W) + ")"
	case "vmulv":
		return "VmulV(r,r," + kind(o.W) + "-mask)"
	case "vmulv2":
		return "VmulV(r," + kind(o.W) + "-mask,r)"
	case "vsubv":
		return "VsubV(r,x,x)[x=" + kind(o.W) + "]"
	case "vaddv":
		return "VaddV(r,r," + kind(o.W) + "-zero)"
	case "vaddv2":
		return "VaddV(r," + kind(o.W) + "-zero,r)"
	case "vmuls":
		return fmt.Sprintf("VmulS(r,r,%d)", o.V)
	case "walk":
		return "Iterator-walk"
	case "walkf":
		return "IteratorFrom-walk"
	case "jwalk":
		return "JointIterator(" + kind(o.W) + ")-walk"
	case "clone":
		return "Clone"
	case "iopen":
		return "Iterator-open"
	case "ifrom":
		return "IteratorFrom-open"
	case "inext":
		return "Iterator.Next"
	case "idrop":
		return "Iterator-drop"
	case "jopen", "jnext", "jdrop", "bset", "bwalk":
		return jointOpName(o)
	case "slop":
		return "Slice+" + vecWriterName(o)
	case "vop":
		return "operand:" + vopName(o.W)
	}
	return o.C
}

func (w *vworld) classify(o Op, pv ad.VerifC11Vec, sh *shape) string {
	var cls string
	switch o.C {
	case "at", "set", "walkf", "ifrom":
		cls = "i=" + cellClass(pv, sh, o.I)
	case "swap":
		cls = "i=" + cellClass(pv, sh, o.I) + ",j=" + cellClass(pv, sh, o.J)
		if o.I == o.J {
			cls = "i=j=" + cellClass(pv, sh, o.I)
		}
	case "slw":
		if o.K >= 0 {
			cls = "parent-cell=" + cellClass(pv, sh, o.I+o.K)
		} else {
			cls = summaryClass(pv)
		}
	case "slop":
		cls = vecWindowClass(o.I, o.J, len(w.model))
	case "setw", "SETw", "jwalk", "vmulv", "vmulv2", "vsubv":
		pats := setPatterns(len(w.model))
		if strings.HasPrefix(o.C, "vmulv") {
			pats = maskPatterns(len(w.model))
		}
		cls = "operand=" + patClass(pats[o.W/2])
	default:
		cls = summaryClass(pv)
	}
	if w.warnOp != "" {
		cls += ",incoherent" // the early warning in the text names the operation that introduced it
	}
	// live iterators: relation of the touched position to the iterator position (used in
	// the key only when the failure concerns the live iterator)
	w.curLive = ""
	for s, m := range w.mits {
		if !m.live {
			continue
		}
		rel := ""
		switch o.C {
		case "at", "set":
			rel = relStr(o.I, m.cur)
		case "slw":
			if o.K >= 0 {
				rel = relStr(o.I+o.K, m.cur)
			}
		}
		if rel != "" {
			w.curLive += fmt.Sprintf(",pos%siter%d", rel, s)
		}
		if m.stale {
			w.curLive += fmt.Sprintf(",iter%d-stale", s)
		}
	}
	return cls
}

func relStr(i, cur int) string {
	switch {
	case i < cur:
		return "<"
	case i > cur:
		return ">"
	}
	return "="
}

type vsnap struct {
	pv   ad.VerifC11Vec
	desc string
	warn string
	sh   *shape
	ok   bool
}

func (w *vworld) snapshot() *vsnap {
	if w.snap != nil {
		return w.snap
	}
	s := &vsnap{}
	s.pv, s.ok = w.private()
	if s.ok {
		s.desc, s.warn, s.sh = describeVec(s.pv, !w.unstable)
	}
	w.snap = s
	return s
}

func (w *vworld) private() (ad.VerifC11Vec, bool) {
	pv := ad.VerifC11Vector(w.v)
	if !pv.Known {
		w.herr = fmt.Sprintf("overlay accessor does not understand %T", w.v)
		return pv, false
	}
	return pv, true
}

// apply executes one operation on the implementation and on the model and runs the
// per-step oracle of that operation.
func (w *vworld) apply(o Op) {
	w.step++
	if o.C == "init" {
		w.v = ad.NullSparseVector(w.et.t, o.I)
		w.model = make([]int, o.I)
		w.curOp, w.curCls = "init", ""
		return
	}
	if w.v == nil {
		w.herr = "history does not start with init"
		return
	}
	if w.fail != nil {
		return
	}
	w.curOp, w.curCls = "", ""
	w.views = nil
	if !w.quiet {
		s := w.snapshot()
		if !s.ok {
			return
		}
		w.curOp = vecOpName(w.et, o, len(w.model))
		w.curCls = w.classify(o, s.pv, s.sh)
	}
	w.snap = nil
	if w.j != nil {
		w.j.flags, w.j.side = 0, jointSide(o)
	}
	func() {
		defer func() {
			if r := recover(); r != nil {
				w.failf("op-panic", "panic in %v: %v", o, r)
			}
		}()
		w.exec(o)
	}()
	if w.j != nil {
		w.j.noteChanges(w)
	}
	w.settle()
	if !w.quiet && w.warn == "" && w.v != nil {
		if s := w.snapshot(); s.ok && s.warn != "" {
			w.warn = fmt.Sprintf("first private incoherence after step %d (%s): %s", w.step, w.curOp, s.warn)
			w.warnOp = w.curOp
		}
	}
	for s := range w.mits {
		if w.mits[s].live && w.its[s] == nil {
			w.mits[s] = iterModel{}
		}
	}
}

// settle: a tree with at most one node has one shape; once no iterator is live the
// random shape produced by ReverseOrder is forgotten (done after every operation, also in
// quiet prefix replays, so that explorer and artefact replay agree).
func (w *vworld) settle() {
	if !w.unstable || w.v == nil || w.liveCount() != 0 {
		return
	}
	pv, ok := w.private()
	if ok && len(pv.Cells) <= 1 && (pv.Tree == nil || pv.Tree.Root == nil || pv.Tree.Root.Left == nil && pv.Tree.Root.Right == nil) {
		w.unstable = false
	}
}

func (w *vworld) dropIters() {
	for s := range w.its {
		w.its[s], w.mits[s] = nil, iterModel{}
	}
}

// markStale: a reordering operation moved elements; a live iterator keeps no claim on
// the position it had (cur = -1: its next position may be anywhere), see iterModel.
func (w *vworld) markStale() {
	if w.unstable {
		// the index was last rebuilt in Go map order: what an iterator that is left behind in
		// it does next is not a function of the history -- such iterators are not followed
		w.dropIters()
		return
	}
	for s := range w.mits {
		if w.mits[s].live {
			w.mits[s].stale = true
			w.mits[s].cur = -1
		}
	}
}

func readDense(d ad.ConstVector) []int {
	r := make([]int, d.Dim())
	for i := range r {
		r[i] = int(d.Float64At(i))
	}
	return r
}

// refDense runs f on a dense vector of the same element type holding the model; the
// result is the new model (differential reference).
func (w *vworld) refDense(f func(d ad.Vector)) {
	defer func() {
		if r := recover(); r != nil {
			w.herr = fmt.Sprintf("reference (dense %s vector) panicked in %s: %v", w.et.name, w.curOp, r)
		}
	}()
	d := denseVec(w.et, w.model)
	f(d)
	w.model = readDense(d)
}

func (w *vworld) exec(o Op) {
	n := len(w.model)
	e := w.et
	switch o.C {
	case "at":
		s := w.v.At(o.I)
		if s == nil || reflect.ValueOf(s).Kind() == reflect.Ptr && reflect.ValueOf(s).IsNil() {
			w.failf("ret-nil", "At(%d) returned nil", o.I)
		} else if !f64eq(s.GetFloat64(), w.model[o.I]) {
			w.failf("ret-value", "At(%d) = %v, model %d", o.I, s.GetFloat64(), w.model[o.I])
		}
	case "set":
		w.v.At(o.I).SetFloat64(float64(o.V))
		w.model[o.I] = o.V
	case "setw":
		mv, p, _ := menuVec(e, setPatterns(n), o.W)
		w.v.Set(mv)
		w.refDense(func(d ad.Vector) { d.Set(denseVec(e, p)) })
	case "SETw":
		p := setPatterns(n)[o.W/2]
		mv := sparseVec(e, p)
		m := reflect.ValueOf(w.v).MethodByName("SET")
		if !m.IsValid() {
			w.herr = "no SET method"
			return
		}
		m.Call([]reflect.Value{reflect.ValueOf(mv)})
		w.refDense(func(d ad.Vector) { d.Set(denseVec(e, p)) })
	case "reset":
		w.v.Reset()
		w.refDense(func(d ad.Vector) { d.Reset() })
	case "swap":
		w.v.Swap(o.I, o.J)
		w.refDense(func(d ad.Vector) { d.Swap(o.I, o.J) })
		w.markStale()
	case "perm":
		err := w.v.Permute(o.P)
		var rerr error
		w.refDense(func(d ad.Vector) { rerr = d.Permute(o.P) })
		if (err == nil) != (rerr == nil) {
			w.failf("ret-error", "Permute(%v) returned %v, dense vector returned %v", o.P, err, rerr)
		}
		w.markStale()
	case "sort":
		w.v.Sort(o.B)
		w.refDense(func(d ad.Vector) { d.Sort(o.B) })
		w.markStale()
	case "rev":
		w.v.ReverseOrder()
		w.refDense(func(d ad.Vector) { d.ReverseOrder() })
		w.markStale()
		w.unstable = true
	case "slw":
		w.execSlice(o)
	case "apps":
		st := e
		if o.B {
			st = otherElem(e)
		}
		r := w.v.AppendScalar(ad.NewScalar(st.t, float64(o.V)))
		w.checkUnchangedAfterAppend()
		w.v = r
		w.model = append(append([]int{}, w.model...), o.V)
		w.dropIters()
	case "appv":
		pats := appendPatterns(n, w.cap)
		mv, p, _ := menuVec(e, pats, o.W)
		r := w.v.AppendVector(mv)
		w.checkUnchangedAfterAppend()
		w.v = r
		w.model = append(append([]int{}, w.model...), p...)
		w.dropIters()
	case "vmulv", "vmulv2":
		mv, p, _ := menuVec(e, maskPatterns(n), o.W)
		var r ad.Vector
		if o.C == "vmulv" {
			r = w.v.VmulV(w.v, mv)
		} else {
			r = w.v.VmulV(mv, w.v)
		}
		w.refDense(func(d ad.Vector) { d.VmulV(d, denseVec(e, p)) })
		w.checkSame(r)
	case "vsubv":
		mv, p, _ := menuVec(e, setPatterns(n), o.W)
		r := w.v.VsubV(mv, mv)
		w.refDense(func(d ad.Vector) { x := denseVec(e, p); d.VsubV(x, x) })
		w.checkSame(r)
	case "vaddv", "vaddv2":
		mv, p, _ := menuVec(e, [][]int{make([]int, n)}, o.W)
		var r ad.Vector
		if o.C == "vaddv" {
			r = w.v.VaddV(w.v, mv)
		} else {
			r = w.v.VaddV(mv, w.v)
		}
		w.refDense(func(d ad.Vector) { d.VaddV(d, denseVec(e, p)) })
		w.checkSame(r)
	case "vmuls":
		r := w.v.VmulS(w.v, ad.NewScalar(e.t, float64(o.V)))
		w.refDense(func(d ad.Vector) { d.VmulS(d, ad.NewScalar(e.t, float64(o.V))) })
		w.checkSame(r)
	case "walk":
		idx, vals, fin := walkVec(w.v.Iterator(), n)
		w.cmpWalk("iter", idx, vals, fin, w.nonzero(0))
	case "walkf":
		idx, vals, fin := walkVec(w.v.IteratorFrom(o.I), n)
		w.cmpWalk("iter", idx, vals, fin, w.nonzero(o.I))
	case "jwalk":
		w.execJoint(o)
	case "slop":
		w.execSliceOp(o)
	case "vop":
		w.execOperand(o)
	case "jopen", "jnext", "jdrop", "bset", "bwalk":
		w.execJointOp(o)
	case "clone":
		w.v = w.v.CloneVector()
		w.dropIters()
	case "iopen":
		it := w.v.Iterator()
		w.position(o.S, it, w.nonzero(0))
	case "ifrom":
		it := w.v.IteratorFrom(o.I)
		w.position(o.S, it, w.nonzero(o.I))
	case "inext":
		m := w.mits[o.S]
		it := w.its[o.S]
		it.Next()
		if !m.stale {
			w.position(o.S, it, w.nonzero(m.cur+1))
		} else {
			// weak demand: ascending, in range, reports a position that holds that non-zero value
			if !it.Ok() {
				w.its[o.S], w.mits[o.S] = nil, iterModel{}
				return
			}
			i := it.Index()
			if i <= m.cur || i >= n {
				w.failf("live-order", "stale iterator moved from %d to %d (dim %d)", m.cur, i, n)
				return
			}
			c := it.GetConst()
			if c == nil || w.model[i] == 0 || !f64eq(c.GetFloat64(), w.model[i]) {
				w.failf("live-value", "stale iterator reports position %d with value %v, model %v", i, c, w.model)
				return
			}
			w.mits[o.S].cur = i
		}
	case "idrop":
		w.its[o.S], w.mits[o.S] = nil, iterModel{}
	default:
		w.herr = "unknown op " + o.C
	}
}

func (w *vworld) checkSame(r ad.Vector) {
	if r != w.v {
		w.failf("ret-receiver", "operation did not return its receiver")
	}
}

// position checks a freshly positioned / advanced iterator against the expected list
// of remaining non-zero positions.
func (w *vworld) position(s int, it ad.VectorIterator, exp []int) {
	if len(exp) == 0 {
		if it.Ok() {
			w.failf("live-extra", "iterator is Ok() at %d but no non-zero position is left (model %v)", it.Index(), w.model)
		}
		w.its[s], w.mits[s] = nil, iterModel{}
		return
	}
	if !it.Ok() {
		w.failf("live-missed", "iterator ended, expected position %d (model %v)", exp[0], w.model)
		return
	}
	if it.Index() != exp[0] {
		code := "live-missed"
		if it.Index() < exp[0] {
			code = "live-extra"
		}
		w.failf(code, "iterator at %d, expected %d (model %v)", it.Index(), exp[0], w.model)
		return
	}
	c := it.GetConst()
	if c == nil || !f64eq(c.GetFloat64(), w.model[exp[0]]) {
		w.failf("live-value", "iterator at %d reports %v, model %v", exp[0], c, w.model)
		return
	}
	w.its[s], w.mits[s] = it, iterModel{live: true, cur: exp[0]}
}

func (w *vworld) checkUnchangedAfterAppend() {
	if w.v.Dim() != len(w.model) {
		w.failf("dim", "Append changed the dimension of its receiver to %d", w.v.Dim())
		return
	}
	w.readsOf(w.v, w.model, "receiver-")
}

// appendPatterns: operands for AppendVector so that the result has dimension <= cap
func appendPatterns(n, cap int) [][]int {
	var r [][]int
	if n+1 <= cap {
		r = append(r, []int{0}, []int{1})
	}
	if n+2 <= cap {
		r = append(r, []int{0, 2}, []int{1, 0})
	}
	return r
}

func (w *vworld) execSlice(o Op) {
	s := w.v.Slice(o.I, o.J)
	m := w.model[o.I:o.J]
	if s.Dim() != o.J-o.I {
		w.failf("slice-dim", "Slice(%d,%d).Dim() = %d", o.I, o.J, s.Dim())
		return
	}
	if !w.readsOf(s, m, "slice-") {
		return
	}
	if o.K >= 0 {
		s.At(o.K).SetFloat64(float64(o.V))
		w.model[o.I+o.K] = o.V
		m = w.model[o.I:o.J]
		if !w.readsOf(s, m, "slice-") {
			return
		}
	}
	idx, vals, fin := walkVec(s.ConstIterator(), len(m))
	exp := []int{}
	for i, x := range m {
		if x != 0 {
			exp = append(exp, i)
		}
	}
	w.cmpWalkOn("slice-iter", idx, vals, fin, exp, m)
}

func (w *vworld) execJoint(o Op) {
	n := len(w.model)
	mv, p, _ := menuVec(w.et, setPatterns(n), o.W)
	jit := w.v.JointIterator(mv)
	last := -1
	seen := map[int]bool{}
	for steps := 0; jit.Ok(); steps++ {
		if steps > 2*n+2 {
			w.failf("joint-nonterm", "joint iteration does not terminate")
			return
		}
		i := jit.Index()
		if i <= last || i < 0 || i >= n {
			w.failf("joint-order", "joint iterator index %d after %d (dim %d)", i, last, n)
			return
		}
		last = i
		seen[i] = true
		s1, s2 := jit.GetConst()
		v1, v2 := 0.0, 0.0
		if s1 != nil {
			v1 = s1.GetFloat64()
		}
		if s2 != nil {
			v2 = s2.GetFloat64()
		}
		if !f64eq(v1, w.model[i]) || !f64eq(v2, p[i]) {
			w.failf("joint-value", "joint iterator at %d reports (%v,%v), expected (%d,%d)", i, v1, v2, w.model[i], p[i])
			return
		}
		jit.Next()
	}
	for i := 0; i < n; i++ {
		if (w.model[i] != 0 || p[i] != 0) && !seen[i] {
			w.failf("joint-missed", "joint iteration of %v with %v visited %v, missed position %d", w.model, p, keysOf(seen), i)
			return
		}
	}
}

func keysOf(m map[int]bool) []int {
	r := []int{}
	for k := range m {
		r = append(r, k)
	}
	sort.Ints(r)
	return r
}

// walkVec consumes an iterator completely (bounded) and returns what it reported.
// A nil GetConst() is reported as value NaN-marker (-12345).
type constIt interface {
	GetConst() ad.ConstScalar
	Ok() bool
	Next()
	Index() int
}

func walkVec(it constIt, n int) (idx []int, vals []float64, fin bool) {
	for steps := 0; it.Ok(); steps++ {
		if steps > n+2 {
			return idx, vals, false
		}
		idx = append(idx, it.Index())
		c := it.GetConst()
		if c == nil {
			vals = append(vals, -12345)
		} else {
			vals = append(vals, c.GetFloat64())
		}
		it.Next()
	}
	return idx, vals, true
}

func (w *vworld) cmpWalk(prefix string, idx []int, vals []float64, fin bool, exp []int) {
	w.cmpWalkOn(prefix, idx, vals, fin, exp, w.model)
}

func (w *vworld) cmpWalkOn(prefix string, idx []int, vals []float64, fin bool, exp []int, model []int) {
	if !fin {
		w.failf(prefix+"-nonterm", "iteration does not terminate (visited %v..., model %v)", idx, model)
		return
	}
	for k := range idx {
		if k > 0 && idx[k] <= idx[k-1] {
			w.failf(prefix+"-order", "iteration visits %v (not strictly ascending), model %v", idx, model)
			return
		}
	}
	in := func(l []int, x int) bool {
		for _, y := range l {
			if y == x {
				return true
			}
		}
		return false
	}
	for _, x := range exp {
		if !in(idx, x) {
			w.failf(prefix+"-missed", "iteration visits %v, expected %v (model %v)", idx, exp, model)
			return
		}
	}
	for _, x := range idx {
		if !in(exp, x) {
			w.failf(prefix+"-extra", "iteration visits %v, expected %v (model %v)", idx, exp, model)
			return
		}
	}
	for k, x := range idx {
		if !f64eq(vals[k], model[x]) {
			w.failf(prefix+"-value", "iteration reports value %v at %d, model %v", vals[k], x, model)
			return
		}
	}
}

// readsOf: every in-range read of v succeeds and equals the model (non-mutating).
func (w *vworld) readsOf(v ad.ConstVector, model []int, prefix string) (ok bool) {
	i, name := 0, ""
	defer func() {
		if r := recover(); r != nil {
			w.failf(prefix+"read-panic", "%s(%d) panics: %v (model %v)", name, i, r, model)
			ok = false
		}
	}()
	for i = 0; i < len(model); i++ {
		want := model[i]
		name = "Float64At"
		if g := v.Float64At(i); !f64eq(g, want) {
			w.failf(prefix+"read-mismatch", "Float64At(%d) = %v, model %v", i, g, model)
			return false
		}
		name = "ConstAt"
		c := v.ConstAt(i)
		if c == nil || !f64eq(c.GetFloat64(), want) {
			w.failf(prefix+"read-mismatch", "ConstAt(%d) = %v, model %v", i, c, model)
			return false
		}
		name = "typed At"
		if int(v.Int8At(i)) != want || int(v.Int16At(i)) != want || int(v.Int32At(i)) != want ||
			int(v.Int64At(i)) != want || v.IntAt(i) != want || !f64eq(float64(v.Float32At(i)), want) {
			w.failf(prefix+"read-mismatch", "Int8At..Float32At(%d) disagree with model %v", i, model)
			return false
		}
	}
	return true
}

// ---- oracles run after every transition -------------------------------------------

// oracleReads is non-mutating and runs on the instance that defines the state.
func (w *vworld) oracleReads() {
	if w.fail != nil || w.v == nil {
		return
	}
	if w.v.Dim() != len(w.model) {
		w.failf("dim", "Dim() = %d, model has %d elements", w.v.Dim(), len(w.model))
		return
	}
	w.readsOf(w.v, w.model, "")
}

// oracleFresh runs on a second replay instance: a fresh full iteration visits exactly
// the non-zero positions, ascending, once; afterwards all reads still agree.
func (w *vworld) oracleFresh() {
	if w.fail != nil || w.v == nil {
		return
	}
	if w.j != nil {
		w.j.afterFresh = true
	}
	func() {
		defer func() {
			if r := recover(); r != nil {
				w.failf("iter-panic", "fresh iteration panics: %v (model %v)", r, w.model)
			}
		}()
		idx, vals, fin := walkVec(w.v.ConstIterator(), len(w.model))
		w.cmpWalk("iter", idx, vals, fin, w.nonzero(0))
		if w.fail == nil {
			_ = w.v.String()
		}
	}()
	if w.fail == nil {
		if w.v.Dim() != len(w.model) {
			w.failf("post-walk-dim", "Dim() = %d after an iteration", w.v.Dim())
			return
		}
		w.readsOf(w.v, w.model, "post-walk-")
	}
	if w.fail == nil {
		w.oracleViews()
	}
}

// oracleLive runs on a third replay instance: every live iterator is continued to its end.
func (w *vworld) oracleLive() {
	if w.fail != nil || w.v == nil {
		return
	}
	any := false
	for s, m := range w.mits {
		if !m.live {
			continue
		}
		any = true
		func() {
			defer func() {
				if r := recover(); r != nil {
					w.failf("live-panic", "continuing the live iterator positioned at %d panics: %v (model %v)", m.cur, r, w.model)
				}
			}()
			it := w.its[s]
			it.Next()
			idx, vals, fin := walkVec(it, len(w.model))
			if !m.stale {
				w.cmpWalk("live", idx, vals, fin, w.nonzero(m.cur+1))
				return
			}
			if !fin {
				w.failf("live-nonterm", "stale iterator does not terminate")
				return
			}
			last := m.cur
			for k, i := range idx {
				if i <= last || i >= len(w.model) {
					w.failf("live-order", "stale iterator at %d continues with %v", m.cur, idx)
					return
				}
				last = i
				if w.model[i] == 0 || !f64eq(vals[k], w.model[i]) {
					w.failf("live-value", "stale iterator reports value %v at %d, model %v", vals[k], i, w.model)
					return
				}
			}
		}()
		if w.fail != nil {
			return
		}
	}
	if w.j != nil && w.fail == nil {
		w.j.finish(w)
		any = true
	}
	if any && w.fail == nil {
		if w.v.Dim() != len(w.model) {
			w.failf("post-walk-dim", "Dim() = %d after continuing a live iterator", w.v.Dim())
			return
		}
		w.readsOf(w.v, w.model, "post-live-walk-")
	}
}

func (w *vworld) liveCount() int {
	n := 0
	for _, m := range w.mits {
		if m.live {
			n++
		}
	}
	return n
}

// canon: canonical state key = model + private state + live iterators.
func (w *vworld) canon() string {
	if w.v == nil {
		return "nil"
	}
	s := w.snapshot()
	if !s.ok {
		return "unknown"
	}
	var sb strings.Builder
	sb.WriteString(fmt.Sprint(w.model))
	sb.WriteByte('|')
	sb.WriteString(s.desc)
	sb.WriteByte('|')
	var ds []string
	for k, it := range w.its {
		if it == nil || !w.mits[k].live {
			continue
		}
		d, ok := describeIter(it, s.sh, s.pv.Tree, s.pv.Self, !w.unstable)
		if !ok {
			w.herr = fmt.Sprintf("overlay accessor does not understand iterator %T", it)
		}
		ds = append(ds, fmt.Sprintf("%s,cur=%d,stale=%v", d, w.mits[k].cur, w.mits[k].stale))
	}
	sort.Strings(ds)
	sb.WriteString(strings.Join(ds, ";"))
	sb.WriteString(w.j.canon(s.sh, s.pv.Tree, s.pv.Self, !w.unstable))
	return sb.String()
}

func (w *vworld) outcome() string {
	pv, _ := w.private()
	z := 0
	for _, c := range pv.Cells {
		if c.Zero {
			z++
		}
	}
	return fmt.Sprintf("ok:vector,n=%d,nonzero=%d,stored0=%d,iters=%d", len(w.model), len(w.nonzero(0)), z, w.liveCount())
}

// enabled lists every operation applicable in this state, simplest first.
func (w *vworld) enabled() []Op {
	if w.large {
		return w.enabledLarge()
	}
	if w.joint {
		return w.enabledJoint()
	}
	n := len(w.model)
	var ops []Op
	for i := 0; i < n; i++ {
		ops = append(ops, Op{C: "at", I: i})
	}
	for _, v := range []int{0, 1, 2, -1} { // -1: Sort places negative values separately
		for i := 0; i < n; i++ {
			ops = append(ops, Op{C: "set", I: i, V: v})
		}
	}
	ops = append(ops, Op{C: "walk"})
	ops = append(ops, Op{C: "reset"})
	for i := 0; i < n; i++ {
		for j := 0; j < n; j++ {
			ops = append(ops, Op{C: "swap", I: i, J: j})
		}
	}
	ops = append(ops, Op{C: "rev"}, Op{C: "sort"}, Op{C: "sort", B: true})
	for _, p := range perms(n) {
		ops = append(ops, Op{C: "perm", P: p})
	}
	sp := setPatterns(n)
	for k := 0; k < 2*len(sp); k++ {
		ops = append(ops, Op{C: "setw", W: k})
	}
	for k := range sp {
		ops = append(ops, Op{C: "SETw", W: 2*k + 1})
	}
	ops = append(ops, Op{C: "clone"})
	for i := 0; i <= n; i++ {
		for j := i; j <= n; j++ {
			if i == j {
				ops = append(ops, Op{C: "slw", I: i, J: j, K: -1})
				continue
			}
			for k := 0; k < j-i; k++ {
				for _, v := range []int{0, 2} {
					ops = append(ops, Op{C: "slw", I: i, J: j, K: k, V: v})
				}
			}
		}
	}
	mp := maskPatterns(n)
	for k := 0; k < 2*len(mp); k++ {
		ops = append(ops, Op{C: "vmulv", W: k})
	}
	for _, k := range subMenu(n, mp) {
		ops = append(ops, Op{C: "vmulv2", W: 2 * k}, Op{C: "vmulv2", W: 2*k + 1})
	}
	for _, k := range subMenu(n, sp) {
		ops = append(ops, Op{C: "vsubv", W: 2 * k}, Op{C: "vsubv", W: 2*k + 1})
	}
	for k := 0; k < 2; k++ {
		ops = append(ops, Op{C: "vaddv", W: k}, Op{C: "vaddv2", W: k})
	}
	ops = append(ops, Op{C: "vmuls", V: 0}, Op{C: "vmuls", V: 1})
	for i := 0; i < n; i++ {
		ops = append(ops, Op{C: "walkf", I: i})
	}
	for k := range sp {
		if n >= 4 && !contains(subMenu(n, sp), k) {
			continue // trimmed operand menu at the largest dimension
		}
		ops = append(ops, Op{C: "jwalk", W: 2 * k}, Op{C: "jwalk", W: 2*k + 1})
	}
	// live iterators
	free := -1
	for s := range w.its {
		if w.mits[s].live {
			ops = append(ops, Op{C: "inext", S: s}, Op{C: "idrop", S: s})
		} else if free < 0 {
			free = s
		}
	}
	if free >= 0 {
		ops = append(ops, Op{C: "iopen", S: free})
		for i := 1; i < n; i++ {
			ops = append(ops, Op{C: "ifrom", S: free, I: i})
		}
	}
	// Append (dimension capped)
	if n+1 <= w.cap {
		for v := 0; v <= 2; v++ {
			ops = append(ops, Op{C: "apps", V: v})
		}
		ops = append(ops, Op{C: "apps", V: 0, B: true}, Op{C: "apps", V: 1, B: true})
		ap := appendPatterns(n, w.cap)
		for k := 0; k < 2*len(ap); k++ {
			ops = append(ops, Op{C: "appv", W: k})
		}
	}
	return ops
}

func isAppend(o Op) bool { return o.C == "apps" || o.C == "appv" }

func contains(l []int, x int) bool {
	for _, y := range l {
		if y == x {
			return true
		}
	}
	return false
}

// repOps: operations enumerated from the representative state of a content signature only
// (views.go)
func (w *vworld) repOps() ([]Op, int) {
	if w.large || w.joint {
		return nil, 0 // the operand arithmetic is part of the large alphabet; no slice writers there
	}
	ops, skipped := w.sliceOps()
	for k := 0; k < vopCount; k++ {
		ops = append(ops, Op{C: "vop", W: k})
	}
	return ops, skipped
}
