package main

import (
	"fmt"
	"strconv"

	ad "github.com/pbenner/autodiff"
)

// Slices as RECEIVERS of the whole-container writers, and the container as an OPERAND of
// arithmetic into fresh receivers.
//
// These operations do not lead to new kinds of states (every cell content they produce is
// also produced by element writes), their outcome depends on the cell contents of the
// parent (stored / stored zero / absent inside and outside the window), not on the shape of
// the index or on iterator fields. They are therefore enumerated from ONE representative
// state -- the first one the BFS reaches -- of every distinct content signature (model,
// storage class of every position, key set of the index, dimensions), with every window
// (also those anchored at the origin and the full window), every writer and every operand
// of the writer menus.
//
// After the writer: the slice reads as the dense reference says; the views of all OTHER
// windows, taken before the writer ran, read as the model says; then the ordinary oracles
// of the check judge the PARENT (every read, fresh iteration, reads again) and finally every
// view is iterated and read once more.

// ---- content signature -----------------------------------------------------------

// sigMode: sigFull = values + storage class of every position + index key set;
// sigClass = the values collapsed to non-zero; sigPattern = the non-zero pattern of the model only
const (
	sigFull = iota
	sigClass
	sigPattern
)

func contentSigVec(model string, pv ad.VerifC11Vec, sh *shape, extra string, mode int) string {
	buf := make([]byte, 0, 96)
	buf = append(buf, extra...)
	buf = append(buf, model...)
	if mode == sigPattern {
		return string(buf)
	}
	buf = append(buf, '|')
	for _, c := range pv.Cells {
		buf = strconv.AppendInt(buf, int64(c.Key), 10)
		switch {
		case c.Nil:
			buf = append(buf, 'N')
		case c.Zero:
			buf = append(buf, 'z')
		}
		buf = append(buf, ',')
	}
	buf = append(buf, '|')
	for _, k := range sh.keys {
		buf = strconv.AppendInt(buf, int64(k), 10)
		buf = append(buf, ',')
	}
	return string(buf)
}

func (w *vworld) contentSig() string {
	s := w.snapshot()
	if !s.ok {
		return ""
	}
	return contentSigVec(fmt.Sprint(w.model), s.pv, s.sh, "", sigFull)
}

func (w *mworld) contentSig() string {
	s := w.snapshot()
	if !s.ok {
		return ""
	}
	extra := fmt.Sprintf("%dx%d off=%d,%d max=%d,%d|", s.pm.Rows, s.pm.Cols, s.pm.RowOffset, s.pm.ColOffset, s.pm.RowMax, s.pm.ColMax)
	// shapes of at most 4 cells: every content has its representative; larger shapes: one per
	// non-zero pattern (quick) or per storage-class pattern (thorough)
	R, C := w.dims()
	mode := sigFull
	if R*C > 4 {
		mode = sigPattern
		if thoroughMenus {
			mode = sigClass
		}
	}
	model := fmt.Sprint(w.model)
	if mode != sigFull {
		b := make([]byte, 0, R*C+R)
		for i := range w.model {
			for _, x := range w.model[i] {
				if x != 0 {
					b = append(b, '1')
				} else {
					b = append(b, '0')
				}
			}
			b = append(b, '/')
		}
		model = string(b)
	}
	return contentSigVec(model, s.pm.Values, s.sh, extra, mode)
}

// ---- vectors -----------------------------------------------------------------------

type vview struct {
	v      ad.ConstVector
	lo, hi int
	name   string
}

// vector writers (Op.S); Op.W selects the operand
const (
	vwReset = iota
	vwSet
	vwVmulS
	vwMap
	vwMapSet
	vwVaddV
	vwVmulV
	vwCount
)

func vecWriterName(o Op) string {
	kind := "dense"
	if o.W%2 == 1 {
		kind = "sparse"
	}
	switch o.S {
	case vwReset:
		return "Reset"
	case vwSet:
		return "Set(" + kind + ")"
	case vwVmulS:
		return fmt.Sprintf("VmulS(s,s,%d)", o.W)
	case vwMap:
		return "Map(zero)"
	case vwMapSet:
		if o.W == 0 {
			return "MapSet(identity)"
		}
		return "MapSet(1<->2)"
	case vwVaddV:
		return "VaddV(s," + kind + ",0)"
	case vwVmulV:
		return "VmulV(s,s," + kind + "-mask)"
	}
	return "writer?"
}

// number of operand choices of writer s for a window of dimension d
func vecWriterOperands(s, d int) int {
	switch s {
	case vwSet, vwVaddV:
		return 2 * len(setPatterns(d))
	case vwVmulV:
		return 2 * len(maskPatterns(d))
	case vwVmulS, vwMapSet:
		return 2
	}
	return 1
}

// applyVecWriter runs writer (S, W) with receiver r (the sparse slice, or the dense
// reference vector of the same element type).
func applyVecWriter(e elem, r ad.Vector, o Op) {
	d := r.Dim()
	switch o.S {
	case vwReset:
		r.Reset()
	case vwSet:
		mv, _, _ := menuVec(e, setPatterns(d), o.W)
		r.Set(mv)
	case vwVmulS:
		r.VmulS(r, ad.NewScalar(e.t, float64(o.W)))
	case vwMap:
		r.Map(func(x ad.Scalar) { x.SetFloat64(0) })
	case vwMapSet:
		swap := o.W == 1
		r.MapSet(func(c ad.ConstScalar) ad.Scalar {
			x := c.GetFloat64()
			if swap && x == 1 {
				x = 2
			} else if swap && x == 2 {
				x = 1
			}
			return ad.NewScalar(e.t, x)
		})
	case vwVaddV:
		mv, _, _ := menuVec(e, setPatterns(d), o.W)
		r.VaddV(mv, denseVec(e, make([]int, d)))
	case vwVmulV:
		mv, _, _ := menuVec(e, maskPatterns(d), o.W)
		r.VmulV(r, mv)
	default:
		panic("unknown vector writer")
	}
}

// vecWriterExpect: the window after the writer, by the dense vector of the same element type.
func (w *vworld) vecWriterExpect(o Op) (exp []int, err string) {
	defer func() {
		if r := recover(); r != nil {
			err = fmt.Sprintf("reference (dense %s vector) panicked in %s: %v", w.et.name, vecWriterName(o), r)
		}
	}()
	d := denseVec(w.et, w.model[o.I:o.J])
	applyVecWriter(w.et, d, o)
	return readDense(d), ""
}

func vecWindowClass(lo, hi, n int) string {
	switch {
	case lo == 0 && hi == n:
		return "window=full"
	case lo == 0:
		return "window=origin"
	}
	return "window=offset"
}

// sliceOps: every window x writer x operand. A sparse vector slice is not a view: it shares
// the STORED scalars of its parent only (known open finding `Slice+write|...|parent-cell=absent`),
// and a stored ZERO is dropped from the slice by the slice's own purging iterators before
// an iterating writer reaches it. A writer that must produce a non-zero value at a position
// where the parent holds no non-zero entry is therefore a manifestation of that finding and
// is not enumerated here (counted in skipped).
func (w *vworld) sliceOps() (ops []Op, skipped int) {
	n := len(w.model)
	s := w.snapshot()
	if !s.ok {
		return nil, 0
	}
	stored := make([]bool, n) // holds a non-zero entry
	for _, c := range s.pv.Cells {
		if c.Key >= 0 && c.Key < n && !c.Zero && !c.Nil {
			stored[c.Key] = true
		}
	}
	for lo := 0; lo < n; lo++ {
		for hi := lo + 1; hi <= n; hi++ {
			for wr := 0; wr < vwCount; wr++ {
				for k := 0; k < vecWriterOperands(wr, hi-lo); k++ {
					o := Op{C: "slop", I: lo, J: hi, S: wr, W: k}
					exp, err := w.vecWriterExpect(o)
					if err != "" {
						w.herr = err
						return nil, 0
					}
					known := false
					for i, x := range exp {
						if x != 0 && !stored[lo+i] {
							known = true
						}
					}
					if known {
						skipped++
						continue
					}
					ops = append(ops, o)
				}
			}
		}
	}
	return ops, skipped
}

func (w *vworld) execSliceOp(o Op) {
	n := len(w.model)
	lo, hi := o.I, o.J
	var views []vview
	for a := 0; a < n; a++ {
		for b := a + 1; b <= n; b++ {
			if a == lo && b == hi {
				continue
			}
			// quick tier: the full window and the complements of the written window;
			// thorough tier: every other window
			if thoroughMenus || a == 0 && b == n || a == 0 && b == lo || a == hi && b == n {
				views = append(views, vview{w.v.Slice(a, b), a, b, "sibling-"})
			}
		}
	}
	s := w.v.Slice(lo, hi)
	if s.Dim() != hi-lo {
		w.failf("slice-dim", "Slice(%d,%d).Dim() = %d", lo, hi, s.Dim())
		return
	}
	if !w.readsOf(s, w.model[lo:hi], "slice-") {
		return
	}
	exp, err := w.vecWriterExpect(o)
	if err != "" {
		w.herr = err
		return
	}
	applyVecWriter(w.et, s, o)
	copy(w.model[lo:hi], exp)
	if s.Dim() != hi-lo {
		w.failf("slice-dim", "Slice(%d,%d).Dim() = %d after %s", lo, hi, s.Dim(), vecWriterName(o))
		return
	}
	if !w.readsOf(s, w.model[lo:hi], "slice-") {
		return
	}
	for _, vw := range views {
		if vw.v.Dim() != vw.hi-vw.lo {
			w.failf("sibling-dim", "the view Slice(%d,%d) has dimension %d after %s on Slice(%d,%d)", vw.lo, vw.hi, vw.v.Dim(), vecWriterName(o), lo, hi)
			return
		}
		if !w.readsOf(vw.v, w.model[vw.lo:vw.hi], "sibling-") {
			w.fail.what = fmt.Sprintf("view Slice(%d,%d) taken before the writer: ", vw.lo, vw.hi) + w.fail.what
			return
		}
	}
	w.views = append([]vview{{s, lo, hi, "slice-"}}, views...)
}

// oracleViews: after the parent was judged, every view is iterated and read again.
func (w *vworld) oracleViews() {
	for _, vw := range w.views {
		if w.fail != nil {
			return
		}
		m := w.model[vw.lo:vw.hi]
		func() {
			defer func() {
				if r := recover(); r != nil {
					w.failf(vw.name+"iter-panic", "iterating the view Slice(%d,%d) panics: %v (model %v)", vw.lo, vw.hi, r, w.model)
				}
			}()
			idx, vals, fin := walkVec(vw.v.ConstIterator(), len(m))
			exp := []int{}
			for i, x := range m {
				if x != 0 {
					exp = append(exp, i)
				}
			}
			w.cmpWalkOn(vw.name+"iter", idx, vals, fin, exp, m)
			if w.fail == nil {
				w.readsOf(vw.v, m, vw.name+"post-walk-")
			}
		}()
	}
	w.views = nil
}

// ---- the vector as an operand of arithmetic into fresh receivers -----------------------

const vopCount = 7

func vopName(k int) string {
	switch k {
	case 0:
		return "sparse.VaddV(x,dense-0)"
	case 1:
		return "dense.VaddV(sparse-0,x)"
	case 2:
		return "sparse.VmulV(x,dense-1)"
	case 3:
		return "sparse.Set(x)"
	case 4:
		return "dense.Set(x)"
	case 5:
		return "x.Equals(dense)"
	case 6:
		return "sparse.Equals(x)"
	}
	return "vop?"
}

func (w *vworld) execOperand(o Op) {
	n := len(w.model)
	e := w.et
	zero := make([]int, n)
	ones := make([]int, n)
	for i := range ones {
		ones[i] = 1
	}
	var r ad.Vector
	switch o.W {
	case 0:
		r = ad.NullSparseVector(e.t, n)
		r.VaddV(w.v, denseVec(e, zero))
	case 1:
		r = ad.NullDenseVector(e.t, n)
		r.VaddV(sparseVec(e, zero), w.v)
	case 2:
		r = ad.NullSparseVector(e.t, n)
		r.VmulV(w.v, denseVec(e, ones))
	case 3:
		r = ad.NullSparseVector(e.t, n)
		r.Set(w.v)
	case 4:
		r = ad.NullDenseVector(e.t, n)
		r.Set(w.v)
	case 5:
		if !w.v.Equals(denseVec(e, w.model), 1e-8) {
			w.failf("equals", "x.Equals(dense vector holding the model %v) is false", w.model)
		}
		return
	case 6:
		if !sparseVec(e, w.model).Equals(w.v, 1e-8) {
			w.failf("equals", "(sparse vector holding the model %v).Equals(x) is false", w.model)
		}
		return
	default:
		w.herr = "unknown vop"
		return
	}
	for i := 0; i < n; i++ {
		if g := r.Float64At(i); !f64eq(g, w.model[i]) {
			w.failf("result-mismatch", "%s: result has %v at %d, x is %v", vopName(o.W), g, i, w.model)
			return
		}
	}
	exp := []int{}
	for i, x := range w.model {
		if x != 0 {
			exp = append(exp, i)
		}
	}
	if o.W == 0 || o.W == 2 || o.W == 3 { // sparse results: their iteration shows exactly the non-zero elements of x
		idx, vals, fin := walkVec(r.ConstIterator(), n)
		w.cmpWalkOn("result-iter", idx, vals, fin, exp, w.model)
	}
}

// ---- matrices ------------------------------------------------------------------------

type mview struct {
	m              ad.ConstMatrix
	r0, r1, c0, c1 int
	name           string
}

const (
	mwReset = iota
	mwIdentity
	mwSet
	mwMdotM
	mwOuter
	mwMap
	mwMapSet
	mwMmulS
	mwMsubM
	mwMmulM
	mwCount
)

func kindName(k int) string {
	if k%2 == 0 {
		return "dense"
	}
	return "sparse"
}

func matWriterName(o Op) string {
	switch o.V {
	case mwReset:
		return "Reset"
	case mwIdentity:
		return "SetIdentity"
	case mwSet:
		return "Set(" + kindName(o.W) + ")"
	case mwMdotM:
		return "MdotM(" + kindName(o.W) + ")"
	case mwOuter:
		return "Outer(" + kindName(o.W) + ")"
	case mwMap:
		return fmt.Sprintf("Map(:=%d)", o.W)
	case mwMapSet:
		return "MapSet(not)"
	case mwMmulS:
		return fmt.Sprintf("MmulS(s,s,%d)", o.W)
	case mwMsubM:
		return "MsubM(s,x,x)"
	case mwMmulM:
		return "MmulM(s,s,ones)"
	}
	return "writer?"
}

// factor patterns of the products: result(i,j) = a[i]*b[j] (variants 0..3), or rows
// alternating ones / zeros through an inner dimension of 2 (variant 4, MdotM only)
func prodFactors(variant, r, c, maxv int) (a, b []int) {
	a, b = make([]int, r), make([]int, c)
	switch variant {
	case 0:
		for i := range a {
			a[i] = 1
		}
		for j := range b {
			b[j] = 1
		}
	case 1:
		for i := range a {
			a[i] = 1
		}
		b[0] = maxv
	case 2:
		a[r-1] = 1
		for j := range b {
			b[j] = 1
		}
	case 3:
		a[r-1] = 1
		b[0] = maxv
	}
	return
}

func matWriterOperands(s, r, c int, few bool) int {
	switch s {
	case mwSet:
		np := len(matPatterns(r, c))
		if few && np > 3 {
			np = 3
		}
		return 2 * np
	case mwMdotM:
		return 2 * 5
	case mwOuter:
		return 2 * 4
	case mwMap, mwMmulS:
		return 2
	}
	return 1
}

func clampPat(p []int, maxv int) []int {
	q := make([]int, len(p))
	for i, x := range p {
		if x > maxv {
			x = maxv
		}
		q[i] = x
	}
	return q
}

func buildMat(e elem, r, c int, p []int, sparse bool) ad.Matrix {
	if sparse {
		return sparseMat(e, r, c, p)
	}
	return denseMat(e, r, c, p)
}

func buildVec(e elem, p []int, sparse bool) ad.Vector {
	if sparse {
		return sparseVec(e, p)
	}
	return denseVec(e, p)
}

// applyMatWriter runs writer (V, W) with the slice s as receiver and returns the window
// the plain model expects afterwards.
func applyMatWriter(e elem, s ad.Matrix, o Op, win [][]int, maxv int) [][]int {
	r, c := len(win), len(win[0])
	exp := newModel(r, c)
	sparse := o.W%2 == 1
	switch o.V {
	case mwReset:
		s.Reset()
	case mwIdentity:
		s.SetIdentity()
		for i := 0; i < r && i < c; i++ {
			exp[i][i] = 1
		}
	case mwSet:
		p := clampPat(matPatterns(r, c)[o.W/2], maxv)
		s.Set(buildMat(e, r, c, p, sparse))
		for k, x := range p {
			exp[k/c][k%c] = x
		}
	case mwMdotM:
		if o.W/2 < 4 {
			a, b := prodFactors(o.W/2, r, c, maxv)
			s.MdotM(buildMat(e, r, 1, a, sparse), buildMat(e, 1, c, b, sparse))
			for i := range exp {
				for j := range exp[i] {
					exp[i][j] = a[i] * b[j]
				}
			}
		} else {
			a := make([]int, 2*r)
			for i := 0; i < r; i++ {
				a[2*i+i%2] = 1
			}
			b := make([]int, 2*c)
			for j := 0; j < c; j++ {
				b[j] = 1
			}
			s.MdotM(buildMat(e, r, 2, a, sparse), buildMat(e, 2, c, b, sparse))
			for i := range exp {
				for j := range exp[i] {
					if i%2 == 0 {
						exp[i][j] = 1
					}
				}
			}
		}
	case mwOuter:
		a, b := prodFactors(o.W/2, r, c, maxv)
		s.Outer(buildVec(e, a, sparse), buildVec(e, b, sparse))
		for i := range exp {
			for j := range exp[i] {
				exp[i][j] = a[i] * b[j]
			}
		}
	case mwMap:
		v := float64(o.W)
		s.Map(func(x ad.Scalar) { x.SetFloat64(v) })
		for i := range exp {
			for j := range exp[i] {
				exp[i][j] = o.W
			}
		}
	case mwMapSet:
		s.MapSet(func(x ad.ConstScalar) ad.Scalar {
			if x.GetFloat64() == 0 {
				return ad.NewScalar(e.t, 1)
			}
			return ad.NewScalar(e.t, 0)
		})
		for i := range exp {
			for j := range exp[i] {
				if win[i][j] == 0 {
					exp[i][j] = 1
				}
			}
		}
	case mwMmulS:
		s.MmulS(s, ad.NewScalar(e.t, float64(o.W)))
		for i := range exp {
			for j := range exp[i] {
				exp[i][j] = win[i][j] * o.W
			}
		}
	case mwMsubM:
		p := make([]int, r*c)
		for k := range p {
			p[k] = 1
		}
		x := sparseMat(e, r, c, p)
		s.MsubM(x, x)
	case mwMmulM:
		p := make([]int, r*c)
		for k := range p {
			p[k] = 1
		}
		s.MmulM(s, denseMat(e, r, c, p))
		for i := range exp {
			copy(exp[i], win[i])
		}
	default:
		panic("unknown matrix writer")
	}
	return exp
}

func matWindowClass(o Op, R, C int) string {
	switch {
	case o.I == 0 && o.K == 0 && o.J == R && o.L == C:
		return "window=full"
	case o.I == 0 && o.K == 0:
		return "window=origin"
	}
	return "window=offset"
}

func (w *mworld) maxv() int {
	if w.values2 {
		return 1
	}
	return 2
}

// sliceOps: every window (also the full one) x writer x operand
func (w *mworld) sliceOps() []Op {
	R, C := w.dims()
	few := false
	var ops []Op
	for r0 := 0; r0 < R; r0++ {
		for r1 := r0 + 1; r1 <= R; r1++ {
			for c0 := 0; c0 < C; c0++ {
				for c1 := c0 + 1; c1 <= C; c1++ {
					for wr := 0; wr < mwCount; wr++ {
						for k := 0; k < matWriterOperands(wr, r1-r0, c1-c0, few); k++ {
							ops = append(ops, Op{C: "mslop", I: r0, J: r1, K: c0, L: c1, V: wr, W: k})
						}
					}
				}
			}
		}
	}
	return ops
}

func (w *mworld) window(r0, r1, c0, c1 int) [][]int {
	m := newModel(r1-r0, c1-c0)
	for i := range m {
		for j := range m[i] {
			m[i][j] = w.model[r0+i][c0+j]
		}
	}
	return m
}

func (w *mworld) execSliceOp(o Op) {
	R, C := w.dims()
	var views []mview
	for r0 := 0; r0 < R; r0++ {
		for r1 := r0 + 1; r1 <= R; r1++ {
			for c0 := 0; c0 < C; c0++ {
				for c1 := c0 + 1; c1 <= C; c1++ {
					if r0 == o.I && r1 == o.J && c0 == o.K && c1 == o.L {
						continue
					}
					// quick tier: the full window and the four complement blocks of the written
					// window (rows above / below, columns left / right); thorough tier, at most 4 cells: every other window
					fullRows, fullCols := r0 == 0 && r1 == R, c0 == 0 && c1 == C
					if thoroughMenus && R*C <= 4 || fullRows && fullCols ||
						fullCols && (r0 == 0 && r1 == o.I || r0 == o.J && r1 == R) ||
						fullRows && (c0 == 0 && c1 == o.K || c0 == o.L && c1 == C) {
						views = append(views, mview{w.m.Slice(r0, r1, c0, c1), r0, r1, c0, c1, "sibling-"})
					}
				}
			}
		}
	}
	s := w.m.Slice(o.I, o.J, o.K, o.L)
	win := w.window(o.I, o.J, o.K, o.L)
	if r, c := s.Dims(); r != o.J-o.I || c != o.L-o.K {
		w.failf("slice-dim", "Slice(%d,%d,%d,%d).Dims() = %d,%d", o.I, o.J, o.K, o.L, r, c)
		return
	}
	if !w.readsOf(s, win, "slice-") {
		return
	}
	exp := applyMatWriter(w.et, s, o, win, w.maxv())
	for i := range exp {
		copy(w.model[o.I+i][o.K:o.L], exp[i])
	}
	if r, c := s.Dims(); r != o.J-o.I || c != o.L-o.K {
		w.failf("slice-dim", "Slice(%d,%d,%d,%d).Dims() = %d,%d after %s", o.I, o.J, o.K, o.L, r, c, matWriterName(o))
		return
	}
	if !w.readsOf(s, exp, "slice-") {
		return
	}
	for _, vw := range views {
		if r, c := vw.m.Dims(); r != vw.r1-vw.r0 || c != vw.c1-vw.c0 {
			w.failf("sibling-dim", "the view Slice(%d,%d,%d,%d) is %dx%d after %s", vw.r0, vw.r1, vw.c0, vw.c1, r, c, matWriterName(o))
			return
		}
		if !w.readsOf(vw.m, w.window(vw.r0, vw.r1, vw.c0, vw.c1), "sibling-") {
			w.fail.what = fmt.Sprintf("view Slice(%d,%d,%d,%d) taken before the writer: ", vw.r0, vw.r1, vw.c0, vw.c1) + w.fail.what
			return
		}
	}
	w.views = append([]mview{{s, o.I, o.J, o.K, o.L, "slice-"}}, views...)
}

func (w *mworld) oracleViews() {
	for _, vw := range w.views {
		if w.fail != nil {
			return
		}
		m := w.window(vw.r0, vw.r1, vw.c0, vw.c1)
		func() {
			defer func() {
				if r := recover(); r != nil {
					w.failf(vw.name+"iter-panic", "iterating the view Slice(%d,%d,%d,%d) panics: %v (model %v)", vw.r0, vw.r1, vw.c0, vw.c1, r, w.model)
				}
			}()
			idx, vals, fin := walkMat(vw.m.ConstIterator(), len(w.model)*len(w.model[0]))
			w.cmpWalk(vw.name+"iter", idx, vals, fin, nonzeroOf(m), m)
			if w.fail == nil {
				w.readsOf(vw.m, m, vw.name+"post-walk-")
			}
		}()
	}
	w.views = nil
}

func opIsRepOnly(o Op) bool { return o.C == "slop" || o.C == "mslop" || o.C == "vop" }
