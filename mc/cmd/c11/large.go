package main

// Large containers: histories on ONE sparse vector of dimension 7..10 whose index tree has
// depth >= 3, with insertions and DELETIONS of inner nodes.
//
// The state is, as everywhere in this check, model + private state (key set of the map with
// stored-zero flags, index tree with shape and balance factors) (+ live iterators), so the
// BFS visits every (key subset, tree shape) pair that insertions and deletions can produce
// -- the canonical shapes, not all insertion orders -- and from each of them executes every
// operation of the reduced alphabet below. Element values are 0 and 1 only (the values are
// the business of the small explorations).
//
// Bound on the stored zeros: while a state holds at most Z stored zeros every operation is
// enabled as long as an element write does not exceed Z; the bulk writers (Reset,
// VmulS(x,x,0)) may zero everything at once, and from a state with more than Z stored
// zeros only the purging operations (the walks and the operand arithmetic) are enabled
// (a single iteration then deletes up to n index entries while it traverses the tree).

func (w *vworld) storedZeros() int {
	s := w.snapshot()
	z := 0
	if s.ok {
		for _, c := range s.pv.Cells {
			if c.Zero || c.Nil {
				z++
			}
		}
	}
	return z
}

func (w *vworld) enabledLarge() []Op {
	n := len(w.model)
	s := w.snapshot()
	if !s.ok {
		return nil
	}
	stored := make([]bool, n)
	zero := make([]bool, n)
	z := 0
	for _, c := range s.pv.Cells {
		if c.Key >= 0 && c.Key < n {
			stored[c.Key] = true
			if c.Zero || c.Nil {
				zero[c.Key] = true
				z++
			}
		}
	}
	var ops []Op
	normal := z <= w.maxZ
	if normal {
		for i := 0; i < n; i++ {
			ops = append(ops, Op{C: "set", I: i, V: 1})
		}
		for i := 0; i < n; i++ {
			if zero[i] {
				continue // rewriting a stored zero changes nothing
			}
			if z+1 <= w.maxZ {
				ops = append(ops, Op{C: "set", I: i, V: 0})
			}
		}
	}
	// purging operations
	ops = append(ops, Op{C: "walk"})
	for i := 1; i < n; i++ {
		ops = append(ops, Op{C: "walkf", I: i})
	}
	sp := setPatterns(n)
	for _, k := range subMenu(n, sp) {
		ops = append(ops, Op{C: "jwalk", W: 2 * k}, Op{C: "jwalk", W: 2*k + 1})
	}
	for k := 0; k < vopCount; k++ {
		ops = append(ops, Op{C: "vop", W: k})
	}
	if normal {
		// entry moves: Swap with at least one stored position (two absent positions: nothing is executed)
		for i := 0; i < n; i++ {
			for j := i + 1; j < n; j++ {
				if stored[i] || stored[j] {
					ops = append(ops, Op{C: "swap", I: i, J: j})
				}
			}
		}
		if len(s.pv.Cells) > 0 {
			ops = append(ops, Op{C: "reset"}, Op{C: "vmuls", V: 0})
		}
		ops = append(ops, Op{C: "clone"})
	}
	// live iterators
	free := -1
	for sl := range w.its {
		if w.mits[sl].live {
			ops = append(ops, Op{C: "inext", S: sl}, Op{C: "idrop", S: sl})
		} else if free < 0 {
			free = sl
		}
	}
	if free >= 0 {
		ops = append(ops, Op{C: "iopen", S: free})
		for i := 1; i < n; i++ {
			ops = append(ops, Op{C: "ifrom", S: free, I: i})
		}
	}
	return ops
}
