package main

import (
	"fmt"
	"reflect"
	"sort"
	"strings"

	ad "github.com/pbenner/autodiff"
)

// Sparse matrices: same scheme as for vectors. The reference is a plain row-major
// integer model (never the dense matrix type: its views are the subject of C10).

type miterModel struct {
	live   bool
	ci, cj int
	stale  bool
}

type mworld struct {
	base
	m       ad.Matrix
	model   [][]int // rows x cols
	its     []ad.MatrixIterator
	mits    []miterModel
	curOp   string
	curCls  string
	curLive string
	snap    *msnap
	values2 bool    // matrix values restricted to {0,1} (large shapes in the quick tier)
	views   []mview // slice + sibling views left by the last slice-writer operation (views.go)
	joint   bool    // reduced alphabet with one live joint iterator (joint.go)
	jforms  []int
	jmut    bool
	j       *jslot
}

type msnap struct {
	pm   ad.VerifC11Mat
	desc string
	warn string
	sh   *shape
	ok   bool
}

func newMWorld(e elem, slots int) *mworld {
	w := &mworld{}
	w.et = e
	w.its = make([]ad.MatrixIterator, slots)
	w.mits = make([]miterModel, slots)
	return w
}

func (w *mworld) harnessErr() string { return w.herr }
func (w *mworld) warning() string    { return w.warn }
func (w *mworld) warningOp() string  { return w.warnOp }

func (w *mworld) dims() (int, int) {
	if len(w.model) == 0 {
		return 0, 0
	}
	return len(w.model), len(w.model[0])
}

func newModel(r, c int) [][]int {
	m := make([][]int, r)
	for i := range m {
		m[i] = make([]int, c)
	}
	return m
}

func (w *mworld) failf(code, f string, a ...any) {
	if w.fail != nil {
		return
	}
	cls := w.curCls
	if strings.HasPrefix(code, "live-") || strings.HasPrefix(code, "post-live-") {
		cls += w.curLive
	}
	w.fail = &failure{
		key:  fmt.Sprintf("%s|matrix|elem=%s|%s|%s", w.curOp, w.et.name, cls, code),
		what: fmt.Sprintf(f, a...),
	}
}

func (w *mworld) snapshot() *msnap {
	if w.snap != nil {
		return w.snap
	}
	s := &msnap{}
	s.pm = ad.VerifC11Matrix(w.m)
	s.ok = s.pm.Known
	if !s.ok {
		w.herr = fmt.Sprintf("overlay accessor does not understand %T", w.m)
	} else {
		pv := s.pm.Values
		// the shape of the index tree is never part of a matrix state (the vector explorations
		// cover the tree shapes): key set only. w.unstable (index rebuilt in Go map order by
		// T()) additionally stops following iterators left behind by a reordering operation.
		var d string
		d, s.warn, s.sh = describeVec(pv, false)
		s.desc = fmt.Sprintf("%dx%d off=%d,%d max=%d,%d tmp=%d,%d %s", s.pm.Rows, s.pm.Cols, s.pm.RowOffset, s.pm.ColOffset, s.pm.RowMax, s.pm.ColMax, s.pm.Tmp1, s.pm.Tmp2, d)
	}
	w.snap = s
	return s
}

// storage index of element (i,j) as the implementation computes it (annotation only)
func storageIndex(pm ad.VerifC11Mat, i, j int) int {
	return (pm.RowOffset+i)*pm.ColMax + pm.ColOffset + j
}

func matOpName(o Op) string {
	kind := func(w int) string {
		if w%2 == 0 {
			return "dense"
		}
		return "sparse"
	}
	switch o.C {
	case "mat":
		return "At"
	case "mset":
		if o.V == 0 {
			return "At.SetFloat64(0)"
		}
		return "At.SetFloat64(nz)"
	case "mreset":
		return "Reset"
	case "mident":
		return "SetIdentity"
	case "msetw":
		return "Set(" + kind(o.W) + ")"
	case "mswap":
		return "Swap"
	case "mswapr":
		return "SwapRows"
	case "mswapc":
		return "SwapColumns"
	case "mpermr":
		return "PermuteRows"
	case "mpermc":
		return "PermuteColumns"
	case "msymp":
		return "SymmetricPermutation"
	case "mT":
		return "T"
	case "mTip":
		return "Tip"
	case "mslw":
		if o.V < 0 {
			return "Slice"
		}
		return "Slice+write"
	case "mrow":
		return "Row"
	case "mcol":
		return "Col"
	case "mcrow":
		return "ConstRow"
	case "mdiag":
		return "Diag"
	case "mwalk":
		return "Iterator-walk"
	case "mwalkf":
		return "IteratorFrom-walk"
	case "mjwalk":
		return "JointIterator(" + kind(o.W) + ")-walk"
	case "mclone":
		return "Clone"
	case "miopen":
		return "Iterator-open"
	case "mifrom":
		return "IteratorFrom-open"
	case "minext":
		return "Iterator.Next"
	case "midrop":
		return "Iterator-drop"
	case "mslop":
		return "Slice+" + matWriterName(o)
	case "mjopen", "mjnext", "mjdrop", "mbset", "mbwalk":
		return jointOpName(o)
	}
	return o.C
}

func (w *mworld) shapeClass() string {
	r, c := w.dims()
	switch {
	case r == c:
		return "square"
	case r < c:
		return "wide"
	}
	return "tall"
}

func (w *mworld) classify(o Op, s *msnap) string {
	pv := s.pm.Values
	cc := func(i, j int) string { return cellClass(pv, s.sh, storageIndex(s.pm, i, j)) }
	cls := w.shapeClass() + ","
	switch o.C {
	case "mat", "mset", "mwalkf", "mifrom":
		cls += "cell=" + cc(o.I, o.J)
	case "mswap":
		cls += "a=" + cc(o.I, o.J) + ",b=" + cc(o.K, o.L)
	case "msetw", "mjwalk":
		r, c := w.dims()
		cls += "operand=" + patClass(matPatterns(r, c)[o.W/2])
	case "mslop":
		R, C := w.dims()
		cls += matWindowClass(o, R, C)
	case "mslw":
		if o.V >= 0 {
			cls += "parent-cell=" + cc(o.I+o.S, o.K+o.W)
		} else {
			cls += summaryClass(pv)
		}
	default:
		cls += summaryClass(pv)
	}
	if w.warnOp != "" {
		cls += ",incoherent" // the early warning in the text names the operation that introduced it
	}
	w.curLive = ""
	for k, m := range w.mits {
		if m.live && m.stale {
			w.curLive += fmt.Sprintf(",iter%d-stale", k)
		}
	}
	return cls
}

func (w *mworld) apply(o Op) {
	w.step++
	if o.C == "minit" {
		w.m = ad.NullSparseMatrix(w.et.t, o.I, o.J)
		w.model = newModel(o.I, o.J)
		w.values2 = o.B
		w.curOp, w.curCls = "init", ""
		return
	}
	if w.m == nil {
		w.herr = "history does not start with minit"
		return
	}
	if w.fail != nil {
		return
	}
	w.curOp, w.curCls = "", ""
	w.views = nil
	if !w.quiet {
		s := w.snapshot()
		if !s.ok {
			return
		}
		w.curOp = matOpName(o)
		w.curCls = w.classify(o, s)
	}
	w.snap = nil
	if w.j != nil {
		w.j.flags, w.j.side = 0, jointSide(o)
	}
	func() {
		defer func() {
			if r := recover(); r != nil {
				w.failf("op-panic", "panic in %v: %v", o, r)
			}
		}()
		w.exec(o)
	}()
	if w.j != nil {
		w.j.noteChanges(w)
	}
	w.settle()
	if !w.quiet && w.warn == "" {
		if s := w.snapshot(); s.ok && s.warn != "" {
			w.warn = fmt.Sprintf("first private incoherence after step %d (%s): %s", w.step, w.curOp, s.warn)
			w.warnOp = w.curOp
		}
	}
	for k := range w.mits {
		if w.mits[k].live && w.its[k] == nil {
			w.mits[k] = miterModel{}
		}
	}
}

// settle: see vworld.settle
func (w *mworld) settle() {
	if !w.unstable || w.m == nil || w.liveCount() != 0 {
		return
	}
	pm := ad.VerifC11Matrix(w.m)
	pv := pm.Values
	if pm.Known && len(pv.Cells) <= 1 && (pv.Tree == nil || pv.Tree.Root == nil || pv.Tree.Root.Left == nil && pv.Tree.Root.Right == nil) {
		w.unstable = false
	}
}

func (w *mworld) dropIters() {
	for k := range w.its {
		w.its[k], w.mits[k] = nil, miterModel{}
	}
}

func (w *mworld) markStale() {
	if w.unstable {
		w.dropIters() // see vworld.markStale
		return
	}
	for k := range w.mits {
		if w.mits[k].live {
			w.mits[k].stale = true
			w.mits[k].ci, w.mits[k].cj = -1, -1
		}
	}
}

func (w *mworld) liveCount() int {
	n := 0
	for _, m := range w.mits {
		if m.live {
			n++
		}
	}
	return n
}

// matPatterns: operand matrices (flattened row-major) for Set / JointIterator
func matPatterns(r, c int) [][]int {
	n := r * c
	z := func() []int { return make([]int, n) }
	pats := [][]int{z()}
	a := z()
	a[0] = 1
	pats = append(pats, a)
	if n > 1 {
		a = z()
		a[n-1] = 2
		pats = append(pats, a)
		a = z()
		a[0], a[n-1] = 1, 2
		pats = append(pats, a) // interior zeros
		a = z()
		for i := range a {
			a[i] = 1 + i%2
		}
		pats = append(pats, a) // full
	}
	if n > 2 {
		a = z()
		a[1] = 1
		pats = append(pats, a)
	}
	return pats
}

func denseMat(e elem, r, c int, p []int) ad.Matrix {
	m := ad.NullDenseMatrix(e.t, r, c)
	for k, x := range p {
		if x != 0 {
			m.At(k/c, k%c).SetFloat64(float64(x))
		}
	}
	return m
}

func sparseMat(e elem, r, c int, p []int) ad.Matrix {
	m := ad.NullSparseMatrix(e.t, r, c)
	for k, x := range p {
		if x != 0 {
			m.At(k/c, k%c).SetFloat64(float64(x))
		}
	}
	return m
}

func menuMat(e elem, r, c, w int) (ad.Matrix, []int) {
	p := matPatterns(r, c)[w/2]
	if w%2 == 0 {
		return denseMat(e, r, c, p), p
	}
	return sparseMat(e, r, c, p), p
}

func (w *mworld) nonzeroFrom(i0, j0 int) [][2]int {
	r := [][2]int{}
	for i := range w.model {
		for j := range w.model[i] {
			if (i > i0 || i == i0 && j >= j0) && w.model[i][j] != 0 {
				r = append(r, [2]int{i, j})
			}
		}
	}
	return r
}

func nonzeroOf(m [][]int) [][2]int {
	r := [][2]int{}
	for i := range m {
		for j := range m[i] {
			if m[i][j] != 0 {
				r = append(r, [2]int{i, j})
			}
		}
	}
	return r
}

func transpose(m [][]int) [][]int {
	if len(m) == 0 {
		return m
	}
	t := newModel(len(m[0]), len(m))
	for i := range m {
		for j := range m[i] {
			t[j][i] = m[i][j]
		}
	}
	return t
}

func validPerm(p []int, n int) bool {
	if len(p) != n {
		return false
	}
	seen := make([]bool, n)
	for _, x := range p {
		if x < 0 || x >= n || seen[x] {
			return false
		}
		seen[x] = true
	}
	return true
}

func (w *mworld) swapRowsModel(i, j int) { w.model[i], w.model[j] = w.model[j], w.model[i] }
func (w *mworld) swapColsModel(i, j int) {
	for k := range w.model {
		w.model[k][i], w.model[k][j] = w.model[k][j], w.model[k][i]
	}
}

func cloneModel(m [][]int) [][]int {
	r := make([][]int, len(m))
	for i := range m {
		r[i] = append([]int{}, m[i]...)
	}
	return r
}

func (w *mworld) exec(o Op) {
	R, C := w.dims()
	e := w.et
	switch o.C {
	case "mat":
		s := w.m.At(o.I, o.J)
		if s == nil || reflect.ValueOf(s).Kind() == reflect.Ptr && reflect.ValueOf(s).IsNil() {
			w.failf("ret-nil", "At(%d,%d) returned nil", o.I, o.J)
		} else if !f64eq(s.GetFloat64(), w.model[o.I][o.J]) {
			w.failf("ret-value", "At(%d,%d) = %v, model %v", o.I, o.J, s.GetFloat64(), w.model)
		}
	case "mset":
		w.m.At(o.I, o.J).SetFloat64(float64(o.V))
		w.model[o.I][o.J] = o.V
	case "mreset":
		w.m.Reset()
		w.model = newModel(R, C)
	case "mident":
		w.m.SetIdentity()
		w.model = newModel(R, C)
		for i := 0; i < R && i < C; i++ {
			w.model[i][i] = 1
		}
	case "msetw":
		mm, p := menuMat(e, R, C, o.W)
		w.m.Set(mm)
		for k, x := range p {
			w.model[k/C][k%C] = x
		}
	case "mswap":
		w.m.Swap(o.I, o.J, o.K, o.L)
		w.model[o.I][o.J], w.model[o.K][o.L] = w.model[o.K][o.L], w.model[o.I][o.J]
		w.markStale()
	case "mswapr", "mswapc":
		// the documented behaviour for non-square matrices is a choice (the dense type refuses
		// them with an error): an error must leave the matrix unchanged, nil means swapped
		var err error
		if o.C == "mswapr" {
			err = w.m.SwapRows(o.I, o.J)
		} else {
			err = w.m.SwapColumns(o.I, o.J)
		}
		if err == nil {
			if o.C == "mswapr" {
				w.swapRowsModel(o.I, o.J)
			} else {
				w.swapColsModel(o.I, o.J)
			}
		} else if R == C {
			w.failf("ret-error", "%s(%d,%d) on a square matrix returned %v", w.curOp, o.I, o.J, err)
		}
		w.markStale()
	case "mpermr", "mpermc", "msymp":
		var err error
		switch o.C {
		case "mpermr":
			err = w.m.PermuteRows(o.P)
		case "mpermc":
			err = w.m.PermuteColumns(o.P)
		default:
			err = w.m.SymmetricPermutation(o.P)
		}
		if err == nil {
			// interchange sequence, as documented for the dense type
			for i := range o.P {
				if o.P[i] > i {
					if o.C == "mpermr" || o.C == "msymp" {
						w.swapRowsModel(i, o.P[i])
					}
					if o.C == "mpermc" || o.C == "msymp" {
						w.swapColsModel(i, o.P[i])
					}
				}
			}
		} else if R == C {
			w.failf("ret-error", "%s(%v) on a square matrix returned %v", w.curOp, o.P, err)
		}
		w.markStale()
	case "mT":
		t := w.m.T()
		// the receiver must be unchanged
		w.readsOf(w.m, w.model, "receiver-")
		w.m = t
		w.model = transpose(w.model)
		w.dropIters()
		w.unstable = true
	case "mTip":
		w.m.Tip()
		w.model = transpose(w.model)
		w.markStale()
	case "mslw":
		w.execSlice(o)
	case "mslop":
		w.execSliceOp(o)
	case "mjopen", "mjnext", "mjdrop", "mbset", "mbwalk":
		w.execJointOp(o)
	case "mrow", "mcrow":
		var v ad.ConstVector
		if o.C == "mrow" {
			v = w.m.Row(o.I)
		} else {
			v = w.m.ConstRow(o.I)
		}
		w.checkVec(v, w.model[o.I], "row-")
	case "mcol":
		col := make([]int, R)
		for i := range col {
			col[i] = w.model[i][o.J]
		}
		w.checkVec(w.m.Col(o.J), col, "col-")
	case "mdiag":
		d := make([]int, R)
		for i := range d {
			d[i] = w.model[i][i]
		}
		w.checkVec(w.m.Diag(), d, "diag-")
	case "mwalk":
		idx, vals, fin := walkMat(w.m.Iterator(), R*C)
		w.cmpWalk("iter", idx, vals, fin, nonzeroOf(w.model), w.model)
	case "mwalkf":
		idx, vals, fin := walkMat(w.m.IteratorFrom(o.I, o.J), R*C)
		w.cmpWalk("iter", idx, vals, fin, w.nonzeroFrom(o.I, o.J), w.model)
	case "mjwalk":
		w.execJoint(o)
	case "mclone":
		w.m = w.m.CloneMatrix()
		w.dropIters()
	case "miopen":
		w.position(o.S, w.m.Iterator(), nonzeroOf(w.model))
	case "mifrom":
		w.position(o.S, w.m.IteratorFrom(o.I, o.J), w.nonzeroFrom(o.I, o.J))
	case "minext":
		m := w.mits[o.S]
		it := w.its[o.S]
		it.Next()
		if !m.stale {
			exp := w.nonzeroFrom(m.ci, m.cj+1)
			w.position(o.S, it, exp)
			return
		}
		if !it.Ok() {
			w.its[o.S], w.mits[o.S] = nil, miterModel{}
			return
		}
		i, j := it.Index()
		if !(i > m.ci || i == m.ci && j > m.cj) || i < 0 || j < 0 || i >= R || j >= C {
			w.failf("live-order", "stale iterator moved from (%d,%d) to (%d,%d) in a %dx%d matrix", m.ci, m.cj, i, j, R, C)
			return
		}
		c := it.GetConst()
		if c == nil || w.model[i][j] == 0 || !f64eq(c.GetFloat64(), w.model[i][j]) {
			w.failf("live-value", "stale iterator reports (%d,%d) = %v, model %v", i, j, c, w.model)
			return
		}
		w.mits[o.S].ci, w.mits[o.S].cj = i, j
	case "midrop":
		w.its[o.S], w.mits[o.S] = nil, miterModel{}
	default:
		w.herr = "unknown op " + o.C
	}
}

type matConstIt interface {
	GetConst() ad.ConstScalar
	Ok() bool
	Next()
	Index() (int, int)
}

func walkMat(it matConstIt, n int) (idx [][2]int, vals []float64, fin bool) {
	for steps := 0; it.Ok(); steps++ {
		if steps > n+2 {
			return idx, vals, false
		}
		i, j := it.Index()
		idx = append(idx, [2]int{i, j})
		c := it.GetConst()
		if c == nil {
			vals = append(vals, -12345)
		} else {
			vals = append(vals, c.GetFloat64())
		}
		it.Next()
	}
	return idx, vals, true
}

func less2(a, b [2]int) bool { return a[0] < b[0] || a[0] == b[0] && a[1] < b[1] }

func (w *mworld) cmpWalk(prefix string, idx [][2]int, vals []float64, fin bool, exp [][2]int, model [][]int) {
	if !fin {
		w.failf(prefix+"-nonterm", "iteration does not terminate (visited %v..., model %v)", idx, model)
		return
	}
	R := len(model)
	C := 0
	if R > 0 {
		C = len(model[0])
	}
	for k := range idx {
		if idx[k][0] < 0 || idx[k][1] < 0 || idx[k][0] >= R || idx[k][1] >= C {
			w.failf(prefix+"-range", "iteration visits %v in a %dx%d matrix (model %v)", idx, R, C, model)
			return
		}
		if k > 0 && !less2(idx[k-1], idx[k]) {
			w.failf(prefix+"-order", "iteration visits %v (not strictly ascending row-major), model %v", idx, model)
			return
		}
	}
	in := func(l [][2]int, x [2]int) bool {
		for _, y := range l {
			if y == x {
				return true
			}
		}
		return false
	}
	for _, x := range exp {
		if !in(idx, x) {
			w.failf(prefix+"-missed", "iteration visits %v, expected %v (model %v)", idx, exp, model)
			return
		}
	}
	for _, x := range idx {
		if !in(exp, x) {
			w.failf(prefix+"-extra", "iteration visits %v, expected %v (model %v)", idx, exp, model)
			return
		}
	}
	for k, x := range idx {
		if !f64eq(vals[k], model[x[0]][x[1]]) {
			w.failf(prefix+"-value", "iteration reports value %v at %v, model %v", vals[k], x, model)
			return
		}
	}
}

func (w *mworld) position(s int, it ad.MatrixIterator, exp [][2]int) {
	if len(exp) == 0 {
		if it.Ok() {
			i, j := it.Index()
			w.failf("live-extra", "iterator is Ok() at (%d,%d) but no non-zero position is left (model %v)", i, j, w.model)
		}
		w.its[s], w.mits[s] = nil, miterModel{}
		return
	}
	if !it.Ok() {
		w.failf("live-missed", "iterator ended, expected position %v (model %v)", exp[0], w.model)
		return
	}
	i, j := it.Index()
	if [2]int{i, j} != exp[0] {
		code := "live-missed"
		if less2([2]int{i, j}, exp[0]) {
			code = "live-extra"
		}
		w.failf(code, "iterator at (%d,%d), expected %v (model %v)", i, j, exp[0], w.model)
		return
	}
	c := it.GetConst()
	if c == nil || !f64eq(c.GetFloat64(), w.model[i][j]) {
		w.failf("live-value", "iterator at (%d,%d) reports %v, model %v", i, j, c, w.model)
		return
	}
	w.its[s], w.mits[s] = it, miterModel{live: true, ci: i, cj: j}
}

// checkVec: a vector returned by Row/Col/Diag reads as the model says and iterates coherently.
func (w *mworld) checkVec(v ad.ConstVector, model []int, prefix string) {
	if v == nil {
		w.failf(prefix+"nil", "returned nil")
		return
	}
	if v.Dim() != len(model) {
		w.failf(prefix+"dim", "returned vector has dimension %d, expected %d", v.Dim(), len(model))
		return
	}
	vw := &vworld{model: model}
	vw.et = w.et
	vw.curOp, vw.curCls = w.curOp, w.curCls
	if vw.readsOf(v, model, prefix) {
		exp := []int{}
		for i, x := range model {
			if x != 0 {
				exp = append(exp, i)
			}
		}
		idx, vals, fin := walkVec(v.ConstIterator(), len(model))
		vw.cmpWalkOn(prefix+"iter", idx, vals, fin, exp, model)
	}
	if vw.fail != nil {
		vw.fail.key = strings.Replace(vw.fail.key, "|vector|", "|matrix|", 1)
		w.fail = vw.fail
	}
}

func (w *mworld) execSlice(o Op) {
	// Slice(I, J, K, L) = rows I..J, columns K..L; write position (S, W) inside the slice, value V (V<0: none)
	s := w.m.Slice(o.I, o.J, o.K, o.L)
	sub := func() [][]int {
		m := newModel(o.J-o.I, o.L-o.K)
		for i := range m {
			for j := range m[i] {
				m[i][j] = w.model[o.I+i][o.K+j]
			}
		}
		return m
	}
	sm := sub()
	r, c := s.Dims()
	if r != o.J-o.I || c != o.L-o.K {
		w.failf("slice-dim", "Slice(%d,%d,%d,%d).Dims() = %d,%d", o.I, o.J, o.K, o.L, r, c)
		return
	}
	if !w.readsOf(s, sm, "slice-") {
		return
	}
	if o.V >= 0 {
		s.At(o.S, o.W).SetFloat64(float64(o.V))
		w.model[o.I+o.S][o.K+o.W] = o.V
		sm = sub()
		if !w.readsOf(s, sm, "slice-") {
			return
		}
	}
	idx, vals, fin := walkMat(s.ConstIterator(), len(w.model)*len(w.model[0]))
	w.cmpWalk("slice-iter", idx, vals, fin, nonzeroOf(sm), sm)
}

func (w *mworld) execJoint(o Op) {
	R, C := w.dims()
	mm, p := menuMat(w.et, R, C, o.W)
	jit := w.m.JointIterator(mm)
	last := [2]int{-1, -1}
	seen := map[[2]int]bool{}
	for steps := 0; jit.Ok(); steps++ {
		if steps > 2*R*C+2 {
			w.failf("joint-nonterm", "joint iteration does not terminate")
			return
		}
		i, j := jit.Index()
		x := [2]int{i, j}
		if !less2(last, x) || i < 0 || j < 0 || i >= R || j >= C {
			w.failf("joint-order", "joint iterator index %v after %v (%dx%d)", x, last, R, C)
			return
		}
		last = x
		seen[x] = true
		s1, s2 := jit.GetConst()
		v1, v2 := 0.0, 0.0
		if s1 != nil {
			v1 = s1.GetFloat64()
		}
		if s2 != nil {
			v2 = s2.GetFloat64()
		}
		if !f64eq(v1, w.model[i][j]) || !f64eq(v2, p[i*C+j]) {
			w.failf("joint-value", "joint iterator at %v reports (%v,%v), expected (%d,%d)", x, v1, v2, w.model[i][j], p[i*C+j])
			return
		}
		jit.Next()
	}
	for i := 0; i < R; i++ {
		for j := 0; j < C; j++ {
			if (w.model[i][j] != 0 || p[i*C+j] != 0) && !seen[[2]int{i, j}] {
				w.failf("joint-missed", "joint iteration of %v with %v missed position (%d,%d)", w.model, p, i, j)
				return
			}
		}
	}
}

// readsOf: every in-range read succeeds and equals the model (non-mutating).
func (w *mworld) readsOf(m ad.ConstMatrix, model [][]int, prefix string) (ok bool) {
	i, j, name := 0, 0, ""
	defer func() {
		if r := recover(); r != nil {
			w.failf(prefix+"read-panic", "%s(%d,%d) panics: %v (model %v)", name, i, j, r, model)
			ok = false
		}
	}()
	for i = range model {
		for j = range model[i] {
			want := model[i][j]
			name = "Float64At"
			if g := m.Float64At(i, j); !f64eq(g, want) {
				w.failf(prefix+"read-mismatch", "Float64At(%d,%d) = %v, model %v", i, j, g, model)
				return false
			}
			name = "ConstAt"
			c := m.ConstAt(i, j)
			if c == nil || !f64eq(c.GetFloat64(), want) {
				w.failf(prefix+"read-mismatch", "ConstAt(%d,%d) = %v, model %v", i, j, c, model)
				return false
			}
			name = "typed At"
			if int(m.Int8At(i, j)) != want || int(m.Int16At(i, j)) != want || int(m.Int32At(i, j)) != want ||
				int(m.Int64At(i, j)) != want || m.IntAt(i, j) != want || !f64eq(float64(m.Float32At(i, j)), want) {
				w.failf(prefix+"read-mismatch", "Int8At..Float32At(%d,%d) disagree with model %v", i, j, model)
				return false
			}
		}
	}
	return true
}

func (w *mworld) checkDims(prefix string) bool {
	R, C := w.dims()
	if r, c := w.m.Dims(); r != R || c != C {
		w.failf(prefix+"dim", "Dims() = %d,%d, model is %dx%d", r, c, R, C)
		return false
	}
	return true
}

func (w *mworld) oracleReads() {
	if w.fail != nil || w.m == nil {
		return
	}
	if w.checkDims("") {
		w.readsOf(w.m, w.model, "")
	}
}

func (w *mworld) oracleFresh() {
	if w.fail != nil || w.m == nil {
		return
	}
	if w.j != nil {
		w.j.afterFresh = true
	}
	func() {
		defer func() {
			if r := recover(); r != nil {
				w.failf("iter-panic", "fresh iteration panics: %v (model %v)", r, w.model)
			}
		}()
		R, C := w.dims()
		idx, vals, fin := walkMat(w.m.ConstIterator(), R*C)
		w.cmpWalk("iter", idx, vals, fin, nonzeroOf(w.model), w.model)
		if w.fail == nil {
			_ = w.m.String()
		}
	}()
	if w.fail == nil && w.checkDims("post-walk-") {
		w.readsOf(w.m, w.model, "post-walk-")
	}
	if w.fail == nil {
		w.oracleViews()
	}
}

func (w *mworld) oracleLive() {
	if w.fail != nil || w.m == nil {
		return
	}
	any := false
	R, C := w.dims()
	for s, m := range w.mits {
		if !m.live {
			continue
		}
		any = true
		func() {
			defer func() {
				if r := recover(); r != nil {
					w.failf("live-panic", "continuing the live iterator positioned at (%d,%d) panics: %v (model %v)", m.ci, m.cj, r, w.model)
				}
			}()
			it := w.its[s]
			it.Next()
			idx, vals, fin := walkMat(it, R*C)
			if !m.stale {
				w.cmpWalk("live", idx, vals, fin, w.nonzeroFrom(m.ci, m.cj+1), w.model)
				return
			}
			if !fin {
				w.failf("live-nonterm", "stale iterator does not terminate")
				return
			}
			last := [2]int{m.ci, m.cj}
			for k, x := range idx {
				if !less2(last, x) || x[0] < 0 || x[1] < 0 || x[0] >= R || x[1] >= C {
					w.failf("live-order", "stale iterator at (%d,%d) continues with %v", m.ci, m.cj, idx)
					return
				}
				last = x
				if w.model[x[0]][x[1]] == 0 || !f64eq(vals[k], w.model[x[0]][x[1]]) {
					w.failf("live-value", "stale iterator reports value %v at %v, model %v", vals[k], x, w.model)
					return
				}
			}
		}()
		if w.fail != nil {
			return
		}
	}
	if w.j != nil && w.fail == nil {
		w.j.finish(w)
		any = true
	}
	if any && w.fail == nil && w.checkDims("post-live-walk-") {
		w.readsOf(w.m, w.model, "post-live-walk-")
	}
}

func (w *mworld) canon() string {
	if w.m == nil {
		return "nil"
	}
	s := w.snapshot()
	if !s.ok {
		return "unknown"
	}
	var sb strings.Builder
	sb.WriteString(fmt.Sprint(w.model))
	sb.WriteByte('|')
	sb.WriteString(s.desc)
	sb.WriteByte('|')
	var ds []string
	for k, it := range w.its {
		if it == nil || !w.mits[k].live {
			continue
		}
		d, ok := describeIter(it, s.sh, s.pm.Values.Tree, s.pm.Values.Self, false)
		if !ok {
			w.herr = fmt.Sprintf("overlay accessor does not understand iterator %T", it)
		}
		ds = append(ds, fmt.Sprintf("%s,cur=%d.%d,stale=%v", d, w.mits[k].ci, w.mits[k].cj, w.mits[k].stale))
	}
	sort.Strings(ds)
	sb.WriteString(strings.Join(ds, ";"))
	sb.WriteString(w.j.canon(s.sh, s.pm.Values.Tree, s.pm.Values.Self, false))
	return sb.String()
}

func (w *mworld) outcome() string {
	s := w.snapshot()
	z := 0
	for _, c := range s.pm.Values.Cells {
		if c.Zero {
			z++
		}
	}
	live := 0
	for _, m := range w.mits {
		if m.live {
			live++
		}
	}
	R, C := w.dims()
	return fmt.Sprintf("ok:matrix,%dx%d,nonzero=%d,stored0=%d,iters=%d", R, C, len(nonzeroOf(w.model)), z, live)
}

func (w *mworld) enabled() []Op {
	if w.joint {
		return w.enabledJoint()
	}
	R, C := w.dims()
	vals := []int{0, 1, 2}
	if w.values2 {
		vals = []int{0, 1}
	}
	var ops []Op
	for i := 0; i < R; i++ {
		for j := 0; j < C; j++ {
			ops = append(ops, Op{C: "mat", I: i, J: j})
		}
	}
	for _, v := range vals {
		for i := 0; i < R; i++ {
			for j := 0; j < C; j++ {
				ops = append(ops, Op{C: "mset", I: i, J: j, V: v})
			}
		}
	}
	ops = append(ops, Op{C: "mwalk"}, Op{C: "mreset"}, Op{C: "mident"}, Op{C: "mT"}, Op{C: "mTip"}, Op{C: "mclone"})
	for a := 0; a < R*C; a++ {
		for b := a; b < R*C; b++ {
			if a == b && a > 0 {
				continue
			}
			ops = append(ops, Op{C: "mswap", I: a / C, J: a % C, K: b / C, L: b % C})
		}
	}
	for i := 0; i < R; i++ {
		for j := i + 1; j < R; j++ {
			ops = append(ops, Op{C: "mswapr", I: i, J: j})
		}
	}
	for i := 0; i < C; i++ {
		for j := i + 1; j < C; j++ {
			ops = append(ops, Op{C: "mswapc", I: i, J: j})
		}
	}
	if R == C {
		for _, p := range perms(R) {
			ops = append(ops, Op{C: "mpermr", P: p}, Op{C: "mpermc", P: p}, Op{C: "msymp", P: p})
		}
		ops = append(ops, Op{C: "mdiag"})
	}
	np := len(matPatterns(R, C))
	for k := 0; k < 2*np; k++ {
		ops = append(ops, Op{C: "msetw", W: k})
	}
	for i := 0; i < R; i++ {
		ops = append(ops, Op{C: "mrow", I: i}, Op{C: "mcrow", I: i})
	}
	for j := 0; j < C; j++ {
		ops = append(ops, Op{C: "mcol", J: j})
	}
	// slices: every proper sub-rectangle, write at every position of it
	wv := 2
	if w.values2 {
		wv = 1
	}
	for r0 := 0; r0 < R; r0++ {
		for r1 := r0 + 1; r1 <= R; r1++ {
			for c0 := 0; c0 < C; c0++ {
				for c1 := c0 + 1; c1 <= C; c1++ {
					if r1-r0 == R && c1-c0 == C {
						continue
					}
					ops = append(ops, Op{C: "mslw", I: r0, J: r1, K: c0, L: c1, V: -1})
					for i := 0; i < r1-r0; i++ {
						for j := 0; j < c1-c0; j++ {
							ops = append(ops, Op{C: "mslw", I: r0, J: r1, K: c0, L: c1, S: i, W: j, V: wv})
						}
					}
				}
			}
		}
	}
	for i := 0; i < R; i++ {
		for j := 0; j < C; j++ {
			if i+j > 0 {
				ops = append(ops, Op{C: "mwalkf", I: i, J: j})
			}
		}
	}
	for k := 0; k < 2*np; k++ {
		ops = append(ops, Op{C: "mjwalk", W: k})
	}
	free := -1
	for s := range w.its {
		if w.mits[s].live {
			ops = append(ops, Op{C: "minext", S: s}, Op{C: "midrop", S: s})
		} else if free < 0 {
			free = s
		}
	}
	if free >= 0 {
		ops = append(ops, Op{C: "miopen", S: free})
		for i := 0; i < R; i++ {
			for j := 0; j < C; j++ {
				if i+j > 0 {
					ops = append(ops, Op{C: "mifrom", S: free, I: i, J: j})
				}
			}
		}
	}
	return ops
}

// repOps: operations enumerated from the representative state of a content signature only
// (views.go)
func (w *mworld) repOps() ([]Op, int) {
	if w.joint {
		return nil, 0
	}
	return w.sliceOps(), 0
}
