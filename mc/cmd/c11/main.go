// C11: explicit-state model checking of the sparse vector and sparse matrix types
// against a plain dense model. States are REAL containers (+ live iterators) rebuilt by
// replaying the shortest history on a fresh instance; canonical state keys are built from
// the model, the private map/index state (read through the overlay accessors) and the
// iterator fields; the deciding oracle uses the public API only.
package main

import (
	"encoding/json"
	"fmt"
	"os"
	"runtime"
	"sort"
	"strings"
	"sync"
	"time"

	"verif/mc/vf"
)

type world interface {
	apply(Op)
	enabled() []Op
	canon() string
	failed() *failure
	oracleReads()
	oracleFresh()
	oracleLive()
	outcome() string
	harnessErr() string
	warning() string
	warningOp() string
}

func (w *vworld) harnessErr() string { return w.herr }
func (w *vworld) warning() string    { return w.warn }
func (w *vworld) warningOp() string  { return w.warnOp }

// Config is one independent exploration: all histories over one container kind, one
// element type and one start dimension.
type Config struct {
	Kind     string `json:"kind"` // vector | matrix
	Elem     string `json:"elem"`
	N        int    `json:"nmax,omitempty"` // vector: start dimensions 0..N; Append may grow a vector up to N
	Rows     int    `json:"rows,omitempty"` // matrix
	Cols     int    `json:"cols,omitempty"`
	Slots    int    `json:"iterator_slots"`
	Values2  bool   `json:"values01,omitempty"` // matrix element values restricted to {0,1}
	Thorough bool   `json:"thorough_menus"`     // operand menus of the thorough tier
	Post     int    `json:"post_append_depth"`  // <0: unbounded (fixpoint); otherwise ops explored after the first Append
	cost     int
}

type Case struct {
	Cfg  Config `json:"config"`
	Hist []Op   `json:"history"`
}

// build replays hist on a fresh instance. With quiet=true all operations but the last are
// replayed without classification / early-warning bookkeeping (the explorer carries the
// early warning of the parent state along); quiet=false (replay of an artefact) computes
// everything at every step -- the verdicts are identical.
func build(cfg Config, hist []Op, quiet bool, warn, warnOp string) world {
	e, ok := elemByName(cfg.Elem)
	if !ok {
		panic("unknown element type " + cfg.Elem)
	}
	var w world
	var b *base
	switch cfg.Kind {
	case "vector":
		v := newVWorld(e, cfg.Slots, cfg.N)
		w, b = v, &v.base
	case "matrix":
		m := newMWorld(e, cfg.Slots)
		w, b = m, &m.base
	default:
		panic("unknown kind " + cfg.Kind)
	}
	for i, o := range hist {
		last := i == len(hist)-1
		b.quiet = quiet && !last
		if quiet && last {
			b.warn, b.warnOp = warn, warnOp
		}
		w.apply(o)
		if b.quiet && b.fail != nil {
			b.herr = "a prefix of an explored history fails: " + histString(hist[:i+1])
		}
	}
	b.quiet = false
	return w
}

// runOracles executes the complete public-API oracle on the state n (n is consumed: the
// iteration oracles delete stored zeros as a side effect of the library's iterators).
func runOracles(n world) *failure {
	if f := n.failed(); f != nil {
		return f
	}
	n.oracleReads()
	if f := n.failed(); f != nil {
		return f
	}
	n.oracleFresh()
	if f := n.failed(); f != nil {
		return f
	}
	n.oracleLive()
	return n.failed()
}

type item struct {
	hist         []Op
	post         int // -1: no Append yet; otherwise number of ops since the first Append
	warn, warnOp string
}

type succ struct {
	op           Op
	post         int
	key          string
	fail         *failure
	warn, warnOp string
	herr         string
	outcome      string
}

// expand computes all successors of one state (runs concurrently with other expansions;
// everything it touches is private to it).
func expand(cfg Config, it item) (out []succ) {
	w := build(cfg, it.hist, true, it.warn, it.warnOp)
	if he := w.harnessErr(); he != "" {
		return []succ{{herr: he}}
	}
	for _, o := range w.enabled() {
		post := it.post
		if post >= 0 || isAppend(o) {
			post++
		}
		if cfg.Post < 0 {
			post = -1 // unbounded: Append is an ordinary transition
		} else if post > cfg.Post {
			continue
		}
		hist := append(append(make([]Op, 0, len(it.hist)+1), it.hist...), o)
		n := build(cfg, hist, true, it.warn, it.warnOp)
		s := succ{op: o, post: post, key: n.canon()}
		if n.failed() == nil {
			s.outcome = n.outcome()
		}
		s.fail = runOracles(n)
		s.warn, s.warnOp = n.warning(), n.warningOp()
		s.herr = n.harnessErr()
		out = append(out, s)
	}
	return out
}

var pool = make(chan struct{}, 16)

func explore(c *vf.Ctx, cfg Config) {
	seen := map[string]int{} // key -> smallest post value it was queued with (-1 = unbounded)
	var frontier []item
	var states int64
	for _, o := range initOps(cfg) {
		h := []Op{o}
		seen[build(cfg, h, true, "", "").canon()] = -1
		frontier = append(frontier, item{h, -1, "", ""})
		states++
	}
	depth := 0
	label := fmt.Sprintf("%s|%s|n<=%d|%dx%d|v01=%v|slots=%d", cfg.Kind, cfg.Elem, cfg.N, cfg.Rows, cfg.Cols, cfg.Values2, cfg.Slots)
	const batch = 64
	for len(frontier) > 0 {
		var next []item
		results := make([][]succ, len(frontier))
		var wg sync.WaitGroup
		for lo := 0; lo < len(frontier); lo += batch {
			hi := lo + batch
			if hi > len(frontier) {
				hi = len(frontier)
			}
			wg.Add(1)
			pool <- struct{}{}
			go func(lo, hi int) {
				defer wg.Done()
				defer func() { <-pool }()
				c.Guard(label, int64(len(frontier[lo].hist)), Case{cfg, frontier[lo].hist})
				for i := lo; i < hi; i++ {
					results[i] = expand(cfg, frontier[i])
				}
			}(lo, hi)
		}
		wg.Wait()
		for i, it := range frontier {
			for _, s := range results[i] {
				if s.herr != "" {
					c.HarnessError(s.herr + " in " + histString(it.hist) + " ; " + s.op.String())
					return
				}
				hist := append(append(make([]Op, 0, len(it.hist)+1), it.hist...), s.op)
				c.Trans(1)
				c.Eval(1)
				c.Traces(1)
				if s.fail != nil {
					what := s.fail.what + " -- history: " + histString(hist)
					if s.warn != "" {
						what += " -- early warning: " + s.warn
					}
					c.Violate(s.fail.key, what, int64(len(hist)), Case{cfg, hist})
					c.Outcome("fail:" + s.fail.key)
					continue // never explore beyond a failing state
				}
				c.Outcome(s.outcome)
				if old, ok := seen[s.key]; !ok || s.post < old {
					if !ok {
						states++
						// a new state: replaying its history once more must give the same state
						if k2 := build(cfg, hist, true, it.warn, it.warnOp).canon(); k2 != s.key {
							c.HarnessError("nondeterministic replay of " + histString(hist) + ": " + s.key + " vs " + k2)
							return
						}
						if states == 20 || states == 400 {
							c.Sample(map[string]any{"config": cfg, "history": histString(hist), "state": s.key})
						}
					}
					seen[s.key] = s.post
					next = append(next, item{hist, s.post, s.warn, s.warnOp})
				}
			}
			results[i] = nil
		}
		frontier = next
		depth++
		expired := false
		for k := 0; k < 64; k++ { // vf samples the clock on every 64th call only
			expired = expired || c.Expired()
		}
		if expired && os.Getenv("VERIF_C11_NOLIMIT") == "" {
			c.Cap("soft deadline reached in " + label + fmt.Sprintf(" at BFS depth %d (%d states)", depth, states))
			break
		}
		if os.Getenv("VERIF_C11_DEBUG") != "" {
			fmt.Fprintf(os.Stderr, "%s depth=%d states=%d frontier=%d\n", label, depth, states, len(frontier))
		}
	}
	c.States(states)
	c.Nontrivial(states)
	c.Count("states:"+label, states)
	c.Count("bfs_depth:"+label, int64(depth))
}

func initOps(cfg Config) []Op {
	var r []Op
	if cfg.Kind == "vector" {
		// largest first, so that witnesses prefer init(n)+writes over chains of Append
		for n := cfg.N; n >= 0; n-- {
			r = append(r, Op{C: "init", I: n})
		}
		return r
	}
	return []Op{{C: "minit", I: cfg.Rows, J: cfg.Cols, B: cfg.Values2}}
}

func configs(thorough bool) []Config {
	var cfgs []Config
	elems := allElems[:3]
	if thorough {
		elems = allElems
	}
	for ei, e := range elems {
		main3 := ei < 3 // Float64, Real64, Int8: one type per template family gets the largest explorations
		if thorough {
			// all 9 types: n<=3 with one live iterator; the three main types additionally
			// n<=4 with one and n<=3 with two live iterators
			cfgs = append(cfgs, Config{Kind: "vector", Elem: e.name, N: 3, Slots: 1, Thorough: true, Post: -1, cost: 6000})
			if main3 {
				cfgs = append(cfgs, Config{Kind: "vector", Elem: e.name, N: 4, Slots: 1, Thorough: true, Post: -1, cost: 100000})
				cfgs = append(cfgs, Config{Kind: "vector", Elem: e.name, N: 3, Slots: 2, Thorough: true, Post: -1, cost: 50000})
			}
		} else {
			cfgs = append(cfgs, Config{Kind: "vector", Elem: e.name, N: 3, Slots: 1, Post: -1, cost: 6000})
		}
		// matrices: (rows, cols, values restricted to {0,1}, iterator slots)
		type shp struct {
			r, c  int
			v2    bool
			slots int
		}
		shapes := []shp{{1, 1, false, 1}, {1, 2, false, 1}, {2, 2, false, 1}, {2, 3, true, 0}}
		if thorough {
			shapes = []shp{{1, 1, false, 2}, {1, 2, false, 2}, {2, 1, false, 2}, {1, 3, false, 2}, {2, 2, false, 2}, {2, 3, true, 0}}
			if main3 {
				shapes = append(shapes, shp{2, 3, false, 0}, shp{2, 3, true, 1})
			}
		}
		for _, s := range shapes {
			cost := 1
			for k := 0; k < s.r*s.c; k++ {
				cost *= 4
			}
			cfgs = append(cfgs, Config{Kind: "matrix", Elem: e.name, Rows: s.r, Cols: s.c, Values2: s.v2, Slots: s.slots, Thorough: thorough, Post: -1, cost: cost * (1 + 8*s.slots)})
		}
	}
	return cfgs
}

func main() {
	vf.Main(vf.Spec{
		ID:    "C11",
		Level: "model_checking",
		Rule: "explicit-state BFS to fixpoint over REAL sparse vectors (start: the empty vector of every dimension 0..n; Append is a transition into the larger dimension, capped at n) and REAL sparse matrices (one exploration per shape; T/Tip change the orientation): " +
			"every operation of the alphabet (At, At.SetFloat64, Set/SET with dense+sparse operands, Reset, Swap, Permute for all permutations, Sort, ReverseOrder, Slice then write through the slice, AppendScalar/AppendVector, value-preserving VmulV/VsubV/VaddV/VmulS with the vector as receiver, full Iterator/IteratorFrom/JointIterator walks, Clone, opening/advancing/dropping a live iterator; matrices: At, Set, Reset, SetIdentity, Swap, SwapRows/Columns, Permute*, T, Tip, Slice(+write), Row/Col/ConstRow/Diag, iterators) from every reachable state; " +
			"a state is distinct by its canonical form = dense model + private state read through the overlay (key set of the values map with stored-zero / nil-placeholder / alias flags, index tree keys + shape and balance factors) + fields of the live iterators; " +
			"every transition is executed on the implementation by replaying the shortest history on a fresh instance and then checked through the public API only: every typed read of every position, Dim, a fresh full iteration (exactly the non-zero positions, ascending, once, true values), continuation of the live iterators; states that fail are not expanded",
		Assume: []string{
			"element values {-1,0,1,2} (vectors), {0,1,2} or {0,1} (matrices); derivatives of Real types are not used",
			"reference semantics of Set/Swap/Permute/Sort/ReverseOrder/arithmetic = the dense vector of the same element type holding the model (differential; Permute is the documented interchange sequence); matrices use a plain row-major model; SwapRows/Columns/Permute* may refuse non-square matrices with an error (then nothing may change)",
			"a live iterator that saw Swap/Permute/Sort/ReverseOrder/Tip is only required to stay safe (no panic, terminates, ascending, reports positions that hold the reported non-zero value, container intact): an implementation may rebuild its index wholesale there; after element writes, Set, Reset, arithmetic and foreign walks it must continue over exactly the non-zero positions beyond its own",
			"ReverseOrder and T rebuild the index in Go map order: from then on the tree shape is not part of the state key (its key set is) and iterators left behind in such a tree by a reordering operation are not followed; matrix state keys never contain the tree shape (covered by the vector explorations)",
			"overlay accessors are read-only and used for state keys / early-warning annotations only; private incoherence alone is never a verdict",
		},
		// vf measures the soft limit in CPU time of the worker process; this check runs as ONE
		// worker with 16 threads, so the limits are about 12 busy threads x (100 s | 13 min)
		SoftLimit: map[string]time.Duration{"thorough": 160 * time.Minute, "quick": 20 * time.Minute},
		Shards:    1, // one worker process; the configurations and the BFS frontiers are spread over 16 goroutines
		Run: func(c *vf.Ctx) {
			runtime.GOMAXPROCS(16)
			initCaches(c.Thorough())
			cfgs := configs(c.Thorough())
			if f := os.Getenv("VERIF_C11_ONLY"); f != "" { // development aid: restrict to matching configurations
				var sel []Config
				for _, cfg := range cfgs {
					if strings.Contains(fmt.Sprintf("%s|%s|n<=%d|%dx%d|v01=%v|slots=%d", cfg.Kind, cfg.Elem, cfg.N, cfg.Rows, cfg.Cols, cfg.Values2, cfg.Slots), f) {
						sel = append(sel, cfg)
					}
				}
				cfgs = sel
				c.Cap("VERIF_C11_ONLY restricts the configurations")
			}
			sort.SliceStable(cfgs, func(a, b int) bool { return cfgs[a].cost > cfgs[b].cost })
			var wg sync.WaitGroup
			for _, cfg := range cfgs {
				wg.Add(1)
				go func(cfg Config) {
					defer wg.Done()
					defer func() {
						if r := recover(); r != nil {
							c.HarnessError(fmt.Sprintf("harness panic in %+v: %v", cfg, r))
						}
					}()
					explore(c, cfg)
				}(cfg)
			}
			wg.Wait()
		},
		Replay: func(c *vf.Ctx, raw json.RawMessage) {
			var cs Case
			if err := json.Unmarshal(raw, &cs); err != nil {
				c.HarnessError(err.Error())
				return
			}
			initCaches(cs.Cfg.Thorough)
			n := build(cs.Cfg, cs.Hist, false, "", "")
			if os.Getenv("VERIF_C11_DEBUG") != "" {
				for k := range cs.Hist {
					fmt.Fprintf(os.Stderr, "after %d ops: %s\n", k+1, build(cs.Cfg, cs.Hist[:k+1], false, "", "").canon())
				}
			}
			f := runOracles(n)
			warn := n.warning()
			if he := n.harnessErr(); he != "" {
				c.HarnessError(he)
				return
			}
			if f != nil {
				what := f.what + " -- history: " + histString(cs.Hist)
				if warn != "" {
					what += " -- early warning: " + warn
				}
				c.Violate(f.key, what, int64(len(cs.Hist)), cs)
			}
		},
	})
}
