// C11: explicit-state model checking of the sparse vector and sparse matrix types
// against a plain dense model. States are REAL containers (+ live iterators) rebuilt by
// replaying the shortest history on a fresh instance; canonical state keys are built from
// the model, the private map/index state (read through the overlay accessors) and the
// iterator fields; the deciding oracle uses the public API only.
package main

import (
	"encoding/json"
	"fmt"
	"os"
	"runtime"
	"sort"
	"strings"
	"sync"
	"time"

	"verif/mc/vf"
)

type world interface {
	apply(Op)
	enabled() []Op
	canon() string
	failed() *failure
	oracleReads()
	oracleFresh()
	oracleLive()
	outcome() string
	harnessErr() string
	warning() string
	warningOp() string
	contentSig() string
	repOps() (ops []Op, skippedKnownFamily int)
}

func (w *vworld) harnessErr() string { return w.herr }
func (w *vworld) warning() string    { return w.warn }
func (w *vworld) warningOp() string  { return w.warnOp }

// Config is one independent exploration: all histories over one container kind, one
// element type and one start dimension.
type Config struct {
	Kind     string `json:"kind"` // vector | matrix
	Elem     string `json:"elem"`
	N        int    `json:"nmax,omitempty"` // vector: start dimensions 0..N; Append may grow a vector up to N
	Rows     int    `json:"rows,omitempty"` // matrix
	Cols     int    `json:"cols,omitempty"`
	Slots    int    `json:"iterator_slots"`
	Values2  bool   `json:"values01,omitempty"`              // matrix element values restricted to {0,1}
	Thorough bool   `json:"thorough_menus"`                  // operand menus of the thorough tier
	Post     int    `json:"post_append_depth"`               // <0: unbounded (fixpoint); otherwise ops explored after the first Append
	Large    bool   `json:"large,omitempty"`                 // vector: ONE start dimension N, reduced alphabet of large.go
	Z        int    `json:"max_stored_zeros,omitempty"`      // large: bound on the stored zeros
	Joint    bool   `json:"joint,omitempty"`                 // one live joint iterator, reduced alphabet of joint.go (vector: ONE dimension N)
	JForms   []int  `json:"joint_forms,omitempty"`           // 0 JointIterator, 1 ConstJointIterator, 2 JOINT_ITERATOR_
	JMut     bool   `json:"joint_operand_mutable,omitempty"` // the sparse operand is mutated while the iterator is live
	cost     int
}

func (cfg Config) label() string {
	l := fmt.Sprintf("%s|%s|n<=%d|%dx%d|v01=%v|slots=%d", cfg.Kind, cfg.Elem, cfg.N, cfg.Rows, cfg.Cols, cfg.Values2, cfg.Slots)
	if cfg.Large {
		l = fmt.Sprintf("large-vector|%s|n=%d|stored-zeros<=%d|slots=%d", cfg.Elem, cfg.N, cfg.Z, cfg.Slots)
	}
	if cfg.Joint {
		l = fmt.Sprintf("joint-%s|%s|n=%d|%dx%d|forms=%v|operand-mutable=%v", cfg.Kind, cfg.Elem, cfg.N, cfg.Rows, cfg.Cols, cfg.JForms, cfg.JMut)
	}
	return l
}

type Case struct {
	Cfg  Config `json:"config"`
	Hist []Op   `json:"history"`
}

// build replays hist on a fresh instance. With quiet=true all operations but the last are
// replayed without classification / early-warning bookkeeping (the explorer carries the
// early warning of the parent state along); quiet=false (replay of an artefact) computes
// everything at every step -- the verdicts are identical.
func build(cfg Config, hist []Op, quiet bool, warn, warnOp string) world {
	e, ok := elemByName(cfg.Elem)
	if !ok {
		panic("unknown element type " + cfg.Elem)
	}
	var w world
	var b *base
	switch cfg.Kind {
	case "vector":
		v := newVWorld(e, cfg.Slots, cfg.N)
		v.large, v.maxZ = cfg.Large, cfg.Z
		v.joint, v.jforms, v.jmut = cfg.Joint, cfg.JForms, cfg.JMut
		w, b = v, &v.base
	case "matrix":
		m := newMWorld(e, cfg.Slots)
		m.joint, m.jforms, m.jmut = cfg.Joint, cfg.JForms, cfg.JMut
		w, b = m, &m.base
	default:
		panic("unknown kind " + cfg.Kind)
	}
	for i, o := range hist {
		last := i == len(hist)-1
		b.quiet = quiet && !last
		if quiet && last {
			b.warn, b.warnOp = warn, warnOp
		}
		w.apply(o)
		if b.quiet && b.fail != nil {
			b.herr = "a prefix of an explored history fails: " + histString(hist[:i+1])
		}
	}
	b.quiet = false
	return w
}

// runOracles executes the complete public-API oracle on the state n (n is consumed: the
// iteration oracles delete stored zeros as a side effect of the library's iterators).
func runOracles(n world) *failure {
	if f := n.failed(); f != nil {
		return f
	}
	n.oracleReads()
	if f := n.failed(); f != nil {
		return f
	}
	n.oracleFresh()
	if f := n.failed(); f != nil {
		return f
	}
	n.oracleLive()
	return n.failed()
}

// runAll: the complete oracle for the state n reached by hist. Joint configurations
// additionally continue the live joint iterator on a second replay instance WITHOUT the
// purging fresh iteration of the first pass.
func runAll(cfg Config, hist []Op, n world, quiet bool, warn, warnOp string) *failure {
	f := runOracles(n)
	if f == nil && cfg.Joint {
		n2 := build(cfg, hist, quiet, warn, warnOp)
		n2.oracleLive()
		f = n2.failed()
		if he := n2.harnessErr(); he != "" && f == nil {
			f = &failure{key: "harness", what: he}
		}
	}
	return f
}

type item struct {
	hist         []Op
	post         int // -1: no Append yet; otherwise number of ops since the first Append
	warn, warnOp string
	rep          bool // first state reached with its content signature: also gets the repOps
	age          int  // operations executed since the private state first became incoherent (0 while coherent)
}

// large configurations: a state whose private state is incoherent (map and index disagree:
// the early warning) is expanded for at most this many further operations. On a library
// that keeps map and index coherent the bound is never reached.
const largeIncoherentDepth = 3

type succ struct {
	op           Op
	post         int
	key          string
	fail         *failure
	warn, warnOp string
	herr         string
	outcome      string
	age          int
	capped       bool   // pseudo entry: the state was not expanded (largeIncoherentDepth)
	sig          string // content signature of the successor state
	skipped      int    // (first entry only) slice writers not enumerated: known family
	repOp        bool
}

// expand computes all successors of one state (runs concurrently with other expansions;
// everything it touches is private to it).
func expand(cfg Config, it item) (out []succ) {
	w := build(cfg, it.hist, true, it.warn, it.warnOp)
	if he := w.harnessErr(); he != "" {
		return []succ{{herr: he}}
	}
	if cfg.Large && it.warn != "" && it.age >= largeIncoherentDepth {
		return []succ{{capped: true}}
	}
	ops := w.enabled()
	nOrd := len(ops)
	skipped := 0
	if it.rep && os.Getenv("VERIF_C11_NOREP") == "" {
		var extra []Op
		extra, skipped = w.repOps()
		if he := w.harnessErr(); he != "" {
			return []succ{{herr: he}}
		}
		ops = append(ops, extra...)
	}
	for oi, o := range ops {
		post := it.post
		if post >= 0 || isAppend(o) {
			post++
		}
		if cfg.Post < 0 {
			post = -1 // unbounded: Append is an ordinary transition
		} else if post > cfg.Post {
			continue
		}
		hist := append(append(make([]Op, 0, len(it.hist)+1), it.hist...), o)
		n := build(cfg, hist, true, it.warn, it.warnOp)
		s := succ{op: o, post: post, key: n.canon(), repOp: oi >= nOrd}
		if len(out) == 0 {
			s.skipped = skipped
		}
		if n.failed() == nil {
			s.outcome = n.outcome()
			s.sig = n.contentSig()
		}
		s.fail = runAll(cfg, hist, n, true, it.warn, it.warnOp)
		s.warn, s.warnOp = n.warning(), n.warningOp()
		if it.warn != "" {
			s.age = it.age + 1
		}
		s.herr = n.harnessErr()
		out = append(out, s)
	}
	return out
}

var pool = make(chan struct{}, 16)

func explore(c *vf.Ctx, cfg Config) {
	seen := map[string]int{}     // key -> smallest post value it was queued with (-1 = unbounded)
	repSeen := map[string]bool{} // content signatures that have their representative state
	var frontier []item
	seenAge := map[string]int{}
	var states, reps, repTrans, skippedKnown, cappedIncoherent int64
	for _, o := range initOps(cfg) {
		h := []Op{o}
		w0 := build(cfg, h, true, "", "")
		seen[w0.canon()] = -1
		repSeen[w0.contentSig()] = true
		frontier = append(frontier, item{h, -1, "", "", true, 0})
		states++
		reps++
	}
	depth := 0
	label := cfg.label()
	const batch = 64
	for len(frontier) > 0 {
		var next []item
		results := make([][]succ, len(frontier))
		var wg sync.WaitGroup
		for lo := 0; lo < len(frontier); lo += batch {
			hi := lo + batch
			if hi > len(frontier) {
				hi = len(frontier)
			}
			wg.Add(1)
			pool <- struct{}{}
			go func(lo, hi int) {
				defer wg.Done()
				defer func() { <-pool }()
				c.Guard(label, int64(len(frontier[lo].hist)), Case{cfg, frontier[lo].hist})
				for i := lo; i < hi; i++ {
					results[i] = expand(cfg, frontier[i])
				}
			}(lo, hi)
		}
		wg.Wait()
		for i, it := range frontier {
			for _, s := range results[i] {
				if s.herr != "" {
					c.HarnessError(s.herr + " in " + histString(it.hist) + " ; " + s.op.String())
					return
				}
				if s.capped {
					cappedIncoherent++
					continue
				}
				hist := append(append(make([]Op, 0, len(it.hist)+1), it.hist...), s.op)
				c.Trans(1)
				c.Eval(1)
				c.Traces(1)
				skippedKnown += int64(s.skipped)
				if s.repOp {
					repTrans++
				}
				if s.fail != nil {
					what := s.fail.what + " -- history: " + histString(hist)
					if s.warn != "" {
						what += " -- early warning: " + s.warn
					}
					c.Violate(s.fail.key, what, int64(len(hist)), Case{cfg, hist})
					c.Outcome("fail:" + s.fail.key)
					continue // never explore beyond a failing state
				}
				c.Outcome(s.outcome)
				if old, ok := seen[s.key]; !ok || s.post < old || cfg.Large && s.age < seenAge[s.key] {
					if !ok {
						states++
						// a new state: replaying its history once more must give the same state
						if k2 := build(cfg, hist, true, it.warn, it.warnOp).canon(); k2 != s.key {
							c.HarnessError("nondeterministic replay of " + histString(hist) + ": " + s.key + " vs " + k2)
							return
						}
						if states == 20 || states == 400 {
							c.Sample(map[string]any{"config": cfg, "history": histString(hist), "state": s.key})
						}
					}
					seen[s.key] = s.post
					seenAge[s.key] = s.age
					isRep := false
					if !ok && !repSeen[s.sig] {
						repSeen[s.sig] = true
						isRep = true
						reps++
					}
					next = append(next, item{hist, s.post, s.warn, s.warnOp, isRep, s.age})
				}
			}
			results[i] = nil
		}
		frontier = next
		depth++
		expired := false
		for k := 0; k < 64; k++ { // vf samples the clock on every 64th call only
			expired = expired || c.Expired()
		}
		if expired && os.Getenv("VERIF_C11_NOLIMIT") == "" {
			c.Cap("soft deadline reached in " + label + fmt.Sprintf(" at BFS depth %d (%d states)", depth, states))
			break
		}
		if os.Getenv("VERIF_C11_DEBUG") != "" {
			fmt.Fprintf(os.Stderr, "%s depth=%d states=%d frontier=%d\n", label, depth, states, len(frontier))
		}
	}
	c.States(states)
	c.Nontrivial(states)
	c.Count("states:"+label, states)
	c.Count("bfs_depth:"+label, int64(depth))
	c.Count("content_representatives:"+label, reps)
	c.Count("transitions_from_representatives_only(slice-writers,operand-arithmetic):"+label, repTrans)
	if cappedIncoherent > 0 {
		c.Count("large: incoherent states not expanded beyond 3 further operations", cappedIncoherent)
	}
	if skippedKnown > 0 {
		c.Count("slice_writers_not_enumerated(known family: non-zero into a cell the parent vector does not store)", skippedKnown)
	}
}

func initOps(cfg Config) []Op {
	var r []Op
	if cfg.Kind == "vector" && (cfg.Large || cfg.Joint) {
		return []Op{{C: "init", I: cfg.N}}
	}
	if cfg.Kind == "vector" {
		// largest first, so that witnesses prefer init(n)+writes over chains of Append
		for n := cfg.N; n >= 0; n-- {
			r = append(r, Op{C: "init", I: n})
		}
		return r
	}
	return []Op{{C: "minit", I: cfg.Rows, J: cfg.Cols, B: cfg.Values2}}
}

func configs(thorough bool) []Config {
	var cfgs []Config
	elems := allElems
	for ei, e := range elems {
		main3 := ei < 3 // Float64, Real64, Int8: one type per template family gets the largest explorations
		if !thorough && !main3 {
			// fifth seeding round (seed C11-12): the generated files of the other six element types
			// are separate code; a slip in ONE instantiation was only seen by the thorough tier.
			// Quick runs them through the whole alphabet without live iterators: vectors n<=3,
			// matrices 1x2 and 2x2
			cfgs = append(cfgs, Config{Kind: "vector", Elem: e.name, N: 3, Slots: 0, Post: -1, cost: 1500})
			cfgs = append(cfgs, Config{Kind: "matrix", Elem: e.name, Rows: 1, Cols: 2, Slots: 0, Post: -1, cost: 16})
			cfgs = append(cfgs, Config{Kind: "matrix", Elem: e.name, Rows: 2, Cols: 2, Slots: 0, Post: -1, cost: 256})
			continue
		}
		if thorough {
			// all 9 types: n<=3 with one live iterator; the three main types additionally
			// n<=4 with one and n<=3 with two live iterators
			cfgs = append(cfgs, Config{Kind: "vector", Elem: e.name, N: 3, Slots: 1, Thorough: true, Post: -1, cost: 6000})
			if main3 {
				cfgs = append(cfgs, Config{Kind: "vector", Elem: e.name, N: 4, Slots: 1, Thorough: true, Post: -1, cost: 100000})
				cfgs = append(cfgs, Config{Kind: "vector", Elem: e.name, N: 3, Slots: 2, Thorough: true, Post: -1, cost: 50000})
			}
		} else {
			cfgs = append(cfgs, Config{Kind: "vector", Elem: e.name, N: 3, Slots: 1, Post: -1, cost: 6000})
		}
		// large containers (large.go): index trees of depth >= 3 with deletions of inner nodes
		if thorough {
			if main3 {
				cfgs = append(cfgs, Config{Kind: "vector", Elem: e.name, N: 8, Large: true, Z: 2, Thorough: true, Post: -1, cost: 90000})
				cfgs = append(cfgs, Config{Kind: "vector", Elem: e.name, N: 7, Large: true, Z: 1, Slots: 1, Thorough: true, Post: -1, cost: 60000})
			}
			if ei == 0 {
				cfgs = append(cfgs, Config{Kind: "vector", Elem: e.name, N: 10, Large: true, Z: 1, Thorough: true, Post: -1, cost: 200000})
			}
		} else if ei == 0 {
			cfgs = append(cfgs, Config{Kind: "vector", Elem: e.name, N: 8, Large: true, Z: 1, Post: -1, cost: 20000})
		} else if ei == 1 {
			cfgs = append(cfgs, Config{Kind: "vector", Elem: e.name, N: 7, Large: true, Z: 1, Post: -1, cost: 8000})
		}
		// live joint iterators interleaved with mutation (joint.go)
		if thorough {
			if main3 {
				cfgs = append(cfgs, Config{Kind: "vector", Elem: e.name, N: 3, Joint: true, JForms: []int{jfInterface, jfConst, jfConcrete}, JMut: true, Thorough: true, Post: -1, cost: 30000})
				cfgs = append(cfgs, Config{Kind: "matrix", Elem: e.name, Rows: 1, Cols: 3, Values2: true, Joint: true, JForms: []int{jfInterface}, JMut: true, Thorough: true, Post: -1, cost: 30000})
				cfgs = append(cfgs, Config{Kind: "matrix", Elem: e.name, Rows: 2, Cols: 2, Values2: true, Joint: true, JForms: []int{jfInterface}, Thorough: true, Post: -1, cost: 5000})
			} else {
				cfgs = append(cfgs, Config{Kind: "vector", Elem: e.name, N: 2, Joint: true, JForms: []int{jfInterface, jfConst, jfConcrete}, JMut: true, Thorough: true, Post: -1, cost: 1000})
				cfgs = append(cfgs, Config{Kind: "matrix", Elem: e.name, Rows: 1, Cols: 2, Values2: true, Joint: true, JForms: []int{jfInterface}, JMut: true, Thorough: true, Post: -1, cost: 1000})
			}
			if ei == 0 {
				cfgs = append(cfgs, Config{Kind: "vector", Elem: e.name, N: 4, Joint: true, JForms: []int{jfInterface, jfConcrete}, Thorough: true, Post: -1, cost: 30000})
			}
		} else if ei < 2 { // Float64 and Real64: one type per template
			cfgs = append(cfgs, Config{Kind: "vector", Elem: e.name, N: 2, Joint: true, JForms: []int{jfInterface, jfConcrete}, JMut: true, Post: -1, cost: 1000})
			cfgs = append(cfgs, Config{Kind: "matrix", Elem: e.name, Rows: 1, Cols: 2, Values2: true, Joint: true, JForms: []int{jfInterface}, JMut: true, Post: -1, cost: 1000})
			if ei == 0 {
				cfgs = append(cfgs, Config{Kind: "vector", Elem: e.name, N: 3, Joint: true, JForms: []int{jfInterface, jfConcrete}, Post: -1, cost: 5000})
			}
		}
		// matrices: (rows, cols, values restricted to {0,1}, iterator slots)
		type shp struct {
			r, c  int
			v2    bool
			slots int
		}
		shapes := []shp{{1, 1, false, 1}, {1, 2, false, 1}, {2, 2, false, 1}, {2, 3, true, 0}}
		if thorough {
			shapes = []shp{{1, 1, false, 2}, {1, 2, false, 2}, {2, 1, false, 2}, {1, 3, false, 2}, {2, 2, false, 2}, {2, 3, true, 0}}
			if main3 {
				shapes = append(shapes, shp{2, 3, false, 0}, shp{2, 3, true, 1})
			}
		}
		for _, s := range shapes {
			cost := 1
			for k := 0; k < s.r*s.c; k++ {
				cost *= 4
			}
			cfgs = append(cfgs, Config{Kind: "matrix", Elem: e.name, Rows: s.r, Cols: s.c, Values2: s.v2, Slots: s.slots, Thorough: thorough, Post: -1, cost: cost * (1 + 8*s.slots)})
		}
	}
	return cfgs
}

func main() {
	vf.Main(vf.Spec{
		ID:    "C11",
		Level: "model_checking",
		Rule: "explicit-state BFS to fixpoint over REAL sparse vectors (start: the empty vector of every dimension 0..n; Append is a transition into the larger dimension, capped at n) and REAL sparse matrices (one exploration per shape; T/Tip change the orientation); element types: quick Float64, Real64, Int8 with live iterators and the other six generated instantiations (Float32, Real32, Int16, Int32, Int64, Int) through the whole alphabet without live iterators on vectors n<=3 and matrices 1x2, 2x2; thorough all nine with live iterators: " +
			"every operation of the alphabet (At, At.SetFloat64, Set/SET with dense+sparse operands, Reset, Swap, Permute for all permutations, Sort, ReverseOrder, Slice then write through the slice, AppendScalar/AppendVector, value-preserving VmulV/VsubV/VaddV/VmulS with the vector as receiver, full Iterator/IteratorFrom/JointIterator walks, Clone, opening/advancing/dropping a live iterator; matrices: At, Set, Reset, SetIdentity, Swap, SwapRows/Columns, Permute*, T, Tip, Slice(+write), Row/Col/ConstRow/Diag, iterators) from every reachable state; " +
			"a state is distinct by its canonical form = dense model + private state read through the overlay (key set of the values map with stored-zero / nil-placeholder / alias flags, index tree keys + shape and balance factors) + fields of the live iterators; " +
			"SLICES AS RECEIVERS and the container AS OPERAND (views.go), from one representative state -- the first the BFS reaches -- of every distinct content (vectors and matrices of at most 4 cells: model values + storage class absent/stored zero/non-zero of every position + key set of the index; larger matrices: non-zero pattern of the model [quick] / storage-class pattern [thorough]; dimensions/orientation always): every window Slice(i,j) / Slice(r0,r1,c0,c1) incl. those anchored at the origin and the full window x every whole-container writer with the slice as receiver (vectors: Reset, Set, VmulS(s,s,0|1), Map, MapSet, VaddV(s,w,0), VmulV(s,s,mask); matrices: Reset, SetIdentity, Set, MdotM, Outer, Map, MapSet, MmulS, MsubM, MmulM; dense and sparse operands from the menus), then the slice must read as the reference says, the views of other windows TAKEN BEFORE the writer (full window + the complements of the written window; thorough, containers of at most 4 cells: all windows) must read as the model says, then the ordinary oracles judge the PARENT and finally every view is iterated and read again; the vector as operand of VaddV/VmulV/Set/Equals into fresh sparse and dense receivers (result = model, result iteration = non-zero positions); " +
			"LARGE CONTAINERS (large.go): one sparse vector of dimension 8 (Float64) / 7 (Real64) [thorough: 8 with <=2 stored zeros and 7 with a live iterator for three element types, 10 for Float64], values {0,1}, BFS to fixpoint over (key subset, index tree shape with balance factors, stored-zero set) -- every tree shape insertions and deletions can produce, not every insertion order -- with the alphabet At.SetFloat64(1|0) at every position (a new stored zero only while at most Z are stored), the purging operations Iterator/IteratorFrom(i)/JointIterator walks and the operand arithmetic, Swap(i,j) with at least one stored position (entry moves = index delete + insert), Reset and VmulS(x,x,0) (bulk zeroing; from a state with more than Z stored zeros only the purging operations are enabled, so one iteration deletes up to n index entries), Clone, live iterators where slots>0; " +
			"LIVE JOINT ITERATORS (joint.go): separate explorations on one container of fixed dimension (quick: vectors n=2 and matrices 1x2 with a mutable sparse operand for Float64 and Real64 = one type per template, vectors n=3 with immutable operands for Float64; thorough: n=3 / 1x3 with mutable operand and 2x2 for three element types, n=2 / 1x2 for the other six, n=4 for Float64), values {0,1}, alphabet At.SetFloat64(0|1) at every position, a full foreign walk (purges stored zeros), Reset, opening a joint iterator in every reachable form (JointIterator, ConstJointIterator [thorough], the concrete JOINT_ITERATOR_ of the vector types through reflection) with every operand of a menu (dense and sparse x zero, ones, 1010.., 0101..), advancing it, dropping it, and while it is live and its operand sparse: element writes to the OPERAND and a full walk of the operand (purges the operand's stored zeros under the iterator); after every transition the live joint iterator is continued to its end twice -- on the instance on which the check's fresh full iteration already purged the stored zeros and on a second replay instance without that purge -- and must terminate within dim+3 steps (otherwise: violation, never a hang), move strictly ascending, visit at least every position beyond its own where container or operand is non-zero and report the true values; " +
			"every transition is executed on the implementation by replaying the shortest history on a fresh instance and then checked through the public API only: every typed read of every position, Dim, a fresh full iteration (exactly the non-zero positions, ascending, once, true values), continuation of the live iterators; states that fail are not expanded",
		Assume: []string{
			"element values {-1,0,1,2} (vectors), {0,1,2} or {0,1} (matrices); derivatives of Real types are not used",
			"reference semantics of Set/Swap/Permute/Sort/ReverseOrder/arithmetic = the dense vector of the same element type holding the model (differential; Permute is the documented interchange sequence); matrices use a plain row-major model; SwapRows/Columns/Permute* may refuse non-square matrices with an error (then nothing may change)",
			"a live iterator that saw Swap/Permute/Sort/ReverseOrder/Tip is only required to stay safe (no panic, terminates, ascending, reports positions that hold the reported non-zero value, container intact): an implementation may rebuild its index wholesale there; after element writes, Set, Reset, arithmetic and foreign walks it must continue over exactly the non-zero positions beyond its own",
			"ReverseOrder and T rebuild the index in Go map order: from then on the tree shape is not part of the state key (its key set is) and iterators left behind in such a tree by a reordering operation are not followed; matrix state keys never contain the tree shape (covered by the vector explorations)",
			"overlay accessors are read-only and used for state keys / early-warning annotations only; private incoherence alone is never a verdict",
			"a sparse VECTOR slice is not a view: it shares the stored scalars of its parent only (known open finding Slice+write|vector|...|parent-cell=absent), and a stored zero is dropped from the slice by the slice's own purging iterators before an iterating writer reaches it; slice writers that must produce a non-zero value at a position where the parent holds no non-zero entry are manifestations of that finding and are not enumerated (counted in slice_writers_not_enumerated); sparse MATRIX slices are views and get every writer",
			"slice writers and operand arithmetic depend on the cell contents, not on index shape or iterator fields: they are run from one representative state per content signature (counted in content_representatives), all other operations from every state",
			"live joint iterators are held to the demand made on the plain live iterators (after element writes, Reset and foreign walks they continue over the non-zero positions beyond their own); they may visit more positions (a dense operand reports every position); the violation key names the container kind, the template (plain = Int*/Float*, real = Real*), the iterator form and what the LAST operation did ahead of the iterator (receiver/operand entry removed, or created-or-written) -- every state passed the complete continuation oracle before it was expanded, so the last operation is the one that broke the iterator",
			"large containers: a state whose private state is incoherent (map and index disagree: the early warning) is expanded for at most 3 further operations (never reached on a library that keeps them coherent; counted when it happens); Permute/Sort/ReverseOrder/Append/slices/masks are left to the small explorations there",
		},
		// vf measures the soft limit in CPU time of the worker process; this check runs as ONE
		// worker with 16 threads, so the limits are about 12 busy threads x (100 s | 13 min)
		SoftLimit: map[string]time.Duration{"thorough": 160 * time.Minute, "quick": 20 * time.Minute},
		Shards:    1, // one worker process; the configurations and the BFS frontiers are spread over 16 goroutines
		Run: func(c *vf.Ctx) {
			runtime.GOMAXPROCS(16)
			initCaches(c.Thorough())
			cfgs := configs(c.Thorough())
			if f := os.Getenv("VERIF_C11_ONLY"); f != "" { // development aid: restrict to matching configurations
				var sel []Config
				for _, cfg := range cfgs {
					if strings.Contains(cfg.label(), f) {
						sel = append(sel, cfg)
					}
				}
				cfgs = sel
				c.Cap("VERIF_C11_ONLY restricts the configurations")
			}
			if os.Getenv("VERIF_C11_NOREP") != "" { // development aid (cost measurements)
				c.Cap("VERIF_C11_NOREP disables the slice-writer / operand operations")
			}
			sort.SliceStable(cfgs, func(a, b int) bool { return cfgs[a].cost > cfgs[b].cost })
			var wg sync.WaitGroup
			for _, cfg := range cfgs {
				wg.Add(1)
				go func(cfg Config) {
					defer wg.Done()
					defer func() {
						if r := recover(); r != nil {
							c.HarnessError(fmt.Sprintf("harness panic in %+v: %v", cfg, r))
						}
					}()
					explore(c, cfg)
				}(cfg)
			}
			wg.Wait()
		},
		Replay: func(c *vf.Ctx, raw json.RawMessage) {
			var cs Case
			if err := json.Unmarshal(raw, &cs); err != nil {
				c.HarnessError(err.Error())
				return
			}
			initCaches(cs.Cfg.Thorough)
			n := build(cs.Cfg, cs.Hist, false, "", "")
			if os.Getenv("VERIF_C11_DEBUG") != "" {
				for k := range cs.Hist {
					fmt.Fprintf(os.Stderr, "after %d ops: %s\n", k+1, build(cs.Cfg, cs.Hist[:k+1], false, "", "").canon())
				}
			}
			f := runAll(cs.Cfg, cs.Hist, n, false, "", "")
			warn := n.warning()
			if he := n.harnessErr(); he != "" {
				c.HarnessError(he)
				return
			}
			if f != nil {
				what := f.what + " -- history: " + histString(cs.Hist)
				if warn != "" {
					what += " -- early warning: " + warn
				}
				c.Violate(f.key, what, int64(len(cs.Hist)), cs)
			}
		},
	})
}
