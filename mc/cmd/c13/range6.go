// Execution of the computed-reference part of the range lattice L6 and the consistency
// check between the computed reference and the committed mpmath tables.
package main

import (
	"fmt"
	"math"
	"math/big"
)

var igamIdentNames = []string{"GammaP+GammaQ=1", "GammaLower+GammaUpper=Gamma(a)", "GammaP(a+1,x)=GammaP(a,x)-x^a e^-x/Gamma(a+1)"}
var besselIdentNames = []string{"I(v-1,x)-I(v+1,x)=(2v/x)I(v,x)", "LogBesselI=log(BesselI)"}

// range6 runs every L6 case of one family that is not a table row already (those were
// compared with mpmath by the caller): comparisons with the computed reference, then the
// identities of the family at the same point.
func (h *H) range6(fam string, tbl table, thorough bool) {
	c := h.c
	var n, dup, rank int64
	for _, col := range points6(fam, thorough) {
		mine := h.mine() // one column of the grid is one unit of work
		for _, p := range col {
			rank++
			if _, ok := tbl[mkKey(p.Fn, p.A, p.X)]; ok {
				dup++
				continue
			}
			n++
			if !mine {
				continue
			}
			ks, err := computedChecks(p)
			if err != nil {
				c.HarnessError(err.Error())
				continue
			}
			for _, k := range ks {
				h.runChk(k, rank, mkCase("ref", k.fn, p.Fn, p.A, p.X))
			}
			names := igamIdentNames
			if fam == "bessel" {
				names = besselIdentNames
			}
			for _, nm := range names {
				h.identAt(nm, p, tbl, rank)
			}
			if n == 5000 {
				c.Sample(map[string]any{"fn": p.Fn, "a": p.A, "x": p.X, "reference": "computed (ref6.go)"})
			}
		}
		resetMemo6()
	}
	if c.Shard == 0 {
		c.Count("range_lattice_points_"+fam, n)
		c.Count("range_lattice_points_already_in_table_"+fam, dup)
	}
}

// computedChecks: the comparisons of one L6 point against the computed reference.
func computedChecks(p Pt) ([]chk, error) {
	switch p.Fn {
	case "igam":
		r, ok := igamComputeMemo(p.A, p.X)
		if !ok {
			return nil, fmt.Errorf("no computed reference for igam(%s, %s)", hexf(p.A), hexf(p.X))
		}
		return igamChecks(p.A, p.X, r)
	case "bessel":
		r, ok := besselComputeMemo(p.A, p.X)
		if !ok {
			return nil, fmt.Errorf("no computed reference for bessel(%s, %s)", hexf(p.A), hexf(p.X))
		}
		return besselChecks(p.A, p.X, r), nil
	}
	return nil, fmt.Errorf("family %q has no computed reference", p.Fn)
}

// ---- memo of one grid column (the identities of a point need the rows of the point and of its
// neighbours in the shape direction) ----

type memoKey struct{ a, x uint64 }

var (
	igamMemo   = map[memoKey]*igamRow{}
	besselMemo = map[memoKey]*besselRow{}
)

func resetMemo6() {
	igamMemo = map[memoKey]*igamRow{}
	besselMemo = map[memoKey]*besselRow{}
}

func igamComputeMemo(a, x float64) (*igamRow, bool) {
	k := memoKey{fbits(a), fbits(x)}
	if r, ok := igamMemo[k]; ok {
		return r, r != nil
	}
	r, ok := igamCompute(a, x)
	if !ok {
		r = nil
	}
	igamMemo[k] = r
	return r, ok
}

func besselComputeMemo(v, x float64) (*besselRow, bool) {
	k := memoKey{fbits(v), fbits(x)}
	if r, ok := besselMemo[k]; ok {
		return r, r != nil
	}
	r, ok := besselCompute(v, x)
	if !ok {
		r = nil
	}
	besselMemo[k] = r
	return r, ok
}

// ---- computed reference against mpmath ------------------------------------------------

// relDiff: |a-b|/|b| as float64 (b != 0).
func relDiff(a, b *big.Float) float64 {
	d := wabs(wsub(a, b))
	return wFloat(wquo(d, wabs(b)))
}

// sensClose: the table keeps 4 digits of a sensitivity that the generator obtains from
// central differences; the computed one is analytic. slack is the admitted ratio above the
// table value (the K_n term of negative integer orders is an upper bound).
func sensClose(comp, tab, slack float64) bool {
	if math.IsInf(tab, 0) || math.IsInf(comp, 0) || tab > 1e300 || comp > 1e300 {
		return true
	}
	if math.Abs(comp-tab) <= 5e-3*tab+1e-12 {
		return true
	}
	return comp >= tab && comp <= slack*tab
}

func refSame(c, t Ref) (bool, string) {
	if c.Kind != t.Kind {
		return false, fmt.Sprintf("kind %c against %c", c.Kind, t.Kind)
	}
	switch c.Kind {
	case 'o', 'u':
		// the sign of an underflowing value is not kept by parseRef
		if c.Kind == 'o' && c.Neg != t.Neg {
			return false, "sign of the overflow"
		}
		return true, ""
	case 'n':
		if d := relDiff(wset(c.Big), wset(t.Big)); !(d <= 1e-18) {
			return false, fmt.Sprintf("relative difference %.3g", d)
		}
	}
	return true, ""
}

// selfCheck6 compares the computed reference with the table row of a point inside the
// domain of the computed reference (0 < |x| <= 1, shape constants available). A
// disagreement is a defect of the harness (HarnessError), never a verdict on the library.
// Returns whether a comparison took place.
func (h *H) selfCheck6(p Pt, row string) bool {
	bad := func(what string) {
		h.c.HarnessError(fmt.Sprintf("computed reference disagrees with the mpmath table at %s(%s, %s): %s", p.Fn, hexf(p.A), hexf(p.X), what))
	}
	switch p.Fn {
	case "igam":
		comp, ok := igamCompute(p.A, p.X)
		if !ok {
			return false
		}
		t, err := parseIgam(row)
		if err != nil {
			return false
		}
		for _, q := range []struct {
			n    string
			c, t *big.Float
		}{{"lower", comp.L, t.L}, {"upper", comp.U, t.U}, {"x^a e^-x", comp.pref, t.pref}} {
			if q.t.Sign() == 0 {
				// the generator writes 0 for values below the exponent range of mpmath's printer: never
				bad(q.n + " is zero in the table")
				return true
			}
			if d := relDiff(q.c, q.t); !(d <= 1e-18) {
				bad(fmt.Sprintf("%s differs by %.3g relative", q.n, d))
				return true
			}
		}
		for _, q := range []struct {
			n    string
			c, t float64
		}{{"caP", comp.caP, t.caP}, {"caQ", comp.caQ, t.caQ}, {"caL", comp.caL, t.caL}, {"caU", comp.caU, t.caU}, {"caD", comp.caD, t.caD}} {
			if !sensClose(q.c, q.t, 1) {
				bad(fmt.Sprintf("sensitivity %s: computed %.6g, table %.6g", q.n, q.c, q.t))
				return true
			}
		}
		return true
	case "bessel":
		comp, ok := besselCompute(p.A, p.X)
		if !ok {
			return false
		}
		t, err := parseBessel(row)
		if err != nil {
			return false
		}
		if ok, why := refSame(comp.I, t.I); !ok {
			bad("I: " + why)
			return true
		}
		if ok, why := refSame(comp.L, t.L); !ok {
			bad("log I: " + why)
			return true
		}
		slack := 1.0
		if p.A < 0 && p.A == math.Floor(p.A) {
			slack = 4 // K_n is bounded from above, the generator differentiates numerically
		}
		if comp.sI.Abs != t.sI.Abs || !sensClose(comp.sI.V, t.sI.V, slack) {
			bad(fmt.Sprintf("sensitivity of I: computed %.6g, table %.6g", comp.sI.V, t.sI.V))
			return true
		}
		if t.L.Kind == 'n' && (comp.sL.Abs != t.sL.Abs || !sensClose(comp.sL.V, t.sL.V, slack)) {
			bad(fmt.Sprintf("sensitivity of log I: computed %.6g, table %.6g", comp.sL.V, t.sL.V))
			return true
		}
		return true
	}
	return false
}
