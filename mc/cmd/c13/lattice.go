// Finite floating-point sub-lattices for C13. Everything here is deterministic; the
// same code emits the point list consumed by /verif/ref/c13/gen.py (`c13 -points`) and
// drives the checks, so tables and enumeration cannot drift apart silently (a point
// without a table row is a HarnessError).
package main

import (
	"math"
	"sort"
)

// l1 returns the positive part of L1(m,E): every float64 with at most m significant
// mantissa bits and binary exponent in [-E,E], ordered simplest first (fewer bits,
// then smaller |exponent|, then smaller mantissa).
func l1(m, E int) []float64 {
	var r []float64
	for bits := 1; bits <= m; bits++ {
		for ei := 0; ei <= 2*E; ei++ {
			e := (ei + 1) / 2
			if ei%2 == 1 {
				e = -e
			}
			lo, hi := 1<<(bits-1), 1<<bits
			for M := lo; M < hi; M++ {
				if bits > 1 && M%2 == 0 {
					continue
				}
				r = append(r, math.Ldexp(float64(M), e-(bits-1)))
			}
		}
	}
	return r
}

// lx: extreme binary exponents (beyond ±E0) with 1- and 2-bit mantissas, every `step`-th
// exponent plus the ends of the normal and subnormal range.
func lx(E0, step int) []float64 {
	var r []float64
	add := func(e int) {
		for _, M := range []float64{1, 1.5} {
			v := math.Ldexp(M, e)
			if v > 0 && !math.IsInf(v, 0) {
				r = append(r, v)
			}
		}
	}
	for e := E0 + 1; e <= 1023; e += step {
		add(e)
		add(-e)
	}
	add(1023)
	add(-1022)
	add(-1074)
	return r
}

// ulps returns v moved by k units in the last place.
func ulps(v float64, k int) float64 {
	for ; k > 0; k-- {
		v = math.Nextafter(v, math.Inf(1))
	}
	for ; k < 0; k++ {
		v = math.Nextafter(v, math.Inf(-1))
	}
	return v
}

// around: L3 neighbourhood of a threshold constant t: t ±{0,1,2,3} ulp and t·(1±1e-6), t·(1±1e-3).
func around(t float64) []float64 {
	r := []float64{t}
	for k := 1; k <= 3; k++ {
		r = append(r, ulps(t, -k), ulps(t, k))
	}
	if t != 0 {
		r = append(r, t*(1-1e-6), t*(1+1e-6), t*(1-1e-3), t*(1+1e-3))
	} else {
		r = append(r, -1e-6, 1e-6, -1e-3, 1e-3)
	}
	return r
}

func aroundAll(ts ...float64) []float64 {
	var r []float64
	for _, t := range ts {
		r = append(r, around(t)...)
	}
	return r
}

// halves: L2, all integers and half-integers k/2 with 1 <= k <= 2*max.
func halves(max int) []float64 {
	var r []float64
	for k := 1; k <= 2*max; k++ {
		r = append(r, float64(k)/2)
	}
	return r
}

func withNeg(p []float64) []float64 {
	r := make([]float64, 0, 2*len(p))
	for _, v := range p {
		r = append(r, v, -v)
	}
	return r
}

// uniq removes duplicates keeping first occurrences (keeps simplest-first order), and
// drops NaN/Inf.
func uniq(p []float64) []float64 {
	seen := map[uint64]bool{}
	r := p[:0:0]
	for _, v := range p {
		if math.IsNaN(v) || math.IsInf(v, 0) {
			continue
		}
		if v == 0 {
			v = 0 // -0 -> +0
		}
		b := math.Float64bits(v)
		if !seen[b] {
			seen[b] = true
			r = append(r, v)
		}
	}
	return r
}

func filter(p []float64, ok func(float64) bool) []float64 {
	r := p[:0:0]
	for _, v := range p {
		if ok(v) {
			r = append(r, v)
		}
	}
	return r
}

// Pt is one enumerated case: function family, first argument (order / a / nu; 0 when
// unused) and second argument.
type Pt struct {
	Fn string  `json:"fn"`
	A  float64 `json:"a"`
	X  float64 `json:"x"`
}

type bounds struct {
	m1, e1   int // univariate L1
	m2, e2   int // bivariate L1
	half     int // L2 bound
	mp, ep   int // polygamma / mgamma per-order lattice
	nmax     int // polygamma largest order
	ml, el   int // logadd/logsub/powm1 lattice
	bern     int // largest Bernoulli index
	lxstep   int
	curveM   int // lattice of the first argument on two-argument threshold curves
	curveE   int
	negBessM int
	negBessE int
	th       bool // thorough tier (selects the L5 order sets of orders.go)
}

func tierBounds(thorough bool) bounds {
	if thorough {
		return bounds{m1: 8, e1: 40, m2: 4, e2: 12, half: 60, mp: 6, ep: 40, nmax: 60, ml: 3, el: 10, bern: 300, lxstep: 8, curveM: 3, curveE: 8, negBessM: 4, negBessE: 12, th: true}
	}
	return bounds{m1: 6, e1: 40, m2: 3, e2: 10, half: 20, mp: 4, ep: 40, nmax: 24, ml: 2, el: 10, bern: 60, lxstep: 64, curveM: 2, curveE: 6, negBessM: 3, negBessE: 10}
}

// ---- per-function argument sets ---------------------------------------------------

const sqrtLogErfc0 = 0.15686884013646321 // sqrt(2.4607833005759251e-02)

func uniArgs(fn string, b bounds) []float64 {
	base := withNeg(l1(b.m1, b.e1))
	h := withNeg(halves(b.half))
	ext := withNeg(lx(b.e1, b.lxstep))
	var th []float64
	switch fn {
	case "digamma":
		th = aroundAll(-1, 0, 0.5, 1, 2, 10, 1.4616321449683623, -0.5040830082644554)
	case "trigamma":
		th = aroundAll(0, 1, 2, 4, -1, 0.5)
	case "logerfc":
		th = aroundAll(0, sqrtLogErfc0, -sqrtLogErfc0, 8, -8, 26, 27)
	case "zeta":
		th = aroundAll(0, 1, 2, 4, 7, 15, 36, 56, 53, 1.49012e-08, -1.49012e-08, -20, -19, 21, -169, -170, -171, -2, -4, 3, 5, 101, 103)
	case "sinpi", "cospi":
		th = aroundAll(0, 0.25, 0.5, 0.75, 1, 1.5, 2, 3)
	}
	all := append(append(append([]float64{0}, base...), h...), th...)
	all = append(all, ext...)
	return uniq(all)
}

// order-indexed univariate families (polygamma n, mgamma/mlgamma k)
func polyArgs(n int, b bounds) []float64 {
	base := withNeg(l1(b.mp, b.ep))
	nf := float64(n)
	th := aroundAll(0, 0.5, 1, math.Min(5/nf, 0.25), 6+4*nf, -1, 2)
	h := withNeg(halves(min(b.half, 12)))
	if n > 6 {
		// high orders: coarse lattice only (the order is the interesting axis)
		base = withNeg(l1(3, 8))
		h = withNeg(halves(4))
	}
	return uniq(append(append(append([]float64{0}, base...), h...), th...))
}

func mgammaArgs(k int, b bounds) []float64 {
	lo := float64(k-1) / 2
	base := l1(b.mp, b.ep)
	h := halves(b.half)
	th := aroundAll(lo+0.5, lo+1, lo+1.4616321449683623, 1, 2, 171, 172, 171.6243769563027)
	all := append(append(base, h...), th...)
	return filter(uniq(all), func(v float64) bool { return v > lo })
}

// incomplete gamma (a,x), a>0, x>=0
// igamAs: the shape values of the (a,x) product lattice.
func igamAs(b bounds) []float64 {
	as := uniq(append(append(l1(b.m2, b.e2), halves(b.half)...),
		aroundAll(1, 10, 20, 30, 200, 170, 171)...))
	return filter(as, func(v float64) bool { return v > 0 })
}

// igamCurveAs: the shape values on which the two-argument selection curves are followed.
func igamCurveAs(b bounds) []float64 {
	ca := uniq(append(l1(b.curveM, b.curveE), halves(min(b.half, 30))...))
	ca = append(ca, 25, 100, 250, 400, 1000, 3000)
	ca = append(ca, igamOrderAs(b.th)...) // L5: both sides of every threshold in a
	return uniq(ca)
}

func igamPairs(b bounds) [][2]float64 {
	eps := math.Nextafter(1, 2) - 1
	as := igamAs(b)
	xs := uniq(append(append([]float64{0}, l1(b.m2, b.e2)...),
		aroundAll(eps, 0.2, 0.5, 0.6, 1, 1.1, 10, 709, 744)...))
	var r [][2]float64
	for _, a := range as {
		for _, x := range xs {
			r = append(r, [2]float64{a, x})
		}
	}
	// two-argument selection boundaries: for each a on a coarse lattice, x on the curve
	for _, a := range igamCurveAs(b) {
		curves := []float64{
			a / 0.75,                       // x*0.75 < a       (0.5 <= x < 1.1)
			math.Exp(-0.4 / a),             // -0.4/log(x) < a  (x < 0.5)
			a + 1/(3*a),                    // x - 1/(3x) < a   (approximate root; neighbourhood covers it)
			(a + math.Sqrt(a*a+4.0/3)) / 2, // exact root of x - 1/(3x) = a
			a * 1.4, a * 0.6,               // sigma < 0.4
			a * (1 + math.Sqrt(20/a)), a * (1 - math.Sqrt(20/a)), // 20/a > sigma^2
			a - 1,        // a <= x+1 (finite sums)
			4 * a, a / 4, // log-domain branches of the non-normalised functions
			a, // centre of Temme region
		}
		for _, t := range curves {
			if !(t > 0) {
				continue
			}
			for _, x := range around(t) {
				if x >= 0 {
					r = append(r, [2]float64{a, x})
				}
			}
		}
	}
	return uniqPairs(r)
}

func uniqPairs(p [][2]float64) [][2]float64 {
	seen := map[[2]uint64]bool{}
	r := p[:0:0]
	for _, v := range p {
		if math.IsNaN(v[0]) || math.IsNaN(v[1]) || math.IsInf(v[0], 0) || math.IsInf(v[1], 0) {
			continue
		}
		k := [2]uint64{math.Float64bits(v[0] + 0), math.Float64bits(v[1] + 0)}
		if !seen[k] {
			seen[k] = true
			r = append(r, [2]float64{v[0] + 0, v[1] + 0})
		}
	}
	return r
}

// Bessel I (nu, x)
// besselVs: the orders of the (nu,x) product lattice.
func besselVs(b bounds) []float64 {
	vp := uniq(append(append([]float64{0}, l1(b.m2, b.e2)...), halves(b.half)...))
	vp = append(vp, aroundAll(0.5, 1, 170, 1.5, 2.5)...)
	vn := uniq(append(l1(b.negBessM, b.negBessE), halves(b.half)...))
	vn = append(vn, aroundAll(0.5, 1, 1.5)...)
	vs := vp
	for _, v := range vn {
		vs = append(vs, -v)
	}
	return uniq(vs)
}

// besselCurveVs: the (unsigned) orders on which the two-argument selection curves are followed.
func besselCurveVs(b bounds) []float64 {
	return uniq(append(append([]float64{0, 0.25, 0.75, 3.25}, l1(b.curveM, b.curveE)...), halves(min(b.half, 30))...))
}

func besselPairs(b bounds) [][2]float64 {
	vs := besselVs(b)
	xs := uniq(append(append([]float64{0}, l1(b.m2, b.e2)...),
		aroundAll(1, 2, 7.75, 100, 500, 709, 710)...))
	var r [][2]float64
	for _, v := range vs {
		for _, x := range xs {
			r = append(r, [2]float64{v, x})
		}
	}
	// curves: x/v = 0.25; asymptotic-expansion limit ((4v^2+10)/(8x))^4/24 = 10 eps
	eps := math.Nextafter(1, 2) - 1
	q := math.Pow(240*eps, 0.25)
	for _, v := range besselCurveVs(b) {
		for _, s := range []float64{1, -1} {
			if v == 0 && s < 0 {
				continue
			}
			for _, t := range []float64{v / 4, (4*v*v + 10) / (8 * q), v, 2 * v} {
				if !(t > 0) {
					continue
				}
				for _, x := range around(t) {
					if x >= 0 {
						r = append(r, [2]float64{s * v, x})
					}
				}
			}
		}
	}
	// negative x is admitted for integer order only
	for n := -8; n <= 8; n++ {
		for _, x := range l1(3, 8) {
			r = append(r, [2]float64{float64(n), -x})
		}
	}
	return uniqPairs(r)
}

// LogAdd / LogSub: all pairs of ±L1 plus -Inf handled separately in the harness
func logPairs(b bounds) [][2]float64 {
	s := uniq(append([]float64{0}, withNeg(append(l1(b.ml, b.el), 709, 710, 745, 746, 36, 37, 38))...))
	var r [][2]float64
	for _, a := range s {
		for _, c := range s {
			r = append(r, [2]float64{a, c})
		}
	}
	// near-diagonal pairs a = b + 2^-k (cancellation in LogSub), k = 1..48
	kstep := 4
	if b.ml >= 3 {
		kstep = 1
	}
	for _, c := range []float64{0, 1, -1, 16, -16} {
		for k := 1; k <= 48; k += kstep {
			r = append(r, [2]float64{c + math.Ldexp(1, -k), c})
		}
	}
	return uniqPairs(r)
}

// Powm1(a,z) = a^z - 1, a > 0
func powm1Pairs(b bounds) [][2]float64 {
	as := uniq(append(l1(b.ml, b.el), aroundAll(1)...))
	zs := uniq(append([]float64{0}, withNeg(append(l1(b.ml, b.el), aroundAll(1)...))...))
	var r [][2]float64
	for _, a := range as {
		for _, z := range zs {
			r = append(r, [2]float64{a, z})
			// |log(a)*z| = 2 is the branch boundary
			if a != 1 && z > 0 {
				for _, zz := range around(2 / math.Abs(math.Log(a))) {
					r = append(r, [2]float64{a, zz}, [2]float64{a, -zz})
				}
			}
		}
	}
	return uniqPairs(r)
}

var uniFns = []string{"digamma", "trigamma", "logerfc", "zeta", "sinpi", "cospi"}

// points enumerates every table-backed case of a tier, in a fixed order.
func points(thorough bool) []Pt {
	b := tierBounds(thorough)
	var r []Pt
	for _, fn := range uniFns {
		for _, x := range uniArgs(fn, b) {
			r = append(r, Pt{fn, 0, x})
		}
	}
	for n := 2; n <= b.nmax; n++ {
		for _, x := range polyArgs(n, b) {
			r = append(r, Pt{"polygamma", float64(n), x})
		}
	}
	for k := 1; k <= 4; k++ {
		for _, x := range mgammaArgs(k, b) {
			r = append(r, Pt{"mgamma", float64(k), x})
		}
	}
	for n := 0; n <= 180; n++ {
		r = append(r, Pt{"factorial", 0, float64(n)})
	}
	for n := 0; n <= b.bern; n++ {
		r = append(r, Pt{"bernoulli", 0, float64(n)})
	}
	for _, p := range igamPairs(b) {
		r = append(r, Pt{"igam", p[0], p[1]})
	}
	for _, p := range besselPairs(b) {
		r = append(r, Pt{"bessel", p[0], p[1]})
	}
	for _, p := range logPairs(b) {
		r = append(r, Pt{"logadd", p[0], p[1]})
	}
	for _, p := range powm1Pairs(b) {
		r = append(r, Pt{"powm1", p[0], p[1]})
	}
	r = append(r, orderPoints(thorough)...)
	r = append(r, rangeTablePoints(thorough)...) // L6: polygamma range grid, per-shape constants
	// points are distinct: drop repetitions (L5 overlaps L1-L3), keeping first occurrences
	seen := make(map[Pt]bool, len(r))
	out := r[:0]
	for _, p := range r {
		p.A, p.X = p.A+0, p.X+0 // -0 -> +0
		if !seen[p] {
			seen[p] = true
			out = append(out, p)
		}
	}
	return out
}

// families in table-file order
var families = []string{"uni", "poly", "mgamma", "int", "shape", "igam", "bessel", "logadd", "powm1"}

func familyOf(fn string) string {
	switch fn {
	case "digamma", "trigamma", "logerfc", "zeta", "sinpi", "cospi":
		return "uni"
	case "polygamma":
		return "poly"
	case "factorial", "bernoulli":
		return "int"
	case "igshape", "beshape":
		return "shape"
	}
	return fn
}

func sortedKeys(m map[string]int64) []string {
	k := make([]string, 0, len(m))
	for s := range m {
		k = append(k, s)
	}
	sort.Strings(k)
	return k
}
