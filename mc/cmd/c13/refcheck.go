// Oracle (i): comparison with the committed high-precision reference tables, and the
// branch ("region") classification used for structural violation keys. The region
// functions mirror the algorithm-selection logic of the source only to NAME the branch a
// point exercises; they never influence a verdict.
package main

import (
	"fmt"
	"math"
	"math/big"
	"strings"

	la "github.com/pbenner/autodiff/logarithmetic"
	sp "github.com/pbenner/autodiff/special"
)

// chk is one library call to be compared with one reference value.
type chk struct {
	fn     string // exported function, e.g. "GammaQ"
	region string
	call   string
	f      func() float64
	ref    Ref
	sens   Sens
	extra  float64
	floor  float64 // absolute error floor in units of C*u (log-variants only)
	alt    *Ref    // alternative acceptable reference (sign convention of B1)
}

func g(v float64) string { return fmt.Sprintf("%v", v) }

// ---- regions ----------------------------------------------------------------------

const eps = 0x1p-52

func igamRegion(a, x float64, normalised, invert bool) string {
	if x == 0 {
		return "x=0"
	}
	if int(a) >= 170 && !normalised {
		switch {
		case invert && a*4 < x:
			return "large-a|log-cf"
		case !invert && a > 4*x:
			return "large-a|log-series"
		}
		return "large-a|via-regularised+" + igamRegion(a, x, true, invert)
	}
	isInt, isHalf := false, false
	if a < 30 && a <= x+1 && x < 709 {
		fa := math.Floor(a)
		if fa == a {
			isInt = true
		} else if math.Abs(fa-a) == 0.5 {
			isHalf = true
		}
	}
	switch {
	case isInt && x > 0.6:
		return "finite-sum-int"
	case isHalf && x > 0.2:
		return "finite-sum-half"
	case x < eps && a > 1:
		return "tiny-x"
	case x < 0.5:
		if -0.4/math.Log(x) < a {
			return "series"
		}
		return "small-a-upper"
	case x < 1.1:
		if x*0.75 < a {
			return "series"
		}
		return "small-a-upper"
	}
	if normalised && a > 20 {
		sigma := math.Abs((x - a) / a)
		if a > 200 {
			if 20/a > sigma*sigma {
				return "temme"
			}
		} else if sigma < 0.4 {
			return "temme"
		}
	}
	// a > 200: series and continued fraction converge slowest right outside the Temme zone
	edge := ""
	if normalised && a > 200 {
		if sigma := math.Abs((x - a) / a); 40/a > sigma*sigma {
			edge = "|temme-edge"
		}
	}
	if x-1/(3*x) < a {
		return "series" + edge
	}
	return "cf" + edge
}

func prefixRegion(a, x float64) string {
	if x == 0 {
		return "x=0"
	}
	if a < 10 {
		return "prefix-a<10"
	}
	if a >= 128 {
		return "prefix-a>=128"
	}
	return "prefix-a>=10"
}

// prefixMagnitude names the float64 fate of x^a e^-x / Gamma(a), the quantity both
// derivatives of P are formed from (pg is its true value): the derivatives themselves may
// be perfectly normal numbers where it is subnormal or zero.
func prefixMagnitude(pg *big.Float) string {
	switch {
	case pg.Cmp(bnew().SetMantExp(bf(1), -1075)) < 0:
		return "|prefix-underflows"
	case pg.Cmp(bf(1e-290)) < 0:
		return "|prefix-subnormal" // the prefix, or the power it is formed from, is subnormal
	}
	return ""
}

func besselRegion(v, x float64) string {
	if x < 0 {
		return "neg-x"
	}
	if x == 0 {
		if v < 0 && math.Floor(v) != v {
			return "x=0|neg-noninteger-order"
		}
		return "x=0"
	}
	sz := func(x float64) string {
		switch {
		case x < 7.75:
			return "small"
		case x < 500:
			return "mid"
		}
		return "large"
	}
	switch {
	case v == 0.5:
		if x >= 709 {
			return "half|large-x"
		}
		return "half"
	case v == 0:
		return "i0|" + sz(x)
	case v == 1:
		return "i1|" + sz(x)
	case v > 0 && x/v < 0.25:
		if v >= 170 {
			return "small-z-series|log-prefix"
		}
		return "small-z-series"
	}
	r := "ik"
	kUnderflows := false
	if v < 0 {
		r += "|reflect"
		v = -v
	}
	if x <= 2 {
		r += "|temme"
	} else {
		r += "|cf2"
		kUnderflows = math.Sqrt(math.Pi/(2*x))*math.Exp(-x) == 0 // x >= 743.2
		if kUnderflows {
			r += "|exp(-x)-underflows"
		}
	}
	lim := (4*v*v + 10) / (8 * x)
	lim *= lim
	lim *= lim
	lim /= 24
	switch {
	case lim < eps*10 && x > 100:
		r += "|asymptotic-large-x"
	case v > 0 && x/v < 0.25:
		r += "|small-z-series"
	default:
		r += "|cf1-wronskian"
	}
	if !kUnderflows && logBesselKApprox(v+1, x) > 709.78 {
		// K_{v+1}(x) exceeds the float64 range: the forward recurrence rescales (`scale`)
		r += "|K-rescaled"
	}
	return r
}

// logBesselKApprox: leading term of the uniform (Debye) expansion of log K_v(x), v > 0;
// only used to NAME the branch in which the K recurrence overflows and is rescaled.
func logBesselKApprox(v, x float64) float64 {
	if !(v > 1) {
		return 0
	}
	z := x / v
	w := math.Sqrt(1 + z*z)
	eta := w + math.Log(z/(1+w))
	return 0.5*math.Log(math.Pi/(2*v)) - v*eta - 0.5*math.Log(w)
}

func logErfcRegion(x float64) string {
	switch {
	case x*x < 2.4607833005759251e-02:
		return "series0"
	case x > 8:
		if x > 1e50 {
			return "rational8|huge-x"
		}
		return "rational8"
	}
	return "log-erfc"
}

func digammaRegion(x float64) string {
	switch {
	case x <= -1:
		return "reflect"
	case x == 0:
		return "x=0"
	case x >= 10:
		return "asymptotic"
	case x > 2:
		return "recur-down"
	case x < 0:
		return "recur-up|neg"
	case x < 1:
		return "recur-up"
	}
	return "rational-1-2"
}

func trigammaRegion(x float64) string {
	switch {
	case x <= 0:
		return "reflect"
	case x < 1:
		return "shift"
	case x <= 2:
		return "1-2"
	case x <= 4:
		return "2-4"
	}
	return "4-inf"
}

func polygammaRegion(n int, x float64) string {
	nb := "n=2..6"
	switch {
	case n > 1000:
		nb = "n>1000"
	case n > 170:
		nb = "n>170" // n! overflows
	case n >= 115:
		nb = "n=115..170" // log-domain forward recursion in the transition zone
	case n > 20:
		nb = "n=21..114"
	case n > 6:
		nb = "n=7..20"
	}
	switch {
	case x < 0:
		return nb + "|reflect"
	case x < math.Min(5/float64(n), 0.25):
		return nb + "|nearzero"
	case x > 6+4*float64(n):
		if float64(n)+x == x {
			return nb + "|atinfinity|huge-x"
		}
		return nb + "|atinfinity"
	case x == 1:
		return nb + "|x=1"
	case x == 0.5:
		return nb + "|x=1/2"
	}
	return nb + "|transition"
}

func zetaRegion(s float64) string {
	switch {
	case s == 1:
		return "pole"
	case s > 53:
		return "one"
	}
	if math.Floor(s) == s && math.Abs(s) < 1e18 {
		v := int64(s)
		switch {
		case v < 0 && v&1 == 1:
			return "int|neg-odd-bernoulli"
		case v < 0:
			return "int|trivial-zero"
		case v&1 == 0:
			return "int|pos-even-bernoulli"
		}
		return "int|pos-odd-table"
	}
	switch {
	case math.Abs(s) < 1.49012e-08:
		return "near0"
	case s < 0:
		if 1-s > 21 {
			if 1-s > 170 {
				return "reflect|log|beyond-170"
			}
			return "reflect|log"
		}
		return "reflect|gamma"
	case s < 1:
		return "prec|<1"
	case s <= 2:
		return "prec|1-2"
	case s <= 4:
		return "prec|2-4"
	case s <= 7:
		return "prec|4-7"
	case s < 15:
		return "prec|7-15"
	case s < 36:
		return "prec|15-36"
	}
	return "prec|36-53"
}

func sinPiRegion(x float64) string {
	x = math.Abs(x)
	switch {
	case x < 0.5:
		return "direct"
	case x < 1:
		return "0.5-1"
	case x >= 0x1p63:
		return "reduced|beyond-int64"
	}
	return "reduced"
}

func cosPiRegion(x float64) string {
	x = math.Abs(x)
	switch {
	case x < 0.25:
		return "direct"
	case x >= 0x1p63:
		return "reduced|beyond-int64"
	}
	return "reduced"
}

func powm1Region(a, z float64) string {
	if math.Abs(a) < 1 || math.Abs(z) < 1 {
		if math.Abs(math.Log(a)*z) < 2 {
			return "expm1"
		}
	}
	return "pow"
}

// ---- rows -> checks ---------------------------------------------------------------

func cols(row string, n int) ([]string, error) {
	f := strings.Split(row, "\t")
	if len(f) != n {
		return nil, fmt.Errorf("row has %d columns, expected %d: %q", len(f), n, row)
	}
	return f, nil
}

func refSens(v, s string) (Ref, Sens, error) {
	r, err := parseRef(v)
	if err != nil {
		return r, Sens{}, err
	}
	ss, err := parseSens(s)
	return r, ss, err
}

func bf(v float64) *big.Float { return new(big.Float).SetPrec(bigPrec).SetFloat64(v) }
func bnew() *big.Float        { return new(big.Float).SetPrec(bigPrec) }

func f64(v *big.Float) float64 { r, _ := v.Float64(); return r }

// rowChecks builds the comparisons of one table row.
func rowChecks(p Pt, row string) ([]chk, error) {
	a, x := p.A, p.X
	switch p.Fn {
	case "digamma", "trigamma", "logerfc", "zeta", "sinpi", "cospi":
		f, err := cols(row, 2)
		if err != nil {
			return nil, err
		}
		r, s, err := refSens(f[0], f[1])
		if err != nil {
			return nil, err
		}
		switch p.Fn {
		case "digamma":
			return []chk{{fn: "Digamma", region: digammaRegion(x), call: "Digamma(" + g(x) + ")", f: func() float64 { return sp.Digamma(x) }, ref: r, sens: s}}, nil
		case "trigamma":
			return []chk{{fn: "Trigamma", region: trigammaRegion(x), call: "Trigamma(" + g(x) + ")", f: func() float64 { return sp.Trigamma(x) }, ref: r, sens: s}}, nil
		case "logerfc":
			return []chk{{fn: "LogErfc", region: logErfcRegion(x), call: "LogErfc(" + g(x) + ")", f: func() float64 { return sp.LogErfc(x) }, ref: r, sens: s}}, nil
		case "zeta":
			return []chk{{fn: "Zeta", region: zetaRegion(x), call: "Zeta(" + g(x) + ")", f: func() float64 { return sp.Zeta(x) }, ref: r, sens: s}}, nil
		case "sinpi":
			return []chk{{fn: "SinPi", region: sinPiRegion(x), call: "SinPi(" + g(x) + ")", f: func() float64 { return sp.SinPi(x) }, ref: r, sens: s}}, nil
		default:
			return []chk{{fn: "CosPi", region: cosPiRegion(x), call: "CosPi(" + g(x) + ")", f: func() float64 { return sp.CosPi(x) }, ref: r, sens: s}}, nil
		}
	case "polygamma":
		f, err := cols(row, 2)
		if err != nil {
			return nil, err
		}
		r, s, err := refSens(f[0], f[1])
		if err != nil {
			return nil, err
		}
		n := int(a)
		// psi_n scales with n!; an evaluation that carries this factor in the log domain
		// (the source does for the reflection term and for large n) has an inherent error of
		// order lgamma(n+1)*u, which is admitted on top of the conditioning
		lg, _ := math.Lgamma(float64(n + 1))
		return []chk{{fn: "Polygamma", region: polygammaRegion(n, x), call: fmt.Sprintf("Polygamma(%d, %v)", n, x), f: func() float64 { return sp.Polygamma(n, x) }, ref: r, sens: s, extra: lg / 32}}, nil
	case "mgamma":
		f, err := cols(row, 4)
		if err != nil {
			return nil, err
		}
		r1, s1, err := refSens(f[0], f[1])
		if err != nil {
			return nil, err
		}
		r2, s2, err := refSens(f[2], f[3])
		if err != nil {
			return nil, err
		}
		k := int(a)
		reg := "k=1..4"
		if k > 4 {
			reg = "k>4"
		}
		return []chk{
			{fn: "Mgamma", region: reg, call: fmt.Sprintf("Mgamma(%v, %d)", x, k), f: func() float64 { return sp.Mgamma(x, k) }, ref: r1, sens: s1},
			{fn: "Mlgamma", region: reg, call: fmt.Sprintf("Mlgamma(%v, %d)", x, k), f: func() float64 { return sp.Mlgamma(x, k) }, ref: r2, sens: s2},
		}, nil
	case "factorial", "bernoulli":
		f, err := cols(row, 2)
		if err != nil {
			return nil, err
		}
		r, s, err := refSens(f[0], f[1])
		if err != nil {
			return nil, err
		}
		n := int(x)
		if p.Fn == "factorial" {
			reg := "table"
			if n >= 21 {
				reg = "gamma"
			}
			return []chk{{fn: "Factorial", region: reg, call: fmt.Sprintf("Factorial(%d)", n), f: func() float64 { return sp.Factorial(n) }, ref: r, sens: s}}, nil
		}
		c := chk{fn: "BernoulliNumber", region: "rational", call: fmt.Sprintf("BernoulliNumber(%d)", n), f: func() float64 { return sp.BernoulliNumber(n) }, ref: r, sens: s}
		if n == 1 {
			// B1 = +1/2 or -1/2 is a convention; both are accepted
			alt := r
			alt.Neg, alt.Hi, alt.Lo = !r.Neg, -r.Hi, -r.Lo
			c.alt = &alt
		}
		return []chk{c}, nil
	case "igam":
		r, err := parseIgam(row)
		if err != nil {
			return nil, err
		}
		return igamChecks(a, x, r)
	case "bessel":
		br, err := parseBessel(row)
		if err != nil {
			return nil, err
		}
		return besselChecks(a, x, br), nil
	case "igshape", "beshape":
		return nil, nil // constants of the computed reference (ref6.go), no case of their own
	case "logadd":
		f, err := cols(row, 4)
		if err != nil {
			return nil, err
		}
		r1, s1, err := refSens(f[0], f[1])
		if err != nil {
			return nil, err
		}
		r2, s2, err := refSens(f[2], f[3])
		if err != nil {
			return nil, err
		}
		reg := "a<=b"
		if a > x {
			reg = "a>b"
		}
		cs := []chk{{fn: "LogAdd", region: reg, call: fmt.Sprintf("LogAdd(%v, %v)", a, x), f: func() float64 { return la.LogAdd(a, x) }, ref: r1, sens: s1}}
		if a >= x {
			cs = append(cs, chk{fn: "LogSub", region: reg, call: fmt.Sprintf("LogSub(%v, %v)", a, x), f: func() float64 { return la.LogSub(a, x) }, ref: r2, sens: s2})
		}
		return cs, nil
	case "powm1":
		f, err := cols(row, 2)
		if err != nil {
			return nil, err
		}
		r, s, err := refSens(f[0], f[1])
		if err != nil {
			return nil, err
		}
		return []chk{{fn: "Powm1", region: powm1Region(a, x), call: fmt.Sprintf("Powm1(%v, %v)", a, x), f: func() float64 { return sp.Powm1(a, x) }, ref: r, sens: s}}, nil
	}
	return nil, fmt.Errorf("unknown family %q", p.Fn)
}

// logFloor: log I is demanded to the absolute accuracy that corresponds to the relative
// accuracy demanded of I itself (max(1, cond_I) units of C*u).
func logFloor(sI Sens) float64 {
	if sI.Abs || math.IsInf(sI.V, 0) || math.IsNaN(sI.V) {
		return 1
	}
	return math.Max(1, sI.V)
}

// igamRow holds the high-precision quantities of one incomplete-gamma row.
type igamRow struct {
	L, U, G, pref      *big.Float
	caP, caQ, caL, caU float64
	caD                float64
}

func parseIgam(row string) (*igamRow, error) {
	f, err := cols(row, 8)
	if err != nil {
		return nil, err
	}
	r := &igamRow{}
	if r.L, err = parseBig(f[0]); err != nil {
		return nil, err
	}
	if r.U, err = parseBig(f[1]); err != nil {
		return nil, err
	}
	if r.pref, err = parseBig(f[2]); err != nil {
		return nil, err
	}
	r.G = bnew().Add(r.L, r.U)
	for i, d := range []*float64{&r.caP, &r.caQ, &r.caL, &r.caU, &r.caD} {
		s, err := parseSens(f[3+i])
		if err != nil {
			return nil, err
		}
		*d = s.V
	}
	return r, nil
}

func quo(a, b *big.Float) *big.Float { return bnew().Quo(a, b) }

func besselChecks(v, x float64, br *besselRow) []chk {
	reg := besselRegion(v, x)
	return []chk{
		{fn: "BesselI", region: reg, call: fmt.Sprintf("BesselI(%v, %v)", v, x), f: func() float64 { return sp.BesselI(v, x) }, ref: br.I, sens: br.sI},
		{fn: "LogBesselI", region: reg, call: fmt.Sprintf("LogBesselI(%v, %v)", v, x), f: func() float64 { return sp.LogBesselI(v, x) }, ref: br.L, sens: br.sL, floor: logFloor(br.sI)},
	}
}

func igamChecks(a, x float64, r *igamRow) ([]chk, error) {
	if r.G.Sign() <= 0 {
		return nil, fmt.Errorf("igam row a=%v x=%v: Gamma(a) not positive", a, x)
	}
	P, Q := quo(r.L, r.G), quo(r.U, r.G)
	mk := func(fn, region string, f func() float64, v *big.Float, cond float64) chk {
		return chk{fn: fn, region: region, call: fmt.Sprintf("%s(%v, %v)", fn, a, x), f: f, ref: refFromBig(v), sens: Sens{V: cond}}
	}
	var cs []chk
	if x == 0 {
		// P = L = 0 and Q = 1 exactly; U = Gamma(a)
		cs = append(cs,
			mk("GammaP", "x=0", func() float64 { return sp.GammaP(a, x) }, P, 0),
			mk("GammaQ", "x=0", func() float64 { return sp.GammaQ(a, x) }, Q, 0),
			mk("GammaLower", "x=0", func() float64 { return sp.GammaLower(a, x) }, r.L, 0),
			mk("GammaUpper", "x=0", func() float64 { return sp.GammaUpper(a, x) }, r.U, r.caU))
		// derivatives of P at x=0: a>1: 0, a==1: 1, a<1: +Inf (pole); second derivative:
		// a>2: 0, a==2: 1, 1<a<2: pole, a==1: -1, a<1: pole
		d1 := Ref{Kind: 'z'}
		if a == 1 {
			d1 = refFromBig(bf(1))
		} else if a < 1 {
			d1 = Ref{Kind: 'p'}
		}
		d2 := Ref{Kind: 'z'}
		switch {
		case a == 2:
			d2 = refFromBig(bf(1))
		case a == 1:
			d2 = refFromBig(bf(-1))
		case a < 2:
			d2 = Ref{Kind: 'p'}
		}
		cs = append(cs,
			chk{fn: "GammaPfirstDerivative", region: "x=0", call: fmt.Sprintf("GammaPfirstDerivative(%v, 0)", a), f: func() float64 { return sp.GammaPfirstDerivative(a, x) }, ref: d1},
			chk{fn: "GammaPsecondDerivative", region: "x=0", call: fmt.Sprintf("GammaPsecondDerivative(%v, 0)", a), f: func() float64 { return sp.GammaPsecondDerivative(a, x) }, ref: d2})
		return cs, nil
	}
	cxL := f64(quo(r.pref, r.L)) // x d ln(lower) / dx
	cxU := f64(quo(r.pref, r.U))
	cs = append(cs,
		mk("GammaP", igamRegion(a, x, true, false), func() float64 { return sp.GammaP(a, x) }, P, cxL+r.caP),
		mk("GammaQ", igamRegion(a, x, true, true), func() float64 { return sp.GammaQ(a, x) }, Q, cxU+r.caQ),
		mk("GammaLower", igamRegion(a, x, false, false), func() float64 { return sp.GammaLower(a, x) }, r.L, cxL+r.caL),
		mk("GammaUpper", igamRegion(a, x, false, true), func() float64 { return sp.GammaUpper(a, x) }, r.U, cxU+r.caU))
	// dP/dx = x^(a-1) e^-x / Gamma(a);  d2P/dx2 = dP * (a-1-x)/x
	bx := bf(x)
	dP := quo(r.pref, bnew().Mul(bx, r.G))
	am1x := bnew().Sub(bnew().Sub(bf(a), bf(1)), bx) // exact
	d2P := quo(bnew().Mul(dP, am1x), bx)
	// x^a e^-x / Gamma(a), the common factor of both derivatives, may be subnormal or zero in
	// float64 where the derivatives themselves are ordinary numbers (a = 2, x = 1e-200:
	// prefix 1e-400, dP/dx = 1e-200): the comparison is made on the RESULT like everywhere
	// else (judge demands nothing of results below 1e-290); the fate of the prefix only names
	// the branch
	preg := prefixRegion(a, x) + prefixMagnitude(quo(r.pref, r.G))
	cs = append(cs, mk("GammaPfirstDerivative", preg, func() float64 { return sp.GammaPfirstDerivative(a, x) }, dP, math.Abs(a-1-x)+r.caD))
	// absolute sensitivity of the second derivative (it has a zero at x = a-1)
	t := math.Abs(f64(dP))
	sx := t * math.Abs(((a-1-x)*(a-1-x)-(a-1))/x)
	sa := t * a / x // d2P = 0 below
	c2 := chk{fn: "GammaPsecondDerivative", region: preg, call: fmt.Sprintf("GammaPsecondDerivative(%v, %v)", a, x), f: func() float64 { return sp.GammaPsecondDerivative(a, x) }, ref: refFromBig(d2P)}
	if d2P.Sign() == 0 {
		c2.sens = Sens{Abs: true, V: sx + sa}
	} else {
		// (sx + sa)/|d2| in closed form: dP may be subnormal or zero in float64 where the
		// second derivative is an ordinary number
		c2.sens = Sens{V: math.Abs(((a-1-x)*(a-1-x)-(a-1))/(a-1-x)) + r.caD + math.Abs(a/(a-1-x))}
	}
	cs = append(cs, c2)
	return cs, nil
}
