// L4: the univariate identities over EVERY float32 value (promoted to float64) of the
// domain (thorough), or every float32 value with at most 15 significant bits (quick).
package main

import (
	"fmt"
	"math"

	sp "github.com/pbenner/autodiff/special"
)

// sweepDomain restricts an identity to the part of the float32 line where it is
// informative (saves evaluating skip-only ranges). Returns false to skip x.
func sweepDomain(name string, x float64) bool {
	ax := math.Abs(x)
	switch name {
	case "Digamma(x+1)=Digamma(x)+1/x", "Trigamma(x+1)=Trigamma(x)-1/x^2":
		return ax >= 0x1p-29 && ax < 0x1p29
	case "SinPi(x+1)=-SinPi(x)", "CosPi(x+1/2)=-SinPi(x)":
		return ax < 0x1p29
	case "LogErfc=log(Erfc)":
		return x > -5 && x < 25
	case "Zeta reflection on (0,1)":
		return x > 0 && x < 1
	}
	return true
}

func (h *H) sweeps(thorough bool) {
	c := h.c
	step := uint32(1)
	if !thorough {
		step = 1 << 9
	}
	type acc struct{ n, applicable int64 }
	accs := make([]acc, len(uniIdents))
	var monoN int64
	const blockBits = 14
	for block := uint32(0); block < 1<<(32-blockBits); block++ {
		if !c.Mine(int64(block)) {
			continue
		}
		if c.Expired() {
			c.Cap("soft deadline reached during the float32 sweep")
			break
		}
		c.Guard("float32-sweep", int64(block), map[string]any{"block": block})
		base := block << blockBits
		havePrev := false
		var px, pf float64
		if base&0x7fffffff != 0 {
			// predecessor of the block's first value (same sign), so that every pair of
			// neighbouring float32 values is compared exactly once
			if p := float64(math.Float32frombits(base - step)); !math.IsNaN(p) && !math.IsInf(p, 0) {
				havePrev, px, pf = true, p, gLogErfc(p)
			}
		}
		for low := uint32(0); low < 1<<blockBits; low += step {
			bits := base | low
			x := float64(math.Float32frombits(bits))
			if math.IsNaN(x) || math.IsInf(x, 0) {
				havePrev = false
				continue
			}
			for k := range uniIdents {
				id := &uniIdents[k]
				if !sweepDomain(id.name, x) {
					continue
				}
				res, tol, st := id.core(x)
				if st == 0 {
					continue
				}
				accs[k].n++
				if st == 2 || math.IsNaN(res) || res > tol {
					h.sweepAt(id.name, x, int64(bits&0x7fffffff))
				}
			}
			// LogErfc: monotone non-increasing, never above log 2, never NaN
			f := gLogErfc(x)
			monoN++
			if math.IsNaN(f) || f > math.Ln2*(1+4*u) {
				h.sweepMono(x, x, int64(bits&0x7fffffff))
			} else if havePrev {
				lo, flo, hi, fhi := px, pf, x, f
				if lo > hi {
					lo, flo, hi, fhi = hi, fhi, lo, flo
				}
				if fhi > flo+logErfcSlack(lo, flo)+logErfcSlack(hi, fhi) {
					h.sweepMono(lo, hi, int64(bits&0x7fffffff))
				}
			}
			havePrev, px, pf = true, x, f
		}
	}
	for k := range uniIdents {
		c.Eval(accs[k].n)
		c.Nontrivial(accs[k].n)
		c.Count("float32_sweep:"+uniIdents[k].name, accs[k].n)
	}
	c.Eval(monoN)
	c.Nontrivial(monoN)
	c.Count("float32_sweep:LogErfc monotone/bounded/not-NaN", monoN)
}

func (h *H) sweepMono(x0, x1 float64, rank int64) {
	c := h.c
	f0, f1 := gLogErfc(x0), gLogErfc(x1)
	cs := mkCase("l4", "LogErfc monotone", "logerfc", x0, x1)
	reg := logErfcRegion(x0)
	if x0 != x1 {
		reg += "->" + logErfcRegion(x1)
	}
	switch {
	case math.IsNaN(f0) || math.IsNaN(f1):
		c.Violate("float32: LogErfc | "+reg+" | nan", fmt.Sprintf("LogErfc(%v)=%v, LogErfc(%v)=%v", x0, f0, x1, f1), rank, cs)
	case f0 > math.Ln2*(1+4*u) || f1 > math.Ln2*(1+4*u):
		c.Violate("float32: LogErfc | "+reg+" | above-log2", fmt.Sprintf("LogErfc(%v)=%v exceeds log 2", x0, f0), rank, cs)
	case x0 < x1 && f1 > f0+logErfcSlack(x0, f0)+logErfcSlack(x1, f1):
		c.Violate("float32: LogErfc monotone | "+reg+" | increases", fmt.Sprintf("LogErfc(%v)=%v < LogErfc(%v)=%v although erfc is decreasing", x0, f0, x1, f1), rank, cs)
	}
}

// sweepAt re-evaluates one identity at one float32 point with full diagnostics.
func (h *H) sweepAt(name string, x float64, rank int64) {
	c := h.c
	if name == "LogErfc monotone" {
		return
	}
	for k := range uniIdents {
		id := &uniIdents[k]
		if id.name != name {
			continue
		}
		r := id.eval(x)
		if r.skip || r.kind == "" {
			return
		}
		c.Violate("float32: "+name+" | "+r.region+" | "+r.kind, r.what, rank, mkCase("l4", name, id.fam, 0, x))
		return
	}
	c.HarnessError("unknown sweep identity " + name)
}

var _ = sp.Zeta
