// C13: special functions are accurate over their whole domain.
//
// Exhaustive enumeration of finite floating-point sub-lattices (see lattice.go) of the
// argument space of every function of /repo/special and /repo/logarithmetic:
//
//	(i)   comparison with committed high-precision reference tables (/verif/ref/c13),
//	      error measure |impl-ref| <= C*u*max(1,cond)*|ref|, cond computed on the
//	      reference side only;
//	(ii)  reference-free identities (recurrences, complements, log-variant = log of the
//	      plain variant, reflection), also over EVERY float32 value of the domain of the
//	      univariate functions (thorough tier);
//	(iii) NaN/Inf only where the reference says undefined / overflow.
package main

import (
	"bufio"
	"encoding/json"
	"fmt"
	"math"
	"os"
	"sort"
	"strconv"
	"strings"
	"time"

	"verif/mc/vf"
)

func hexf(v float64) string { return strconv.FormatFloat(v, 'x', -1, 64) }

func emitPoints() {
	w := bufio.NewWriterSize(os.Stdout, 1<<20)
	defer w.Flush()
	seen := map[Pt]bool{}
	for _, th := range []bool{false, true} {
		for _, p := range points(th) {
			if seen[p] {
				continue
			}
			seen[p] = true
			fmt.Fprintf(w, "%s\t%s\t%s\n", p.Fn, hexf(p.A), hexf(p.X))
		}
	}
}

// Case is the replay artefact of one failing case.
type Case struct {
	Check string  `json:"check"` // "ref", "ident", "l4"
	Name  string  `json:"name"`  // exported function (ref) or identity name
	Fam   string  `json:"family,omitempty"`
	A     string  `json:"a_hex"`
	X     string  `json:"x_hex"`
	Av    float64 `json:"a"`
	Xv    float64 `json:"x"`
}

func mkCase(check, name, fam string, a, x float64) Case {
	return Case{check, name, fam, hexf(a), hexf(x), jsonSafe(a), jsonSafe(x)}
}

func jsonSafe(v float64) float64 {
	if math.IsNaN(v) || math.IsInf(v, 0) {
		return 0
	}
	return v
}

// H carries the per-shard state.
type H struct {
	c     *vf.Ctx
	idx   int64
	stat  map[string]*stat
	debug bool
}

type stat struct {
	n        int64
	maxRatio float64
	at       string
}

func (h *H) mine() bool { h.idx++; return h.c.Mine(h.idx) }

func (h *H) track(fn string, v verdict, at string) {
	if !h.debug || !v.cmp || v.tol <= 0 {
		return
	}
	s := h.stat[fn]
	if s == nil {
		s = &stat{}
		h.stat[fn] = s
	}
	s.n++
	if r := v.err / v.tol; r > s.maxRatio && v.ok {
		s.maxRatio, s.at = r, at
	}
}

// runChk executes one comparison and records the verdict. only != "" restricts to one
// exported function (replay).
func (h *H) runChk(k chk, rank int64, cs Case) {
	c := h.c
	c.Guard(k.fn+"|"+k.region, rank, cs)
	impl, pan := call(k.f)
	c.Eval(1)
	if pan != "" {
		kind := "panic"
		switch k.ref.Kind {
		case 'n':
			kind = "panic-where-finite"
		case 'o':
			kind = "panic-where-overflow"
		case 'u', 'z':
			kind = "panic-where-zero-or-underflow"
		}
		c.Violate(k.fn+" | "+k.region+" | "+kind, fmt.Sprintf("%s panics: %s (reference %s)", k.call, pan, refString(k.ref)), rank, cs)
		c.Outcome(k.fn + "|" + k.region + "|" + kind)
		return
	}
	v := judge(impl, k.ref, k.sens, k.extra, k.floor)
	if !v.ok && k.alt != nil {
		if v2 := judge(impl, *k.alt, k.sens, k.extra, k.floor); v2.ok {
			v = v2
		}
	}
	if v.cmp {
		c.Nontrivial(1)
	}
	c.Outcome(k.fn + "|" + k.region + "|" + v.class)
	h.track(k.fn, v, k.call)
	if !v.ok {
		c.Violate(k.fn+" | "+k.region+" | "+v.kind, describe(k.call, impl, k.ref, v, Sens{Abs: k.sens.Abs, V: k.sens.V + k.extra}), rank, cs)
	}
}

func (h *H) refChecks(thorough bool) {
	c := h.c
	pts := points(thorough)
	byFam := map[string][]Pt{}
	for _, p := range pts {
		f := familyOf(p.Fn)
		byFam[f] = append(byFam[f], p)
	}
	only := os.Getenv("C13_ONLY") // development aid: restrict to some families (marks the run capped)
	for _, fam := range families {
		if only != "" && !strings.Contains(","+only+",", ","+fam+",") {
			c.Cap("C13_ONLY set")
			continue
		}
		tbl, err := loadFamily(fam)
		if err != nil {
			if c.Shard == 0 {
				c.HarnessError(err.Error())
			} else {
				c.Cap("reference table " + fam + " unusable")
			}
			continue
		}
		if c.Shard == 0 {
			c.Count("table_rows_"+fam, int64(len(tbl)))
			c.Count("lattice_points_"+fam, int64(len(byFam[fam])))
		}
		for i, p := range byFam[fam] {
			if !h.mine() {
				continue
			}
			row, ok := tbl[mkKey(p.Fn, p.A, p.X)]
			if !ok {
				c.HarnessError(fmt.Sprintf("no reference row for %s(%s, %s)", p.Fn, hexf(p.A), hexf(p.X)))
				continue
			}
			ks, err := rowChecks(p, row)
			if err != nil {
				c.HarnessError(err.Error())
				continue
			}
			for _, k := range ks {
				h.runChk(k, int64(i), mkCase("ref", k.fn, p.Fn, p.A, p.X))
			}
			if (fam == "igam" || fam == "bessel") && p.X != 0 && math.Abs(p.X) <= 1 && (thorough || i%7 == 0) {
				// inside the domain of the computed reference of L6: both references must agree
				// (quick: on every seventh point of the family)
				if h.selfCheck6(p, row) {
					c.Count("computed_reference_compared_with_mpmath_"+fam, 1)
				}
			}
			if i == 1000 {
				c.Sample(map[string]any{"fn": p.Fn, "a": p.A, "x": p.X, "row": row})
			}
		}
		h.identOnTable(fam, byFam[fam], tbl)
		if fam == "igam" || fam == "bessel" {
			h.range6(fam, tbl, thorough)
		}
	}
}

func (h *H) finish() {
	if !h.debug {
		return
	}
	var ks []string
	for k := range h.stat {
		ks = append(ks, k)
	}
	sort.Strings(ks)
	f, err := os.Create(fmt.Sprintf("%s.%d", os.Getenv("C13_DEBUG"), h.c.Shard))
	if err != nil {
		return
	}
	defer f.Close()
	for _, k := range ks {
		s := h.stat[k]
		fmt.Fprintf(f, "shard %2d %-28s n=%-8d max err/tol (passing) = %.4f at %s\n", h.c.Shard, k, s.n, s.maxRatio, s.at)
	}
}

func run(c *vf.Ctx) {
	h := &H{c: c, stat: map[string]*stat{}, debug: os.Getenv("C13_DEBUG") != ""}
	// the oracle is only as good as its tables: verify all of them before anything runs
	if err := verifyTables(); err != nil {
		if c.Shard == 0 {
			c.HarnessError(err.Error())
		} else {
			c.Cap("reference tables unusable")
		}
		return
	}
	h.refChecks(c.Thorough())
	if only := os.Getenv("C13_ONLY"); only == "" || strings.Contains(","+only+",", ",sweep,") {
		h.sweeps(c.Thorough())
	}
	h.finish()
}

func replay(c *vf.Ctx, raw json.RawMessage) {
	var cs Case
	if err := json.Unmarshal(raw, &cs); err != nil {
		c.HarnessError(err.Error())
		return
	}
	a, e1 := strconv.ParseFloat(cs.A, 64)
	x, e2 := strconv.ParseFloat(cs.X, 64)
	if e1 != nil || e2 != nil {
		c.HarnessError("bad hex arguments in replay case")
		return
	}
	h := &H{c: c, stat: map[string]*stat{}}
	switch cs.Check {
	case "ref":
		tbl, err := loadFamily(familyOf(cs.Fam))
		if err != nil {
			c.HarnessError(err.Error())
			return
		}
		p := Pt{cs.Fam, a, x}
		var ks []chk
		if row, ok := tbl[mkKey(p.Fn, p.A, p.X)]; ok {
			ks, err = rowChecks(p, row)
		} else {
			ks, err = computedChecks(p) // a case of the range lattice L6
		}
		if err != nil {
			c.HarnessError(err.Error())
			return
		}
		for _, k := range ks {
			if k.fn == cs.Name {
				h.runChk(k, 0, cs)
			}
		}
	case "ident":
		tbl, err := loadFamily(familyOf(cs.Fam))
		if err != nil {
			c.HarnessError(err.Error())
			return
		}
		h.identAt(cs.Name, Pt{cs.Fam, a, x}, tbl, 0)
	case "l4":
		if cs.Name == "LogErfc monotone" {
			h.sweepMono(a, x, 0)
		} else {
			h.sweepAt(cs.Name, x, 0)
		}
	default:
		c.HarnessError("unknown check kind " + cs.Check)
	}
}

func main() {
	if len(os.Args) > 1 && os.Args[1] == "-points" {
		emitPoints()
		return
	}
	vf.Main(vf.Spec{
		ID:    "C13",
		Level: "exploration",
		Rule: "exhaustive enumeration of finite float64 sub-lattices: L1(m,E) = all values with <= m significant bits and binary exponent in [-E,E] (univariate m=8/6,E=40; (a,x) and (nu,x) m=4/3,E=12/10), L2 = integers and half-integers <= 60/20 as orders/poles x L1, L3 = every algorithm-selection threshold of the source +-{0..3} ulp and x(1+-1e-6), x(1+-1e-3), including the two-argument selection curves, plus extreme exponents; L5 (orders.go) = every branch condition in the order / shape parameter and every overflow-triggered rescaling branch: polygamma n in {20..28, 64, 100, 113..117, 128, 149..152, 169..172, 200, 256, 500, 1000, 5000}, Bessel |nu| in {60.5 .. 5000.5, 100 .. 5000} both signs, incomplete gamma a in {9.7 .. 1e6} with x = a, a(1+-2^-k), a+-709/744, a exp(+-709/a), 745a, Mgamma k in {5,6,8,16,32}, factorial/Bernoulli limits, zeta reflection s down to -100000.5, each crossed with a fixed argument lattice that reaches the branch (quick: a subset of the orders); L6 (lattice6.go) = the range lattice: EVERY shape / order value of L1-L5 of the two-argument functions (incomplete gamma family and derivatives of P: a <= 1e5; BesselI/LogBesselI: |nu| <= 1e5, both signs, and the quarter orders +-{1.25, 1.75, 2.25, 2.75}; polygamma: every order) crossed with the logarithmic grid x = 10^-k, k = 0..301, and x = 2^-k, k = 32, 64, .. 992 (thorough: k = 2, 4, .. 1000), negative x for integer Bessel orders (quick: |n| <= 8), for polygamma x = +-10^-k and 10^k, k <= 308, at every decade where the value is within three decades of the float64 range and every 20th decade beyond - the arguments at which x^a, x^a e^-x/Gamma(a), (x/2)^nu, x^-(n+1) under- or overflow although the result is an ordinary number; every float32 value of the domain (quick: every float32 with <= 15 significant bits) for the univariate identities. " +
			"A case is one (function, argument tuple); it is non-trivial when a finite reference value (or an exact zero / exact -Inf) is compared numerically, or an identity is evaluated with all members finite; points are distinct by construction (deduplicated lattices)",
		Assume: []string{
			"reference tables were generated with mpmath 1.3.0 at 60 digits (ref/c13/gen.py) and are verified by sha256 at start",
			"the references of the incomplete gamma family and of Bessel I on the range lattice L6 (0 < |x| <= 1) are computed by the harness itself: convergent power series in 256-bit arithmetic (ref6.go, bigmath.go) with Gamma(a), psi(a), 1/Gamma(nu+1), psi(nu+1) from the committed mpmath table `shape` (50 digits); at every run this computed reference is compared with the mpmath rows of the tier that lie in its domain (thorough: all, quick: every seventh point; agreement to 1e-18 relative, sensitivities to 0.5 %), a disagreement is a harness error",
			"tolerance C*u*max(1,cond)*|ref| with C=256 and cond = sum of |arg * df/darg / f| from the reference side; results below 1e-290 or above 1e300 are only required to under/overflow gracefully",
			"math.Gamma/Lgamma/Erfc/Exp/Log of the Go runtime are trusted to a few ulp; math.Log of go1.23 on amd64 (log_amd64.s) is wrong for subnormal arguments (Log(5e-324) = -709.09 instead of -744.44), so the two-argument lattices (the range lattice L6 included) keep x >= 2^-1000, where neither x nor the x/10 and x/a formed by the library is subnormal",
			"BernoulliNumber(1) may be +1/2 or -1/2",
		},
		Run:       run,
		Replay:    replay,
		SoftLimit: map[string]time.Duration{"quick": 100 * time.Second},
	})
}
