// L5: algorithm-selection boundaries in the ORDER / shape-parameter dimension and the
// overflow/underflow-triggered rescaling branches. L3 (lattice.go) has the thresholds in
// the argument x and in small parameters only; every branch condition of /repo/special
// that depends on the order (polygamma n, Bessel nu, incomplete gamma a, Mgamma k, the
// factorial / Bernoulli limits, zeta's reflection overflow guard) is listed here with
// parameter values on both sides of the boundary, crossed with a small lattice of
// arguments that actually reaches the branch. The sets are finite and enumerated
// exhaustively; the quick tier uses a subset of the orders.
//
// Boundaries read from the source (file: condition -> lattice values):
//
//	polygamma.go  n < factorialMax (21), n*n > MaxLog (27)          -> n = 20..28
//	              log(x+iter)*(n+1) >= MaxLog: log-domain recursion  -> n = 113..117 (first taken at n = 115)
//	              x == 1/2: |n! zeta(n+1)| >= Max*2^-(n+1)           -> n = 149..152
//	              Factorial(n) = +Inf, n! zeta(n+1) overflows       -> n = 169..172
//	              Lgamma/exp paths of polygamma_atinfinityplus      -> n = 200, 256, 500, 1000, 5000
//	              x < min(5/n, 1/4), x > 6+4n, n + x == x (also n = 2..19 with x = 2^54..2^1000),
//	              x^-(n+1) under/overflow; 6+4n-trunc(x) > SeriesIterationsMax -> n = 249999, 300000 (thorough)
//	bessel.go /   n = iround(v) steps of the K recurrence; K_v(x) > MaxFloat64 -> rescaling
//	besselLog.go  (`scale`), undone in the Wronskian relation, the reflection formula and
//	              K = Kv/scale; Max*scale < fact -> +-Inf; v < MaxFactorial (170) in the
//	              prefix of the small-z series; x/v < 1/4; (4v^2+10)/(8x) asymptotic limit
//	              -> |v| = 60.5 .. 5000.5 (non-integers of both reflection signs), large
//	              integers, x = 0, 2^-40 .. 3000 (x = -1, -30, -300 for integer orders) and the
//	              curves x = v/4, v, 2v, asymptotic limit
//	gamma.go      a > 20, a > 200 (Temme zone: sigma < 0.4 resp. sigma^2 < 20/a), a < 30
//	              (finite sums), int(a) >= 170 (log domain for the non-normalised functions),
//	              a < 10 and a*log(x/a), a-x beyond Min/MaxLog in regularised_gamma_prefix,
//	              Max*prefix > Gamma(a) (a in [140,170)), x == a exactly (Temme side)
//	              -> a = 9.7 .. 1e6 with x = a, a(1 +- 2^-k), a +- 709/744, a*exp(+-709/a, 744/a), 745a..800a
//	              x < 1 && Max*x < f1 (derivative overflow guard) -> a < 1, x = 2^-1000 .. 2^-100
//	mgamma.go     loop over k                                        -> k = 5, 6, 8, 16, 32
//	factorial.go  table of 21 entries, Gamma overflow at 171         -> n = 0..180, 200, 1000, 2^20
//	bernoulliNumber.go  rational recursion, |B_n| overflows at n = 260 -> n = 256..262, 300
//	zeta.go       reflection: 1-s > factorialMax (log domain), lgamma(1-s) - (1-s)log(2pi) >
//	              MaxLog (overflow guard, s ~ -260.5)               -> s = -19.5 .. -100000.5;
//	              negative odd integers -B_(1-s)/(1-s)              -> s = -255 .. -263
package main

import "math"

func p2(e int) float64 { return math.Ldexp(1, e) }

// ---- polygamma ------------------------------------------------------------------------

func polyOrderNs(thorough bool) []int {
	if thorough {
		return []int{20, 21, 22, 25, 26, 27, 28, 64, 100, 113, 114, 115, 116, 117, 128, 149, 150, 151, 152, 169, 170, 171, 172, 200, 256, 500, 1000, 5000}
	}
	return []int{20, 21, 26, 27, 28, 100, 114, 115, 116, 128, 150, 151, 170, 171, 200, 1000}
}

// small orders x arguments beyond 2^53 n: the `n + x == x` branch of polygamma_atinfinityplus
// with n*log(x) on both sides of MaxLogFloat64 and n on both sides of factorialMax
var polyHugeXNs = []int{2, 3, 8, 16, 17, 18, 19}
var polyHugeXArgs = []float64{0x1p54, 0x1p55, 0x1p56, 0x1p58, 0x1p60, 0x1p62, 0x1p64, 0x1p70, 0x1p100, 0x1p200, 0x1p500, 0x1p1000}

// the iteration limit of polygamma_attransitionplus, 6 + 4n - trunc(x) > SeriesIterationsMax
// (1e6), is first exceeded at n = 249999 (thorough tier only: one reference value takes
// mpmath about 20 s)
func polyIterLimitPoints() []Pt {
	var r []Pt
	for _, n := range []float64{249999, 300000} {
		for _, x := range []float64{1.5, 2.5, math.Floor(n*0.36787944117144233) + 0.5, 4*n + 6 - 999995.5, 4*n + 6 - 1000005.5, 4*n + 100.5} {
			if x > 0 {
				r = append(r, Pt{"polygamma", n, x})
			}
		}
	}
	return r
}

func polyOrderArgs(n int) []float64 {
	nf := float64(n)
	r := []float64{0.3, 0.5, 1, 1.5, 2.75, 5.3, 20, 100, 500, 3000.5}
	// order-relative arguments: |psi_n(x)| ~ n!/x^(n+1) is of order one near x = n/e
	r = append(r, nf/4+0.3, nf*0.36787944117144233, nf/2+0.25, nf+0.5, 2*nf+0.3, 10*nf+0.7, 100*nf, 1e6+0.5, 1e10, p2(60), p2(200), p2(1000))
	r = append(r, around(math.Min(5/nf, 0.25))...)
	r = append(r, around(6+4*nf)...)
	// x^-(n+1) underflows before n + x == x (n >= 19): log-domain start of the asymptotic series
	r = append(r, 1e14, 1e15, 1e16, 1e17, 3e17)
	// near zero: 1/x^(n+1) overflow guard and prefix > 2/eps
	r = append(r, p2(-4), p2(-10), p2(-30), p2(-60), p2(-200), p2(-1000))
	// reflection
	r = append(r, -0.3, -0.5, -1.5, -2.25, -10.3, -100.7, -1000.5)
	return uniq(r)
}

// ---- Bessel ---------------------------------------------------------------------------

func besselOrderVs(thorough bool) []float64 {
	// non-integers with both signs of sin(pi v) in the reflection formula, integers
	mags := []float64{60.5, 100.5, 150.5, 170.5, 171.5, 200.5, 500.5, 1000.5, 100, 170, 171, 500, 1000}
	if thorough {
		mags = []float64{60.5, 61.5, 100.5, 101.25, 127.75, 150.5, 169.5, 170.25, 170.5, 170.75, 171.5, 200.5, 300.25, 500.5, 667.5, 700.5, 1000.5, 2000.5, 5000.5,
			100, 150, 169, 170, 171, 200, 500, 1000, 2000, 5000}
	}
	return withNeg(mags)
}

func besselOrderArgs(v float64) []float64 {
	av := math.Abs(v)
	r := []float64{0, p2(-40), p2(-20), p2(-10), p2(-4), 0.25, 0.5, 1, 1.5, 2, ulps(2, 1), 3, 10, 30, 100, 300, 700, 745, 746, 1000, 3000}
	if av == math.Floor(av) {
		r = append(r, -1, -30, -300) // negative arguments are admitted for integer orders
	}
	q := math.Pow(240*eps, 0.25)
	for _, t := range []float64{av / 4, av, 2 * av, (4*av*av + 10) / (8 * q)} {
		r = append(r, around(t)...)
	}
	r = append(r, av/3.5, av/3, av/2, 4*av)
	return uniq(r)
}

// ---- incomplete gamma -----------------------------------------------------------------

func igamOrderAs(thorough bool) []float64 {
	if thorough {
		return []float64{9.7, 10, 10.3, 19.7, 20, 20.3, 21.7, 29.5, 30, 30.5, 31.4, 100.7, 127.5, 128, 128.5, 143.5, 150, 165.3, 169, 169.5, 169.9, 170, 170.5, 171, 172.3,
			199, 200, 200.5, 201, 250.3, 396, 500, 1000, 1234.5678, 1e4, 1e5, 1e6}
	}
	return []float64{10.3, 19.7, 20.3, 30.5, 100.7, 128.5, 150, 169.5, 170, 170.5, 200, 200.5, 250.3, 1000, 1e4, 1e5}
}

func igamOrderArgs(a float64) []float64 {
	r := []float64{a}
	for _, k := range []int{1, 2, 3, 4, 5, 6, 8, 10, 12, 16, 20, 24, 30, 40, 52} {
		r = append(r, a*(1+p2(-k)), a*(1-p2(-k)))
	}
	// regularised_gamma_prefix: a*log(x/a) and a-x against Min/MaxLogFloat64 (-744, 709)
	// and (a-x)/a against MinLogFloat64: x = 745a .. 800a
	for _, t := range []float64{a - 709, a + 709, a - 744, a + 744, a * math.Exp(709/a), a * math.Exp(-709/a), a * math.Exp(744/a), a * math.Exp(-744/a), 745 * a, 746 * a, 800 * a} {
		// (beyond 1e7 / below 1e-300 the exponents of the reference values leave the range of the table format)
		if t > 1e-300 && t < 1e7 {
			r = append(r, t, ulps(t, 1), ulps(t, -1), t*(1+1e-3), t*(1-1e-3))
		}
	}
	r = append(r, p2(-60), p2(-10), 0.25, 0.5, 0.9, 1, 2, 10, 100, 709, 1000, a/4.5, a/4, 4*a, 4.5*a)
	return filter(uniq(r), func(x float64) bool { return x > 0 })
}

// small a with x towards the end of the normal range (prefix and derivative over/underflow
// guards; the guard `x < 1 && MaxFloat64*x < f1` itself needs a subnormal x, see Assume)
func igamTinyPairs() [][2]float64 {
	var r [][2]float64
	for _, a := range []float64{p2(-12), p2(-6), 0.125, 0.25, 0.5, 0.75, 0.9375, 1, 1.5} {
		for _, x := range []float64{p2(-1000), p2(-900), p2(-800), p2(-500), p2(-200), p2(-100)} {
			r = append(r, [2]float64{a, x})
		}
	}
	return r
}

// ---- Mgamma ---------------------------------------------------------------------------

var mgammaOrderKs = []int{5, 6, 8, 16, 32}

func mgammaOrderArgs(k int) []float64 {
	lo := float64(k-1) / 2
	r := []float64{}
	for _, d := range []float64{p2(-20), 0.25, 0.5, 1, 1.75, 3, 10.5, 100, 171.25, 1000, 1e6} {
		r = append(r, lo+d)
	}
	return filter(uniq(r), func(v float64) bool { return v > lo })
}

// ---- integer-indexed tables -----------------------------------------------------------

var factorialOrderNs = []int{181, 200, 1000, 1 << 20}

func bernoulliOrderNs(thorough bool) []int {
	// |B_258| = 1.6e307 is the last finite one; the recursion is O(n^3): n <= 300
	return []int{100, 128, 200, 256, 257, 258, 259, 260, 262, 300}
}

// ---- zeta -----------------------------------------------------------------------------

// reflection branch of zeta_imp: 1-s against factorialMax (21) and the overflow guards
var zetaOrderArgs = []float64{-19.5, -20.5, -21.5, -33.5, -50.5, -100.5, -150.5, -168.5, -169.5, -170.5, -200.5, -250.5, -255.5, -257.5, -258.5, -259.5, -260.5, -261.5,
	-262.5, -263.5, -270.5, -300.5, -1000.5, -259.75, -260.25, -261.75, -100000.5, 52.5, 53.5, 55.5, 56.5,
	// negative odd integers: -B_(1-s)/(1-s), |B_260| is the first to overflow
	-255, -257, -259, -261, -263}

// orderPoints: the L5 cases of a tier, appended to the L1-L3 cases by points().
func orderPoints(thorough bool) []Pt {
	var r []Pt
	for _, x := range zetaOrderArgs {
		r = append(r, Pt{"zeta", 0, x})
	}
	for _, n := range polyOrderNs(thorough) {
		for _, x := range polyOrderArgs(n) {
			r = append(r, Pt{"polygamma", float64(n), x})
		}
	}
	for _, n := range polyHugeXNs {
		for _, x := range polyHugeXArgs {
			r = append(r, Pt{"polygamma", float64(n), x})
		}
	}
	if thorough {
		r = append(r, polyIterLimitPoints()...)
	}
	for _, k := range mgammaOrderKs {
		for _, x := range mgammaOrderArgs(k) {
			r = append(r, Pt{"mgamma", float64(k), x})
		}
	}
	for _, n := range factorialOrderNs {
		r = append(r, Pt{"factorial", 0, float64(n)})
	}
	for _, n := range bernoulliOrderNs(thorough) {
		r = append(r, Pt{"bernoulli", 0, float64(n)})
	}
	for _, a := range igamOrderAs(thorough) {
		for _, x := range igamOrderArgs(a) {
			r = append(r, Pt{"igam", a, x})
		}
	}
	for _, p := range igamTinyPairs() {
		r = append(r, Pt{"igam", p[0], p[1]})
	}
	for _, v := range besselOrderVs(thorough) {
		for _, x := range besselOrderArgs(v) {
			r = append(r, Pt{"bessel", v, x})
		}
	}
	return r
}
