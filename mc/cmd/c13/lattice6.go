// L6: the range lattice. For EVERY shape / order value that occurs anywhere in the
// lattices L1-L5 of a two-argument function, the second argument runs over a logarithmic
// grid that spans the whole normal range towards zero: x = 10^-k, k = 0..301, and
// x = 2^-k, k = step, 2 step, .. 1000 (step 32 quick, 2 thorough). On this grid the
// intermediate quantities of the library (x^a, x^a e^-x / Gamma(a), (x/2)^nu, x^-(n+1),
// Gamma(a), K_nu) under- or overflow long before the result does:
//
//	GammaPfirstDerivative(2, 1e-200) = 1e-200   although x^a e^-x/Gamma(a) = 1e-400,
//	LogBesselI(100, 1e-300) = -69400            although (x/2)^100 = 0,
//	Polygamma(3, 1e-70) = 6e280                 although x^-4 is formed as a power.
//
// L1-L5 keep x within 2^-12 .. 2^12 apart from a handful of extreme values, so the
// underflow fall-backs of the two-argument functions were reached at a few isolated points
// only. The grid stops at 2^-1000 for the reason given in the Assume text (math.Log of
// go1.23/amd64 is wrong for subnormal arguments, and the library forms x/10 and x/a).
//
// References: polygamma from the committed mpmath table like every other point (the
// generator receives the points through `c13 -points`); the incomplete gamma family and
// Bessel I from the reference COMPUTED by the harness in 384-bit arithmetic from the
// convergent power series (ref6.go), with Gamma(a), psi(a), 1/Gamma(nu+1), psi(nu+1)
// taken from the committed table `shape` (50 digits, mpmath). For x <= 1 these series
// need a few dozen terms; tabulating the 10^5 .. 10^6 grid points would have taken some
// 30 MB. The computed reference is compared with mpmath on every committed table row
// with 0 < x <= 1 at the start of every run (selfCheck6).
package main

import (
	"math"
	"sort"
	"strconv"
)

// xGrid6: the logarithmic grid towards zero, simplest first (decades, then binary powers).
func xGrid6(thorough bool) []float64 {
	var r []float64
	for k := 0; k <= 301; k++ {
		v, err := strconv.ParseFloat("1e-"+strconv.Itoa(k), 64) // correctly rounded
		if err != nil {
			panic(err)
		}
		r = append(r, v)
	}
	step := 32
	if thorough {
		step = 2
	}
	for k := step; k <= 1000; k += step {
		r = append(r, math.Ldexp(1, -k))
	}
	return uniq(r)
}

// largest shape for which the range lattice is run (a ln x stays far below 2^31, the
// exponent range of big.Float; beyond a = 1e5 every function of the family is constant
// on the grid anyway: P = 0, Q = 1, upper = Gamma(a) = +Inf)
const maxShape6 = 1e5

// igamShapes6: every shape value of L1-L5.
func igamShapes6(b bounds) []float64 {
	as := append([]float64{}, igamAs(b)...)
	as = append(as, igamCurveAs(b)...)
	for _, p := range igamTinyPairs() {
		as = append(as, p[0])
	}
	return filter(uniq(as), func(a float64) bool { return a > 0 && a <= maxShape6 })
}

// besselShapes6: every order of L1-L5 (both signs where the lattice has both) and the
// quarter orders +-{1.25, 1.75, 2.25, 2.75}.
func besselShapes6(b bounds) []float64 {
	vs := append([]float64{}, besselVs(b)...)
	for _, v := range besselCurveVs(b) {
		vs = append(vs, v, -v)
	}
	vs = append(vs, besselOrderVs(b.th)...)
	for n := -8; n <= 8; n++ {
		vs = append(vs, float64(n))
	}
	// quarter orders: with n = round(|v|) >= 1 steps of the K recurrence, either sign of
	// u = |v| - n (K_(u+1) of Temme's series overflows for u > 0 only) and either sign of
	// sin(pi v) in the reflection formula (I_v < 0 has no logarithm); the 3-bit orders of the
	// quick tier have u = 0 or +-1/2 only
	vs = append(vs, withNeg([]float64{1.25, 1.75, 2.25, 2.75})...)
	return filter(uniq(vs), func(v float64) bool { return math.Abs(v) <= maxShape6 })
}

// polyOrders6: every polygamma order of L1-L5 (without the two iteration-limit orders,
// whose reference values take mpmath 20 s each).
func polyOrders6(b bounds) []int {
	var ns []int
	for n := 2; n <= b.nmax; n++ {
		ns = append(ns, n)
	}
	ns = append(ns, polyOrderNs(b.th)...)
	ns = append(ns, polyHugeXNs...)
	sort.Ints(ns)
	out := ns[:0]
	for i, n := range ns {
		if i == 0 || n != ns[i-1] {
			out = append(out, n)
		}
	}
	return out
}

func log10Factorial(n int) float64 {
	lg, _ := math.Lgamma(float64(n) + 1)
	return lg / math.Ln10
}

// polyRangeArgs: x = +-10^-k and 10^k. |psi_n(x)| ~ n!/|x|^(n+1) near zero and
// (n-1)!/x^n at infinity; all decades at which the value lies within the float64 range
// (with a margin of three decades on either side) are taken, beyond that every 20th decade
// (the value is +-Inf resp. 0 there and only graceful over/underflow can be demanded).
func polyRangeArgs(n int) []float64 {
	var r []float64
	lf, lf1 := log10Factorial(n), log10Factorial(n-1)
	for k := 0; k <= 301; k++ {
		mag := lf + float64(n+1)*float64(k)
		if mag <= 308+3*float64(n+1) || k%20 == 0 {
			v, _ := strconv.ParseFloat("1e-"+strconv.Itoa(k), 64)
			r = append(r, v, -v)
		}
	}
	for k := 1; k <= 308; k++ {
		mag := lf1 - float64(n)*float64(k)
		if (mag >= -324-3*float64(n) && mag <= 308+3*float64(n)) || k%20 == 0 {
			v, _ := strconv.ParseFloat("1e"+strconv.Itoa(k), 64)
			r = append(r, v)
		}
	}
	return r
}

// rangeTablePoints: the table-backed part of L6 (polygamma) and the per-shape constants
// of the computed part. Appended to points().
func rangeTablePoints(thorough bool) []Pt {
	b := tierBounds(thorough)
	var r []Pt
	for _, n := range polyOrders6(b) {
		for _, x := range polyRangeArgs(n) {
			r = append(r, Pt{"polygamma", float64(n), x})
		}
	}
	for _, a := range igamShapes6(b) {
		r = append(r, Pt{"igshape", a, 0})
	}
	for _, v := range besselShapes6(b) {
		r = append(r, Pt{"beshape", v, 0})
		if v < 0 && v == math.Floor(v) {
			r = append(r, Pt{"beshape", -v, 0}) // I_{-n} = I_n
		}
	}
	return r
}

// points6: the computed-reference cases of L6 of one family, grid-major (simplest argument
// first, then every shape): one column of the grid is one unit of work, so that the rows of
// the neighbouring shapes a+1, v-1, v+1 needed by the recurrences are computed once.
// Points that are table rows already are dropped by the caller.
func points6(fam string, thorough bool) [][]Pt {
	b := tierBounds(thorough)
	var r [][]Pt
	for _, x := range xGrid6(thorough) {
		var col []Pt
		switch fam {
		case "igam":
			for _, a := range igamShapes6(b) {
				col = append(col, Pt{"igam", a, x})
			}
		case "bessel":
			for _, v := range besselShapes6(b) {
				col = append(col, Pt{"bessel", v, x})
				if v == math.Floor(v) && (thorough || math.Abs(v) <= 8) {
					// negative arguments are admitted for integer orders (quick: |n| <= 8 as in L1)
					col = append(col, Pt{"bessel", v, -x})
				}
			}
		}
		r = append(r, col)
	}
	return r
}
