// Error measure of C13 and the guarded calls into the library.
package main

import (
	"fmt"
	"math"
	"strconv"
)

const u = 0x1p-53

// C is the generous constant of the tolerance  C * u * max(1, cond) * |ref|.
const C = 256.0

type verdict struct {
	ok       bool
	kind     string  // violation kind
	cmp      bool    // a real numeric comparison took place (nontrivial case)
	err, tol float64 // absolute error and tolerance
	ulps     float64 // error in units of u*|ref| (0 if not applicable)
	class    string  // outcome class for the evidence
}

// judge compares a library result with the reference. extra is added to the relative
// condition number (or, for exact zeros, to the absolute sensitivity).
// floor > 0 adds an absolute error floor C*u*floor (log-variants: the logarithm of a
// value known to relative accuracy eps is known to absolute accuracy eps).
func judge(impl float64, r Ref, s Sens, extra, floor float64) verdict {
	nan, inf := math.IsNaN(impl), math.IsInf(impl, 0)
	switch r.Kind {
	case 'p', 'x':
		return verdict{ok: true, class: "undefined:" + classOf(impl)}
	case 'i':
		if math.IsInf(impl, -1) {
			return verdict{ok: true, cmp: true, class: "-inf"}
		}
		return verdict{kind: "not-neg-inf", cmp: true, class: "bad"}
	case 'o':
		if nan || (math.Abs(impl) >= 1e300 && math.Signbit(impl) == r.Neg) {
			return verdict{ok: true, class: "overflow:" + classOf(impl)}
		}
		if math.Abs(impl) >= 1e300 {
			return verdict{kind: "overflow-with-wrong-sign", class: "bad"}
		}
		return verdict{kind: "finite-where-overflow", class: "bad"}
	case 'u':
		if !nan && math.Abs(impl) <= 1e-280 {
			return verdict{ok: true, class: "underflow"}
		}
		if nan {
			return verdict{kind: "nan-where-defined", class: "bad"}
		}
		return verdict{kind: "large-where-underflow", class: "bad"}
	case 'z':
		tol := 0.0
		if s.Abs {
			tol = C * u * (s.V + extra)
		}
		tol = math.Max(tol, C*u*floor)
		if nan {
			return verdict{kind: "nan-where-defined", cmp: true, class: "bad"}
		}
		if math.Abs(impl) <= tol {
			return verdict{ok: true, cmp: true, tol: tol, err: math.Abs(impl), class: "zero"}
		}
		return verdict{kind: "nonzero-at-zero", cmp: true, err: math.Abs(impl), tol: tol, class: "bad"}
	}
	// finite reference
	big := math.Abs(r.Hi) >= 1e300
	if !s.Abs && C*u*(s.V+extra) >= 0.5 {
		// the admissible error exceeds half the value itself: nothing is demanded here
		return verdict{ok: true, class: "ill-conditioned:" + classOf(impl)}
	}
	if nan {
		if big {
			return verdict{ok: true, class: "near-overflow:nan"}
		}
		return verdict{kind: "nan-where-defined", cmp: true, class: "bad"}
	}
	if inf {
		if big && math.Signbit(impl) == r.Neg {
			return verdict{ok: true, class: "near-overflow:inf"}
		}
		return verdict{kind: "inf-where-finite", cmp: true, class: "bad"}
	}
	if math.Abs(r.Hi) < 1e-290 {
		if math.Abs(impl) <= 1e-280 {
			return verdict{ok: true, class: "near-underflow"}
		}
		return verdict{kind: "large-where-underflow", class: "bad"}
	}
	cond := s.V + extra
	if s.Abs {
		cond = 0 // cannot happen for a non-zero reference
	}
	err := math.Abs((impl - r.Hi) - r.Lo)
	tol := math.Max(C*u*math.Max(1, cond)*math.Abs(r.Hi), C*u*floor)
	v := verdict{cmp: true, err: err, tol: tol, ulps: err / (u * math.Abs(r.Hi))}
	if err <= tol || math.IsInf(tol, 1) {
		v.ok, v.class = true, "ok"
		return v
	}
	v.class = "bad"
	if math.Signbit(impl) != r.Neg && err > math.Abs(r.Hi) {
		v.kind = "wrong-sign"
	} else {
		v.kind = "relerr>tol"
	}
	return v
}

func classOf(v float64) string {
	switch {
	case math.IsNaN(v):
		return "nan"
	case math.IsInf(v, 0):
		return "inf"
	}
	return "finite"
}

// call runs f, converting a library panic into (NaN, message).
func call(f func() float64) (v float64, panicked string) {
	defer func() {
		if r := recover(); r != nil {
			v, panicked = math.NaN(), fmt.Sprint(r)
		}
	}()
	return f(), ""
}

func refString(r Ref) string {
	switch r.Kind {
	case 'z':
		return "0"
	case 'o':
		if r.Neg {
			return "-overflow"
		}
		return "+overflow"
	case 'u':
		return "underflow"
	case 'p':
		return "pole"
	case 'x':
		return "undefined"
	case 'i':
		return "-Inf"
	}
	if r.Big != nil {
		return r.Big.Text('g', 20)
	}
	return strconv.FormatFloat(r.Hi, 'g', 17, 64)
}

func describe(callStr string, impl float64, r Ref, v verdict, s Sens) string {
	msg := fmt.Sprintf("%s = %s, reference %s", callStr, strconv.FormatFloat(impl, 'g', 17, 64), refString(r))
	if r.Kind == 'n' && v.cmp && v.ulps > 0 {
		msg += fmt.Sprintf("; error %.3g u*|ref| (%.3g ulp-ish), allowed %.3g = %g*max(1,cond), cond=%.3g", v.ulps, v.ulps/2, v.tol/(u*math.Abs(r.Hi)), C, s.V)
	} else if r.Kind == 'z' {
		msg += fmt.Sprintf("; |value| %.3g, allowed %.3g", v.err, v.tol)
	}
	return msg + " [" + v.kind + "]"
}
