// Elementary functions on math/big.Float (exp and log only), used by the computed
// reference of the range lattice L6 (lattice6.go / ref6.go). Everything works at wp = 256
// bits; the results are accurate to far better than 2^-190 relative as long as the
// argument of bigExp is below 2^40 in magnitude (the callers stay below 2^31). The
// implementation is validated at every start of the check against the committed mpmath
// tables (selfCheck6): a wrong digit here is a HarnessError, never a verdict.
package main

import (
	"math"
	"math/big"
	"sync"
)

const wp = 256

func wnew() *big.Float             { return new(big.Float).SetPrec(wp) }
func wf(v float64) *big.Float      { return new(big.Float).SetPrec(wp).SetFloat64(v) }
func wi(v int64) *big.Float        { return new(big.Float).SetPrec(wp).SetInt64(v) }
func wset(v *big.Float) *big.Float { return new(big.Float).SetPrec(wp).Set(v) }

// wadd / wsub: math/big aligns the operands of a sum by shifting one mantissa by the
// difference of the exponents, which takes memory and time proportional to that
// difference (Gamma(a) - x^a with x^a = 2^-3000000 allocates 3 Mbit). An operand more than
// wp+64 binary orders below the other one cannot change the rounded result by more than
// 2^-(wp+63) relative and is dropped.
func wadd(a, b *big.Float) *big.Float {
	switch {
	case b.Sign() == 0:
		return wset(a)
	case a.Sign() == 0:
		return wset(b)
	}
	ea, eb := a.MantExp(nil), b.MantExp(nil)
	switch {
	case ea-eb > wp+64:
		return wset(a)
	case eb-ea > wp+64:
		return wset(b)
	}
	return wnew().Add(a, b)
}
func wsub(a, b *big.Float) *big.Float { return wadd(a, wneg(b)) }
func wmul(a, b *big.Float) *big.Float { return wnew().Mul(a, b) }
func wquo(a, b *big.Float) *big.Float { return wnew().Quo(a, b) }
func wabs(a *big.Float) *big.Float    { return wnew().Abs(a) }
func wneg(a *big.Float) *big.Float    { return wnew().Neg(a) }

// negligible: |t| < 2^-(wp-24) * |s|
func negligible(t, s *big.Float) bool {
	if t.Sign() == 0 {
		return true
	}
	if s.Sign() == 0 {
		return false
	}
	return t.MantExp(nil) < s.MantExp(nil)-(wp-24)
}

var (
	ln2Once sync.Once
	ln2Val  *big.Float
)

// atanhSeries: atanh(t) for |t| <= 1/3.
func atanhSeries(t *big.Float) *big.Float {
	t2 := wmul(t, t)
	sum := wset(t)
	pw := wset(t)
	for k := int64(3); ; k += 2 {
		pw = wmul(pw, t2)
		term := wquo(pw, wi(k))
		if negligible(term, sum) {
			break
		}
		sum = wadd(sum, term)
	}
	return sum
}

func bigLn2() *big.Float {
	ln2Once.Do(func() {
		// ln 2 = 2 atanh(1/3)
		ln2Val = wmul(wi(2), atanhSeries(wquo(wi(1), wi(3))))
	})
	return ln2Val
}

// bigLn: natural logarithm of x > 0.
func bigLn(x *big.Float) *big.Float {
	if x.Sign() <= 0 {
		panic("bigLn: non-positive argument")
	}
	m := wnew()
	e := x.MantExp(m) // x = m * 2^e, 0.5 <= m < 1
	// bring m into [1/sqrt2, sqrt2)
	if m.Cmp(wf(0.70710678118654752)) < 0 {
		m = wmul(m, wi(2))
		e--
	}
	t := wquo(wsub(m, wi(1)), wadd(m, wi(1))) // |t| <= 0.172
	r := wmul(wi(2), atanhSeries(t))
	return wadd(r, wmul(wi(int64(e)), bigLn2()))
}

// bigLnNear1: ln z, cheap when z = 1 + small (the series stops when its terms are negligible).
func bigLnNear1(z *big.Float) *big.Float {
	if z.Sign() <= 0 {
		panic("bigLnNear1: non-positive argument")
	}
	if z.Cmp(wf(0.75)) < 0 || z.Cmp(wf(1.5)) > 0 {
		return bigLn(z)
	}
	d := wsub(z, wi(1))
	if d.Sign() == 0 {
		return wi(0)
	}
	return wmul(wi(2), atanhSeries(wquo(d, wadd(z, wi(1)))))
}

// bigExp: e^y for |y| < 2^40.
func bigExp(y *big.Float) *big.Float {
	if y.Sign() == 0 {
		return wi(1)
	}
	yf, _ := y.Float64()
	if math.Abs(yf) > 0x1p40 {
		panic("bigExp: argument out of range")
	}
	n := int64(math.Round(yf / math.Ln2))
	r := wsub(y, wmul(wi(n), bigLn2())) // |r| <= 0.35 (+ rounding of yf)
	const halvings = 12
	r = wnew().SetMantExp(r, -halvings)
	// Taylor series in Horner form with tabulated 1/k! (|r| < 2^-13: 20 terms reach 2^-270)
	inv := invFactorials()
	sum := wset(inv[len(inv)-1])
	for k := len(inv) - 2; k >= 0; k-- {
		sum.Mul(sum, r)
		sum.Add(sum, inv[k])
	}
	for i := 0; i < halvings; i++ {
		sum.Mul(sum, sum)
	}
	return wnew().SetMantExp(sum, int(n))
}

var (
	invFactOnce sync.Once
	invFact     []*big.Float
)

// invFactorials: 1/k!, k = 0..20.
func invFactorials() []*big.Float {
	invFactOnce.Do(func() {
		f := wi(1)
		for k := int64(0); k <= 20; k++ {
			if k > 0 {
				f = wmul(f, wi(k))
			}
			invFact = append(invFact, wquo(wi(1), f))
		}
	})
	return invFact
}

// lnCache: logarithms of float64 arguments (the grid of L6 has a few hundred distinct x).
type lnCache struct {
	mu sync.Mutex
	m  map[uint64]*big.Float
}

var lnOf = &lnCache{m: map[uint64]*big.Float{}}

func (c *lnCache) get(x float64) *big.Float {
	b := math.Float64bits(x)
	c.mu.Lock()
	v, ok := c.m[b]
	c.mu.Unlock()
	if ok {
		return v
	}
	v = bigLn(wf(x))
	c.mu.Lock()
	c.m[b] = v
	c.mu.Unlock()
	return v
}
