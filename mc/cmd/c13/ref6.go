// Computed references of the range lattice L6 (incomplete gamma family and Bessel I for
// 0 < |x| <= 1): the convergent power series, summed in 384-bit arithmetic (bigmath.go),
// with the per-shape constants Gamma(a), psi(a), 1/Gamma(nu+1), psi(nu+1) from the committed
// mpmath table `shape`. The results have the same form as parsed table rows (igamRow,
// besselRow), so that every comparison and identity is the same code for both kinds of
// reference; selfCheck6 compares the two kinds wherever both exist.
package main

import (
	"fmt"
	"math"
	"math/big"
	"strings"
	"sync"
)

// shapeInfo: constants of one shape value.
type shapeInfo struct {
	g    *big.Float // igshape: Gamma(a);  beshape: 1/Gamma(nu+1)
	psi  *big.Float // psi(a) resp. psi(nu+1); nil at a pole
	lng  *big.Float // beshape: ln|1/Gamma(nu+1)|
	pole bool
}

type shapeTable struct {
	ig, be map[uint64]shapeInfo
}

var (
	shapeOnce sync.Once
	shapes    *shapeTable
	shapeErr  error
)

func parseW(s string) (*big.Float, error) {
	v, _, err := big.ParseFloat(s, 10, wp, big.ToNearestEven)
	return v, err
}

func loadShapes() (*shapeTable, error) {
	shapeOnce.Do(func() {
		tbl, err := loadFamily("shape")
		if err != nil {
			shapeErr = err
			return
		}
		st := &shapeTable{ig: map[uint64]shapeInfo{}, be: map[uint64]shapeInfo{}}
		for k, row := range tbl {
			f := strings.Split(row, "\t")
			if len(f) != 2 {
				shapeErr = fmt.Errorf("shape table: malformed row %q", row)
				return
			}
			var si shapeInfo
			if si.g, err = parseW(f[0]); err != nil {
				shapeErr = fmt.Errorf("shape table: %v", err)
				return
			}
			if f[1] == "pole" {
				si.pole = true
			} else if si.psi, err = parseW(f[1]); err != nil {
				shapeErr = fmt.Errorf("shape table: %v", err)
				return
			}
			switch k.fn {
			case "igshape":
				st.ig[k.a] = si
			case "beshape":
				st.be[k.a] = si
			}
		}
		shapes = st
	})
	return shapes, shapeErr
}

func fbits(v float64) uint64 { return math.Float64bits(v + 0) }

// igShape: Gamma(a), psi(a). A computed reference exists for the shapes of the table only
// (the shapes of both tiers): like a comparison, an identity is evaluated where all its
// members are lattice points.
func igShape(a float64) (shapeInfo, bool) {
	st, err := loadShapes()
	if err != nil {
		return shapeInfo{}, false
	}
	si, ok := st.ig[fbits(a)]
	return si, ok
}

// beShape: 1/Gamma(v+1), psi(v+1) and ln|1/Gamma(v+1)| (computed on first use).
func beShape(v float64) (shapeInfo, bool) {
	st, err := loadShapes()
	if err != nil {
		return shapeInfo{}, false
	}
	si, ok := st.be[fbits(v)]
	if ok && si.lng == nil && si.g.Sign() != 0 {
		si.lng = bigLn(wabs(si.g))
		st.be[fbits(v)] = si
	}
	return si, ok
}

func wFloat(v *big.Float) float64 { r, _ := v.Float64(); return r }

// ---- incomplete gamma -------------------------------------------------------------

// igamCompute: lower(a,x), upper(a,x), x^a e^-x and the shape sensitivities for
// 0 < x <= 1 from  lower = x^a e^-x / a * sum_k x^k / ((a+1)..(a+k))  (all terms positive).
func igamCompute(a, x float64) (*igamRow, bool) {
	if !(x > 0 && x <= 1 && a > 0 && a <= maxShape6*2) {
		return nil, false
	}
	si, ok := igShape(a)
	if !ok {
		return nil, false
	}
	ba, bx := wf(a), wf(x)
	lnx := lnOf.get(x)
	alnx := wmul(ba, lnx)
	pref := bigExp(wsub(alnx, bx))
	// S = sum t_k, t_k = x^k/((a+1)..(a+k));  D = sum t_k * sum_{i<=k} 1/(a+i)  (= -dS/da)
	S, D := wi(1), wi(0)
	t, hsum := wi(1), wi(0)
	for k := int64(1); ; k++ {
		ak := wadd(ba, wi(k))
		t = wquo(wmul(t, bx), ak)
		hsum = wadd(hsum, wquo(wi(1), ak))
		S = wadd(S, t)
		D = wadd(D, wmul(t, hsum))
		if negligible(t, S) {
			break
		}
		if k > 100000 {
			return nil, false
		}
	}
	L := wquo(wmul(pref, S), ba)
	G := si.g
	U := wsub(G, L)
	if U.Sign() <= 0 {
		return nil, false
	}
	// a dlnL/da = a ln x - 1 - a D/S
	caL := wsub(wsub(alnx, wi(1)), wquo(wmul(ba, D), S))
	apsi := wmul(ba, si.psi)
	caP := wsub(caL, apsi)
	// a dlnU/da = (a psi G - caL L)/U
	caU := wquo(wsub(wmul(apsi, G), wmul(caL, L)), U)
	caQ := wsub(caU, apsi)
	caD := wsub(alnx, apsi)
	r := &igamRow{L: L, U: U, pref: pref, G: wadd(L, U)}
	r.caL, r.caU, r.caP, r.caQ, r.caD = math.Abs(wFloat(caL)), math.Abs(wFloat(caU)), math.Abs(wFloat(caP)), math.Abs(wFloat(caQ)), math.Abs(wFloat(caD))
	return r, true
}

// igamRowAt: the committed table row if there is one, else the computed reference.
func igamRowAt(tbl table, a, x float64) (*igamRow, bool, error) {
	if row, ok := tbl[mkKey("igam", a, x)]; ok {
		r, err := parseIgam(row)
		return r, err == nil, err
	}
	r, ok := igamComputeMemo(a, x)
	return r, ok, nil
}

// ---- Bessel I -----------------------------------------------------------------------

// besselRow: the four columns of a Bessel row.
type besselRow struct {
	I, L   Ref
	sI, sL Sens
}

func parseBessel(row string) (*besselRow, error) {
	f, err := cols(row, 4)
	if err != nil {
		return nil, err
	}
	r := &besselRow{}
	if r.I, r.sI, err = refSens(f[0], f[1]); err != nil {
		return nil, err
	}
	if r.L, r.sL, err = refSens(f[2], f[3]); err != nil {
		return nil, err
	}
	return r, nil
}

var (
	twoPow1024  = new(big.Float).SetMantExp(big.NewFloat(1), 1024)
	twoPowM1080 = new(big.Float).SetMantExp(big.NewFloat(1), -1080)
)

// refClipped mirrors val() of the generator: 0, +-ovf (>= 2^1024), +-udf (< 2^-1080), number.
func refClipped(v *big.Float) Ref {
	if v.Sign() == 0 {
		return Ref{Kind: 'z'}
	}
	a := new(big.Float).Abs(v)
	if a.Cmp(twoPow1024) >= 0 {
		return Ref{Kind: 'o', Neg: v.Sign() < 0}
	}
	if a.Cmp(twoPowM1080) < 0 {
		return Ref{Kind: 'u', Neg: v.Sign() < 0}
	}
	return refFromBig(new(big.Float).SetPrec(bigPrec).Set(v))
}

func sensOfBig(f, dsum *big.Float) Sens {
	d := wabs(dsum)
	if f.Sign() == 0 {
		return Sens{Abs: true, V: wFloat(d)}
	}
	return Sens{V: wFloat(wquo(d, wabs(f)))}
}

// besselSeries: I_v(x) = sum_j T_j, T_j = (x/2)^(2j+v) / (j! Gamma(v+j+1)) for x > 0, and the
// derivative sums  x dI/dx = sum (2j+v) T_j,  dI/dv = sum T_j (ln(x/2) - psi(v+j+1)).
// v is not a negative integer (rg = 1/Gamma(v+1) != 0).
func besselSeries(v, x float64, si shapeInfo) (I, xdx, dv, T0, lnT0 *big.Float, ok bool) {
	bv := wf(v)
	lnh := wsub(lnOf.get(x), bigLn2()) // ln(x/2)
	q := wf(x)
	q = wnew().SetMantExp(wmul(q, q), -2) // x^2/4
	vlnh := wmul(bv, lnh)
	lnT0 = wadd(vlnh, si.lng) // ln|T_0|
	T := wmul(bigExp(vlnh), si.g)
	T0 = wabs(T)
	psi := wset(si.psi)
	I = wi(0)
	xdx, dv = wi(0), wi(0)
	scale := wi(0) // sum |T_j| (|ln(x/2)| + |psi_j|): the terms of dv are negligible against this
	// For v >= 0 the terms decrease monotonically (ratio x^2/4 / (j (v+j)) <= 1/4). For
	// negative non-integer v the factor 1/(v+j) is large once, where v+j is nearest to zero
	// (|v+j| = d, the distance of v from the integers); all other factors are <= 2, so that
	// every later term is below |T_j| 4q/d <= |T_j|/d and every later psi below |psi_j| + j + 2/d.
	amp := wi(1)
	if v < 0 {
		d := distInt(v)
		amp = wquo(wi(1), wf(d))
	}
	absLnh := wabs(lnh)
	for j := int64(0); ; j++ {
		if j > 0 {
			vj := wadd(bv, wi(j)) // v + j, never 0
			T = wquo(wmul(T, q), wmul(wi(j), vj))
			psi = wadd(psi, wquo(wi(1), vj))
		}
		I = wadd(I, T)
		xdx = wadd(xdx, wmul(T, wadd(bv, wi(2*j))))
		dv = wadd(dv, wmul(T, wsub(lnh, psi)))
		aT := wabs(T)
		w := wmul(aT, wadd(absLnh, wabs(psi)))
		scale = wadd(scale, w)
		worstT := wmul(aT, amp)
		worstW := wmul(worstT, wadd(wadd(absLnh, wabs(psi)), wadd(wi(j+64), wmul(wi(2), amp))))
		if negligible(worstT, I) && negligible(worstW, scale) {
			break
		}
		if j > 300000 {
			return nil, nil, nil, nil, nil, false
		}
	}
	return I, xdx, dv, T0, lnT0, true
}

// besselCompute: I_v(x) and log I_v(x) with their sensitivities, 0 < |x| <= 1 (x < 0 for
// integer v only), formed exactly like the generator forms its rows.
func besselCompute(v, x float64) (*besselRow, bool) {
	ax := math.Abs(x)
	if !(ax > 0 && ax <= 1) || math.Abs(v) > maxShape6*2 {
		return nil, false
	}
	isInt := v == math.Floor(v)
	if x < 0 && !isInt {
		return nil, false
	}
	negInt := isInt && v < 0
	w := v
	if negInt {
		w = -v // I_{-n} = I_n
	}
	si, ok := beShape(w)
	if !ok || si.pole || si.g.Sign() == 0 {
		return nil, false
	}
	I, xdx, dv, T0, lnT0, ok := besselSeries(w, ax, si)
	if !ok {
		return nil, false
	}
	absI := wabs(I) // before the sign of I_n(-x)
	// sensitivity  |x dI/dx| + |v dI/dv|
	var s *big.Float
	switch {
	case x < 0 || v == 0:
		s = wabs(xdx) // order fixed by the domain / v d/dv = 0
	case negInt:
		// d/dv I_v at v = -n is -(dI_t/dt(n) + 2 (-1)^n K_n); K_n <= Gamma(n)/2 (x/2)^-n
		n := w
		lnh := wsub(lnOf.get(ax), bigLn2())
		kn := wnew().SetMantExp(bigExp(wneg(wmul(wf(n), lnh))), -1)
		// Gamma(n) = n!/n = 1/(n * rg)
		kn = wquo(kn, wmul(wf(n), si.g))
		s = wadd(wabs(xdx), wmul(wf(n), wadd(wabs(dv), wmul(wi(2), kn))))
	default:
		s = wadd(wabs(xdx), wmul(wabs(wf(v)), wabs(dv)))
	}
	if x < 0 && math.Mod(w, 2) == 1 {
		I = wneg(I) // I_n(-x) = (-1)^n I_n(x)
	}
	r := &besselRow{I: refClipped(I), sI: sensOfBig(I, s)}
	if I.Sign() > 0 {
		// ln I = ln|T_0| + ln(I/|T_0|); for x <= 1 and v >= 0 the quotient is 1 + O(x^2)
		lg := wadd(lnT0, bigLnNear1(wquo(absI, T0)))
		r.L = refClipped(lg)
		r.sL = sensOfBig(lg, wquo(s, I))
	} else {
		r.L = Ref{Kind: 'x'}
	}
	return r, true
}

func besselRowAt(tbl table, v, x float64) (*besselRow, bool, error) {
	if row, ok := tbl[mkKey("bessel", v, x)]; ok {
		r, err := parseBessel(row)
		return r, err == nil, err
	}
	r, ok := besselComputeMemo(v, x)
	return r, ok, nil
}
