// Oracle (ii): reference-free identities. Every tolerance is derived from the
// conditioning of the members of the identity (bounds computed from elementary
// inequalities or, for the two-argument functions, from the reference-side sensitivities
// of the table rows) and is never tighter than the table tolerance of the members.
package main

import (
	"fmt"
	"math"
	"math/big"
	"sort"

	la "github.com/pbenner/autodiff/logarithmetic"
	sp "github.com/pbenner/autodiff/special"
)

// idres is the outcome of evaluating one identity at one point.
type idres struct {
	skip    bool   // identity not applicable at this point
	nontriv bool   // all members finite and the tolerance is informative
	region  string // structural part of the key
	kind    string // "" = holds
	what    string
}

func finite(vs ...float64) bool {
	for _, v := range vs {
		if math.IsNaN(v) || math.IsInf(v, 0) {
			return false
		}
	}
	return true
}

// exactSum reports whether a+b is computed without rounding.
func exactSum(a, b float64) bool {
	s := a + b
	if math.IsInf(s, 0) || math.IsNaN(s) {
		return false
	}
	bb := s - a
	return (s-bb) == a && bb == b
}

// distInt: distance of t to the nearest integer (exact).
func distInt(t float64) float64 {
	return math.Abs(t - math.Round(t))
}

// |t * psi'(t)| bound (t not a pole)
func boundTPsi1(t float64) float64 {
	if t > 0 {
		return 1 + 1/t
	}
	d := distInt(t)
	if d == 0 {
		return math.Inf(1)
	}
	z := 1 - t
	return math.Abs(t) * (math.Pi*math.Pi/(4*d*d) + 1/z + 1/(z*z))
}

// |t * psi”(t)| bound
func boundTPsi2(t float64) float64 {
	if t > 0 {
		return 1/t + 2/(t*t)
	}
	d := distInt(t)
	if d == 0 {
		return math.Inf(1)
	}
	z := 1 - t
	return math.Abs(t) * (2*math.Pow(math.Pi, 3)/(8*d*d*d) + 1/(z*z) + 2/(z*z*z))
}

func guarded(f func() float64) float64 {
	v, p := call(f)
	if p != "" {
		return math.NaN()
	}
	return v
}

// uniIdent is a univariate identity. core is allocation-free (it is also the hot loop of
// the float32 sweep): status 0 = not applicable, 1 = compare res <= tol, 2 = a member is
// NaN/Inf where the identity demands finite values. desc names the branch and the values.
type uniIdent struct {
	name string
	fam  string // univariate argument family whose lattice it runs on
	core func(x float64) (res, tol float64, st int)
	desc func(x float64) (region, vals string)
}

func (id *uniIdent) eval(x float64) idres {
	res, tol, st := id.core(x)
	if st == 0 {
		return idres{skip: true}
	}
	reg, vals := id.desc(x)
	out := idres{region: reg, nontriv: true}
	switch {
	case st == 2:
		out.kind, out.what = "non-finite", vals
	case math.IsNaN(res) || res > tol:
		out.kind = "residual>tol"
		out.what = fmt.Sprintf("%s: %s; residual %.3g, allowed %.3g", id.name, vals, res, tol)
	}
	return out
}

func resid(name, region string, r, tol float64, vals string) idres {
	out := idres{region: region, nontriv: true}
	if math.IsNaN(r) || r > tol {
		out.kind = "residual>tol"
		out.what = fmt.Sprintf("%s: %s; residual %.3g, allowed %.3g", name, vals, r, tol)
	}
	return out
}

func shiftCore(f func(float64) float64, bound func(float64) float64, term func(float64) float64) func(x float64) (float64, float64, int) {
	return func(x float64) (float64, float64, int) {
		if x == 0 || !exactSum(x, 1) || (x <= 0 && distInt(x) == 0) {
			return 0, 0, 0
		}
		y := x + 1
		p0, p1 := f(x), f(y)
		b0, b1 := bound(x), bound(y)
		t := term(x)
		tol := C * u * (math.Max(math.Abs(p0), b0) + math.Max(math.Abs(p1), b1) + math.Abs(t))
		if !finite(p0, p1) {
			if C*u*b0 >= 0.5*math.Abs(p0) || C*u*b1 >= 0.5*math.Abs(p1) || !finite(tol) {
				return 0, 0, 0
			}
			return 0, 0, 2
		}
		if !finite(tol) {
			return 0, 0, 0
		}
		return math.Abs(p1 - p0 - t), tol, 1
	}
}

func gDigamma(x float64) float64  { return guarded(func() float64 { return sp.Digamma(x) }) }
func gTrigamma(x float64) float64 { return guarded(func() float64 { return sp.Trigamma(x) }) }
func gLogErfc(x float64) float64  { return guarded(func() float64 { return sp.LogErfc(x) }) }
func gZeta(x float64) float64     { return guarded(func() float64 { return sp.Zeta(x) }) }
func gSinPi(x float64) float64    { return guarded(func() float64 { return sp.SinPi(x) }) }
func gCosPi(x float64) float64    { return guarded(func() float64 { return sp.CosPi(x) }) }

func chi(s float64) float64 {
	return math.Pow(2, s) * math.Pow(math.Pi, s-1) * math.Sin(math.Pi*s/2) * math.Gamma(1-s)
}

var uniIdents = []uniIdent{
	{"Digamma(x+1)=Digamma(x)+1/x", "digamma",
		shiftCore(gDigamma, boundTPsi1, func(x float64) float64 { return 1 / x }),
		func(x float64) (string, string) {
			return digammaRegion(x), fmt.Sprintf("Digamma(%v)=%v, Digamma(%v)=%v", x, gDigamma(x), x+1, gDigamma(x+1))
		}},
	{"Trigamma(x+1)=Trigamma(x)-1/x^2", "trigamma",
		shiftCore(gTrigamma, boundTPsi2, func(x float64) float64 { return -1 / (x * x) }),
		func(x float64) (string, string) {
			return trigammaRegion(x), fmt.Sprintf("Trigamma(%v)=%v, Trigamma(%v)=%v", x, gTrigamma(x), x+1, gTrigamma(x+1))
		}},
	{"LogErfc=log(Erfc)", "logerfc",
		func(x float64) (float64, float64, int) {
			if !(x > -5 && x < 25) {
				return 0, 0, 0
			}
			f := gLogErfc(x)
			if !finite(f) {
				return 0, 0, 2
			}
			w := math.Log(math.Erfc(x))
			// |x f'(x)| <= 2x^2+1 for x>0, <= 2|x| exp(-x^2) for x<0
			xs := 2*x*x + 1
			if x < 0 {
				xs = 2 * math.Abs(x) * math.Exp(-x*x)
			}
			return math.Abs(f - w), C * u * (math.Max(math.Abs(w), xs) + 1), 1
		},
		func(x float64) (string, string) {
			return logErfcRegion(x), fmt.Sprintf("LogErfc(%v)=%v, log(math.Erfc)=%v", x, gLogErfc(x), math.Log(math.Erfc(x)))
		}},
	{"Zeta reflection on (0,1)", "zeta",
		func(s float64) (float64, float64, int) {
			if !(s > 0 && s < 1) || !exactSum(1, -s) {
				return 0, 0, 0
			}
			t := 1 - s
			z0, z1 := gZeta(s), gZeta(t)
			if !finite(z0, z1) {
				return 0, 0, 2
			}
			// zeta(s) = 2^s pi^(s-1) sin(pi s/2) Gamma(1-s) zeta(1-s)
			rhs := chi(s) * z1
			// condition numbers on (0,1): |s zeta'/zeta| <= 2 + 1/(1-s); chi: O(1 + 1/(1-s)) from Gamma(1-s)
			k0, k1 := 2+1/t, 2+1/s
			return math.Abs(z0 - rhs), C * u * (math.Abs(z0)*k0 + math.Abs(rhs)*(k1+4+1/t+1/s)), 1
		},
		func(s float64) (string, string) {
			return zetaRegion(s), fmt.Sprintf("Zeta(%v)=%v, Zeta(%v)=%v, chi=%v", s, gZeta(s), 1-s, gZeta(1-s), chi(s))
		}},
	{"SinPi(x+1)=-SinPi(x)", "sinpi",
		func(x float64) (float64, float64, int) {
			if !exactSum(x, 1) {
				return 0, 0, 0
			}
			y := x + 1
			a, b := gSinPi(x), gSinPi(y)
			if !finite(a, b) {
				return 0, 0, 2
			}
			return math.Abs(a + b), C * u * (math.Abs(a) + math.Abs(b) + math.Pi*(math.Abs(x)+math.Abs(y))), 1
		},
		func(x float64) (string, string) {
			return sinPiRegion(x), fmt.Sprintf("SinPi(%v)=%v, SinPi(%v)=%v", x, gSinPi(x), x+1, gSinPi(x+1))
		}},
	{"SinPi^2+CosPi^2=1", "cospi",
		func(x float64) (float64, float64, int) {
			s, c := gSinPi(x), gCosPi(x)
			if !finite(s, c) {
				return 0, 0, 2
			}
			return math.Abs(s*s + c*c - 1), C * u * (2 + 2*math.Pi*math.Abs(x)), 1
		},
		func(x float64) (string, string) {
			return cosPiRegion(x), fmt.Sprintf("SinPi(%v)=%v, CosPi(%v)=%v", x, gSinPi(x), x, gCosPi(x))
		}},
	{"CosPi(x+1/2)=-SinPi(x)", "sinpi",
		func(x float64) (float64, float64, int) {
			if !exactSum(x, 0.5) {
				return 0, 0, 0
			}
			y := x + 0.5
			a, b := gSinPi(x), gCosPi(y)
			if !finite(a, b) {
				return 0, 0, 2
			}
			return math.Abs(a + b), C * u * (math.Abs(a) + math.Abs(b) + math.Pi*(math.Abs(x)+math.Abs(y))), 1
		},
		func(x float64) (string, string) {
			return sinPiRegion(x), fmt.Sprintf("SinPi(%v)=%v, CosPi(%v)=%v", x, gSinPi(x), x+0.5, gCosPi(x+0.5))
		}},
}

func (h *H) reportIdent(name string, r idres, rank int64, cs Case) {
	c := h.c
	if r.skip {
		return
	}
	c.Eval(1)
	if r.nontriv {
		c.Nontrivial(1)
	}
	if r.kind == "" {
		c.Outcome("identity:" + name + "|" + r.region + "|holds")
		return
	}
	c.Outcome("identity:" + name + "|" + r.region + "|bad")
	c.Violate("identity: "+name+" | "+r.region+" | "+r.kind, r.what, rank, cs)
}

// monotone: LogErfc must be non-increasing up to the admissible error of both members.
func logErfcSlack(x, f float64) float64 {
	xs := 2*x*x + 1
	if x < 0 {
		xs = 2 * math.Abs(x) * math.Exp(-x*x)
	}
	return C * u * math.Max(math.Abs(f), xs)
}

func (h *H) logErfcMonotone(xs []float64) {
	s := append([]float64(nil), xs...)
	sort.Float64s(s)
	for i := 1; i < len(s); i++ {
		if !h.mine() {
			continue
		}
		h.monoPair(s[i-1], s[i], int64(i), "ident")
	}
}

func (h *H) monoPair(x0, x1 float64, rank int64, check string) {
	c := h.c
	f0, f1 := guarded(func() float64 { return sp.LogErfc(x0) }), guarded(func() float64 { return sp.LogErfc(x1) })
	c.Eval(1)
	reg := logErfcRegion(x0) + "->" + logErfcRegion(x1)
	if math.IsNaN(f0) || math.IsNaN(f1) {
		// NaN is reported by the table comparison (huge x); here only the order matters
		c.Outcome("identity:LogErfc monotone|" + reg + "|nan")
		return
	}
	c.Nontrivial(1)
	if f1 > f0+logErfcSlack(x0, f0)+logErfcSlack(x1, f1) || f1 > math.Ln2*(1+4*u) {
		cs := mkCase(check, "LogErfc monotone", "logerfc", x0, x1)
		c.Violate("identity: LogErfc monotone | "+reg+" | increases", fmt.Sprintf("LogErfc(%v)=%v < LogErfc(%v)=%v although erfc is decreasing", x0, f0, x1, f1), rank, cs)
		c.Outcome("identity:LogErfc monotone|" + reg + "|bad")
		return
	}
	c.Outcome("identity:LogErfc monotone|" + reg + "|holds")
}

// ---- identities on table points -----------------------------------------------------

func (h *H) identOnTable(fam string, pts []Pt, tbl table) {
	switch fam {
	case "uni":
		by := map[string][]float64{}
		for _, p := range pts {
			by[p.Fn] = append(by[p.Fn], p.X)
		}
		for k := range uniIdents {
			id := &uniIdents[k]
			for i, x := range by[id.fam] {
				if !h.mine() {
					continue
				}
				h.c.Guard("identity:"+id.name, int64(i), mkCase("ident", id.name, id.fam, 0, x))
				h.reportIdent(id.name, id.eval(x), int64(i), mkCase("ident", id.name, id.fam, 0, x))
			}
		}
		h.logErfcMonotone(by["logerfc"])
		// Polygamma(0,.) and Polygamma(1,.) delegate
		for i, x := range by["digamma"] {
			if !h.mine() {
				continue
			}
			h.identAt("Polygamma(0,x)=Digamma(x)", Pt{"digamma", 0, x}, tbl, int64(i))
			h.identAt("Polygamma(1,x)=Trigamma(x)", Pt{"digamma", 0, x}, tbl, int64(i))
		}
	case "igam", "bessel", "mgamma", "logadd", "poly":
		names := map[string][]string{
			"igam":   {"GammaP+GammaQ=1", "GammaLower+GammaUpper=Gamma(a)", "GammaP(a+1,x)=GammaP(a,x)-x^a e^-x/Gamma(a+1)"},
			"bessel": {"I(v-1,x)-I(v+1,x)=(2v/x)I(v,x)", "LogBesselI=log(BesselI)"},
			"mgamma": {"Mlgamma=log(Mgamma)", "Mgamma(x+1,k)=Mgamma(x,k)*prod"},
			"logadd": {"LogSub(LogAdd(a,b),b)=a", "LogAdd(LogSub(a,b),b)=a"},
			"poly":   {"Polygamma(n,x+1)=Polygamma(n,x)+(-1)^n n!/x^(n+1)"},
		}[fam]
		for i, p := range pts {
			for _, nm := range names {
				if !h.mine() {
					continue
				}
				h.identAt(nm, p, tbl, int64(i))
			}
		}
	}
}

// relSens: a relative sensitivity, +Inf where only an absolute one exists.
func relSens(s Sens) float64 {
	if s.Abs {
		return math.Inf(1)
	}
	return s.V
}

func sensOf(row string, col int) float64 {
	f, err := cols(row, 4)
	if err != nil {
		return math.Inf(1)
	}
	s, err := parseSens(f[col])
	if err != nil || s.Abs {
		return math.Inf(1)
	}
	return s.V
}

// identAt evaluates one table-based identity at one point.
func (h *H) identAt(name string, p Pt, tbl table, rank int64) {
	a, x := p.A, p.X
	cs := mkCase("ident", name, p.Fn, a, x)
	h.c.Guard("identity:"+name, rank, cs)
	for k := range uniIdents {
		if id := &uniIdents[k]; id.name == name {
			h.reportIdent(name, id.eval(x), rank, cs)
			return
		}
	}
	var r idres
	switch name {
	case "LogErfc monotone":
		h.monoPair(a, x, rank, "ident")
		return
	case "Polygamma(0,x)=Digamma(x)":
		v, w := guarded(func() float64 { return sp.Polygamma(0, x) }), guarded(func() float64 { return sp.Digamma(x) })
		r = idres{region: "n=0", nontriv: true}
		if math.Float64bits(v) != math.Float64bits(w) && !(math.IsNaN(v) && math.IsNaN(w)) {
			r.kind, r.what = "differs", fmt.Sprintf("Polygamma(0,%v)=%v but Digamma(%v)=%v", x, v, x, w)
		}
	case "Polygamma(1,x)=Trigamma(x)":
		v, w := guarded(func() float64 { return sp.Polygamma(1, x) }), guarded(func() float64 { return sp.Trigamma(x) })
		r = idres{region: "n=1", nontriv: true}
		if math.Float64bits(v) != math.Float64bits(w) && !(math.IsNaN(v) && math.IsNaN(w)) {
			r.kind, r.what = "differs", fmt.Sprintf("Polygamma(1,%v)=%v but Trigamma(%v)=%v", x, v, x, w)
		}
	case "Polygamma(n,x+1)=Polygamma(n,x)+(-1)^n n!/x^(n+1)":
		n := int(a)
		if !(x > 0) || !exactSum(x, 1) {
			return
		}
		y := x + 1
		p0, p1 := guarded(func() float64 { return sp.Polygamma(n, x) }), guarded(func() float64 { return sp.Polygamma(n, y) })
		lg, _ := math.Lgamma(float64(n + 1))
		term := math.Exp(lg - float64(n+1)*math.Log(x))
		if n%2 == 1 {
			term = -term
		}
		// psi_n(x+1) = psi_n(x) - (-1)^n ... : psi_n(x) - psi_n(x+1) = (-1)^(n+1) n!/x^(n+1)
		if !finite(p0, p1, term) || math.Abs(p0) > 1e290 || (math.Abs(p0) < 1e-290 && math.Abs(term) < 1e-290) {
			return
		}
		// relative condition of psi_n(t), t>0: |t psi_{n+1}/psi_n| <= n+1 + t-dependent O(1)
		k := float64(n) + 3
		relTerm := 4 + float64(n+1)*math.Abs(math.Log(x))*2 + math.Abs(lg) // log-domain evaluation of the term
		tol := C * u * (math.Abs(p0)*k + math.Abs(p1)*k + math.Abs(term)*relTerm)
		r = resid(name, polygammaRegion(n, x), math.Abs(p1-p0-term), tol, fmt.Sprintf("Polygamma(%d,%v)=%v, Polygamma(%d,%v)=%v, term=%v", n, x, p0, n, y, p1, term))
	case "GammaP+GammaQ=1", "GammaLower+GammaUpper=Gamma(a)", "GammaP(a+1,x)=GammaP(a,x)-x^a e^-x/Gamma(a+1)":
		r = igamIdent(name, a, x, tbl)
	case "I(v-1,x)-I(v+1,x)=(2v/x)I(v,x)":
		if x == 0 {
			return
		}
		if !exactSum(a, 1) || !exactSum(a, -1) {
			return
		}
		rm, ok1, _ := besselRowAt(tbl, a-1, x)
		r0, ok2, _ := besselRowAt(tbl, a, x)
		rp, ok3, _ := besselRowAt(tbl, a+1, x)
		if !ok1 || !ok2 || !ok3 {
			return
		}
		im := guarded(func() float64 { return sp.BesselI(a-1, x) })
		i0 := guarded(func() float64 { return sp.BesselI(a, x) })
		ip := guarded(func() float64 { return sp.BesselI(a+1, x) })
		sm, s0, s1 := relSens(rm.sI), relSens(r0.sI), relSens(rp.sI)
		if !finite(im, i0, ip, sm, s0, s1) || math.Max(math.Abs(im), math.Abs(ip)) > 1e290 || math.Max(math.Abs(im), math.Abs(ip)) < 1e-290 {
			return
		}
		rhs := 2 * a / x * i0
		tol := C * u * (math.Abs(im)*math.Max(1, sm) + math.Abs(ip)*math.Max(1, s1) + math.Abs(rhs)*(math.Max(1, s0)+2))
		// a subnormal I(v,x) is known to an absolute 2^-1075 only (gradual underflow), and the
		// identity multiplies it by 2v/x (x = 1e-23: 1e24)
		tol += C * math.Abs(2*a/x) * 0x1p-1074
		r = resid(name, besselRegion(a, x), math.Abs(im-ip-rhs), tol, fmt.Sprintf("I(%v,%v)=%v, I(%v,%v)=%v, I(%v,%v)=%v", a-1, x, im, a, x, i0, a+1, x, ip))
	case "LogBesselI=log(BesselI)":
		br, ok, _ := besselRowAt(tbl, a, x)
		if !ok {
			return
		}
		i0 := guarded(func() float64 { return sp.BesselI(a, x) })
		if !finite(i0) || !(i0 > 1e-290 && i0 < 1e290) {
			return
		}
		l0 := guarded(func() float64 { return sp.LogBesselI(a, x) })
		w := math.Log(i0)
		s0 := relSens(br.sI) // relative sensitivity of I = absolute sensitivity of log I
		if !finite(s0) {
			return
		}
		tol := C * u * (2*math.Max(1, s0) + 2*math.Abs(w))
		if math.IsNaN(l0) || math.IsInf(l0, 0) {
			if C*u*s0 >= 0.5 {
				return
			}
			r = idres{region: besselRegion(a, x), nontriv: true, kind: "non-finite", what: fmt.Sprintf("LogBesselI(%v,%v)=%v but BesselI=%v", a, x, l0, i0)}
		} else {
			r = resid(name, besselRegion(a, x), math.Abs(l0-w), tol, fmt.Sprintf("LogBesselI(%v,%v)=%v, log(BesselI)=%v", a, x, l0, w))
		}
	case "Mlgamma=log(Mgamma)":
		row, ok := tbl[mkKey("mgamma", a, x)]
		if !ok {
			return
		}
		k := int(a)
		gm := guarded(func() float64 { return sp.Mgamma(x, k) })
		if !finite(gm) || !(gm > 1e-290 && gm < 1e290) {
			return
		}
		lg := guarded(func() float64 { return sp.Mlgamma(x, k) })
		w := math.Log(gm)
		s0 := sensOf(row, 1)
		if !finite(s0, lg) {
			if !finite(lg) {
				r = idres{region: mgRegion(k), nontriv: true, kind: "non-finite", what: fmt.Sprintf("Mlgamma(%v,%d)=%v but Mgamma=%v", x, k, lg, gm)}
				break
			}
			return
		}
		tol := C * u * (2*math.Max(1, s0) + 2*math.Abs(w))
		r = resid(name, mgRegion(k), math.Abs(lg-w), tol, fmt.Sprintf("Mlgamma(%v,%d)=%v, log(Mgamma)=%v", x, k, lg, w))
	case "Mgamma(x+1,k)=Mgamma(x,k)*prod":
		k := int(a)
		row0, ok0 := tbl[mkKey("mgamma", a, x)]
		row1, ok1 := tbl[mkKey("mgamma", a, x+1)]
		if !ok0 || !ok1 || !exactSum(x, 1) {
			return
		}
		g0 := guarded(func() float64 { return sp.Mgamma(x, k) })
		g1 := guarded(func() float64 { return sp.Mgamma(x+1, k) })
		prod := 1.0
		for i := 1; i <= k; i++ {
			prod *= x + float64(1-i)/2
		}
		s0, s1 := sensOf(row0, 1), sensOf(row1, 1)
		if !finite(g0, g1, s0, s1) || math.Abs(g1) > 1e290 || math.Abs(g0) < 1e-290 {
			return
		}
		tol := C * u * (math.Abs(g1)*math.Max(1, s1) + math.Abs(g0*prod)*(math.Max(1, s0)+float64(k)))
		r = resid(name, mgRegion(k), math.Abs(g1-g0*prod), tol, fmt.Sprintf("Mgamma(%v,%d)=%v, Mgamma(%v,%d)=%v", x, k, g0, x+1, k, g1))
	case "LogSub(LogAdd(a,b),b)=a":
		b := x
		d := b - a
		if d > 30 {
			return // exp(b-a) amplification beyond 1e13: vacuous
		}
		s := guarded(func() float64 { return la.LogAdd(a, b) })
		back := guarded(func() float64 { return la.LogSub(s, b) })
		A := 1 + math.Exp(d)
		wa, wb := 1/(1+math.Exp(d)), 1/(1+math.Exp(-d))
		tol := C * u * (A*math.Max(math.Abs(s), math.Abs(a*wa)+math.Abs(b*wb)) + math.Max(math.Abs(a), math.Abs(s)*A+math.Abs(b)*math.Exp(d)))
		if !finite(s) {
			r = idres{region: "-", nontriv: true, kind: "non-finite", what: fmt.Sprintf("LogAdd(%v,%v)=%v", a, b, s)}
			break
		}
		if !finite(back) {
			if tol >= 0.25*math.Abs(s-b) || s <= b {
				return // s is within rounding of b: LogSub legitimately sees a non-positive difference
			}
			r = idres{region: "-", nontriv: true, kind: "non-finite", what: fmt.Sprintf("LogSub(LogAdd(%v,%v)=%v,%v)=%v", a, b, s, b, back)}
			break
		}
		r = resid(name, "-", math.Abs(back-a), tol, fmt.Sprintf("LogAdd(%v,%v)=%v, LogSub(.,%v)=%v", a, b, s, b, back))
	case "LogAdd(LogSub(a,b),b)=a":
		b := x
		if !(a > b) {
			return
		}
		e := math.Exp(b - a)
		if 1-e < 1e-10 {
			return
		}
		dd := guarded(func() float64 { return la.LogSub(a, b) })
		back := guarded(func() float64 { return la.LogAdd(dd, b) })
		if !finite(dd, back) {
			r = idres{region: "-", nontriv: true, kind: "non-finite", what: fmt.Sprintf("LogSub(%v,%v)=%v, LogAdd(.,%v)=%v", a, b, dd, b, back)}
			break
		}
		A1, B1 := 1/(1-e), e/(1-e)
		tol := C * u * (math.Max(math.Abs(dd), math.Abs(a)*A1+math.Abs(b)*B1)*(1-e) + math.Max(math.Abs(a), math.Abs(dd)*(1-e)+math.Abs(b)*e))
		r = resid(name, "-", math.Abs(back-a), tol, fmt.Sprintf("LogSub(%v,%v)=%v, LogAdd(.,%v)=%v", a, b, dd, b, back))
	default:
		h.c.HarnessError("unknown identity " + name)
		return
	}
	if r.region == "" && r.kind == "" && !r.nontriv {
		return
	}
	h.reportIdent(name, r, rank, cs)
}

func igamIdent(name string, a, x float64, tbl table) idres {
	if x == 0 {
		return idres{skip: true}
	}
	r0, ok, err := igamRowAt(tbl, a, x)
	if !ok || err != nil {
		return idres{skip: true}
	}
	cxL, cxU := f64(quo(r0.pref, r0.L)), f64(quo(r0.pref, r0.U))
	switch name {
	case "GammaP+GammaQ=1":
		p := guarded(func() float64 { return sp.GammaP(a, x) })
		q := guarded(func() float64 { return sp.GammaQ(a, x) })
		reg := igamRegion(a, x, true, false)
		if !finite(p, q) {
			return idres{region: reg, nontriv: true, kind: "non-finite", what: fmt.Sprintf("GammaP(%v,%v)=%v, GammaQ=%v", a, x, p, q)}
		}
		P, Q := f64(quo(r0.L, r0.G)), f64(quo(r0.U, r0.G))
		tol := C * u * (P*math.Max(1, cxL+r0.caP) + Q*math.Max(1, cxU+r0.caQ) + 1)
		return resid(name, reg, math.Abs(p+q-1), tol, fmt.Sprintf("GammaP(%v,%v)=%v, GammaQ=%v", a, x, p, q))
	case "GammaLower+GammaUpper=Gamma(a)":
		if a > 170 {
			return idres{skip: true}
		}
		l := guarded(func() float64 { return sp.GammaLower(a, x) })
		uu := guarded(func() float64 { return sp.GammaUpper(a, x) })
		reg := igamRegion(a, x, false, false)
		if !finite(l, uu) {
			return idres{region: reg, nontriv: true, kind: "non-finite", what: fmt.Sprintf("GammaLower(%v,%v)=%v, GammaUpper=%v", a, x, l, uu)}
		}
		G := math.Gamma(a)
		L, U := f64(r0.L), f64(r0.U)
		tol := C * u * (L*math.Max(1, cxL+r0.caL) + U*math.Max(1, cxU+r0.caU) + G*(2+a*(1+math.Abs(math.Log(a)))+1/a))
		if !finite(tol) {
			return idres{skip: true}
		}
		return resid(name, reg, math.Abs(l+uu-G), tol, fmt.Sprintf("GammaLower(%v,%v)=%v, GammaUpper=%v, Gamma(a)=%v", a, x, l, uu, G))
	default:
		if !exactSum(a, 1) {
			return idres{skip: true}
		}
		r1, ok, err := igamRowAt(tbl, a+1, x)
		if !ok || err != nil {
			return idres{skip: true}
		}
		p0 := guarded(func() float64 { return sp.GammaP(a, x) })
		p1 := guarded(func() float64 { return sp.GammaP(a+1, x) })
		lg, _ := math.Lgamma(a + 1)
		lt := a*math.Log(x) - x - lg
		term := math.Exp(lt)
		reg := igamRegion(a, x, true, false)
		if !finite(p0, p1) {
			return idres{region: reg, nontriv: true, kind: "non-finite", what: fmt.Sprintf("GammaP(%v,%v)=%v, GammaP(%v,%v)=%v", a, x, p0, a+1, x, p1)}
		}
		P0, P1 := f64(quo(r0.L, r0.G)), f64(quo(r1.L, r1.G))
		if P0 < 1e-290 {
			return idres{skip: true} // all members in the subnormal range: rounding is absolute there
		}
		c1 := f64(quo(r1.pref, r1.L)) + r1.caP
		relTerm := 4 + math.Abs(a*math.Log(x)) + x + math.Abs(lg)
		tol := C * u * (P0*math.Max(1, cxL+r0.caP) + P1*math.Max(1, c1) + term*relTerm)
		if !finite(tol) {
			return idres{skip: true}
		}
		return resid(name, reg, math.Abs(p1-(p0-term)), tol, fmt.Sprintf("GammaP(%v,%v)=%v, GammaP(%v,%v)=%v, x^a e^-x/Gamma(a+1)=%v", a, x, p0, a+1, x, p1, term))
	}
}

func mgRegion(k int) string {
	if k > 4 {
		return "k>4"
	}
	return "k=1..4"
}

var _ = big.NewFloat
