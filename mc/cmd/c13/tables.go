// Loading and verification of the committed reference tables /verif/ref/c13/*.tsv.gz.
package main

import (
	"bufio"
	"bytes"
	"compress/gzip"
	"crypto/sha256"
	"encoding/hex"
	"fmt"
	"math"
	"math/big"
	"os"
	"path/filepath"
	"strconv"
	"strings"
)

func refDir() string {
	d := os.Getenv("VERIF_DIR")
	if d == "" {
		d = "/verif"
	}
	return filepath.Join(d, "ref", "c13")
}

type key struct {
	fn   string
	a, x uint64
}

func mkKey(fn string, a, x float64) key {
	return key{fn, math.Float64bits(a + 0), math.Float64bits(x + 0)}
}

// table maps a point to the tab-separated value columns of its row.
type table map[key]string

// verifyTables checks presence and sha256 of every committed table.
func verifyTables() error {
	for _, fam := range families {
		want, ok := tableSums[fam]
		if !ok {
			return fmt.Errorf("no checksum recorded for table %q", fam)
		}
		p := filepath.Join(refDir(), fam+".tsv.gz")
		raw, err := os.ReadFile(p)
		if err != nil {
			return fmt.Errorf("reference table missing: %v", err)
		}
		sum := sha256.Sum256(raw)
		if hex.EncodeToString(sum[:]) != want {
			return fmt.Errorf("reference table %s is corrupt: sha256 %s, expected %s", p, hex.EncodeToString(sum[:]), want)
		}
	}
	return nil
}

// loadFamily verifies the checksum of one table and indexes it. Any problem is
// returned as an error (the caller turns it into a HarnessError).
func loadFamily(fam string) (table, error) {
	want, ok := tableSums[fam]
	if !ok {
		return nil, fmt.Errorf("no checksum recorded for table %q", fam)
	}
	p := filepath.Join(refDir(), fam+".tsv.gz")
	raw, err := os.ReadFile(p)
	if err != nil {
		return nil, fmt.Errorf("reference table missing: %v", err)
	}
	sum := sha256.Sum256(raw)
	if hex.EncodeToString(sum[:]) != want {
		return nil, fmt.Errorf("reference table %s is corrupt: sha256 %s, expected %s", p, hex.EncodeToString(sum[:]), want)
	}
	zr, err := gzip.NewReader(bytes.NewReader(raw))
	if err != nil {
		return nil, fmt.Errorf("%s: %v", p, err)
	}
	t := table{}
	sc := bufio.NewScanner(zr)
	sc.Buffer(make([]byte, 1<<20), 1<<24)
	for sc.Scan() {
		line := sc.Text()
		f := strings.SplitN(line, "\t", 4)
		if len(f) != 4 {
			return nil, fmt.Errorf("%s: malformed row %q", p, line)
		}
		a, e1 := strconv.ParseFloat(f[1], 64)
		x, e2 := strconv.ParseFloat(f[2], 64)
		if e1 != nil || e2 != nil {
			return nil, fmt.Errorf("%s: malformed arguments in row %q", p, line)
		}
		t[mkKey(f[0], a, x)] = f[3]
	}
	if err := sc.Err(); err != nil {
		return nil, fmt.Errorf("%s: %v", p, err)
	}
	return t, nil
}

// Ref is a reference value: Kind 'n' finite number (Hi+Lo, double-double), 'z' exact
// zero, 'o' overflow (|v| >= 2^1024), 'u' underflow (< 2^-1080), 'p' pole,
// 'x' undefined, 'i' exactly -Inf.
type Ref struct {
	Kind   byte
	Neg    bool
	Hi, Lo float64
	Big    *big.Float
}

const bigPrec = 200

func parseBig(s string) (*big.Float, error) {
	v, _, err := big.ParseFloat(s, 10, bigPrec, big.ToNearestEven)
	return v, err
}

func refFromBig(v *big.Float) Ref {
	if v.Sign() == 0 {
		return Ref{Kind: 'z', Big: v}
	}
	hi, _ := v.Float64()
	r := Ref{Neg: v.Sign() < 0, Big: v}
	if math.IsInf(hi, 0) {
		r.Kind = 'o'
		return r
	}
	if math.Abs(hi) < 0x1p-1060 {
		r.Kind = 'u'
		return r
	}
	d := new(big.Float).SetPrec(bigPrec).Sub(v, new(big.Float).SetFloat64(hi))
	lo, _ := d.Float64()
	r.Kind, r.Hi, r.Lo = 'n', hi, lo
	return r
}

func parseRef(s string) (Ref, error) {
	switch s {
	case "0":
		return Ref{Kind: 'z'}, nil
	case "+ovf":
		return Ref{Kind: 'o'}, nil
	case "-ovf":
		return Ref{Kind: 'o', Neg: true}, nil
	case "+udf":
		return Ref{Kind: 'u'}, nil
	case "-udf":
		return Ref{Kind: 'u', Neg: true}, nil
	case "pole":
		return Ref{Kind: 'p'}, nil
	case "undef":
		return Ref{Kind: 'x'}, nil
	case "ninf":
		return Ref{Kind: 'i'}, nil
	}
	v, err := parseBig(s)
	if err != nil {
		return Ref{}, fmt.Errorf("bad reference value %q: %v", s, err)
	}
	return refFromBig(v), nil
}

// Sens is the reference-side sensitivity: relative (condition number) or, where the
// function value is exactly zero, absolute.
type Sens struct {
	Abs bool
	V   float64
}

func parseSens(s string) (Sens, error) {
	abs := false
	if strings.HasPrefix(s, "A") {
		abs, s = true, s[1:]
	}
	v, err := strconv.ParseFloat(s, 64)
	if err != nil && !math.IsInf(v, 0) {
		return Sens{}, fmt.Errorf("bad sensitivity %q", s)
	}
	if math.IsNaN(v) {
		return Sens{}, fmt.Errorf("bad sensitivity %q", s)
	}
	return Sens{abs, math.Abs(v)}, nil
}
