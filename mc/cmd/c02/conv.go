package main

import (
	"fmt"
	"math"
	"strings"

	ad "github.com/pbenner/autodiff"
	"verif/mc/vf"
)

/* comparisons --------------------------------------------------------------------- */

var cmpOps = []string{"Equals", "Greater", "Smaller", "Sign"}
var epsilons = []float64{1e-8, 0.75}

type cmpUnit struct {
	op string
	rt *TypeDesc // any of the sixteen types (and the tracked kinds)
}

// expectCmp: ok=false when the property defines no answer.
func expectCmp(op string, rt, kb *TypeDesc, a, b *V, eps float64) (want int, skip string) {
	k := rt.K
	bi := func(v bool) int {
		if v {
			return 1
		}
		return 0
	}
	if op == "Sign" {
		if math.IsNaN(a.F) {
			return 0, "NaN is unordered"
		}
		if a.IsInt {
			return bi(a.I > 0) - bi(a.I < 0), ""
		}
		return bi(a.F > 0) - bi(a.F < 0), ""
	}
	if op == "Equals" {
		if !exactIn(k, b) {
			return 0, "operand not representable in the receiver's type"
		}
		if math.IsNaN(a.F) || math.IsNaN(b.F) {
			return 0, "NaN is unordered"
		}
		if a.IsInt && b.IsInt {
			if a.I == b.I {
				return 1, ""
			}
			// distinct integers differ by at least 1 > eps (difference formed without overflow)
			return 0, ""
		}
		x, y := a.F, b.F
		if math.IsInf(x, 0) || math.IsInf(y, 0) {
			return bi(x == y), ""
		}
		return bi(math.Abs(x-y) < eps), ""
	}
	// Greater / Smaller: numeric order of the operands as represented in the receiver's type
	if !k.Float {
		y, ok := intView(k, kb, b)
		if !ok {
			return 0, "float->int conversion of the operand is implementation-defined"
		}
		if op == "Greater" {
			return bi(a.I > y), ""
		}
		return bi(a.I < y), ""
	}
	x, y := a.F, b.float()
	if k.Bits == 32 {
		var ok bool
		if y, ok = f32View(kb, b); !ok {
			return 0, "float64->float32 overflow of the operand"
		}
	}
	if math.IsNaN(x) || math.IsNaN(y) {
		return 0, "NaN is unordered"
	}
	if op == "Greater" {
		return bi(x > y), ""
	}
	return bi(x < y), ""
}

func runCmp(op string, rt, kb *TypeDesc, a, b *V, eps float64) (got int, pn string) {
	defer func() {
		if e := recover(); e != nil {
			pn = fmt.Sprint(e)
		}
	}()
	bi := func(v bool) int {
		if v {
			return 1
		}
		return 0
	}
	ra := rt.mk(a, 0, 1)
	switch op {
	case "Sign":
		return ra.Sign(), ""
	case "Equals":
		return bi(ra.Equals(kb.mk(b, 0, 1), eps)), ""
	case "Greater":
		return bi(ra.Greater(kb.mk(b, 0, 1))), ""
	case "Smaller":
		return bi(ra.Smaller(kb.mk(b, 0, 1))), ""
	}
	panic("runCmp " + op)
}

func runOneCmp(c *vf.Ctx, u *unitAgg, op string, rt, kb *TypeDesc, a, b *V, eps float64, rank int64) {
	want, skip := expectCmp(op, rt, kb, a, b, eps)
	if skip != "" {
		c.Count("excluded: "+skip, 1)
		return
	}
	cs := Case{Kind: "cmp", Op: op, Recv: rt.Name, Vals: []string{a.Name}, Eps: eps}
	opnd := []string{}
	val := signClass(a.F)
	if op != "Sign" {
		cs.Kinds, cs.Vals = []string{kb.Name}, []string{a.Name, b.Name}
		opnd = []string{kb.Class}
		val = relClass(a, b)
	}
	got, pn := runCmp(op, rt, kb, a, b, eps)
	c.Eval(1)
	c.Nontrivial(1)
	u.checked(opnd, val)
	switch {
	case pn != "":
		u.fail("panic", opnd, val, "", rank, cs, "panics: "+pn)
		c.Outcome("fail:panic")
	case got != want:
		u.fail("result", opnd, val, "", rank, cs, fmt.Sprintf("returned %d, numeric order of the operands as represented in %s gives %d", got, rt.Name, want))
		c.Outcome("fail:result")
	default:
		c.Outcome(fmt.Sprintf("ok:%s=%d", op, got))
	}
}

func runCmpUnit(c *vf.Ctx, un cmpUnit) {
	op, rt := un.op, un.rt
	u := newUnitAgg(op + "|recv=" + rt.Name)
	vals := append(append([]*V{}, latticeG...), latticeC...)
	if c.Thorough() {
		vals = append(vals, latticeB...)
	}
	for ia, a := range vals {
		if !rt.holds(a) {
			continue
		}
		if op == "Sign" {
			runOneCmp(c, u, op, rt, nil, a, nil, 0, int64(ia))
			continue
		}
		for ib, b := range vals {
			for ik, kb := range operandKinds {
				if !kb.holds(b) {
					continue
				}
				es := []float64{0}
				if op == "Equals" {
					es = epsilons
				}
				for _, eps := range es {
					runOneCmp(c, u, op, rt, kb, a, b, eps, (int64(ia+ib)*100+int64(ib))*1000+int64(ik))
				}
			}
		}
	}
	u.flush(c, false)
}

func replayCmp(c *vf.Ctx, cs Case) {
	rt := typeByName[cs.Recv]
	if rt == nil || len(cs.Vals) == 0 {
		c.HarnessError("replay: malformed cmp case")
		return
	}
	a := lookupV(cs.Vals[0])
	var b *V
	var kb *TypeDesc
	if cs.Op != "Sign" {
		if len(cs.Vals) < 2 || len(cs.Kinds) < 1 {
			c.HarnessError("replay: malformed cmp case")
			return
		}
		b, kb = lookupV(cs.Vals[1]), typeByName[cs.Kinds[0]]
	}
	u := newUnitAgg(cs.Op + "|recv=" + rt.Name)
	runOneCmp(c, u, cs.Op, rt, kb, a, b, cs.Eps, 0)
	u.flush(c, true)
}

/* conversions and registry constructors --------------------------------------------- */

var convMethods = []string{"ConvertConstScalar", "ConvertScalar", "ConvertMagicScalar",
	"NewScalar", "NullScalar", "NewConstScalar", "NullConstScalar", "NewMagicScalar", "NullMagicScalar"}

type convUnit struct {
	method string
	src    *TypeDesc // nil for constructors
}

// validTarget: can the method deliver a value of type t at all?
func validTarget(method string, t *TypeDesc) bool {
	switch method {
	case "ConvertScalar", "NewScalar", "NullScalar":
		return !t.Const
	case "ConvertMagicScalar", "NewMagicScalar", "NullMagicScalar":
		return t.Magic
	}
	return true
}

// goConvert: v (held in storage of kind sk; sk.Bits==0: a plain float64 argument)
// converted to the storage of kind tk by Go's conversion rules.
func goConvert(srcInt bool, v *V, tk Kind) (st Stored, defined bool) {
	if !tk.Float {
		if srcInt {
			return Stored{IsInt: true, I: tk.wrap(v.I)}, true
		}
		f := v.F
		if !finite(f) {
			return st, false
		}
		lo, hi := tk.intRange()
		tr := math.Trunc(f)
		if tr < float64(lo) || tr >= two63 || (hi != math.MaxInt64 && tr > float64(hi)) {
			return st, false
		}
		return Stored{IsInt: true, I: int64(tr)}, true
	}
	if srcInt {
		if tk.Bits == 32 {
			return Stored{F: float64(float32(v.I))}, true
		}
		return Stored{F: float64(v.I)}, true
	}
	f := v.F
	if tk.Bits == 32 {
		if finite(f) && math.Abs(f) > math.MaxFloat32 {
			return st, false
		}
		return Stored{F: float64(float32(f))}, true
	}
	return Stored{F: f}, true
}

func runConv(method string, src, tgt *TypeDesc, v *V) (res ad.ConstScalar, pn string) {
	defer func() {
		if e := recover(); e != nil {
			pn = fmt.Sprint(e)
		}
	}()
	switch method {
	case "ConvertConstScalar":
		return src.mk(v, 0, 1).ConvertConstScalar(tgt.ST), ""
	case "ConvertScalar":
		return src.mk(v, 0, 1).(ad.Scalar).ConvertScalar(tgt.ST), ""
	case "ConvertMagicScalar":
		return src.mk(v, 0, 1).(ad.MagicScalar).ConvertMagicScalar(tgt.ST), ""
	case "NewScalar":
		return ad.NewScalar(tgt.ST, v.F), ""
	case "NullScalar":
		return ad.NullScalar(tgt.ST), ""
	case "NewConstScalar":
		return ad.NewConstScalar(tgt.ST, v.F), ""
	case "NullConstScalar":
		return ad.NullConstScalar(tgt.ST), ""
	case "NewMagicScalar":
		return ad.NewMagicScalar(tgt.ST, v.F), ""
	case "NullMagicScalar":
		return ad.NullMagicScalar(tgt.ST), ""
	}
	panic("runConv " + method)
}

func runOneConv(c *vf.Ctx, u *unitAgg, method string, src, tgt *TypeDesc, v *V, rank int64) {
	cs := Case{Kind: "conv", Op: method, Tgt: tgt.Name, Vals: []string{v.Name}}
	srcInt := false
	if src != nil {
		cs.Recv = src.Name
		srcInt = !src.K.Float
	}
	res, pn := runConv(method, src, tgt, v)
	c.Eval(1)
	if validTarget(method, tgt) {
		c.Nontrivial(1) // a value of the requested type can exist: type and value are compared
	}
	opnd := []string{tgt.Name}
	if tgt.Const {
		opnd[0] = "Const*"
	}
	val := signClass(v.F)
	u.checked(opnd, val)
	valid := validTarget(method, tgt)
	if pn != "" {
		if !valid {
			c.Outcome("ok:loud-failure-for-impossible-target")
			return
		}
		u.fail("panic", opnd, val, "", rank, cs, fmt.Sprintf("panics although %s is a registered type of the requested interface: %s", tgt.Name, pn))
		c.Outcome("fail:panic")
		return
	}
	if res == nil {
		u.fail("nil", opnd, val, "", rank, cs, "returned nil")
		return
	}
	if res.Type() != tgt.ST {
		u.fail("type", opnd, val, "", rank, cs, fmt.Sprintf("result has Type() %v, requested %v", res.Type(), tgt.ST))
		c.Outcome("fail:type")
		return
	}
	// Type()==target: then it must hold the converted value
	var want Stored
	var defined bool
	switch method {
	case "NullScalar", "NullConstScalar", "NullMagicScalar":
		want, defined = Stored{IsInt: !tgt.K.Float}, true
	default:
		want, defined = goConvert(srcInt, v, tgt.K)
	}
	if !defined {
		c.Count("excluded: conversion of the value is implementation-defined (type still checked)", 1)
		c.Outcome("ok:type-only")
		return
	}
	got := readStored(tgt.K, res)
	if want.IsInt {
		if got.I != want.I {
			u.fail("value", opnd, val, "", rank, cs, fmt.Sprintf("holds %d, Go conversion gives %d", got.I, want.I))
			c.Outcome("fail:value")
			return
		}
	} else if w, m := judgeF(got.F, want.F, 4*tgt.K.u()*math.Abs(want.F), "Go conversion gives"); w != "" {
		u.fail(w, opnd, val, "", rank, cs, m)
		c.Outcome("fail:" + w)
		return
	}
	c.Outcome("ok:converted")
}

func convValues(method string, src *TypeDesc) []*V {
	switch method {
	case "NullScalar", "NullConstScalar", "NullMagicScalar":
		return latticeG[:1]
	}
	var out []*V
	for _, v := range latticeG {
		if src == nil {
			// constructor argument is a float64
			if v.IsInt && !exactInt64AsFloat(v.I) {
				continue
			}
			out = append(out, v)
		} else if src.holds(v) {
			out = append(out, v)
		}
	}
	return out
}

// runConvPair: two conversions/constructions to the SAME target type, both results kept;
// the first result must still hold what it held before the second call (a result that is
// a fresh scalar "holding that value" cannot change because another one is requested).
// Purely differential: the first result is read before and after the second call.
func runConvPair(c *vf.Ctx, u *unitAgg, method string, src, tgt *TypeDesc, v1, v2 *V, rank int64) {
	if !validTarget(method, tgt) {
		return
	}
	cs := Case{Kind: "convpair", Op: method, Tgt: tgt.Name, Vals: []string{v1.Name, v2.Name}}
	if src != nil {
		cs.Recv = src.Name
	}
	r1, pn1 := runConv(method, src, tgt, v1)
	if pn1 != "" || r1 == nil || r1.Type() != tgt.ST {
		return // judged by the single-conversion check
	}
	before := readStored(tgt.K, r1)
	r2, pn2 := runConv(method, src, tgt, v2)
	c.Eval(1)
	if pn2 != "" || r2 == nil {
		return
	}
	c.Nontrivial(1)
	c.Count("conversion pairs to one target type, first result re-read", 1)
	after := readStored(tgt.K, r1)
	same := before.I == after.I && math.Float64bits(before.F) == math.Float64bits(after.F)
	if !same {
		opnd := []string{tgt.Name}
		if tgt.Const {
			opnd[0] = "Const*"
		}
		u.fail("earlier-result-changed", opnd, signClass(v1.F), "", rank, cs,
			fmt.Sprintf("the result of %s(%s) read %v before and %v after a second %s(%s) to the same type", method, v1.Name, before, after, method, v2.Name))
		c.Outcome("fail:earlier-result-changed")
		return
	}
	c.Outcome("ok:earlier-result-kept")
}

func runConvUnit(c *vf.Ctx, un convUnit) {
	name := "-"
	if un.src != nil {
		name = strings.TrimSuffix(un.src.Name, "'") // tracked and untracked sources share their keys
	}
	u := newUnitAgg(un.method + "|src=" + name)
	u.opndLabel = "tgt"
	vals := convValues(un.method, un.src)
	for iv, v := range vals {
		for it, tgt := range realTypes {
			runOneConv(c, u, un.method, un.src, tgt, v, int64(iv)*100+int64(it))
			// histories of two calls: neighbouring values of the lattice, both orders
			if iv+1 < len(vals) {
				runConvPair(c, u, un.method, un.src, tgt, v, vals[iv+1], int64(iv)*100+int64(it))
				runConvPair(c, u, un.method, un.src, tgt, vals[iv+1], v, int64(iv)*100+int64(it))
			}
		}
	}
	u.flush(c, false)
}

func replayConv(c *vf.Ctx, cs Case) {
	tgt := typeByName[cs.Tgt]
	var src *TypeDesc
	if cs.Recv != "" {
		src = typeByName[cs.Recv]
	}
	if cs.Kind == "convpair" {
		if tgt == nil || len(cs.Vals) != 2 || lookupV(cs.Vals[0]) == nil || lookupV(cs.Vals[1]) == nil {
			c.HarnessError("replay: malformed convpair case")
			return
		}
		name := "-"
		if src != nil {
			name = strings.TrimSuffix(src.Name, "'")
		}
		u := newUnitAgg(cs.Op + "|src=" + name)
		u.opndLabel = "tgt"
		runConvPair(c, u, cs.Op, src, tgt, lookupV(cs.Vals[0]), lookupV(cs.Vals[1]), 0)
		u.flush(c, true)
		return
	}
	if tgt == nil || len(cs.Vals) != 1 || lookupV(cs.Vals[0]) == nil {
		c.HarnessError("replay: malformed conv case")
		return
	}
	name := "-"
	if src != nil {
		name = strings.TrimSuffix(src.Name, "'")
	}
	u := newUnitAgg(cs.Op + "|src=" + name)
	u.opndLabel = "tgt"
	runOneConv(c, u, cs.Op, src, tgt, lookupV(cs.Vals[0]), 0)
	u.flush(c, true)
}
