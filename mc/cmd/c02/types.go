package main

import (
	"math"

	ad "github.com/pbenner/autodiff"
)

// Kind of the storage of a scalar type.
type Kind struct {
	Float bool
	Bits  int // 8,16,32,64 (ints) or 32,64 (floats)
}

func (k Kind) intRange() (lo, hi int64) {
	switch k.Bits {
	case 8:
		return math.MinInt8, math.MaxInt8
	case 16:
		return math.MinInt16, math.MaxInt16
	case 32:
		return math.MinInt32, math.MaxInt32
	}
	return math.MinInt64, math.MaxInt64
}

// unit roundoff of the storage (floats)
func (k Kind) u() float64 {
	if k.Bits == 32 {
		return 1.0 / (1 << 24)
	}
	return 1.0 / (1 << 53)
}
func (k Kind) maxFloat() float64 {
	if k.Bits == 32 {
		return math.MaxFloat32
	}
	return math.MaxFloat64
}
func (k Kind) denorm() float64 {
	if k.Bits == 32 {
		return math.SmallestNonzeroFloat32
	}
	return math.SmallestNonzeroFloat64
}

// TypeDesc describes one of the sixteen scalar types (plus two pseudo operand
// kinds: Real64/Real32 with derivative tracking switched on).
type TypeDesc struct {
	Name    string
	ST      ad.ScalarType
	K       Kind
	Const   bool
	Magic   bool
	Tracked bool
	Class   string // operand type class used in violation keys
}

const intBits = 32 << (^uint(0) >> 63)

const two63 = 9223372036854775808.0

// exactInt64AsFloat: float64(i) == i exactly (decided without an out-of-range conversion).
func exactInt64AsFloat(i int64) bool {
	f := float64(i)
	if f >= two63 || f < -two63 {
		return false
	}
	return int64(f) == i
}

var allTypes = []*TypeDesc{
	{Name: "Float64", ST: ad.Float64Type, K: Kind{true, 64}, Class: "float"},
	{Name: "Real64", ST: ad.Real64Type, K: Kind{true, 64}, Magic: true, Class: "real"},
	{Name: "Float32", ST: ad.Float32Type, K: Kind{true, 32}, Class: "float"},
	{Name: "Real32", ST: ad.Real32Type, K: Kind{true, 32}, Magic: true, Class: "real"},
	{Name: "Int", ST: ad.IntType, K: Kind{false, intBits}, Class: "int"},
	{Name: "Int64", ST: ad.Int64Type, K: Kind{false, 64}, Class: "int"},
	{Name: "Int32", ST: ad.Int32Type, K: Kind{false, 32}, Class: "int"},
	{Name: "Int16", ST: ad.Int16Type, K: Kind{false, 16}, Class: "int"},
	{Name: "Int8", ST: ad.Int8Type, K: Kind{false, 8}, Class: "int"},
	{Name: "ConstFloat64", ST: ad.ConstFloat64Type, K: Kind{true, 64}, Const: true, Class: "cfloat"},
	{Name: "ConstFloat32", ST: ad.ConstFloat32Type, K: Kind{true, 32}, Const: true, Class: "cfloat"},
	{Name: "ConstInt", ST: ad.ConstIntType, K: Kind{false, intBits}, Const: true, Class: "cint"},
	{Name: "ConstInt64", ST: ad.ConstInt64Type, K: Kind{false, 64}, Const: true, Class: "cint"},
	{Name: "ConstInt32", ST: ad.ConstInt32Type, K: Kind{false, 32}, Const: true, Class: "cint"},
	{Name: "ConstInt16", ST: ad.ConstInt16Type, K: Kind{false, 16}, Const: true, Class: "cint"},
	{Name: "ConstInt8", ST: ad.ConstInt8Type, K: Kind{false, 8}, Const: true, Class: "cint"},
	// pseudo operand kinds (derivatives tracked, order 2)
	{Name: "Real64'", ST: ad.Real64Type, K: Kind{true, 64}, Magic: true, Tracked: true, Class: "real'"},
	{Name: "Real32'", ST: ad.Real32Type, K: Kind{true, 32}, Magic: true, Tracked: true, Class: "real'"},
}

var (
	realTypes    = allTypes[:16] // the sixteen real scalar types
	mutableTypes = allTypes[:9]
	operandKinds = allTypes // 18 operand kinds
	typeByName   = map[string]*TypeDesc{}
)

func init() {
	for _, t := range allTypes {
		typeByName[t.Name] = t
	}
}

// holds reports whether a scalar of type t can hold v exactly.
func (t *TypeDesc) holds(v *V) bool {
	if !t.K.Float {
		if !v.IsInt {
			return false
		}
		lo, hi := t.K.intRange()
		return v.I >= lo && v.I <= hi
	}
	if v.IsInt {
		f := float64(v.I)
		exact := exactInt64AsFloat(v.I)
		if !exact {
			return false
		}
		if t.K.Bits == 32 {
			return float64(float32(f)) == f
		}
		return true
	}
	if t.K.Bits == 32 {
		return math.IsNaN(v.F) || float64(float32(v.F)) == v.F
	}
	return true
}

// mk builds a scalar of type t holding v (which t must be able to hold).
// tracked kinds are made variable number pos of n with second-order tracking.
func (t *TypeDesc) mk(v *V, pos, n int) ad.ConstScalar {
	f := v.F
	i := v.I
	switch t.Name {
	case "Float64":
		return ad.NewFloat64(f)
	case "Real64":
		return ad.NewReal64(f)
	case "Float32":
		return ad.NewFloat32(float32(f))
	case "Real32":
		return ad.NewReal32(float32(f))
	case "Int":
		return ad.NewInt(int(i))
	case "Int64":
		return ad.NewInt64(i)
	case "Int32":
		return ad.NewInt32(int32(i))
	case "Int16":
		return ad.NewInt16(int16(i))
	case "Int8":
		return ad.NewInt8(int8(i))
	case "ConstFloat64":
		return ad.ConstFloat64(f)
	case "ConstFloat32":
		return ad.ConstFloat32(float32(f))
	case "ConstInt":
		return ad.ConstInt(int(i))
	case "ConstInt64":
		return ad.ConstInt64(i)
	case "ConstInt32":
		return ad.ConstInt32(int32(i))
	case "ConstInt16":
		return ad.ConstInt16(int16(i))
	case "ConstInt8":
		return ad.ConstInt8(int8(i))
	case "Real64'":
		r := ad.NewReal64(f)
		r.SetVariable(pos, n, 2)
		return r
	case "Real32'":
		r := ad.NewReal32(float32(f))
		r.SetVariable(pos, n, 2)
		return r
	}
	panic("mk: unknown type " + t.Name)
}

// newRecv builds a fresh receiver of a mutable type. The initial content is a
// value no checked operation returns by accident.
func (t *TypeDesc) newRecv() ad.Scalar {
	switch t.Name {
	case "Float64":
		return ad.NewFloat64(-77)
	case "Real64":
		return ad.NewReal64(-77)
	case "Float32":
		return ad.NewFloat32(-77)
	case "Real32":
		return ad.NewReal32(-77)
	case "Int":
		return ad.NewInt(-77)
	case "Int64":
		return ad.NewInt64(-77)
	case "Int32":
		return ad.NewInt32(-77)
	case "Int16":
		return ad.NewInt16(-77)
	case "Int8":
		return ad.NewInt8(-77)
	}
	panic("newRecv: not a mutable type " + t.Name)
}

// Stored is the content of a scalar read back through the getter of its own
// storage type: an int64 for integer storage, a float64 for float storage.
type Stored struct {
	IsInt bool
	I     int64
	F     float64
}

func readStored(k Kind, s ad.ConstScalar) Stored {
	if k.Float {
		if k.Bits == 32 {
			return Stored{F: float64(s.GetFloat32())}
		}
		return Stored{F: s.GetFloat64()}
	}
	switch k.Bits {
	case 8:
		return Stored{IsInt: true, I: int64(s.GetInt8())}
	case 16:
		return Stored{IsInt: true, I: int64(s.GetInt16())}
	case 32:
		return Stored{IsInt: true, I: int64(s.GetInt32())}
	}
	return Stored{IsInt: true, I: s.GetInt64()}
}

// wrap truncates x to the width of an integer kind (Go's int->int conversion).
func (k Kind) wrap(x int64) int64 {
	switch k.Bits {
	case 8:
		return int64(int8(x))
	case 16:
		return int64(int16(x))
	case 32:
		return int64(int32(x))
	}
	return x
}

// intView: the operand as read through the getter of an integer receiver of
// kind k (GetInt8..GetInt64). ok=false when Go leaves the conversion
// implementation-defined (NaN, Inf, out of range float).
func intView(k Kind, ot *TypeDesc, v *V) (int64, bool) {
	if !ot.K.Float {
		return k.wrap(v.I), true
	}
	f := v.float()
	if math.IsNaN(f) || math.IsInf(f, 0) {
		return 0, false
	}
	tr := math.Trunc(f)
	lo, hi := k.intRange()
	if tr < float64(lo) || tr >= two63 || (hi != math.MaxInt64 && tr > float64(hi)) {
		return 0, false
	}
	return int64(tr), true
}

// exactIn: v is exactly representable in the storage of kind k
// (so that "the operand" and "the operand as represented in the receiver's type" coincide).
func exactIn(k Kind, v *V) bool {
	if !k.Float {
		if v.IsInt {
			lo, hi := k.intRange()
			return v.I >= lo && v.I <= hi
		}
		if v.F == 0 { // -0.0
			return true
		}
		return false
	}
	f := v.float()
	if math.IsNaN(f) || math.IsInf(f, 0) {
		return true
	}
	if v.IsInt && !(exactInt64AsFloat(v.I)) {
		return false
	}
	if k.Bits == 32 {
		return float64(float32(f)) == f
	}
	return true
}

// f32View: the operand as read through GetFloat32 (defined for all values in range).
func f32View(ot *TypeDesc, v *V) (float64, bool) {
	if !ot.K.Float {
		return float64(float32(v.I)), true
	}
	f := v.F
	if !math.IsNaN(f) && !math.IsInf(f, 0) && math.Abs(f) > math.MaxFloat32 {
		return 0, false // float64 -> float32 overflow: implementation-dependent
	}
	return float64(float32(f)), true
}
