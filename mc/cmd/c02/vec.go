package main

import (
	"fmt"
	"math"

	ad "github.com/pbenner/autodiff"
	"verif/mc/vf"
)

// VecKind: a container type through which element values reach the scalar operation.
type VecKind struct {
	Name   string
	Elem   *TypeDesc
	Sparse bool // SparseConst<T>Vector (element type Const<T>)
	Class  string
}

var vecKinds []*VecKind
var vecKindByName = map[string]*VecKind{}

func init() {
	for _, t := range mutableTypes {
		vecKinds = append(vecKinds, &VecKind{Name: "Dense" + t.Name, Elem: t, Class: "dense-" + t.Class})
	}
	for _, t := range realTypes[9:] {
		vecKinds = append(vecKinds, &VecKind{Name: "Sparse" + t.Name, Elem: t, Sparse: true, Class: "sparse-" + t.Class})
	}
	for _, k := range vecKinds {
		vecKindByName[k.Name] = k
	}
}

func setElem(s ad.Scalar, t *TypeDesc, v *V) {
	if t.K.Float {
		s.SetFloat64(v.F)
	} else {
		s.SetInt64(v.I)
	}
}

func (k *VecKind) holds(vals []*V) bool {
	for _, v := range vals {
		if !k.Elem.holds(v) {
			return false
		}
	}
	return true
}

func (k *VecKind) buildVec(vals []*V) ad.ConstVector {
	n := len(vals)
	if !k.Sparse {
		v := ad.NullDenseVector(k.Elem.ST, n)
		for i := range vals {
			setElem(v.At(i), k.Elem, vals[i])
		}
		return v
	}
	idx := []int{}
	for i, v := range vals {
		if !(v.F == 0) {
			idx = append(idx, i)
		}
	}
	switch k.Elem.Name {
	case "ConstFloat64":
		x := []float64{}
		for _, i := range idx {
			x = append(x, vals[i].F)
		}
		return ad.NewSparseConstFloat64Vector(idx, x, n)
	case "ConstFloat32":
		x := []float32{}
		for _, i := range idx {
			x = append(x, float32(vals[i].F))
		}
		return ad.NewSparseConstFloat32Vector(idx, x, n)
	case "ConstInt":
		x := []int{}
		for _, i := range idx {
			x = append(x, int(vals[i].I))
		}
		return ad.NewSparseConstIntVector(idx, x, n)
	case "ConstInt64":
		x := []int64{}
		for _, i := range idx {
			x = append(x, vals[i].I)
		}
		return ad.NewSparseConstInt64Vector(idx, x, n)
	case "ConstInt32":
		x := []int32{}
		for _, i := range idx {
			x = append(x, int32(vals[i].I))
		}
		return ad.NewSparseConstInt32Vector(idx, x, n)
	case "ConstInt16":
		x := []int16{}
		for _, i := range idx {
			x = append(x, int16(vals[i].I))
		}
		return ad.NewSparseConstInt16Vector(idx, x, n)
	case "ConstInt8":
		x := []int8{}
		for _, i := range idx {
			x = append(x, int8(vals[i].I))
		}
		return ad.NewSparseConstInt8Vector(idx, x, n)
	}
	panic("buildVec " + k.Name)
}

func (k *VecKind) buildMat(vals []*V, rows, cols int) ad.ConstMatrix {
	m := ad.NullDenseMatrix(k.Elem.ST, rows, cols)
	for i := 0; i < rows; i++ {
		for j := 0; j < cols; j++ {
			setElem(m.At(i, j), k.Elem, vals[i*cols+j])
		}
	}
	return m
}

// VecOp: a scalar operation taking vector / matrix data.
type VecOp struct {
	Name    string
	NVec    int  // number of vector arguments (1 or 2)
	Matrix  bool // argument is a matrix
	Alphas  []float64
	Lax     bool // integer storage accepted within one unit (documented as exp/weight composition)
	NoInt   bool // needs -Inf in the storage type: integer receivers are outside the property
	Special bool // IEEE specials among the data are meaningful
	Call    func(r ad.Scalar, rt *TypeDesc, a, b ad.ConstVector, m ad.ConstMatrix, alpha float64)
	// Ref returns the value, a magnitude scale for the tolerance, a conditioning factor, the
	// magnitudes every evaluation of the formula passes through, and ok=false outside the domain.
	Ref func(a, b []float64, rows, cols int, alpha float64) (ref, scale, cond float64, inter []float64, ok bool)
}

func refSmoothMax(a, b []float64, rows, cols int, alpha float64) (float64, float64, float64, []float64, bool) {
	var num, den, anum, mx float64
	inter := []float64{alpha}
	for _, x := range a {
		w := math.Exp(alpha * x)
		num += x * w
		anum += math.Abs(x) * w
		den += w
		mx = math.Max(mx, math.Abs(alpha*x))
		inter = append(inter, alpha*x, w, x*w)
	}
	inter = append(inter, den, anum)
	return num / den, anum / den, 1 + mx, inter, true
}

var vecOps = []*VecOp{
	{Name: "Vmean", NVec: 1, Special: true,
		Call: func(r ad.Scalar, rt *TypeDesc, a, b ad.ConstVector, m ad.ConstMatrix, al float64) { r.Vmean(a) },
		Ref: func(a, b []float64, rows, cols int, al float64) (float64, float64, float64, []float64, bool) {
			var s, as float64
			for _, x := range a {
				s += x
				as += math.Abs(x)
			}
			n := float64(len(a))
			return s / n, as / n, 1, []float64{as}, true
		}},
	{Name: "VdotV", NVec: 2, Special: true,
		Call: func(r ad.Scalar, rt *TypeDesc, a, b ad.ConstVector, m ad.ConstMatrix, al float64) { r.VdotV(a, b) },
		Ref: func(a, b []float64, rows, cols int, al float64) (float64, float64, float64, []float64, bool) {
			var s, as float64
			for i := range a {
				s += a[i] * b[i]
				as += math.Abs(a[i] * b[i])
			}
			return s, as, 1, []float64{as}, true
		}},
	{Name: "Vnorm", NVec: 1, Special: true,
		Call: func(r ad.Scalar, rt *TypeDesc, a, b ad.ConstVector, m ad.ConstMatrix, al float64) { r.Vnorm(a) },
		Ref: func(a, b []float64, rows, cols int, al float64) (float64, float64, float64, []float64, bool) {
			var s float64
			for _, x := range a {
				s += x * x
			}
			return math.Sqrt(s), math.Sqrt(s), 1, []float64{s}, true
		}},
	{Name: "SmoothMax", NVec: 1, Alphas: []float64{1, 2, 0.5}, Lax: true,
		Call: func(r ad.Scalar, rt *TypeDesc, a, b ad.ConstVector, m ad.ConstMatrix, al float64) {
			r.SmoothMax(a, ad.ConstFloat64(al), [2]ad.Scalar{rt.newRecv(), rt.newRecv()})
		},
		Ref: refSmoothMax},
	{Name: "LogSmoothMax", NVec: 1, Alphas: []float64{1, 2, 0.5}, NoInt: true,
		Call: func(r ad.Scalar, rt *TypeDesc, a, b ad.ConstVector, m ad.ConstMatrix, al float64) {
			r.LogSmoothMax(a, ad.ConstFloat64(al), [3]ad.Scalar{rt.newRecv(), rt.newRecv(), rt.newRecv()})
		},
		// "differentiable maximum on log scale": the same function as SmoothMax, for non-negative
		// data. An entry that is exactly zero is inside the domain: log 0 = -Inf, the entry adds
		// nothing to sum x_i e^(alpha x_i) and e^0 = 1 to the normaliser sum e^(alpha x_i).
		Ref: func(a, b []float64, rows, cols int, al float64) (float64, float64, float64, []float64, bool) {
			ml := 0.0
			for _, x := range a {
				if !(x >= 0) {
					return 0, 0, 0, nil, false
				}
				if x > 0 {
					ml = math.Max(ml, math.Abs(math.Log(x)))
				}
			}
			ref, scale, cond, inter, ok := refSmoothMax(a, b, rows, cols, al)
			return ref, scale, 4 * (cond + ml), inter, ok
		}},
	{Name: "Mtrace", Matrix: true, Special: true,
		Call: func(r ad.Scalar, rt *TypeDesc, a, b ad.ConstVector, m ad.ConstMatrix, al float64) { r.Mtrace(m) },
		Ref: func(a, b []float64, rows, cols int, al float64) (float64, float64, float64, []float64, bool) {
			if rows != cols {
				return 0, 0, 0, nil, false
			}
			var s, as float64
			for i := 0; i < rows; i++ {
				s += a[i*cols+i]
				as += math.Abs(a[i*cols+i])
			}
			return s, as, 1, []float64{as}, true
		}},
	{Name: "Mnorm", Matrix: true, Special: true,
		Call: func(r ad.Scalar, rt *TypeDesc, a, b ad.ConstVector, m ad.ConstMatrix, al float64) { r.Mnorm(m) },
		// documented: "Frobenius norm"
		Ref: func(a, b []float64, rows, cols int, al float64) (float64, float64, float64, []float64, bool) {
			var s float64
			for _, x := range a {
				s += x * x
			}
			return math.Sqrt(s), math.Sqrt(s), 1, []float64{s}, true
		}},
}

var vecOpByName = map[string]*VecOp{}

func init() {
	for _, o := range vecOps {
		vecOpByName[o.Name] = o
	}
}

func floats(vs []*V) []float64 {
	out := make([]float64, len(vs))
	for i, v := range vs {
		out[i] = v.F
	}
	return out
}

func expectVec(op *VecOp, rt *TypeDesc, data [][]*V, rows, cols int, alpha float64) Expect {
	k := rt.K
	if !k.Float && op.NoInt {
		return Expect{Skip: "operation needs -Inf in the storage type"}
	}
	hasSpecial := false
	for _, d := range data {
		for _, v := range d {
			if !exactIn(k, v) {
				return Expect{Skip: "operand not representable in the receiver's type"}
			}
			if isSpecial(v.F) {
				hasSpecial = true
			}
		}
	}
	if hasSpecial && (!op.Special || !k.Float) {
		return Expect{Skip: "outside the domain of the operation"}
	}
	a := floats(data[0])
	var b []float64
	if len(data) > 1 {
		b = floats(data[1])
	}
	ref, scale, cond, inter, ok := op.Ref(a, b, rows, cols, alpha)
	if !ok {
		return Expect{Skip: "outside the domain of the operation"}
	}
	if !k.Float {
		lo, hi := k.intRange()
		if !finite(ref) {
			return Expect{Skip: "non-finite result in integer storage"}
		}
		for _, v := range inter {
			if !finite(v) || v <= float64(lo) || v >= float64(hi) {
				return Expect{Skip: "an intermediate of the documented formula is outside the receiver's range"}
			}
		}
		if op.Lax {
			if alpha != math.Trunc(alpha) {
				return Expect{Skip: "operand not representable in the receiver's type"}
			}
			for _, x := range a {
				if alpha*x < 0 {
					return Expect{Skip: "a weight e^(alpha x) in (0,1) is not representable in integer storage"}
				}
			}
			return Expect{Int: true, ILo: int64(math.Floor(ref-1-1e-9)) + 1, IHi: int64(math.Ceil(ref+1+1e-9)) - 1}
		}
		tol := 1e-12 * (math.Abs(ref) + 1)
		return Expect{Int: true, ILo: int64(math.Trunc(ref - tol)), IHi: int64(math.Trunc(ref + tol))}
	}
	if !hasSpecial {
		for _, v := range inter {
			if math.IsNaN(v) || math.Abs(v) > k.maxFloat() {
				return Expect{Skip: "an intermediate of the documented formula overflows the storage"}
			}
		}
	}
	if !finite(ref) {
		return Expect{F: ref}
	}
	n := float64(len(a) + 2)
	tol := tolK*k.u()*n*cond*math.Max(scale, math.Abs(ref)) + 16*k.denorm()
	return Expect{F: ref, Tol: tol, TolX: tol}
}

func runVec(op *VecOp, rt *TypeDesc, kinds []*VecKind, data [][]*V, rows, cols int, alpha float64) (o Obs) {
	r := rt.newRecv()
	defer func() {
		if e := recover(); e != nil {
			o.Panic = fmt.Sprint(e)
		}
	}()
	var a, b ad.ConstVector
	var m ad.ConstMatrix
	if op.Matrix {
		m = kinds[0].buildMat(data[0], rows, cols)
	} else {
		a = kinds[0].buildVec(data[0])
		if op.NVec == 2 {
			b = kinds[1].buildVec(data[1])
		}
	}
	op.Call(r, rt, a, b, m, alpha)
	o.S = readStored(rt.K, r)
	return
}

func vecValClass(data [][]*V) string {
	n := len(data[0])
	neg, sp, zero := false, false, false
	for _, d := range data {
		for _, v := range d {
			switch {
			case isSpecial(v.F):
				sp = true
			case v.F < 0:
				neg = true
			case v.F == 0:
				zero = true
			}
		}
	}
	s := fmt.Sprintf("n=%d", n)
	if n > 2 {
		s = "n>2"
	}
	if neg {
		s += "/neg"
	}
	if zero {
		s += "/zero"
	}
	if sp {
		s += "/special"
	}
	return s
}

type vecUnit struct {
	op *VecOp
	rt *TypeDesc
}

func namesOf(data [][]*V) [][]string {
	out := make([][]string, len(data))
	for i, d := range data {
		out[i] = valNames(d)
	}
	return out
}

func runOneVec(c *vf.Ctx, u *unitAgg, op *VecOp, rt *TypeDesc, kinds []*VecKind, data [][]*V, rows, cols int, alpha float64, rank int64) {
	e := expectVec(op, rt, data, rows, cols, alpha)
	if e.Skip != "" {
		c.Count("excluded: "+e.Skip, 1)
		return
	}
	kn := make([]string, len(kinds))
	opnd := make([]string, len(kinds))
	for i, k := range kinds {
		kn[i], opnd[i] = k.Name, k.Class
	}
	cs := Case{Kind: "vec", Op: op.Name, Recv: rt.Name, Kinds: kn, Vecs: namesOf(data), Rows: rows, Cols: cols, Param: alpha}
	c.Guard(op.Name+"|recv="+rt.Name, rank, cs)
	o := runVec(op, rt, kinds, data, rows, cols, alpha)
	c.Eval(1)
	c.Nontrivial(1)
	val := vecValClass(data)
	u.checked(opnd, val)
	for _, d := range data {
		for _, zc := range zeroClasses(d) {
			if u.zeroSeen == nil {
				u.zeroSeen = map[string]int64{}
			}
			u.zeroSeen[zc]++
		}
	}
	what, msg := judge(e, o)
	if what != "" {
		u.fail(what, opnd, val, "", rank, cs, msg)
		c.Outcome("fail:" + what)
		return
	}
	c.Outcome("ok:" + op.Name)
}

// all vectors of length n over alphabet al, simplest first
func vectorsOver(al []*V, n int) [][]*V {
	if n == 0 {
		return [][]*V{{}}
	}
	var out [][]*V
	for _, rest := range vectorsOver(al, n-1) {
		for _, v := range al {
			out = append(out, append(append([]*V{}, rest...), v))
		}
	}
	return out
}

// zeroPatterns: every way a vector of length n can contain exact zeros: each non-empty set of
// positions (leading, trailing, interleaved, all) holds the zero z, the other positions hold
// fill[i] (distinct non-zero values).
func zeroPatterns(n int, z *V, fill []*V) [][]*V {
	var out [][]*V
	for mask := 1; mask < 1<<uint(n); mask++ {
		v := make([]*V, n)
		for i := range v {
			if mask&(1<<uint(i)) != 0 {
				v[i] = z
			} else {
				v[i] = fill[i]
			}
		}
		out = append(out, v)
	}
	return out
}

// zeroClasses: where the exact zeros of a vector sit.
func zeroClasses(v []*V) []string {
	nz := 0
	for _, e := range v {
		if e.F == 0 {
			nz++
		}
	}
	switch {
	case nz == 0:
		return nil
	case nz == len(v):
		return []string{"all-zero"}
	}
	var cl []string
	if v[0].F == 0 {
		cl = append(cl, "leading")
	}
	if v[len(v)-1].F == 0 {
		cl = append(cl, "trailing")
	}
	for i := 1; i < len(v)-1; i++ {
		if v[i].F == 0 {
			l, r := false, false
			for k := 0; k < i; k++ {
				l = l || v[k].F != 0
			}
			for k := i + 1; k < len(v); k++ {
				r = r || v[k].F != 0
			}
			if l && r {
				cl = append(cl, "interleaved")
				break
			}
		}
	}
	return cl
}

var zeroClassNames = []string{"all-zero", "leading", "trailing", "interleaved"}

func vecData(op *VecOp, thorough bool) (data [][][]*V, shapes [][2]int) {
	seen := map[string]bool{}
	add := func(d [][]*V, r, cl int) {
		k := fmt.Sprint(namesOf(d), r, cl)
		if seen[k] {
			return // the families below overlap; every case is enumerated once
		}
		seen[k] = true
		data = append(data, d)
		shapes = append(shapes, [2]int{r, cl})
	}
	// every zero pattern of the operand data (see zeroPatterns), with +0 and -0, around positive
	// and around mixed-sign entries
	negZero := valueByName["-0.0"]
	zeros := []*V{valueByName["0"], negZero}
	fills := [][]*V{
		{valueByName["1"], valueByName["2"], valueByName["0.5"], valueByName["3"]},
		{valueByName["-1"], valueByName["2"], valueByName["-0.5"], valueByName["3"]},
		{valueByName["1"], valueByName["2"], valueByName["3"], valueByName["7"]}, // integer storage types as well
	}
	defer func() {
		switch {
		case op.Matrix:
			for _, z := range zeros {
				for _, f := range fills {
					for _, v := range zeroPatterns(4, z, f) {
						add([][]*V{v}, 2, 2)
					}
					for _, v := range zeroPatterns(2, z, f) {
						if op.Name != "Mtrace" {
							add([][]*V{v}, 1, 2)
							add([][]*V{v}, 2, 1)
						}
					}
				}
			}
		case op.NVec == 2:
			for n := 1; n <= 3; n++ {
				for _, z := range zeros {
					for _, f := range fills {
						pa := append(zeroPatterns(n, z, f), f[:n])
						for _, a := range pa {
							for _, b := range pa {
								add([][]*V{a, b}, 0, 0)
							}
						}
					}
				}
			}
		default:
			for n := 1; n <= 4; n++ {
				for _, z := range zeros {
					for _, f := range fills {
						for _, v := range zeroPatterns(n, z, f) {
							add([][]*V{v}, 0, 0)
						}
					}
				}
			}
		}
	}()
	S, S5 := latticeS, latticeS5
	withSpec := append(append([]*V{}, S5...), latticeSpec...)
	// wide magnitudes (every branch): length 1 over all of W, length 2 over its larger half
	W, W3 := latticeW, latticeW[2:5]
	switch {
	case op.Matrix && op.Name == "Mtrace":
		for _, v := range vectorsOver(W, 1) {
			add([][]*V{v}, 1, 1)
		}
		for _, v := range vectorsOver(W3, 2) {
			add([][]*V{{v[0], valueByName["7"], valueByName["-8"], v[1]}}, 2, 2)
		}
	case op.Matrix:
		for _, v := range vectorsOver(W, 1) {
			add([][]*V{v}, 1, 1)
		}
		for _, v := range vectorsOver(W3, 2) {
			add([][]*V{v}, 1, 2)
			add([][]*V{v}, 2, 1)
		}
	case op.NVec == 2:
		for _, a := range vectorsOver(W, 1) {
			for _, b := range vectorsOver(W, 1) {
				add([][]*V{a, b}, 0, 0)
			}
		}
		for _, a := range vectorsOver(W3, 2) {
			for _, b := range vectorsOver(W3, 2) {
				add([][]*V{a, b}, 0, 0)
			}
		}
	default:
		for _, v := range vectorsOver(W, 1) {
			add([][]*V{v}, 0, 0)
		}
		for _, v := range vectorsOver(W3, 2) {
			add([][]*V{v}, 0, 0)
		}
	}
	switch {
	case op.Matrix && op.Name == "Mtrace":
		for _, v := range vectorsOver(S, 1) {
			add([][]*V{v}, 1, 1)
		}
		off1, off2 := valueByName["7"], valueByName["-8"]
		for _, v := range vectorsOver(S, 2) {
			add([][]*V{{v[0], off1, off2, v[1]}}, 2, 2)
		}
		for _, v := range vectorsOver(S5, 3) {
			add([][]*V{{v[0], off1, off2, off2, v[1], off1, off1, off2, v[2]}}, 3, 3)
		}
		for _, v := range vectorsOver(latticeSpec, 1) {
			add([][]*V{{v[0], off1, off2, valueByName["1"]}}, 2, 2)
		}
	case op.Matrix:
		for _, sh := range [][2]int{{1, 1}, {1, 2}, {2, 1}, {2, 2}} {
			al := S
			if sh[0]*sh[1] == 4 {
				al = S5
				if thorough {
					al = S
				}
			}
			for _, v := range vectorsOver(al, sh[0]*sh[1]) {
				add([][]*V{v}, sh[0], sh[1])
			}
		}
		for _, v := range vectorsOver(withSpec, 2) {
			if isSpecial(v[0].F) || isSpecial(v[1].F) {
				add([][]*V{v}, 1, 2)
			}
		}
	case op.NVec == 2:
		for _, a := range vectorsOver(S, 1) {
			for _, b := range vectorsOver(S, 1) {
				add([][]*V{a, b}, 0, 0)
			}
		}
		al := S5
		if thorough {
			al = S
		}
		for _, a := range vectorsOver(al, 2) {
			for _, b := range vectorsOver(al, 2) {
				add([][]*V{a, b}, 0, 0)
			}
		}
		for _, a := range vectorsOver(withSpec, 1) {
			for _, b := range vectorsOver(withSpec, 1) {
				if isSpecial(a[0].F) || isSpecial(b[0].F) {
					add([][]*V{a, b}, 0, 0)
				}
			}
		}
	default:
		for n := 1; n <= 2; n++ {
			for _, v := range vectorsOver(S, n) {
				add([][]*V{v}, 0, 0)
			}
		}
		al := S5
		if thorough {
			al = S
		}
		for _, v := range vectorsOver(al, 3) {
			add([][]*V{v}, 0, 0)
		}
		if op.Special {
			for n := 1; n <= 2; n++ {
				for _, v := range vectorsOver(withSpec, n) {
					sp := false
					for _, e := range v {
						sp = sp || isSpecial(e.F)
					}
					if sp {
						add([][]*V{v}, 0, 0)
					}
				}
			}
		}
	}
	return
}

func runVecUnit(c *vf.Ctx, un vecUnit) {
	op, rt := un.op, un.rt
	u := newUnitAgg(op.Name + "|recv=" + rt.Name)
	data, shapes := vecData(op, c.Thorough())
	alphas := op.Alphas
	if alphas == nil {
		alphas = []float64{0}
	}
	kindsA := vecKinds
	if op.Matrix {
		kindsA = vecKinds[:9]
	}
	for _, al := range alphas {
		for di, d := range data {
			for ia, ka := range kindsA {
				if !ka.holds(d[0]) {
					continue
				}
				if op.NVec < 2 {
					runOneVec(c, u, op, rt, []*VecKind{ka}, d, shapes[di][0], shapes[di][1], al, int64(di)*1000+int64(ia))
					continue
				}
				for ib, kb := range vecKinds {
					if !kb.holds(d[1]) {
						continue
					}
					runOneVec(c, u, op, rt, []*VecKind{ka, kb}, d, 0, 0, al, int64(di)*1000+int64(ia*20+ib))
				}
			}
		}
	}
	// the zeros of the operand data are inside the domain of every reduction: each receiver type
	// that takes part at all must have been compared on every zero pattern
	if rt.K.Float || !op.NoInt {
		for _, zc := range zeroClassNames {
			n := u.zeroSeen[zc]
			c.Count("vec_cases_zero_pattern:"+zc, n)
			if n == 0 {
				c.HarnessError(fmt.Sprintf("%s on receiver %s was never compared on an operand with the zero pattern %q", op.Name, rt.Name, zc))
			}
		}
	}
	u.flush(c, false)
}

func replayVec(c *vf.Ctx, cs Case) {
	op, rt := vecOpByName[cs.Op], typeByName[cs.Recv]
	if op == nil || rt == nil {
		c.HarnessError("replay: malformed vec case")
		return
	}
	var kinds []*VecKind
	for _, n := range cs.Kinds {
		k := vecKindByName[n]
		if k == nil {
			c.HarnessError("replay: unknown container kind " + n)
			return
		}
		kinds = append(kinds, k)
	}
	var data [][]*V
	for _, d := range cs.Vecs {
		var vs []*V
		for _, n := range d {
			v := lookupV(n)
			if v == nil {
				c.HarnessError("replay: unknown value " + n)
				return
			}
			vs = append(vs, v)
		}
		data = append(data, vs)
	}
	u := newUnitAgg(op.Name + "|recv=" + rt.Name)
	runOneVec(c, u, op, rt, kinds, data, cs.Rows, cs.Cols, cs.Param, 0)
	u.flush(c, true)
}
