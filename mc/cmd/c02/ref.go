package main

// Independent float64 reference formulas. Nothing here calls the library.

import (
	"fmt"
	"math"
)

var nan = math.NaN()

// log(1+e^x), stable textbook form
func refLog1pExp(x float64) float64 {
	if math.IsNaN(x) {
		return nan
	}
	if x > 0 {
		return x + math.Log1p(math.Exp(-x))
	}
	return math.Log1p(math.Exp(x))
}

// 1/(1+e^-x)
func refLogistic(x float64) float64 {
	if math.IsNaN(x) {
		return nan
	}
	if x >= 0 {
		return 1 / (1 + math.Exp(-x))
	}
	e := math.Exp(x)
	return e / (1 + e)
}

// log(e^a + e^b)
func refLogAdd(a, b float64) float64 {
	switch {
	case math.IsNaN(a) || math.IsNaN(b):
		return nan
	case math.IsInf(a, 1) || math.IsInf(b, 1):
		return math.Inf(1)
	case math.IsInf(a, -1):
		return b
	case math.IsInf(b, -1):
		return a
	}
	m, d := a, b-a
	if b > a {
		m, d = b, a-b
	}
	return m + math.Log1p(math.Exp(d))
}

// log(e^a - e^b), a >= b
func refLogSub(a, b float64) float64 {
	switch {
	case math.IsNaN(a) || math.IsNaN(b):
		return nan
	case math.IsInf(b, -1):
		return a
	case math.IsInf(a, 1):
		return math.Inf(1)
	case a == b:
		return math.Inf(-1)
	}
	return a + math.Log1p(-math.Exp(b-a))
}

// log(erfc(x))
func refLogErfc(x float64) float64 {
	if math.IsNaN(x) {
		return nan
	}
	if x < 25 {
		return math.Log(math.Erfc(x))
	}
	if math.IsInf(x, 1) {
		return math.Inf(-1)
	}
	// erfc(x) ~ e^{-x^2}/(x sqrt(pi)) (1 - 1/(2x^2) + 3/(2x^2)^2 - 15/(2x^2)^3 ...)
	z := 1 / (2 * x * x)
	s, t := 0.0, 1.0
	for k := 1; k <= 12; k++ {
		t *= -float64(2*k-1) * z
		s += t
		if math.Abs(t) < 1e-18 {
			break
		}
	}
	return -x*x - math.Log(x) - 0.5*math.Log(math.Pi) + math.Log1p(s)
}

// log Gamma(x) where Gamma(x) > 0, else NaN flag
func refLgamma(x float64) (float64, bool) {
	v, s := math.Lgamma(x)
	return v, s > 0
}

// multivariate log gamma: k(k-1)/4 log(pi) + sum_j lgamma(x + (1-j)/2), x > (k-1)/2
func refMlgamma(x float64, k int) float64 {
	r := float64(k*(k-1)) / 4 * math.Log(math.Pi)
	for j := 1; j <= k; j++ {
		v, _ := math.Lgamma(x + float64(1-j)/2)
		r += v
	}
	return r
}

// regularized lower incomplete gamma P(a,x), a>0, x>=0 (series / Lentz continued fraction)
func refGammaP(a, x float64) float64 {
	switch {
	case math.IsNaN(x):
		return nan
	case x == 0:
		return 0
	case math.IsInf(x, 1):
		return 1
	}
	lg, _ := math.Lgamma(a)
	pre := math.Exp(-x + a*math.Log(x) - lg)
	if x < a+1 {
		ap, sum, del := a, 1/a, 1/a
		for n := 0; n < 100000; n++ {
			ap++
			del *= x / ap
			sum += del
			if math.Abs(del) < math.Abs(sum)*1e-17 {
				break
			}
		}
		return sum * pre
	}
	if pre == 0 {
		return 1
	}
	const tiny = 1e-300
	b := x + 1 - a
	c := 1 / tiny
	d := 1 / b
	h := d
	for i := 1; i < 100000; i++ {
		an := -float64(i) * (float64(i) - a)
		b += 2
		d = an*d + b
		if math.Abs(d) < tiny {
			d = tiny
		}
		c = b + an/c
		if math.Abs(c) < tiny {
			c = tiny
		}
		d = 1 / d
		del := d * c
		h *= del
		if math.Abs(del-1) < 1e-16 {
			break
		}
	}
	return 1 - pre*h
}

// log I_v(x), v>=0, x>=0
func refLogBesselI(v, x float64) float64 {
	switch {
	case math.IsNaN(x):
		return nan
	case x == 0:
		if v == 0 {
			return 0
		}
		return math.Inf(-1)
	case math.IsInf(x, 1):
		return math.Inf(1)
	}
	if x <= 500 {
		// power series sum_k (x/2)^(2k+v) / (k! Gamma(k+v+1)); all terms positive
		q := x * x / 4
		s, t := 1.0, 1.0
		for k := 0; k < 100000; k++ {
			t *= q / (float64(k+1) * (float64(k+1) + v))
			s += t
			if t < s*1e-18 {
				break
			}
		}
		lg, _ := math.Lgamma(v + 1)
		return v*math.Log(x/2) - lg + math.Log(s)
	}
	// Hankel asymptotic expansion
	mu := 4 * v * v
	s, t := 1.0, 1.0
	for k := 1; k <= 30; k++ {
		t *= -(mu - float64((2*k-1)*(2*k-1))) / (float64(k) * 8 * x)
		s += t
		if math.Abs(t) < 1e-18 {
			break
		}
	}
	return x - 0.5*math.Log(2*math.Pi*x) + math.Log(s)
}

func refBesselI(v, x float64) float64 {
	l := refLogBesselI(v, x)
	return math.Exp(l)
}

// selfTest validates the reference formulas against closed forms.
func selfTest() []string {
	var bad []string
	chk := func(name string, got, want, rel float64) {
		if !(math.Abs(got-want) <= rel*math.Abs(want)+1e-300) {
			bad = append(bad, fmt.Sprintf("%s: got %v want %v", name, got, want))
		}
	}
	for _, x := range []float64{0.125, 0.5, 1, 2, 3, 7, 20, 100, 127} {
		chk(fmt.Sprintf("P(1,%v)", x), refGammaP(1, x), -math.Expm1(-x), 1e-13)
		chk(fmt.Sprintf("P(0.5,%v)", x), refGammaP(0.5, x), math.Erf(math.Sqrt(x)), 1e-13)
		// P(2.5,x) = erf(sqrt x) - e^-x sqrt(x) (2/sqrt(pi)) (1 + 2x/3)
		chk(fmt.Sprintf("P(2.5,%v)", x), refGammaP(2.5, x), math.Erf(math.Sqrt(x))-math.Exp(-x)*math.Sqrt(x)*2/math.Sqrt(math.Pi)*(1+2*x/3), 2e-11)
		// log I_1/2 = log( sqrt(2/(pi x)) sinh x )
		lsinh := x + math.Log1p(-math.Exp(-2*x)) - math.Ln2
		chk(fmt.Sprintf("logI(0.5,%v)", x), refLogBesselI(0.5, x), 0.5*math.Log(2/(math.Pi*x))+lsinh, 1e-12)
		// I_5/2 = sqrt(2/(pi x)) ((1+3/x^2) sinh x - 3/x cosh x)
		if x >= 1 && x < 300 {
			chk(fmt.Sprintf("I(2.5,%v)", x), refBesselI(2.5, x), math.Sqrt(2/(math.Pi*x))*((1+3/(x*x))*math.Sinh(x)-3/x*math.Cosh(x)), 1e-11)
		}
	}
	// series and asymptotic branch of log I_v agree where both are valid
	for _, v := range []float64{0, 0.5, 1, 2.5} {
		x := 400.0
		q := x * x / 4
		s, t := 1.0, 1.0
		for k := 0; k < 100000; k++ {
			t *= q / (float64(k+1) * (float64(k+1) + v))
			s += t
			if t < s*1e-18 {
				break
			}
		}
		lg, _ := math.Lgamma(v + 1)
		series := v*math.Log(x/2) - lg + math.Log(s)
		mu := 4 * v * v
		s, t = 1.0, 1.0
		for k := 1; k <= 30; k++ {
			t *= -(mu - float64((2*k-1)*(2*k-1))) / (float64(k) * 8 * x)
			s += t
		}
		chk(fmt.Sprintf("logI series/asymptotic v=%v", v), series, x-0.5*math.Log(2*math.Pi*x)+math.Log(s), 1e-13)
	}
	// I_0, I_1 against a direct quadrature of (1/pi) int_0^pi e^{x cos t} cos(v t) dt
	for _, x := range []float64{0.5, 1, 3, 7} {
		for _, v := range []float64{0, 1} {
			n := 2000
			sum := 0.0
			for i := 0; i < n; i++ {
				th := (float64(i) + 0.5) * math.Pi / float64(n)
				sum += math.Exp(x*math.Cos(th)) * math.Cos(v*th)
			}
			chk(fmt.Sprintf("I(%v,%v) quadrature", v, x), refBesselI(v, x), sum/float64(n), 1e-10)
		}
	}
	// log erfc asymptotic branch joins log(erfc) continuously
	chk("logerfc join", refLogErfc(25), math.Log(math.Erfc(24.999999999)), 1e-9)
	chk("logerfc(26)", refLogErfc(26), math.Log(math.Erfc(26)), 1e-13)
	chk("log1pexp(0)", refLog1pExp(0), math.Ln2, 1e-15)
	chk("logadd", refLogAdd(1, 2), math.Log(math.E+math.E*math.E), 1e-15)
	chk("logsub", refLogSub(2, 1), math.Log(math.E*math.E-math.E), 1e-15)
	chk("mlgamma(3,2)", refMlgamma(3, 2), math.Log(math.Sqrt(math.Pi)*math.Gamma(3)*math.Gamma(2.5)), 1e-14)
	return bad
}
